/- C10, classification of refused inputs — how a text that is not accepted is split between `IncompleteInput` and
   `InvalidInput` (acceptance itself: AJ/Props/C10.lean; `TooDeep`: AJ/Props/C15.lean).

   `text t` is the input up to its first NUL (all of it if there is none); `run cfg L t = (code, document, bytes taken)`.
   For EVERY configuration (comments, nan, inf, decodeUnicode, maxStrLen), nesting limit and input:
   * `nul_is_end`, `run_local`: the end of the input and a NUL are the same thing; the answer depends only on the bytes
     taken from the reader;
   * `never_reads_past_nul`, `incomplete_reads_to_the_end`, `empty_reads_to_the_end`, `invalid_stops_inside`,
     `toodeep_stops_inside`, `nomem_stops_inside`: where the reader stands when the deserializer answers;
   * `invalid_is_final`, `invalid_never_ok`, `toodeep_final`, `nomem_final`, `nomem_final_triple`: an error that was not
     caused by the end of the input is the answer for every input with the same beginning. The exceptions (`Dangling`:
     the text ends with a number byte or, comments enabled, with `/`) are real: `-`, `[1,-`, `/`, `[1/` are
     `InvalidInput` and have accepted continuations;
   * `NoMemory` for an unquoted key longer than `maxStrLen` (`LongTail`: the text ends with such a run of identifier
     bytes): the key is read to its end, the byte that ends it — the terminator, when the text ends inside the key — is
     taken as look-ahead. The code and the document are final (`nomem_final`); the number of bytes taken is not
     (`ClassExamples`: `{abc` with `maxStrLen = 2`);
   * `incomplete_is_extendable`: an `IncompleteInput` text is a proper prefix of an accepted one, provided it is shorter
     than `maxStrLen` (`incomplete_not_extendable`: the condition cannot be dropped);
   * `prefix_of_accepted`, `prefix_of_closed_value`: the proper prefixes of an accepted text;
   * `classification`: the summary.
   `ClassExamples`: kernel-checked instances.
   Helper lemmas: AJ/Lemmas/Class*.lean (generic two-run simulation `tw_mutual`, fuel independence `fm_mutual`, the stop
   invariant `gh_mutual`, completion `inc_all`), AJ/Lemmas/DialectClass2.lean. -/
import AJ.Lemmas.DialectClass2
import AJ.Lemmas.ClassNoMem
import AJ.Lemmas.ClassExt3
import AJ.Props.C10
set_option linter.unusedSimpArgs false
set_option linter.unusedVariables false
namespace C10
open JD Spec.Dialect

/-! ## The end of the input is a NUL; the answer depends only on the bytes taken -/

/-- **C10 (end of input = NUL terminator).** Appending a NUL to the input changes neither the code nor the document;
    the number of bytes taken from the reader grows by at most one (the terminator itself). -/
theorem nul_is_end (cfg : Cfg) (L : Nat) (t : List UInt8) :
    (run cfg L (t ++ [0])).1 = (run cfg L t).1 ∧ (run cfg L (t ++ [0])).2.1 = (run cfg L t).2.1 ∧
      (run cfg L t).2.2 = min (run cfg L (t ++ [0])).2.2 t.length :=
  run_nul_end cfg L t

/-- **C10 (locality).** If the run over `p ++ x` (`x` not empty) took no byte of `x` from the reader, then the answer —
    code, document, number of bytes taken — is the same for every input that starts with `p`. -/
theorem run_local (cfg : Cfg) (L : Nat) (p x y : List UInt8) (hx : x ≠ [])
    (h : (run cfg L (p ++ x)).2.2 ≤ p.length) : run cfg L (p ++ y) = run cfg L (p ++ x) :=
  JD.run_local cfg L p x y hx h

/-! ## Where the reader stands -/

/-- the facts of AJ/Lemmas/ClassRun2.lean for the NUL-terminated input -/
theorem stop_facts (cfg : Cfg) (L : Nat) (t : List UInt8) :
    StopFacts cfg (t ++ [0]) (text t).length (run cfg L (t ++ [0])) :=
  run_stop (nulAt_append t) L

/-- **C10 (nothing is read after the terminator).** The reader never takes a byte after the first NUL. -/
theorem never_reads_past_nul (cfg : Cfg) (L : Nat) (t : List UInt8) :
    (run cfg L t).2.2 ≤ min ((text t).length + 1) t.length := by
  obtain ⟨_, _, e3⟩ := nul_is_end cfg L t
  have hs := (stop_facts cfg L t).1
  rw [e3]; omega

/-- **C10 (`IncompleteInput` = the input ended).** When the answer is `IncompleteInput`, the reader has taken the whole
    text and the terminator: every byte up to and including the first NUL — or every byte of the input when it contains
    no NUL. -/
theorem incomplete_reads_to_the_end (cfg : Cfg) (L : Nat) (t : List UInt8) (h : (run cfg L t).1 = .incomplete) :
    (run cfg L t).2.2 = min ((text t).length + 1) t.length := by
  obtain ⟨e1, _, e3⟩ := nul_is_end cfg L t
  have hs := (stop_facts cfg L t).2.1 (Or.inl (e1.trans h))
  rw [e3, hs]

/-- the same for `EmptyInput` -/
theorem empty_reads_to_the_end (cfg : Cfg) (L : Nat) (t : List UInt8) (h : (run cfg L t).1 = .empty) :
    (run cfg L t).2.2 = min ((text t).length + 1) t.length := by
  obtain ⟨e1, _, e3⟩ := nul_is_end cfg L t
  have hs := (stop_facts cfg L t).2.1 (Or.inr (e1.trans h))
  rw [e3, hs]

/-- **C10 (`InvalidInput` stops inside the text, or at a token cut by the end).** When the answer is `InvalidInput`,
    either the last byte taken is a byte of the text (not the terminator) — the byte the deserializer stumbled on —,
    or the reader took the whole text and the terminator, and then the text ends with a number byte or, when comments are
    enabled, with `/` (`Dangling`). -/
theorem invalid_stops_inside (cfg : Cfg) (L : Nat) (t : List UInt8) (h : (run cfg L t).1 = .invalid) :
    (1 ≤ (run cfg L t).2.2 ∧ (run cfg L t).2.2 ≤ (text t).length ∧
      ∃ c, t[(run cfg L t).2.2 - 1]? = some c ∧ c ≠ 0) ∨
    ((run cfg L t).2.2 = min ((text t).length + 1) t.length ∧ Dangling cfg (text t)) := by
  obtain ⟨e1, _, e3⟩ := nul_is_end cfg L t
  have hl := text_length_le t
  rcases (stop_facts cfg L t).2.2.1 (e1.trans h) with ⟨a1, a2, c, a3, a4⟩ | ⟨b1, b2⟩
  · left
    have hp : (run cfg L t).2.2 = (run cfg L (t ++ [0])).2.2 := by rw [e3]; omega
    rw [hp]
    refine ⟨a1, a2, c, ?_, a4⟩
    rw [List.getElem?_append_left (by omega)] at a3
    exact a3
  · right
    refine ⟨by rw [e3, b1], ?_⟩
    obtain ⟨x, hx⟩ := nul_split t
    rw [hx] at b2
    exact dangling_of_dang b2

/-- the text in front of the terminator -/
theorem take_text (t : List UInt8) : (t ++ [0]).take (text t).length = text t := by
  obtain ⟨x, hx⟩ := nul_split t
  rw [hx]
  simp

/-- the text ends with more than `maxStrLen` identifier bytes (the bytes of an unquoted key) -/
theorem longTail_def (cfg : Cfg) (e : List UInt8) :
    LongTail cfg e ↔ ∃ pre k, e = pre ++ k ∧ (∀ c ∈ k, inUnquoted c = true) ∧ cfg.maxStrLen < k.length := Iff.rfl

/-- `LongTail` as a computation -/
theorem longTail_iff (cfg : Cfg) (e : List UInt8) :
    LongTail cfg e ↔ cfg.maxStrLen < (e.reverse.takeWhile inUnquoted).length := by
  constructor
  · rintro ⟨pre, k, rfl, hk, hl⟩
    rw [List.reverse_append, List.takeWhile_append_of_pos (by intro a ha; exact hk a (List.mem_reverse.mp ha))]
    simp only [List.length_append, List.length_reverse]
    omega
  · intro h
    refine ⟨(e.reverse.dropWhile inUnquoted).reverse, (e.reverse.takeWhile inUnquoted).reverse, ?_, ?_, by simpa using h⟩
    · rw [← List.reverse_append, List.takeWhile_append_dropWhile, List.reverse_reverse]
    · intro c hc
      have := List.all_takeWhile (p := inUnquoted) (l := e.reverse)
      rw [List.all_eq_true] at this
      exact this c (List.mem_reverse.mp hc)

instance (cfg : Cfg) (e : List UInt8) : Decidable (LongTail cfg e) := decidable_of_iff _ (longTail_iff cfg e).symm

/-- **C10 (`TooDeep` is answered inside the text).** -/
theorem toodeep_stops_inside (cfg : Cfg) (L : Nat) (t : List UInt8) (h : (run cfg L t).1 = .tooDeep) :
    (run cfg L t).2.2 ≤ (text t).length := by
  obtain ⟨e1, _, e3⟩ := nul_is_end cfg L t
  have hs := (stop_facts cfg L t).2.2.2.1 (e1.trans h)
  rw [e3]; omega

/-- **C10 (`NoMemory` is answered inside the text, or at the end of an unquoted key that is too long).** When the
    answer is `NoMemory`, either the reader did not take the terminator, or it took the whole text and the terminator,
    and then the text ends with more than `maxStrLen` identifier bytes: an unquoted key is read to its end (the byte
    that ends it is taken as look-ahead) before its length is checked. -/
theorem nomem_stops_inside (cfg : Cfg) (L : Nat) (t : List UInt8) (h : (run cfg L t).1 = .noMemory) :
    (run cfg L t).2.2 ≤ (text t).length ∨
    ((run cfg L t).2.2 = min ((text t).length + 1) t.length ∧ LongTail cfg (text t)) := by
  obtain ⟨e1, _, e3⟩ := nul_is_end cfg L t
  rcases (stop_facts cfg L t).2.2.2.2 (e1.trans h) with a | ⟨b1, b2⟩
  · left; rw [e3]; omega
  · right
    rw [take_text] at b2
    exact ⟨by rw [e3, b1], b2⟩

/-- `TooDeep` and `NoMemory` together: the reader stands inside the text, except at the end of an unquoted key that is
    too long. (Before the model correction for unquoted keys this read `… ≤ (text t).length`; that statement is false,
    see `ClassExamples.old_stop_inside_false`.) -/
theorem toodeep_nomem_stop_inside (cfg : Cfg) (L : Nat) (t : List UInt8)
    (h : (run cfg L t).1 = .tooDeep ∨ (run cfg L t).1 = .noMemory) :
    (run cfg L t).2.2 ≤ (text t).length + 1 ∧
    (¬ ((run cfg L t).1 = .noMemory ∧ LongTail cfg (text t)) → (run cfg L t).2.2 ≤ (text t).length) := by
  have hn := never_reads_past_nul cfg L t
  refine ⟨by omega, fun hno => ?_⟩
  rcases h with h | h
  · exact toodeep_stops_inside cfg L t h
  · rcases nomem_stops_inside cfg L t h with a | ⟨_, b⟩
    · exact a
    · exact absurd ⟨h, b⟩ hno

/-! ## Finality -/

/-- if the run over the NUL-terminated input did not take the terminator, the answer is the same for every input
    that starts with the text -/
theorem determined_by_text (cfg : Cfg) (L : Nat) (t : List UInt8)
    (h : (run cfg L (t ++ [0])).2.2 ≤ (text t).length) (ext : List UInt8) :
    run cfg L (text t ++ ext) = run cfg L t := by
  obtain ⟨e1, e2, e3⟩ := nul_is_end cfg L t
  obtain ⟨x, hx⟩ := nul_split t
  have hl := text_length_le t
  rw [hx] at h
  have h1 := JD.run_local cfg L (text t) (0 :: x) ext (by simp) h
  rw [← hx] at h1 h
  rw [h1]
  apply Prod.ext e1
  apply Prod.ext e2
  rw [e3]; omega

/-- on an input that contains a NUL: if the terminator was not taken, the answer (whatever it is) is the same for every
    input that starts with the text -/
theorem final_of_stops_inside (cfg : Cfg) (L : Nat) (t : List UInt8) (hn : (text t).length < t.length)
    (h : (run cfg L t).2.2 ≤ (text t).length) (ext : List UInt8) : run cfg L (text t ++ ext) = run cfg L t := by
  obtain ⟨_, _, e3⟩ := nul_is_end cfg L t
  apply determined_by_text
  rw [e3] at h
  omega

/-- **C10 (`InvalidInput` is final).** If the answer is `InvalidInput` and the text does not end with a number byte
    (nor with `/` when comments are enabled), then every input that starts with the text gets the same answer: no
    continuation of the text is accepted. -/
theorem invalid_is_final (cfg : Cfg) (L : Nat) (t : List UInt8) (h : (run cfg L t).1 = .invalid)
    (hd : ¬ Dangling cfg (text t)) (ext : List UInt8) : run cfg L (text t ++ ext) = run cfg L t := by
  obtain ⟨e1, _, _⟩ := nul_is_end cfg L t
  apply determined_by_text
  rcases (stop_facts cfg L t).2.2.1 (e1.trans h) with ⟨_, a2, _⟩ | ⟨_, b2⟩
  · exact a2
  · obtain ⟨x, hx⟩ := nul_split t
    rw [hx] at b2
    exact absurd (dangling_of_dang b2) hd

theorem invalid_never_ok (cfg : Cfg) (L : Nat) (t : List UInt8) (h : (run cfg L t).1 = .invalid)
    (hd : ¬ Dangling cfg (text t)) (ext : List UInt8) : (run cfg L (text t ++ ext)).1 ≠ .ok := by
  rw [invalid_is_final cfg L t h hd ext, h]; exact Code.noConfusion

/-- **C10 (`TooDeep` is final).** -/
theorem toodeep_final (cfg : Cfg) (L : Nat) (t : List UInt8) (h : (run cfg L t).1 = .tooDeep) (ext : List UInt8) :
    run cfg L (text t ++ ext) = run cfg L t := by
  obtain ⟨e1, _, _⟩ := nul_is_end cfg L t
  apply determined_by_text
  exact (stop_facts cfg L t).2.2.2.1 (e1.trans h)

/-- **C10 (`NoMemory` is final: code and document).** Every input that starts with the text is answered `NoMemory`, with
    the same document. -/
theorem nomem_final (cfg : Cfg) (L : Nat) (t : List UInt8) (h : (run cfg L t).1 = .noMemory) (ext : List UInt8) :
    (run cfg L (text t ++ ext)).1 = .noMemory ∧ (run cfg L (text t ++ ext)).2.1 = (run cfg L t).2.1 := by
  obtain ⟨e1, e2, _⟩ := nul_is_end cfg L t
  obtain ⟨x, hx⟩ := nul_split t
  have := run_nomem_final cfg L (text t) x ext (text_nz t) (by rw [← hx, e1]; exact h)
  rw [← hx] at this
  exact ⟨this.1, this.2.trans e2⟩

/-- **C10 (`NoMemory` is final: the whole answer)**, unless the text ends with more than `maxStrLen` identifier bytes
    (then a longer key is read further: `ClassExamples`). -/
theorem nomem_final_triple (cfg : Cfg) (L : Nat) (t : List UInt8) (h : (run cfg L t).1 = .noMemory)
    (hs : ¬ LongTail cfg (text t)) (ext : List UInt8) : run cfg L (text t ++ ext) = run cfg L t := by
  obtain ⟨e1, _, _⟩ := nul_is_end cfg L t
  apply determined_by_text
  rcases (stop_facts cfg L t).2.2.2.2 (e1.trans h) with a | ⟨_, b2⟩
  · exact a
  · rw [take_text] at b2
    exact absurd b2 hs

/-- **C10 (`TooDeep` and `NoMemory` are final).** The code and the document are the same for every input that starts
    with the text; so is the number of bytes taken, except for `NoMemory` on a text that ends with more than `maxStrLen`
    identifier bytes. (Before the model correction for unquoted keys this was the equality of the whole answer in all
    cases; that statement is false, see `ClassExamples.old_final_false`.) -/
theorem toodeep_nomem_final (cfg : Cfg) (L : Nat) (t : List UInt8)
    (h : (run cfg L t).1 = .tooDeep ∨ (run cfg L t).1 = .noMemory) (ext : List UInt8) :
    (run cfg L (text t ++ ext)).1 = (run cfg L t).1 ∧ (run cfg L (text t ++ ext)).2.1 = (run cfg L t).2.1 ∧
    (¬ ((run cfg L t).1 = .noMemory ∧ LongTail cfg (text t)) → run cfg L (text t ++ ext) = run cfg L t) := by
  rcases h with h | h
  · have := toodeep_final cfg L t h ext
    exact ⟨by rw [this], by rw [this], fun _ => this⟩
  · obtain ⟨a, b⟩ := nomem_final cfg L t h ext
    exact ⟨by rw [a, h], b, fun hno => nomem_final_triple cfg L t h (fun hl => hno ⟨h, hl⟩) ext⟩

/-! ## Prefixes of an accepted text -/

/-- the number of bytes taken on an accepted text: the white space and the value, plus one look-ahead byte (if there
    is one) after a number -/
theorem doc_pos (cfg : Cfg) {L : Nat} {w body rest : List UInt8} {v : Val} (hw : DWs cfg w) (hv : Value cfg L body v)
    (htr : Trailer v rest) :
    (run cfg L (w ++ body ++ rest)).2.2 = w.length + body.length + (if isNumberVal v then min 1 rest.length else 0) := by
  have hrun : JD.run cfg L (w ++ body ++ rest) =
      (match parseVariant cfg (2 * (w ++ body ++ rest).length + 4) L { l := { unread := w ++ body ++ rest } } with
       | (.ok, v, s) =>
         if s.l.cur != 0 && !isWs s.l.cur && isNumberVal v then (.invalid, v, s.l.pos) else (.ok, v, s.l.pos)
       | (e, v, s) => (e, v, s.l.pos)) := rfl
  have hd : isNumberVal v = true → Delim cfg rest := by
    intro hn c r hr
    have := htr hn
    rw [hr] at this
    rcases this with h0 | hws
    · have : c = 0 := h0
      subst this; exact inNumber_zero cfg
    · exact (sep_facts cfg c (Or.inl hws)).1
  obtain ⟨s', hp, _, hpost⟩ := complete cfg hv (2 * (w ++ body ++ rest).length + 4) w rest
    { l := { unread := w ++ body ++ rest } } hw rfl rfl (by simp; omega) hd
  rw [hrun, hp]
  cases hn : isNumberVal v with
  | false =>
    rw [hn] at hpost
    simp only [Bool.false_eq_true, ↓reduceIte] at hpost
    simp only [hn, Bool.and_false, Bool.false_eq_true, ↓reduceIte, hpost.2.2]
    omega
  | true =>
    rw [hn] at hpost
    simp only [↓reduceIte] at hpost
    have hc : (s'.l.cur != 0 && !isWs s'.l.cur) = false := by
      rw [hpost.2.1]
      rcases htr hn with h0 | hws
      · rw [h0]; rfl
      · rw [hws]; simp
    simp only [hc, hn, Bool.false_and, Bool.false_eq_true, ↓reduceIte, hpost.2.2.2]
    omega

/-- a number value comes from a number token -/
theorem value_number_head {cfg : Cfg} {L : Nat} {body : List UInt8} {v : Val} (hv : Value cfg L body v)
    (hn : isNumberVal v = true) : ∃ c cs, body = c :: cs ∧ NumStartD c := by
  cases hv with
  | num _ _ _ h => exact numTok_head h
  | _ => cases hn

/-- a value that is not a number does not start like a number -/
theorem value_other_head {cfg : Cfg} {L : Nat} {body : List UInt8} {v : Val} (hv : Value cfg L body v)
    (hn : isNumberVal v = false) : ∃ c cs, body = c :: cs ∧ ¬ NumStartD c := by
  have no : ∀ c : UInt8, (c = 0x5B ∨ c = 0x7B ∨ c = 0x22 ∨ c = 0x27 ∨ c = 0x74 ∨ c = 0x66 ∨ c = 0x6E) → ¬ NumStartD c := by
    intro c hc hs
    obtain ⟨_, a1, a2, a3, a4, a5, a6, a7, _, _⟩ := numStartD_facts hs
    rcases hc with rfl | rfl | rfl | rfl | rfl | rfl | rfl
    · cases a1
    · cases a2
    · cases a3
    · cases a4
    · cases a5
    · cases a6
    · cases a7
  cases hv with
  | null => exact ⟨_, _, rfl, no _ (by decide)⟩
  | «true» => exact ⟨_, _, rfl, no _ (by decide)⟩
  | «false» => exact ⟨_, _, rfl, no _ (by decide)⟩
  | num _ _ _ h => rw [numDen_isNumber h.2.2.2] at hn; cases hn
  | str _ q b s hq _ _ =>
    refine ⟨q, b ++ [q], by simp, ?_⟩
    rcases hq with rfl | rfl
    · exact no _ (by decide)
    · exact no _ (by decide)
  | arrEmpty _ w _ => exact ⟨0x5B, w ++ [0x5D], by simp, no _ (by decide)⟩
  | arr _ b _ _ => exact ⟨0x5B, b ++ [0x5D], by simp, no _ (by decide)⟩
  | objEmpty _ w _ => exact ⟨0x7B, w ++ [0x7D], by simp, no _ (by decide)⟩
  | obj _ b _ _ => exact ⟨0x7B, b ++ [0x7D], by simp, no _ (by decide)⟩

theorem tok_noWs {c : UInt8} (hx : Tok c) : NoWs c := by
  refine ⟨fun hws => ?_, hx.2.2⟩
  have := (ws_byte hws).2
  rw [hx.2.1] at this
  cases this

/-- a prefix of the text is free of NUL bytes -/
theorem prefix_nz {t p z : List UInt8} (ht : t = p ++ z) (hl : p.length ≤ (text t).length) : ∀ c ∈ p, c ≠ 0 := by
  obtain ⟨r', hs, _⟩ := text_split t
  have h1 : p = (text t).take p.length := by
    have : (p ++ z).take p.length = (text t ++ r').take p.length := by rw [← ht, ← hs]
    rw [List.take_left', List.take_append_of_le_length hl] at this
    · exact this
    · rfl
  intro c hc
  rw [h1] at hc
  exact text_nz t c (List.mem_of_mem_take hc)

/-- **C10 (proper prefixes of an accepted text).** Let `t` be accepted and `p` a proper prefix of the part of `t` that
    the deserializer took (white space and value). Then the answer on `p` is one of:
    * `IncompleteInput`;
    * `EmptyInput`, when `p` is inside the leading white space;
    * `InvalidInput`, and then `p` ends with a number byte (a sign alone: `-`) or, with comments enabled, with `/`;
    * `Ok`, and then both `p` and `t` are numbers (`12` in `123`).
    In every case the whole of `p` was read: never an `InvalidInput` caused by a byte of `p`, never `TooDeep`, never
    `NoMemory`. -/
theorem prefix_of_accepted (cfg : Cfg) (L : Nat) (t p z : List UInt8) (h : (run cfg L t).1 = .ok) (ht : t = p ++ z)
    (hlen : p.length < (run cfg L t).2.2) :
    (run cfg L p).1 = .incomplete ∨ ((run cfg L p).1 = .empty ∧ DWs cfg p) ∨
    ((run cfg L p).1 = .invalid ∧ Dangling cfg p) ∨
    ((run cfg L p).1 = .ok ∧ isNumberVal (run cfg L p).2.1 = true ∧ isNumberVal (run cfg L t).2.1 = true) := by
  have hnp := never_reads_past_nul cfg L t
  have hpz : ∀ c ∈ p, c ≠ 0 := prefix_nz ht (by omega)
  have htp : text p = p := text_of_nz hpz
  have hz : z ≠ [] := by
    intro hz
    rw [hz, List.append_nil] at ht
    subst ht
    omega
  have sf := stop_facts cfg L p
  rw [htp] at sf
  obtain ⟨e1, e2, e3⟩ := nul_is_end cfg L p
  -- the run over `p` followed by a NUL took the NUL
  have hpos : (run cfg L (p ++ [0])).2.2 = p.length + 1 := by
    by_cases hle : (run cfg L (p ++ [0])).2.2 ≤ p.length
    · have := JD.run_local cfg L p [0] z (by simp) hle
      rw [← ht] at this
      rw [this] at hlen
      omega
    · have := sf.1; omega
  have hnf := run_ne_fuel cfg L p
  cases hc : (run cfg L p).1 with
  | incomplete => exact Or.inl rfl
  | empty =>
    refine Or.inr (Or.inl ⟨rfl, ?_⟩)
    have := (empty_iff cfg L p).mp hc
    have h2 : p.takeWhile (· != 0) = p := htp
    rw [h2] at this
    exact this
  | invalid =>
    refine Or.inr (Or.inr (Or.inl ⟨rfl, ?_⟩))
    rcases sf.2.2.1 (e1.trans hc) with ⟨_, a2, _⟩ | ⟨_, b2⟩
    · omega
    · have hx : p ++ [0] = p ++ 0 :: [] := rfl
      rw [hx] at b2
      exact dangling_of_dang b2
  | tooDeep => have := sf.2.2.2.1 (e1.trans hc); omega
  | noMemory =>
    -- `NoMemory` is final: `t` would be answered `NoMemory` too
    have := (nomem_final cfg L p hc z).1
    rw [htp, ← ht, h] at this
    cases this
  | fuel => exact absurd hc hnf
  | ok =>
    refine Or.inr (Or.inr (Or.inr ⟨rfl, ?_⟩))
    obtain ⟨w', body', rest', hp', hw', hv', htr'⟩ := run_sound cfg L p hc
    have hnum' : isNumberVal (run cfg L p).2.1 = true := by
      cases hn : isNumberVal (run cfg L p).2.1 with
      | true => rfl
      | false =>
        exfalso
        have htr2 : Trailer (run cfg L p).2.1 (rest' ++ z) := by
          intro h'; rw [hn] at h'; cases h'
        have hpos2 := doc_pos cfg hw' hv' htr2
        have ht2 : t = w' ++ body' ++ (rest' ++ z) := by rw [ht, hp']; simp
        rw [← ht2, hn] at hpos2
        simp only [Bool.false_eq_true, ↓reduceIte, Nat.add_zero] at hpos2
        have : p.length = w'.length + body'.length + rest'.length := by rw [hp']; simp only [List.length_append]
        omega
    refine ⟨hnum', ?_⟩
    cases hn : isNumberVal (run cfg L t).2.1 with
    | true => rfl
    | false =>
      exfalso
      obtain ⟨w, body, rest, htd, hw, hv, _⟩ := run_sound cfg L t h
      obtain ⟨c, cs, rfl, hns⟩ := value_other_head hv hn
      obtain ⟨c', cs', rfl, hs'⟩ := value_number_head hv' hnum'
      obtain ⟨_, _, _, tok, _, _⟩ := value_head_d hv
      obtain ⟨_, _, hb, tok', _, _⟩ := value_head_d hv'
      obtain ⟨rfl, rfl⟩ := List.cons.inj hb
      obtain ⟨_, _, hb2, tok2, _, _⟩ := value_head_d hv
      obtain ⟨rfl, rfl⟩ := List.cons.inj hb2
      have heq : w ++ c :: (cs ++ rest) = w' ++ c' :: (cs' ++ rest' ++ z) := by
        rw [show w ++ c :: (cs ++ rest) = w ++ c :: cs ++ rest by simp, ← htd, ht, hp']; simp
      obtain ⟨_, rfl, _⟩ := dws_prefix_unique hw hw' (tok_noWs tok2) (tok_noWs tok') heq
      exact hns hs'

/-- **C10 (a proper prefix of an accepted array, object, string or literal is `IncompleteInput`)** — unless it is
    white space only, or ends with a number byte / a comment opener (`[-` of `[-1]`, `[1/` of `[1/**/]`), where the
    answer is `InvalidInput`. It is never `Ok`. -/
theorem prefix_of_closed_value (cfg : Cfg) (L : Nat) (t p z : List UInt8) (h : (run cfg L t).1 = .ok) (ht : t = p ++ z)
    (hlen : p.length < (run cfg L t).2.2) (hv : isNumberVal (run cfg L t).2.1 = false) :
    (run cfg L p).1 ≠ .ok ∧ (¬ DWs cfg p → ¬ Dangling cfg p → (run cfg L p).1 = .incomplete) := by
  rcases prefix_of_accepted cfg L t p z h ht hlen with h1 | ⟨h1, h2⟩ | ⟨h1, h2⟩ | ⟨_, _, h3⟩
  · exact ⟨by rw [h1]; exact Code.noConfusion, fun _ _ => h1⟩
  · exact ⟨by rw [h1]; exact Code.noConfusion, fun hw _ => absurd h2 hw⟩
  · exact ⟨by rw [h1]; exact Code.noConfusion, fun _ hd => absurd h2 hd⟩
  · rw [hv] at h3; cases h3

/-- `prefix_of_accepted` under the name of the property statement: a proper prefix (of the part that was read) of an
    accepted text is `IncompleteInput` or `Ok` — `Ok` only for a number inside a number —, apart from the prefixes that
    are white space only (`EmptyInput`) or end with a sign / comment opener cut short (`InvalidInput`, `Dangling`). -/
theorem prefix_of_valid_is_incomplete_or_ok (cfg : Cfg) (L : Nat) (t p z : List UInt8) (h : (run cfg L t).1 = .ok)
    (ht : t = p ++ z) (hlen : p.length < (run cfg L t).2.2) (hw : ¬ DWs cfg p) (hd : ¬ Dangling cfg p) :
    (run cfg L p).1 = .incomplete ∨
    ((run cfg L p).1 = .ok ∧ isNumberVal (run cfg L p).2.1 = true ∧ isNumberVal (run cfg L t).2.1 = true) := by
  rcases prefix_of_accepted cfg L t p z h ht hlen with h1 | ⟨_, h2⟩ | ⟨_, h2⟩ | h4
  · exact Or.inl h1
  · exact absurd h2 hw
  · exact absurd h2 hd
  · exact Or.inr h4

/-! ## An `IncompleteInput` text is the beginning of an accepted one -/

/-- the text in front of the first NUL is determined -/
theorem ends_text {e a z : List UInt8} (he : ∀ c ∈ e, c ≠ 0) (ha : ∀ c ∈ a, c ≠ 0) (h : e ++ [0] = a ++ z)
    (hz : z.headD 0 = 0) : a = e := by
  induction e generalizing a with
  | nil =>
    cases a with
    | nil => rfl
    | cons c a' =>
      simp only [List.nil_append, List.cons_append, List.cons.injEq] at h
      exact absurd h.1.symm (ha c (List.mem_cons_self ..))
  | cons c e' ih =>
    cases a with
    | nil =>
      simp only [List.nil_append, List.cons_append] at h
      rw [← h] at hz
      exact absurd hz (he c (List.mem_cons_self ..))
    | cons c' a' =>
      simp only [List.cons_append, List.cons.injEq] at h
      rw [h.1, ih (fun d hd => he d (List.mem_cons_of_mem _ hd)) (fun d hd => ha d (List.mem_cons_of_mem _ hd)) h.2]

/-- the run over the text followed by one NUL: same code and document as over the input -/
theorem run_text_nul (cfg : Cfg) (L : Nat) (t : List UInt8) :
    (run cfg L (text t ++ [0])).1 = (run cfg L t).1 ∧ (run cfg L (text t ++ [0])).2.1 = (run cfg L t).2.1 := by
  obtain ⟨e1, e2, _⟩ := nul_is_end cfg L t
  obtain ⟨x, hx⟩ := nul_split t
  have hs := (stop_facts cfg L t).1
  have h1 : run cfg L (text t ++ [0]) = run cfg L (t ++ [0]) := by
    cases x with
    | nil => rw [hx]
    | cons b x' =>
      have e : t ++ [0] = (text t ++ [0]) ++ (b :: x') := by rw [hx]; simp
      have := JD.run_local cfg L (text t ++ [0]) (b :: x') [] (by simp) (by rw [← e]; simpa using hs)
      rw [List.append_nil] at this
      rw [this, ← e]
  rw [h1]; exact ⟨e1, e2⟩

/-- **C10 (`IncompleteInput` texts can be completed).** If the answer is `IncompleteInput` and the text is shorter than
    the longest string the document may hold (`|text| + 5 ≤ maxStrLen`), some continuation of the text is accepted. The
    length condition is needed: an unclosed string longer than `maxStrLen` is `IncompleteInput`, and closing it gives
    `NoMemory` (`ClassExamples.incomplete_not_extendable`). -/
theorem incomplete_is_extendable (cfg : Cfg) (L : Nat) (t : List UInt8) (h : (run cfg L t).1 = .incomplete)
    (hB : (text t).length + 5 ≤ cfg.maxStrLen) : ∃ ext, (run cfg L (text t ++ ext)).1 = .ok := by
  have h1 := (run_text_nul cfg L t).1.trans h
  have hrun : JD.run cfg L (text t ++ [0]) =
      (match parseVariant cfg (2 * (text t ++ [0]).length + 4) L { l := { unread := text t ++ [0] } } with
       | (.ok, v, s) =>
         if s.l.cur != 0 && !isWs s.l.cur && isNumberVal v then (.invalid, v, s.l.pos) else (.ok, v, s.l.pos)
       | (e, v, s) => (e, v, s.l.pos)) := rfl
  rw [hrun] at h1
  have hpv : ∃ v s', parseVariant cfg (2 * (text t ++ [0]).length + 4) L { l := { unread := text t ++ [0] } } =
      (.incomplete, v, s') := by
    generalize parseVariant cfg (2 * (text t ++ [0]).length + 4) L { l := { unread := text t ++ [0] } } = o at h1
    obtain ⟨c, v, s'⟩ := o
    cases c with
    | incomplete => exact ⟨v, s', rfl⟩
    | ok => simp only at h1; split at h1 <;> cases h1
    | _ => exact Code.noConfusion h1
  obtain ⟨v, s', hpv⟩ := hpv
  obtain ⟨a, x, w, body, v', ⟨z, hz1, hz2⟩, hax, hw, hv⟩ :=
    (inc_all cfg _).1 L _ (text t ++ [0]) v s' (Rem.un rfl) (by simp; omega) hpv
  have hnz : ∀ c ∈ a, c ≠ 0 := by
    intro c hc
    have : c ∈ w ++ body := by rw [← hax]; exact List.mem_append_left _ hc
    rcases List.mem_append.mp this with hm | hm
    · exact dws_no_nul hw c hm
    · exact value_nz hv c hm
  have hae := ends_text (text_nz t) hnz hz1 hz2
  subst hae
  refine ⟨x, (complete_doc cfg (v := v') ⟨w, body, [], by rw [List.append_nil]; exact hax, hw, hv, fun _ => Or.inl rfl⟩).1⟩

/-- a value text that starts with a quote is a string -/
theorem value_str_inv {cfg : Cfg} {L : Nat} {q : UInt8} {cs : List UInt8} {v : Val} (hv : Value cfg L (q :: cs) v)
    (hq : IsQuote q) : ∃ body s, cs = body ++ [q] ∧ decodeBody cfg q 0 body = some s ∧ s.length ≤ cfg.maxStrLen := by
  have nq : ∀ c : UInt8, (c = 0x6E ∨ c = 0x74 ∨ c = 0x66 ∨ c = 0x5B ∨ c = 0x7B) → ¬ IsQuote c := by
    intro c hc hqc
    rcases hc with rfl | rfl | rfl | rfl | rfl <;> rcases hqc with h | h <;> exact absurd h (by decide)
  generalize hb : q :: cs = b at hv
  cases hv with
  | null => injection hb with h1 _; exact absurd hq (nq _ (by rw [h1]; simp))
  | «true» => injection hb with h1 _; exact absurd hq (nq _ (by rw [h1]; simp))
  | «false» => injection hb with h1 _; exact absurd hq (nq _ (by rw [h1]; simp))
  | num _ _ _ hn =>
    obtain ⟨c, cs', rfl, hs⟩ := numTok_head hn
    injection hb with h1 _
    subst h1
    obtain ⟨_, _, _, a3, a4, _⟩ := numStartD_facts hs
    rcases hq with h | h
    · rw [h] at a3; cases a3
    · rw [h] at a4; cases a4
  | str _ q' body s _ hd hl =>
    simp only [List.cons_append, List.cons.injEq] at hb
    obtain ⟨rfl, rfl⟩ := hb
    exact ⟨body, s, rfl, hd, hl⟩
  | arrEmpty _ w _ => simp only [List.cons_append, List.cons.injEq] at hb; exact absurd hq (nq _ (by rw [hb.1]; simp))
  | arr _ b _ _ => simp only [List.cons_append, List.cons.injEq] at hb; exact absurd hq (nq _ (by rw [hb.1]; simp))
  | objEmpty _ w _ => simp only [List.cons_append, List.cons.injEq] at hb; exact absurd hq (nq _ (by rw [hb.1]; simp))
  | obj _ b _ _ => simp only [List.cons_append, List.cons.injEq] at hb; exact absurd hq (nq _ (by rw [hb.1]; simp))

/-- **the length condition of `incomplete_is_extendable` cannot be dropped**: with `maxStrLen = 0` the text `"a` is
    `IncompleteInput` and no continuation of it is accepted -/
theorem incomplete_not_extendable :
    (run { maxStrLen := 0 } 10 [0x22, 0x61]).1 = .incomplete ∧
    ∀ L ext, (run { maxStrLen := 0 } L ([0x22, 0x61] ++ ext)).1 ≠ .ok := by
  constructor
  · decide +kernel
  · intro L ext hok
    obtain ⟨w, body, rest, ht, hw, hv, _⟩ := run_sound _ L _ hok
    obtain ⟨c, cs, rfl, tok, _, _⟩ := value_head_d hv
    have hq : NoWs (0x22 : UInt8) := tok_noWs (by decide)
    have heq : [] ++ (0x22 : UInt8) :: (0x61 :: ext) = w ++ c :: (cs ++ rest) := by rw [List.nil_append]; simpa using ht
    obtain ⟨rfl, rfl, hcs⟩ := dws_prefix_unique DWs.nil hw hq (tok_noWs tok) heq
    obtain ⟨b, s, rfl, hd, hl⟩ := value_str_inv hv (Or.inl rfl)
    cases b with
    | nil => simp at hcs
    | cons x b' =>
      simp only [List.cons_append, List.append_assoc, List.cons.injEq] at hcs
      obtain ⟨rfl, _⟩ := hcs
      rw [decodeBody_plain (by decide) (by decide) (by decide)] at hd
      cases hd' : decodeBody { maxStrLen := 0 } 0x22 0 b' with
      | none => rw [hd'] at hd; cases hd
      | some y =>
        rw [hd'] at hd
        simp only [Option.map_some, Option.some.injEq] at hd
        subst hd
        simp at hl

/-! ## Summary -/

/-- **C10 (classification).** For every configuration, nesting limit and input, the answer is exactly one of the
    following (`Code.fuel` is an artefact of the model and never happens):
    * `Ok`: the input is a text of the dialect and the document is the one the dialect assigns;
    * `EmptyInput`: the text is white space only; the reader took all of it (and the terminator);
    * `IncompleteInput`: the reader took the whole text and the terminator; some continuation of the text is accepted
      (if the text is shorter than `maxStrLen`);
    * `InvalidInput`: the last byte taken is a byte of the text, and then — unless the text ends with a number byte or
      a comment opener — the answer is the same for every input that starts with the text; or the text ends with a
      number byte / comment opener and the reader took all of it;
    * `TooDeep`: answered inside the text; the same answer for every input that starts with the text;
    * `NoMemory`: answered inside the text, or the text ends with more than `maxStrLen` identifier bytes (an unquoted
      key that is too long, read to its end) and the reader took all of it and the terminator; `NoMemory` and the same
      document for every input that starts with the text; the same number of bytes too, unless the text ends with
      more than `maxStrLen` identifier bytes. -/
theorem classification (cfg : Cfg) (L : Nat) (t : List UInt8) :
    ((run cfg L t).1 = .ok ∧ Doc cfg L t (run cfg L t).2.1) ∨
    ((run cfg L t).1 = .empty ∧ DWs cfg (text t) ∧ (run cfg L t).2.2 = min ((text t).length + 1) t.length) ∨
    ((run cfg L t).1 = .incomplete ∧ (run cfg L t).2.2 = min ((text t).length + 1) t.length ∧
      ((text t).length + 5 ≤ cfg.maxStrLen → ∃ ext, (run cfg L (text t ++ ext)).1 = .ok)) ∨
    ((run cfg L t).1 = .invalid ∧
      ((1 ≤ (run cfg L t).2.2 ∧ (run cfg L t).2.2 ≤ (text t).length ∧ ∃ c, t[(run cfg L t).2.2 - 1]? = some c ∧ c ≠ 0) ∨
       ((run cfg L t).2.2 = min ((text t).length + 1) t.length ∧ Dangling cfg (text t))) ∧
      (¬ Dangling cfg (text t) → ∀ ext, run cfg L (text t ++ ext) = run cfg L t)) ∨
    ((run cfg L t).1 = .tooDeep ∧ (run cfg L t).2.2 ≤ (text t).length ∧
      ∀ ext, run cfg L (text t ++ ext) = run cfg L t) ∨
    ((run cfg L t).1 = .noMemory ∧
      ((run cfg L t).2.2 ≤ (text t).length ∨
       ((run cfg L t).2.2 = min ((text t).length + 1) t.length ∧ LongTail cfg (text t))) ∧
      (∀ ext, (run cfg L (text t ++ ext)).1 = .noMemory ∧ (run cfg L (text t ++ ext)).2.1 = (run cfg L t).2.1) ∧
      (¬ LongTail cfg (text t) → ∀ ext, run cfg L (text t ++ ext) = run cfg L t)) := by
  have hnf := run_ne_fuel cfg L t
  cases hc : (run cfg L t).1 with
  | ok => exact Or.inl ⟨rfl, run_sound cfg L t hc⟩
  | empty =>
    exact Or.inr (Or.inl ⟨rfl, (empty_iff cfg L t).mp hc, empty_reads_to_the_end cfg L t hc⟩)
  | incomplete =>
    exact Or.inr (Or.inr (Or.inl ⟨rfl, incomplete_reads_to_the_end cfg L t hc,
      fun hB => incomplete_is_extendable cfg L t hc hB⟩))
  | invalid =>
    exact Or.inr (Or.inr (Or.inr (Or.inl ⟨rfl, invalid_stops_inside cfg L t hc,
      fun hd ext => invalid_is_final cfg L t hc hd ext⟩)))
  | tooDeep =>
    exact Or.inr (Or.inr (Or.inr (Or.inr (Or.inl ⟨rfl, toodeep_stops_inside cfg L t hc,
      fun ext => toodeep_final cfg L t hc ext⟩))))
  | noMemory =>
    exact Or.inr (Or.inr (Or.inr (Or.inr (Or.inr ⟨rfl, nomem_stops_inside cfg L t hc,
      fun ext => nomem_final cfg L t hc ext, fun hs ext => nomem_final_triple cfg L t hc hs ext⟩))))
  | fuel => exact absurd hc hnf

/-! ## Non-vacuity -/
namespace ClassExamples

/-- `[1,2` : `IncompleteInput`, all 4 bytes taken -/
example : (run {} 10 [0x5B, 0x31, 0x2C, 0x32]).1 = .incomplete ∧ (run {} 10 [0x5B, 0x31, 0x2C, 0x32]).2.2 = 4 := by decide +kernel
example : (run {} 10 [0x5B, 0x31, 0x2C, 0x32]).2.2 = min ((text [0x5B, 0x31, 0x2C, 0x32]).length + 1) 4 :=
  incomplete_reads_to_the_end {} 10 _ (by decide +kernel)
/-- `[1,2` NUL `x]` : the terminator is taken (5 bytes), nothing after it -/
example : (run {} 10 [0x5B, 0x31, 0x2C, 0x32, 0, 0x78, 0x5D]).1 = .incomplete ∧
    (run {} 10 [0x5B, 0x31, 0x2C, 0x32, 0, 0x78, 0x5D]).2.2 = 5 := by decide +kernel
example : (run {} 10 [0x5B, 0x31, 0x2C, 0x32, 0, 0x78, 0x5D]).2.2 =
    min ((text [0x5B, 0x31, 0x2C, 0x32, 0, 0x78, 0x5D]).length + 1) 7 :=
  incomplete_reads_to_the_end {} 10 _ (by decide +kernel)

/-- `[1x` : `InvalidInput` at the third byte, whatever follows -/
example : (run {} 10 [0x5B, 0x31, 0x78]).1 = .invalid ∧ (run {} 10 [0x5B, 0x31, 0x78]).2.2 = 3 := by decide +kernel
example (ext : List UInt8) : (run {} 10 ([0x5B, 0x31, 0x78] ++ ext)).1 = .invalid ∧
    (run {} 10 ([0x5B, 0x31, 0x78] ++ ext)).2.2 = 3 := by
  have h := invalid_is_final {} 10 [0x5B, 0x31, 0x78] (by decide +kernel) (by decide) ext
  have e : text [0x5B, 0x31, 0x78] = [0x5B, 0x31, 0x78] := by decide
  rw [e] at h
  rw [h]; decide +kernel

/-- `[1x2` NUL : the text ends with a number byte (`Dangling`), but the reader stopped at `x`: final by
    `final_of_stops_inside` -/
example (ext : List UInt8) : (run {} 10 ([0x5B, 0x31, 0x78, 0x32] ++ ext)).1 = .invalid := by
  have h := final_of_stops_inside {} 10 [0x5B, 0x31, 0x78, 0x32, 0] (by decide) (by decide +kernel) ext
  have e : text [0x5B, 0x31, 0x78, 0x32, 0] = [0x5B, 0x31, 0x78, 0x32] := by decide
  rw [e] at h
  rw [h]; decide +kernel

/-- the texts that are `InvalidInput` and nevertheless have an accepted continuation: a sign alone where a value is
    expected, and (comments enabled) a `/` alone where white space may stand -/
example : (run {} 10 [0x2D]).1 = .invalid ∧ (run {} 10 [0x2D, 0x31]).1 = .ok := by decide +kernel          -- `-`, `-1`
example : (run {} 10 [0x5B, 0x31, 0x2C, 0x2D]).1 = .invalid ∧
    (run {} 10 [0x5B, 0x31, 0x2C, 0x2D, 0x31, 0x5D]).1 = .ok := by decide +kernel                       -- `[1,-`, `[1,-1]`
example : (run { comments := true } 10 [0x2F]).1 = .invalid ∧
    (run { comments := true } 10 [0x2F, 0x2A, 0x2A, 0x2F, 0x31]).1 = .ok := by decide +kernel            -- `/`, `/**/1`
example : (run { comments := true } 10 [0x5B, 0x31, 0x2F]).1 = .invalid ∧
    (run { comments := true } 10 [0x5B, 0x31, 0x2F, 0x2A, 0x2A, 0x2F, 0x5D]).1 = .ok := by decide +kernel -- `[1/`, `[1/**/]`
/-- they are `Dangling`, as `invalid_stops_inside` says -/
example : Dangling {} [0x5B, 0x31, 0x2C, 0x2D] ∧ Dangling { comments := true } [0x5B, 0x31, 0x2F] ∧
    ¬ Dangling {} [0x5B, 0x31, 0x2F] := by decide
/-- a text that ends with a number byte and is `InvalidInput` for good (`[1-`): `Dangling` is not exact -/
example : (run {} 10 [0x5B, 0x31, 0x2D]).1 = .invalid ∧ (run {} 10 [0x5B, 0x31, 0x2D, 0x31, 0x5D]).1 = .invalid := by
  decide +kernel

/-- `NoMemory` exists in the model (string longer than `maxStrLen`), it is answered after the closing quote and final -/
example : (run { maxStrLen := 1 } 10 [0x22, 0x61, 0x62, 0x22]).1 = .noMemory ∧
    (run { maxStrLen := 1 } 10 [0x22, 0x61, 0x62, 0x22]).2.2 = 4 := by decide +kernel
example (ext : List UInt8) : (run { maxStrLen := 1 } 10 ([0x22, 0x61, 0x62, 0x22] ++ ext)).1 = .noMemory ∧
    (run { maxStrLen := 1 } 10 ([0x22, 0x61, 0x62, 0x22] ++ ext)).2.2 = 4 := by
  have h := nomem_final_triple { maxStrLen := 1 } 10 [0x22, 0x61, 0x62, 0x22] (by decide +kernel) (by decide) ext
  have e : text [0x22, 0x61, 0x62, 0x22] = [0x22, 0x61, 0x62, 0x22] := by decide
  rw [e] at h
  rw [h]; decide +kernel

/-- an unquoted key longer than `maxStrLen`: `{abc` and `{abc:1}` with `maxStrLen = 2`. The key is read to its end and
    the byte after it is taken as look-ahead: 4 bytes for `{abc` (the end of the input), 5 for `{abc` NUL, 5 for
    `{abc:1}`, 6 for `{abcd:1}` -/
example : (run { maxStrLen := 2 } 10 [0x7B, 0x61, 0x62, 0x63]).1 = .noMemory ∧
    (run { maxStrLen := 2 } 10 [0x7B, 0x61, 0x62, 0x63]).2.2 = 4 := by decide +kernel
example : (run { maxStrLen := 2 } 10 [0x7B, 0x61, 0x62, 0x63, 0]).1 = .noMemory ∧
    (run { maxStrLen := 2 } 10 [0x7B, 0x61, 0x62, 0x63, 0]).2.2 = 5 := by decide +kernel
example : (run { maxStrLen := 2 } 10 [0x7B, 0x61, 0x62, 0x63, 0x3A, 0x31, 0x7D]).1 = .noMemory ∧
    (run { maxStrLen := 2 } 10 [0x7B, 0x61, 0x62, 0x63, 0x3A, 0x31, 0x7D]).2.2 = 5 := by decide +kernel
example : (run { maxStrLen := 2 } 10 [0x7B, 0x61, 0x62, 0x63, 0x64, 0x3A, 0x31, 0x7D]).1 = .noMemory ∧
    (run { maxStrLen := 2 } 10 [0x7B, 0x61, 0x62, 0x63, 0x64, 0x3A, 0x31, 0x7D]).2.2 = 6 := by decide +kernel
/-- the same key within the limit is accepted -/
example : (run { maxStrLen := 3 } 10 [0x7B, 0x61, 0x62, 0x63, 0x3A, 0x31, 0x7D]).1 = .ok := by decide +kernel
/-- `{abc` ends with 3 > 2 identifier bytes; `{abc:` does not -/
example : LongTail { maxStrLen := 2 } [0x7B, 0x61, 0x62, 0x63] ∧ ¬ LongTail { maxStrLen := 2 } [0x7B, 0x61, 0x62, 0x63, 0x3A] ∧
    ¬ LongTail { maxStrLen := 3 } [0x7B, 0x61, 0x62, 0x63] := by decide
/-- `nomem_stops_inside` on `{abc` NUL: the second alternative (terminator taken, `LongTail`) is the one that holds -/
example : (run { maxStrLen := 2 } 10 [0x7B, 0x61, 0x62, 0x63, 0]).2.2 =
      min ((text [0x7B, 0x61, 0x62, 0x63, 0]).length + 1) 5 ∧ LongTail { maxStrLen := 2 } (text [0x7B, 0x61, 0x62, 0x63, 0]) := by
  rcases nomem_stops_inside { maxStrLen := 2 } 10 [0x7B, 0x61, 0x62, 0x63, 0] (by decide +kernel) with h | h
  · exact absurd h (by decide +kernel)
  · exact h
/-- the statement of `toodeep_nomem_stop_inside` before the model correction is false: on `{abc` NUL the answer is
    `NoMemory` and 5 bytes are taken, the text has 4 -/
theorem old_stop_inside_false :
    ¬ ∀ (cfg : Cfg) (L : Nat) (t : List UInt8), ((run cfg L t).1 = .tooDeep ∨ (run cfg L t).1 = .noMemory) →
      (run cfg L t).2.2 ≤ (text t).length := by
  intro h
  exact absurd (h { maxStrLen := 2 } 10 [0x7B, 0x61, 0x62, 0x63, 0] (Or.inr (by decide +kernel))) (by decide +kernel)
/-- the statement of `toodeep_nomem_final` before the model correction is false: `{abc` takes 4 bytes, `{abc:` takes 5 -/
theorem old_final_false :
    ¬ ∀ (cfg : Cfg) (L : Nat) (t : List UInt8), ((run cfg L t).1 = .tooDeep ∨ (run cfg L t).1 = .noMemory) →
      ∀ ext, run cfg L (text t ++ ext) = run cfg L t := by
  intro h
  have := h { maxStrLen := 2 } 10 [0x7B, 0x61, 0x62, 0x63] (Or.inr (by decide +kernel)) [0x3A]
  have e : (run { maxStrLen := 2 } 10 (text [0x7B, 0x61, 0x62, 0x63] ++ [0x3A])).2.2 =
      (run { maxStrLen := 2 } 10 [0x7B, 0x61, 0x62, 0x63]).2.2 := by rw [this]
  exact absurd e (by decide +kernel)
/-- `nomem_final` on `{abc`: whatever follows — a longer key, `:1}`, anything — the answer is `NoMemory` -/
example (ext : List UInt8) : (run { maxStrLen := 2 } 10 ([0x7B, 0x61, 0x62, 0x63] ++ ext)).1 = .noMemory := by
  have h := (nomem_final { maxStrLen := 2 } 10 [0x7B, 0x61, 0x62, 0x63] (by decide +kernel) ext).1
  have e : text [0x7B, 0x61, 0x62, 0x63] = [0x7B, 0x61, 0x62, 0x63] := by decide
  rw [e] at h
  exact h
/-- `nomem_final_triple` on `{abc:1}`: the text does not end inside the key, the whole answer is final -/
example (ext : List UInt8) : (run { maxStrLen := 2 } 10 ([0x7B, 0x61, 0x62, 0x63, 0x3A, 0x31, 0x7D] ++ ext)).1 = .noMemory ∧
    (run { maxStrLen := 2 } 10 ([0x7B, 0x61, 0x62, 0x63, 0x3A, 0x31, 0x7D] ++ ext)).2.2 = 5 := by
  have h := nomem_final_triple { maxStrLen := 2 } 10 [0x7B, 0x61, 0x62, 0x63, 0x3A, 0x31, 0x7D] (by decide +kernel)
    (by decide) ext
  have e : text [0x7B, 0x61, 0x62, 0x63, 0x3A, 0x31, 0x7D] = [0x7B, 0x61, 0x62, 0x63, 0x3A, 0x31, 0x7D] := by decide
  rw [e] at h
  rw [h]; decide +kernel
/-- `TooDeep` is final: `[[` with nesting limit 1 -/
example (ext : List UInt8) : (run {} 1 ([0x5B, 0x5B] ++ ext)).1 = .tooDeep ∧ (run {} 1 ([0x5B, 0x5B] ++ ext)).2.2 = 2 := by
  have h := toodeep_final {} 1 [0x5B, 0x5B] (by decide +kernel) ext
  have e : text [0x5B, 0x5B] = [0x5B, 0x5B] := by decide
  rw [e] at h
  rw [h]; decide +kernel

/-- `prefix_of_closed_value` on `{"a":[1]}` and its prefix `{"a":[` -/
example : (run {} 10 [0x7B, 0x22, 0x61, 0x22, 0x3A, 0x5B]).1 = .incomplete := by
  refine (prefix_of_closed_value {} 10 [0x7B, 0x22, 0x61, 0x22, 0x3A, 0x5B, 0x31, 0x5D, 0x7D]
    [0x7B, 0x22, 0x61, 0x22, 0x3A, 0x5B] [0x31, 0x5D, 0x7D] (by decide +kernel) rfl (by decide +kernel) (by decide +kernel)).2
    ?_ (by decide)
  intro h
  cases h with
  | ws c w hc _ => revert hc; unfold IsWsByte; decide

/-- `incomplete_is_extendable` on `{"a":[1,` : some continuation is accepted (for instance `0]}`) -/
example : ∃ ext, (run {} 10 ([0x7B, 0x22, 0x61, 0x22, 0x3A, 0x5B, 0x31, 0x2C] ++ ext)).1 = .ok := by
  have h := incomplete_is_extendable {} 10 [0x7B, 0x22, 0x61, 0x22, 0x3A, 0x5B, 0x31, 0x2C] (by decide +kernel) (by decide)
  have e : text [0x7B, 0x22, 0x61, 0x22, 0x3A, 0x5B, 0x31, 0x2C] = [0x7B, 0x22, 0x61, 0x22, 0x3A, 0x5B, 0x31, 0x2C] := by
    decide
  rw [e] at h
  exact h
example : (run {} 10 ([0x7B, 0x22, 0x61, 0x22, 0x3A, 0x5B, 0x31, 0x2C] ++ [0x30, 0x5D, 0x7D])).1 = .ok := by decide +kernel
/-- an unfinished `\u` escape and an unfinished comment are `IncompleteInput` and can be completed -/
example : (run {} 10 [0x22, 0x5C, 0x75, 0x34]).1 = .incomplete ∧
    (run {} 10 [0x22, 0x5C, 0x75, 0x34, 0x30, 0x30, 0x30, 0x22]).1 = .ok := by decide +kernel      -- `"\u4`, `"\u4000"`
example : (run { comments := true } 10 [0x5B, 0x2F, 0x2A, 0x78]).1 = .incomplete ∧
    (run { comments := true } 10 [0x5B, 0x2F, 0x2A, 0x78, 0x2A, 0x2F, 0x5D]).1 = .ok := by decide +kernel -- `[/*x`, `[/*x*/]`
/-- with `maxStrLen = 0`: `"a` is `IncompleteInput`, closing the string gives `NoMemory` -/
example : (run { maxStrLen := 0 } 10 [0x22, 0x61, 0x22]).1 = .noMemory := by decide +kernel

/-- `12` in `123`: a proper prefix of an accepted number is accepted -/
example : (run {} 10 [0x31, 0x32]).1 = .ok ∧ (run {} 10 [0x31, 0x32, 0x33]).1 = .ok := by decide +kernel

end ClassExamples

end C10
