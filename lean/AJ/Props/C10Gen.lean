/- The character classes of the JSON deserializer model are EXACTLY those of the source: `lean/AJ/Gen/Tables.lean` is regenerated on every
   run by calling `JsonDeserializer::canBeInNumber / canBeInNonQuotedString / isQuote / isSpace / decodeHex` (compiled from /repo, for every
   byte value, in the default, ENABLE_NAN and ENABLE_INFINITY builds); the theorems below compare the model's predicates with those tables
   for all 256 bytes. A change of a class in the source changes the generated table and breaks the theorem (translator tie; no sampling). -/
import AJ.Model.JD
import AJ.Lemmas.Bits
open JD

namespace C10

/-- unquoted keys: `canBeInNonQuotedString` -/
theorem unquoted_class_is_source : ∀ c : UInt8, inUnquoted c = Gen.cls_unquoted.contains c.toNat := by
  have h := Bits.all_bytes (fun c => inUnquoted c == Gen.cls_unquoted.contains c.toNat) (by decide +kernel)
  intro c; simpa using h c

/-- numbers, default build: `canBeInNumber` -/
theorem number_class_is_source_plain : ∀ c : UInt8,
    inNumber { nan := false, inf := false } c = Gen.cls_number_plain.contains c.toNat := by
  have h := Bits.all_bytes (fun c => inNumber { nan := false, inf := false } c == Gen.cls_number_plain.contains c.toNat) (by decide +kernel)
  intro c; simpa using h c

/-- numbers, ENABLE_NAN=1 -/
theorem number_class_is_source_nan : ∀ c : UInt8,
    inNumber { nan := true, inf := false } c = Gen.cls_number_nan.contains c.toNat := by
  have h := Bits.all_bytes (fun c => inNumber { nan := true, inf := false } c == Gen.cls_number_nan.contains c.toNat) (by decide +kernel)
  intro c; simpa using h c

/-- numbers, ENABLE_INFINITY=1 -/
theorem number_class_is_source_inf : ∀ c : UInt8,
    inNumber { nan := false, inf := true } c = Gen.cls_number_inf.contains c.toNat := by
  have h := Bits.all_bytes (fun c => inNumber { nan := false, inf := true } c == Gen.cls_number_inf.contains c.toNat) (by decide +kernel)
  intro c; simpa using h c

/-- the class depends on the configuration only through `nan || inf`, on the other options not at all -/
theorem number_class_cfg (cfg : Cfg) (c : UInt8) :
    inNumber cfg c = inNumber { nan := cfg.nan || cfg.inf, inf := false } c := by
  unfold inNumber; cases cfg.nan <;> cases cfg.inf <;> rfl

/-- white space: `isSpace` -/
theorem space_class_is_source : ∀ c : UInt8, isWs c = Gen.cls_space.contains c.toNat := by
  have h := Bits.all_bytes (fun c => isWs c == Gen.cls_space.contains c.toNat) (by decide +kernel)
  intro c; simpa using h c

/-- quotes: `isQuote` (the model tests `c == 0x22 || c == 0x27` in place) -/
theorem quote_class_is_source : ∀ c : UInt8, (c == 0x22 || c == 0x27) = Gen.cls_quote.contains c.toNat := by
  have h := Bits.all_bytes (fun c => (c == 0x22 || c == 0x27) == Gen.cls_quote.contains c.toNat) (by decide +kernel)
  intro c; simpa using h c

end C10

namespace C17

/-- hex digits: `decodeHex` yields a value ≤ 15 exactly for the bytes of the generated table, and then that value -/
theorem hex_digit_is_source : ∀ c : UInt8,
    (if decodeHex c ≤ 0x0F then some (decodeHex c) else none) = (Gen.hexdigit.find? (fun p => p.1 == c.toNat)).map (·.2) := by
  have h := Bits.all_bytes (fun c => (if decodeHex c ≤ 0x0F then some (decodeHex c) else none) ==
      (Gen.hexdigit.find? (fun p => p.1 == c.toNat)).map (·.2)) (by decide +kernel)
  intro c; simpa using h c

end C17
