/- The dispatch of the JSON deserializer model on the first byte is EXACTLY that of the library: `lean/AJ/Gen/Tables.lean` is regenerated on every run
   by calling `deserializeJson` (compiled from /repo, default build and the build with comments, NaN and Infinity) on each of the 256 first bytes
   followed by three fixed tails, recording the result code, the number of bytes consumed and the compact serialization of the document left; the
   theorems below evaluate the model (deserializer AND serializer) on the same 1536 inputs in the kernel. (Translator tie; no sampling.) -/
import AJ.Model.JD
import AJ.Model.JSer
open JD

namespace C10

def jCodeNo : Code → Nat
  | .ok => 0 | .empty => 1 | .incomplete => 2 | .invalid => 3 | .noMemory => 4 | .tooDeep => 5 | .fuel => 9

/-- what the models answer on a first byte and a tail -/
def jsonFirstRow (cfg : Cfg) (tail : List Byte) (b : Nat) : Nat × Nat × Nat × List Nat :=
  let r := JD.run cfg 10 (UInt8.ofNat b :: tail)
  (b, jCodeNo r.1, r.2.2, (JSer.compact cfg r.2.1).map (·.toNat))

def cfgPlain : Cfg := {}
def cfgExt : Cfg := { comments := true, nan := true, inf := true }
def tailElem : List Byte := [0x31, 0x5D]
def tailKey : List Byte := [0x22, 0x3A, 0x31, 0x7D, 0x78]

theorem json_first_byte_is_source_alone_plain : (List.range 256).map (jsonFirstRow cfgPlain []) = Gen.jsonfirst_alone_plain := by decide +kernel
theorem json_first_byte_is_source_elem_plain : (List.range 256).map (jsonFirstRow cfgPlain tailElem) = Gen.jsonfirst_elem_plain := by decide +kernel
theorem json_first_byte_is_source_key_plain : (List.range 256).map (jsonFirstRow cfgPlain tailKey) = Gen.jsonfirst_key_plain := by decide +kernel
theorem json_first_byte_is_source_alone_ext : (List.range 256).map (jsonFirstRow cfgExt []) = Gen.jsonfirst_alone_ext := by decide +kernel
theorem json_first_byte_is_source_elem_ext : (List.range 256).map (jsonFirstRow cfgExt tailElem) = Gen.jsonfirst_elem_ext := by decide +kernel
theorem json_first_byte_is_source_key_ext : (List.range 256).map (jsonFirstRow cfgExt tailKey) = Gen.jsonfirst_key_ext := by decide +kernel

end C10
