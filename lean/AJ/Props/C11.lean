/- C11 — Filtering equals projecting the unfiltered result; the filter `true` is the identity on every input,
   malformed ones included; the filtered deserializers never build into an absent destination.
   Property theorems only; helper lemmas live in AJ/Lemmas/FilterId.lean. -/
import AJ.Model.JD
import AJ.Model.MD
import AJ.Lemmas.FilterId
import AJ.Lemmas.ProjectSim
import AJ.Lemmas.ProjectState
import AJ.Props.C01
namespace C11
open JD

/-! ## JSON: transparent filters are the identity -/

/-- Any transparent filter (`AllowAllFilter` or `Filter(true)`) gives exactly the unfiltered run:
    same error code, same document, same number of bytes consumed — for every input. -/
theorem json_transparent_identity (cfg : Cfg) (L : Nat) (f : Flt) (input : List Byte) (h : Transparent f) :
    JD.frun cfg L f input = JD.run cfg L input := by
  simp only [frun, run, (fparse_eq_parse (cfg := cfg) (2 * input.length + 4)).1 L f _ h]

/-- `Filter(true)` (also `1`, `1.0f`, `1.0`: whatever `operator==(true)` accepts) is the identity on every input. -/
theorem json_true_identity (cfg : Cfg) (L : Nat) (input : List Byte) (v : Val) (hv : isTrueVal v = true) :
    JD.frun cfg L (.doc (some v)) input = JD.run cfg L input :=
  json_transparent_identity cfg L _ input (transparent_true hv)

/-- `AllowAllFilter` is the identity on every input. -/
theorem json_all_identity (cfg : Cfg) (L : Nat) (input : List Byte) :
    JD.frun cfg L .all input = JD.run cfg L input :=
  json_transparent_identity cfg L _ input transparent_all

/-- what a transparent filter answers to every question the deserializers ask -/
theorem transparent_answers (f : Flt) (h : Transparent f) :
    f.allow = true ∧ f.allowArray = true ∧ f.allowObject = true ∧ f.allowValue = true ∧
    Transparent f.subIdx ∧ ∀ k, Transparent (f.subKey k) := h.all_props

/-! ## MessagePack -/

theorem msgpack_transparent_identity (env : MD.Env) (L : Nat) (f : Flt) (input : List Byte) (h : Transparent f) :
    MD.run env L f input = MD.run env L .all input := by
  simp only [MD.run, (MD.parse_transparent (env := env) (2 * input.length + 4)).1 L f .all true _ h transparent_all]

theorem msgpack_true_identity (env : MD.Env) (L : Nat) (input : List Byte) (v : Val) (hv : isTrueVal v = true) :
    MD.run env L (.doc (some v)) input = MD.run env L .all input :=
  msgpack_transparent_identity env L _ input (transparent_true hv)

/-- "Never crashes", at the level the model can express (hence `_partial`: the model has no notion of a null
    pointer dereference, it has the boolean `hasDst/hasArr/hasObj` = "the destination pointer is non-null").
    The invariant is that nothing is ever produced into an absent destination, whatever the filter, the input
    (malformed included), the fuel and the nesting limit:
    * a variant parsed without destination yields no value,
    * an array read without destination leaves the element accumulator untouched,
    * an object read without destination leaves the member list untouched. -/
theorem no_fault_msgpack_partial (env : MD.Env) (fuel limit : Nat) (flt : Flt) (r : MD.R) :
    (MD.parseVariant env fuel limit flt false r).2.1 = .null ∧
    (∀ n acc, (MD.readArray env fuel limit flt false n r acc).2.1 = acc.reverse) ∧
    (∀ n ms, (MD.readObject env fuel limit flt false n r ms).2.1 = ms) :=
  ⟨MD.parseVariant_noDst fuel limit flt r,
   fun n acc => MD.readArray_noArr fuel limit flt n r acc,
   fun n ms => MD.readObject_noObj fuel limit flt n r ms⟩

/-! ## One level of "filtering = projecting the unfiltered result" (JSON)

The skipping routines (`skipQuoted`, `skipNumeric`, ...) are more lenient than the parsing ones, so error codes
of a filtered and an unfiltered run may differ on malformed input; the statements below are about the
document value and hold for every input and every error code. `u` is the unfiltered top-level value. -/

theorem allowArray_doc (v : Val) : (Flt.doc (some v)).allowArray = (isTrueVal v || v.isArr) := by
  cases v <;> rfl
theorem allowObject_doc (v : Val) : (Flt.doc (some v)).allowObject = (isTrueVal v || v.isObj) := by
  cases v <;> rfl

/-- top-level projection: arrays/objects the filter does not allow become `null`; a scalar is kept iff
    `allowValue`, i.e. iff the filter is `true`. -/
theorem json_projection_top_level (cfg : Cfg) (L : Nat) (flt : Flt) (input : List Byte) :
    let u := (JD.run cfg L input).2.1
    let w := (JD.frun cfg L flt input).2.1
    (u.isArr = true → flt.allowArray = false → w = .null) ∧
    (u.isObj = true → flt.allowObject = false → w = .null) ∧
    (u.isArr = false → u.isObj = false → w = if flt.allowValue then u else .null) := by
  simp only [frun_val, run_val]
  refine ⟨fun h hA => fparseVariant_arr_null _ _ _ _ hA h, fun h hO => fparseVariant_obj_null _ _ _ _ hO h, ?_⟩
  intro h1 h2
  cases hV : flt.allowValue
  · simp only [Bool.false_eq_true, if_false]; exact fparseVariant_scalar_drop _ _ _ _ hV h1 h2
  · simp only [if_true]; rw [fparseVariant_scalar_keep _ _ _ _ hV h1 h2]

/-- scalar documents under a value-allowing filter: the whole result (code, value, bytes consumed) is unchanged -/
theorem json_scalar_kept (cfg : Cfg) (L : Nat) (flt : Flt) (input : List Byte) (hV : flt.allowValue = true)
    (h1 : (JD.run cfg L input).2.1.isArr = false) (h2 : (JD.run cfg L input).2.1.isObj = false) :
    JD.frun cfg L flt input = JD.run cfg L input := by
  rw [run_val] at h1 h2
  simp only [frun, run, fparseVariant_scalar_keep _ _ _ _ hV h1 h2]

/-- The stretch statement: a filter document that is neither `true` nor an array, applied to an input whose
    unfiltered result is an array, gives `null` (whatever the error code, `.ok` included). -/
theorem json_array_filtered_out (cfg : Cfg) (L : Nat) (v : Val) (input : List Byte) (xs : List Val)
    (hv : isTrueVal v = false) (ha : v.isArr = false) (hu : (JD.run cfg L input).2.1 = .arr xs) :
    (JD.frun cfg L (.doc (some v)) input).2.1 = .null :=
  (json_projection_top_level cfg L _ input).1 (by rw [hu]; rfl) (by rw [allowArray_doc, hv, ha]; rfl)

theorem json_object_filtered_out (cfg : Cfg) (L : Nat) (v : Val) (input : List Byte) (ms : List (List Byte × Val))
    (hv : isTrueVal v = false) (ho : v.isObj = false) (hu : (JD.run cfg L input).2.1 = .obj ms) :
    (JD.frun cfg L (.doc (some v)) input).2.1 = .null :=
  (json_projection_top_level cfg L _ input).2.1 (by rw [hu]; rfl) (by rw [allowObject_doc, hv, ho]; rfl)

/-- a scalar filter other than `true` (`false`, `null`, `0`, `2`, `"x"`, ...), or an unbound one, erases everything -/
theorem json_scalar_filter_null (cfg : Cfg) (L : Nat) (v : Val) (input : List Byte)
    (hv : isTrueVal v = false) (ha : v.isArr = false) (ho : v.isObj = false) :
    (JD.frun cfg L (.doc (some v)) input).2.1 = .null ∧ (JD.frun cfg L (.doc none) input).2.1 = .null := by
  simp only [frun_val]
  exact ⟨fparseVariant_closed _ _ _ _ (by rw [allowArray_doc, hv, ha]; rfl) (by rw [allowObject_doc, hv, ho]; rfl) hv,
         fparseVariant_closed _ _ _ _ rfl rfl rfl⟩

/-! ## Filtering = projecting the unfiltered result, on every valid JSON text and for every filter

`Spec.Filter.project` (AJ/Spec/Filter.lean) is the projection of the property text. The helper lemmas are in
AJ/Lemmas/Project.lean (algebra of `project`), ProjectSkip.lean (the skipping routines consume what the parsing
routines consume), ProjectDrop.lean (a refused kind = skipping), ProjectSim.lean (induction on derivations). -/
section Projection
open Spec.Json Spec.Filter
set_option linter.unusedSimpArgs false

/-- **The skip simulation.** On a value of the RFC grammar, from any parser position standing on
    `w ++ t ++ rest` (white space, the value, anything), the skipping routine and the parsing routine both
    succeed and end in literally THE SAME STATE `s'`: latch unloaded, `rest` unread, `|w| + |t|` more bytes
    taken; after a number the latch is LOADED, in both, with the byte that follows the literal (`Post`).
    `skipVariant` enforces the nesting limit `L` like `parseVariant`. (`Pos` covers both an unloaded latch and
    a latch that already holds the first byte; `decodeUnicode` is needed by the parsing side only, see
    `JD.skip_value`.) -/
theorem skip_consumes_like_parse (cfg : Cfg) (hu : cfg.decodeUnicode = true) {L : Nat} {t : List Byte} {v : Val}
    (h : Value cfg L t v) (fuel : Nat) (w rest : List Byte) (s : St) (p : Nat) (f : Bool)
    (hw : Ws w) (hs : Pos s (w ++ (t ++ rest)) p f) (hfuel : w.length + t.length + 1 ≤ fuel)
    (hd : NumLit t → Delim cfg rest) :
    ∃ s', parseVariant cfg fuel L s = (.ok, v, s') ∧ skipVariant cfg fuel L s = (.ok, s') ∧
      Post s' rest (p + w.length + t.length) (isNumberVal v) :=
  skip_same_state hu h fuel w rest s p f hw hs hfuel hd

/-- the same from an unloaded latch, with the resulting latch spelled out (the form of `C01.value_complete`) -/
theorem skip_consumes_like_parse_latch (cfg : Cfg) (hu : cfg.decodeUnicode = true) {L : Nat} {t : List Byte} {v : Val}
    (h : Value cfg L t v) (fuel : Nat) (w rest : List Byte) (s : St)
    (hw : Ws w) (h1 : s.l.loaded = false) (h2 : s.l.unread = w ++ t ++ rest)
    (hfuel : w.length + t.length + 1 ≤ fuel) (hd : NumLit t → Delim cfg rest) :
    ∃ s', parseVariant cfg fuel L s = (.ok, v, s') ∧ skipVariant cfg fuel L s = (.ok, s') ∧ s'.found = true ∧
      (if isNumberVal v then
         s'.l.loaded = true ∧ s'.l.cur = rest.headD 0 ∧ s'.l.unread = rest.tail ∧
         s'.l.pos = s.l.pos + w.length + t.length + min 1 rest.length
       else s'.l.loaded = false ∧ s'.l.unread = rest ∧ s'.l.pos = s.l.pos + w.length + t.length) := by
  have hs : At s (w ++ (t ++ rest)) s.l.pos s.found := ⟨h1, by rw [h2, List.append_assoc], rfl, rfl⟩
  obtain ⟨s', hp, hk, hpost⟩ := skip_same_state hu h fuel w rest s s.l.pos s.found hw hs.pos hfuel hd
  refine ⟨s', hp, hk, ?_⟩
  unfold Post at hpost
  split at hpost
  · rename_i hn
    obtain ⟨f1, f2, f3, f4, f5⟩ := hpost.fields
    exact ⟨f5, by simp only [hn, ↓reduceIte]; exact ⟨f1, f2, f3, f4⟩⟩
  · rename_i hn
    exact ⟨hpost.2.2.2, by simp only [hn, ↓reduceIte]; exact ⟨hpost.1, hpost.2.1, hpost.2.2.1⟩⟩

/-- **Value level**: from any parser position standing on `w ++ t ++ rest`, the filtered parser under ANY filter
    returns `Ok` and the projection of the denoted document, and ends where the unfiltered parser ends. -/
theorem value_projection (cfg : Cfg) (hu : cfg.decodeUnicode = true) {L : Nat} {t : List Byte} {v : Val}
    (h : Value cfg L t v) (flt : Flt) (fuel : Nat) (w rest : List Byte) (s : St) (p : Nat) (f : Bool)
    (hw : Ws w) (hs : Pos s (w ++ (t ++ rest)) p f) (hfuel : w.length + t.length + 1 ≤ fuel)
    (hd : NumLit t → Delim cfg rest) :
    ∃ s', fparseVariant cfg fuel L flt s = (.ok, project flt v, s') ∧
      Post s' rest (p + w.length + t.length) (isNumberVal v) :=
  fcomplete_value hu h flt fuel w rest s p f hw hs hfuel hd

/-- what the unfiltered run answers on a valid text (code, document, bytes taken) -/
theorem run_doc (cfg : Cfg) (hu : cfg.decodeUnicode = true) {L : Nat} {w1 body w2 : List Byte} {v : Val}
    (hw1 : Ws w1) (hw2 : Ws w2) (hv : Value cfg L body v) :
    JD.run cfg L (w1 ++ body ++ w2) =
      (.ok, v, w1.length + body.length + (if isNumberVal v then min 1 w2.length else 0)) := by
  cases hnum : isNumberVal v with
  | false => rw [C01.run_value cfg hu hv hnum w1 w2 hw1]; rfl
  | true =>
    cases hv with
    | num _ _ hl =>
      rw [C01.run_number cfg hl w1 w2 hw1 (delim_ws_end cfg hw2)]
      have : (w2.headD 0 != 0 && !isWs (w2.headD 0)) = false := by
        cases w2 with
        | nil => rfl
        | cons c r => have := (ws_head hw2).2; simp [this]
      simp only [this, Bool.false_eq_true, ↓reduceIte]
    | _ => simp [isNumberVal] at hnum

/-- **C11 (main theorem): filtering a valid JSON text = projecting its document onto the filter.**
    For every text `t` of the RFC 8259 grammar within the limits of the deserializer (`Spec.Json.Doc`, the
    hypothesis under which C01 proves that the unfiltered run succeeds with `v`), and EVERY filter — `AllowAll`,
    unbound, or any filter document whatsoever — the filtered run succeeds, yields exactly `project flt v`, and
    takes the same number of bytes from the reader as the unfiltered run.
    Repeated keys are covered (no distinctness hypothesis): `v` is the merged object (`lastWins`, first position
    kept, last value wins), the filtered deserializer merges only among the members it keeps, and the two agree
    because whether a member is kept and how it is filtered depend on its key only
    (`projectMembers_lastWins`). -/
theorem json_projection (cfg : Cfg) (hu : cfg.decodeUnicode = true) {L : Nat} {t : List Byte} {v : Val}
    (h : Doc cfg L t v) (flt : Flt) :
    JD.frun cfg L flt t = (.ok, project flt v, (JD.run cfg L t).2.2) := by
  obtain ⟨w1, body, w2, rfl, hw1, hw2, hv⟩ := h
  rw [run_doc cfg hu hw1 hw2 hv]
  have hfrun : JD.frun cfg L flt (w1 ++ body ++ w2) =
      (match fparseVariant cfg (2 * (w1 ++ body ++ w2).length + 4) L flt { l := { unread := w1 ++ body ++ w2 } } with
       | (.ok, v, s) =>
         if s.l.cur != 0 && !isWs s.l.cur && isNumberVal v then (.invalid, v, s.l.pos) else (.ok, v, s.l.pos)
       | (e, v, s) => (e, v, s.l.pos)) := rfl
  have hs : At ({ l := { unread := w1 ++ body ++ w2 } } : St) (w1 ++ (body ++ w2)) 0 false :=
    ⟨rfl, by simp, rfl, rfl⟩
  obtain ⟨s', hp, hpost⟩ := fcomplete_value hu hv flt (2 * (w1 ++ body ++ w2).length + 4) w1 w2 _ 0 false hw1 hs.pos
    (by simp; omega) (fun _ => delim_ws_end cfg hw2)
  rw [hfrun, hp]
  unfold Post at hpost
  cases hn : isNumberVal v with
  | false =>
    simp only [hn, Bool.false_eq_true, ↓reduceIte] at hpost
    have hn' : isNumberVal (project flt v) = false := by
      cases hq : isNumberVal (project flt v) with
      | false => rfl
      | true => rw [isNumberVal_project_le flt v hq] at hn; cases hn
    simp only [hn', Bool.and_false, Bool.false_eq_true, ↓reduceIte, hpost.2.2.1]
    simp
  | true =>
    simp only [hn, ↓reduceIte] at hpost
    obtain ⟨_, f2, _, f4, _⟩ := hpost.fields
    have : (s'.l.cur != 0 && !isWs s'.l.cur) = false := by
      rw [f2]
      cases w2 with
      | nil => rfl
      | cons c r => have := (ws_head hw2).2; simp [this]
    simp only [this, Bool.false_and, Bool.false_eq_true, ↓reduceIte, f4]
    simp

/-- the three components separately -/
theorem json_projection_components (cfg : Cfg) (hu : cfg.decodeUnicode = true) {L : Nat} {t : List Byte} {v : Val}
    (h : Doc cfg L t v) (flt : Flt) :
    (JD.frun cfg L flt t).1 = .ok ∧ (JD.frun cfg L flt t).2.1 = project flt (JD.run cfg L t).2.1 ∧
    (JD.frun cfg L flt t).2.2 = (JD.run cfg L t).2.2 := by
  rw [json_projection cfg hu h flt, (C01.valid_json cfg hu h).2]
  exact ⟨rfl, rfl, rfl⟩

/-! ### What the projection is, clause by clause (the property text) -/

/-- "true keeps a value entirely" -/
theorem project_transparent (f : Flt) (h : Transparent f) : ∀ v, project f v = v := by
  have key : ∀ n (v : Val), sizeOf v ≤ n → ∀ f, Transparent f → project f v = v := by
    intro n
    induction n with
    | zero => intro v hv; cases v <;> simp at hv <;> omega
    | succ n ih =>
      intro v hv f h
      cases v with
      | arr xs =>
        simp only [project, h.allowArray, ↓reduceIte, h.subIdx_eq]
        congr 1
        induction xs with
        | nil => simp only [projectElems]
        | cons x xs ihx =>
          simp only [Val.arr.sizeOf_spec, List.cons.sizeOf_spec] at hv
          simp only [projectElems, h.allow, ↓reduceIte]
          rw [ih x (by omega) f h, ihx (by simp only [Val.arr.sizeOf_spec]; omega)]
      | obj ms =>
        simp only [project, h.allowObject, ↓reduceIte]
        congr 1
        induction ms with
        | nil => simp only [projectMembers]
        | cons kx ms ihm =>
          obtain ⟨k, x⟩ := kx
          simp only [Val.obj.sizeOf_spec, List.cons.sizeOf_spec, Prod.mk.sizeOf_spec] at hv
          simp only [projectMembers, h.allow, ↓reduceIte, h.subKey_eq]
          rw [ih x (by omega) f h, ihm (by simp only [Val.obj.sizeOf_spec]; omega)]
      | null => simp only [project]
      | _ => simp only [project, h.allowValue, ↓reduceIte]
  intro v
  exact key _ v (Nat.le_refl _) f h

/-- "a null or false entry removes the member": a member whose own filter `filter[key]` is not true-ish is absent
    from the projection — in particular (see `subKey_false`, `subKey_null`) when the entry of its key is `false`,
    or is `null`/missing and there is no true-ish `"*"` entry. -/
theorem null_or_false_removes (f : Flt) (ms : List (List Byte × Val)) (k : List Byte)
    (h : (f.subKey k).allow = false) : ∀ x, (k, x) ∉ projectMembers f ms := by
  intro x
  induction ms with
  | nil => simp only [projectMembers]; exact List.not_mem_nil
  | cons kv ms ih =>
    obtain ⟨k', v'⟩ := kv
    cases ha : (f.subKey k').allow
    · simpa only [projectMembers, ha, Bool.false_eq_true, ↓reduceIte] using ih
    · simp only [projectMembers, ha, ↓reduceIte, List.mem_cons, not_or]
      refine ⟨?_, ih⟩
      intro e
      have : k = k' := congrArg Prod.fst e
      rw [this, ha] at h; cases h

/-- an entry `false` (or `0`, `0.0`) removes the member, whatever `"*"` says -/
theorem subKey_false (fm : List (List Byte × Val)) (k : List Byte) (e : Val)
    (h : lookupKey fm k = some e) (hn : isNullOpt (some e) = false) (ht : truthy e = false) :
    ((Flt.doc (some (.obj fm))).subKey k).allow = false := by
  simp only [Flt.subKey, isTrueVal, Bool.false_eq_true, ↓reduceIte, h, hn, Flt.allow, ht]

/-- an entry `null`, like a missing entry, defers to the `"*"` entry: the member is removed iff `"*"` is missing or
    not true-ish. (So the clause "a null entry removes the member" of the property text holds only in the absence
    of a true-ish `"*"` entry: `{"a":null,"*":true}` KEEPS the member `a`.) -/
theorem subKey_null (fm : List (List Byte × Val)) (k : List Byte)
    (h : isNullOpt (lookupKey fm k) = true) :
    (Flt.doc (some (.obj fm))).subKey k = .doc (lookupKey fm [0x2A]) := by
  simp only [Flt.subKey, isTrueVal, Bool.false_eq_true, ↓reduceIte, h]

/-- `"*"` stands for any key that has no entry of its own -/
theorem star_is_wildcard (fm : List (List Byte × Val)) (k : List Byte) (h : lookupKey fm k = none) :
    (Flt.doc (some (.obj fm))).subKey k = .doc (lookupKey fm [0x2A]) :=
  subKey_null fm k (by rw [h]; rfl)

/-- a key with a non-null entry uses that entry -/
theorem subKey_listed (fm : List (List Byte × Val)) (k : List Byte) (e : Val)
    (h : lookupKey fm k = some e) (hn : isNullOpt (some e) = false) :
    (Flt.doc (some (.obj fm))).subKey k = .doc (some e) := by
  simp only [Flt.subKey, isTrueVal, Bool.false_eq_true, ↓reduceIte, h, hn]

/-- an object filter, member by member: kept iff the entry (own, else `"*"`) is true-ish, filtered by that entry -/
theorem object_filter (fm : List (List Byte × Val)) (ms : List (List Byte × Val)) :
    project (.doc (some (.obj fm))) (.obj ms) =
      .obj (ms.filterMap (fun kv =>
        let e := if isNullOpt (lookupKey fm kv.1) then lookupKey fm [0x2A] else lookupKey fm kv.1
        if (Flt.doc e).allow then some (kv.1, project (.doc e) kv.2) else none)) := by
  rw [project_obj]
  have hsub : ∀ k, (Flt.doc (some (.obj fm))).subKey k =
      .doc (if isNullOpt (lookupKey fm k) then lookupKey fm [0x2A] else lookupKey fm k) := by
    intro k
    cases hq : isNullOpt (lookupKey fm k)
    · simp only [Flt.subKey, isTrueVal, Bool.false_eq_true, ↓reduceIte, hq]
    · simp only [Flt.subKey, isTrueVal, Bool.false_eq_true, ↓reduceIte, hq]
  simp only [hsub]
  rfl

theorem filterMap_none' {α β} (xs : List α) : xs.filterMap (fun _ => (none : Option β)) = [] := by
  induction xs with
  | nil => rfl
  | cons x xs ih => simp only [List.filterMap_cons, ih]
theorem filterMap_some' {α β} (g : α → β) (xs : List α) : xs.filterMap (fun x => some (g x)) = xs.map g := by
  induction xs with
  | nil => rfl
  | cons x xs ih => simp only [List.filterMap_cons, List.map_cons, ih]

/-- "an array filter applies its first element to every element"; a `null`/`false` first element removes them all -/
theorem array_filter_first_element (e : Val) (r xs : List Val) :
    project (.doc (some (.arr (e :: r)))) (.arr xs) =
      .arr (if truthy e then xs.map (project (.doc (some e))) else []) := by
  rw [project_arr]
  have hA : (Flt.doc (some (.arr (e :: r)))).allowArray = true := rfl
  cases ht : truthy e
  · have hs : (Flt.doc (some (.arr (e :: r)))).subIdx.allow = false := by
      simp only [Flt.subIdx, isTrueVal, Bool.false_eq_true, ↓reduceIte]
      split
      · rfl
      · exact ht
    simp only [hA, hs, ↓reduceIte, Bool.false_eq_true, filterMap_none']
  · have hne : isNullOpt (some e) = false := by
      cases e <;> first | rfl | exact Bool.noConfusion ht
    have hs : (Flt.doc (some (.arr (e :: r)))).subIdx = .doc (some e) := by
      simp only [Flt.subIdx, isTrueVal, Bool.false_eq_true, ↓reduceIte, hne]
    have ha : (Flt.doc (some e)).allow = true := ht
    simp only [hA, hs, ha, ↓reduceIte, filterMap_some']

/-- the empty array filter `[]` keeps the array and removes every element -/
theorem array_filter_empty (xs : List Val) : project (.doc (some (.arr []))) (.arr xs) = .arr [] := by
  rw [project_arr]
  have hA : (Flt.doc (some (.arr []))).allowArray = true := rfl
  have hs : (Flt.doc (some (.arr []))).subIdx.allow = false := rfl
  simp only [hA, hs, ↓reduceIte, Bool.false_eq_true, filterMap_none']

/-- "a kept value whose kind the filter does not accept becomes null" -/
theorem kind_not_accepted (f : Flt) :
    (∀ xs, f.allowArray = false → project f (.arr xs) = .null) ∧
    (∀ ms, f.allowObject = false → project f (.obj ms) = .null) ∧
    (∀ v, v.isArr = false → v.isObj = false → f.allowValue = false → project f v = .null) := by
  refine ⟨fun xs h => by simp only [project, h, Bool.false_eq_true, ↓reduceIte],
    fun ms h => by simp only [project, h, Bool.false_eq_true, ↓reduceIte], fun v h1 h2 h => ?_⟩
  rw [project_scalar f v h1 h2, h]; rfl

/-- end to end: the array clause on the deserializer -/
theorem json_array_filter (cfg : Cfg) (hu : cfg.decodeUnicode = true) {L : Nat} {t : List Byte} {xs : List Val}
    (h : Doc cfg L t (.arr xs)) (e : Val) (r : List Val) :
    (JD.frun cfg L (.doc (some (.arr (e :: r)))) t).2.1 =
      .arr (if truthy e then xs.map (project (.doc (some e))) else []) := by
  rw [json_projection cfg hu h, array_filter_first_element]

/-- end to end: a member with a non-true-ish filter entry is not in the filtered object -/
theorem json_member_removed (cfg : Cfg) (hu : cfg.decodeUnicode = true) {L : Nat} {t : List Byte}
    {ms : List (List Byte × Val)} (h : Doc cfg L t (.obj ms)) (f : Flt) (hO : f.allowObject = true)
    (k : List Byte) (hk : (f.subKey k).allow = false) :
    ∃ ms', (JD.frun cfg L f t).2.1 = .obj ms' ∧ ∀ x, (k, x) ∉ ms' := by
  refine ⟨projectMembers f ms, ?_, null_or_false_removes f ms k hk⟩
  rw [json_projection cfg hu h]
  simp only [project, hO, ↓reduceIte]

end Projection

/-! ## Non-vacuity -/

/-- `[1,{"a":2}]` -/
def j1 : List Byte := [0x5B,0x31,0x2C,0x7B,0x22,0x61,0x22,0x3A,0x32,0x7D,0x5D]
/-- `92 01 81 A1 61 C3` = `[1,{"a":true}]` -/
def m1 : List Byte := [0x92, 0x01, 0x81, 0xA1, 0x61, 0xC3]

-- the unfiltered run of j1 succeeds with a two-element array, 11 bytes consumed
example : (JD.run {} 10 j1).1 = .ok ∧ (JD.run {} 10 j1).2.2 = 11 ∧
    (match (JD.run {} 10 j1).2.1 with | .arr [.num (.uint 1), .obj [(_, .num (.uint 2))]] => true | _ => false) = true := by
  decide +kernel
-- identity under `true`, `1` and AllowAll; well-formed input
example : JD.frun {} 10 (.doc (some (.bool true))) j1 = JD.run {} 10 j1 := json_true_identity {} 10 j1 _ rfl
example : JD.frun {} 10 (.doc (some (.num (.uint 1)))) j1 = JD.run {} 10 j1 := json_true_identity {} 10 j1 _ rfl
example : JD.frun {} 10 .all j1 = JD.run {} 10 j1 := json_all_identity {} 10 j1
-- malformed input `[1,{"a":2` (IncompleteInput after 9 bytes) and nesting limit hit (TooDeep)
example : JD.frun {} 10 (.doc (some (.bool true))) (j1.take 9) = JD.run {} 10 (j1.take 9) :=
  json_true_identity {} 10 _ _ rfl
example : (JD.run {} 10 (j1.take 9)).1 = .incomplete ∧ (JD.run {} 1 j1).1 = .tooDeep := by decide +kernel
-- the identity is not a property of every filter: `false` erases the document, `[{"a":true}]` nulls the number
example : (match (JD.frun {} 10 (.doc (some (.bool false))) j1).2.1 with | .null => true | _ => false) = true := by
  decide +kernel
example : (match (JD.frun {} 10 (.doc (some (.arr [.obj [([0x61], .bool true)]]))) j1).2.1 with
    | .arr [.null, .obj [(_, .num (.uint 2))]] => true | _ => false) = true := by decide +kernel
-- the projection theorems on j1 (array input, filter `{"a":true}` is not an array) and on the scalar `42`
example : (JD.frun {} 10 (.doc (some (.obj [([0x61], .bool true)]))) j1).2.1 = .null :=
  (json_projection_top_level {} 10 _ j1).1 (by decide +kernel) rfl
example : JD.frun {} 10 (.doc (some (.num (.sint 1)))) [0x34, 0x32] = JD.run {} 10 [0x34, 0x32] :=
  json_scalar_kept {} 10 _ _ rfl (by decide +kernel) (by decide +kernel)
example : (JD.frun {} 10 (.doc (some (.num (.uint 2)))) j1).2.1 = .null :=
  (json_scalar_filter_null {} 10 _ j1 rfl rfl rfl).1
-- why the projection statements are about values and not codes: `"\q"` (invalid escape) and `-` are rejected
-- by the unfiltered run but skipped without validation under the filter `false`
example : (JD.run {} 10 [0x22, 0x5C, 0x71, 0x22]).1 = .invalid ∧
    (JD.frun {} 10 (.doc (some (.bool false))) [0x22, 0x5C, 0x71, 0x22]).1 = .ok ∧
    (JD.run {} 10 [0x2D]).1 = .invalid ∧ (JD.frun {} 10 (.doc (some (.bool false))) [0x2D]).1 = .ok := by
  decide +kernel

-- MessagePack
example : (MD.run {} 10 .all m1).1 = .ok ∧ (MD.run {} 10 .all m1).2.2 = 6 ∧
    (match (MD.run {} 10 .all m1).2.1 with | .arr [.num (.sint 1), .obj [(_, .bool true)]] => true | _ => false) = true := by
  decide +kernel
example : MD.run {} 10 (.doc (some (.bool true))) m1 = MD.run {} 10 .all m1 := msgpack_true_identity {} 10 m1 _ rfl
example : MD.run {} 10 (.doc (some (.num (.f32 0x3f800000)))) (m1.take 5) = MD.run {} 10 .all (m1.take 5) :=
  msgpack_true_identity {} 10 _ _ rfl
example : (MD.run {} 10 .all (m1.take 5)).1 = .incomplete := by decide +kernel
example : (match (MD.run {} 10 (.doc (some (.bool false))) m1).2.1 with | .null => true | _ => false) = true := by
  decide +kernel
-- no destination: the same bytes, parsed with `hasDst = false`, are consumed (6 bytes) but nothing is built,
-- and an accumulator passed to `readArray` comes back untouched (reversed, as on every exit)
example : (MD.parseVariant {} 16 10 .all false { unread := m1 }).2.1 = .null ∧
    (MD.parseVariant {} 16 10 .all false { unread := m1 }).2.2.1.pos = 6 :=
  ⟨(no_fault_msgpack_partial {} 16 10 .all _).1, by decide +kernel⟩
example : (MD.readArray {} 16 10 .all false 2 { unread := m1.drop 1 } [.bool true, .null]).2.1 = [.null, .bool true] :=
  (no_fault_msgpack_partial {} 16 10 .all _).2.1 2 _

end C11

/-! ## Non-vacuity of the projection theorems: explicit texts, derivations, filters -/
namespace C11.ProjExamples
open JD Spec.Json Spec.Filter C01.Examples

/-- `[1,-0 , 2.5e3]` as a document -/
theorem arr_doc : Doc c0 1 arrText (.arr [.num (.uint 1), .num (.sint 0), .num (.f32 0x451C4000)]) :=
  ⟨[], arrText, [], rfl, by decide, by decide, arr_value⟩

theorem run_docText : (JD.run c0 2 docText).2.2 = 30 := by decide +kernel
theorem run_arrText : (JD.run c0 1 arrText).2.2 = 14 := by decide +kernel

/-! ### ` {"k":[1,-0 , 2.5e3],"k":"\n"}` + LF — a REPEATED key; the document is `{"k":"\n"}` -/

/-- the filter `{"k":[true]}`: both occurrences of `k` are kept and filtered by `[true]`; the array survives the
    filter but is overwritten by the string, which `[true]` does not accept: `{"k":null}` -/
def fK : Flt := .doc (some (.obj [([0x6B], .arr [.bool true])]))
example : JD.frun c0 2 fK docText = (.ok, .obj [([0x6B], .null)], 30) := by
  rw [json_projection c0 rfl doc_value fK, run_docText]; rfl
-- the same by evaluation of the model, independently of the theorem
example : (JD.frun c0 2 fK docText).1 = .ok ∧ (JD.frun c0 2 fK docText).2.2 = 30 ∧
    (match (JD.frun c0 2 fK docText).2.1 with | .obj [([0x6B], .null)] => true | _ => false) = true := by
  decide +kernel

/-- `{"*":true}`: the key `k` is not listed, the wildcard entry keeps it entirely -/
def fStar : Flt := .doc (some (.obj [([0x2A], .bool true)]))
example : JD.frun c0 2 fStar docText = (.ok, .obj [([0x6B], .str [0x0A])], 30) := by
  rw [json_projection c0 rfl doc_value fStar, run_docText]; rfl
example : fStar.subKey [0x6B] = .doc (some (.bool true)) := star_is_wildcard _ _ rfl

/-- `{"k":false,"*":true}`: the entry `false` removes the member, whatever `"*"` says -/
def fFalse : Flt := .doc (some (.obj [([0x6B], .bool false), ([0x2A], .bool true)]))
example : JD.frun c0 2 fFalse docText = (.ok, .obj [], 30) := by
  rw [json_projection c0 rfl doc_value fFalse, run_docText]; rfl
example : (fFalse.subKey [0x6B]).allow = false := subKey_false _ _ (.bool false) rfl rfl rfl
example : ∃ ms', (JD.frun c0 2 fFalse docText).2.1 = .obj ms' ∧ ∀ x, ([0x6B], x) ∉ ms' :=
  json_member_removed c0 rfl doc_value fFalse rfl [0x6B] rfl

/-- `{"k":null,"*":true}`: an entry `null` is like no entry — the wildcard applies and the member is KEPT -/
def fNull : Flt := .doc (some (.obj [([0x6B], .null), ([0x2A], .bool true)]))
example : JD.frun c0 2 fNull docText = (.ok, .obj [([0x6B], .str [0x0A])], 30) := by
  rw [json_projection c0 rfl doc_value fNull, run_docText]; rfl
example : (JD.frun c0 2 fNull docText).1 = .ok ∧
    (match (JD.frun c0 2 fNull docText).2.1 with | .obj [([0x6B], .str [0x0A])] => true | _ => false) = true := by
  decide +kernel
/-- `{"k":null}`: without a wildcard the `null` entry removes the member -/
example : JD.frun c0 2 (.doc (some (.obj [([0x6B], .null)]))) docText = (.ok, .obj [], 30) := by
  rw [json_projection c0 rfl doc_value, run_docText]; rfl

/-- an array filter on an object, a scalar filter other than `true`, the unbound filter: `null`, all bytes taken -/
example : JD.frun c0 2 (.doc (some (.arr [.bool true]))) docText = (.ok, .null, 30) := by
  rw [json_projection c0 rfl doc_value, run_docText]; rfl
example : JD.frun c0 2 (.doc (some (.num (.uint 2)))) docText = (.ok, .null, 30) := by
  rw [json_projection c0 rfl doc_value, run_docText]; rfl
example : JD.frun c0 2 (.doc none) docText = (.ok, .null, 30) := by
  rw [json_projection c0 rfl doc_value, run_docText]; rfl

/-! ### `[1,-0 , 2.5e3]` -/

/-- `[true]` keeps every element, `[false]`, `[null]` and `[]` remove them all, `[{"x":true}]` nulls them -/
example : JD.frun c0 1 (.doc (some (.arr [.bool true]))) arrText =
    (.ok, .arr [.num (.uint 1), .num (.sint 0), .num (.f32 0x451C4000)], 14) := by
  rw [json_projection c0 rfl arr_doc, run_arrText]; rfl
example : JD.frun c0 1 (.doc (some (.arr [.bool false, .bool true]))) arrText = (.ok, .arr [], 14) := by
  rw [json_projection c0 rfl arr_doc, run_arrText]; rfl
example : JD.frun c0 1 (.doc (some (.arr [.null]))) arrText = (.ok, .arr [], 14) := by
  rw [json_projection c0 rfl arr_doc, run_arrText]; rfl
example : JD.frun c0 1 (.doc (some (.arr []))) arrText = (.ok, .arr [], 14) := by
  rw [json_projection c0 rfl arr_doc, run_arrText]; rfl
example : JD.frun c0 1 (.doc (some (.arr [.obj [([0x78], .bool true)]]))) arrText =
    (.ok, .arr [.null, .null, .null], 14) := by
  rw [json_projection c0 rfl arr_doc, run_arrText]; rfl
example : (JD.frun c0 1 (.doc (some (.arr [.bool false, .bool true]))) arrText).1 = .ok ∧
    (match (JD.frun c0 1 (.doc (some (.arr [.bool false, .bool true]))) arrText).2.1 with | .arr [] => true | _ => false) = true ∧
    (match (JD.frun c0 1 (.doc (some (.arr [.obj [([0x78], .bool true)]]))) arrText).2.1 with
      | .arr [.null, .null, .null] => true | _ => false) = true := by
  decide +kernel
/-- the array clause, end to end -/
example : (JD.frun c0 1 (.doc (some (.arr [.bool false, .bool true]))) arrText).2.1 = .arr [] :=
  json_array_filter c0 rfl arr_doc (.bool false) [.bool true]
/-- an object filter on an array: `null` -/
example : JD.frun c0 1 fStar arrText = (.ok, .null, 14) := by
  rw [json_projection c0 rfl arr_doc, run_arrText]; rfl

/-! ### the skip simulation on `[1,-0 , 2.5e3]` followed by `,7`: both routines end on the comma -/
example : ∃ s', parseVariant c0 16 1 { l := { unread := arrText ++ [0x2C, 0x37] } } =
      (.ok, .arr [.num (.uint 1), .num (.sint 0), .num (.f32 0x451C4000)], s') ∧
    skipVariant c0 16 1 { l := { unread := arrText ++ [0x2C, 0x37] } } = (.ok, s') ∧ s'.found = true ∧
    s'.l.loaded = false ∧ s'.l.unread = [0x2C, 0x37] ∧ s'.l.pos = 14 := by
  obtain ⟨s', h1, h2, h3, h4⟩ := skip_consumes_like_parse_latch c0 rfl arr_value 16 [] [0x2C, 0x37]
    { l := { unread := arrText ++ [0x2C, 0x37] } } (by decide) rfl rfl (by decide) (fun _ => by intro c r h; cases h; rfl)
  exact ⟨s', h1, h2, h3, h4⟩
-- by evaluation
example : (skipVariant c0 16 1 { l := { unread := arrText ++ [0x2C, 0x37] } }).1 = .ok ∧
    (skipVariant c0 16 1 { l := { unread := arrText ++ [0x2C, 0x37] } }).2.l.pos = 14 ∧
    (parseVariant c0 16 1 { l := { unread := arrText ++ [0x2C, 0x37] } }).2.2.l.pos = 14 := by decide +kernel

/-! ### `[1,{"a":2}]` (`C11.j1`) under `[{"a":true}]`: the number is not accepted by the object filter, the object is -/
theorem n2 : NumLit [0x32] :=
  ⟨by decide, [], [0x32], [], [], Or.inl rfl, Or.inr ⟨⟨by decide, by decide⟩, by decide⟩, Or.inl rfl, Or.inl rfl, rfl⟩
theorem j1_doc : Doc c0 2 C11.j1 (.arr [.num (.uint 1), .obj [([0x61], .num (.uint 2))]]) := by
  have hk : Body 0x22 [0x61] [0x61] := Body.plain 0x61 [] [] (by decide) (by decide) (by decide) Body.nil
  have hobj : Value c0 1 [0x7B,0x22,0x61,0x22,0x3A,0x32,0x7D] (.obj [([0x61], .num (.uint 2))]) :=
    Value.obj 0 [0x22,0x61,0x22,0x3A,0x32] [([0x61], .num (.uint 2))]
      (Members.one 0 [] [0x61] [0x61] [] [] [0x32] _ [] (by decide) hk (by decide) (by decide) (by decide)
        (Value.num 0 _ n2) (by decide))
  refine ⟨[], C11.j1, [], rfl, by decide, by decide, ?_⟩
  exact Value.arr 1 [0x31,0x2C,0x7B,0x22,0x61,0x22,0x3A,0x32,0x7D] _
    (Elements.cons 1 [] [0x31] _ [] [0x7B,0x22,0x61,0x22,0x3A,0x32,0x7D] _ (by decide) (Value.num 1 _ n1) (by decide)
      (Elements.one 1 [] [0x7B,0x22,0x61,0x22,0x3A,0x32,0x7D] _ [] (by decide) hobj (by decide)))
example : JD.frun c0 2 (.doc (some (.arr [.obj [([0x61], .bool true)]]))) C11.j1 =
    (.ok, .arr [.null, .obj [([0x61], .num (.uint 2))]], 11) := by
  rw [json_projection c0 rfl j1_doc]
  have : (JD.run c0 2 C11.j1).2.2 = 11 := by decide +kernel
  rw [this]; rfl
/-- `[{"a":false,"*":true}]`: the member `a` is removed, the object stays -/
example : JD.frun c0 2 (.doc (some (.arr [.obj [([0x61], .bool false), ([0x2A], .bool true)]]))) C11.j1 =
    (.ok, .arr [.null, .obj []], 11) := by
  rw [json_projection c0 rfl j1_doc]
  have : (JD.run c0 2 C11.j1).2.2 = 11 := by decide +kernel
  rw [this]; rfl

end C11.ProjExamples
