/- C11 — Filtering equals projecting the unfiltered result; the filter `true` is the identity on every input,
   malformed ones included; the filtered deserializers never build into an absent destination.
   Property theorems only; helper lemmas live in AJ/Lemmas/FilterId.lean. -/
import AJ.Model.JD
import AJ.Model.MD
import AJ.Lemmas.FilterId
namespace C11
open JD

/-! ## JSON: transparent filters are the identity -/

/-- Any transparent filter (`AllowAllFilter` or `Filter(true)`) gives exactly the unfiltered run:
    same error code, same document, same number of bytes consumed — for every input. -/
theorem json_transparent_identity (cfg : Cfg) (L : Nat) (f : Flt) (input : List Byte) (h : Transparent f) :
    JD.frun cfg L f input = JD.run cfg L input := by
  simp only [frun, run, (fparse_eq_parse (cfg := cfg) (2 * input.length + 4)).1 L f _ h]

/-- `Filter(true)` (also `1`, `1.0f`, `1.0`: whatever `operator==(true)` accepts) is the identity on every input. -/
theorem json_true_identity (cfg : Cfg) (L : Nat) (input : List Byte) (v : Val) (hv : isTrueVal v = true) :
    JD.frun cfg L (.doc (some v)) input = JD.run cfg L input :=
  json_transparent_identity cfg L _ input (transparent_true hv)

/-- `AllowAllFilter` is the identity on every input. -/
theorem json_all_identity (cfg : Cfg) (L : Nat) (input : List Byte) :
    JD.frun cfg L .all input = JD.run cfg L input :=
  json_transparent_identity cfg L _ input transparent_all

/-- what a transparent filter answers to every question the deserializers ask -/
theorem transparent_answers (f : Flt) (h : Transparent f) :
    f.allow = true ∧ f.allowArray = true ∧ f.allowObject = true ∧ f.allowValue = true ∧
    Transparent f.subIdx ∧ ∀ k, Transparent (f.subKey k) := h.all_props

/-! ## MessagePack -/

theorem msgpack_transparent_identity (env : MD.Env) (L : Nat) (f : Flt) (input : List Byte) (h : Transparent f) :
    MD.run env L f input = MD.run env L .all input := by
  simp only [MD.run, (MD.parse_transparent (env := env) (2 * input.length + 4)).1 L f .all true _ h transparent_all]

theorem msgpack_true_identity (env : MD.Env) (L : Nat) (input : List Byte) (v : Val) (hv : isTrueVal v = true) :
    MD.run env L (.doc (some v)) input = MD.run env L .all input :=
  msgpack_transparent_identity env L _ input (transparent_true hv)

/-- "Never crashes", at the level the model can express (hence `_partial`: the model has no notion of a null
    pointer dereference, it has the boolean `hasDst/hasArr/hasObj` = "the destination pointer is non-null").
    The invariant is that nothing is ever produced into an absent destination, whatever the filter, the input
    (malformed included), the fuel and the nesting limit:
    * a variant parsed without destination yields no value,
    * an array read without destination leaves the element accumulator untouched,
    * an object read without destination leaves the member list untouched. -/
theorem no_fault_msgpack_partial (env : MD.Env) (fuel limit : Nat) (flt : Flt) (r : MD.R) :
    (MD.parseVariant env fuel limit flt false r).2.1 = .null ∧
    (∀ n acc, (MD.readArray env fuel limit flt false n r acc).2.1 = acc.reverse) ∧
    (∀ n ms, (MD.readObject env fuel limit flt false n r ms).2.1 = ms) :=
  ⟨MD.parseVariant_noDst fuel limit flt r,
   fun n acc => MD.readArray_noArr fuel limit flt n r acc,
   fun n ms => MD.readObject_noObj fuel limit flt n r ms⟩

/-! ## One level of "filtering = projecting the unfiltered result" (JSON)

The skipping routines (`skipQuoted`, `skipNumeric`, ...) are more lenient than the parsing ones, so error codes
of a filtered and an unfiltered run may differ on malformed input; the statements below are about the
document value and hold for every input and every error code. `u` is the unfiltered top-level value. -/

theorem allowArray_doc (v : Val) : (Flt.doc (some v)).allowArray = (isTrueVal v || v.isArr) := by
  cases v <;> rfl
theorem allowObject_doc (v : Val) : (Flt.doc (some v)).allowObject = (isTrueVal v || v.isObj) := by
  cases v <;> rfl

/-- top-level projection: arrays/objects the filter does not allow become `null`; a scalar is kept iff
    `allowValue`, i.e. iff the filter is `true`. -/
theorem json_projection_top_level (cfg : Cfg) (L : Nat) (flt : Flt) (input : List Byte) :
    let u := (JD.run cfg L input).2.1
    let w := (JD.frun cfg L flt input).2.1
    (u.isArr = true → flt.allowArray = false → w = .null) ∧
    (u.isObj = true → flt.allowObject = false → w = .null) ∧
    (u.isArr = false → u.isObj = false → w = if flt.allowValue then u else .null) := by
  simp only [frun_val, run_val]
  refine ⟨fun h hA => fparseVariant_arr_null _ _ _ _ hA h, fun h hO => fparseVariant_obj_null _ _ _ _ hO h, ?_⟩
  intro h1 h2
  cases hV : flt.allowValue
  · simp only [Bool.false_eq_true, if_false]; exact fparseVariant_scalar_drop _ _ _ _ hV h1 h2
  · simp only [if_true]; rw [fparseVariant_scalar_keep _ _ _ _ hV h1 h2]

/-- scalar documents under a value-allowing filter: the whole result (code, value, bytes consumed) is unchanged -/
theorem json_scalar_kept (cfg : Cfg) (L : Nat) (flt : Flt) (input : List Byte) (hV : flt.allowValue = true)
    (h1 : (JD.run cfg L input).2.1.isArr = false) (h2 : (JD.run cfg L input).2.1.isObj = false) :
    JD.frun cfg L flt input = JD.run cfg L input := by
  rw [run_val] at h1 h2
  simp only [frun, run, fparseVariant_scalar_keep _ _ _ _ hV h1 h2]

/-- The stretch statement: a filter document that is neither `true` nor an array, applied to an input whose
    unfiltered result is an array, gives `null` (whatever the error code, `.ok` included). -/
theorem json_array_filtered_out (cfg : Cfg) (L : Nat) (v : Val) (input : List Byte) (xs : List Val)
    (hv : isTrueVal v = false) (ha : v.isArr = false) (hu : (JD.run cfg L input).2.1 = .arr xs) :
    (JD.frun cfg L (.doc (some v)) input).2.1 = .null :=
  (json_projection_top_level cfg L _ input).1 (by rw [hu]; rfl) (by rw [allowArray_doc, hv, ha]; rfl)

theorem json_object_filtered_out (cfg : Cfg) (L : Nat) (v : Val) (input : List Byte) (ms : List (List Byte × Val))
    (hv : isTrueVal v = false) (ho : v.isObj = false) (hu : (JD.run cfg L input).2.1 = .obj ms) :
    (JD.frun cfg L (.doc (some v)) input).2.1 = .null :=
  (json_projection_top_level cfg L _ input).2.1 (by rw [hu]; rfl) (by rw [allowObject_doc, hv, ho]; rfl)

/-- a scalar filter other than `true` (`false`, `null`, `0`, `2`, `"x"`, ...), or an unbound one, erases everything -/
theorem json_scalar_filter_null (cfg : Cfg) (L : Nat) (v : Val) (input : List Byte)
    (hv : isTrueVal v = false) (ha : v.isArr = false) (ho : v.isObj = false) :
    (JD.frun cfg L (.doc (some v)) input).2.1 = .null ∧ (JD.frun cfg L (.doc none) input).2.1 = .null := by
  simp only [frun_val]
  exact ⟨fparseVariant_closed _ _ _ _ (by rw [allowArray_doc, hv, ha]; rfl) (by rw [allowObject_doc, hv, ho]; rfl) hv,
         fparseVariant_closed _ _ _ _ rfl rfl rfl⟩

/-! ## Non-vacuity -/

/-- `[1,{"a":2}]` -/
def j1 : List Byte := [0x5B,0x31,0x2C,0x7B,0x22,0x61,0x22,0x3A,0x32,0x7D,0x5D]
/-- `92 01 81 A1 61 C3` = `[1,{"a":true}]` -/
def m1 : List Byte := [0x92, 0x01, 0x81, 0xA1, 0x61, 0xC3]

-- the unfiltered run of j1 succeeds with a two-element array, 11 bytes consumed
example : (JD.run {} 10 j1).1 = .ok ∧ (JD.run {} 10 j1).2.2 = 11 ∧
    (match (JD.run {} 10 j1).2.1 with | .arr [.num (.uint 1), .obj [(_, .num (.uint 2))]] => true | _ => false) = true := by
  decide +kernel
-- identity under `true`, `1` and AllowAll; well-formed input
example : JD.frun {} 10 (.doc (some (.bool true))) j1 = JD.run {} 10 j1 := json_true_identity {} 10 j1 _ rfl
example : JD.frun {} 10 (.doc (some (.num (.uint 1)))) j1 = JD.run {} 10 j1 := json_true_identity {} 10 j1 _ rfl
example : JD.frun {} 10 .all j1 = JD.run {} 10 j1 := json_all_identity {} 10 j1
-- malformed input `[1,{"a":2` (IncompleteInput after 9 bytes) and nesting limit hit (TooDeep)
example : JD.frun {} 10 (.doc (some (.bool true))) (j1.take 9) = JD.run {} 10 (j1.take 9) :=
  json_true_identity {} 10 _ _ rfl
example : (JD.run {} 10 (j1.take 9)).1 = .incomplete ∧ (JD.run {} 1 j1).1 = .tooDeep := by decide +kernel
-- the identity is not a property of every filter: `false` erases the document, `[{"a":true}]` nulls the number
example : (match (JD.frun {} 10 (.doc (some (.bool false))) j1).2.1 with | .null => true | _ => false) = true := by
  decide +kernel
example : (match (JD.frun {} 10 (.doc (some (.arr [.obj [([0x61], .bool true)]]))) j1).2.1 with
    | .arr [.null, .obj [(_, .num (.uint 2))]] => true | _ => false) = true := by decide +kernel
-- the projection theorems on j1 (array input, filter `{"a":true}` is not an array) and on the scalar `42`
example : (JD.frun {} 10 (.doc (some (.obj [([0x61], .bool true)]))) j1).2.1 = .null :=
  (json_projection_top_level {} 10 _ j1).1 (by decide +kernel) rfl
example : JD.frun {} 10 (.doc (some (.num (.sint 1)))) [0x34, 0x32] = JD.run {} 10 [0x34, 0x32] :=
  json_scalar_kept {} 10 _ _ rfl (by decide +kernel) (by decide +kernel)
example : (JD.frun {} 10 (.doc (some (.num (.uint 2)))) j1).2.1 = .null :=
  (json_scalar_filter_null {} 10 _ j1 rfl rfl rfl).1
-- why the projection statements are about values and not codes: `"\q"` (invalid escape) and `-` are rejected
-- by the unfiltered run but skipped without validation under the filter `false`
example : (JD.run {} 10 [0x22, 0x5C, 0x71, 0x22]).1 = .invalid ∧
    (JD.frun {} 10 (.doc (some (.bool false))) [0x22, 0x5C, 0x71, 0x22]).1 = .ok ∧
    (JD.run {} 10 [0x2D]).1 = .invalid ∧ (JD.frun {} 10 (.doc (some (.bool false))) [0x2D]).1 = .ok := by
  decide +kernel

-- MessagePack
example : (MD.run {} 10 .all m1).1 = .ok ∧ (MD.run {} 10 .all m1).2.2 = 6 ∧
    (match (MD.run {} 10 .all m1).2.1 with | .arr [.num (.sint 1), .obj [(_, .bool true)]] => true | _ => false) = true := by
  decide +kernel
example : MD.run {} 10 (.doc (some (.bool true))) m1 = MD.run {} 10 .all m1 := msgpack_true_identity {} 10 m1 _ rfl
example : MD.run {} 10 (.doc (some (.num (.f32 0x3f800000)))) (m1.take 5) = MD.run {} 10 .all (m1.take 5) :=
  msgpack_true_identity {} 10 _ _ rfl
example : (MD.run {} 10 .all (m1.take 5)).1 = .incomplete := by decide +kernel
example : (match (MD.run {} 10 (.doc (some (.bool false))) m1).2.1 with | .null => true | _ => false) = true := by
  decide +kernel
-- no destination: the same bytes, parsed with `hasDst = false`, are consumed (6 bytes) but nothing is built,
-- and an accumulator passed to `readArray` comes back untouched (reversed, as on every exit)
example : (MD.parseVariant {} 16 10 .all false { unread := m1 }).2.1 = .null ∧
    (MD.parseVariant {} 16 10 .all false { unread := m1 }).2.2.1.pos = 6 :=
  ⟨(no_fault_msgpack_partial {} 16 10 .all _).1, by decide +kernel⟩
example : (MD.readArray {} 16 10 .all false 2 { unread := m1.drop 1 } [.bool true, .null]).2.1 = [.null, .bool true] :=
  (no_fault_msgpack_partial {} 16 10 .all _).2.1 2 _

end C11
