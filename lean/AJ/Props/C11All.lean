/- Aggregate: every C11 property theorem (RFC-grammar projection in C11.lean, all-inputs projection in C11Full.lean). -/
import AJ.Props.C11
import AJ.Props.C11Full
import AJ.Props.C11Mp
import AJ.Props.C11Mem
import AJ.Props.C11Doc
import AJ.Props.C11Slot
import AJ.Props.C11MpSlot
import AJ.Props.C11MpDoc
import AJ.Props.C11MemRun
import AJ.Props.C11MpMemRun
import AJ.Props.DocGen
