/- C11 at slot level — THE FILTERED SLOT-LEVEL DESERIALIZER REFINES THE VALUE-LEVEL FILTERED PARSER.

   `JDDF.run cfg limit flt d input` (AJ/Model/JDDF.lean) is `deserializeJson(doc, input, Filter(f), NestingLimit)` writing into
   the slot-level document `DL.Doc` (slots, chains, reference-counted strings, the StringBuilder and its allocation pattern;
   validated against the C++ including allocator logs and failure schedules). `JD.frun cfg limit flt input` (AJ/Model/JD.lean)
   is the value-level filtered deserializer that the projection theorems of C11 are about.

   * `C11.filtered_slot_level_core` / `filtered_slot_level_refines`: the statements of `C01.slot_level_core` /
     `C01.slot_level_refines` (AJ/Props/C01Doc.lean) for the filtered run, FOR EVERY FILTER: when no allocation failed, the code,
     the number of bytes consumed and the document left — complete or partial, for every code — are those of `JD.frun`, and the
     document is well-formed; in any case the code and the consumption are the value-level ones unless the answer is `NoMemory`
     with the overflow flag set.
   * `filtered_ok_no_overflow`, `filtered_slot_level_wf`, `filtered_ok_refines`.
   * `filtered_document_is_projection`: THE SLOT-LEVEL C11. If the unfiltered slot-level run (into any document) answers `Ok`
     and no allocation of the filtered run fails, the filtered run answers `Ok`, consumes the same number of bytes, and its
     document reads back as `Spec.Filter.project flt` of what the unfiltered document reads back as — for every input, filter,
     configuration and nesting limit (`C01.ok_refines` + `C11.json_projection_all_inputs` + the refinement).
   * `skipped_values_do_not_touch_document`: under a filter that allows nothing (`Filter` on an unbound variant, on `null`,
     `false`, a string …) the run is `JD.skipVariant` on the reader and the document left IS the cleared document: root `null`,
     no pool, no slot handed out, no string, and no allocator call beyond those of the clear.
   Helper lemmas: AJ/Lemmas/JddfSim.lean, JddfSimAll.lean (`JDDF.sim_all`: the simulation by induction on the fuel over the
   three mutual routines, in the outcome relation `JDD.Sim` of the unfiltered development), JddfRun.lean (`JDDF.run_core`). -/
import AJ.Lemmas.JddfRun
import AJ.Lemmas.JddMem
import AJ.Props.C11Full
set_option linter.unusedSimpArgs false
set_option linter.unusedVariables false

namespace C11
open DL JDD
open JD (Byte Val Cfg Code St Flt)

/-- the two outcomes of a filtered run: no allocation failed and everything agrees with the value-level filtered run (and the
    document is well-formed), or one failed and the code is not `Ok` -/
theorem filtered_slot_level_core (cfg : Cfg) (limit : Nat) (flt : Flt) (d : Doc) (input : List Byte) (gok : PL.GeoOK d.g)
    (hp : PL.Inv d.g d.pl) (h31 : 31 ≤ cfg.maxStrLen) :
    ((JDDF.run cfg limit flt d input).2.1.overflowed = false ∧
      (JDDF.run cfg limit flt d input).1 = (JD.frun cfg limit flt input).1 ∧
      (JDDF.run cfg limit flt d input).2.2 = (JD.frun cfg limit flt input).2.2 ∧
      (JDDF.run cfg limit flt d input).2.1.toVal (JDDF.run cfg limit flt d input).2.1.root =
        (JD.frun cfg limit flt input).2.1 ∧
      WF (JDDF.run cfg limit flt d input).2.1) ∨
    ((JDDF.run cfg limit flt d input).2.1.overflowed = true ∧ (JDDF.run cfg limit flt d input).1 ≠ .ok ∧
      ((JDDF.run cfg limit flt d input).1 = .noMemory ∨
        ((JDDF.run cfg limit flt d input).1 = (JD.frun cfg limit flt input).1 ∧
         (JDDF.run cfg limit flt d input).2.2 = (JD.frun cfg limit flt input).2.2))) :=
  JDDF.run_core cfg limit flt d input gok hp h31

/-- **C11 at slot level, refinement: the filtered slot-level deserializer refines the value-level filtered one, for every
    filter.** When no allocation failed, the code, the number of bytes consumed and the document left — complete or partial,
    for every code — are those of `JD.frun`; in any case the code and the consumption are those of `JD.frun` unless the answer
    is `NoMemory` with the overflow flag set. -/
theorem filtered_slot_level_refines (cfg : Cfg) (limit : Nat) (flt : Flt) (d : Doc) (input : List Byte)
    (gok : PL.GeoOK d.g) (hp : PL.Inv d.g d.pl) (h31 : 31 ≤ cfg.maxStrLen) :
    ((JDDF.run cfg limit flt d input).2.1.overflowed = false →
      (JDDF.run cfg limit flt d input).1 = (JD.frun cfg limit flt input).1 ∧
      (JDDF.run cfg limit flt d input).2.2 = (JD.frun cfg limit flt input).2.2 ∧
      (JDDF.run cfg limit flt d input).2.1.toVal (JDDF.run cfg limit flt d input).2.1.root =
        (JD.frun cfg limit flt input).2.1) ∧
    (((JDDF.run cfg limit flt d input).1 = (JD.frun cfg limit flt input).1 ∧
        (JDDF.run cfg limit flt d input).2.2 = (JD.frun cfg limit flt input).2.2) ∨
      ((JDDF.run cfg limit flt d input).1 = .noMemory ∧ (JDDF.run cfg limit flt d input).2.1.overflowed = true)) := by
  rcases filtered_slot_level_core cfg limit flt d input gok hp h31 with ⟨a, b, c, e, _⟩ | ⟨a, _, b⟩
  · exact ⟨fun _ => ⟨b, c, e⟩, Or.inl ⟨b, c⟩⟩
  · refine ⟨fun h => (by rw [a] at h; cases h), ?_⟩
    rcases b with b | b
    · exact Or.inr ⟨b, a⟩
    · exact Or.inl b

/-- `Ok` is never answered after an allocation failure: an `Ok` filtered run has the overflow flag clear -/
theorem filtered_ok_no_overflow (cfg : Cfg) (limit : Nat) (flt : Flt) (d : Doc) (input : List Byte) (gok : PL.GeoOK d.g)
    (hp : PL.Inv d.g d.pl) (h31 : 31 ≤ cfg.maxStrLen) (hok : (JDDF.run cfg limit flt d input).1 = .ok) :
    (JDDF.run cfg limit flt d input).2.1.overflowed = false := by
  rcases filtered_slot_level_core cfg limit flt d input gok hp h31 with ⟨a, _⟩ | ⟨_, b, _⟩
  · exact a
  · exact absurd hok b

/-- without an allocation failure the document left by a filtered run is well-formed — for every code -/
theorem filtered_slot_level_wf (cfg : Cfg) (limit : Nat) (flt : Flt) (d : Doc) (input : List Byte) (gok : PL.GeoOK d.g)
    (hp : PL.Inv d.g d.pl) (h31 : 31 ≤ cfg.maxStrLen) (hno : (JDDF.run cfg limit flt d input).2.1.overflowed = false) :
    WF (JDDF.run cfg limit flt d input).2.1 := by
  rcases filtered_slot_level_core cfg limit flt d input gok hp h31 with ⟨_, _, _, _, w⟩ | ⟨a, _⟩
  · exact w
  · rw [a] at hno; cases hno

/-- an `Ok` filtered run: the value-level filtered run is `Ok` too, with the same consumption, and the document reads back
    as its value -/
theorem filtered_ok_refines (cfg : Cfg) (limit : Nat) (flt : Flt) (d : Doc) (input : List Byte) (gok : PL.GeoOK d.g)
    (hp : PL.Inv d.g d.pl) (h31 : 31 ≤ cfg.maxStrLen) (hok : (JDDF.run cfg limit flt d input).1 = .ok) :
    (JD.frun cfg limit flt input).1 = .ok ∧
    (JDDF.run cfg limit flt d input).2.2 = (JD.frun cfg limit flt input).2.2 ∧
    (JDDF.run cfg limit flt d input).2.1.toVal (JDDF.run cfg limit flt d input).2.1.root =
      (JD.frun cfg limit flt input).2.1 := by
  obtain ⟨a, b, c⟩ := (filtered_slot_level_refines cfg limit flt d input gok hp h31).1
    (filtered_ok_no_overflow cfg limit flt d input gok hp h31 hok)
  exact ⟨by rw [← a]; exact hok, b, c⟩

/-- **C11 at slot level: the filtered document is the projection of the unfiltered one.** For every configuration (string
    limit at least the initial StringBuilder capacity), nesting limit, filter, input and starting documents `d`, `d'`: if the
    UNFILTERED slot-level run (into `d'`) answers `Ok` and no allocation of the filtered run (into `d`) fails, the filtered
    run answers `Ok`, consumes the same number of bytes, and its document reads back as `Spec.Filter.project flt` of what the
    unfiltered document reads back as. No grammar hypothesis: every input the library accepts. -/
theorem filtered_document_is_projection (cfg : Cfg) (L : Nat) (flt : Flt) (d d' : Doc) (input : List Byte)
    (gok : PL.GeoOK d.g) (hp : PL.Inv d.g d.pl) (gok' : PL.GeoOK d'.g) (hp' : PL.Inv d'.g d'.pl)
    (h31 : 31 ≤ cfg.maxStrLen) (hok : (JDD.run cfg L d' input).1 = .ok)
    (hno : (JDDF.run cfg L flt d input).2.1.overflowed = false) :
    (JDDF.run cfg L flt d input).1 = .ok ∧
    (JDDF.run cfg L flt d input).2.2 = (JDD.run cfg L d' input).2.2 ∧
    (JDDF.run cfg L flt d input).2.1.toVal (JDDF.run cfg L flt d input).2.1.root =
      Spec.Filter.project flt ((JDD.run cfg L d' input).2.1.toVal (JDD.run cfg L d' input).2.1.root) := by
  obtain ⟨u1, u2, u3⟩ := C01.ok_refines cfg L d' input gok' hp' h31 hok
  obtain ⟨f1, f2, f3⟩ := (filtered_slot_level_refines cfg L flt d input gok hp h31).1 hno
  have hpr := json_projection_all_inputs cfg L flt input u1
  rw [f1, f2, f3, u2, u3, hpr]
  exact ⟨rfl, rfl, rfl⟩

/-- the same with the allocator hypothesis on the answer: when both slot-level runs answer `Ok` -/
theorem filtered_document_is_projection_ok (cfg : Cfg) (L : Nat) (flt : Flt) (d d' : Doc) (input : List Byte)
    (gok : PL.GeoOK d.g) (hp : PL.Inv d.g d.pl) (gok' : PL.GeoOK d'.g) (hp' : PL.Inv d'.g d'.pl)
    (h31 : 31 ≤ cfg.maxStrLen) (hok : (JDD.run cfg L d' input).1 = .ok)
    (hokF : (JDDF.run cfg L flt d input).1 = .ok) :
    (JDDF.run cfg L flt d input).2.2 = (JDD.run cfg L d' input).2.2 ∧
    (JDDF.run cfg L flt d input).2.1.toVal (JDDF.run cfg L flt d input).2.1.root =
      Spec.Filter.project flt ((JDD.run cfg L d' input).2.1.toVal (JDD.run cfg L d' input).2.1.root) :=
  (filtered_document_is_projection cfg L flt d d' input gok hp gok' hp' h31 hok
    (filtered_ok_no_overflow cfg L flt d input gok hp h31 hokF)).2

/-- with an allocation failure in the filtered run the answer is `NoMemory` (the unfiltered run being `Ok`, the value-level
    filtered run is `Ok`, so no other error is possible) -/
theorem filtered_overflow_is_noMemory (cfg : Cfg) (L : Nat) (flt : Flt) (d d' : Doc) (input : List Byte)
    (gok : PL.GeoOK d.g) (hp : PL.Inv d.g d.pl) (gok' : PL.GeoOK d'.g) (hp' : PL.Inv d'.g d'.pl)
    (h31 : 31 ≤ cfg.maxStrLen) (hok : (JDD.run cfg L d' input).1 = .ok)
    (hov : (JDDF.run cfg L flt d input).2.1.overflowed = true) :
    (JDDF.run cfg L flt d input).1 = .noMemory := by
  obtain ⟨u1, _, _⟩ := C01.ok_refines cfg L d' input gok' hp' h31 hok
  have hpr := json_projection_all_inputs cfg L flt input u1
  rcases filtered_slot_level_core cfg L flt d input gok hp h31 with ⟨a, _⟩ | ⟨_, hne, b⟩
  · rw [a] at hov; cases hov
  · rcases b with b | ⟨b, _⟩
    · exact b
    · rw [hpr] at b
      exact absurd b hne

/-! ## A filter that allows nothing -/

/-- general form: a filter that allows neither arrays, objects nor values (`Filter` on an unbound variant, on `null`, `false`,
    `0`, a string …). The run is `JD.skipVariant` on the reader and the document left IS the cleared document. No hypothesis
    on the document or the allocator. -/
theorem allow_nothing_run (cfg : Cfg) (L : Nat) (flt : Flt) (hA : flt.allowArray = false) (hO : flt.allowObject = false)
    (hV : flt.allowValue = false) (d : Doc) (input : List Byte) :
    JDDF.run cfg L flt d input =
      ((JD.skipVariant cfg (2 * input.length + 4) L { l := { unread := input } }).1, d.clearAll,
       (JD.skipVariant cfg (2 * input.length + 4) L { l := { unread := input } }).2.l.pos) :=
  JDDF.run_allow_nothing cfg L hA hO hV d input

theorem clearAll_toVal_root (d : Doc) : d.clearAll.toVal d.clearAll.root = .null := by
  show d.clearAll.toValF d.clearAll.fuel .null = .null
  cases d.clearAll.fuel <;> rfl

/-- **skipped values do not touch the document**: `deserializeJson(doc, input, Filter(unbound))`. For every document,
    allocator, configuration, nesting limit and input: the code and the number of bytes consumed are those of the skipping
    routine `JD.skipVariant` on the reader; the document left is exactly the cleared document — it reads back as `null`, has
    no string, no pool and no slot handed out (`memSlots = usage = 0`), the overflow flag is clear, and its allocator state
    (call counter, log) is the one right after the clear: not a single allocator call was made by the parse. -/
theorem skipped_values_do_not_touch_document (cfg : Cfg) (L : Nat) (d : Doc) (input : List Byte) :
    (JDDF.run cfg L (.doc none) d input).1 =
      (JD.skipVariant cfg (2 * input.length + 4) L { l := { unread := input } }).1 ∧
    (JDDF.run cfg L (.doc none) d input).2.2 =
      (JD.skipVariant cfg (2 * input.length + 4) L { l := { unread := input } }).2.l.pos ∧
    (JDDF.run cfg L (.doc none) d input).2.1 = d.clearAll ∧
    (JDDF.run cfg L (.doc none) d input).2.1.toVal (JDDF.run cfg L (.doc none) d input).2.1.root = .null ∧
    (JDDF.run cfg L (.doc none) d input).2.1.overflowed = false ∧
    (JDDF.run cfg L (.doc none) d input).2.1.strings = [] ∧
    (JDDF.run cfg L (.doc none) d input).2.1.pl.pools = [] ∧
    PL.memSlots (JDDF.run cfg L (.doc none) d input).2.1.pl = 0 ∧
    PL.usage (JDDF.run cfg L (.doc none) d input).2.1.pl = 0 ∧
    (JDDF.run cfg L (.doc none) d input).2.1.pl.calls = d.clearAll.pl.calls ∧
    (JDDF.run cfg L (.doc none) d input).2.1.pl.log = d.clearAll.pl.log := by
  rw [allow_nothing_run cfg L (.doc none) rfl rfl rfl d input]
  have hp := (JDDF.clearAll_pools d).1
  refine ⟨rfl, rfl, rfl, clearAll_toVal_root d, rfl, rfl, hp, ?_, ?_, rfl, rfl⟩
  · show PL.memSlots d.clearAll.pl = 0
    unfold PL.memSlots; rw [hp]; rfl
  · show PL.usage d.clearAll.pl = 0
    unfold PL.usage; rw [hp]; rfl

/-- under a filter that allows nothing the document left does not depend on the input -/
theorem allow_nothing_input_independent (cfg : Cfg) (L : Nat) (flt : Flt) (hA : flt.allowArray = false)
    (hO : flt.allowObject = false) (hV : flt.allowValue = false) (d : Doc) (input input' : List Byte) :
    (JDDF.run cfg L flt d input).2.1 = (JDDF.run cfg L flt d input').2.1 := by
  rw [allow_nothing_run cfg L flt hA hO hV d input, allow_nothing_run cfg L flt hA hO hV d input']

end C11

/-! ## Non-vacuity: geometry ⟨4, 1, 1⟩ (4 slots per pool, 1 inline pool, 1-byte slot ids), default configuration.

   As in AJ/Props/C01Doc.lean the slot-level runs are evaluated in the kernel where they touch slot 0 only; the value-level
   runs are evaluated in the kernel; the theorems then give the code, the consumption and the value of the slot-level
   document. -/
namespace C11.ExDocF
open DL JDD
open JD (Byte Val Cfg Code St Flt)

def g411 : PL.Geo := ⟨4, 1, 1, 16, 16⟩
def dz : Doc := { g := g411, alloc := 0, pl := PL.init g411 }
theorem gok : PL.GeoOK dz.g := ⟨by decide, by decide⟩
theorem hp : PL.Inv dz.g dz.pl := PL.init_inv gok []
theorem h31 : 31 ≤ ({} : Cfg).maxStrLen := by decide

/-- `[{"a":[1,2]}]` -/
def tA : List Byte := [0x5B, 0x7B, 0x22, 0x61, 0x22, 0x3A, 0x5B, 0x31, 0x2C, 0x32, 0x5D, 0x7D, 0x5D]
/-- the filter `[{"b":true}]` -/
def fB : Flt := .doc (some (.arr [.obj [([0x62], .bool true)]]))
/-- `[7]` -/
def t7 : List Byte := [0x5B, 0x37, 0x5D]
/-- the filter `[false]` -/
def fF : Flt := .doc (some (.arr [.bool false]))
/-- the filter `[true]` -/
def fT : Flt := .doc (some (.arr [.bool true]))
/-- `[7` -/
def t7open : List Byte := [0x5B, 0x37]

set_option maxRecDepth 100000 in
theorem ov_tA : (JDDF.run {} 10 fB dz tA).2.1.overflowed = false := by decide +kernel
set_option maxRecDepth 100000 in
theorem ov_t7F : (JDDF.run {} 10 fF dz t7).2.1.overflowed = false := by decide +kernel
set_option maxRecDepth 100000 in
theorem ov_t7T : (JDDF.run {} 10 fT dz t7).2.1.overflowed = false := by decide +kernel
set_option maxRecDepth 100000 in
theorem ov_t7openT : (JDDF.run {} 10 fT dz t7open).2.1.overflowed = false := by decide +kernel
set_option maxRecDepth 100000 in
theorem ok_t7 : (JDD.run {} 10 dz t7).1 = .ok := by decide +kernel

/-- `[{"a":[1,2]}]` under `[{"b":true}]`: `Ok`, 13 bytes consumed, the element is an object built in slot 0, its member `"a"` is
    skipped (the key went through the StringBuilder — the allocator log shows its buffer — the value through `skipVariant`),
    and the slot-level document reads back as `[{}]` -/
example : (JDDF.run {} 10 fB dz tA).1 = .ok ∧ (JDDF.run {} 10 fB dz tA).2.2 = 13 ∧
    (JDDF.run {} 10 fB dz tA).2.1.toVal (JDDF.run {} 10 fB dz tA).2.1.root = .arr [.obj []] := by
  obtain ⟨a, b, c⟩ := (C11.filtered_slot_level_refines {} 10 fB dz tA gok hp h31).1 ov_tA
  rw [a, b, c]
  exact ⟨by decide +kernel, by decide +kernel, valEq_sound _ _ (by decide +kernel)⟩

set_option maxRecDepth 100000 in
/-- the allocator log of that run: pool block (4 slots of 16 bytes), StringBuilder buffer for the key of the skipped member
    (31 + 15 bytes), buffer released when the deserializer is destroyed, pool shrunk to the one slot in use -/
example : (JDDF.run {} 10 fB dz tA).2.1.pl.log = ["R16", "D", "A46", "A64"] := by decide +kernel

/-- the document of that run is well-formed -/
example : WF (JDDF.run {} 10 fB dz tA).2.1 := C11.filtered_slot_level_wf {} 10 fB dz tA gok hp h31 ov_tA

/-- `[7` under `[true]`: `IncompleteInput`, and the PARTIAL document `[7]` is the same on both sides -/
example : (JDDF.run {} 10 fT dz t7open).1 = .incomplete ∧
    (JDDF.run {} 10 fT dz t7open).2.1.toVal (JDDF.run {} 10 fT dz t7open).2.1.root = .arr [.num (.uint 7)] := by
  obtain ⟨a, _, c⟩ := (C11.filtered_slot_level_refines {} 10 fT dz t7open gok hp h31).1 ov_t7openT
  rw [a, c]
  exact ⟨by decide +kernel, valEq_sound _ _ (by decide +kernel)⟩

/-- `filtered_document_is_projection` on `[7]`: under `[false]` the filtered document is `project [false] [7] = []`, under
    `[true]` it is `[7]`; both `Ok` after the 3 bytes of the unfiltered run -/
example : (JDDF.run {} 10 fF dz t7).1 = .ok ∧ (JDDF.run {} 10 fF dz t7).2.2 = (JDD.run {} 10 dz t7).2.2 ∧
    (JDDF.run {} 10 fF dz t7).2.1.toVal (JDDF.run {} 10 fF dz t7).2.1.root =
      Spec.Filter.project fF ((JDD.run {} 10 dz t7).2.1.toVal (JDD.run {} 10 dz t7).2.1.root) :=
  C11.filtered_document_is_projection {} 10 fF dz dz t7 gok hp gok hp h31 ok_t7 ov_t7F

example : (JDDF.run {} 10 fF dz t7).2.1.toVal (JDDF.run {} 10 fF dz t7).2.1.root = .arr [] ∧
    (JDDF.run {} 10 fT dz t7).2.1.toVal (JDDF.run {} 10 fT dz t7).2.1.root = .arr [.num (.uint 7)] := by
  obtain ⟨_, _, a⟩ := C11.filtered_document_is_projection {} 10 fF dz dz t7 gok hp gok hp h31 ok_t7 ov_t7F
  obtain ⟨_, _, b⟩ := C11.filtered_document_is_projection {} 10 fT dz dz t7 gok hp gok hp h31 ok_t7 ov_t7T
  obtain ⟨_, _, u⟩ := C01.ok_refines {} 10 dz t7 gok hp h31 ok_t7
  rw [a, b, u]
  exact ⟨valEq_sound _ _ (by decide +kernel), valEq_sound _ _ (by decide +kernel)⟩

/-- an allocator that fails at its first call: the filtered run of `[7]` under `[true]` answers `NoMemory` with the overflow
    flag set (the unconditional clause), while under `[false]` nothing is allocated and the run is `Ok` -/
def dzf : Doc := { dz with pl := { dz.pl with failFrom := some 1 } }
set_option maxRecDepth 100000 in
example : (JDDF.run {} 10 fT dzf t7).1 = .noMemory ∧ (JDDF.run {} 10 fT dzf t7).2.1.overflowed = true ∧
    (JD.frun {} 10 fT t7).1 = .ok ∧ (JDDF.run {} 10 fF dzf t7).1 = .ok := by decide +kernel

/-- `skipped_values_do_not_touch_document` on `{"a":[1,2]}x` with an unbound filter: `Ok` after 11 bytes, document `null`,
    no allocator call at all (the document was empty: the clear makes none either) -/
def tS : List Byte := [0x7B, 0x22, 0x61, 0x22, 0x3A, 0x5B, 0x31, 0x2C, 0x32, 0x5D, 0x7D, 0x78]
example : (JDDF.run {} 10 (.doc none) dz tS).1 = .ok ∧ (JDDF.run {} 10 (.doc none) dz tS).2.2 = 11 ∧
    (JDDF.run {} 10 (.doc none) dz tS).2.1.toVal (JDDF.run {} 10 (.doc none) dz tS).2.1.root = .null ∧
    PL.memSlots (JDDF.run {} 10 (.doc none) dz tS).2.1.pl = 0 ∧ (JDDF.run {} 10 (.doc none) dz tS).2.1.pl.log = [] := by
  obtain ⟨a, b, _, c, _, _, _, e, _, _, f⟩ := C11.skipped_values_do_not_touch_document {} 10 dz tS
  rw [a, b, f]
  exact ⟨by decide +kernel, by decide +kernel, c, e, by decide +kernel⟩

/-- the unfiltered run of the same text consumes the same 11 bytes and needs the StringBuilder and three slots -/
example : (JD.run {} 10 tS).1 = .ok ∧ (JD.run {} 10 tS).2.2 = 11 := by decide +kernel

end C11.ExDocF
