/- C11 at full strength — "For every input that deserializes successfully without a filter and every filter
   document, deserializing with the filter also succeeds and yields exactly the projection of the unfiltered result
   onto the filter."

   Here "every input" is literal: no grammar hypothesis. Whatever the bytes (RFC 8259 JSON or the dialect of the
   library: single quotes, unquoted keys, comments, NaN/Infinity, `decodeUnicode` off, bytes after the document,
   repeated keys), whatever the configuration, the nesting limit and the filter: if the unfiltered run answers
   `Ok`, so does the filtered run, its document is `Spec.Filter.project flt` of the unfiltered one, and it has
   taken the same number of bytes from the reader.

   (This file is separate from AJ/Props/C11.lean only because AJ/Lemmas/Fuel.lean and AJ/Lemmas/JsonComplete.lean
   both declare `JD.skipKeyword_ok` and cannot be imported together; C11.lean holds the grammar-based version, the
   skip simulation on `Spec.Json.Value`, and the clause-by-clause corollaries about `project`.)
   Helper lemmas: AJ/Lemmas/ProjectAll.lean. -/
import AJ.Lemmas.ProjectAll
namespace C11
open JD Spec.Filter

/-- **C11, every input.** -/
theorem json_projection_all_inputs (cfg : Cfg) (L : Nat) (flt : Flt) (input : List Byte)
    (h : (JD.run cfg L input).1 = .ok) :
    JD.frun cfg L flt input = (.ok, project flt (JD.run cfg L input).2.1, (JD.run cfg L input).2.2) :=
  frun_of_run cfg L flt input h

/-- **The skip simulation, every input**: whenever the parsing routine succeeds from a state `s` (with the fuel
    `run` provides for the remaining input: `2·rem s + 1`), and — if the value is a number — the byte it has
    looked ahead at is not one that could continue the number (always the case when the enclosing array, object
    or `run` goes on to succeed, and the only way the 63-byte number buffer could matter), the skipping routine
    succeeds from `s` and ends in THE SAME STATE; and the filtered parser under any filter returns the projection
    in that same state. -/
theorem skip_and_filter_simulate_parse (cfg : Cfg) (fuel L : Nat) (s : St) (v : Val) (s1 : St)
    (h : parseVariant cfg fuel L s = (.ok, v, s1)) (hfuel : 2 * rem s + 1 ≤ fuel)
    (hnum : isNumberVal v = true → inNumber cfg (JD.cur s1).1 = false) :
    skipVariant cfg fuel L s = (.ok, s1) ∧ ∀ flt, fparseVariant cfg fuel L flt s = (.ok, project flt v, s1) :=
  (sim_all (cfg := cfg) fuel).1 L s v s1 (rem s) h (Nat.le_refl _) hfuel hnum

/-- strings alone: `skipQuoted` follows `parseQuoted` on every input, for either quote of the library -/
theorem skipQuoted_follows_parseQuoted (cfg : Cfg) (stop : Byte) (hq : stop = 0x22 ∨ stop = 0x27)
    (fuel : Nat) (acc : List Byte) (hi : Nat) (s : St) (r : List Byte) (s1 : St)
    (h : parseQuoted cfg stop fuel acc hi s = (.ok, r, s1)) (F : Nat) (hF : rem s + 1 ≤ F) :
    skipQuoted stop F s = (.ok, s1) :=
  skipQuoted_of_parse (stopOk_of_quote (by rcases hq with rfl | rfl <;> rfl)) fuel fuel (Nat.le_refl _) acc hi s r s1 F h hF

/-! ## Non-vacuity: inputs outside RFC 8259 -/

/-- `{'a':[1,2,{b:3}],/*c*/"a":7 , k : 'xé\'' } x` — single quotes, unquoted keys, a comment, a repeated key,
    escapes, and a stray byte after the document -/
def t1 : List Byte :=
  [123, 39, 97, 39, 58, 91, 49, 44, 50, 44, 123, 98, 58, 51, 125, 93, 44, 47, 42, 99, 42, 47, 34, 97, 34, 58, 55, 32, 44,
   32, 107, 32, 58, 32, 39, 120, 92, 117, 48, 48, 101, 57, 92, 39, 39, 32, 125, 32, 120]
def cC : Cfg := { comments := true }
theorem t1_ok : (JD.run cC 5 t1).1 = .ok := by decide +kernel
/-- the filter `{"k":true}` -/
def fk : Flt := .doc (some (.obj [([0x6B], .bool true)]))
example : JD.frun cC 5 fk t1 = (.ok, project fk (JD.run cC 5 t1).2.1, (JD.run cC 5 t1).2.2) :=
  json_projection_all_inputs cC 5 fk t1 t1_ok
-- both sides by evaluation: the unfiltered document is `{"a":7,"k":"xé'"}`, 47 bytes taken; filtered: `{"k":"xé'"}`
example : (match (JD.run cC 5 t1).2.1 with
    | .obj [([0x61], .num (.uint 7)), ([0x6B], .str [120, 195, 169, 39])] => true | _ => false) = true ∧
    (JD.run cC 5 t1).2.2 = 47 := by decide +kernel
example : (JD.frun cC 5 fk t1).1 = .ok ∧ (JD.frun cC 5 fk t1).2.2 = 47 ∧
    (match (JD.frun cC 5 fk t1).2.1 with | .obj [([0x6B], .str [120, 195, 169, 39])] => true | _ => false) = true := by
  decide +kernel
example : project fk (.obj [([0x61], .num (.uint 7)), ([0x6B], .str [120, 195, 169, 39])]) =
    .obj [([0x6B], .str [120, 195, 169, 39])] := rfl

/-- `[NaN,-Infinity,'😀',{a:[]}]` with NaN/Infinity on and `\u` decoding off, filter `[{"a":true}]` -/
def t2 : List Byte :=
  [91, 78, 97, 78, 44, 45, 73, 110, 102, 105, 110, 105, 116, 121, 44, 39, 92, 117, 100, 56, 51, 100, 92, 117, 100, 101,
   48, 48, 39, 44, 123, 97, 58, 91, 93, 125, 93]
def cN : Cfg := { nan := true, inf := true, decodeUnicode := false }
theorem t2_ok : (JD.run cN 5 t2).1 = .ok := by decide +kernel
def fa : Flt := .doc (some (.arr [.obj [([0x61], .bool true)]]))
example : JD.frun cN 5 fa t2 = (.ok, project fa (JD.run cN 5 t2).2.1, (JD.run cN 5 t2).2.2) :=
  json_projection_all_inputs cN 5 fa t2 t2_ok
example : (JD.frun cN 5 fa t2).1 = .ok ∧ (JD.frun cN 5 fa t2).2.2 = 37 ∧
    (match (JD.frun cN 5 fa t2).2.1 with
      | .arr [.null, .null, .null, .obj [([0x61], .arr [])]] => true | _ => false) = true := by
  decide +kernel

/-- the hypothesis is needed: the skipping routines are more lenient than the parsing ones, so the filtered run
    can succeed where the unfiltered one fails (`"\q"`: invalid escape; `-`: not a number) -/
example : (JD.run {} 10 [0x22, 0x5C, 0x71, 0x22]).1 = .invalid ∧
    (JD.frun {} 10 (.doc (some (.bool false))) [0x22, 0x5C, 0x71, 0x22]).1 = .ok := by decide +kernel

end C11
