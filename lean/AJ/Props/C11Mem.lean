/- Property C11, memory part: "a filtered deserialization never requests more memory than the unfiltered run", at the
   level of documents, independently of any parser.

   Setting: two slot-level documents `df` (filtered run) and `du` (unfiltered run) with their invariants (`WFG`, `StrOK`)
   and `hproj : abs df = project flt (abs du)` (proved for the deserializers elsewhere).  Conclusions: the string
   table of `df` is contained in that of `du` (nodes, bytes, allocator bytes), the value tree of `df` occupies at most
   as many pool slots (extension slots included) as that of `du`, and - when `df` has no leaked slot - `df` has at most
   as many live pool slots as `du`.

   Side conditions that the value `abs d` alone does not determine (see AJ/Lemmas/DocSize.lean):
   * `NoLinked du` : the strings of `du` are copies held by its string table (a linked string has no node);
   * `ExtBig df`   : no extension slot of `df` is spent on an integer that fits 32 bits;
   * `InlineSmall du` : integers stored inline in `du` fit 32 bits (the model stores unbounded `Int`/`Nat` inline).
   `setArg` (the only writer of numbers) establishes the last two; a deserializer copies every string.  Each of them is
   necessary: see the counterexamples `extBig_needed`, `inlineSmall_needed`, `noLinked_needed` at the end of the file.
   `NoLinked` and `InlineSmall` follow from the cell-global predicates `AllV notLinkedV` / `AllV inlineSmallV`, which
   every `DL` operation used by the deserializers preserves (lemmas `AllV.*` in AJ/Lemmas/DocSize.lean). -/
import AJ.Lemmas.DocSize
namespace C11
open JD (Byte Val Num Flt)
open DL DocSize
open Spec.Filter

/-! ## Strings -/

/-- every string stored by the filtered document is stored by the unfiltered one -/
theorem projected_strings_subset {df du : Doc} {Ff Fu : Forest} {flt : Flt}
    (wf : WFG df Ff) (sf : StrOK df (df.strRefs Ff)) (ef : Exact df (df.strRefs Ff))
    (wu : WFG du Fu) (su : StrOK du (du.strRefs Fu)) (nu : NoLinked du Fu)
    (hproj : abs df = project flt (abs du)) :
    ∀ n ∈ df.strings, ∃ m ∈ du.strings, m.bytes = n.bytes := by
  intro n hn
  have h1 : n.bytes ∈ strsOf (abs df) := table_in_strs wf sf ef n hn
  rw [hproj] at h1
  exact strs_in_table wu su nu _ (project_strs_subset flt _ _ h1)

/-- allocator bytes held for the string nodes: `sizeForLength(len) = len + strOverhead` each -/
def strHeld (d : Doc) : Nat := (d.strings.map (fun n => n.bytes.length + d.strOverhead)).sum

/-- when the filtered document stores equal strings once (`BytesNodup`, kept by `saveString`): it has at most as many
    string nodes as the unfiltered document, holding at most as many bytes - also counting the per-node overhead -/
theorem projected_string_bytes_le {df du : Doc} {Ff Fu : Forest} {flt : Flt}
    (wf : WFG df Ff) (sf : StrOK df (df.strRefs Ff)) (ef : Exact df (df.strRefs Ff))
    (wu : WFG du Fu) (su : StrOK du (du.strRefs Fu)) (nu : NoLinked du Fu)
    (hproj : abs df = project flt (abs du)) (hnd : (df.strings.map (·.bytes)).Nodup) :
    (df.strings.map (·.bytes.length)).sum ≤ (du.strings.map (·.bytes.length)).sum ∧
    df.strings.length ≤ du.strings.length ∧
    (df.strOverhead = du.strOverhead → strHeld df ≤ strHeld du) := by
  have hsub : ∀ b ∈ df.strings.map (·.bytes), b ∈ du.strings.map (·.bytes) := by
    intro b hb
    obtain ⟨n, hn, rfl⟩ := List.mem_map.1 hb
    obtain ⟨m, hm, e⟩ := projected_strings_subset wf sf ef wu su nu hproj n hn
    exact List.mem_map.2 ⟨m, hm, e⟩
  have key : ∀ c : Nat, (df.strings.map (fun n => n.bytes.length + c)).sum ≤ (du.strings.map (fun n => n.bytes.length + c)).sum := by
    intro c
    have := sum_map_le_of_nodup_subset (fun b : List Byte => b.length + c) hnd hsub
    simpa only [List.map_map, Function.comp_def] using this
  refine ⟨by simpa only [Nat.add_zero] using key 0, ?_, ?_⟩
  · have := List.Nodup.length_le_of_subset hnd hsub
    simpa only [List.length_map] using this
  · intro ho
    unfold strHeld
    rw [ho]
    exact key _

/-! ## Pool slots -/

/-- the value tree of the filtered document occupies at most as many pool slots (one per element, two per member, one
    per extension slot) as the value tree of the unfiltered document -/
theorem projected_tree_slots_le {df du : Doc} {Ff Fu : Forest} {flt : Flt}
    (wf : WFG df Ff) (bf : ExtBig df Ff) (wu : WFG du Fu) (iu : InlineSmall du Fu)
    (hproj : abs df = project flt (abs du)) :
    Ff.ids.length + extCount df Ff ≤ Fu.ids.length + extCount du Fu :=
  calc Ff.ids.length + extCount df Ff ≤ slotsOf (abs df) := forest_slots_le wf bf
    _ = slotsOf (project flt (abs du)) := by rw [hproj]
    _ ≤ slotsOf (abs du) := project_slots_le flt _
    _ ≤ Fu.ids.length + extCount du Fu := forest_slots_ge wu iu

/-- when every live slot of the filtered document belongs to its value tree (no leak), the filtered document has at
    most as many live pool slots as the unfiltered one -/
theorem projected_live_slots_le {df du : Doc} {Ff Fu : Forest} {flt : Flt}
    (wf : WFG df Ff) (bf : ExtBig df Ff) (lf : NoLeak df Ff) (wu : WFG du Fu) (iu : InlineSmall du Fu)
    (hproj : abs df = project flt (abs du)) :
    liveCount df ≤ liveCount du :=
  calc liveCount df ≤ Ff.ids.length + extCount df Ff := live_le wf lf
    _ ≤ Fu.ids.length + extCount du Fu := projected_tree_slots_le wf bf wu iu hproj
    _ ≤ liveCount du := live_ge wu

/-- the same in the counters of the pool model: slots handed out minus free list -/
theorem projected_pool_usage_le {df du : Doc} {Ff Fu : Forest} {flt : Flt}
    (wf : WFG df Ff) (bf : ExtBig df Ff) (lf : NoLeak df Ff) (wu : WFG du Fu) (iu : InlineSmall du Fu)
    (hproj : abs df = project flt (abs du)) :
    PL.usage df.pl - df.pl.free.length ≤ PL.usage du.pl - du.pl.free.length := by
  have h := projected_live_slots_le wf bf lf wu iu hproj
  have h1 := liveCount_usage wf.pool
  have h2 := liveCount_usage wu.pool
  omega

/-- without a free list on either side (a deserialization into a cleared document never releases a slot … unless it
    removes a duplicate member; then the free list of `df` only helps): slots handed out -/
theorem projected_pool_usage_le_of_no_free {df du : Doc} {Ff Fu : Forest} {flt : Flt}
    (wf : WFG df Ff) (bf : ExtBig df Ff) (lf : NoLeak df Ff) (wu : WFG du Fu) (iu : InlineSmall du Fu)
    (hproj : abs df = project flt (abs du)) (hfree : df.pl.free = []) :
    PL.usage df.pl ≤ PL.usage du.pl := by
  have h := projected_pool_usage_le wf bf lf wu iu hproj
  rw [hfree] at h
  simp only [List.length_nil, Nat.sub_zero] at h
  omega

end C11

/-! ## Examples: the documents `{"a":"hi","b":2^40}` (unfiltered) and `{"a":"hi"}` (filter `{"a":true}`)

   The documents are written down cell by cell (hash-map lookups of non-zero keys do not evaluate in the kernel, so
   documents produced by the `DL` operations cannot be inspected by `decide`); every invariant is proved for them. -/
namespace C11.MemEx
open JD (Byte Val Num Flt)
open DL DocSize
open Spec.Filter

def g8 : PL.Geo := ⟨8, 1, 1, 16, 16⟩
theorem gok8 : PL.GeoOK g8 := ⟨by decide, by decide⟩
def poolN : Nat → PL.St
  | 0 => PL.init g8
  | n+1 => (PL.allocSlot g8 (poolN n)).2
theorem poolN_inv : ∀ n, PL.Inv g8 (poolN n) ∧ (poolN n).free = []
  | 0 => ⟨PL.init_inv gok8 [], rfl⟩
  | n+1 => by
    obtain ⟨hI, hf⟩ := poolN_inv n
    obtain ⟨a, b, _⟩ := PL.allocSlot_nil gok8 hI hf (Prod.ext rfl rfl : PL.allocSlot g8 (poolN n) = ((PL.allocSlot g8 (poolN n)).1, poolN (n+1)))
    exact ⟨a, b⟩

def kA : List Byte := [0x61]
def kB : List Byte := [0x62]
def hi : List Byte := [0x68, 0x69]
def big : Int := 2^40

def du : Doc :=
  { g := g8, alloc := 0, pl := poolN 5,
    cells := (((((({} : Std.HashMap Nat Cell).insert 0 (.var (.owned 0) 1)).insert 1 (.var (.owned 1) 2)).insert 2
      (.var (.owned 2) 3)).insert 3 (.var (.i64 4) 255)).insert 4 (.ext big)),
    strings := [⟨2, kB, 1⟩, ⟨1, hi, 1⟩, ⟨0, kA, 1⟩], nextNode := 3, root := .obj 0 3 }
def Fu : Forest := .cons (some 0) 1 .nil (.cons (some 2) 3 .nil .nil)

theorem du_cell (j : Nat) : du.cell j =
    if 4 = j then .ext big else if 3 = j then .var (.i64 4) 255 else if 2 = j then .var (.owned 2) 3
    else if 1 = j then .var (.owned 1) 2 else if 0 = j then .var (.owned 0) 1 else .free := by
  simp only [Doc.cell, du, Std.HashMap.getD_insert, beq_iff_eq, Std.HashMap.getD_empty]


theorem du_null : du.null = 255 := by decide +kernel
theorem du_live : PL.liveIds du.g du.pl = [0, 1, 2, 3, 4] := by decide +kernel
theorem du_c0 : du.cell 0 = .var (.owned 0) 1 := by rw [du_cell]; rfl
theorem du_c1 : du.cell 1 = .var (.owned 1) 2 := by rw [du_cell]; rfl
theorem du_c2 : du.cell 2 = .var (.owned 2) 3 := by rw [du_cell]; rfl
theorem du_c3 : du.cell 3 = .var (.i64 4) 255 := by rw [du_cell]; rfl
theorem du_c4 : du.cell 4 = .ext big := by rw [du_cell]; rfl

theorem du_g0 : du.get (.slot 0) = .owned 0 := get_of_var du_c0
theorem du_g1 : du.get (.slot 1) = .owned 1 := get_of_var du_c1
theorem du_g2 : du.get (.slot 2) = .owned 2 := get_of_var du_c2
theorem du_g3 : du.get (.slot 3) = .i64 4 := get_of_var du_c3
theorem du_gr : du.get .root = .obj 0 3 := rfl

theorem du_holders {P : Loc → Prop} (hr : P .root) (h0 : P (.slot 0)) (h1 : P (.slot 1)) (h2 : P (.slot 2))
    (h3 : P (.slot 3)) : ∀ l ∈ holders Fu, P l := by
  intro l hl
  have hl' : l = .root ∨ l = .slot 0 ∨ l = .slot 1 ∨ l = .slot 2 ∨ l = .slot 3 := by
    simpa [holders, Fu, Forest.ids, Forest.keyL] using hl
  rcases hl' with rfl | rfl | rfl | rfl | rfl <;> assumption

theorem wu : WFG du Fu := by
  have n0 := nextOf_of_var du_c0
  have n1 := nextOf_of_var du_c1
  have n2 := nextOf_of_var du_c2
  have n3 := nextOf_of_var du_c3
  have v0 := get_of_var du_c0
  have v1 := get_of_var du_c1
  have v2 := get_of_var du_c2
  have v3 := get_of_var du_c3
  refine ⟨?_, by decide, by intro i hi; rw [du_null]; revert i; decide, (poolN_inv 5).1, ?_, ?_⟩
  · show VOK du (.obj 0 3) Fu
    rw [VOK_obj]
    refine ⟨?_, by rw [du_null]; rfl⟩
    unfold Fu
    rw [Lk_cons, n1, v1]
    refine ⟨⟨rfl, by rw [du_null]; decide, isVar_of_var du_c0, by rw [v0]; trivial, n0⟩, by rw [du_null]; decide,
      isVar_of_var du_c1, ?_, rfl⟩
    rw [Lk_cons, n3, v3, Lk_nil]
    exact ⟨⟨rfl, by rw [du_null]; decide, isVar_of_var du_c2, by rw [v2]; trivial, n2⟩, by rw [du_null]; decide,
      isVar_of_var du_c3, du_null.symm, rfl⟩
  · intro i hi
    exact (PL.mem_liveIds _ _ _).1 (by rw [du_live]; revert i; decide)
  · have h4 : ∀ e ∈ extOfV (du.get (.slot 3)), (∃ p, du.cell e = .ext p) ∧ PL.live du.g du.pl e ∧
        ∀ l' ∈ holders Fu, e ∈ extOfV (du.get l') → l' = .slot 3 := by
      intro e he
      rw [du_g3] at he
      have : e = 4 := by simpa [extOfV] using he
      subst this
      refine ⟨⟨_, du_c4⟩, (PL.mem_liveIds _ _ _).1 (by rw [du_live]; decide), ?_⟩
      refine du_holders ?_ ?_ ?_ ?_ ?_
      · rw [du_gr]; intro h; cases h
      · rw [du_g0]; intro h; cases h
      · rw [du_g1]; intro h; cases h
      · rw [du_g2]; intro h; cases h
      · intro _; rfl
    refine du_holders ?_ ?_ ?_ ?_ h4
    · rw [du_gr]; intro e he; cases he
    · rw [du_g0]; intro e he; cases he
    · rw [du_g1]; intro e he; cases he
    · rw [du_g2]; intro e he; cases he

theorem du_refs : du.strRefs Fu = [0, 1, 2] := by
  simp [Doc.strRefs, holders, Fu, Forest.ids, Forest.keyL, du_g0, du_g1, du_g2, du_g3, du_gr, strOfV]
theorem su : StrOK du (du.strRefs Fu) := by
  rw [du_refs]; exact ⟨by decide, by decide, by decide, by decide⟩
theorem nu : NoLinked du Fu :=
  du_holders (by rw [du_gr]; rfl) (by rw [du_g0]; rfl) (by rw [du_g1]; rfl) (by rw [du_g2]; rfl) (by rw [du_g3]; rfl)
theorem iu : InlineSmall du Fu :=
  du_holders (by rw [du_gr]; rfl) (by rw [du_g0]; rfl) (by rw [du_g1]; rfl) (by rw [du_g2]; rfl) (by rw [du_g3]; rfl)
theorem du_ext4 : du.extOf 4 = big := by simp only [Doc.extOf, du_c4]
theorem du_abs : abs du = .obj [(kA, .str hi), (kB, .num (.sint big))] := by
  rw [abs_eq wu]
  simp only [Doc.valOf, Fu, vals, mkVal, noOv, Option.getD_none, keyB, du_g0, du_g1, du_g2, du_g3, keyOfV, Doc.scalar,
    du_ext4]
  rfl

/-! the filtered document `{"a":"hi"}`: key slot 0, value slot 1, string nodes 0 ("a") and 1 ("hi") -/
def df : Doc :=
  { g := g8, alloc := 0, pl := poolN 2,
    cells := ((({} : Std.HashMap Nat Cell).insert 0 (.var (.owned 0) 1)).insert 1 (.var (.owned 1) 255)),
    strings := [⟨1, hi, 1⟩, ⟨0, kA, 1⟩], nextNode := 2, root := .obj 0 1 }
def Ff : Forest := .cons (some 0) 1 .nil .nil

theorem df_cell (j : Nat) : df.cell j =
    if 1 = j then .var (.owned 1) 255 else if 0 = j then .var (.owned 0) 1 else .free := by
  simp only [Doc.cell, df, Std.HashMap.getD_insert, beq_iff_eq, Std.HashMap.getD_empty]
theorem df_null : df.null = 255 := by decide +kernel
theorem df_live : PL.liveIds df.g df.pl = [0, 1] := by decide +kernel
theorem df_c0 : df.cell 0 = .var (.owned 0) 1 := by rw [df_cell]; rfl
theorem df_c1 : df.cell 1 = .var (.owned 1) 255 := by rw [df_cell]; rfl
theorem df_g0 : df.get (.slot 0) = .owned 0 := get_of_var df_c0
theorem df_g1 : df.get (.slot 1) = .owned 1 := get_of_var df_c1
theorem df_gr : df.get .root = .obj 0 1 := rfl

theorem df_holders {P : Loc → Prop} (hr : P .root) (h0 : P (.slot 0)) (h1 : P (.slot 1)) : ∀ l ∈ holders Ff, P l := by
  intro l hl
  have hl' : l = .root ∨ l = .slot 0 ∨ l = .slot 1 := by
    simpa [holders, Ff, Forest.ids, Forest.keyL] using hl
  rcases hl' with rfl | rfl | rfl <;> assumption

theorem wf : WFG df Ff := by
  refine ⟨?_, by decide, by intro i hi; rw [df_null]; revert i; decide, (poolN_inv 2).1, ?_, ?_⟩
  · show VOK df (.obj 0 1) Ff
    rw [VOK_obj]
    refine ⟨?_, by rw [df_null]; rfl⟩
    unfold Ff
    rw [Lk_cons, nextOf_of_var df_c1, df_g1, Lk_nil]
    exact ⟨⟨rfl, by rw [df_null]; decide, isVar_of_var df_c0, by rw [df_g0]; trivial, nextOf_of_var df_c0⟩,
      by rw [df_null]; decide, isVar_of_var df_c1, df_null.symm, rfl⟩
  · intro i hi
    exact (PL.mem_liveIds _ _ _).1 (by rw [df_live]; revert i; decide)
  · refine df_holders ?_ ?_ ?_
    · rw [df_gr]; intro e he; cases he
    · rw [df_g0]; intro e he; cases he
    · rw [df_g1]; intro e he; cases he

theorem df_refs : df.strRefs Ff = [0, 1] := by
  simp [Doc.strRefs, holders, Ff, Forest.ids, Forest.keyL, df_g0, df_g1, df_gr, strOfV]
theorem sf : StrOK df (df.strRefs Ff) := by
  rw [df_refs]; exact ⟨by decide, by decide, by decide, by decide⟩
theorem ef : Exact df (df.strRefs Ff) := by
  rw [df_refs]; unfold Exact; decide
theorem bf : ExtBig df Ff :=
  df_holders (by rw [df_gr]; rfl) (by rw [df_g0]; rfl) (by rw [df_g1]; rfl)
theorem df_exts : extIds df Ff = [] := by
  simp [extIds, holders, Ff, Forest.ids, Forest.keyL, df_g0, df_g1, df_gr, extOfV]
theorem du_exts : extIds du Fu = [4] := by
  simp [extIds, holders, Fu, Forest.ids, Forest.keyL, du_g0, du_g1, du_g2, du_g3, du_gr, extOfV]
theorem lf : NoLeak df Ff := by
  intro i hi
  have : i ∈ PL.liveIds df.g df.pl := (PL.mem_liveIds _ _ _).2 hi
  rw [df_live] at this
  exact Or.inl this
theorem df_abs : abs df = .obj [(kA, .str hi)] := by
  rw [abs_eq wf]
  simp only [Doc.valOf, Ff, vals, mkVal, noOv, Option.getD_none, keyB, df_g0, df_g1, keyOfV, Doc.scalar]
  rfl

/-- the filter `{"a": true}` -/
def fltA : Flt := .doc (some (.obj [(kA, .bool true)]))

theorem hproj : abs df = project fltA (abs du) := by
  rw [df_abs, du_abs]; rfl

/-- `projected_strings_subset` applies: both nodes of `df` ("hi", "a") are nodes of `du` -/
example : ∀ n ∈ df.strings, ∃ m ∈ du.strings, m.bytes = n.bytes :=
  projected_strings_subset wf sf ef wu su nu hproj

/-- `projected_string_bytes_le` applies: 3 ≤ 4 bytes, 2 ≤ 3 nodes, 33 ≤ 49 allocator bytes -/
example : (df.strings.map (·.bytes.length)).sum ≤ (du.strings.map (·.bytes.length)).sum ∧
    df.strings.length ≤ du.strings.length ∧ strHeld df ≤ strHeld du := by
  obtain ⟨a, b, c⟩ := projected_string_bytes_le wf sf ef wu su nu hproj (by decide)
  exact ⟨a, b, c rfl⟩
example : (df.strings.map (·.bytes.length)).sum = 3 ∧ (du.strings.map (·.bytes.length)).sum = 4 ∧
    strHeld df = 33 ∧ strHeld du = 49 := by decide

/-- `projected_tree_slots_le` applies: 2 + 0 ≤ 4 + 1 -/
example : Ff.ids.length + extCount df Ff ≤ Fu.ids.length + extCount du Fu :=
  projected_tree_slots_le wf bf wu iu hproj
example : Ff.ids.length + extCount df Ff = 2 ∧ Fu.ids.length + extCount du Fu = 5 := by
  simp only [extCount, df_exts, du_exts]; decide

/-- `projected_live_slots_le` applies: 2 ≤ 5 live slots -/
example : liveCount df ≤ liveCount du := projected_live_slots_le wf bf lf wu iu hproj
example : liveCount df = 2 ∧ liveCount du = 5 := by decide +kernel
example : PL.usage df.pl ≤ PL.usage du.pl :=
  projected_pool_usage_le_of_no_free wf bf lf wu iu hproj (poolN_inv 2).2

/-- the lemmas of AJ/Lemmas/DocSize.lean on `du`: 4 slots + 1 extension slot = what the value needs; its strings -/
example : Fu.ids.length + extCount du Fu = slotsOf (abs du) := by
  refine forest_slots wu ⟨iu, ?_⟩
  exact du_holders (by rw [du_gr]; rfl) (by rw [du_g0]; rfl) (by rw [du_g1]; rfl) (by rw [du_g2]; rfl)
    (by rw [du_g3]; simp only [extBigV, du_ext4]; decide)
example : strsOf (abs du) = [kA, hi, kB] := by rw [du_abs]; rfl
example : slotsOf (project fltA (abs du)) = 2 ∧ slotsOf (abs du) = 5 := by rw [du_abs]; exact ⟨rfl, rfl⟩


/-! ## The side conditions are needed: the value alone does not determine the memory

   Root-only documents (layout `.nil`) with equal abstract values and different memory. -/

theorem wfg_root {d : Doc} (hv : ¬ isColl d.root) (hp : PL.Inv d.g d.pl)
    (he : ∀ e ∈ extOfV d.root, (∃ p, d.cell e = .ext p) ∧ PL.live d.g d.pl e) : WFG d .nil := by
  refine ⟨(VOK_scalar hv _).2 rfl, List.nodup_nil, fun i hi => (by cases hi), hp, fun i hi => (by cases hi), ?_⟩
  intro l hl e hel
  have hl' : l = .root := by simpa [holders, Forest.ids] using hl
  subst hl'
  refine ⟨(he e hel).1, (he e hel).2, ?_⟩
  intro l' hl' _
  simpa [holders, Forest.ids] using hl'

/-- a number `x` kept in extension slot 0 -/
def dExt (x : Int) : Doc :=
  { g := g8, alloc := 0, pl := poolN 1, cells := ({} : Std.HashMap Nat Cell).insert 0 (.ext x), root := .i64 0 }
/-- a number `x` kept inline -/
def dInl (x : Int) : Doc := { g := g8, alloc := 0, pl := poolN 0, root := .i32 x }

theorem dExt_c0 (x : Int) : (dExt x).cell 0 = .ext x := by
  simp only [Doc.cell, dExt, Std.HashMap.getD_insert, beq_iff_eq, if_true]
theorem dExt_wf (x : Int) : WFG (dExt x) .nil := by
  refine wfg_root (fun h => h) (poolN_inv 1).1 ?_
  intro e he
  have : e = 0 := by simpa [extOfV, dExt] using he
  subst this
  exact ⟨⟨x, dExt_c0 x⟩, (PL.mem_liveIds _ _ _).1 (show 0 ∈ PL.liveIds g8 (poolN 1) by decide +kernel)⟩
theorem dInl_wf (x : Int) : WFG (dInl x) .nil :=
  wfg_root (fun h => h) (poolN_inv 0).1 (fun e he => by cases he)
theorem dExt_abs (x : Int) : abs (dExt x) = .num (.sint x) := by
  rw [abs_eq (dExt_wf x)]
  show Val.num (.sint ((dExt x).extOf 0)) = _
  simp only [Doc.extOf, dExt_c0]
theorem dInl_abs (x : Int) : abs (dInl x) = .num (.sint x) := by
  rw [abs_eq (dInl_wf x)]; rfl
theorem dExt_count (x : Int) : extCount (dExt x) .nil = 1 := rfl
theorem dInl_count (x : Int) : extCount (dInl x) .nil = 0 := rfl

/-- `ExtBig df` cannot be dropped from `projected_tree_slots_le`: the number 5 in an extension slot (never produced by
    `setArg`, but allowed by `WFG`) against the number 5 inline -/
theorem extBig_needed : ∃ df du : Doc, WFG df .nil ∧ WFG du .nil ∧ InlineSmall du .nil ∧
    abs df = project .all (abs du) ∧
    ¬ (Forest.nil.ids.length + extCount df .nil ≤ Forest.nil.ids.length + extCount du .nil) := by
  refine ⟨dExt 5, dInl 5, dExt_wf 5, dInl_wf 5, ?_, ?_, ?_⟩
  · intro l hl
    have hl' : l = .root := by simpa [holders, Forest.ids] using hl
    subst hl'; rfl
  · rw [dExt_abs, dInl_abs]; rfl
  · rw [dExt_count, dInl_count]; decide

/-- `InlineSmall du` cannot be dropped either: the model lets `.i32` carry any integer; `2^40` inline (impossible in
    C++: the inline payload has 32 bits) against `2^40` in an extension slot, stored canonically -/
theorem inlineSmall_needed : ∃ df du : Doc, WFG df .nil ∧ WFG du .nil ∧ ExtBig df .nil ∧
    abs df = project .all (abs du) ∧
    ¬ (Forest.nil.ids.length + extCount df .nil ≤ Forest.nil.ids.length + extCount du .nil) := by
  refine ⟨dExt big, dInl big, dExt_wf big, dInl_wf big, ?_, ?_, ?_⟩
  · intro l hl
    have hl' : l = .root := by simpa [holders, Forest.ids] using hl
    subst hl'
    show extBigV (dExt big) (.i64 0) = true
    simp only [extBigV, Doc.extOf, dExt_c0]; decide
  · rw [dExt_abs, dInl_abs]; rfl
  · rw [dExt_count, dInl_count]; decide

/-- the string "hi" copied (node 0) / linked (no node) -/
def dOwn : Doc := { g := g8, alloc := 0, pl := poolN 0, strings := [⟨0, hi, 1⟩], nextNode := 1, root := .owned 0 }
def dLnk : Doc := { g := g8, alloc := 0, pl := poolN 0, root := .linked hi }

/-- `NoLinked du` cannot be dropped from `projected_strings_subset`: a linked string has the same value and no node -/
theorem noLinked_needed : ∃ df du : Doc, WFG df .nil ∧ StrOK df (df.strRefs .nil) ∧ Exact df (df.strRefs .nil) ∧
    WFG du .nil ∧ StrOK du (du.strRefs .nil) ∧ abs df = project .all (abs du) ∧
    ¬ (∀ n ∈ df.strings, ∃ m ∈ du.strings, m.bytes = n.bytes) := by
  have w1 : WFG dOwn .nil := wfg_root (fun h => h) (poolN_inv 0).1 (fun e he => by cases he)
  have w2 : WFG dLnk .nil := wfg_root (fun h => h) (poolN_inv 0).1 (fun e he => by cases he)
  refine ⟨dOwn, dLnk, w1, ⟨by decide, by decide, by decide, by decide⟩, by unfold Exact; decide, w2,
    ⟨by decide, by decide, by decide, by decide⟩, ?_, ?_⟩
  · rw [abs_eq w1, abs_eq w2]; rfl
  · intro h
    obtain ⟨m, hm, _⟩ := h ⟨0, hi, 1⟩ (by simp [dOwn])
    cases hm


/-! ## The `AllV` lemmas (AJ/Lemmas/DocSize.lean) establish `NoLinked` / `InlineSmall` along the `DL` operations -/

/-- `["hi", 7, 2^40]` built by the operations a deserializer uses, from a cleared document -/
def dOps : Doc :=
  let d0 := ({ g := g8, alloc := 0, pl := PL.init g8 } : Doc).clearAll.set .root (.arr 255 255)
  let d1 := ((d0.addElement .root).2.setArg (.slot 0) (.strCopied hi)).2
  let d2 := ((d1.addElement .root).2.setArg (.slot 1) (.sint 7)).2
  ((d2.addElement .root).2.setArg (.slot 2) (.sint big)).2

example (F : Forest) : NoLinked dOps F ∧ InlineSmall dOps F := by
  constructor
  · refine AllV.noLinked ?_ F
    exact (((((((AllV.clearAll pcoll_notLinked _).set _ rfl).addElement pcoll_notLinked _).setArg_notLinked _ _
      (by intro s h; cases h)).addElement pcoll_notLinked _).setArg_notLinked _ _ (by intro s h; cases h)).addElement
      pcoll_notLinked _).setArg_notLinked _ _ (by intro s h; cases h)
  · refine AllV.inlineSmall ?_ F
    exact (((((((AllV.clearAll pcoll_inlineSmall _).set _ rfl).addElement pcoll_inlineSmall _).setArg_inlineSmall _ _
      ).addElement pcoll_inlineSmall _).setArg_inlineSmall _ _).addElement pcoll_inlineSmall _).setArg_inlineSmall _ _

end C11.MemEx
