/- Property C11, memory part, FOR THE RUNS: "the document left by a filtered deserialization HOLDS no more memory than the
   document left by the unfiltered deserialization of the same input".

   `dF := (JDDF.run cfg L flt d input).2.1` (filtered, into `d`), `dU := (JDD.run cfg L d' input).2.1` (unfiltered, into `d'`),
   any configuration (string limit at least the initial StringBuilder capacity), nesting limit, filter, input and start
   documents with consistent pools; the unfiltered run answers `Ok` and no allocation of the filtered run failed.  Then
   * `filtered_run_strings_subset`: every string stored by `dF` is stored by `dU`;
   * `filtered_run_string_bytes_le`: `dF` has at most as many string nodes, holding at most as many bytes, also counting the
     per-node overhead of the allocator (when both start documents use the same overhead: `run` keeps it);
   * `filtered_run_live_slots_le`: `dF` has at most as many live pool slots (`filtered_run_pool_usage_le`: in the counters of
     the pool model);
   * `filtered_run_tree_slots_le`: both documents have layouts for which they are well-formed, ALL their live slots are the
     slots of the value tree (elements, keys, members, extension slots), and the tree of `dF` has at most as many;
   * `filtered_run_holds_no_more` bundles them; `transparent_run_holds_no_more` is the instance for a transparent filter.
   The assembly: `C11.filtered_document_is_projection` (the filtered document is the projection of the unfiltered one),
   `JDDF.run_canon` / `JDDF.run_kept` (AJ/Lemmas/JddfCanon.lean: the side conditions `ExtBig`, `InlineSmall`, `NoLinked`, and
   `Tight` for the same layout), `JDDF.run_bytes_nodup`, and the document-level comparison of AJ/Props/C11Mem.lean.
   Also: `run_slots_eq_value` - the value tree of EVERY run result occupies exactly the slots its value needs. -/
import AJ.Lemmas.JddfCanon
import AJ.Props.C11Mem
import AJ.Props.C11Doc
import AJ.Props.C11Slot
import AJ.Props.C06FExact
namespace C11
open JD (Byte Val Num Flt Cfg Code)
open DL DocSize JDD
open Spec.Filter

/-- the two "no leak" predicates (AJ/Lemmas/JddfExact.lean, AJ/Lemmas/DocSize.lean) are the same proposition -/
theorem noLeak_iff (d : Doc) (G : Forest) : JDDF.NoLeak d G ↔ DocSize.NoLeak d G := by
  constructor
  · intro h i hi
    exact (h i hi).imp id (fun ⟨l0, h0, he⟩ => mem_extIds.2 ⟨l0, h0, he⟩)
  · intro h i hi
    exact (h i hi).imp id (fun he => mem_extIds.1 he)

/-! ## What every run leaves -/

/-- EVERY filtered run (any start document, any allocator schedule, any code): inline integers fit 32 bits, no linked
    string - for every layout; the string overhead is that of the start document -/
theorem filtered_run_cells_canonical (cfg : Cfg) (L : Nat) (flt : Flt) (d : Doc) (input : List Byte) :
    AllV inlineSmallV (JDDF.run cfg L flt d input).2.1 ∧ AllV notLinkedV (JDDF.run cfg L flt d input).2.1 ∧
    (∀ F, InlineSmall (JDDF.run cfg L flt d input).2.1 F) ∧ (∀ F, NoLinked (JDDF.run cfg L flt d input).2.1 F) ∧
    (JDDF.run cfg L flt d input).2.1.strOverhead = d.strOverhead := by
  have k := JDDF.run_kept cfg L flt d input
  exact ⟨k.small, k.nolink, fun F => k.small.inlineSmall F, fun F => k.nolink.noLinked F, k.ovh⟩

/-- the same for the unfiltered run -/
theorem run_cells_canonical (cfg : Cfg) (L : Nat) (d : Doc) (input : List Byte) :
    AllV inlineSmallV (JDD.run cfg L d input).2.1 ∧ AllV notLinkedV (JDD.run cfg L d input).2.1 ∧
    (∀ F, InlineSmall (JDD.run cfg L d input).2.1 F) ∧ (∀ F, NoLinked (JDD.run cfg L d input).2.1 F) ∧
    (JDD.run cfg L d input).2.1.strOverhead = d.strOverhead := by
  rw [← allow_all_is_unfiltered_slot_level]
  exact filtered_run_cells_canonical cfg L .all d input

/-- EVERY filtered run from a document with consistent pools: there is a layout for which the result is well-formed and
    stores every number the way `setArg` does (`Canon`: inline iff it fits 32 bits); when no allocation failed, the
    reference counts are exact and no slot is leaked for the same layout -/
theorem filtered_run_canonical (cfg : Cfg) (L : Nat) (flt : Flt) (d : Doc) (input : List Byte) (gok : PL.GeoOK d.g)
    (hp : PL.Inv d.g d.pl) :
    ∃ F', WFG (JDDF.run cfg L flt d input).2.1 F' ∧
      StrOK (JDDF.run cfg L flt d input).2.1 ((JDDF.run cfg L flt d input).2.1.strRefs F') ∧
      Canon (JDDF.run cfg L flt d input).2.1 F' ∧ NoLinked (JDDF.run cfg L flt d input).2.1 F' ∧
      ((JDDF.run cfg L flt d input).2.1.overflowed = false →
        Exact (JDDF.run cfg L flt d input).2.1 ((JDDF.run cfg L flt d input).2.1.strRefs F') ∧
        DocSize.NoLeak (JDDF.run cfg L flt d input).2.1 F') := by
  obtain ⟨F', w, s, e, t⟩ := JDDF.run_canon cfg L flt input gok hp
  obtain ⟨_, _, i, n, _⟩ := filtered_run_cells_canonical cfg L flt d input
  exact ⟨F', w, s, ⟨i F', e⟩, n F', fun ho => ⟨(t ho).exact, (noLeak_iff _ _).1 (t ho).noleak⟩⟩

theorem run_canonical (cfg : Cfg) (L : Nat) (d : Doc) (input : List Byte) (gok : PL.GeoOK d.g) (hp : PL.Inv d.g d.pl) :
    ∃ F', WFG (JDD.run cfg L d input).2.1 F' ∧
      StrOK (JDD.run cfg L d input).2.1 ((JDD.run cfg L d input).2.1.strRefs F') ∧
      Canon (JDD.run cfg L d input).2.1 F' ∧ NoLinked (JDD.run cfg L d input).2.1 F' ∧
      ((JDD.run cfg L d input).2.1.overflowed = false →
        Exact (JDD.run cfg L d input).2.1 ((JDD.run cfg L d input).2.1.strRefs F') ∧
        DocSize.NoLeak (JDD.run cfg L d input).2.1 F') := by
  rw [← allow_all_is_unfiltered_slot_level]
  exact filtered_run_canonical cfg L .all d input gok hp

/-- the value tree of EVERY run result occupies exactly the pool slots its value needs (one per element, two per member,
    one per number outside the 32-bit inline range); when no allocation failed these are ALL the live slots of the pool -/
theorem run_slots_eq_value (cfg : Cfg) (L : Nat) (flt : Flt) (d : Doc) (input : List Byte) (gok : PL.GeoOK d.g)
    (hp : PL.Inv d.g d.pl) :
    ∃ F', WFG (JDDF.run cfg L flt d input).2.1 F' ∧
      treeSlots (JDDF.run cfg L flt d input).2.1 F' = slotsOf (abs (JDDF.run cfg L flt d input).2.1) ∧
      ((JDDF.run cfg L flt d input).2.1.overflowed = false →
        liveCount (JDDF.run cfg L flt d input).2.1 = slotsOf (abs (JDDF.run cfg L flt d input).2.1)) := by
  obtain ⟨F', w, _, c, _, t⟩ := filtered_run_canonical cfg L flt d input gok hp
  have h1 : treeSlots (JDDF.run cfg L flt d input).2.1 F' = slotsOf (abs (JDDF.run cfg L flt d input).2.1) :=
    forest_slots w c
  exact ⟨F', w, h1, fun ho => (live_eq w (t ho).2).trans h1⟩

/-! ## The two runs -/

/-- everything the document-level comparison (AJ/Props/C11Mem.lean) needs, for the two runs -/
theorem run_pair_facts (cfg : Cfg) (L : Nat) (flt : Flt) (d d' : Doc) (input : List Byte)
    (gok : PL.GeoOK d.g) (hp : PL.Inv d.g d.pl) (gok' : PL.GeoOK d'.g) (hp' : PL.Inv d'.g d'.pl)
    (h31 : 31 ≤ cfg.maxStrLen) (hok : (JDD.run cfg L d' input).1 = .ok)
    (hno : (JDDF.run cfg L flt d input).2.1.overflowed = false) :
    ∃ Ff Fu,
      (WFG (JDDF.run cfg L flt d input).2.1 Ff ∧
        StrOK (JDDF.run cfg L flt d input).2.1 ((JDDF.run cfg L flt d input).2.1.strRefs Ff) ∧
        Exact (JDDF.run cfg L flt d input).2.1 ((JDDF.run cfg L flt d input).2.1.strRefs Ff) ∧
        Canon (JDDF.run cfg L flt d input).2.1 Ff ∧ DocSize.NoLeak (JDDF.run cfg L flt d input).2.1 Ff) ∧
      (WFG (JDD.run cfg L d' input).2.1 Fu ∧
        StrOK (JDD.run cfg L d' input).2.1 ((JDD.run cfg L d' input).2.1.strRefs Fu) ∧
        NoLinked (JDD.run cfg L d' input).2.1 Fu ∧ Canon (JDD.run cfg L d' input).2.1 Fu ∧
        DocSize.NoLeak (JDD.run cfg L d' input).2.1 Fu) ∧
      abs (JDDF.run cfg L flt d input).2.1 = project flt (abs (JDD.run cfg L d' input).2.1) := by
  obtain ⟨Ff, wf, sf, cf, _, tf⟩ := filtered_run_canonical cfg L flt d input gok hp
  obtain ⟨Fu, wu, su, cu, nu, tu⟩ := run_canonical cfg L d' input gok' hp'
  obtain ⟨ef, lf⟩ := tf hno
  obtain ⟨_, lu⟩ := tu (C01.ok_no_overflow cfg L d' input gok' hp' h31 hok)
  have hproj := (filtered_document_is_projection cfg L flt d d' input gok hp gok' hp' h31 hok hno).2.2
  exact ⟨Ff, Fu, ⟨wf, sf, ef, cf, lf⟩, ⟨wu, su, nu, cu, lu⟩, hproj⟩

/-- STRINGS: every string stored by the filtered document is stored by the unfiltered one -/
theorem filtered_run_strings_subset (cfg : Cfg) (L : Nat) (flt : Flt) (d d' : Doc) (input : List Byte)
    (gok : PL.GeoOK d.g) (hp : PL.Inv d.g d.pl) (gok' : PL.GeoOK d'.g) (hp' : PL.Inv d'.g d'.pl)
    (h31 : 31 ≤ cfg.maxStrLen) (hok : (JDD.run cfg L d' input).1 = .ok)
    (hno : (JDDF.run cfg L flt d input).2.1.overflowed = false) :
    ∀ n ∈ (JDDF.run cfg L flt d input).2.1.strings, ∃ m ∈ (JDD.run cfg L d' input).2.1.strings, m.bytes = n.bytes := by
  obtain ⟨Ff, Fu, ⟨wf, sf, ef, _, _⟩, ⟨wu, su, nu, _, _⟩, hproj⟩ :=
    run_pair_facts cfg L flt d d' input gok hp gok' hp' h31 hok hno
  exact projected_strings_subset wf sf ef wu su nu hproj

/-- STRING MEMORY: the filtered document has at most as many string nodes as the unfiltered one, holding at most as many
    bytes - also counting the allocator's per-node overhead when the two start documents have the same one -/
theorem filtered_run_string_bytes_le (cfg : Cfg) (L : Nat) (flt : Flt) (d d' : Doc) (input : List Byte)
    (gok : PL.GeoOK d.g) (hp : PL.Inv d.g d.pl) (gok' : PL.GeoOK d'.g) (hp' : PL.Inv d'.g d'.pl)
    (h31 : 31 ≤ cfg.maxStrLen) (hok : (JDD.run cfg L d' input).1 = .ok)
    (hno : (JDDF.run cfg L flt d input).2.1.overflowed = false) :
    ((JDDF.run cfg L flt d input).2.1.strings.map (·.bytes.length)).sum ≤
      ((JDD.run cfg L d' input).2.1.strings.map (·.bytes.length)).sum ∧
    (JDDF.run cfg L flt d input).2.1.strings.length ≤ (JDD.run cfg L d' input).2.1.strings.length ∧
    (d.strOverhead = d'.strOverhead →
      strHeld (JDDF.run cfg L flt d input).2.1 ≤ strHeld (JDD.run cfg L d' input).2.1) := by
  obtain ⟨Ff, Fu, ⟨wf, sf, ef, _, _⟩, ⟨wu, su, nu, _, _⟩, hproj⟩ :=
    run_pair_facts cfg L flt d d' input gok hp gok' hp' h31 hok hno
  obtain ⟨a, b, c⟩ := projected_string_bytes_le wf sf ef wu su nu hproj (JDDF.run_bytes_nodup cfg L flt d input)
  refine ⟨a, b, fun ho => c ?_⟩
  rw [(filtered_run_cells_canonical cfg L flt d input).2.2.2.2, (run_cells_canonical cfg L d' input).2.2.2.2, ho]

/-- POOL SLOTS: the filtered document has at most as many live pool slots as the unfiltered one -/
theorem filtered_run_live_slots_le (cfg : Cfg) (L : Nat) (flt : Flt) (d d' : Doc) (input : List Byte)
    (gok : PL.GeoOK d.g) (hp : PL.Inv d.g d.pl) (gok' : PL.GeoOK d'.g) (hp' : PL.Inv d'.g d'.pl)
    (h31 : 31 ≤ cfg.maxStrLen) (hok : (JDD.run cfg L d' input).1 = .ok)
    (hno : (JDDF.run cfg L flt d input).2.1.overflowed = false) :
    liveCount (JDDF.run cfg L flt d input).2.1 ≤ liveCount (JDD.run cfg L d' input).2.1 := by
  obtain ⟨Ff, Fu, ⟨wf, _, _, cf, lf⟩, ⟨wu, _, _, cu, _⟩, hproj⟩ :=
    run_pair_facts cfg L flt d d' input gok hp gok' hp' h31 hok hno
  exact projected_live_slots_le wf cf.2 lf wu cu.1 hproj

/-- the same in the counters of the pool model: slots handed out minus free list -/
theorem filtered_run_pool_usage_le (cfg : Cfg) (L : Nat) (flt : Flt) (d d' : Doc) (input : List Byte)
    (gok : PL.GeoOK d.g) (hp : PL.Inv d.g d.pl) (gok' : PL.GeoOK d'.g) (hp' : PL.Inv d'.g d'.pl)
    (h31 : 31 ≤ cfg.maxStrLen) (hok : (JDD.run cfg L d' input).1 = .ok)
    (hno : (JDDF.run cfg L flt d input).2.1.overflowed = false) :
    PL.usage (JDDF.run cfg L flt d input).2.1.pl - (JDDF.run cfg L flt d input).2.1.pl.free.length ≤
      PL.usage (JDD.run cfg L d' input).2.1.pl - (JDD.run cfg L d' input).2.1.pl.free.length := by
  obtain ⟨Ff, Fu, ⟨wf, _, _, cf, lf⟩, ⟨wu, _, _, cu, _⟩, hproj⟩ :=
    run_pair_facts cfg L flt d d' input gok hp gok' hp' h31 hok hno
  exact projected_pool_usage_le wf cf.2 lf wu cu.1 hproj

/-- VALUE TREE: both documents are well-formed for some layouts; their live slots are exactly the slots of their value trees
    (elements, keys and member values, extension slots), which are exactly the slots their values need; and the tree of the
    filtered document has at most as many slots as the tree of the unfiltered one -/
theorem filtered_run_tree_slots_le (cfg : Cfg) (L : Nat) (flt : Flt) (d d' : Doc) (input : List Byte)
    (gok : PL.GeoOK d.g) (hp : PL.Inv d.g d.pl) (gok' : PL.GeoOK d'.g) (hp' : PL.Inv d'.g d'.pl)
    (h31 : 31 ≤ cfg.maxStrLen) (hok : (JDD.run cfg L d' input).1 = .ok)
    (hno : (JDDF.run cfg L flt d input).2.1.overflowed = false) :
    ∃ Ff Fu, WFG (JDDF.run cfg L flt d input).2.1 Ff ∧ WFG (JDD.run cfg L d' input).2.1 Fu ∧
      Ff.ids.length + extCount (JDDF.run cfg L flt d input).2.1 Ff ≤
        Fu.ids.length + extCount (JDD.run cfg L d' input).2.1 Fu ∧
      liveCount (JDDF.run cfg L flt d input).2.1 = Ff.ids.length + extCount (JDDF.run cfg L flt d input).2.1 Ff ∧
      liveCount (JDD.run cfg L d' input).2.1 = Fu.ids.length + extCount (JDD.run cfg L d' input).2.1 Fu ∧
      Ff.ids.length + extCount (JDDF.run cfg L flt d input).2.1 Ff = slotsOf (abs (JDDF.run cfg L flt d input).2.1) ∧
      Fu.ids.length + extCount (JDD.run cfg L d' input).2.1 Fu = slotsOf (abs (JDD.run cfg L d' input).2.1) := by
  obtain ⟨Ff, Fu, ⟨wf, _, _, cf, lf⟩, ⟨wu, _, _, cu, lu⟩, hproj⟩ :=
    run_pair_facts cfg L flt d d' input gok hp gok' hp' h31 hok hno
  exact ⟨Ff, Fu, wf, wu, projected_tree_slots_le wf cf.2 wu cu.1 hproj, live_eq wf lf, live_eq wu lu,
    forest_slots wf cf, forest_slots wu cu⟩

/-- **C11, memory: the filtered run holds no more than the unfiltered run** - strings (set, number of nodes, bytes, allocator
    bytes) and pool slots (live slots, pool counters) -/
theorem filtered_run_holds_no_more (cfg : Cfg) (L : Nat) (flt : Flt) (d d' : Doc) (input : List Byte)
    (gok : PL.GeoOK d.g) (hp : PL.Inv d.g d.pl) (gok' : PL.GeoOK d'.g) (hp' : PL.Inv d'.g d'.pl)
    (h31 : 31 ≤ cfg.maxStrLen) (hok : (JDD.run cfg L d' input).1 = .ok)
    (hno : (JDDF.run cfg L flt d input).2.1.overflowed = false) :
    (∀ n ∈ (JDDF.run cfg L flt d input).2.1.strings, ∃ m ∈ (JDD.run cfg L d' input).2.1.strings, m.bytes = n.bytes) ∧
    ((JDDF.run cfg L flt d input).2.1.strings.map (·.bytes.length)).sum ≤
      ((JDD.run cfg L d' input).2.1.strings.map (·.bytes.length)).sum ∧
    (JDDF.run cfg L flt d input).2.1.strings.length ≤ (JDD.run cfg L d' input).2.1.strings.length ∧
    (d.strOverhead = d'.strOverhead →
      strHeld (JDDF.run cfg L flt d input).2.1 ≤ strHeld (JDD.run cfg L d' input).2.1) ∧
    liveCount (JDDF.run cfg L flt d input).2.1 ≤ liveCount (JDD.run cfg L d' input).2.1 ∧
    PL.usage (JDDF.run cfg L flt d input).2.1.pl - (JDDF.run cfg L flt d input).2.1.pl.free.length ≤
      PL.usage (JDD.run cfg L d' input).2.1.pl - (JDD.run cfg L d' input).2.1.pl.free.length := by
  obtain ⟨a, b, c⟩ := filtered_run_string_bytes_le cfg L flt d d' input gok hp gok' hp' h31 hok hno
  exact ⟨filtered_run_strings_subset cfg L flt d d' input gok hp gok' hp' h31 hok hno, a, b, c,
    filtered_run_live_slots_le cfg L flt d d' input gok hp gok' hp' h31 hok hno,
    filtered_run_pool_usage_le cfg L flt d d' input gok hp gok' hp' h31 hok hno⟩

/-- the instance for a transparent filter (`AllowAll`, `Filter(true)`): the filtered run IS the unfiltered run into `d`
    (AJ/Props/C11Slot.lean), so this compares two unfiltered runs of the same input into two documents - whatever their
    geometries and allocators, the one without allocation failure holds no more than the one that answered `Ok` -/
theorem transparent_run_holds_no_more (cfg : Cfg) (L : Nat) (flt : Flt) (ht : JD.Transparent flt) (d d' : Doc)
    (input : List Byte) (gok : PL.GeoOK d.g) (hp : PL.Inv d.g d.pl) (gok' : PL.GeoOK d'.g) (hp' : PL.Inv d'.g d'.pl)
    (h31 : 31 ≤ cfg.maxStrLen) (hok : (JDD.run cfg L d' input).1 = .ok)
    (hno : (JDD.run cfg L d input).2.1.overflowed = false) :
    (∀ n ∈ (JDD.run cfg L d input).2.1.strings, ∃ m ∈ (JDD.run cfg L d' input).2.1.strings, m.bytes = n.bytes) ∧
    ((JDD.run cfg L d input).2.1.strings.map (·.bytes.length)).sum ≤
      ((JDD.run cfg L d' input).2.1.strings.map (·.bytes.length)).sum ∧
    (JDD.run cfg L d input).2.1.strings.length ≤ (JDD.run cfg L d' input).2.1.strings.length ∧
    (d.strOverhead = d'.strOverhead → strHeld (JDD.run cfg L d input).2.1 ≤ strHeld (JDD.run cfg L d' input).2.1) ∧
    liveCount (JDD.run cfg L d input).2.1 ≤ liveCount (JDD.run cfg L d' input).2.1 ∧
    PL.usage (JDD.run cfg L d input).2.1.pl - (JDD.run cfg L d input).2.1.pl.free.length ≤
      PL.usage (JDD.run cfg L d' input).2.1.pl - (JDD.run cfg L d' input).2.1.pl.free.length := by
  have e := transparent_filter_is_unfiltered_slot_level cfg L flt ht d input
  have := filtered_run_holds_no_more cfg L flt d d' input gok hp gok' hp' h31 hok (by rw [e]; exact hno)
  rw [e] at this
  exact this

/-- two `Ok` unfiltered runs of the same input, into any two documents: the same number of live slots, the same strings -/
theorem ok_runs_hold_the_same (cfg : Cfg) (L : Nat) (d d' : Doc) (input : List Byte) (gok : PL.GeoOK d.g)
    (hp : PL.Inv d.g d.pl) (gok' : PL.GeoOK d'.g) (hp' : PL.Inv d'.g d'.pl) (h31 : 31 ≤ cfg.maxStrLen)
    (hok : (JDD.run cfg L d input).1 = .ok) (hok' : (JDD.run cfg L d' input).1 = .ok) :
    liveCount (JDD.run cfg L d input).2.1 = liveCount (JDD.run cfg L d' input).2.1 ∧
    (JDD.run cfg L d input).2.1.strings.length = (JDD.run cfg L d' input).2.1.strings.length ∧
    ((JDD.run cfg L d input).2.1.strings.map (·.bytes.length)).sum =
      ((JDD.run cfg L d' input).2.1.strings.map (·.bytes.length)).sum := by
  obtain ⟨_, a1, a2, _, a3, _⟩ := transparent_run_holds_no_more cfg L .all JD.transparent_all d d' input gok hp gok' hp' h31
    hok' (C01.ok_no_overflow cfg L d input gok hp h31 hok)
  obtain ⟨_, b1, b2, _, b3, _⟩ := transparent_run_holds_no_more cfg L .all JD.transparent_all d' d input gok' hp' gok hp h31
    hok (C01.ok_no_overflow cfg L d' input gok' hp' h31 hok')
  exact ⟨Nat.le_antisymm a3 b3, Nat.le_antisymm a2 b2, Nat.le_antisymm a1 b1⟩

end C11

/-! ## Non-vacuity: geometry ⟨4, 1, 1⟩, default configuration (documents and texts of AJ/Props/C11Doc.lean) -/
namespace C11.MemRunEx
open JD (Byte Val Num Flt Cfg Code)
open DL DocSize JDD
open C11.ExDocF

/-- `"hi"` -/
def hiQ : List Byte := [0x22, 0x68, 0x69, 0x22]
/-- the filter `false` -/
def fNo : Flt := .doc (some (.bool false))

set_option maxRecDepth 100000 in
theorem ok_hi : (JDD.run {} 10 dz hiQ).1 = .ok := by decide +kernel
set_option maxRecDepth 100000 in
theorem ov_hiNo : (JDDF.run {} 10 fNo dz hiQ).2.1.overflowed = false := by decide +kernel
set_option maxRecDepth 100000 in
theorem ov_hiAll : (JDDF.run {} 10 .all dz hiQ).2.1.overflowed = false := by decide +kernel

/-- `filtered_run_holds_no_more` on `[7]` under `[true]` (the element is kept) and under `[false]` (it is skipped) -/
example :
    (∀ n ∈ (JDDF.run {} 10 fT dz t7).2.1.strings, ∃ m ∈ (JDD.run {} 10 dz t7).2.1.strings, m.bytes = n.bytes) ∧
    ((JDDF.run {} 10 fT dz t7).2.1.strings.map (·.bytes.length)).sum ≤
      ((JDD.run {} 10 dz t7).2.1.strings.map (·.bytes.length)).sum ∧
    (JDDF.run {} 10 fT dz t7).2.1.strings.length ≤ (JDD.run {} 10 dz t7).2.1.strings.length ∧
    (dz.strOverhead = dz.strOverhead → strHeld (JDDF.run {} 10 fT dz t7).2.1 ≤ strHeld (JDD.run {} 10 dz t7).2.1) ∧
    liveCount (JDDF.run {} 10 fT dz t7).2.1 ≤ liveCount (JDD.run {} 10 dz t7).2.1 ∧
    PL.usage (JDDF.run {} 10 fT dz t7).2.1.pl - (JDDF.run {} 10 fT dz t7).2.1.pl.free.length ≤
      PL.usage (JDD.run {} 10 dz t7).2.1.pl - (JDD.run {} 10 dz t7).2.1.pl.free.length :=
  C11.filtered_run_holds_no_more {} 10 fT dz dz t7 gok hp gok hp h31 ok_t7 ov_t7T

example : liveCount (JDDF.run {} 10 fF dz t7).2.1 ≤ liveCount (JDD.run {} 10 dz t7).2.1 :=
  (C11.filtered_run_holds_no_more {} 10 fF dz dz t7 gok hp gok hp h31 ok_t7 ov_t7F).2.2.2.2.1

set_option maxRecDepth 100000 in
/-- the numbers: the unfiltered `[7]` holds one slot, as does the run under `[true]`; under `[false]` none -/
example : liveCount (JDD.run {} 10 dz t7).2.1 = 1 ∧ liveCount (JDDF.run {} 10 fT dz t7).2.1 = 1 ∧
    liveCount (JDDF.run {} 10 fF dz t7).2.1 = 0 := by decide +kernel

/-- `filtered_run_holds_no_more` on `"hi"` under the filter `false` (the string is skipped: no node) and under `AllowAll` -/
example : (JDDF.run {} 10 fNo dz hiQ).2.1.strings.length ≤ (JDD.run {} 10 dz hiQ).2.1.strings.length ∧
    strHeld (JDDF.run {} 10 fNo dz hiQ).2.1 ≤ strHeld (JDD.run {} 10 dz hiQ).2.1 ∧
    strHeld (JDDF.run {} 10 .all dz hiQ).2.1 ≤ strHeld (JDD.run {} 10 dz hiQ).2.1 := by
  obtain ⟨_, _, a, b, _⟩ := C11.filtered_run_holds_no_more {} 10 fNo dz dz hiQ gok hp gok hp h31 ok_hi ov_hiNo
  obtain ⟨_, _, _, c, _⟩ := C11.filtered_run_holds_no_more {} 10 .all dz dz hiQ gok hp gok hp h31 ok_hi ov_hiAll
  exact ⟨a, b rfl, c rfl⟩

set_option maxRecDepth 100000 in
/-- the numbers: 2 + 15 allocator bytes for the node of `"hi"` in the unfiltered document, none under the filter `false` -/
example : strHeld (JDD.run {} 10 dz hiQ).2.1 = 17 ∧ strHeld (JDDF.run {} 10 fNo dz hiQ).2.1 = 0 ∧
    (JDD.run {} 10 dz hiQ).2.1.strings.length = 1 := by decide +kernel

/-- the transparent instance on `"hi"`: `Filter(true)` -/
example : strHeld (JDD.run {} 10 dz hiQ).2.1 ≤ strHeld (JDD.run {} 10 dz hiQ).2.1 :=
  (C11.transparent_run_holds_no_more {} 10 (.doc (some (.bool true))) (JD.transparent_true rfl) dz dz hiQ gok hp gok hp h31
    ok_hi (C01.ok_no_overflow {} 10 dz hiQ gok hp h31 ok_hi)).2.2.2.1 rfl

/-- the side conditions on run results: the document left by `[7]` under `[true]` is canonical, has no linked string, its
    value tree occupies exactly the slots its value needs, and these are all its live slots -/
example : ∃ F', WFG (JDDF.run {} 10 fT dz t7).2.1 F' ∧ Canon (JDDF.run {} 10 fT dz t7).2.1 F' ∧
    NoLinked (JDDF.run {} 10 fT dz t7).2.1 F' ∧ DocSize.NoLeak (JDDF.run {} 10 fT dz t7).2.1 F' := by
  obtain ⟨F', w, _, c, n, t⟩ := C11.filtered_run_canonical {} 10 fT dz t7 gok hp
  exact ⟨F', w, c, n, (t ov_t7T).2⟩

example : liveCount (JDDF.run {} 10 fT dz t7).2.1 = slotsOf (abs (JDDF.run {} 10 fT dz t7).2.1) := by
  obtain ⟨_, _, _, h⟩ := C11.run_slots_eq_value {} 10 fT dz t7 gok hp
  exact h ov_t7T

/-- `Kept` needs no hypothesis at all: an allocator that fails at its first call (document `dzf` of AJ/Props/C11Doc.lean) -/
example (flt : Flt) (input : List Byte) (F : Forest) :
    InlineSmall (JDDF.run {} 10 flt dzf input).2.1 F ∧ NoLinked (JDDF.run {} 10 flt dzf input).2.1 F :=
  ⟨(C11.filtered_run_cells_canonical {} 10 flt dzf input).2.2.1 F,
    (C11.filtered_run_cells_canonical {} 10 flt dzf input).2.2.2.1 F⟩

/-- `4294967296` (= 2^32: does not fit the 32-bit inline payload, so the root refers to an extension slot) -/
def big : List Byte := [0x34, 0x32, 0x39, 0x34, 0x39, 0x36, 0x37, 0x32, 0x39, 0x36]

set_option maxRecDepth 100000 in
theorem ok_big : (JDD.run {} 10 dz big).1 = .ok := by decide +kernel
set_option maxRecDepth 100000 in
theorem ov_bigAll : (JDDF.run {} 10 .all dz big).2.1.overflowed = false := by decide +kernel
set_option maxRecDepth 100000 in
theorem ov_bigNo : (JDDF.run {} 10 fNo dz big).2.1.overflowed = false := by decide +kernel

set_option maxRecDepth 100000 in
/-- `ExtBig` / `Canon` with an extension slot in use: the root of the document left by `4294967296` is `.u64 0`, its one
    live slot is the extension slot, which is what the value `2^32` needs; under the filter `false` no slot is held -/
example : (JDD.run {} 10 dz big).2.1.root = .u64 0 ∧ liveCount (JDD.run {} 10 dz big).2.1 = 1 ∧
    liveCount (JDDF.run {} 10 fNo dz big).2.1 = 0 := by
  refine ⟨by decide +kernel, by decide +kernel, by decide +kernel⟩

example : liveCount (JDDF.run {} 10 .all dz big).2.1 = slotsOf (abs (JDDF.run {} 10 .all dz big).2.1) ∧
    liveCount (JDDF.run {} 10 fNo dz big).2.1 ≤ liveCount (JDD.run {} 10 dz big).2.1 := by
  obtain ⟨_, _, _, h⟩ := C11.run_slots_eq_value {} 10 .all dz big gok hp
  exact ⟨h ov_bigAll, C11.filtered_run_live_slots_le {} 10 fNo dz dz big gok hp gok hp h31 ok_big ov_bigNo⟩

end C11.MemRunEx
