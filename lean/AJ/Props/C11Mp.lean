/- C11, MessagePack half — "For every input that deserializes successfully without a filter and every filter
   document, deserializing with a filter also succeeds and yields exactly the projection of the unfiltered result
   onto the filter."

   "Every input" is literal: whatever the bytes, the limits (`env`), the nesting limit and the filter, if the
   unfiltered run (`Flt.all` = `AllowAllFilter`) answers `Ok`, so does the filtered run, its document is
   `Spec.Filter.project flt` of the unfiltered one, and it has taken the same number of bytes from the reader.
   The generalisation to any reader state (`msgpack_filter_simulates_parse`) also covers the runs WITHOUT a
   destination (`hasDst = false`, what the deserializer does below a removed member or a refused container):
   they end in the same reader state and build nothing.

   Differences with JSON that the proof goes through: map keys are always read (and limited by `maxStrLen`) even
   when nothing is kept; a key that is not a string is `InvalidInput` in both runs; REPEATED KEYS ARE NOT MERGED
   by the MessagePack deserializer (both members are stored), and the projection is member-wise; bin/ext values
   (stored raw) are scalars for the filter; skipping a string/bin/ext does not check `maxStrLen` (so the filtered
   run can succeed where the unfiltered one answers `NoMemory`: the hypothesis is needed).
   Helper lemmas: AJ/Lemmas/MpProject.lean (one-step equations), MpProjectSim.lean (the simulation),
   MpProjectNum.lean (number post-processing commutes with the projection), MpProjectEq.lean (boolean document
   equality for the examples). -/
import AJ.Lemmas.MpProjectSim
import AJ.Lemmas.MpProjectNum
import AJ.Lemmas.MpProjectEq
import AJ.Props.C11
namespace C11
open JD Spec.Filter
set_option linter.unusedSimpArgs false

/-! ## The simulation from an arbitrary reader state -/

/-- **Any reader state, any fuel**: if the unfiltered `parseVariant` returns `Ok` with value `v` and reader `r1`,
    then under EVERY filter the filtered `parseVariant` with a destination returns `Ok`, `project flt v` and the
    same reader `r1`; and without a destination it returns `Ok`, the same reader `r1`, and produces nothing. -/
theorem msgpack_filter_simulates_parse (env : MD.Env) (fuel L : Nat) (r : MD.R) (v : Val) (r1 : MD.R) (fnd : Bool)
    (h : MD.parseVariant env fuel L .all true r = (.ok, v, r1, fnd)) :
    fnd = true ∧
    (∀ flt, MD.parseVariant env fuel L flt true r = (.ok, project flt v, r1, true)) ∧
    (∀ flt, MD.parseVariant env fuel L flt false r = (.ok, .null, r1, true)) := by
  obtain ⟨hf, hall⟩ := (MD.sim_all_mp env fuel).1 L r v r1 fnd h
  exact ⟨hf, fun flt => hall flt true, fun flt => hall flt false⟩

/-- the same for the element loop: the unfiltered loop appends `xs` to its accumulator; under the element filter
    `ef` the loop with a destination array appends `projectElems ef xs` (elements removed when `ef` is not
    true-ish, projected otherwise), the loop without one appends nothing; same reader state in all three. -/
theorem msgpack_readArray_simulates (env : MD.Env) (fuel L n : Nat) (r : MD.R) (acc vs : List Val) (r1 : MD.R)
    (h : MD.readArray env fuel L .all true n r acc = (.ok, vs, r1)) :
    ∃ xs, vs = acc.reverse ++ xs ∧
      (∀ ef acc', MD.readArray env fuel L ef true n r acc' = (.ok, acc'.reverse ++ projectElems ef xs, r1)) ∧
      (∀ ef acc', MD.readArray env fuel L ef false n r acc' = (.ok, acc'.reverse, r1)) := by
  obtain ⟨xs, hxs, hall⟩ := (MD.sim_all_mp env fuel).2.1 L n r acc vs r1 h
  refine ⟨xs, hxs, fun ef acc' => hall ef true acc', fun ef acc' => ?_⟩
  rw [hall ef false acc']
  simp only [Bool.false_eq_true, if_false, List.append_nil]

/-- the same for the member loop: keys are read in all three runs; the members appended under the object filter
    `flt` are `projectMembers flt xs`, member by member (repeated keys included, nothing is merged). -/
theorem msgpack_readObject_simulates (env : MD.Env) (fuel L n : Nat) (r : MD.R) (ms out : List (List Byte × Val))
    (r1 : MD.R) (h : MD.readObject env fuel L .all true n r ms = (.ok, out, r1)) :
    ∃ xs, out = ms ++ xs ∧
      (∀ flt ms', MD.readObject env fuel L flt true n r ms' = (.ok, ms' ++ projectMembers flt xs, r1)) ∧
      (∀ flt ms', MD.readObject env fuel L flt false n r ms' = (.ok, ms', r1)) := by
  obtain ⟨xs, hxs, hall⟩ := (MD.sim_all_mp env fuel).2.2 L n r ms out r1 h
  refine ⟨xs, hxs, fun flt ms' => hall flt true ms', fun flt ms' => ?_⟩
  rw [hall flt false ms']
  simp only [Bool.false_eq_true, if_false, List.append_nil]

/-! ## The main theorem -/

/-- **C11, MessagePack, every input.** -/
theorem msgpack_projection_all_inputs (env : MD.Env) (L : Nat) (flt : Flt) (input : List Byte)
    (h : (MD.run env L .all input).1 = .ok) :
    MD.run env L flt input =
      (.ok, project flt (MD.run env L .all input).2.1, (MD.run env L .all input).2.2) := by
  unfold MD.run at h ⊢
  generalize hpv : MD.parseVariant env (2 * input.length + 4) L .all true { unread := input } = pv at h ⊢
  obtain ⟨e, v, r1, fnd⟩ := pv
  simp only [] at h ⊢
  cases fnd with
  | false => cases h
  | true =>
    simp only [if_true] at h
    subst h
    rw [(msgpack_filter_simulates_parse env _ L _ v r1 true hpv).2.1 flt]
    rfl

/-- the three components separately -/
theorem msgpack_projection_components (env : MD.Env) (L : Nat) (flt : Flt) (input : List Byte)
    (h : (MD.run env L .all input).1 = .ok) :
    (MD.run env L flt input).1 = .ok ∧
    (MD.run env L flt input).2.1 = project flt (MD.run env L .all input).2.1 ∧
    (MD.run env L flt input).2.2 = (MD.run env L .all input).2.2 := by
  rw [msgpack_projection_all_inputs env L flt input h]
  exact ⟨rfl, rfl, rfl⟩

/-- the unfiltered run may as well be the run under `Filter(true)` (or any transparent filter) -/
theorem msgpack_projection_wrt_true (env : MD.Env) (L : Nat) (t : Flt) (ht : Transparent t) (flt : Flt)
    (input : List Byte) (h : (MD.run env L t input).1 = .ok) :
    MD.run env L flt input = (.ok, project flt (MD.run env L t input).2.1, (MD.run env L t input).2.2) := by
  rw [msgpack_transparent_identity env L t input ht] at h ⊢
  exact msgpack_projection_all_inputs env L flt input h

/-! ## Configurations that post-process numbers

The model stores every number as read. ARDUINOJSON_USE_DOUBLE=0 narrows stored doubles (`MD.narrowDoubles`), and an
integer outside the configured integer type is stored as `null` (`MD.clampInt`, defined with the lemmas: the model
has no integer-range parameter). Both rewrite number leaves into scalars, hence commute with the projection. -/

/-- ARDUINOJSON_USE_DOUBLE=0: the filtered document of that configuration is the projection of its unfiltered
    document -/
theorem msgpack_projection_narrowDoubles (env : MD.Env) (L : Nat) (flt : Flt) (input : List Byte)
    (h : (MD.run env L .all input).1 = .ok) :
    MD.narrowDoubles (MD.run env L flt input).2.1 = project flt (MD.narrowDoubles (MD.run env L .all input).2.1) := by
  rw [(msgpack_projection_components env L flt input h).2.1, MD.project_narrowDoubles]

/-- any leaf-wise rewriting of numbers into scalars (`null` for an integer out of range, ...) -/
theorem msgpack_projection_mapNums (env : MD.Env) (L : Nat) (flt : Flt) (input : List Byte) (g : Num → Val)
    (hg : MD.ScalarMap g) (h : (MD.run env L .all input).1 = .ok) :
    MD.mapNums g (MD.run env L flt input).2.1 = project flt (MD.mapNums g (MD.run env L .all input).2.1) := by
  rw [(msgpack_projection_components env L flt input h).2.1, MD.project_mapNums hg]

theorem msgpack_projection_intRange (env : MD.Env) (L : Nat) (flt : Flt) (input : List Byte) (lo hi : Int)
    (h : (MD.run env L .all input).1 = .ok) :
    MD.mapNums (MD.clampInt lo hi) (MD.run env L flt input).2.1 =
      project flt (MD.mapNums (MD.clampInt lo hi) (MD.run env L .all input).2.1) :=
  msgpack_projection_mapNums env L flt input _ (MD.clampInt_scalar lo hi) h

/-! ## The clauses of the property text, end to end on the MessagePack deserializer -/

/-- a member of `ms` whose filter entry is true-ish is in the projection, filtered by that entry -/
theorem mem_projectMembers (f : Flt) (ms : List (List Byte × Val)) (k : List Byte) (x : Val)
    (hm : (k, x) ∈ ms) (ha : (f.subKey k).allow = true) : (k, project (f.subKey k) x) ∈ projectMembers f ms := by
  induction ms with
  | nil => cases hm
  | cons kv ms ih =>
    obtain ⟨k', x'⟩ := kv
    rcases List.mem_cons.1 hm with e | hm'
    · cases e
      simp only [projectMembers, ha, if_true, List.mem_cons, true_or]
    · cases ha' : (f.subKey k').allow
      · simp only [projectMembers, ha', Bool.false_eq_true, if_false]; exact ih hm'
      · simp only [projectMembers, ha', if_true]; exact List.mem_cons_of_mem _ (ih hm')

/-- "true keeps a value entirely" (`AllowAllFilter`, `true`, `1`, `1.0`): `msgpack_transparent_identity`,
    `msgpack_true_identity` in C11.lean, on every input, malformed ones included. -/
theorem msgpack_true_keeps (env : MD.Env) (L : Nat) (input : List Byte) (v : Val) (hv : isTrueVal v = true) :
    MD.run env L (.doc (some v)) input = MD.run env L .all input := msgpack_true_identity env L input v hv

/-- "a null or false entry removes the member": a key whose entry (own, else `"*"`) is not true-ish does not
    occur in the filtered map — EVERY occurrence of a repeated key is removed. -/
theorem msgpack_member_removed (env : MD.Env) (L : Nat) (f : Flt) (input : List Byte)
    (h : (MD.run env L .all input).1 = .ok) (ms : List (List Byte × Val))
    (hu : (MD.run env L .all input).2.1 = .obj ms) (hO : f.allowObject = true)
    (k : List Byte) (hk : (f.subKey k).allow = false) :
    ∃ ms', MD.run env L f input = (.ok, .obj ms', (MD.run env L .all input).2.2) ∧ ∀ x, (k, x) ∉ ms' := by
  refine ⟨projectMembers f ms, ?_, null_or_false_removes f ms k hk⟩
  rw [msgpack_projection_all_inputs env L f input h, hu]
  simp only [project, hO, if_true]

/-- an entry `false` removes the member whatever `"*"` says (`subKey_false`); instance on the deserializer -/
theorem msgpack_false_entry_removes (env : MD.Env) (L : Nat) (fm : List (List Byte × Val)) (input : List Byte)
    (h : (MD.run env L .all input).1 = .ok) (ms : List (List Byte × Val))
    (hu : (MD.run env L .all input).2.1 = .obj ms)
    (k : List Byte) (e : Val) (he : lookupKey fm k = some e) (hn : isNullOpt (some e) = false)
    (ht : truthy e = false) :
    ∃ ms', MD.run env L (.doc (some (.obj fm))) input = (.ok, .obj ms', (MD.run env L .all input).2.2) ∧
      ∀ x, (k, x) ∉ ms' :=
  msgpack_member_removed env L _ input h ms hu rfl k (subKey_false fm k e he hn ht)

/-- an absent entry and no `"*"` entry: the member is removed -/
theorem msgpack_absent_entry_removes (env : MD.Env) (L : Nat) (fm : List (List Byte × Val)) (input : List Byte)
    (h : (MD.run env L .all input).1 = .ok) (ms : List (List Byte × Val))
    (hu : (MD.run env L .all input).2.1 = .obj ms)
    (k : List Byte) (he : lookupKey fm k = none) (hs : lookupKey fm [0x2A] = none) :
    ∃ ms', MD.run env L (.doc (some (.obj fm))) input = (.ok, .obj ms', (MD.run env L .all input).2.2) ∧
      ∀ x, (k, x) ∉ ms' :=
  msgpack_member_removed env L _ input h ms hu rfl k (by rw [star_is_wildcard fm k he, hs]; rfl)

/-- `"*"` stands for any key without an entry of its own: such a member of the unfiltered map is kept when the
    `"*"` entry `e` is true-ish, filtered by `e` -/
theorem msgpack_star_wildcard (env : MD.Env) (L : Nat) (fm : List (List Byte × Val)) (input : List Byte)
    (h : (MD.run env L .all input).1 = .ok) (ms : List (List Byte × Val))
    (hu : (MD.run env L .all input).2.1 = .obj ms)
    (k : List Byte) (x e : Val) (hm : (k, x) ∈ ms) (he : lookupKey fm k = none)
    (hs : lookupKey fm [0x2A] = some e) (ht : truthy e = true) :
    ∃ ms', MD.run env L (.doc (some (.obj fm))) input = (.ok, .obj ms', (MD.run env L .all input).2.2) ∧
      (k, project (.doc (some e)) x) ∈ ms' := by
  refine ⟨projectMembers (.doc (some (.obj fm))) ms, ?_, ?_⟩
  · rw [msgpack_projection_all_inputs env L _ input h, hu]
    have hO : (Flt.doc (some (.obj fm))).allowObject = true := rfl
    simp only [project, hO, if_true]
  · have hk : (Flt.doc (some (.obj fm))).subKey k = .doc (some e) := by rw [star_is_wildcard fm k he, hs]
    have := mem_projectMembers (.doc (some (.obj fm))) ms k x hm (by rw [hk]; exact ht)
    rwa [hk] at this

/-- an object filter, member by member (the `filterMap` presentation, `object_filter`) -/
theorem msgpack_object_filter (env : MD.Env) (L : Nat) (fm : List (List Byte × Val)) (input : List Byte)
    (h : (MD.run env L .all input).1 = .ok) (ms : List (List Byte × Val))
    (hu : (MD.run env L .all input).2.1 = .obj ms) :
    (MD.run env L (.doc (some (.obj fm))) input).2.1 =
      .obj (ms.filterMap (fun kv =>
        let e := if isNullOpt (lookupKey fm kv.1) then lookupKey fm [0x2A] else lookupKey fm kv.1
        if (Flt.doc e).allow then some (kv.1, project (.doc e) kv.2) else none)) := by
  rw [(msgpack_projection_components env L _ input h).2.1, hu, object_filter]

/-- "an array filter applies its first element to every element" -/
theorem msgpack_array_filter (env : MD.Env) (L : Nat) (e : Val) (rest : List Val) (input : List Byte)
    (h : (MD.run env L .all input).1 = .ok) (xs : List Val) (hu : (MD.run env L .all input).2.1 = .arr xs) :
    MD.run env L (.doc (some (.arr (e :: rest)))) input =
      (.ok, .arr (if truthy e then xs.map (project (.doc (some e))) else []), (MD.run env L .all input).2.2) := by
  rw [msgpack_projection_all_inputs env L _ input h, hu, array_filter_first_element]

/-- the empty array filter keeps the array and removes every element -/
theorem msgpack_array_filter_empty (env : MD.Env) (L : Nat) (input : List Byte)
    (h : (MD.run env L .all input).1 = .ok) (xs : List Val) (hu : (MD.run env L .all input).2.1 = .arr xs) :
    MD.run env L (.doc (some (.arr []))) input = (.ok, .arr [], (MD.run env L .all input).2.2) := by
  rw [msgpack_projection_all_inputs env L _ input h, hu, array_filter_empty]

theorem isArr_shape (v : Val) (h : v.isArr = true) : ∃ xs, v = .arr xs := by
  cases v <;> first | exact ⟨_, rfl⟩ | exact Bool.noConfusion h
theorem isObj_shape (v : Val) (h : v.isObj = true) : ∃ ms, v = .obj ms := by
  cases v <;> first | exact ⟨_, rfl⟩ | exact Bool.noConfusion h

/-- "a kept value whose kind the filter does not admit becomes null": an array under a filter that refuses
    arrays, a map under a filter that refuses maps, anything else (numbers, booleans, strings, and bin/ext values,
    which are stored raw) under a filter that is not `true` — with all the bytes of the value consumed. -/
theorem msgpack_kind_not_admitted (env : MD.Env) (L : Nat) (f : Flt) (input : List Byte)
    (h : (MD.run env L .all input).1 = .ok) :
    let u := (MD.run env L .all input).2.1
    (u.isArr = true → f.allowArray = false → MD.run env L f input = (.ok, .null, (MD.run env L .all input).2.2)) ∧
    (u.isObj = true → f.allowObject = false → MD.run env L f input = (.ok, .null, (MD.run env L .all input).2.2)) ∧
    (u.isArr = false → u.isObj = false → f.allowValue = false →
      MD.run env L f input = (.ok, .null, (MD.run env L .all input).2.2)) := by
  intro u
  have hp := msgpack_projection_all_inputs env L f input h
  refine ⟨fun h1 h2 => ?_, fun h1 h2 => ?_, fun h1 h2 h3 => ?_⟩
  · rw [hp]
    obtain ⟨xs, hx⟩ : ∃ xs, (MD.run env L .all input).2.1 = .arr xs := isArr_shape _ h1
    rw [hx, (kind_not_accepted f).1 xs h2]
  · rw [hp]
    obtain ⟨ms, hx⟩ : ∃ ms, (MD.run env L .all input).2.1 = .obj ms := isObj_shape _ h1
    rw [hx, (kind_not_accepted f).2.1 ms h2]
  · rw [hp, (kind_not_accepted f).2.2 _ h1 h2 h3]

/-- bin/ext values: stored raw by the unfiltered run, `null` under any filter other than `true` -/
theorem msgpack_raw_under_container_filter (env : MD.Env) (L : Nat) (f : Flt) (input : List Byte) (s : List Byte)
    (h : (MD.run env L .all input).1 = .ok) (hu : (MD.run env L .all input).2.1 = .raw s) :
    MD.run env L f input = (.ok, (if f.allowValue then .raw s else .null), (MD.run env L .all input).2.2) := by
  rw [msgpack_projection_all_inputs env L f input h, hu]
  simp only [project]

end C11

/-! ## Non-vacuity: explicit bytes, filters, and both sides evaluated by the kernel -/
namespace C11.MpExamples
open JD Spec.Filter

/-- `{"k":1,"k":2}` — a REPEATED key: `82 A1 6B 01 A1 6B 02` -/
def mRep : List Byte := [0x82, 0xA1, 0x6B, 0x01, 0xA1, 0x6B, 0x02]
/-- `[{"k":1},{"a":2,"k":true}]`: `92 81 A1 6B 01 82 A1 61 02 A1 6B C3` -/
def mArr : List Byte := [0x92, 0x81, 0xA1, 0x6B, 0x01, 0x82, 0xA1, 0x61, 0x02, 0xA1, 0x6B, 0xC3]
/-- `{"b":bin(DE AD),"e":fixext1(type 5, 07)}`: `82 A1 62 C4 02 DE AD A1 65 D4 05 07` -/
def mBin : List Byte := [0x82, 0xA1, 0x62, 0xC4, 0x02, 0xDE, 0xAD, 0xA1, 0x65, 0xD4, 0x05, 0x07]

/-- `{"k":true}` -/
def fK : Flt := .doc (some (.obj [([0x6B], .bool true)]))
/-- `[{"k":true}]` -/
def fAK : Flt := .doc (some (.arr [.obj [([0x6B], .bool true)]]))
/-- `{"k":false,"*":true}` -/
def fNotK : Flt := .doc (some (.obj [([0x6B], .bool false), ([0x2A], .bool true)]))
/-- `{"*":true}` -/
def fStar : Flt := .doc (some (.obj [([0x2A], .bool true)]))

/-! ### the unfiltered runs -/
/-- both members of the repeated key are stored (the MessagePack deserializer does not merge) -/
theorem run_mRep : MD.run {} 10 .all mRep = (.ok, .obj [([0x6B], .num (.sint 1)), ([0x6B], .num (.sint 2))], 7) :=
  result_eq (by decide +kernel)
theorem run_mArr : MD.run {} 10 .all mArr =
    (.ok, .arr [.obj [([0x6B], .num (.sint 1))], .obj [([0x61], .num (.sint 2)), ([0x6B], .bool true)]], 12) :=
  result_eq (by decide +kernel)
theorem run_mBin : MD.run {} 10 .all mBin =
    (.ok, .obj [([0x62], .raw [0xC4, 0x02, 0xDE, 0xAD]), ([0x65], .raw [0xD4, 0x05, 0x07])], 12) :=
  result_eq (by decide +kernel)

/-! ### the main theorem instantiated, and the same results by evaluation of the filtered model -/

-- repeated key under `{"k":true}`: both occurrences kept
example : MD.run {} 10 fK mRep = (.ok, .obj [([0x6B], .num (.sint 1)), ([0x6B], .num (.sint 2))], 7) := by
  rw [msgpack_projection_all_inputs {} 10 fK mRep (by rw [run_mRep]), run_mRep]; rfl
example : MD.run {} 10 fK mRep = (.ok, .obj [([0x6B], .num (.sint 1)), ([0x6B], .num (.sint 2))], 7) :=
  result_eq (by decide +kernel)
-- repeated key under `{"k":false,"*":true}`: both occurrences removed, 7 bytes taken
example : MD.run {} 10 fNotK mRep = (.ok, .obj [], 7) := by
  rw [msgpack_projection_all_inputs {} 10 fNotK mRep (by rw [run_mRep]), run_mRep]; rfl
example : MD.run {} 10 fNotK mRep = (.ok, .obj [], 7) := result_eq (by decide +kernel)
example : ∃ ms', MD.run {} 10 fNotK mRep = (.ok, .obj ms', (MD.run {} 10 .all mRep).2.2) ∧ ∀ x, ([0x6B], x) ∉ ms' :=
  msgpack_false_entry_removes {} 10 _ mRep (by rw [run_mRep]) _ (by rw [run_mRep]) [0x6B] (.bool false) rfl rfl rfl
-- `{"*":true}`: the wildcard keeps the key `k`
example : ∃ ms', MD.run {} 10 fStar mRep = (.ok, .obj ms', (MD.run {} 10 .all mRep).2.2) ∧
    ([0x6B], project (.doc (some (.bool true))) (.num (.sint 2))) ∈ ms' :=
  msgpack_star_wildcard {} 10 _ mRep (by rw [run_mRep]) _ (by rw [run_mRep]) [0x6B] (.num (.sint 2)) (.bool true)
    (by simp) rfl rfl rfl
example : MD.run {} 10 fStar mRep = (.ok, .obj [([0x6B], .num (.sint 1)), ([0x6B], .num (.sint 2))], 7) :=
  result_eq (by decide +kernel)

-- nested array of maps under `[{"k":true}]`: the member `a` of the second map is removed
example : MD.run {} 10 fAK mArr = (.ok, .arr [.obj [([0x6B], .num (.sint 1))], .obj [([0x6B], .bool true)]], 12) := by
  rw [msgpack_projection_all_inputs {} 10 fAK mArr (by rw [run_mArr]), run_mArr]; rfl
example : MD.run {} 10 fAK mArr = (.ok, .arr [.obj [([0x6B], .num (.sint 1))], .obj [([0x6B], .bool true)]], 12) :=
  result_eq (by decide +kernel)
-- the array clause: `[{"k":true}]` applies `{"k":true}` to every element
example : MD.run {} 10 fAK mArr =
    (.ok, .arr (if truthy (.obj [([0x6B], .bool true)]) then
        [.obj [([0x6B], .num (.sint 1))], .obj [([0x61], .num (.sint 2)), ([0x6B], .bool true)]].map (project fK)
      else []), (MD.run {} 10 .all mArr).2.2) :=
  msgpack_array_filter {} 10 _ [] mArr (by rw [run_mArr]) _ (by rw [run_mArr])
-- `[]` and `[false]` remove every element, `[true]` keeps them
example : MD.run {} 10 (.doc (some (.arr []))) mArr = (.ok, .arr [], 12) := result_eq (by decide +kernel)
example : MD.run {} 10 (.doc (some (.arr [.bool false]))) mArr = (.ok, .arr [], 12) := result_eq (by decide +kernel)
example : MD.run {} 10 (.doc (some (.arr [.bool true]))) mArr = MD.run {} 10 .all mArr := by
  rw [msgpack_projection_all_inputs {} 10 _ mArr (by rw [run_mArr]), run_mArr]; rfl

-- a filter whose shape disagrees with the input: the object filter `{"k":true}` over an array gives `null`,
-- all 12 bytes consumed
example : MD.run {} 10 fK mArr = (.ok, .null, 12) := by
  rw [msgpack_projection_all_inputs {} 10 fK mArr (by rw [run_mArr]), run_mArr]; rfl
example : MD.run {} 10 fK mArr = (.ok, .null, 12) := result_eq (by decide +kernel)
example : MD.run {} 10 fK mArr = (.ok, .null, (MD.run {} 10 .all mArr).2.2) :=
  (msgpack_kind_not_admitted {} 10 fK mArr (by rw [run_mArr])).1 (by rw [run_mArr]; rfl) rfl
-- and an array filter over a map
example : MD.run {} 10 fAK mRep = (.ok, .null, 7) := result_eq (by decide +kernel)

-- bin / ext values: kept raw under `true`, `null` under an object or an array filter
example : MD.run {} 10 (.doc (some (.obj [([0x62], .bool true)]))) mBin =
    (.ok, .obj [([0x62], .raw [0xC4, 0x02, 0xDE, 0xAD])], 12) := by
  rw [msgpack_projection_all_inputs {} 10 _ mBin (by rw [run_mBin]), run_mBin]; rfl
example : MD.run {} 10 (.doc (some (.obj [([0x62], .obj [([0x78], .bool true)]), ([0x65], .arr [.bool true])]))) mBin =
    (.ok, .obj [([0x62], .null), ([0x65], .null)], 12) := by
  rw [msgpack_projection_all_inputs {} 10 _ mBin (by rw [run_mBin]), run_mBin]; rfl
example : MD.run {} 10 (.doc (some (.obj [([0x62], .obj [([0x78], .bool true)]), ([0x65], .arr [.bool true])]))) mBin =
    (.ok, .obj [([0x62], .null), ([0x65], .null)], 12) := result_eq (by decide +kernel)
-- a bin document at top level under `[true]`
example : MD.run {} 10 (.doc (some (.arr [.bool true]))) [0xC4, 0x01, 0xFF] = (.ok, .null, 3) := by
  have hu : MD.run {} 10 .all [0xC4, 0x01, 0xFF] = (.ok, .raw [0xC4, 0x01, 0xFF], 3) := result_eq (by decide +kernel)
  rw [msgpack_raw_under_container_filter {} 10 _ _ [0xC4, 0x01, 0xFF] (by rw [hu]) (by rw [hu]), hu]; rfl

/-! ### the simulation from a reader state in the middle of an input -/

/-- the second element of `mArr`, read from position 5 with 2 trailing bytes: the three runs (unfiltered, filtered
    with a destination, filtered without) stop at position 12 with the same 2 bytes unread -/
def rMid : MD.R := { unread := mArr.drop 5 ++ [0xC0, 0xC1], pos := 5 }
theorem mid_unfiltered : MD.parseVariant {} 6 9 .all true rMid =
    (.ok, .obj [([0x61], .num (.sint 2)), ([0x6B], .bool true)], { unread := [0xC0, 0xC1], pos := 12 }, true) := by
  have h : ∀ o : MD.VOut, (decide (o.1 = .ok) &&
      Val.eqb o.2.1 (.obj [([0x61], .num (.sint 2)), ([0x6B], .bool true)]) &&
      decide (o.2.2.1.unread = [0xC0, 0xC1]) && decide (o.2.2.1.pos = 12) && o.2.2.2) = true →
      o = (.ok, .obj [([0x61], .num (.sint 2)), ([0x6B], .bool true)], { unread := [0xC0, 0xC1], pos := 12 }, true) := by
    rintro ⟨e, v, ⟨u, p⟩, f⟩ h
    simp only [Bool.and_eq_true, decide_eq_true_eq] at h
    obtain ⟨⟨⟨⟨h1, h2⟩, h3⟩, h4⟩, h5⟩ := h
    rw [h1, Val.eqb_sound _ _ h2, h3, h4, h5]
  exact h _ (by decide +kernel)
example : MD.parseVariant {} 6 9 fK true rMid =
    (.ok, .obj [([0x6B], .bool true)], { unread := [0xC0, 0xC1], pos := 12 }, true) :=
  (msgpack_filter_simulates_parse {} 6 9 rMid _ _ _ mid_unfiltered).2.1 fK
example : MD.parseVariant {} 6 9 fK false rMid = (.ok, .null, { unread := [0xC0, 0xC1], pos := 12 }, true) :=
  (msgpack_filter_simulates_parse {} 6 9 rMid _ _ _ mid_unfiltered).2.2 fK
-- by evaluation
example : (MD.parseVariant {} 6 9 fK false rMid).1 = .ok ∧ (MD.parseVariant {} 6 9 fK false rMid).2.2.1.pos = 12 ∧
    (MD.parseVariant {} 6 9 fK false rMid).2.2.1.unread = [0xC0, 0xC1] ∧
    Val.eqb (MD.parseVariant {} 6 9 fK true rMid).2.1 (.obj [([0x6B], .bool true)]) = true := by decide +kernel

/-! ### the hypothesis is needed, and what the filter does not spare -/

/-- skipping does not check `maxStrLen`: with `maxStrLen = 1` the string `"ab"` is `NoMemory` unfiltered and `Ok`
    under the filter `false` -/
example : (MD.run { maxStrLen := 1 } 10 .all [0xA2, 0x61, 0x62]).1 = .noMemory ∧
    (MD.run { maxStrLen := 1 } 10 (.doc (some (.bool false))) [0xA2, 0x61, 0x62]).1 = .ok := by decide +kernel
/-- but keys are always read and limited, and must be strings, whatever the filter: `{"ab":nil}` with
    `maxStrLen = 1` is `NoMemory`, `{1:nil}` is `InvalidInput`, under the filter `false` too -/
example : (MD.run { maxStrLen := 1 } 10 (.doc (some (.bool false))) [0x81, 0xA2, 0x61, 0x62, 0xC0]).1 = .noMemory ∧
    (MD.run {} 10 (.doc (some (.bool false))) [0x81, 0x01, 0xC0]).1 = .invalid ∧
    (MD.run {} 10 .all [0x81, 0x01, 0xC0]).1 = .invalid := by decide +kernel
/-- the nesting limit applies to containers that are skipped -/
example : (MD.run {} 0 (.doc (some (.bool false))) [0x90]).1 = .tooDeep := by decide +kernel

/-! ### number post-processing commutes -/
/-- `[1.5 (float64), 300]` under `[true]`, ARDUINOJSON_USE_DOUBLE=0 and an 8-bit integer type -/
def mNum : List Byte := [0x92, 0xCB, 0x3F, 0xF8, 0, 0, 0, 0, 0, 1, 0xCD, 0x01, 0x2C]
theorem run_mNum : MD.run {} 10 .all mNum = (.ok, .arr [.num (.f64 0x3FF8000000000001), .num (.uint 300)], 13) :=
  result_eq (by decide +kernel)
example : MD.narrowDoubles (MD.run {} 10 (.doc (some (.arr [.bool true]))) mNum).2.1 =
    project (.doc (some (.arr [.bool true]))) (MD.narrowDoubles (MD.run {} 10 .all mNum).2.1) :=
  msgpack_projection_narrowDoubles {} 10 _ mNum (by rw [run_mNum])
example : MD.mapNums (MD.clampInt (-128) 127) (MD.run {} 10 .all mNum).2.1 =
    .arr [.num (.f64 0x3FF8000000000001), .null] := by rw [run_mNum]; rfl

end C11.MpExamples
