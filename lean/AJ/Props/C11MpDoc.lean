/- C11 at slot level, MessagePack — THE FILTERED SLOT-LEVEL MESSAGEPACK DESERIALIZER REFINES THE VALUE-LEVEL FILTERED ONE.

   `MDDF.run env limit flt d input` (AJ/Model/MDDF.lean) is `deserializeMsgPack(doc, input, Filter(f), NestingLimit)` writing into
   the slot-level document `DL.Doc` (slots, chains, reference-counted strings, the StringBuffer and its allocation pattern — EVERY
   map key, kept or not, goes through `StringBuffer::reserve`; validated against the C++ including allocator logs and failure
   schedules). `MD.run env limit flt input` (AJ/Model/MD.lean) is the value-level filtered deserializer that the projection
   theorems of C11 (AJ/Props/C11Mp.lean) are about.

   * `C11.filtered_mp_slot_level_core` / `filtered_mp_slot_level_refines`: the statements of `C09.slot_level_core` /
     `C09.slot_level_refines` (AJ/Props/C09Doc.lean) for the filtered run, FOR EVERY FILTER, environment (no hypothesis on the
     string limit), nesting limit, input and starting document: when no allocation failed, the code, the number of bytes
     consumed and the document left — complete or partial, for every code — are those of `MD.run env limit flt`, and the document
     is well-formed; in any case the code and the consumption are the value-level ones unless the answer is `NoMemory` with the
     overflow flag set. As for the unfiltered run the flag is set IF AND ONLY IF the answer is `NoMemory`
     (`filtered_mp_noMemory_iff_overflow`).
   * `filtered_mp_ok_no_overflow`, `filtered_mp_slot_level_wf`, `filtered_mp_ok_refines`, `filtered_mp_abstract_noMemory`.
   * `filtered_mp_document_is_projection`: THE SLOT-LEVEL C11 FOR MESSAGEPACK. If the unfiltered slot-level run (into any
     document) answers `Ok` and no allocation of the filtered run fails, the filtered run answers `Ok`, consumes the same
     number of bytes, and its document reads back as `Spec.Filter.project flt` of what the unfiltered document reads back as
     (members projected one by one, repeated keys kept) — every input, filter, environment and nesting limit
     (`C09.ok_refines` + `C11.msgpack_projection_all_inputs` + the refinement).
   * `filtered_mp_overflow_is_noMemory`, `filtered_mp_ok_or_noMemory`.
   * `mp_no_destination_untouched`, `mp_allow_nothing_untouched`: a run without destination, and a whole run under a filter that
     allows nothing, leave every field of the document but the allocator state and the overflow flag LITERALLY as they were
     (no hypothesis at all). Contrary to JSON the allocator IS called (keys of skipped maps), and such a run can fail with
     `NoMemory` (examples at the end).
   Helper lemmas: AJ/Lemmas/MddfStep.lean (the routines cut into pieces), MddfSkip.lean (`MDDF.nsim_all`: runs without
   destination), MddfSim.lean (`MDDF.fsim_all`: runs with a destination, in the outcome relation `MDD.mpsim_Sim` of the
   unfiltered development), MddfRun.lean (`MDDF.run_core`), MddfUntouched.lean (`MDDF.untouched_all`). -/
import AJ.Lemmas.MddfRun
import AJ.Lemmas.MddfUntouched
import AJ.Props.C11Mp
set_option linter.unusedSimpArgs false
set_option linter.unusedVariables false

namespace C11
open DL MDD
open JD (Byte Val Code Flt)
open MD (Env)

/-- the two outcomes of a filtered run: no allocation failed and everything agrees with the value-level filtered run (the
    answer is not `NoMemory`, the document is well-formed), or one failed and the answer is `NoMemory` -/
theorem filtered_mp_slot_level_core (env : Env) (limit : Nat) (flt : Flt) (d : Doc) (input : List Byte)
    (gok : PL.GeoOK d.g) (hp : PL.Inv d.g d.pl) :
    ((MDDF.run env limit flt d input).2.1.overflowed = false ∧
      (MDDF.run env limit flt d input).1 = (MD.run env limit flt input).1 ∧
      (MDDF.run env limit flt d input).1 ≠ .noMemory ∧
      (MDDF.run env limit flt d input).2.2 = (MD.run env limit flt input).2.2 ∧
      (MDDF.run env limit flt d input).2.1.toVal (MDDF.run env limit flt d input).2.1.root =
        (MD.run env limit flt input).2.1 ∧
      WF (MDDF.run env limit flt d input).2.1) ∨
    ((MDDF.run env limit flt d input).2.1.overflowed = true ∧ (MDDF.run env limit flt d input).1 = .noMemory) :=
  MDDF.run_core env limit flt d input gok hp

/-- **C11 at slot level, MessagePack, refinement: the filtered slot-level deserializer refines the value-level filtered one,
    for every filter.** When no allocation failed, the code, the number of bytes consumed and the document left — complete or
    partial, for every code — are those of `MD.run env limit flt`; in any case the code and the consumption are those of the
    value-level run unless the answer is `NoMemory` with the overflow flag set. -/
theorem filtered_mp_slot_level_refines (env : Env) (limit : Nat) (flt : Flt) (d : Doc) (input : List Byte)
    (gok : PL.GeoOK d.g) (hp : PL.Inv d.g d.pl) :
    ((MDDF.run env limit flt d input).2.1.overflowed = false →
      (MDDF.run env limit flt d input).1 = (MD.run env limit flt input).1 ∧
      (MDDF.run env limit flt d input).2.2 = (MD.run env limit flt input).2.2 ∧
      (MDDF.run env limit flt d input).2.1.toVal (MDDF.run env limit flt d input).2.1.root =
        (MD.run env limit flt input).2.1) ∧
    (((MDDF.run env limit flt d input).1 = (MD.run env limit flt input).1 ∧
        (MDDF.run env limit flt d input).2.2 = (MD.run env limit flt input).2.2) ∨
      ((MDDF.run env limit flt d input).1 = .noMemory ∧ (MDDF.run env limit flt d input).2.1.overflowed = true)) := by
  rcases filtered_mp_slot_level_core env limit flt d input gok hp with ⟨a, b, _, c, e, _⟩ | ⟨a, b⟩
  · exact ⟨fun _ => ⟨b, c, e⟩, Or.inl ⟨b, c⟩⟩
  · exact ⟨fun h => (by rw [a] at h; cases h), Or.inr ⟨b, a⟩⟩

/-- the overflow flag is set exactly when the answer is `NoMemory`, under every filter -/
theorem filtered_mp_noMemory_iff_overflow (env : Env) (limit : Nat) (flt : Flt) (d : Doc) (input : List Byte)
    (gok : PL.GeoOK d.g) (hp : PL.Inv d.g d.pl) :
    (MDDF.run env limit flt d input).1 = .noMemory ↔ (MDDF.run env limit flt d input).2.1.overflowed = true := by
  rcases filtered_mp_slot_level_core env limit flt d input gok hp with ⟨a, _, b, _⟩ | ⟨a, b⟩
  · exact ⟨fun h => absurd h b, fun h => by rw [a] at h; cases h⟩
  · exact ⟨fun _ => a, fun _ => b⟩

/-- the value-level `NoMemory` (a kept string / binary value, or ANY map key, longer than the limit: no allocator call is
    made) is answered `NoMemory` by the slot-level run too, and the overflow flag is set -/
theorem filtered_mp_abstract_noMemory (env : Env) (limit : Nat) (flt : Flt) (d : Doc) (input : List Byte)
    (gok : PL.GeoOK d.g) (hp : PL.Inv d.g d.pl) (h : (MD.run env limit flt input).1 = .noMemory) :
    (MDDF.run env limit flt d input).1 = .noMemory ∧ (MDDF.run env limit flt d input).2.1.overflowed = true := by
  rcases filtered_mp_slot_level_core env limit flt d input gok hp with ⟨_, a, b, _⟩ | ⟨a, b⟩
  · exact absurd (by rw [a]; exact h) b
  · exact ⟨b, a⟩

/-- `Ok` is never answered after an allocation failure: an `Ok` filtered run has the overflow flag clear -/
theorem filtered_mp_ok_no_overflow (env : Env) (limit : Nat) (flt : Flt) (d : Doc) (input : List Byte)
    (gok : PL.GeoOK d.g) (hp : PL.Inv d.g d.pl) (hok : (MDDF.run env limit flt d input).1 = .ok) :
    (MDDF.run env limit flt d input).2.1.overflowed = false := by
  rcases filtered_mp_slot_level_core env limit flt d input gok hp with ⟨a, _⟩ | ⟨_, b⟩
  · exact a
  · rw [b] at hok; cases hok

/-- without an allocation failure the document left by a filtered run is well-formed — for every code -/
theorem filtered_mp_slot_level_wf (env : Env) (limit : Nat) (flt : Flt) (d : Doc) (input : List Byte)
    (gok : PL.GeoOK d.g) (hp : PL.Inv d.g d.pl) (hno : (MDDF.run env limit flt d input).2.1.overflowed = false) :
    WF (MDDF.run env limit flt d input).2.1 := by
  rcases filtered_mp_slot_level_core env limit flt d input gok hp with ⟨_, _, _, _, _, w⟩ | ⟨a, _⟩
  · exact w
  · rw [a] at hno; cases hno

/-- an `Ok` filtered run: the value-level filtered run is `Ok` too, with the same consumption, and the document reads back as
    its value -/
theorem filtered_mp_ok_refines (env : Env) (limit : Nat) (flt : Flt) (d : Doc) (input : List Byte)
    (gok : PL.GeoOK d.g) (hp : PL.Inv d.g d.pl) (hok : (MDDF.run env limit flt d input).1 = .ok) :
    (MD.run env limit flt input).1 = .ok ∧
    (MDDF.run env limit flt d input).2.2 = (MD.run env limit flt input).2.2 ∧
    (MDDF.run env limit flt d input).2.1.toVal (MDDF.run env limit flt d input).2.1.root =
      (MD.run env limit flt input).2.1 := by
  obtain ⟨a, b, c⟩ := (filtered_mp_slot_level_refines env limit flt d input gok hp).1
    (filtered_mp_ok_no_overflow env limit flt d input gok hp hok)
  exact ⟨by rw [← a]; exact hok, b, c⟩

/-- the geometry of the document is not changed by a filtered run -/
theorem filtered_mp_run_geo (env : Env) (limit : Nat) (flt : Flt) (d : Doc) (input : List Byte) (gok : PL.GeoOK d.g)
    (hp : PL.Inv d.g d.pl) (hno : (MDDF.run env limit flt d input).2.1.overflowed = false) :
    (MDDF.run env limit flt d input).2.1.g = d.g :=
  MDDF.run_geo env limit flt d input gok hp hno

/-- **C11 at slot level, MessagePack: the filtered document is the projection of the unfiltered one.** For every environment,
    nesting limit, filter, input and starting documents `d`, `d'`: if the UNFILTERED slot-level run (into `d'`) answers `Ok`
    and no allocation of the filtered run (into `d`) fails, the filtered run answers `Ok`, consumes the same number of bytes,
    and its document reads back as `Spec.Filter.project flt` of what the unfiltered document reads back as (member by member,
    repeated keys kept: `Spec.Filter.projectMembers`). No hypothesis on the input: every byte string the library accepts. -/
theorem filtered_mp_document_is_projection (env : Env) (L : Nat) (flt : Flt) (d d' : Doc) (input : List Byte)
    (gok : PL.GeoOK d.g) (hp : PL.Inv d.g d.pl) (gok' : PL.GeoOK d'.g) (hp' : PL.Inv d'.g d'.pl)
    (hok : (MDD.run env L d' input).1 = .ok)
    (hno : (MDDF.run env L flt d input).2.1.overflowed = false) :
    (MDDF.run env L flt d input).1 = .ok ∧
    (MDDF.run env L flt d input).2.2 = (MDD.run env L d' input).2.2 ∧
    (MDDF.run env L flt d input).2.1.toVal (MDDF.run env L flt d input).2.1.root =
      Spec.Filter.project flt ((MDD.run env L d' input).2.1.toVal (MDD.run env L d' input).2.1.root) := by
  obtain ⟨u1, u2, u3⟩ := C09.ok_refines env L d' input gok' hp' hok
  obtain ⟨f1, f2, f3⟩ := (filtered_mp_slot_level_refines env L flt d input gok hp).1 hno
  have hpr := msgpack_projection_all_inputs env L flt input u1
  rw [f1, f2, f3, u2, u3, hpr]
  exact ⟨rfl, rfl, rfl⟩

/-- the same with the allocator hypothesis on the answer: when both slot-level runs answer `Ok` -/
theorem filtered_mp_document_is_projection_ok (env : Env) (L : Nat) (flt : Flt) (d d' : Doc) (input : List Byte)
    (gok : PL.GeoOK d.g) (hp : PL.Inv d.g d.pl) (gok' : PL.GeoOK d'.g) (hp' : PL.Inv d'.g d'.pl)
    (hok : (MDD.run env L d' input).1 = .ok) (hokF : (MDDF.run env L flt d input).1 = .ok) :
    (MDDF.run env L flt d input).2.2 = (MDD.run env L d' input).2.2 ∧
    (MDDF.run env L flt d input).2.1.toVal (MDDF.run env L flt d input).2.1.root =
      Spec.Filter.project flt ((MDD.run env L d' input).2.1.toVal (MDD.run env L d' input).2.1.root) :=
  (filtered_mp_document_is_projection env L flt d d' input gok hp gok' hp' hok
    (filtered_mp_ok_no_overflow env L flt d input gok hp hokF)).2

/-- with an allocation failure in the filtered run the answer is `NoMemory`. (Stated as asked, with the unfiltered run `Ok`;
    for MessagePack that hypothesis is not needed: `filtered_mp_noMemory_iff_overflow`.) -/
theorem filtered_mp_overflow_is_noMemory (env : Env) (L : Nat) (flt : Flt) (d d' : Doc) (input : List Byte)
    (gok : PL.GeoOK d.g) (hp : PL.Inv d.g d.pl) (gok' : PL.GeoOK d'.g) (hp' : PL.Inv d'.g d'.pl)
    (hok : (MDD.run env L d' input).1 = .ok)
    (hov : (MDDF.run env L flt d input).2.1.overflowed = true) :
    (MDDF.run env L flt d input).1 = .noMemory :=
  (filtered_mp_noMemory_iff_overflow env L flt d input gok hp).2 hov

/-- when the unfiltered slot-level run answers `Ok`, the filtered run (whatever its allocator does) answers `Ok` or `NoMemory`,
    and `NoMemory` exactly when an allocation failed -/
theorem filtered_mp_ok_or_noMemory (env : Env) (L : Nat) (flt : Flt) (d d' : Doc) (input : List Byte)
    (gok : PL.GeoOK d.g) (hp : PL.Inv d.g d.pl) (gok' : PL.GeoOK d'.g) (hp' : PL.Inv d'.g d'.pl)
    (hok : (MDD.run env L d' input).1 = .ok) :
    ((MDDF.run env L flt d input).1 = .ok ∧ (MDDF.run env L flt d input).2.1.overflowed = false) ∨
    ((MDDF.run env L flt d input).1 = .noMemory ∧ (MDDF.run env L flt d input).2.1.overflowed = true) := by
  cases ho : (MDDF.run env L flt d input).2.1.overflowed with
  | false => exact Or.inl ⟨(filtered_mp_document_is_projection env L flt d d' input gok hp gok' hp' hok ho).1, rfl⟩
  | true => exact Or.inr ⟨(filtered_mp_noMemory_iff_overflow env L flt d input gok hp).2 ho, rfl⟩

/-! ## Runs that store nothing -/

/-- **no destination: the document is untouched.** `parseVariant` with a null destination (what the deserializer runs below a
    removed member, a removed element or a refused container) leaves every field of the document but the allocator state and
    the overflow flag as it was — for every document, filter, input; no hypothesis. -/
theorem mp_no_destination_untouched (env : Env) (fuel limit : Nat) (flt : Flt) (x : MDD.S) :
    MDDF.Same x.d (MDDF.parseVariant env fuel limit flt none x).2.1.d :=
  MDDF.none_untouched env fuel limit flt x

/-- a filter that allows nothing (`Filter` on an unbound variant, on `null`, `false`, a string …): the document left is the
    cleared document apart from the allocator state and the overflow flag; it reads back as `null` -/
theorem mp_allow_nothing_untouched (env : Env) (L : Nat) (flt : Flt) (hA : flt.allowArray = false)
    (hO : flt.allowObject = false) (hV : flt.allowValue = false) (d : Doc) (input : List Byte) :
    MDDF.Same d.clearAll (MDDF.run env L flt d input).2.1 ∧
    (MDDF.run env L flt d input).2.1.root = .null ∧
    (MDDF.run env L flt d input).2.1.strings = [] ∧
    (MDDF.run env L flt d input).2.1.toVal (MDDF.run env L flt d input).2.1.root = .null := by
  have h := MDDF.run_same env L flt d input hV hA hO
  have h4 := h.2.2.2.1
  have h6 := h.2.2.2.2.2.1
  have hr : (MDDF.run env L flt d input).2.1.root = .null := h6
  refine ⟨h, hr, h4, ?_⟩
  rw [hr]
  show (MDDF.run env L flt d input).2.1.toValF (MDDF.run env L flt d input).2.1.fuel .null = .null
  cases (MDDF.run env L flt d input).2.1.fuel <;> rfl

end C11

/-! ## Non-vacuity: geometry ⟨4, 1, 1⟩ (4 slots per pool, 1 inline pool, 1-byte slot ids), default environment.

   As in AJ/Props/C09Doc.lean the slot-level runs are evaluated in the kernel where they touch slot 0 only; the value-level runs
   are evaluated in the kernel; the theorems then give the code, the consumption and the value of the slot-level document. -/
namespace C11.ExMpDocF
open DL MDD C01.ExDoc
open JD (Byte Val Code Flt)

/-- `[1]` : fixarray of one positive fixint -/
def a1 : List Byte := [0x91, 0x01]
/-- `[1` : fixarray of one element, element missing -/
def a1open : List Byte := [0x91]
/-- `{"a":1}` -/
def mA : List Byte := [0x81, 0xa1, 0x61, 0x01]
/-- `{"a":{"key":[1]}}` -/
def mNest : List Byte := [0x81, 0xa1, 0x61, 0x81, 0xa3, 0x6b, 0x65, 0x79, 0x91, 0x01]
/-- the filter `[true]` -/
def fT : Flt := .doc (some (.arr [.bool true]))
/-- the filter `[false]` -/
def fF : Flt := .doc (some (.arr [.bool false]))
/-- the filter `{"b":true}` -/
def fB : Flt := .doc (some (.obj [([0x62], .bool true)]))
/-- the filter `{"a":true}` -/
def fA : Flt := .doc (some (.obj [([0x61], .bool true)]))

set_option maxRecDepth 100000 in
theorem ov_a1T : (MDDF.run {} 10 fT dz a1).2.1.overflowed = false := by decide +kernel
set_option maxRecDepth 100000 in
theorem ov_a1F : (MDDF.run {} 10 fF dz a1).2.1.overflowed = false := by decide +kernel
set_option maxRecDepth 100000 in
theorem ov_a1openT : (MDDF.run {} 10 fT dz a1open).2.1.overflowed = false := by decide +kernel
set_option maxRecDepth 100000 in
theorem ov_mAB : (MDDF.run {} 10 fB dz mA).2.1.overflowed = false := by decide +kernel
set_option maxRecDepth 100000 in
theorem ok_a1 : (MDD.run {} 10 dz a1).1 = .ok := by decide +kernel

/-- `91 01` under `[true]`: `Ok`, 2 bytes, the element is stored in slot 0 and the document reads back as `[1]` -/
example : (MDDF.run {} 10 fT dz a1).1 = .ok ∧ (MDDF.run {} 10 fT dz a1).2.2 = 2 ∧
    (MDDF.run {} 10 fT dz a1).2.1.toVal (MDDF.run {} 10 fT dz a1).2.1.root = .arr [.num (.sint 1)] := by
  obtain ⟨a, b, c⟩ := (C11.filtered_mp_slot_level_refines {} 10 fT dz a1 gok hp).1 ov_a1T
  rw [a, b, c]
  exact ⟨by decide +kernel, by decide +kernel, valEq_sound _ _ (by decide +kernel)⟩

/-- `81 a1 61 01` under `{"b":true}`: `Ok`, 4 bytes consumed, the object is built at the root, its member `"a"` is dropped (the
    key went through the StringBuffer, the value was read without destination), and the document reads back as `{}` -/
example : (MDDF.run {} 10 fB dz mA).1 = .ok ∧ (MDDF.run {} 10 fB dz mA).2.2 = 4 ∧
    (MDDF.run {} 10 fB dz mA).2.1.toVal (MDDF.run {} 10 fB dz mA).2.1.root = .obj [] := by
  obtain ⟨a, b, c⟩ := (C11.filtered_mp_slot_level_refines {} 10 fB dz mA gok hp).1 ov_mAB
  rw [a, b, c]
  exact ⟨by decide +kernel, by decide +kernel, valEq_sound _ _ (by decide +kernel)⟩

set_option maxRecDepth 100000 in
/-- the allocator log of that run: a StringBuffer node of 1 + 15 bytes for the key of the dropped member, released when the
    deserializer is destroyed; no pool block -/
example : (MDDF.run {} 10 fB dz mA).2.1.pl.log = ["D", "A16"] := by decide +kernel

/-- the document of that run is well-formed -/
example : WF (MDDF.run {} 10 fB dz mA).2.1 := C11.filtered_mp_slot_level_wf {} 10 fB dz mA gok hp ov_mAB

/-- `91` under `[true]`: `IncompleteInput`, and the PARTIAL document `[null]` is the same on both sides -/
example : (MDDF.run {} 10 fT dz a1open).1 = .incomplete ∧
    (MDDF.run {} 10 fT dz a1open).2.1.toVal (MDDF.run {} 10 fT dz a1open).2.1.root = .arr [.null] := by
  obtain ⟨a, _, c⟩ := (C11.filtered_mp_slot_level_refines {} 10 fT dz a1open gok hp).1 ov_a1openT
  rw [a, c]
  exact ⟨by decide +kernel, valEq_sound _ _ (by decide +kernel)⟩

/-- `filtered_mp_document_is_projection` on `91 01`: under `[false]` the filtered document is `project [false] [1] = []`, under
    `[true]` it is `[1]`; both `Ok` after the 2 bytes of the unfiltered run -/
example : (MDDF.run {} 10 fF dz a1).1 = .ok ∧ (MDDF.run {} 10 fF dz a1).2.2 = (MDD.run {} 10 dz a1).2.2 ∧
    (MDDF.run {} 10 fF dz a1).2.1.toVal (MDDF.run {} 10 fF dz a1).2.1.root =
      Spec.Filter.project fF ((MDD.run {} 10 dz a1).2.1.toVal (MDD.run {} 10 dz a1).2.1.root) :=
  C11.filtered_mp_document_is_projection {} 10 fF dz dz a1 gok hp gok hp ok_a1 ov_a1F

example : (MDDF.run {} 10 fF dz a1).2.1.toVal (MDDF.run {} 10 fF dz a1).2.1.root = .arr [] ∧
    (MDDF.run {} 10 fT dz a1).2.1.toVal (MDDF.run {} 10 fT dz a1).2.1.root = .arr [.num (.sint 1)] := by
  obtain ⟨_, _, a⟩ := C11.filtered_mp_document_is_projection {} 10 fF dz dz a1 gok hp gok hp ok_a1 ov_a1F
  obtain ⟨_, _, b⟩ := C11.filtered_mp_document_is_projection {} 10 fT dz dz a1 gok hp gok hp ok_a1 ov_a1T
  obtain ⟨_, _, u⟩ := C09.ok_refines {} 10 dz a1 gok hp ok_a1
  rw [a, b, u]
  exact ⟨valEq_sound _ _ (by decide +kernel), valEq_sound _ _ (by decide +kernel)⟩

/-- `81 a1 61 01` under `{"a":true}` (the kept member takes two slots: the run does not evaluate in the kernel). The value-level
    filtered run answers `Ok` with `{"a":1}` after 4 bytes; hence the slot-level run either answers `Ok` after 4 bytes, leaving
    a document that reads back as `{"a":1}`, or it answers `NoMemory` with the overflow flag set (evaluating the model,
    `#eval`, shows the first, with the allocator log `["R32", "A64", "A16"]`). -/
example :
    ((MDDF.run {} 10 fA dz mA).1 = .ok ∧ (MDDF.run {} 10 fA dz mA).2.2 = 4 ∧
      (MDDF.run {} 10 fA dz mA).2.1.toVal (MDDF.run {} 10 fA dz mA).2.1.root = .obj [([0x61], .num (.sint 1))]) ∨
    ((MDDF.run {} 10 fA dz mA).1 = .noMemory ∧ (MDDF.run {} 10 fA dz mA).2.1.overflowed = true) := by
  have h0 : (MD.run {} 10 fA mA).1 = .ok ∧ (MD.run {} 10 fA mA).2.2 = 4 ∧
      (MD.run {} 10 fA mA).2.1 = .obj [([0x61], .num (.sint 1))] :=
    ⟨by decide +kernel, by decide +kernel, valEq_sound _ _ (by decide +kernel)⟩
  rcases C11.filtered_mp_slot_level_core {} 10 fA dz mA gok hp with ⟨_, a, _, b, c, _⟩ | ⟨a, b⟩
  · exact Or.inl ⟨by rw [a]; exact h0.1, by rw [b]; exact h0.2.1, by rw [c]; exact h0.2.2⟩
  · exact Or.inr ⟨b, a⟩

/-- an allocator that fails at its first call (`C01.ExDoc.dzf`): the filtered run of `91 01` under `[true]` answers `NoMemory`
    with the overflow flag set (the unconditional clause) while the value-level run is `Ok`; under `[false]` nothing is
    allocated and the run is `Ok` -/
example : (MDDF.run {} 10 fT dzf a1).1 = .noMemory ∧ (MDDF.run {} 10 fT dzf a1).2.1.overflowed = true ∧
    (MD.run {} 10 fT a1).1 = .ok ∧ (MDDF.run {} 10 fF dzf a1).1 = .ok := by decide +kernel

/-- `mp_allow_nothing_untouched` on `{"a":{"key":[1]}}` with an unbound filter: `Ok` after 10 bytes, document `null`, no slot
    handed out — but, contrary to JSON (`C11.skipped_values_do_not_touch_document`), the allocator WAS called: the keys `"a"`
    and `"key"` of the skipped maps went through `StringBuffer::reserve` (16 bytes, released for 18 bytes, released) -/
example : (MDDF.run {} 10 (.doc none) dz mNest).1 = .ok ∧ (MDDF.run {} 10 (.doc none) dz mNest).2.2 = 10 ∧
    (MDDF.run {} 10 (.doc none) dz mNest).2.1.toVal (MDDF.run {} 10 (.doc none) dz mNest).2.1.root = .null ∧
    (MDDF.run {} 10 (.doc none) dz mNest).2.1.pl.log = ["D", "A18", "D", "A16"] := by
  obtain ⟨_, _, _, c⟩ := C11.mp_allow_nothing_untouched {} 10 (.doc none) rfl rfl rfl dz mNest
  exact ⟨by decide +kernel, by decide +kernel, c, by decide +kernel⟩

/-- and such a run CAN fail: with an allocator that refuses its first call the run under the unbound filter answers `NoMemory`
    after 2 bytes with the overflow flag set, although nothing would be stored (the value-level run is `Ok` after 10 bytes) -/
example : (MDDF.run {} 10 (.doc none) dzf mNest).1 = .noMemory ∧ (MDDF.run {} 10 (.doc none) dzf mNest).2.2 = 2 ∧
    (MDDF.run {} 10 (.doc none) dzf mNest).2.1.overflowed = true ∧
    (MD.run {} 10 (.doc none) mNest).1 = .ok ∧ (MD.run {} 10 (.doc none) mNest).2.2 = 10 := by decide +kernel

/-- a key longer than the string limit is refused by both runs whatever the filter (`filtered_mp_abstract_noMemory`): limit 2,
    key `"key"` of a skipped map -/
example : (MD.run ⟨2⟩ 10 (.doc none) mNest).1 = .noMemory ∧ (MDDF.run ⟨2⟩ 10 (.doc none) dz mNest).1 = .noMemory ∧
    (MDDF.run ⟨2⟩ 10 (.doc none) dz mNest).2.1.overflowed = true := by
  have h : (MD.run ⟨2⟩ 10 (.doc none) mNest).1 = .noMemory := by decide +kernel
  obtain ⟨a, b⟩ := C11.filtered_mp_abstract_noMemory ⟨2⟩ 10 (.doc none) dz mNest gok hp h
  exact ⟨h, a, b⟩

end C11.ExMpDocF
