/- Property C11, memory part, for the RUNS of the slot-level MessagePack deserializers: "the document left by a filtered
   deserialization HOLDS no more memory than the document left by the unfiltered one".

   `dF := (MDDF.run env L flt d input).2.1` (filtered, into any document `d`), `dU := (MDD.run env L d' input).2.1` (unfiltered,
   into any document `d'`). When the unfiltered run answers `Ok` and no allocation of the filtered run failed:
   * `filtered_mp_run_strings_subset`: every string stored by `dF` is stored by `dU`;
   * `filtered_mp_run_string_bytes_le`: `dF` has at most as many string nodes, holding at most as many bytes - also counting
     the per-node overhead when the two starting documents have the same one;
   * `filtered_mp_run_tree_slots_le`: for ALL layouts of the two documents, the value tree of `dF` occupies at most as many
     pool slots (extension slots included) as that of `dU`;
   * `filtered_mp_run_live_slots_le` / `filtered_mp_run_pool_usage_le`: `dF` has at most as many live pool slots;
   * `filtered_mp_run_holds_no_more`: the bundle, with the answer `Ok` of the filtered run.
   Everything is obtained by feeding the document-level comparison (AJ/Props/C11Mem.lean) with the projection theorem
   (`filtered_mp_document_is_projection`, AJ/Props/C11MpDoc.lean) and the side conditions proved for the runs: exact reference
   counts, no leaked slot, canonical extension slots (AJ/Lemmas/MddfExact.lean), 32-bit inline integers, no linked string
   (AJ/Lemmas/MddfCanon.lean), strings stored once.
   NOTE these theorems compare what the documents HOLD at the end. The allocator TRAFFIC of a filtered MessagePack run is not
   bounded by the document: every map key, kept or not, goes through `StringBuffer::reserve` (see the last example). -/
import AJ.Lemmas.MddfCanon
import AJ.Props.C11MpDoc
import AJ.Props.C11MpSlot
import AJ.Props.C11Mem
namespace C11
open DL DocSize
open JD (Byte Val Code Flt)
open MD (Env)

/-- the facts about the unfiltered document that the comparison needs - for EVERY run (no hypothesis on the result) -/
theorem mp_run_unfiltered_side (env : Env) (L : Nat) (d' : Doc) (input : List Byte) (gok' : PL.GeoOK d'.g)
    (hp' : PL.Inv d'.g d'.pl) :
    (∃ Fu, WFG (MDD.run env L d' input).2.1 Fu ∧
      StrOK (MDD.run env L d' input).2.1 ((MDD.run env L d' input).2.1.strRefs Fu)) ∧
    AllV inlineSmallV (MDD.run env L d' input).2.1 ∧ AllV notLinkedV (MDD.run env L d' input).2.1 := by
  rw [← mp_allow_all_is_unfiltered_slot_level]
  exact ⟨MDDF.run_wf env L .all input gok' hp', MDDF.mp_run_inlineSmall env L .all d' input,
    MDDF.mp_run_notLinked env L .all d' input⟩

/-- the filtered document reads back as the projection of the unfiltered one (`abs` form of
    `filtered_mp_document_is_projection`) -/
theorem filtered_mp_run_abs_projection (env : Env) (L : Nat) (flt : Flt) (d d' : Doc) (input : List Byte)
    (gok : PL.GeoOK d.g) (hp : PL.Inv d.g d.pl) (gok' : PL.GeoOK d'.g) (hp' : PL.Inv d'.g d'.pl)
    (hok : (MDD.run env L d' input).1 = .ok) (hno : (MDDF.run env L flt d input).2.1.overflowed = false) :
    abs (MDDF.run env L flt d input).2.1 = Spec.Filter.project flt (abs (MDD.run env L d' input).2.1) :=
  (filtered_mp_document_is_projection env L flt d d' input gok hp gok' hp' hok hno).2.2

/-- STRINGS: every string stored by the filtered document is stored by the unfiltered one -/
theorem filtered_mp_run_strings_subset (env : Env) (L : Nat) (flt : Flt) (d d' : Doc) (input : List Byte)
    (gok : PL.GeoOK d.g) (hp : PL.Inv d.g d.pl) (gok' : PL.GeoOK d'.g) (hp' : PL.Inv d'.g d'.pl)
    (hok : (MDD.run env L d' input).1 = .ok) (hno : (MDDF.run env L flt d input).2.1.overflowed = false) :
    ∀ n ∈ (MDDF.run env L flt d input).2.1.strings, ∃ m ∈ (MDD.run env L d' input).2.1.strings, m.bytes = n.bytes := by
  obtain ⟨Ff, wf, sf, ef, _⟩ := MDDF.mp_run_canon env L flt input gok hp hno
  obtain ⟨⟨Fu, wu, su⟩, _, nu⟩ := mp_run_unfiltered_side env L d' input gok' hp'
  exact projected_strings_subset wf sf ef wu su (nu.noLinked Fu)
    (filtered_mp_run_abs_projection env L flt d d' input gok hp gok' hp' hok hno)

/-- STRING MEMORY: at most as many bytes of string contents, at most as many string nodes, and - when the two starting documents
    have the same per-node overhead - at most as many allocator bytes held for string nodes -/
theorem filtered_mp_run_string_bytes_le (env : Env) (L : Nat) (flt : Flt) (d d' : Doc) (input : List Byte)
    (gok : PL.GeoOK d.g) (hp : PL.Inv d.g d.pl) (gok' : PL.GeoOK d'.g) (hp' : PL.Inv d'.g d'.pl)
    (hok : (MDD.run env L d' input).1 = .ok) (hno : (MDDF.run env L flt d input).2.1.overflowed = false) :
    ((MDDF.run env L flt d input).2.1.strings.map (·.bytes.length)).sum ≤
      ((MDD.run env L d' input).2.1.strings.map (·.bytes.length)).sum ∧
    (MDDF.run env L flt d input).2.1.strings.length ≤ (MDD.run env L d' input).2.1.strings.length ∧
    (d.strOverhead = d'.strOverhead →
      strHeld (MDDF.run env L flt d input).2.1 ≤ strHeld (MDD.run env L d' input).2.1) := by
  obtain ⟨Ff, wf, sf, ef, _⟩ := MDDF.mp_run_canon env L flt input gok hp hno
  obtain ⟨⟨Fu, wu, su⟩, _, nu⟩ := mp_run_unfiltered_side env L d' input gok' hp'
  obtain ⟨a, b, c⟩ := projected_string_bytes_le wf sf ef wu su (nu.noLinked Fu)
    (filtered_mp_run_abs_projection env L flt d d' input gok hp gok' hp' hok hno)
    (MDDF.run_bytes_nodup env L flt d input)
  refine ⟨a, b, fun ho => c ?_⟩
  rw [MDDF.mp_run_strOverhead, ← mp_allow_all_is_unfiltered_slot_level, MDDF.mp_run_strOverhead]
  exact ho

/-- TREE SLOTS, for all layouts of the two documents: the value tree of the filtered document occupies at most as many pool
    slots (one per element, two per member, one per extension slot) as the value tree of the unfiltered document -/
theorem filtered_mp_run_tree_slots_le (env : Env) (L : Nat) (flt : Flt) (d d' : Doc) (input : List Byte)
    (gok : PL.GeoOK d.g) (hp : PL.Inv d.g d.pl) (gok' : PL.GeoOK d'.g) (hp' : PL.Inv d'.g d'.pl)
    (hok : (MDD.run env L d' input).1 = .ok) (hno : (MDDF.run env L flt d input).2.1.overflowed = false)
    (Ff Fu : Forest) (wf : WFG (MDDF.run env L flt d input).2.1 Ff) (wu : WFG (MDD.run env L d' input).2.1 Fu) :
    Ff.ids.length + extCount (MDDF.run env L flt d input).2.1 Ff ≤
      Fu.ids.length + extCount (MDD.run env L d' input).2.1 Fu := by
  obtain ⟨F0, w0, _, _, l0, c0, _⟩ := MDDF.mp_run_canon env L flt input gok hp hno
  obtain ⟨_, iu, _⟩ := mp_run_unfiltered_side env L d' input gok' hp'
  calc Ff.ids.length + extCount (MDDF.run env L flt d input).2.1 Ff
      ≤ liveCount (MDDF.run env L flt d input).2.1 := live_ge wf
    _ ≤ F0.ids.length + extCount (MDDF.run env L flt d input).2.1 F0 := live_le w0 l0
    _ ≤ Fu.ids.length + extCount (MDD.run env L d' input).2.1 Fu :=
      projected_tree_slots_le w0 c0.2 wu (iu.inlineSmall Fu)
        (filtered_mp_run_abs_projection env L flt d d' input gok hp gok' hp' hok hno)

/-- LIVE SLOTS: the filtered document has at most as many live pool slots as the unfiltered one -/
theorem filtered_mp_run_live_slots_le (env : Env) (L : Nat) (flt : Flt) (d d' : Doc) (input : List Byte)
    (gok : PL.GeoOK d.g) (hp : PL.Inv d.g d.pl) (gok' : PL.GeoOK d'.g) (hp' : PL.Inv d'.g d'.pl)
    (hok : (MDD.run env L d' input).1 = .ok) (hno : (MDDF.run env L flt d input).2.1.overflowed = false) :
    liveCount (MDDF.run env L flt d input).2.1 ≤ liveCount (MDD.run env L d' input).2.1 := by
  obtain ⟨F0, w0, _, _, l0, c0, _⟩ := MDDF.mp_run_canon env L flt input gok hp hno
  obtain ⟨⟨Fu, wu, _⟩, iu, _⟩ := mp_run_unfiltered_side env L d' input gok' hp'
  exact projected_live_slots_le w0 c0.2 l0 wu (iu.inlineSmall Fu)
    (filtered_mp_run_abs_projection env L flt d d' input gok hp gok' hp' hok hno)

/-- the same in the counters of the pool model: slots handed out minus free list -/
theorem filtered_mp_run_pool_usage_le (env : Env) (L : Nat) (flt : Flt) (d d' : Doc) (input : List Byte)
    (gok : PL.GeoOK d.g) (hp : PL.Inv d.g d.pl) (gok' : PL.GeoOK d'.g) (hp' : PL.Inv d'.g d'.pl)
    (hok : (MDD.run env L d' input).1 = .ok) (hno : (MDDF.run env L flt d input).2.1.overflowed = false) :
    PL.usage (MDDF.run env L flt d input).2.1.pl - (MDDF.run env L flt d input).2.1.pl.free.length ≤
      PL.usage (MDD.run env L d' input).2.1.pl - (MDD.run env L d' input).2.1.pl.free.length := by
  obtain ⟨F0, w0, _, _, l0, c0, _⟩ := MDDF.mp_run_canon env L flt input gok hp hno
  obtain ⟨⟨Fu, wu, _⟩, iu, _⟩ := mp_run_unfiltered_side env L d' input gok' hp'
  exact projected_pool_usage_le w0 c0.2 l0 wu (iu.inlineSmall Fu)
    (filtered_mp_run_abs_projection env L flt d d' input gok hp gok' hp' hok hno)

/-- **C11, memory, MessagePack runs.** If the unfiltered slot-level run answers `Ok` and no allocation of the filtered run
    fails: the filtered run answers `Ok`, and its document holds no more than the unfiltered document - strings (a subset,
    fewer nodes, fewer bytes, fewer allocator bytes) and pool slots (live slots). -/
theorem filtered_mp_run_holds_no_more (env : Env) (L : Nat) (flt : Flt) (d d' : Doc) (input : List Byte)
    (gok : PL.GeoOK d.g) (hp : PL.Inv d.g d.pl) (gok' : PL.GeoOK d'.g) (hp' : PL.Inv d'.g d'.pl)
    (hok : (MDD.run env L d' input).1 = .ok) (hno : (MDDF.run env L flt d input).2.1.overflowed = false) :
    (MDDF.run env L flt d input).1 = .ok ∧
    (∀ n ∈ (MDDF.run env L flt d input).2.1.strings, ∃ m ∈ (MDD.run env L d' input).2.1.strings, m.bytes = n.bytes) ∧
    ((MDDF.run env L flt d input).2.1.strings.map (·.bytes.length)).sum ≤
      ((MDD.run env L d' input).2.1.strings.map (·.bytes.length)).sum ∧
    (MDDF.run env L flt d input).2.1.strings.length ≤ (MDD.run env L d' input).2.1.strings.length ∧
    (d.strOverhead = d'.strOverhead →
      strHeld (MDDF.run env L flt d input).2.1 ≤ strHeld (MDD.run env L d' input).2.1) ∧
    liveCount (MDDF.run env L flt d input).2.1 ≤ liveCount (MDD.run env L d' input).2.1 ∧
    PL.usage (MDDF.run env L flt d input).2.1.pl - (MDDF.run env L flt d input).2.1.pl.free.length ≤
      PL.usage (MDD.run env L d' input).2.1.pl - (MDD.run env L d' input).2.1.pl.free.length := by
  obtain ⟨a, b, c⟩ := filtered_mp_run_string_bytes_le env L flt d d' input gok hp gok' hp' hok hno
  exact ⟨(filtered_mp_document_is_projection env L flt d d' input gok hp gok' hp' hok hno).1,
    filtered_mp_run_strings_subset env L flt d d' input gok hp gok' hp' hok hno, a, b, c,
    filtered_mp_run_live_slots_le env L flt d d' input gok hp gok' hp' hok hno,
    filtered_mp_run_pool_usage_le env L flt d d' input gok hp gok' hp' hok hno⟩

/-- with the answers only: both runs `Ok` -/
theorem filtered_mp_run_holds_no_more_ok (env : Env) (L : Nat) (flt : Flt) (d d' : Doc) (input : List Byte)
    (gok : PL.GeoOK d.g) (hp : PL.Inv d.g d.pl) (gok' : PL.GeoOK d'.g) (hp' : PL.Inv d'.g d'.pl)
    (hok : (MDD.run env L d' input).1 = .ok) (hokF : (MDDF.run env L flt d input).1 = .ok) :
    (MDDF.run env L flt d input).2.1.strings.length ≤ (MDD.run env L d' input).2.1.strings.length ∧
    liveCount (MDDF.run env L flt d input).2.1 ≤ liveCount (MDD.run env L d' input).2.1 := by
  obtain ⟨_, _, _, b, _, c, _⟩ := filtered_mp_run_holds_no_more env L flt d d' input gok hp gok' hp' hok
    (filtered_mp_ok_no_overflow env L flt d input gok hp hokF)
  exact ⟨b, c⟩

end C11

/-! ## Non-vacuity (geometry ⟨4, 1, 1⟩; the runs touch slot 0 only, so the hypotheses evaluate in the kernel) -/
namespace C11.ExMpMemRun
open DL DocSize MDD C01.ExDoc C11.ExMpDocF
open JD (Byte Val Code Flt)

/-- fixstr `"hi"` -/
def sHi : List Byte := [0xa2, 0x68, 0x69]
/-- the filter `false` -/
def fNo : Flt := .doc (some (.bool false))

set_option maxRecDepth 100000 in
theorem ok_sHi : (MDD.run {} 10 dz sHi).1 = .ok := by decide +kernel
set_option maxRecDepth 100000 in
theorem ov_sHiNo : (MDDF.run {} 10 fNo dz sHi).2.1.overflowed = false := by decide +kernel
set_option maxRecDepth 100000 in
theorem ov_sHiAll : (MDDF.run {} 10 .all dz sHi).2.1.overflowed = false := by decide +kernel

/-- `91 01` under `[false]`: the bundle applies; in numbers 0 ≤ 1 live slots -/
example : liveCount (MDDF.run {} 10 fF dz a1).2.1 ≤ liveCount (MDD.run {} 10 dz a1).2.1 :=
  C11.filtered_mp_run_live_slots_le {} 10 fF dz dz a1 gok hp gok hp ok_a1 ov_a1F
set_option maxRecDepth 100000 in
example : liveCount (MDDF.run {} 10 fF dz a1).2.1 = 0 ∧ liveCount (MDD.run {} 10 dz a1).2.1 = 1 := by decide +kernel

/-- `91 01` under `[true]`: 1 ≤ 1 -/
example : (MDDF.run {} 10 fT dz a1).1 = .ok ∧
    liveCount (MDDF.run {} 10 fT dz a1).2.1 ≤ liveCount (MDD.run {} 10 dz a1).2.1 := by
  obtain ⟨a, _, _, _, _, b, _⟩ := C11.filtered_mp_run_holds_no_more {} 10 fT dz dz a1 gok hp gok hp ok_a1 ov_a1T
  exact ⟨a, b⟩
set_option maxRecDepth 100000 in
example : liveCount (MDDF.run {} 10 fT dz a1).2.1 = 1 := by decide +kernel

/-- `a2 68 69` under `false`: the string is not stored: 0 ≤ 1 nodes, 0 ≤ 2 bytes, 0 ≤ 17 allocator bytes -/
example : (MDDF.run {} 10 fNo dz sHi).2.1.strings.length ≤ (MDD.run {} 10 dz sHi).2.1.strings.length ∧
    strHeld (MDDF.run {} 10 fNo dz sHi).2.1 ≤ strHeld (MDD.run {} 10 dz sHi).2.1 := by
  obtain ⟨_, b, c⟩ := C11.filtered_mp_run_string_bytes_le {} 10 fNo dz dz sHi gok hp gok hp ok_sHi ov_sHiNo
  exact ⟨b, c rfl⟩
set_option maxRecDepth 100000 in
example : (MDDF.run {} 10 fNo dz sHi).2.1.strings.length = 0 ∧ (MDD.run {} 10 dz sHi).2.1.strings.length = 1 ∧
    strHeld (MDDF.run {} 10 fNo dz sHi).2.1 = 0 ∧ strHeld (MDD.run {} 10 dz sHi).2.1 = 17 := by decide +kernel

/-- `a2 68 69` under the `AllowAll` filter: the same string on both sides -/
example : ∀ n ∈ (MDDF.run {} 10 .all dz sHi).2.1.strings, ∃ m ∈ (MDD.run {} 10 dz sHi).2.1.strings, m.bytes = n.bytes :=
  C11.filtered_mp_run_strings_subset {} 10 .all dz dz sHi gok hp gok hp ok_sHi ov_sHiAll
set_option maxRecDepth 100000 in
example : (MDDF.run {} 10 .all dz sHi).2.1.strings = [⟨0, [0x68, 0x69], 1⟩] := by decide +kernel

/-- the side conditions proved for the runs, on `91 01` under `[true]`: one layout for all of them -/
example : ∃ F', WFG (MDDF.run {} 10 fT dz a1).2.1 F' ∧ DocSize.NoLeak (MDDF.run {} 10 fT dz a1).2.1 F' ∧
    Canon (MDDF.run {} 10 fT dz a1).2.1 F' ∧ NoLinked (MDDF.run {} 10 fT dz a1).2.1 F' := by
  obtain ⟨F', a, _, _, b, c, e⟩ := MDDF.mp_run_canon {} 10 fT a1 gok hp ov_a1T
  exact ⟨F', a, b, c, e⟩

/-- WHAT THE THEOREMS DO NOT SAY: the comparison is about the memory HELD at the end, not about allocator traffic. `81 a1 61 01`
    (`{"a":1}`) under `{"b":true}`: the filtered document holds nothing (no string node, no live slot), yet the run allocated
    (and released) a StringBuffer node for the key of the dropped member. -/
example : (MDDF.run {} 10 fB dz mA).2.1.strings = [] ∧ liveCount (MDDF.run {} 10 fB dz mA).2.1 = 0 ∧
    (MDDF.run {} 10 fB dz mA).2.1.pl.log = ["D", "A16"] := by decide +kernel

end C11.ExMpMemRun
