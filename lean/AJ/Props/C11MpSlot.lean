/- C11 at the slot level, MessagePack: "a filter that allows everything changes nothing" - the FILTERED slot-level
   deserializer `MDDF.run` (AJ/Model/MDDF.lean) with `AllowAllFilter` (`.all`), or with `Filter(doc)` over a document that is
   `true` (`.doc (some (.bool true))`, more generally any `JD.Transparent` filter of AJ/Lemmas/FilterId.lean), IS the
   unfiltered slot-level deserializer `MDD.run` (AJ/Model/MDD.lean): same result code, same document - slots, string table,
   pool list and ALLOCATOR LOG included - and same number of bytes consumed, for every environment, nesting limit, starting
   document, input and allocator failure schedule.
   Proof: mutual induction on the fuel over `parseVariant / readArray / readObject` with the destination `some l` everywhere,
   through the one-step equations of AJ/Lemmas/MddInv.lean and AJ/Lemmas/MddfInv.lean. -/
import AJ.Lemmas.MddfInv
import AJ.Lemmas.FilterId
import AJ.Props.C03MpDoc
namespace C11
open DL
open JD (Byte Code Flt Transparent)
open MDD (S)

set_option maxRecDepth 8000 in
/-- one step of the unfiltered `readObject`, with the key length decoded by `MD.keyLenOf_d3` -/
theorem mdd_readObject_succ (env : MD.Env) (fuel limit : Nat) (l : Loc) (n : Nat) (x : S) :
    MDD.readObject env (fuel+1) limit l n x =
      if n == 0 then (.ok, x) else
      match x.r.read with
      | (none, r) => (.incomplete, { x with r := r })
      | (some code, r) =>
        match MD.keyLenOf_d3 code r with
        | (none, r) => (.invalid, { x with r := r })
        | (some none, r) => (.incomplete, { x with r := r })
        | (some (some len), r) =>
          match MDD.readString env { x with r := r } len with
          | (.ok, key, x) =>
            match JDD.addMemberNode (MDD.save x key).2.d l (MDD.save x key).1 with
            | (none, d) => (.noMemory, { (MDD.save x key).2 with d := d })
            | (some v, d) =>
              match MDD.parseVariant env fuel limit (.slot v) { (MDD.save x key).2 with d := d } with
              | (.ok, x, _) => MDD.readObject env fuel limit l (n - 1) x
              | (e, x, _) => (e, x)
          | (e, _, x) => (e, x) := by
  simp only [MDD.readObject, MD.keyLenOf_d3]
  rfl

/-- the statement for the three routines, at a given fuel -/
def SlotEq (env : MD.Env) (fuel : Nat) : Prop :=
  (∀ (limit : Nat) (flt : Flt) (l : Loc) (x : S), Transparent flt →
    MDDF.parseVariant env fuel limit flt (some l) x = MDD.parseVariant env fuel limit l x) ∧
  (∀ (limit : Nat) (flt : Flt) (l : Loc) (n : Nat) (x : S), Transparent flt →
    MDDF.readArray env fuel limit flt (some l) n x = MDD.readArray env fuel limit l n x) ∧
  (∀ (limit : Nat) (flt : Flt) (l : Loc) (n : Nat) (x : S), Transparent flt →
    MDDF.readObject env fuel limit flt (some l) n x = MDD.readObject env fuel limit l n x)

theorem slotEq_zero (env : MD.Env) : SlotEq env 0 :=
  ⟨fun _ _ _ _ _ => by simp only [MDDF.parseVariant, MDD.parseVariant],
    fun _ _ _ _ _ _ => by simp only [MDDF.readArray, MDD.readArray],
    fun _ _ _ _ _ _ => by simp only [MDDF.readObject, MDD.readObject]⟩

theorem slotEq_succ (env : MD.Env) (f : Nat) (ih : SlotEq env f) : SlotEq env (f+1) := by
  obtain ⟨ihV, ihA, ihO⟩ := ih
  refine ⟨?_, ?_, ?_⟩
  · intro limit flt l x h
    rw [MDDF.parseVariant_succ, MDD.parseVariant_succ]
    generalize x.r.read = rd
    obtain ⟨_ | code, r0⟩ := rd
    · rfl
    simp only [MD.dispatch_eq, h.allowValue, MDDF.gate_true]
    cases MD.classify code r0 with
    | arr size r =>
      simp only [MDDF.leafArr, MDD.leafArr, h.allowArray, MDDF.gate_true]
      cases limit with
      | zero => rfl
      | succ limit' => simp only; rw [ihA limit' flt.subIdx l size _ h.subIdx]
    | map size r =>
      simp only [MDDF.leafMap, MDD.leafMap, h.allowObject, MDDF.gate_true]
      cases limit with
      | zero => rfl
      | succ limit' => simp only; rw [ihO limit' flt l size _ h]
    | _ => rfl
  · intro limit flt l n x h
    rw [MDDF.readArray_succ, MDD.readArray]
    by_cases hn : (n == 0) = true
    · rw [if_pos hn, if_pos hn]
    rw [if_neg hn, if_neg hn, h.allow, MDDF.gate_true]
    simp only [MDDF.elemSlot]
    generalize x.d.addElement l = r
    obtain ⟨_ | id, d1⟩ := r
    · rfl
    simp only
    rw [ihV limit flt (.slot id) _ h]
    generalize MDD.parseVariant env f limit (.slot id) { x with d := d1 } = q
    obtain ⟨c, x2, fd⟩ := q
    cases c <;> first | rfl | exact ihA limit flt l (n - 1) x2 h
  · intro limit flt l n x h
    rw [MDDF.readObject_succ, mdd_readObject_succ]
    by_cases hn : (n == 0) = true
    · rw [if_pos hn, if_pos hn]
    rw [if_neg hn, if_neg hn]
    generalize x.r.read = rd
    obtain ⟨_ | code, r0⟩ := rd
    · rfl
    simp only
    generalize MD.keyLenOf_d3 code r0 = kl
    obtain ⟨_ | _ | len, r1⟩ := kl
    · rfl
    · rfl
    simp only
    generalize MDD.readString env { x with r := r1 } len = rs
    obtain ⟨c, key, x1⟩ := rs
    cases c <;> try rfl
    simp only
    rw [h.subKey_eq key, h.allow, MDDF.gate_true]
    simp only [MDDF.memSlot]
    generalize JDD.addMemberNode (MDD.save x1 key).2.d l (MDD.save x1 key).1 = r
    obtain ⟨_ | v, d2⟩ := r
    · rfl
    simp only
    rw [ihV limit flt (.slot v) _ h]
    generalize MDD.parseVariant env f limit (.slot v) { (MDD.save x1 key).2 with d := d2 } = q
    obtain ⟨c, x2, fd⟩ := q
    cases c <;> first | rfl | exact ihO limit flt l (n - 1) x2 h

/-- the three routines coincide, for every fuel -/
theorem slotEq_all (env : MD.Env) : ∀ fuel, SlotEq env fuel := by
  intro fuel
  induction fuel with
  | zero => exact slotEq_zero env
  | succ f ih => exact slotEq_succ env f ih

/-- TRANSPARENT FILTERS CHANGE NOTHING, at the slot level: code, document (allocator log included), bytes consumed -/
theorem mp_transparent_is_unfiltered_slot_level (env : MD.Env) (limit : Nat) (flt : Flt) (h : Transparent flt) (d : Doc)
    (input : List Byte) : MDDF.run env limit flt d input = MDD.run env limit d input := by
  have hs : MDDF.stop env limit flt d input = MDD.mp_stop env limit d input :=
    (slotEq_all env _).1 limit flt .root _ h
  have hp : MDDF.preShrink env limit flt d input = MDD.mp_preShrink env limit d input := by
    unfold MDDF.preShrink MDD.mp_preShrink
    rw [hs]
    rfl
  rw [MDDF.run_eq, MDD.mp_run_eq, hp, hs]

/-- `AllowAllFilter` -/
theorem mp_allow_all_is_unfiltered_slot_level (env : MD.Env) (limit : Nat) (d : Doc) (input : List Byte) :
    MDDF.run env limit .all d input = MDD.run env limit d input :=
  mp_transparent_is_unfiltered_slot_level env limit .all JD.transparent_all d input

/-- `Filter(doc)` with `doc == true`: `allow*` are true and `filter[0]`, `filter[key]` are the filter itself -/
theorem mp_filter_true_is_unfiltered_slot_level (env : MD.Env) (limit : Nat) (d : Doc) (input : List Byte) :
    MDDF.run env limit (.doc (some (.bool true))) d input = MDD.run env limit d input :=
  mp_transparent_is_unfiltered_slot_level env limit _ (JD.transparent_true rfl) d input

/-! ## Non-vacuity -/
open C03.ExDoc C03.ExMp

/-- `"hi"`: the filtered run with `AllowAllFilter` makes the same allocator call and returns the same code -/
example : (MDDF.run {} 10 .all (dk []) mHi).1 = .ok ∧ (MDDF.run {} 10 .all (dk []) mHi).2.1.pl.log = ["A17"] ∧
    MDDF.run {} 10 .all (dk []) mHi = MDD.run {} 10 (dk []) mHi :=
  ⟨by decide +kernel, by decide +kernel, mp_allow_all_is_unfiltered_slot_level {} 10 (dk []) mHi⟩

/-- the same under a failure schedule, and for the filter `true` -/
example : (MDDF.run {} 10 (.doc (some (.bool true))) (dk [1]) mHi).1 = .noMemory ∧
    MDDF.run {} 10 (.doc (some (.bool true))) (dk [1]) mHi = MDD.run {} 10 (dk [1]) mHi :=
  ⟨by decide +kernel, mp_filter_true_is_unfiltered_slot_level {} 10 (dk [1]) mHi⟩

/-- NOT for a filter that allows nothing: `"hi"` under the unbound filter is skipped without an allocator call -/
example : (MDDF.run {} 10 (.doc none) (dk []) mHi).1 = .ok ∧ (MDDF.run {} 10 (.doc none) (dk []) mHi).2.1.pl.log = [] ∧
    (MDDF.run {} 10 (.doc none) (dk []) mHi).2.2 = 3 :=
  ⟨by decide +kernel, by decide +kernel, by decide +kernel⟩

end C11
