/- C11 at the slot level, the transparent filters: `deserializeJson(doc, input, Filter(f), …)` with the `AllowAllFilter`, or with
   a `Filter` over a document that is `true`, IS the unfiltered `deserializeJson(doc, input, …)` - same result code, same
   document (slots, pools, string table, allocator log, under every failure schedule), same number of bytes taken:
   `JDDF.run cfg limit f d input = JDD.run cfg limit d input` for every transparent `f` (AJ/Lemmas/FilterId.lean `Transparent`).
   Hence every theorem about `JDDF.run` (AJ/Props/C03FDoc.lean, C05FDeser.lean) specialises to `JDD.run`.
   Proof: mutual induction on the fuel: with a transparent filter every `allow*` is true and `subIdx/subKey` return the filter. -/
import AJ.Model.JDDF
import AJ.Lemmas.FilterId
import AJ.Props.C03Doc
namespace C11
open JD (Byte Code Cfg Flt Transparent)
open DL JDD

set_option maxRecDepth 8000 in
/-- the three routines of the mutual block, for every fuel -/
theorem slot_parse_transparent {cfg : Cfg} : ∀ fuel,
    (∀ limit f l x, Transparent f → JDDF.parseVariant cfg fuel limit f l x = JDD.parseVariant cfg fuel limit l x) ∧
    (∀ limit f l x, Transparent f → JDDF.parseElems cfg fuel limit f l x = JDD.parseElems cfg fuel limit l x) ∧
    (∀ limit f l x, Transparent f → JDDF.parseMembers cfg fuel limit f l x = JDD.parseMembers cfg fuel limit l x) := by
  intro fuel
  induction fuel with
  | zero =>
    refine ⟨?_, ?_, ?_⟩ <;> intro limit f l x _
    · simp only [JDDF.parseVariant, JDD.parseVariant]
    · simp only [JDDF.parseElems, JDD.parseElems]
    · simp only [JDDF.parseMembers, JDD.parseMembers]
  | succ n ih =>
    obtain ⟨ihV, ihE, ihM⟩ := ih
    refine ⟨?_, ?_, ?_⟩
    · intro limit f l x h
      have hE : ∀ li l x, JDDF.parseElems cfg n li f.subIdx l x = JDD.parseElems cfg n li l x :=
        fun li l x => ihE li _ l x h.subIdx
      have hM : ∀ li l x, JDDF.parseMembers cfg n li f l x = JDD.parseMembers cfg n li l x :=
        fun li l x => ihM li _ l x h
      simp only [JDDF.parseVariant, JDD.parseVariant, h.allowArray, h.allowObject, h.allowValue, if_true, hE, hM]
      rfl
    · intro limit f l x h
      have hV : ∀ l x, JDDF.parseVariant cfg n limit f l x = JDD.parseVariant cfg n limit l x :=
        fun l x => ihV limit f l x h
      have hE : ∀ l x, JDDF.parseElems cfg n limit f l x = JDD.parseElems cfg n limit l x :=
        fun l x => ihE limit f l x h
      simp only [JDDF.parseElems, JDD.parseElems, h.allow, if_true, hV, hE]
      generalize x.d.addElement l = r
      obtain ⟨o, d1⟩ := r
      cases o with
      | none => rfl
      | some id =>
        simp only
        generalize JDD.parseVariant cfg n limit (.slot id) _ = r
        obtain ⟨e, x1⟩ := r
        cases e <;> rfl
    · intro limit f l x h
      have hA : ∀ k, (f.subKey k).allow = true := fun k => (h.subKey k).allow
      have hV : ∀ k l x, JDDF.parseVariant cfg n limit (f.subKey k) l x = JDD.parseVariant cfg n limit l x :=
        fun k l x => ihV limit _ l x (h.subKey k)
      have hM : ∀ l x, JDDF.parseMembers cfg n limit f l x = JDD.parseMembers cfg n limit l x :=
        fun l x => ihM limit f l x h
      simp only [JDDF.parseMembers, JDD.parseMembers, hA, if_true, hV, hM]
      generalize (if ((JD.cur x.s).fst == 34 || (JD.cur x.s).fst == 39) = true then
          quoted cfg (n + 1) (JD.cur x.s).fst { s := JD.mv (JD.cur x.s).snd, d := x.d, b := x.b }
        else
          if JD.inUnquoted (JD.cur x.s).fst = true then unquoted cfg (n + 1) { s := (JD.cur x.s).snd, d := x.d, b := x.b }
          else (Code.invalid, [], startString { s := (JD.cur x.s).snd, d := x.d, b := x.b })) = kr
      obtain ⟨kc, key, x1⟩ := kr
      cases kc <;> try rfl
      simp only
      generalize JD.skipSpaces cfg (n + 1) x1.s = r
      obtain ⟨e, s2⟩ := r
      cases e <;> try rfl
      simp only
      split
      · rfl
      · cases hf : x1.d.findKey l key with
        | some p =>
          obtain ⟨k, v⟩ := p
          simp only
          generalize JDD.parseVariant cfg n limit (.slot v) _ = r
          obtain ⟨e, x2⟩ := r
          cases e <;> rfl
        | none =>
          simp only
          generalize addMemberNode _ l _ = r
          obtain ⟨o, d2⟩ := r
          cases o with
          | none => rfl
          | some v =>
            simp only
            generalize JDD.parseVariant cfg n limit (.slot v) _ = r
            obtain ⟨e, x2⟩ := r
            cases e <;> rfl

/-- every transparent filter: the filtered run is the unfiltered run -/
theorem transparent_filter_is_unfiltered_slot_level (cfg : Cfg) (limit : Nat) (f : Flt) (h : Transparent f) (d : Doc)
    (input : List Byte) : JDDF.run cfg limit f d input = JDD.run cfg limit d input := by
  have e := (slot_parse_transparent (cfg := cfg) (2 * input.length + 4)).1 limit f .root
    { s := { l := { unread := input } }, d := d.clearAll } h
  unfold JDDF.run JDD.run
  dsimp only
  rw [e]
  generalize JDD.parseVariant cfg (2 * input.length + 4) limit .root _ = r
  obtain ⟨c, x⟩ := r
  rfl

/-- **`AllowAllFilter`** -/
theorem allow_all_is_unfiltered_slot_level (cfg : Cfg) (limit : Nat) (d : Doc) (input : List Byte) :
    JDDF.run cfg limit .all d input = JDD.run cfg limit d input :=
  transparent_filter_is_unfiltered_slot_level cfg limit .all JD.transparent_all d input

/-- **`Filter(true)`** -/
theorem filter_true_is_unfiltered_slot_level (cfg : Cfg) (limit : Nat) (d : Doc) (input : List Byte) :
    JDDF.run cfg limit (.doc (some (.bool true))) d input = JDD.run cfg limit d input :=
  transparent_filter_is_unfiltered_slot_level cfg limit _ (JD.transparent_true rfl) d input

/-- every other truthy-`true` filter value of `Filter::allow…()`: the number 1 (integer or float) -/
theorem filter_one_is_unfiltered_slot_level (cfg : Cfg) (limit : Nat) (d : Doc) (input : List Byte) :
    JDDF.run cfg limit (.doc (some (.num (.uint 1)))) d input = JDD.run cfg limit d input :=
  transparent_filter_is_unfiltered_slot_level cfg limit _ (JD.transparent_true rfl) d input

/-! ## Non-vacuity (documents `dk` of AJ/Props/C03Doc.lean: the allocator fails at the listed call positions) -/
open C03.ExDoc

/-- `"hi"`, `[1]`, `{"a":[1,"a"],"a":2}`, any failure position: code, document, allocator log and position coincide -/
example (k : Nat) : JDDF.run {} 10 .all (dk [k]) obj2 = JDD.run {} 10 (dk [k]) obj2 ∧
    JDDF.run {} 10 (.doc (some (.bool true))) (dk [k]) obj2 = JDD.run {} 10 (dk [k]) obj2 :=
  ⟨allow_all_is_unfiltered_slot_level {} 10 (dk [k]) obj2, filter_true_is_unfiltered_slot_level {} 10 (dk [k]) obj2⟩

/-- both sides by evaluation on `"hi"`: the buffer (`A46`) became the string node (`R17`) -/
example : (JDDF.run {} 10 .all (dk []) hiQ).2.1.pl.log = ["R17", "A46"] ∧ (JDD.run {} 10 (dk []) hiQ).2.1.pl.log = ["R17", "A46"] ∧
    (JDDF.run {} 10 .all (dk []) hiQ).1 = .ok ∧ (JDDF.run {} 10 .all (dk []) hiQ).2.2 = 4 :=
  ⟨by decide +kernel, by decide +kernel, by decide +kernel, by decide +kernel⟩

/-- transparency is needed: `Filter(false)` and an unbound filter skip the string - Ok, same position, but nothing is allocated -/
example : (JDDF.run {} 10 (.doc (some (.bool false))) (dk []) hiQ).2.1.pl.log = [] ∧
    (JDDF.run {} 10 (.doc none) (dk []) hiQ).2.1.pl.log = [] ∧
    (JDDF.run {} 10 (.doc none) (dk []) hiQ).1 = .ok ∧ (JDDF.run {} 10 (.doc none) (dk []) hiQ).2.2 = 4 :=
  ⟨by decide +kernel, by decide +kernel, by decide +kernel, by decide +kernel⟩

end C11
