/- C12 (integer clauses) — every integer literal in [-2^63, 2^64), with any number of leading zeros,
   parses to exactly that integer; integers print digit-exact.
   Property theorems only; helper lemmas live in AJ/Lemmas/Digits.lean.
   `Digits.decVal` / `Digits.AllDigits` specify decimal notation independently of `Nat.toDigits`;
   `Digits.digits_spec` says `JS.digits n` is THE decimal numeral of `n` (all digits, value `n`,
   non-empty, no leading zero unless `n = 0`). -/
import AJ.Model.JD
import AJ.Model.JS
import AJ.Lemmas.Digits
namespace C12
open JD Digits

/-! ## printing -/

/-- an unsigned integer prints as its decimal digits -/
theorem int_print_unsigned (cfg : Cfg) (n : Nat) : JS.printNum cfg (.uint n) = JS.digits n := rfl

/-- a signed integer prints as an optional '-' followed by the decimal digits of its absolute value -/
theorem int_print_signed (cfg : Cfg) (v : Int) :
    JS.printNum cfg (.sint v) = (if v < 0 then [0x2D] else []) ++ JS.digits v.natAbs := rfl

/-- digit-exactness of unsigned printing, against the independent spec of decimal notation -/
theorem int_print_unsigned_exact (cfg : Cfg) (n : Nat) :
    AllDigits (JS.printNum cfg (.uint n)) ∧ decVal (JS.printNum cfg (.uint n)) = n ∧
    JS.printNum cfg (.uint n) ≠ [] ∧ (n ≠ 0 → (JS.printNum cfg (.uint n)).head? ≠ some 0x30) :=
  digits_spec n

/-- digit-exactness of signed printing: '-' exactly when negative, then THE decimal numeral of |v| -/
theorem int_print_signed_exact (cfg : Cfg) (v : Int) :
    ∃ ds, JS.printNum cfg (.sint v) = (if v < 0 then [0x2D] else []) ++ ds ∧
      AllDigits ds ∧ decVal ds = v.natAbs ∧ ds ≠ [] ∧ (v ≠ 0 → ds.head? ≠ some 0x30) := by
  obtain ⟨h1, h2, h3, h4⟩ := digits_spec v.natAbs
  exact ⟨JS.digits v.natAbs, rfl, h1, h2, h3, fun hv => h4 (by omega)⟩

example : JS.printNum {} (.uint 18446744073709551615) =
    [0x31,0x38,0x34,0x34,0x36,0x37,0x34,0x34,0x30,0x37,0x33,0x37,0x30,0x39,0x35,0x35,0x31,0x36,0x31,0x35] := by decide +kernel
example : JS.printNum {} (.sint (-9223372036854775808)) =
    [0x2D,0x39,0x32,0x32,0x33,0x33,0x37,0x32,0x30,0x33,0x36,0x38,0x35,0x34,0x37,0x37,0x35,0x38,0x30,0x38] := by decide +kernel
example : decVal [0x30,0x30,0x34,0x32] = 42 := by decide +kernel

/-! ## parsing -/

/-- MAIN (unsigned): any `n < 2^64`, written with any number `k` of leading zeros, parses to `.uint n` -/
theorem uint_parse (cfg : Cfg) (n k : Nat) (h : n < 2 ^ 64) :
    parseNumber cfg (List.replicate k 0x30 ++ JS.digits n) = .uint n := by
  obtain ⟨h1, h2, h3⟩ := zeros_digits k n
  rw [parse_unsigned cfg _ h1 h2 (by rw [h3]; exact h), h3]

/-- the same with an explicit leading '+' -/
theorem uint_parse_plus (cfg : Cfg) (n k : Nat) (h : n < 2 ^ 64) :
    parseNumber cfg (0x2B :: (List.replicate k 0x30 ++ JS.digits n)) = .uint n := by
  obtain ⟨h1, h2, h3⟩ := zeros_digits k n
  rw [parse_plus cfg _ h1 h2 (by rw [h3]; exact h), h3]

/-- signed, general form: '-' then any number of zeros then the digits of `n ≤ 2^63` parses to `.sint (-n)`
    (for `n = 0` this is "-0", "-00", … ↦ `.sint 0`) -/
theorem sint_parse' (cfg : Cfg) (n k : Nat) (h : n ≤ 2 ^ 63) :
    parseNumber cfg (0x2D :: (List.replicate k 0x30 ++ JS.digits n)) = .sint (-(n : Int)) := by
  obtain ⟨h1, h2, h3⟩ := zeros_digits k n
  rw [parse_minus cfg _ h1 h2 (by rw [h3]; exact h), h3]

/-- MAIN (signed): any `-n` with `0 < n ≤ 2^63`, written with any number `k` of leading zeros, parses to `.sint (-n)` -/
theorem sint_parse (cfg : Cfg) (n k : Nat) (_hpos : 0 < n) (h : n ≤ 2 ^ 63) :
    parseNumber cfg (0x2D :: (List.replicate k 0x30 ++ JS.digits n)) = .sint (-(n : Int)) :=
  sint_parse' cfg n k h

/-- "-0" (with any number of further zeros) is the signed integer 0 -/
theorem neg_zero_parse (cfg : Cfg) (k : Nat) :
    parseNumber cfg (0x2D :: List.replicate (k + 1) 0x30) = .sint 0 := by
  have := sint_parse' cfg 0 k (by decide)
  have e : List.replicate k (0x30 : UInt8) ++ JS.digits 0 = List.replicate (k + 1) 0x30 := by
    rw [show JS.digits 0 = [0x30] from by decide +kernel, List.replicate_succ']
  rw [e] at this
  exact this

/-- the literal "-0" -/
theorem neg_zero_literal (cfg : Cfg) : parseNumber cfg [0x2D, 0x30] = .sint 0 := neg_zero_parse cfg 0

-- non-vacuity: "00042", "+007", "-0009223372036854775808", "-0"
example : parseNumber {} [0x30,0x30,0x30,0x34,0x32] = .uint 42 := by
  have := uint_parse {} 42 3 (by decide)
  rwa [show List.replicate 3 (0x30 : UInt8) ++ JS.digits 42 = [0x30,0x30,0x30,0x34,0x32] from by decide +kernel] at this
example : parseNumber {} [0x2B,0x30,0x30,0x37] = .uint 7 := by
  have := uint_parse_plus {} 7 2 (by decide)
  rwa [show List.replicate 2 (0x30 : UInt8) ++ JS.digits 7 = [0x30,0x30,0x37] from by decide +kernel] at this
example : parseNumber {} [0x2D,0x30,0x30,0x30,0x39,0x32,0x32,0x33,0x33,0x37,0x32,0x30,0x33,0x36,0x38,0x35,0x34,0x37,0x37,0x35,0x38,0x30,0x38]
    = .sint (-9223372036854775808) := by
  have := sint_parse {} (2 ^ 63) 3 (by decide) (by decide)
  rwa [show List.replicate 3 (0x30 : UInt8) ++ JS.digits (2 ^ 63) =
    [0x30,0x30,0x30,0x39,0x32,0x32,0x33,0x33,0x37,0x32,0x30,0x33,0x36,0x38,0x35,0x34,0x37,0x37,0x35,0x38,0x30,0x38] from by decide +kernel] at this
example : parseNumber {} [0x31,0x38,0x34,0x34,0x36,0x37,0x34,0x34,0x30,0x37,0x33,0x37,0x30,0x39,0x35,0x35,0x31,0x36,0x31,0x35]
    = .uint 18446744073709551615 := by decide +kernel
example : parseNumber { nan := true, inf := true } [0x2D,0x30] = .sint 0 := neg_zero_literal _

/-! ## round trip -/

/-- print then parse is the identity on unsigned 64-bit integers -/
theorem int_roundtrip (cfg : Cfg) (n : Nat) (h : n < 2 ^ 64) :
    parseNumber cfg (JS.printNum cfg (.uint n)) = .uint n := by
  have := uint_parse cfg n 0 h
  rwa [List.replicate_zero, List.nil_append] at this

/-- print then parse is the identity on negative signed 64-bit integers -/
theorem int_roundtrip_signed (cfg : Cfg) (v : Int) (hlo : -(2 ^ 63 : Int) ≤ v) (hneg : v < 0) :
    parseNumber cfg (JS.printNum cfg (.sint v)) = .sint v := by
  have h := sint_parse cfg v.natAbs 0 (by omega) (by omega)
  rw [List.replicate_zero, List.nil_append] at h
  rw [int_print_signed, if_pos hneg, List.singleton_append, h]
  congr 1
  omega

/-- a non-negative value stored as signed prints without sign, hence reads back as the unsigned integer of
    the same value (the C++ `parseNumber` yields an unsigned for every non-negative literal) -/
theorem int_roundtrip_signed_nonneg (cfg : Cfg) (v : Int) (h0 : 0 ≤ v) (hhi : v < 2 ^ 64) :
    parseNumber cfg (JS.printNum cfg (.sint v)) = .uint v.toNat := by
  have h := uint_parse cfg v.natAbs 0 (by omega)
  rw [List.replicate_zero, List.nil_append] at h
  rw [int_print_signed, if_neg (by omega), List.nil_append, h]
  congr 1
  omega

example : parseNumber {} (JS.printNum {} (.uint 12345678901234567890)) = .uint 12345678901234567890 :=
  int_roundtrip {} _ (by decide)
example : parseNumber {} (JS.printNum {} (.sint (-9223372036854775808))) = .sint (-9223372036854775808) :=
  int_roundtrip_signed {} _ (by decide) (by decide)

/-! ## exactly the integer literals become integers (converse direction) and the boundary just outside -/

/-- characterisation: `parseNumber` yields `.uint m` iff the input is a non-empty all-digit string (optional '+')
    whose decimal value is `m < 2^64` -/
theorem uint_parse_iff (cfg : Cfg) (s : List UInt8) (m : Nat) :
    parseNumber cfg s = .uint m ↔
      ∃ ds, (s = ds ∨ s = 0x2B :: ds) ∧ ds ≠ [] ∧ AllDigits ds ∧ decVal ds = m ∧ m < 2 ^ 64 :=
  uint_iff cfg s m

/-- characterisation: `parseNumber` yields `.sint v` iff the input is '-' followed by a non-empty all-digit string
    of decimal value `≤ 2^63`, and `v` is minus that value -/
theorem sint_parse_iff (cfg : Cfg) (s : List UInt8) (v : Int) :
    parseNumber cfg s = .sint v ↔
      ∃ ds, s = 0x2D :: ds ∧ ds ≠ [] ∧ AllDigits ds ∧ decVal ds ≤ 2 ^ 63 ∧ v = -(decVal ds : Int) :=
  sint_iff cfg s v

/-- integer results are always in the 64-bit ranges, for every input -/
theorem uint_result_range (cfg : Cfg) (s : List UInt8) (m : Nat) (h : parseNumber cfg s = .uint m) : m < 2 ^ 64 := by
  obtain ⟨_, _, _, _, _, hm⟩ := (uint_iff cfg s m).mp h; exact hm
theorem sint_result_range (cfg : Cfg) (s : List UInt8) (v : Int) (h : parseNumber cfg s = .sint v) :
    -(2 ^ 63 : Int) ≤ v ∧ v ≤ 0 := by
  obtain ⟨ds, _, _, _, hle, rfl⟩ := (sint_iff cfg s v).mp h; omega

private theorem not_digit_2B : ¬ ((0x30 : UInt8) ≤ 0x2B ∧ (0x2B : UInt8) ≤ 0x39) := by decide
private theorem not_digit_2D : ¬ ((0x30 : UInt8) ≤ 0x2D ∧ (0x2D : UInt8) ≤ 0x39) := by decide

/-- just outside, unsigned: a literal `n ≥ 2^64` (any leading zeros) is NOT read as an integer of either kind
    (it continues into the floating-point path) -/
theorem uint_overflow (cfg : Cfg) (n k : Nat) (h : 2 ^ 64 ≤ n) :
    (∀ m, parseNumber cfg (List.replicate k 0x30 ++ JS.digits n) ≠ .uint m) ∧
    (∀ v, parseNumber cfg (List.replicate k 0x30 ++ JS.digits n) ≠ .sint v) := by
  obtain ⟨h1, _, h3⟩ := zeros_digits k n
  constructor
  · intro m hm
    obtain ⟨ds, hs, _, _, hv, hlt⟩ := (uint_iff cfg _ m).mp hm
    rcases hs with e | e
    · rw [← e, h3] at hv; omega
    · rw [e] at h1; exact not_digit_2B (AllDigits_cons.mp h1).1
  · intro v hv
    obtain ⟨ds, e, _⟩ := (sint_iff cfg _ v).mp hv
    rw [e] at h1; exact not_digit_2D (AllDigits_cons.mp h1).1

/-- just outside, signed: a literal `-n` with `n > 2^63` (any leading zeros) is NOT read as an integer of either kind -/
theorem sint_overflow (cfg : Cfg) (n k : Nat) (h : 2 ^ 63 < n) :
    (∀ m, parseNumber cfg (0x2D :: (List.replicate k 0x30 ++ JS.digits n)) ≠ .uint m) ∧
    (∀ v, parseNumber cfg (0x2D :: (List.replicate k 0x30 ++ JS.digits n)) ≠ .sint v) := by
  obtain ⟨_, _, h3⟩ := zeros_digits k n
  constructor
  · intro m hm
    obtain ⟨ds, hs, _, hd, _⟩ := (uint_iff cfg _ m).mp hm
    rcases hs with e | e
    · rw [← e] at hd; exact not_digit_2D (AllDigits_cons.mp hd).1
    · exact absurd (List.cons.inj e).1 (by decide)
  · intro v hv
    obtain ⟨ds, e, _, _, hle, _⟩ := (sint_iff cfg _ v).mp hv
    rw [← (List.cons.inj e).2, h3] at hle; omega

-- 2^64 = "18446744073709551616" and -(2^63+1) = "-9223372036854775809" become binary64 values
-- (note: not the correctly rounded ones, see the report: 2^64 ↦ 0x43EFFFFFFFFFFFFF, the double just below 2^64)
example : parseNumber {} [0x31,0x38,0x34,0x34,0x36,0x37,0x34,0x34,0x30,0x37,0x33,0x37,0x30,0x39,0x35,0x35,0x31,0x36,0x31,0x36]
    = .f64 0x43EFFFFFFFFFFFFF := by decide +kernel
example : parseNumber {} [0x2D,0x39,0x32,0x32,0x33,0x33,0x37,0x32,0x30,0x33,0x36,0x38,0x35,0x34,0x37,0x37,0x35,0x38,0x30,0x39]
    = .f64 0xC3DFFFFFFFFFFFFA := by decide +kernel
example : ∀ m, parseNumber {} (JS.digits (2 ^ 64)) ≠ .uint m := by
  have := (uint_overflow {} (2 ^ 64) 0 (Nat.le_refl _)).1
  rwa [List.replicate_zero, List.nil_append] at this
-- not integers: "", "-", "+", "1.0", "1e2", "12a"
example : ∀ m, parseNumber {} [0x31,0x2E,0x30] ≠ .uint m := by
  intro m h
  obtain ⟨ds, hs, _, hd, _⟩ := (uint_parse_iff {} _ m).mp h
  rcases hs with e | e
  · rw [← e] at hd; exact absurd (hd 0x2E (by decide)) (by decide)
  · exact absurd (List.cons.inj e).1 (by decide)
example : parseNumber {} [] = .invalid ∧ parseNumber {} [0x2D] = .invalid ∧ parseNumber {} [0x2B] = .invalid := by decide +kernel
end C12
