/- C12 (integer clauses) — every integer literal in [-2^63, 2^64), with any number of leading zeros,
   parses to exactly that integer; integers print digit-exact.
   Property theorems only; helper lemmas live in AJ/Lemmas/Digits.lean.
   `Digits.decVal` / `Digits.AllDigits` specify decimal notation independently of `Nat.toDigits`;
   `Digits.digits_spec` says `JS.digits n` is THE decimal numeral of `n` (all digits, value `n`,
   non-empty, no leading zero unless `n = 0`).
   Second half of the file: the FLOATING-POINT clauses (tables, one multiplication, decimal scan, accuracy of the
   binary64 / binary32 paths, magnitude clauses, saturated exponents; capstone `C12.float_clauses`).
   Helper lemmas: AJ/Lemmas/FloatErr{Tables,Round,Scan}.lean (core Lean) and FloatErr{Q,Loop,Make,Finish,Top}.lean
   (ℚ; single Mathlib modules for ordered-field tactics). -/
import AJ.Model.JD
import AJ.Model.JS
import AJ.Lemmas.Digits
import AJ.Lemmas.FloatErrTop
namespace C12
open JD Digits

/-! ## printing -/

/-- an unsigned integer prints as its decimal digits -/
theorem int_print_unsigned (cfg : Cfg) (n : Nat) : JS.printNum cfg (.uint n) = JS.digits n := rfl

/-- a signed integer prints as an optional '-' followed by the decimal digits of its absolute value -/
theorem int_print_signed (cfg : Cfg) (v : Int) :
    JS.printNum cfg (.sint v) = (if v < 0 then [0x2D] else []) ++ JS.digits v.natAbs := rfl

/-- digit-exactness of unsigned printing, against the independent spec of decimal notation -/
theorem int_print_unsigned_exact (cfg : Cfg) (n : Nat) :
    AllDigits (JS.printNum cfg (.uint n)) ∧ decVal (JS.printNum cfg (.uint n)) = n ∧
    JS.printNum cfg (.uint n) ≠ [] ∧ (n ≠ 0 → (JS.printNum cfg (.uint n)).head? ≠ some 0x30) :=
  digits_spec n

/-- digit-exactness of signed printing: '-' exactly when negative, then THE decimal numeral of |v| -/
theorem int_print_signed_exact (cfg : Cfg) (v : Int) :
    ∃ ds, JS.printNum cfg (.sint v) = (if v < 0 then [0x2D] else []) ++ ds ∧
      AllDigits ds ∧ decVal ds = v.natAbs ∧ ds ≠ [] ∧ (v ≠ 0 → ds.head? ≠ some 0x30) := by
  obtain ⟨h1, h2, h3, h4⟩ := digits_spec v.natAbs
  exact ⟨JS.digits v.natAbs, rfl, h1, h2, h3, fun hv => h4 (by omega)⟩

example : JS.printNum {} (.uint 18446744073709551615) =
    [0x31,0x38,0x34,0x34,0x36,0x37,0x34,0x34,0x30,0x37,0x33,0x37,0x30,0x39,0x35,0x35,0x31,0x36,0x31,0x35] := by decide +kernel
example : JS.printNum {} (.sint (-9223372036854775808)) =
    [0x2D,0x39,0x32,0x32,0x33,0x33,0x37,0x32,0x30,0x33,0x36,0x38,0x35,0x34,0x37,0x37,0x35,0x38,0x30,0x38] := by decide +kernel
example : decVal [0x30,0x30,0x34,0x32] = 42 := by decide +kernel

/-! ## parsing -/

/-- MAIN (unsigned): any `n < 2^64`, written with any number `k` of leading zeros, parses to `.uint n` -/
theorem uint_parse (cfg : Cfg) (n k : Nat) (h : n < 2 ^ 64) :
    parseNumber cfg (List.replicate k 0x30 ++ JS.digits n) = .uint n := by
  obtain ⟨h1, h2, h3⟩ := zeros_digits k n
  rw [parse_unsigned cfg _ h1 h2 (by rw [h3]; exact h), h3]

/-- the same with an explicit leading '+' -/
theorem uint_parse_plus (cfg : Cfg) (n k : Nat) (h : n < 2 ^ 64) :
    parseNumber cfg (0x2B :: (List.replicate k 0x30 ++ JS.digits n)) = .uint n := by
  obtain ⟨h1, h2, h3⟩ := zeros_digits k n
  rw [parse_plus cfg _ h1 h2 (by rw [h3]; exact h), h3]

/-- signed, general form: '-' then any number of zeros then the digits of `n ≤ 2^63` parses to `.sint (-n)`
    (for `n = 0` this is "-0", "-00", … ↦ `.sint 0`) -/
theorem sint_parse' (cfg : Cfg) (n k : Nat) (h : n ≤ 2 ^ 63) :
    parseNumber cfg (0x2D :: (List.replicate k 0x30 ++ JS.digits n)) = .sint (-(n : Int)) := by
  obtain ⟨h1, h2, h3⟩ := zeros_digits k n
  rw [parse_minus cfg _ h1 h2 (by rw [h3]; exact h), h3]

/-- MAIN (signed): any `-n` with `0 < n ≤ 2^63`, written with any number `k` of leading zeros, parses to `.sint (-n)` -/
theorem sint_parse (cfg : Cfg) (n k : Nat) (_hpos : 0 < n) (h : n ≤ 2 ^ 63) :
    parseNumber cfg (0x2D :: (List.replicate k 0x30 ++ JS.digits n)) = .sint (-(n : Int)) :=
  sint_parse' cfg n k h

/-- "-0" (with any number of further zeros) is the signed integer 0 -/
theorem neg_zero_parse (cfg : Cfg) (k : Nat) :
    parseNumber cfg (0x2D :: List.replicate (k + 1) 0x30) = .sint 0 := by
  have := sint_parse' cfg 0 k (by decide)
  have e : List.replicate k (0x30 : UInt8) ++ JS.digits 0 = List.replicate (k + 1) 0x30 := by
    rw [show JS.digits 0 = [0x30] from by decide +kernel, List.replicate_succ']
  rw [e] at this
  exact this

/-- the literal "-0" -/
theorem neg_zero_literal (cfg : Cfg) : parseNumber cfg [0x2D, 0x30] = .sint 0 := neg_zero_parse cfg 0

-- non-vacuity: "00042", "+007", "-0009223372036854775808", "-0"
example : parseNumber {} [0x30,0x30,0x30,0x34,0x32] = .uint 42 := by
  have := uint_parse {} 42 3 (by decide)
  rwa [show List.replicate 3 (0x30 : UInt8) ++ JS.digits 42 = [0x30,0x30,0x30,0x34,0x32] from by decide +kernel] at this
example : parseNumber {} [0x2B,0x30,0x30,0x37] = .uint 7 := by
  have := uint_parse_plus {} 7 2 (by decide)
  rwa [show List.replicate 2 (0x30 : UInt8) ++ JS.digits 7 = [0x30,0x30,0x37] from by decide +kernel] at this
example : parseNumber {} [0x2D,0x30,0x30,0x30,0x39,0x32,0x32,0x33,0x33,0x37,0x32,0x30,0x33,0x36,0x38,0x35,0x34,0x37,0x37,0x35,0x38,0x30,0x38]
    = .sint (-9223372036854775808) := by
  have := sint_parse {} (2 ^ 63) 3 (by decide) (by decide)
  rwa [show List.replicate 3 (0x30 : UInt8) ++ JS.digits (2 ^ 63) =
    [0x30,0x30,0x30,0x39,0x32,0x32,0x33,0x33,0x37,0x32,0x30,0x33,0x36,0x38,0x35,0x34,0x37,0x37,0x35,0x38,0x30,0x38] from by decide +kernel] at this
example : parseNumber {} [0x31,0x38,0x34,0x34,0x36,0x37,0x34,0x34,0x30,0x37,0x33,0x37,0x30,0x39,0x35,0x35,0x31,0x36,0x31,0x35]
    = .uint 18446744073709551615 := by decide +kernel
example : parseNumber { nan := true, inf := true } [0x2D,0x30] = .sint 0 := neg_zero_literal _

/-! ## round trip -/

/-- print then parse is the identity on unsigned 64-bit integers -/
theorem int_roundtrip (cfg : Cfg) (n : Nat) (h : n < 2 ^ 64) :
    parseNumber cfg (JS.printNum cfg (.uint n)) = .uint n := by
  have := uint_parse cfg n 0 h
  rwa [List.replicate_zero, List.nil_append] at this

/-- print then parse is the identity on negative signed 64-bit integers -/
theorem int_roundtrip_signed (cfg : Cfg) (v : Int) (hlo : -(2 ^ 63 : Int) ≤ v) (hneg : v < 0) :
    parseNumber cfg (JS.printNum cfg (.sint v)) = .sint v := by
  have h := sint_parse cfg v.natAbs 0 (by omega) (by omega)
  rw [List.replicate_zero, List.nil_append] at h
  rw [int_print_signed, if_pos hneg, List.singleton_append, h]
  congr 1
  omega

/-- a non-negative value stored as signed prints without sign, hence reads back as the unsigned integer of
    the same value (the C++ `parseNumber` yields an unsigned for every non-negative literal) -/
theorem int_roundtrip_signed_nonneg (cfg : Cfg) (v : Int) (h0 : 0 ≤ v) (hhi : v < 2 ^ 64) :
    parseNumber cfg (JS.printNum cfg (.sint v)) = .uint v.toNat := by
  have h := uint_parse cfg v.natAbs 0 (by omega)
  rw [List.replicate_zero, List.nil_append] at h
  rw [int_print_signed, if_neg (by omega), List.nil_append, h]
  congr 1
  omega

example : parseNumber {} (JS.printNum {} (.uint 12345678901234567890)) = .uint 12345678901234567890 :=
  int_roundtrip {} _ (by decide)
example : parseNumber {} (JS.printNum {} (.sint (-9223372036854775808))) = .sint (-9223372036854775808) :=
  int_roundtrip_signed {} _ (by decide) (by decide)

/-! ## exactly the integer literals become integers (converse direction) and the boundary just outside -/

/-- characterisation: `parseNumber` yields `.uint m` iff the input is a non-empty all-digit string (optional '+')
    whose decimal value is `m < 2^64` -/
theorem uint_parse_iff (cfg : Cfg) (s : List UInt8) (m : Nat) :
    parseNumber cfg s = .uint m ↔
      ∃ ds, (s = ds ∨ s = 0x2B :: ds) ∧ ds ≠ [] ∧ AllDigits ds ∧ decVal ds = m ∧ m < 2 ^ 64 :=
  uint_iff cfg s m

/-- characterisation: `parseNumber` yields `.sint v` iff the input is '-' followed by a non-empty all-digit string
    of decimal value `≤ 2^63`, and `v` is minus that value -/
theorem sint_parse_iff (cfg : Cfg) (s : List UInt8) (v : Int) :
    parseNumber cfg s = .sint v ↔
      ∃ ds, s = 0x2D :: ds ∧ ds ≠ [] ∧ AllDigits ds ∧ decVal ds ≤ 2 ^ 63 ∧ v = -(decVal ds : Int) :=
  sint_iff cfg s v

/-- integer results are always in the 64-bit ranges, for every input -/
theorem uint_result_range (cfg : Cfg) (s : List UInt8) (m : Nat) (h : parseNumber cfg s = .uint m) : m < 2 ^ 64 := by
  obtain ⟨_, _, _, _, _, hm⟩ := (uint_iff cfg s m).mp h; exact hm
theorem sint_result_range (cfg : Cfg) (s : List UInt8) (v : Int) (h : parseNumber cfg s = .sint v) :
    -(2 ^ 63 : Int) ≤ v ∧ v ≤ 0 := by
  obtain ⟨ds, _, _, _, hle, rfl⟩ := (sint_iff cfg s v).mp h; omega

private theorem not_digit_2B : ¬ ((0x30 : UInt8) ≤ 0x2B ∧ (0x2B : UInt8) ≤ 0x39) := by decide
private theorem not_digit_2D : ¬ ((0x30 : UInt8) ≤ 0x2D ∧ (0x2D : UInt8) ≤ 0x39) := by decide

/-- just outside, unsigned: a literal `n ≥ 2^64` (any leading zeros) is NOT read as an integer of either kind
    (it continues into the floating-point path) -/
theorem uint_overflow (cfg : Cfg) (n k : Nat) (h : 2 ^ 64 ≤ n) :
    (∀ m, parseNumber cfg (List.replicate k 0x30 ++ JS.digits n) ≠ .uint m) ∧
    (∀ v, parseNumber cfg (List.replicate k 0x30 ++ JS.digits n) ≠ .sint v) := by
  obtain ⟨h1, _, h3⟩ := zeros_digits k n
  constructor
  · intro m hm
    obtain ⟨ds, hs, _, _, hv, hlt⟩ := (uint_iff cfg _ m).mp hm
    rcases hs with e | e
    · rw [← e, h3] at hv; omega
    · rw [e] at h1; exact not_digit_2B (AllDigits_cons.mp h1).1
  · intro v hv
    obtain ⟨ds, e, _⟩ := (sint_iff cfg _ v).mp hv
    rw [e] at h1; exact not_digit_2D (AllDigits_cons.mp h1).1

/-- just outside, signed: a literal `-n` with `n > 2^63` (any leading zeros) is NOT read as an integer of either kind -/
theorem sint_overflow (cfg : Cfg) (n k : Nat) (h : 2 ^ 63 < n) :
    (∀ m, parseNumber cfg (0x2D :: (List.replicate k 0x30 ++ JS.digits n)) ≠ .uint m) ∧
    (∀ v, parseNumber cfg (0x2D :: (List.replicate k 0x30 ++ JS.digits n)) ≠ .sint v) := by
  obtain ⟨_, _, h3⟩ := zeros_digits k n
  constructor
  · intro m hm
    obtain ⟨ds, hs, _, hd, _⟩ := (uint_iff cfg _ m).mp hm
    rcases hs with e | e
    · rw [← e] at hd; exact not_digit_2D (AllDigits_cons.mp hd).1
    · exact absurd (List.cons.inj e).1 (by decide)
  · intro v hv
    obtain ⟨ds, e, _, _, hle, _⟩ := (sint_iff cfg _ v).mp hv
    rw [← (List.cons.inj e).2, h3] at hle; omega

-- 2^64 = "18446744073709551616" and -(2^63+1) = "-9223372036854775809" become binary64 values
-- (note: not the correctly rounded ones, see the report: 2^64 ↦ 0x43EFFFFFFFFFFFFF, the double just below 2^64)
example : parseNumber {} [0x31,0x38,0x34,0x34,0x36,0x37,0x34,0x34,0x30,0x37,0x33,0x37,0x30,0x39,0x35,0x35,0x31,0x36,0x31,0x36]
    = .f64 0x43EFFFFFFFFFFFFF := by decide +kernel
example : parseNumber {} [0x2D,0x39,0x32,0x32,0x33,0x33,0x37,0x32,0x30,0x33,0x36,0x38,0x35,0x34,0x37,0x37,0x35,0x38,0x30,0x39]
    = .f64 0xC3DFFFFFFFFFFFFA := by decide +kernel
example : ∀ m, parseNumber {} (JS.digits (2 ^ 64)) ≠ .uint m := by
  have := (uint_overflow {} (2 ^ 64) 0 (Nat.le_refl _)).1
  rwa [List.replicate_zero, List.nil_append] at this
-- not integers: "", "-", "+", "1.0", "1e2", "12a"
example : ∀ m, parseNumber {} [0x31,0x2E,0x30] ≠ .uint m := by
  intro m h
  obtain ⟨ds, hs, _, hd, _⟩ := (uint_parse_iff {} _ m).mp h
  rcases hs with e | e
  · rw [← e] at hd; exact absurd (hd 0x2E (by decide)) (by decide)
  · exact absurd (List.cons.inj e).1 (by decide)
example : parseNumber {} [] = .invalid ∧ parseNumber {} [0x2D] = .invalid ∧ parseNumber {} [0x2B] = .invalid := by decide +kernel
end C12

/-! # C12, floating-point clauses

   Exact values are rationals: `qv m e = m·2^e`, `sval n m e = ±m·2^e`, `litAbs ip f e` / `litVal neg ip f e` = the exact value of
   the literal `-? ip f e` (`ip` integer digits, `f` = `[]` or `'.' :: digits`, `e` = `[]` or `[eE][+-]?digits`),
   `Close δ x y := |x − y| ≤ δ·y`.  Helper lemmas: AJ/Lemmas/FloatErr*.lean. -/
namespace C12
open SF JD Digits Spec.Json

/-! ## 1. the generated tables are correctly rounded powers of ten (re-checked by the kernel on the generated lists) -/

/-- `pos64[i] = RNE(10^(2^i))` (what the softfloat's round-to-nearest-even conversion, proved nearest in C13, returns),
    within half an ulp and within `2^-53` relatively (`entryOK`); `neg64[i]` is a normal datum within half an ulp of
    `10^(-2^i)`, not at the bottom of its binade (so: a nearest datum), within `2^-53` relatively; the same for the
    binary32 tables with `2^-24`. -/
theorem tables_correct :
    (Gen.pos64.length = 9 ∧ Gen.neg64.length = 9 ∧
      ∀ i, i < 9 →
        ofNat b64 (10 ^ 2 ^ i) = Gen.pos64.getD i 0 ∧
        entryOK b64 (Gen.pos64.getD i 0) (10 ^ 2 ^ i) 1 = true ∧
        entryOK b64 (Gen.neg64.getD i 0) 1 (10 ^ 2 ^ i) = true ∧
        interiorOK b64 (Gen.neg64.getD i 0) = true) ∧
    (Gen.pos32.length = 6 ∧ Gen.neg32.length = 6 ∧
      ∀ i, i < 6 →
        ofNat b32 (10 ^ 2 ^ i) = Gen.pos32.getD i 0 ∧
        entryOK b32 (Gen.pos32.getD i 0) (10 ^ 2 ^ i) 1 = true ∧
        entryOK b32 (Gen.neg32.getD i 0) 1 (10 ^ 2 ^ i) = true ∧
        interiorOK b32 (Gen.neg32.getD i 0) = true) :=
  ⟨tables64_ok, tables32_ok⟩

/-- what `entryOK` means (integers, cross-multiplied): a normal positive datum `m·2^e` with
    `|m·2^e − num/den| ≤ 2^e/2` and `|m·2^e − num/den| ≤ 2^-(mbits+1)·num/den` -/
theorem tables_entry_meaning {f : Fmt} {bits num den : Nat} (h : entryOK f bits num den = true) :
    ∃ (m : Nat) (e : Int), decode f bits = .fin false m e ∧ 2 ^ f.mbits ≤ m ∧ m < 2 ^ (f.mbits + 1) ∧
      (((m * den * 2 ^ e.toNat : Nat) : Int) - ((num * 2 ^ (-e).toNat : Nat) : Int)).natAbs * 2 ≤ den * 2 ^ e.toNat ∧
      (((m * den * 2 ^ e.toNat : Nat) : Int) - ((num * 2 ^ (-e).toNat : Nat) : Int)).natAbs * 2 ^ (f.mbits + 1)
        ≤ num * 2 ^ (-e).toNat := entryOK_spec h

/-- the tables over ℚ: every entry is a finite positive datum within `2^-53` (`2^-24`) of its power of ten -/
theorem tables_rel_error :
    (∀ i (h : i < pos64.length), ∃ (m : Nat) (e : Int), decode b64 pos64[i] = .fin false m e ∧ m ≠ 0 ∧
      |qv m e - (10 : ℚ) ^ (2 ^ i)| ≤ 1 / 2 ^ 53 * (10 : ℚ) ^ (2 ^ i)) ∧
    (∀ i (h : i < neg64.length), ∃ (m : Nat) (e : Int), decode b64 neg64[i] = .fin false m e ∧ m ≠ 0 ∧
      |qv m e - (1 / 10 : ℚ) ^ (2 ^ i)| ≤ 1 / 2 ^ 53 * (1 / 10 : ℚ) ^ (2 ^ i)) ∧
    (∀ i (h : i < pos32.length), ∃ (m : Nat) (e : Int), decode b32 pos32[i] = .fin false m e ∧ m ≠ 0 ∧
      |qv m e - (10 : ℚ) ^ (2 ^ i)| ≤ 1 / 2 ^ 24 * (10 : ℚ) ^ (2 ^ i)) ∧
    (∀ i (h : i < neg32.length), ∃ (m : Nat) (e : Int), decode b32 neg32[i] = .fin false m e ∧ m ≠ 0 ∧
      |qv m e - (1 / 10 : ℚ) ^ (2 ^ i)| ≤ 1 / 2 ^ 24 * (1 / 10 : ℚ) ^ (2 ^ i)) :=
  ⟨pos64_close, neg64_close, pos32_close, neg32_close⟩

-- non-vacuity: 10^256 and 10^-256 (the last binary64 entries), 10^-32 (the last binary32 entry)
example : ofNat b64 (10 ^ 256) = 0x75154FDD7F73BF3C ∧ entryOK b64 0x75154FDD7F73BF3C (10 ^ 256) 1 = true ∧
    entryOK b64 0xAC8062864AC6F43 1 (10 ^ 256) = true ∧ entryOK b32 0xA4FB11F 1 (10 ^ 32) = true := by decide +kernel
-- a wrong last bit is rejected
example : entryOK b64 0x75154FDD7F73BF3D (10 ^ 256) 1 = false ∧ entryOK b64 0xAC8062864AC6F42 1 (10 ^ 256) = false := by decide +kernel

/-! ## 2. one rounding, one multiplication, `ofNat` -/

/-- integer form: if `m·2^e` is in the normal range, `roundPos` returns a normal datum `m''·2^e''` with
    `|m''·2^e'' − m·2^e|·2^(mbits+1) ≤ m·2^e` (scaled by `2^-E`) -/
theorem round_rel_error_int (f : Fmt) (n : Bool) (m : Nat) (e : Int) (hm : m ≠ 0) (hf : 0 < f.emax)
    (hlo : emin f + f.mbits + 1 ≤ e + ((Nat.log2 m + 1 : Nat) : Int))
    (hhi : e + ((Nat.log2 m + 1 : Nat) : Int) + f.bias < f.emax) :
    ∃ (m'' : Nat) (e'' E : Int), decode f (roundPos f n m e) = .fin n m'' e'' ∧
      2 ^ f.mbits ≤ m'' ∧ m'' < 2 ^ (f.mbits + 1) ∧ E ≤ e ∧ E ≤ e'' ∧
      (((m'' * 2 ^ (e'' - E).toNat : Nat) : Int) - ((m * 2 ^ (e - E).toNat : Nat) : Int)).natAbs * 2 ^ (f.mbits + 1)
        ≤ m * 2 ^ (e - E).toNat := roundPos_rel f n m e hm hf hlo hhi

/-- ONE MULTIPLICATION: finite non-zero operands `±m1·2^e1`, `±m2·2^e2` whose exact product lies in
    `[2^(emin+mbits), 2^(emax-bias-1))` (binary64: `[2^-1022, 2^1023)`; binary32: `[2^-126, 2^127)`) give a finite normal datum
    with sign = xor of the signs and `|result − a·b| ≤ 2^-(mbits+1)·|a·b|` -/
theorem mul_rel_error (f : Fmt) (a b : Nat) (n1 n2 : Bool) (m1 m2 : Nat) (e1 e2 : Int) (hf : 0 < f.emax)
    (ha : decode f a = .fin n1 m1 e1) (hb : decode f b = .fin n2 m2 e2) (h1 : m1 ≠ 0) (h2 : m2 ≠ 0)
    (hlo : (2 : ℚ) ^ (emin f + f.mbits) ≤ qv m1 e1 * qv m2 e2)
    (hhi : qv m1 e1 * qv m2 e2 < (2 : ℚ) ^ ((f.emax : Int) - f.bias - 1)) :
    ∃ (m : Nat) (e : Int), decode f (SF.mul f a b) = .fin (n1 != n2) m e ∧
      2 ^ f.mbits ≤ m ∧ m < 2 ^ (f.mbits + 1) ∧
      |qv m e - qv m1 e1 * qv m2 e2| ≤ 1 / 2 ^ (f.mbits + 1) * (qv m1 e1 * qv m2 e2) :=
  mul_relQ f a b n1 n2 m1 m2 e1 e2 hf ha hb h1 h2 hlo hhi

/-- `ofNat` is within half an ulp (relative `2^-(mbits+1)`) of `n` -/
theorem ofNat_rel_error (f : Fmt) (n : Nat) (hn : n ≠ 0) (hf : 0 < f.emax)
    (hlo : (2 : ℚ) ^ (emin f + f.mbits) ≤ (n : ℚ)) (hhi : (n : ℚ) < (2 : ℚ) ^ ((f.emax : Int) - f.bias - 1)) :
    ∃ (m : Nat) (e : Int), decode f (ofNat f n) = .fin false m e ∧
      2 ^ f.mbits ≤ m ∧ m < 2 ^ (f.mbits + 1) ∧ |qv m e - (n : ℚ)| ≤ 1 / 2 ^ (f.mbits + 1) * (n : ℚ) :=
  ofNat_relQ f n hn hf hlo hhi

/-- … and exact below `2^(mbits+1)` -/
theorem ofNat_exact (f : Fmt) (n : Nat) (hn : n ≠ 0) (hlt : n < 2 ^ (f.mbits + 1)) (hb : 1 ≤ f.bias)
    (he : f.mbits + f.bias < f.emax) :
    ∃ (m : Nat) (e : Int), decode f (ofNat f n) = .fin false m e ∧ m ≠ 0 ∧ qv m e = (n : ℚ) :=
  ofNat_exactQ f n hn hlt hb he

-- non-vacuity: 3 × 0.1 in binary64 = 0x3FD3333333333334 (the famous 0.30000000000000004)
example : SF.mul b64 0x4008000000000000 0x3FB999999999999A = 0x3FD3333333333334 := by decide +kernel
example : ∃ (m : Nat) (e : Int), decode b64 (SF.mul b64 0x4008000000000000 0x3FB999999999999A) = .fin false m e ∧
    2 ^ 52 ≤ m ∧ m < 2 ^ 53 ∧
    |qv m e - qv 6755399441055744 (-51) * qv 7205759403792794 (-56)| ≤
      1 / 2 ^ 53 * (qv 6755399441055744 (-51) * qv 7205759403792794 (-56)) := by
  have ha : decode b64 0x4008000000000000 = .fin false 6755399441055744 (-51) := by decide +kernel
  have hb : decode b64 0x3FB999999999999A = .fin false 7205759403792794 (-56) := by decide +kernel
  have hv : qv 6755399441055744 (-51) * qv 7205759403792794 (-56) = 10808639105689191 / 36028797018963968 := by
    unfold qv; norm_num [zpow_neg]
  refine mul_rel_error b64 _ _ false false _ _ _ _ (by decide) ha hb (by decide) (by decide) ?_ ?_
  · rw [hv, emin_b64]
    calc (2 : ℚ) ^ (-1022 : Int) ≤ (2 : ℚ) ^ (-2 : Int) := zpow_le_zpow_right₀ (by norm_num) (by norm_num)
      _ ≤ _ := by norm_num
  · rw [hv, top_b64]
    calc (10808639105689191 / 36028797018963968 : ℚ) < (2 : ℚ) ^ (0 : Int) := by norm_num
      _ ≤ (2 : ℚ) ^ (1023 : Int) := zpow_le_zpow_right₀ (by norm_num) (by norm_num)


/-! ## 3. the decimal scan -/

/-- SCAN. For the literal `-? ip f e` whose written exponent is below the saturation threshold (`|X| < 100000`),
    `parseNumber` returns the exact integer (only when there is neither fraction nor exponent), or continues with the last
    stage `finish neg [] mant E` on a pair `(mant, E)` with `mant ≤ 2^52−1` and
    `mant·10^E ≤ |v| < (mant+1)·10^E` (truncation: less than one unit of the last kept digit); digits are dropped only
    once `mant ≥ (2^52−1)/10`, hence the relative truncation error is at most `1/450359962737049 < 2.23e-15`. -/
theorem scan_error (cfg : Cfg) (neg : Bool) {ip f e : List Byte} (hip : AllDigits ip) (hne : ip ≠ [])
    (hf : FracPart f) (he : ExpPart e) (hx : (expVal e).natAbs < 100000) :
    let lit := (if neg then [0x2D] else []) ++ ip ++ f ++ e
    (f = [] ∧ e = [] ∧ (parseNumber cfg lit = .uint (Digits.decVal ip) ∨ parseNumber cfg lit = .sint (-(Digits.decVal ip : Int)))) ∨
    ∃ (mant : Nat) (E : Int), parseNumber cfg lit = finish neg [] mant E ∧ mant ≤ 2 ^ 52 - 1 ∧
      (mant : ℚ) * (10 : ℚ) ^ E ≤ litAbs ip f e ∧ litAbs ip f e < ((mant : ℚ) + 1) * (10 : ℚ) ^ E ∧
      ((mant : ℚ) * (10 : ℚ) ^ E = litAbs ip f e ∨ (2 ^ 52 - 1) / 10 ≤ mant) ∧
      (0 < litAbs ip f e → mant ≠ 0 ∧ Close (1 / 450359962737049) ((mant : ℚ) * (10 : ℚ) ^ E) (litAbs ip f e)) := by
  intro lit
  rcases parse_scan cfg neg hip hne hf he hx with ⟨h1, h2, h3⟩ | ⟨mant, p, h1, h2, h3⟩
  · left
    refine ⟨h1, h2, ?_⟩
    have : Digits.decVal (ip ++ f.tail) = Digits.decVal ip := by rw [h1]; simp
    rw [this] at h3; exact h3
  · right
    refine ⟨mant, expVal e - (f.tail.length : Nat) + (p : Nat), h1, h3, ?_⟩
    have hS := ten_zpow_pos (expVal e - (f.tail.length : Int))
    obtain ⟨q1, q2, q3⟩ := scan_q h2 _ hS
    rw [scan_exp]
    unfold litAbs
    refine ⟨q1, q2, ?_, ?_⟩
    · obtain ⟨s1, s2, s3⟩ := h2
      rcases s3 with rfl | s3
      · left
        simp at s1 s2
        have : mant = Digits.decVal (ip ++ f.tail) := by omega
        rw [this]; simp
      · right; exact s3
    · intro hpos
      apply q3
      have : (0 : ℚ) < (Digits.decVal (ip ++ f.tail) : ℚ) := pos_of_mul_pos_left hpos hS.le
      exact_mod_cast this

/-! ## 5. magnitude clauses -/

/-- on the scanned pair: a zero mantissa is `±0` -/
theorem zero_mantissa_is_zero (neg : Bool) (e : Int) :
    finish neg [] 0 e = .f32 (negBits b32 neg 0) ∧ decode b32 (negBits b32 neg 0) = .fin neg 0 (-149) :=
  ⟨finish_zero neg e, zero32_decode neg⟩

/-- on the scanned pair: `e > 308` with a non-zero mantissa is `±inf` -/
theorem huge_is_inf (neg : Bool) (mant : Nat) (e : Int) (hm : mant ≠ 0) (he : 308 < e) :
    finish neg [] mant e = .f64 (infBits b64 neg) ∧ decode b64 (infBits b64 neg) = .inf neg :=
  ⟨finish_huge neg mant e hm he, decode_inf b64 neg⟩

/-- on the scanned pair: `e < -325` is `±0` -/
theorem tiny_is_zero (neg : Bool) (mant : Nat) (e : Int) (hm : mant ≠ 0) (he : e < -325) :
    finish neg [] mant e = .f32 (negBits b32 neg 0) ∧ decode b32 (negBits b32 neg 0) = .fin neg 0 (-149) :=
  ⟨finish_tiny neg mant e hm he, zero32_decode neg⟩

/-- on the value: a literal with `|v| < 10^-325` is `±0` (the integer 0 when it is written as an integer) -/
theorem tiny_value_is_zero (cfg : Cfg) (neg : Bool) {ip f e : List Byte} (hip : AllDigits ip) (hne : ip ≠ [])
    (hf : FracPart f) (he : ExpPart e) (hx : (expVal e).natAbs < 100000)
    (hv : litAbs ip f e < (10 : ℚ) ^ (-325 : Int)) :
    let lit := (if neg then [0x2D] else []) ++ ip ++ f ++ e
    parseNumber cfg lit = .uint 0 ∨ parseNumber cfg lit = .sint 0 ∨
    (parseNumber cfg lit = .f32 (negBits b32 neg 0) ∧ decode b32 (negBits b32 neg 0) = .fin neg 0 (-149)) := by
  intro lit
  rcases scan_error cfg neg hip hne hf he hx with ⟨h1, h2, h3⟩ | ⟨mant, E, h1, _, h3, _, _, _⟩
  · have hN : litAbs ip f e = (Digits.decVal ip : ℚ) := by unfold litAbs; rw [h1, h2]; simp [expVal]
    have h1' : (10 : ℚ) ^ (-325 : Int) ≤ 1 := zpow_le_one_of_nonpos₀ (by norm_num) (by norm_num)
    have : (Digits.decVal ip : ℚ) < 1 := by rw [← hN]; linarith
    have h0 : Digits.decVal ip = 0 := by
      have : Digits.decVal ip < 1 := by exact_mod_cast this
      omega
    rw [h0] at h3
    rcases h3 with h3 | h3
    · exact Or.inl h3
    · exact Or.inr (Or.inl (h3.trans (by simp)))
  · right; right
    refine ⟨?_, zero32_decode neg⟩
    show parseNumber cfg lit = _
    rw [h1]
    by_cases hm0 : mant = 0
    · subst hm0; exact finish_zero neg E
    · apply finish_tiny neg mant E hm0
      by_contra hc
      have hE : (10 : ℚ) ^ (-325 : Int) ≤ (10 : ℚ) ^ E := zpow_le_zpow_right₀ (by norm_num) (by omega)
      have hmq : (1 : ℚ) ≤ (mant : ℚ) := by exact_mod_cast Nat.pos_of_ne_zero hm0
      have : (10 : ℚ) ^ E ≤ (mant : ℚ) * (10 : ℚ) ^ E := le_mul_of_one_le_left (ten_zpow_pos E).le hmq
      linarith


/-! ## 4. accuracy of the parsed value -/

theorem abs_sval_sub (neg : Bool) (m : Nat) (ex : Int) (ip f e : List Byte) :
    |sval neg m ex - litVal neg ip f e| = |qv m ex - litAbs ip f e| := by
  unfold sval litVal
  cases neg
  · simp
  · have : (if true = true then (-1 : ℚ) else 1) * qv m ex - (if true = true then (-1 : ℚ) else 1) * litAbs ip f e =
        -(qv m ex - litAbs ip f e) := by simp; ring
    rw [this, abs_neg]

theorem abs_litVal (neg : Bool) (ip f e : List Byte) (h : 0 ≤ litAbs ip f e) : |litVal neg ip f e| = litAbs ip f e := by
  unfold litVal
  cases neg
  · simp [abs_of_nonneg h]
  · simp [abs_of_nonneg h]

/-- THE BINARY64 PATH. For every literal `-? ip f e` (exponent below the saturation threshold) whose value `v` satisfies
    `1e-300 ≤ |v| ≤ 1e300`: `parseNumber` returns the exact integer (integer literals inside the 64-bit ranges), a binary64
    pattern or a binary32 pattern — never `.invalid`/`.fault`; and WHENEVER it returns a binary64 pattern, that pattern is a
    FINITE datum, of the sign of the literal, with `|r − v| ≤ 1e-13·|v|` (actual bound proved: `< 4.8e-15`). -/
theorem parse_double_error (cfg : Cfg) (neg : Bool) {ip f e : List Byte} (hip : AllDigits ip) (hne : ip ≠ [])
    (hf : FracPart f) (he : ExpPart e) (hx : (expVal e).natAbs < 100000)
    (hlo : (10 : ℚ) ^ (-300 : Int) ≤ litAbs ip f e) (hhi : litAbs ip f e ≤ (10 : ℚ) ^ (300 : Int)) :
    let lit := (if neg then [0x2D] else []) ++ ip ++ f ++ e
    (parseNumber cfg lit = .uint (Digits.decVal ip) ∨ parseNumber cfg lit = .sint (-(Digits.decVal ip : Int)) ∨
      (∃ bits, parseNumber cfg lit = .f64 bits) ∨ (∃ bits, parseNumber cfg lit = .f32 bits)) ∧
    ∀ bits, parseNumber cfg lit = .f64 bits →
      ∃ (m : Nat) (ex : Int), decode b64 bits = .fin neg m ex ∧ m ≠ 0 ∧
        |sval neg m ex - litVal neg ip f e| ≤ 1 / 10 ^ 13 * |litVal neg ip f e| := by
  intro lit
  have hpos : 0 < litAbs ip f e := lt_of_lt_of_le (ten_zpow_pos _) hlo
  rcases scan_error cfg neg hip hne hf he hx with ⟨_, _, h3⟩ | ⟨mant, E, h1, h2, h3, _, _, h6⟩
  · constructor
    · rcases h3 with h3 | h3
      · exact Or.inl h3
      · exact Or.inr (Or.inl h3)
    · intro bits hb
      rcases h3 with h3 | h3 <;> · rw [h3] at hb; cases hb
  · obtain ⟨hm0, hcl⟩ := h6 hpos
    have hlt : mant < 2 ^ 53 := by omega
    have hge := hcl.ge
    have hmlo : (2 : ℚ) ^ (-1000 : Int) ≤ (mant : ℚ) * (10 : ℚ) ^ E := by
      have : litAbs ip f e / 2 ≤ (mant : ℚ) * (10 : ℚ) ^ E := by
        have : (1 / 2 : ℚ) ≤ 1 - 1 / 450359962737049 := by norm_num
        nlinarith
      have h4 := big_num_4
      linarith
    have hmhi : (mant : ℚ) * (10 : ℚ) ^ E ≤ (2 : ℚ) ^ (1000 : Int) := le_trans h3 (le_trans hhi big_num_3)
    obtain ⟨hk, hacc⟩ := finish_f64_close neg mant E hm0 hlt hmlo hmhi
    show (parseNumber cfg lit = _ ∨ parseNumber cfg lit = _ ∨ _ ∨ _) ∧ ∀ bits, parseNumber cfg lit = .f64 bits → _
    rw [h1]
    refine ⟨Or.inr (Or.inr hk), ?_⟩
    intro bits hb
    obtain ⟨m, ex, hdec, hm, hc⟩ := hacc bits hb
    refine ⟨m, ex, hdec, hm, ?_⟩
    have hmp : 0 < (mant : ℚ) * (10 : ℚ) ^ E := lt_of_lt_of_le (two_zpow_pos _) hmlo
    have := (hc.trans hcl hpos (by norm_num) (by norm_num)).mono hpos.le
      (by norm_num : (45 / 2 ^ 54 + 1 / 450359962737049 + 45 / 2 ^ 54 * (1 / 450359962737049) : ℚ) ≤ 1 / 10 ^ 13)
    rw [abs_sval_sub, abs_litVal neg ip f e hpos.le]
    exact this

/-- "MORE THAN SEVEN SIGNIFICANT DIGITS ⇒ binary64": if the number written by all the digits exceeds `2^23−1 = 8388607`
    (in particular if it has eight or more significant digits) and `1e-300 ≤ |v| ≤ 1e300`, the result is never a binary32
    pattern (it is an exact integer or, by `parse_double_error`, a binary64 pattern within `1e-13`). -/
theorem many_digits_double (cfg : Cfg) (neg : Bool) {ip f e : List Byte} (hip : AllDigits ip) (hne : ip ≠ [])
    (hf : FracPart f) (he : ExpPart e) (hx : (expVal e).natAbs < 100000)
    (hN : 8388607 < Digits.decVal (ip ++ f.tail))
    (hlo : (10 : ℚ) ^ (-300 : Int) ≤ litAbs ip f e) (hhi : litAbs ip f e ≤ (10 : ℚ) ^ (300 : Int)) :
    ∀ bits, parseNumber cfg ((if neg then [0x2D] else []) ++ ip ++ f ++ e) ≠ .f32 bits := by
  intro bits hb
  have hpos : 0 < litAbs ip f e := lt_of_lt_of_le (ten_zpow_pos _) hlo
  rcases parse_scan cfg neg hip hne hf he hx with ⟨_, _, h3⟩ | ⟨mant, p, h1, h2, h3⟩
  · rcases h3 with h3 | h3 <;> · rw [h3] at hb; cases hb
  · have hmant : 8388607 < mant := by
      obtain ⟨s1, s2, s3⟩ := h2
      rcases s3 with rfl | s3
      · simp at s1 s2; omega
      · have : Gen.mantissa_max64 / 10 = 450359962737049 := by decide
        omega
    have hm0 : mant ≠ 0 := by omega
    have hlt : mant < 2 ^ 53 := by
      have : Gen.mantissa_max64 = 4503599627370495 := rfl
      omega
    obtain ⟨q1, _, q3⟩ := scan_q h2 _ (ten_zpow_pos (expVal e - (f.tail.length : Int)))
    rw [← scan_exp] at q1 q3
    have hN0 : 0 < Digits.decVal (ip ++ f.tail) := by omega
    obtain ⟨_, hcl⟩ := q3 hN0
    have hge := hcl.ge
    have hmlo : (2 : ℚ) ^ (-1000 : Int) ≤ (mant : ℚ) * (10 : ℚ) ^ (expVal e - (f.tail.length : Int) + (p : Int)) := by
      have : litAbs ip f e / 2 ≤ (mant : ℚ) * (10 : ℚ) ^ (expVal e - (f.tail.length : Int) + (p : Int)) := by
        have : (1 / 2 : ℚ) ≤ 1 - 1 / 450359962737049 := by norm_num
        unfold litAbs
        have hp : 0 < (Digits.decVal (ip ++ f.tail) : ℚ) * (10 : ℚ) ^ (expVal e - (f.tail.length : Int)) := hpos
        nlinarith
      have h4 := big_num_4
      linarith
    have hmhi : (mant : ℚ) * (10 : ℚ) ^ (expVal e - (f.tail.length : Int) + (p : Int)) ≤ (2 : ℚ) ^ (1000 : Int) :=
      le_trans q1 (le_trans hhi big_num_3)
    have e1 := exp_ge_of mant _ hlt hmlo
    have e2 := exp_le_of mant _ hm0 hmhi
    rw [h1, finish_mid neg mant _ hm0 e1 e2, if_pos (Or.inr (Or.inr hmant))] at hb
    split at hb <;> cases hb

/-! ## 4b. no upper bound: "never a finite value of the wrong magnitude", and overflow to infinity -/

/-- For every literal with `|v| ≥ 1e-300` (NO upper bound): whenever `parseNumber` returns a binary64 pattern, it is the
    infinity of the sign of the literal, or a finite datum of that sign with `|r − v| ≤ 1e-13·|v|`.
    So above `1e300` the result is never a finite value of the wrong magnitude. -/
theorem parse_double_error_or_inf (cfg : Cfg) (neg : Bool) {ip f e : List Byte} (hip : AllDigits ip) (hne : ip ≠ [])
    (hf : FracPart f) (he : ExpPart e) (hx : (expVal e).natAbs < 100000)
    (hlo : (10 : ℚ) ^ (-300 : Int) ≤ litAbs ip f e) :
    let lit := (if neg then [0x2D] else []) ++ ip ++ f ++ e
    (parseNumber cfg lit = .uint (Digits.decVal ip) ∨ parseNumber cfg lit = .sint (-(Digits.decVal ip : Int)) ∨
      (∃ bits, parseNumber cfg lit = .f64 bits) ∨ (∃ bits, parseNumber cfg lit = .f32 bits)) ∧
    ∀ bits, parseNumber cfg lit = .f64 bits →
      decode b64 bits = .inf neg ∨
      ∃ (m : Nat) (ex : Int), decode b64 bits = .fin neg m ex ∧ m ≠ 0 ∧
        |sval neg m ex - litVal neg ip f e| ≤ 1 / 10 ^ 13 * |litVal neg ip f e| := by
  intro lit
  have hpos : 0 < litAbs ip f e := lt_of_lt_of_le (ten_zpow_pos _) hlo
  rcases scan_error cfg neg hip hne hf he hx with ⟨_, _, h3⟩ | ⟨mant, E, h1, h2, h3, _, _, h6⟩
  · constructor
    · rcases h3 with h3 | h3
      · exact Or.inl h3
      · exact Or.inr (Or.inl h3)
    · intro bits hb
      rcases h3 with h3 | h3 <;> · rw [h3] at hb; cases hb
  · obtain ⟨hm0, hcl⟩ := h6 hpos
    have hlt : mant < 2 ^ 53 := by omega
    have hge := hcl.ge
    have hmlo : (2 : ℚ) ^ (-1000 : Int) ≤ (mant : ℚ) * (10 : ℚ) ^ E := by
      have : litAbs ip f e / 2 ≤ (mant : ℚ) * (10 : ℚ) ^ E := by
        have : (1 / 2 : ℚ) ≤ 1 - 1 / 450359962737049 := by norm_num
        nlinarith
      have h4 := big_num_4
      linarith
    obtain ⟨hk, hacc⟩ := finish_f64_or_inf neg mant E hm0 hlt hmlo
    show (parseNumber cfg lit = _ ∨ parseNumber cfg lit = _ ∨ _ ∨ _) ∧ ∀ bits, parseNumber cfg lit = .f64 bits → _
    rw [h1]
    refine ⟨Or.inr (Or.inr hk), ?_⟩
    intro bits hb
    rcases hacc bits hb with hi | ⟨m, ex, hdec, hm, hc⟩
    · exact Or.inl hi
    · right
      refine ⟨m, ex, hdec, hm, ?_⟩
      have := (hc.trans hcl hpos (by norm_num) (by norm_num)).mono hpos.le
        (by norm_num : (45 / 2 ^ 54 + 1 / 450359962737049 + 45 / 2 ^ 54 * (1 / 450359962737049) : ℚ) ≤ 1 / 10 ^ 13)
      rw [abs_sval_sub, abs_litVal neg ip f e hpos.le]
      exact this

/-- MAGNITUDE, upper side: every literal with `|v| ≥ 10^309` parses to the infinity of its sign — through the range test
    `e > 308`, or (e.g. "15e308", "123456e304") through the overflow of the last multiplication of `make_float`. -/
theorem huge_value_is_inf (cfg : Cfg) (neg : Bool) {ip f e : List Byte} (hip : AllDigits ip) (hne : ip ≠ [])
    (hf : FracPart f) (he : ExpPart e) (hx : (expVal e).natAbs < 100000)
    (hv : (10 : ℚ) ^ (309 : Int) ≤ litAbs ip f e) :
    ∃ bits, parseNumber cfg ((if neg then [0x2D] else []) ++ ip ++ f ++ e) = .f64 bits ∧ decode b64 bits = .inf neg := by
  have hpos : 0 < litAbs ip f e := lt_of_lt_of_le (ten_zpow_pos _) hv
  rcases scan_error cfg neg hip hne hf he hx with ⟨h1, h2, h3⟩ | ⟨mant, E, h1, h2, _, _, _, h6⟩
  · exfalso
    have hN : litAbs ip f e = (Digits.decVal ip : ℚ) := by unfold litAbs; rw [h1, h2]; simp [expVal]
    have hlt : Digits.decVal ip ≤ 2 ^ 64 := by
      rcases h3 with h3 | h3
      · exact (uint_result_range cfg _ _ h3).le
      · have := (sint_result_range cfg _ _ h3).1; omega
    have : (Digits.decVal ip : ℚ) ≤ 2 ^ 64 := by exact_mod_cast hlt
    have h309 : (2 : ℚ) ^ 64 < (10 : ℚ) ^ (309 : Int) := by
      calc (2 : ℚ) ^ 64 < (10 : ℚ) ^ (20 : Int) := by norm_num
        _ ≤ (10 : ℚ) ^ (309 : Int) := zpow_le_zpow_right₀ (by norm_num) (by norm_num)
    rw [hN] at hv
    exact absurd (lt_of_le_of_lt hv (lt_of_le_of_lt this h309)) (lt_irrefl _)
  · obtain ⟨hm0, hcl⟩ := h6 hpos
    have hlt : mant < 2 ^ 53 := by omega
    rw [h1]
    apply finish_huge_value neg mant E hm0 hlt
    have hge := hcl.ge
    have hd : (1 / 2 : ℚ) ≤ 1 - 1 / 450359962737049 := by norm_num
    have h2' : litAbs ip f e / 2 ≤ (mant : ℚ) * (10 : ℚ) ^ E := by
      have := mul_le_mul_of_nonneg_right hd hpos.le
      clear hv
      linarith
    exact le_trans big_num_5 (le_trans (div_le_div_of_nonneg_right hv (by norm_num)) h2')

/-- THE BINARY32 PATH. For every literal with `|v| ≥ 1e-300` (no upper bound): whenever `parseNumber` returns a binary32
    pattern it is a FINITE datum (never an infinity: an overflowing binary32 computation is redone in binary64) of the sign of
    the literal with `|r − v| ≤ 1e-6·|v|`. The binary32 path is taken only for mantissas `≤ 2^23−1` (at most seven
    significant digits) and `|e| ≤ 38`; its two subnormal cases (`1e-38`, `2e-38`) are checked by evaluation. -/
theorem parse_float_error (cfg : Cfg) (neg : Bool) {ip f e : List Byte} (hip : AllDigits ip) (hne : ip ≠ [])
    (hf : FracPart f) (he : ExpPart e) (hx : (expVal e).natAbs < 100000)
    (hlo : (10 : ℚ) ^ (-300 : Int) ≤ litAbs ip f e) :
    let lit := (if neg then [0x2D] else []) ++ ip ++ f ++ e
    ∀ bits, parseNumber cfg lit = .f32 bits →
      ∃ (m : Nat) (ex : Int), decode b32 bits = .fin neg m ex ∧ m ≠ 0 ∧
        |sval neg m ex - litVal neg ip f e| ≤ 1 / 10 ^ 6 * |litVal neg ip f e| := by
  intro lit bits hb
  have hpos : 0 < litAbs ip f e := lt_of_lt_of_le (ten_zpow_pos _) hlo
  rcases scan_error cfg neg hip hne hf he hx with ⟨_, _, h3⟩ | ⟨mant, E, h1, h2, h3, _, _, h6⟩
  · rcases h3 with h3 | h3 <;> · rw [h3] at hb; cases hb
  · obtain ⟨hm0, hcl⟩ := h6 hpos
    have hlt : mant < 2 ^ 53 := by omega
    have hge := hcl.ge
    have hmlo : (2 : ℚ) ^ (-1000 : Int) ≤ (mant : ℚ) * (10 : ℚ) ^ E := by
      have : litAbs ip f e / 2 ≤ (mant : ℚ) * (10 : ℚ) ^ E := by
        have : (1 / 2 : ℚ) ≤ 1 - 1 / 450359962737049 := by norm_num
        nlinarith
      have h4 := big_num_4
      linarith
    change parseNumber cfg lit = .f32 bits at hb
    rw [h1] at hb
    obtain ⟨m, ex, hdec, hm, hc⟩ := finish_f32_full neg mant E hm0 hlt hmlo bits hb
    refine ⟨m, ex, hdec, hm, ?_⟩
    have := (hc.trans hcl hpos (by norm_num) (by norm_num)).mono hpos.le
      (by norm_num : (9 / 10 ^ 7 + 1 / 450359962737049 + 9 / 10 ^ 7 * (1 / 450359962737049) : ℚ) ≤ 1 / 10 ^ 6)
    rw [abs_sval_sub, abs_litVal neg ip f e hpos.le]
    exact this

/-! ## 6. saturated exponents, and the clauses without the hypothesis on the exponent -/

/-- SATURATION IS HARMLESS for literals of at most 99000 digits: when the written exponent is `≥ 100000` (the model freezes
    its accumulator there) and some digit is non-zero, the value is `≥ 10^1000` and the result is `±inf`; when it is `≤ -100000`
    the value is `< 10^-1000` and the result is `±0`. -/
theorem saturated_exponent (cfg : Cfg) (neg : Bool) {ip f e : List Byte} (hip : AllDigits ip) (hne : ip ≠ [])
    (hf : FracPart f) (he : ExpPart e) (hD : ip.length + f.tail.length ≤ 99000) :
    let lit := (if neg then [0x2D] else []) ++ ip ++ f ++ e
    (100000 ≤ expVal e → Digits.decVal (ip ++ f.tail) ≠ 0 →
      parseNumber cfg lit = .f64 (infBits b64 neg) ∧ (10 : ℚ) ^ (1000 : Int) ≤ litAbs ip f e) ∧
    (expVal e ≤ -100000 →
      parseNumber cfg lit = .f32 (negBits b32 neg 0) ∧ litAbs ip f e < (10 : ℚ) ^ (-1000 : Int)) := by
  intro lit
  have hfd : AllDigits f.tail := by
    rcases hf with rfl | ⟨ds, hds, rfl⟩
    · exact AllDigits_nil
    · exact hds.2
  have hall : AllDigits (ip ++ f.tail) := AllDigits_append.mpr ⟨hip, hfd⟩
  have hNlt : Digits.decVal (ip ++ f.tail) < 10 ^ (ip.length + f.tail.length) := by
    have := (decValAux_lt 0 (ip ++ f.tail) hall).1
    simpa [Digits.decVal, List.length_append] using this
  have hS := ten_zpow_pos (expVal e - (f.tail.length : Int))
  constructor
  · intro hX hN
    have hval : (10 : ℚ) ^ (1000 : Int) ≤ litAbs ip f e := by
      unfold litAbs
      have h1 : (1 : ℚ) ≤ (Digits.decVal (ip ++ f.tail) : ℚ) := by exact_mod_cast Nat.pos_of_ne_zero hN
      have h2 : (10 : ℚ) ^ (1000 : Int) ≤ (10 : ℚ) ^ (expVal e - (f.tail.length : Int)) :=
        zpow_le_zpow_right₀ (by norm_num) (by omega)
      exact le_trans h2 (le_mul_of_one_le_left hS.le h1)
    refine ⟨?_, hval⟩
    rcases parse_scan_gen cfg neg hip hne hf he with ⟨_, h2, _⟩ | ⟨X', mant, p, hX', h1, h2, _⟩
    · rw [h2] at hX; simp [expVal] at hX
    · show parseNumber cfg lit = _
      rw [h1]
      have hm0 : mant ≠ 0 := by
        rintro rfl
        obtain ⟨_, s2, s3⟩ := h2
        rcases s3 with rfl | s3
        · simp at s2; omega
        · have : Gen.mantissa_max64 / 10 = 450359962737049 := by decide
          omega
      apply finish_huge neg mant _ hm0
      have := (hX'.2.1 hX).1
      omega
  · intro hX
    have hval : litAbs ip f e < (10 : ℚ) ^ (-1000 : Int) := by
      unfold litAbs
      have h1 : (Digits.decVal (ip ++ f.tail) : ℚ) < ((10 ^ (ip.length + f.tail.length) : Nat) : ℚ) := by exact_mod_cast hNlt
      have h2 : ((10 ^ (ip.length + f.tail.length) : Nat) : ℚ) * (10 : ℚ) ^ (expVal e - (f.tail.length : Int)) ≤
          (10 : ℚ) ^ (-1000 : Int) := by
        push_cast
        rw [← zpow_natCast, ← zpow_add₀ (by norm_num : (10 : ℚ) ≠ 0)]
        exact zpow_le_zpow_right₀ (by norm_num) (by push_cast; omega)
      exact lt_of_lt_of_le (mul_lt_mul_of_pos_right h1 hS) h2
    refine ⟨?_, hval⟩
    rcases parse_scan_gen cfg neg hip hne hf he with ⟨_, h2, _⟩ | ⟨X', mant, p, hX', h1, h2, _⟩
    · rw [h2] at hX; simp [expVal] at hX
    · show parseNumber cfg lit = _
      rw [h1]
      by_cases hm0 : mant = 0
      · subst hm0; exact finish_zero neg _
      · apply finish_tiny neg mant _ hm0
        have hp : p < ip.length + f.tail.length := by
          obtain ⟨s1, _, _⟩ := h2
          have : 10 ^ p ≤ mant * 10 ^ p := Nat.le_mul_of_pos_left _ (Nat.pos_of_ne_zero hm0)
          have : 10 ^ p < 10 ^ (ip.length + f.tail.length) := by omega
          exact (Nat.pow_lt_pow_iff_right (by decide : 1 < 10)).mp this
        have := (hX'.2.2 hX).2
        omega

/-- CAPSTONE (no hypothesis on the exponent; literals of at most 99000 digits, which includes every literal the
    deserializer can buffer (63 bytes) and every string `JsonVariant` can hold (65535 bytes)).
    For the literal `-? ip f e` with exact value `v`:
    * `1e-300 ≤ |v|`: the result is an exact integer, a binary64 or a binary32 pattern; a binary64 pattern is `±inf` of the
      right sign or finite within `1e-13·|v|`; a binary32 pattern is finite within `1e-6·|v|`;
    * `1e-300 ≤ |v| ≤ 1e300`: moreover no infinity: a binary64 pattern is finite within `1e-13·|v|`;
    * `|v| ≥ 1e309`: `±inf`;   * `|v| < 1e-325`: `±0` (or the integer 0). -/
theorem float_clauses (cfg : Cfg) (neg : Bool) {ip f e : List Byte} (hip : AllDigits ip) (hne : ip ≠ [])
    (hf : FracPart f) (he : ExpPart e) (hD : ip.length + f.tail.length ≤ 99000) :
    let lit := (if neg then [0x2D] else []) ++ ip ++ f ++ e
    ((10 : ℚ) ^ (-300 : Int) ≤ litAbs ip f e →
      (parseNumber cfg lit = .uint (Digits.decVal ip) ∨ parseNumber cfg lit = .sint (-(Digits.decVal ip : Int)) ∨
        (∃ bits, parseNumber cfg lit = .f64 bits) ∨ (∃ bits, parseNumber cfg lit = .f32 bits)) ∧
      (∀ bits, parseNumber cfg lit = .f64 bits →
        (decode b64 bits = .inf neg ∧ (10 : ℚ) ^ (300 : Int) < litAbs ip f e) ∨
        ∃ (m : Nat) (ex : Int), decode b64 bits = .fin neg m ex ∧ m ≠ 0 ∧
          |sval neg m ex - litVal neg ip f e| ≤ 1 / 10 ^ 13 * |litVal neg ip f e|) ∧
      (∀ bits, parseNumber cfg lit = .f32 bits →
        ∃ (m : Nat) (ex : Int), decode b32 bits = .fin neg m ex ∧ m ≠ 0 ∧
          |sval neg m ex - litVal neg ip f e| ≤ 1 / 10 ^ 6 * |litVal neg ip f e|)) ∧
    ((10 : ℚ) ^ (309 : Int) ≤ litAbs ip f e →
      ∃ bits, parseNumber cfg lit = .f64 bits ∧ decode b64 bits = .inf neg) ∧
    (litAbs ip f e < (10 : ℚ) ^ (-325 : Int) →
      parseNumber cfg lit = .uint 0 ∨ parseNumber cfg lit = .sint 0 ∨
      (parseNumber cfg lit = .f32 (negBits b32 neg 0) ∧ decode b32 (negBits b32 neg 0) = .fin neg 0 (-149))) := by
  intro lit
  obtain ⟨hsatHi, hsatLo⟩ := saturated_exponent cfg neg hip hne hf he hD
  have hNpos : 0 < litAbs ip f e → Digits.decVal (ip ++ f.tail) ≠ 0 := by
    intro h h0; unfold litAbs at h; rw [h0] at h; simp at h
  have h300 : (10 : ℚ) ^ (300 : Int) < (10 : ℚ) ^ (1000 : Int) := zpow_lt_zpow_right₀ (by norm_num) (by norm_num)
  have hm1000 : (10 : ℚ) ^ (-1000 : Int) < (10 : ℚ) ^ (-325 : Int) := zpow_lt_zpow_right₀ (by norm_num) (by norm_num)
  have hm1000' : (10 : ℚ) ^ (-1000 : Int) < (10 : ℚ) ^ (-300 : Int) := zpow_lt_zpow_right₀ (by norm_num) (by norm_num)
  by_cases hx : (expVal e).natAbs < 100000
  · -- the written exponent is the one the model uses
    refine ⟨?_, huge_value_is_inf cfg neg hip hne hf he hx, tiny_value_is_zero cfg neg hip hne hf he hx⟩
    intro hlo
    obtain ⟨hk, h64⟩ := parse_double_error_or_inf cfg neg hip hne hf he hx hlo
    refine ⟨hk, ?_, parse_float_error cfg neg hip hne hf he hx hlo⟩
    intro bits hb
    by_cases hhi : litAbs ip f e ≤ (10 : ℚ) ^ (300 : Int)
    · exact Or.inr ((parse_double_error cfg neg hip hne hf he hx hlo hhi).2 bits hb)
    · rcases h64 bits hb with hi | hfin
      · exact Or.inl ⟨hi, lt_of_not_ge hhi⟩
      · exact Or.inr hfin
  · rcases Int.le_total 0 (expVal e) with hs | hs
    · -- saturated upwards
      have hX : 100000 ≤ expVal e := by omega
      refine ⟨?_, ?_, ?_⟩
      · intro hlo
        have hpos : 0 < litAbs ip f e := lt_of_lt_of_le (ten_zpow_pos _) hlo
        obtain ⟨hres, hval⟩ := hsatHi hX (hNpos hpos)
        refine ⟨Or.inr (Or.inr (Or.inl ⟨_, hres⟩)), ?_, ?_⟩
        · intro bits hb
          rw [hres] at hb; cases hb
          exact Or.inl ⟨decode_inf b64 neg, lt_of_lt_of_le h300 hval⟩
        · intro bits hb; rw [hres] at hb; cases hb
      · intro hv
        have hpos : 0 < litAbs ip f e := lt_of_lt_of_le (ten_zpow_pos _) hv
        obtain ⟨hres, _⟩ := hsatHi hX (hNpos hpos)
        exact ⟨_, hres, decode_inf b64 neg⟩
      · intro hv
        by_cases hN : Digits.decVal (ip ++ f.tail) = 0
        · -- all digits zero: the mantissa is zero whatever the exponent
          rcases parse_scan_gen cfg neg hip hne hf he with ⟨_, h2, _⟩ | ⟨X', mant, p, _, h1, h2, _⟩
          · rw [h2] at hX; simp [expVal] at hX
          · right; right
            refine ⟨?_, zero32_decode neg⟩
            show parseNumber cfg lit = _
            have : mant = 0 := by
              obtain ⟨s1, _, _⟩ := h2
              rw [hN] at s1
              have : 0 < 10 ^ p := Nat.pow_pos (by decide)
              rcases Nat.eq_zero_or_pos mant with h | h
              · exact h
              · have := Nat.mul_pos h this; omega
            rw [h1, this]; exact finish_zero neg _
        · exfalso
          obtain ⟨_, hval⟩ := hsatHi hX hN
          have : (10 : ℚ) ^ (-325 : Int) < (10 : ℚ) ^ (1000 : Int) := zpow_lt_zpow_right₀ (by norm_num) (by norm_num)
          exact absurd (lt_trans (lt_of_le_of_lt hval hv) this) (lt_irrefl _)
    · -- saturated downwards
      have hX : expVal e ≤ -100000 := by omega
      obtain ⟨hres, hval⟩ := hsatLo hX
      refine ⟨?_, ?_, ?_⟩
      · intro hlo
        exact absurd (lt_trans (lt_of_le_of_lt hlo hval) hm1000') (lt_irrefl _)
      · intro hv
        have : (10 : ℚ) ^ (-1000 : Int) < (10 : ℚ) ^ (309 : Int) := zpow_lt_zpow_right₀ (by norm_num) (by norm_num)
        exact absurd (lt_trans (lt_of_le_of_lt hv hval) this) (lt_irrefl _)
      · intro _
        exact Or.inr (Or.inr ⟨hres, zero32_decode neg⟩)

/-! ## non-vacuity -/

-- the model on "1e23", "0.1" (binary32 path), "123456789012345678e-5" (binary64 path, 18 digits: two are truncated),
-- "15e308" (passes the range test, overflows in the last multiplication), "1e-38" (binary32 subnormal)
example : parseNumber {} [0x31,0x65,0x32,0x33] = .f32 0x65A96817 := by decide +kernel
example : parseNumber {} [0x30,0x2E,0x31] = .f32 0x3DCCCCCD := by decide +kernel
example : parseNumber {} [0x31,0x32,0x33,0x34,0x35,0x36,0x37,0x38,0x39,0x30,0x31,0x32,0x33,0x34,0x35,0x36,0x37,0x38,0x65,0x2D,0x35]
    = .f64 4787879594345412428 := by decide +kernel
example : parseNumber {} [0x31,0x35,0x65,0x33,0x30,0x38] = .f64 (infBits b64 false) := by decide +kernel
example : parseNumber {} [0x31,0x65,0x2D,0x33,0x38] = .f32 7136239 := by decide +kernel

private theorem exp_m5 : ExpPart [0x65,0x2D,0x35] :=
  Or.inr ⟨0x65, [0x2D], [0x35], Or.inl rfl, Or.inr (Or.inr rfl), ⟨by decide, by decide⟩, rfl⟩

/-- `parse_double_error` on "123456789012345678e-5" = 1234567890123.45678: the result 0x4272_3A4A_8CAC_B745… is within 1e-13 -/
example : ∃ (m : Nat) (ex : Int), decode b64 4787879594345412428 = .fin false m ex ∧ m ≠ 0 ∧
    |sval false m ex - 123456789012345678 / 10 ^ 5| ≤ 1 / 10 ^ 13 * |(123456789012345678 / 10 ^ 5 : ℚ)| := by
  have hip : AllDigits [0x31,0x32,0x33,0x34,0x35,0x36,0x37,0x38,0x39,0x30,0x31,0x32,0x33,0x34,0x35,0x36,0x37,0x38] := by unfold AllDigits; decide
  have hv : litAbs [0x31,0x32,0x33,0x34,0x35,0x36,0x37,0x38,0x39,0x30,0x31,0x32,0x33,0x34,0x35,0x36,0x37,0x38] [] [0x65,0x2D,0x35]
      = 123456789012345678 / 10 ^ 5 := by
    unfold litAbs
    rw [show Digits.decVal ([0x31,0x32,0x33,0x34,0x35,0x36,0x37,0x38,0x39,0x30,0x31,0x32,0x33,0x34,0x35,0x36,0x37,0x38] ++ ([] : List Byte).tail)
        = 123456789012345678 from by decide +kernel,
      show expVal [0x65,0x2D,0x35] - ((([] : List Byte).tail.length : Nat) : Int) = -5 from by decide +kernel]
    norm_num [zpow_neg]
  have hlv : litVal false [0x31,0x32,0x33,0x34,0x35,0x36,0x37,0x38,0x39,0x30,0x31,0x32,0x33,0x34,0x35,0x36,0x37,0x38] [] [0x65,0x2D,0x35]
      = 123456789012345678 / 10 ^ 5 := by unfold litVal; rw [hv]; simp
  have := (parse_double_error {} false hip (by simp) (Or.inl rfl) exp_m5 (by decide +kernel)
    (by rw [hv]
        calc (10 : ℚ) ^ (-300 : Int) ≤ 1 := zpow_le_one_of_nonpos₀ (by norm_num) (by norm_num)
          _ ≤ _ := by norm_num)
    (by rw [hv]
        calc (123456789012345678 / 10 ^ 5 : ℚ) ≤ (10 : ℚ) ^ (18 : Int) := by norm_num
          _ ≤ (10 : ℚ) ^ (300 : Int) := zpow_le_zpow_right₀ (by norm_num) (by norm_num))).2
    4787879594345412428 (by decide +kernel)
  rw [hlv] at this
  exact this

/-- `parse_float_error` on "0.1": the binary32 result 0x3DCCCCCD is within 1e-6 of 1/10 -/
example : ∃ (m : Nat) (ex : Int), decode b32 0x3DCCCCCD = .fin false m ex ∧ m ≠ 0 ∧
    |sval false m ex - 1 / 10| ≤ 1 / 10 ^ 6 * |(1 / 10 : ℚ)| := by
  have hv : litAbs [0x30] [0x2E,0x31] [] = 1 / 10 := by
    unfold litAbs
    rw [show Digits.decVal ([0x30] ++ ([0x2E,0x31] : List Byte).tail) = 1 from by decide +kernel,
      show expVal [] - ((([0x2E,0x31] : List Byte).tail.length : Nat) : Int) = -1 from by decide +kernel]
    norm_num
  have hlv : litVal false [0x30] [0x2E,0x31] [] = 1 / 10 := by unfold litVal; rw [hv]; simp
  have := parse_float_error {} false (ip := [0x30]) (f := [0x2E,0x31]) (e := []) (by unfold AllDigits; decide) (by simp)
    (Or.inr ⟨[0x31], ⟨by decide, by decide⟩, rfl⟩) (Or.inl rfl) (by decide +kernel)
    (by rw [hv]
        calc (10 : ℚ) ^ (-300 : Int) ≤ (10 : ℚ) ^ (-1 : Int) := zpow_le_zpow_right₀ (by norm_num) (by norm_num)
          _ ≤ _ := by norm_num)
    0x3DCCCCCD (by decide +kernel)
  rw [hlv] at this
  exact this

private theorem exp_m400 : ExpPart [0x65,0x2D,0x34,0x30,0x30] :=
  Or.inr ⟨0x65, [0x2D], [0x34,0x30,0x30], Or.inl rfl, Or.inr (Or.inr rfl), ⟨by decide, by decide⟩, rfl⟩

private theorem exp_308 : ExpPart [0x65,0x33,0x30,0x38] :=
  Or.inr ⟨0x65, [], [0x33,0x30,0x38], Or.inl rfl, Or.inl rfl, ⟨by decide, by decide⟩, rfl⟩

/-- `huge_value_is_inf` on "-15e308" (decimal exponent 308 passes the range test; the last multiplication overflows),
    `tiny_value_is_zero` on "-1e-400" -/
example : ∃ bits, parseNumber {} [0x2D,0x31,0x35,0x65,0x33,0x30,0x38] = .f64 bits ∧ decode b64 bits = .inf true := by
  have hv : litAbs [0x31,0x35] [] [0x65,0x33,0x30,0x38] = 15 * (10 : ℚ) ^ (308 : Int) := by
    unfold litAbs
    rw [show Digits.decVal ([0x31,0x35] ++ ([] : List Byte).tail) = 15 from by decide +kernel,
      show expVal [0x65,0x33,0x30,0x38] - ((([] : List Byte).tail.length : Nat) : Int) = 308 from by decide +kernel]
    simp
  exact huge_value_is_inf {} true (ip := [0x31,0x35]) (f := []) (e := [0x65,0x33,0x30,0x38]) (by unfold AllDigits; decide) (by simp)
    (Or.inl rfl) exp_308 (by decide +kernel)
    (by rw [hv, show (309 : Int) = 1 + 308 from rfl, zpow_add₀ (by norm_num : (10 : ℚ) ≠ 0)]
        exact mul_le_mul_of_nonneg_right (by norm_num) (ten_zpow_pos _).le)
example : parseNumber {} [0x2D,0x31,0x65,0x2D,0x34,0x30,0x30] = .f32 (negBits b32 true 0) := by
  have hv : litAbs [0x31] [] [0x65,0x2D,0x34,0x30,0x30] = (10 : ℚ) ^ (-400 : Int) := by
    unfold litAbs
    rw [show Digits.decVal ([0x31] ++ ([] : List Byte).tail) = 1 from by decide +kernel,
      show expVal [0x65,0x2D,0x34,0x30,0x30] - ((([] : List Byte).tail.length : Nat) : Int) = -400 from by decide +kernel]
    simp
  rcases tiny_value_is_zero {} true (ip := [0x31]) (f := []) (e := [0x65,0x2D,0x34,0x30,0x30]) (by unfold AllDigits; decide) (by simp)
    (Or.inl rfl) exp_m400 (by decide +kernel)
    (by rw [hv]; exact zpow_lt_zpow_right₀ (by norm_num) (by norm_num)) with h | h | h
  · exact absurd h (by decide +kernel)
  · exact absurd h (by decide +kernel)
  · exact h.1


private theorem exp_1e6 : ExpPart [0x65,0x31,0x30,0x30,0x30,0x30,0x30,0x30] :=
  Or.inr ⟨0x65, [], [0x31,0x30,0x30,0x30,0x30,0x30,0x30], Or.inl rfl, Or.inl rfl, ⟨by decide, by decide⟩, rfl⟩
private theorem exp_m38 : ExpPart [0x65,0x2D,0x33,0x38] :=
  Or.inr ⟨0x65, [0x2D], [0x33,0x38], Or.inl rfl, Or.inr (Or.inr rfl), ⟨by decide, by decide⟩, rfl⟩

/-- `saturated_exponent` on "1e1000000" (the model reads the exponent as 100000) -/
example : parseNumber {} [0x31,0x65,0x31,0x30,0x30,0x30,0x30,0x30,0x30] = .f64 (infBits b64 false) :=
  ((saturated_exponent {} false (ip := [0x31]) (f := []) (e := [0x65,0x31,0x30,0x30,0x30,0x30,0x30,0x30])
    (by unfold AllDigits; decide) (by simp) (Or.inl rfl) exp_1e6 (by decide)).1 (by decide +kernel) (by decide +kernel)).1

/-- `float_clauses` on "1e-38": the binary32 result 0x006CE3EF is SUBNORMAL, and still within 1e-6 of 1e-38 -/
example : ∃ (m : Nat) (ex : Int), decode b32 7136239 = .fin false m ex ∧ m ≠ 0 ∧
    |sval false m ex - 1 / 10 ^ 38| ≤ 1 / 10 ^ 6 * |(1 / 10 ^ 38 : ℚ)| := by
  have hv : litAbs [0x31] [] [0x65,0x2D,0x33,0x38] = 1 / 10 ^ 38 := by
    unfold litAbs
    rw [show Digits.decVal ([0x31] ++ ([] : List Byte).tail) = 1 from by decide +kernel,
      show expVal [0x65,0x2D,0x33,0x38] - ((([] : List Byte).tail.length : Nat) : Int) = -38 from by decide +kernel]
    norm_num [zpow_neg]
  have hlv : litVal false [0x31] [] [0x65,0x2D,0x33,0x38] = 1 / 10 ^ 38 := by unfold litVal; rw [hv]; simp
  have := ((float_clauses {} false (ip := [0x31]) (f := []) (e := [0x65,0x2D,0x33,0x38])
    (by unfold AllDigits; decide) (by simp) (Or.inl rfl) exp_m38 (by decide)).1
    (by rw [hv, show (1 / 10 ^ 38 : ℚ) = (10 : ℚ) ^ (-38 : Int) from by norm_num [zpow_neg]]
        exact zpow_le_zpow_right₀ (by norm_num) (by norm_num))).2.2 7136239 (by decide +kernel)
  rw [hlv] at this
  exact this

end C12
