/- Aggregate: C12 integer and parse-side float theorems (C12.lean), print-side error bounds and the subnormal band of the parser (C12Print.lean). -/
import AJ.Props.C12
import AJ.Props.C12Print
import AJ.Props.SlotCor
import AJ.Props.C12Gen
