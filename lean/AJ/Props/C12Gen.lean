/- Numbers through text, tied to the source by translation: `lean/AJ/Gen/Tables.lean` is regenerated on every run by calling the compiled library -
   `serializeJson` on 63 stored numbers (doubles and floats given by their bits, integers) and `deserializeJson` on 56 number-like literals (boundaries of the
   integer and floating ranges, long digit strings, lenient and malformed spellings), reading the result back through `as<T>()` - and the theorems evaluate the
   printing model, the deserializer model and the conversion model on the same data in the kernel. -/
import AJ.Model.JS
import AJ.Model.Conv
import AJ.Props.C13Gen
open JD SF

namespace C12

/-- the text the printing model writes for a table row -/
def printRow (kind payload : Nat) : Nat × Nat × List Nat :=
  (kind, payload, match C13.rowVal kind payload with
    | .num n => (JS.printNum {} n).map (·.toNat)
    | _ => [])

/-- **printing**: the model writes byte for byte what serializeJson writes, for every stored number of the table -/
theorem printed_numbers_are_source : Gen.print_rows.map (fun r => printRow r.1 r.2.1) = Gen.print_rows := by decide +kernel

def pCodeNo : Code → Nat
  | .ok => 0 | .empty => 1 | .incomplete => 2 | .invalid => 3 | .noMemory => 4 | .tooDeep => 4 | .fuel => 9

/-- what the models answer for a literal: code, integer?, the four readings -/
def parseRow (lit : List Nat) : List Nat × Nat × Nat × Nat × Int × Nat × Nat :=
  let r := JD.run {} 10 (lit.map UInt8.ofNat)
  let v := r.2.1
  let isInt : Nat := match v with | .num (.uint _) => 1 | .num (.sint _) => 1 | _ => 0
  (lit, pCodeNo r.1, isInt, ((Conv.asInt {} v Conv.u64).getD (-1)).toNat, (Conv.asInt {} v Conv.i64).getD (-1),
   C13.canonNaN b32 ((Conv.asFloatBits {} v b32).getD 0) 0x7fc00000, C13.canonNaN b64 ((Conv.asFloatBits {} v b64).getD 0) 0x7ff8000000000000)

/-- **parsing**: code, kind of number and all four readings of the model are those of the library, for every literal of the table -/
theorem parsed_literals_are_source :
    Gen.parse_rows.all (fun r =>
      let m := parseRow r.1
      m.2.1 == r.2.1 && m.2.2.1 == r.2.2.1 && m.2.2.2.1 == r.2.2.2.1 && m.2.2.2.2.1 == r.2.2.2.2.1 && m.2.2.2.2.2.1 == r.2.2.2.2.2.1 && m.2.2.2.2.2.2 == r.2.2.2.2.2.2) = true := by
  decide +kernel

end C12
