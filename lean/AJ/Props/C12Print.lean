/- C12, printing clauses, and the subnormal band of the parser.

   PRINT: "A finite value x in that range given as a float is printed as a literal whose exact decimal value is within
   1e-6*max(1,|x|) of x, and one given as a double within 1e-9*max(1,|x|)."

   `textVal t` is the exact rational value of the bytes `t` read as `-? digits (. digits)? ([eE] [+-]? digits)?`
   (AJ/Lemmas/FloatPrintText.lean); `sval n m e = ±m·2^e` is the exact value of the datum `decode … = .fin n m e`.
   The theorems hold for EVERY finite non-zero datum (subnormals and the largest values included), with the constant
   `0.51` instead of `1`: the printer rounds the decimal part half up (`≤ 0.5` units of the last printed place), the
   multiplication that scales the fraction costs `< 2e-7` units, `normalize` costs `< 2.5e-15` relative.
   Helper lemmas: AJ/Lemmas/FloatPrint{SF,Norm,Dec,Text}.lean. -/
import AJ.Lemmas.FloatPrintText
import AJ.Lemmas.FloatPrintSubnormal
import AJ.Props.C12
namespace C12
open SF JD JS Digits Spec.Json

theorem abs_sval (n : Bool) (m : Nat) (e : Int) : |sval n m e| = qv m e := by
  unfold sval
  cases n <;> simp [abs_of_nonneg (qv_nonneg m e)]

/-! ## 1. doubles -/

/-- PRINT, binary64, all finite non-zero data: the text printed for the pattern `b` (9 decimal places) denotes a rational
    within `0.51e-9·max(1,|x|)` of the exact value `x` of `b` -/
theorem print_double_close (cfg : Cfg) (b : Nat) (n : Bool) (m : Nat) (e : Int) (h : decode b64 b = .fin n m e) (hm : m ≠ 0) :
    |textVal (printNum cfg (.f64 b)) - sval n m e| ≤ 51 / 100 * (1 / 10 ^ 9) * max 1 |sval n m e| := by
  have := writeFloat_close cfg b n m e h hm 9 (by decide) (by decide)
  rw [abs_sval]
  show |textVal (writeFloat cfg b 9) - sval n m e| ≤ _
  calc _ ≤ 51 / 100 * (max 1 (qv m e) / (10 : ℚ) ^ 9) := this
    _ = _ := by ring

/-- PRINT, binary64, as stated in the property: `1e-300 ≤ |x| ≤ 1e300` ⇒ within `1e-9·max(1,|x|)` -/
theorem print_double_error (cfg : Cfg) (b : Nat) (n : Bool) (m : Nat) (e : Int) (h : decode b64 b = .fin n m e)
    (hlo : (10 : ℚ) ^ (-300 : Int) ≤ |sval n m e|) (_hhi : |sval n m e| ≤ (10 : ℚ) ^ (300 : Int)) :
    |textVal (printNum cfg (.f64 b)) - sval n m e| ≤ 1 / 10 ^ 9 * max 1 |sval n m e| := by
  have hm : m ≠ 0 := by
    rintro rfl
    have h0 : qv 0 e = 0 := by unfold qv; simp
    rw [abs_sval, h0] at hlo
    exact absurd (lt_of_lt_of_le (ten_zpow_pos (-300)) hlo) (lt_irrefl _)
  have h1 := print_double_close cfg b n m e h hm
  have h2 : (0 : ℚ) ≤ max 1 |sval n m e| := le_trans zero_le_one (le_max_left _ _)
  have h3 : (51 / 100 * (1 / 10 ^ 9) : ℚ) ≤ 1 / 10 ^ 9 := by norm_num
  exact le_trans h1 (mul_le_mul_of_nonneg_right h3 h2)

/-! ## 2. floats (widened exactly to binary64, printed with 6 decimal places) -/

/-- PRINT, binary32, all finite non-zero data: within `0.51e-6·max(1,|x|)` -/
theorem print_float_close (cfg : Cfg) (b : Nat) (n : Bool) (m : Nat) (e : Int) (h : decode b32 b = .fin n m e) (hm : m ≠ 0) :
    |textVal (printNum cfg (.f32 b)) - sval n m e| ≤ 51 / 100 * (1 / 10 ^ 6) * max 1 |sval n m e| := by
  obtain ⟨m', e', hd, hle, hmm⟩ := Conv.cvt_32_64_exact b n m e h
  have hq : qv m' e' = qv m e := by rw [hmm]; exact qv_scaled m e e' hle
  have hm' : m' ≠ 0 := by
    rw [hmm]; exact Nat.mul_ne_zero hm (Nat.pos_iff_ne_zero.mp (Nat.two_pow_pos _))
  have hs : sval n m' e' = sval n m e := by unfold sval; rw [hq]
  have := writeFloat_close cfg (cvt b32 b64 b) n m' e' hd hm' 6 (by decide) (by decide)
  rw [abs_sval, ← hs, ← hq]
  show |textVal (writeFloat cfg (cvt b32 b64 b) 6) - sval n m' e'| ≤ _
  calc _ ≤ 51 / 100 * (max 1 (qv m' e') / (10 : ℚ) ^ 6) := this
    _ = _ := by ring

/-- PRINT, binary32, as stated in the property -/
theorem print_float_error (cfg : Cfg) (b : Nat) (n : Bool) (m : Nat) (e : Int) (h : decode b32 b = .fin n m e)
    (hlo : (10 : ℚ) ^ (-300 : Int) ≤ |sval n m e|) (_hhi : |sval n m e| ≤ (10 : ℚ) ^ (300 : Int)) :
    |textVal (printNum cfg (.f32 b)) - sval n m e| ≤ 1 / 10 ^ 6 * max 1 |sval n m e| := by
  have hm : m ≠ 0 := by
    rintro rfl
    have h0 : qv 0 e = 0 := by unfold qv; simp
    rw [abs_sval, h0] at hlo
    exact absurd (lt_of_lt_of_le (ten_zpow_pos (-300)) hlo) (lt_irrefl _)
  have h1 := print_float_close cfg b n m e h hm
  have h2 : (0 : ℚ) ≤ max 1 |sval n m e| := le_trans zero_le_one (le_max_left _ _)
  have h3 : (51 / 100 * (1 / 10 ^ 6) : ℚ) ≤ 1 / 10 ^ 6 := by norm_num
  exact le_trans h1 (mul_le_mul_of_nonneg_right h3 h2)

/-! ## 3. zero -/

theorem writeFloat_cfg_irrelevant (cfg : Cfg) (v places : Nat) (h1 : isNaN b64 v = false) (h2 : isInf b64 v = false) :
    writeFloat cfg v places = writeFloat {} v places := by
  simp only [writeFloat, h1, h2, Bool.false_eq_true, if_false]

/-- `+0` and `-0`, as double or as float, print as "0" (the sign of zero is not printed) -/
theorem print_zero (cfg : Cfg) :
    printNum cfg (.f64 0) = [0x30] ∧ printNum cfg (.f64 (2 ^ 63)) = [0x30] ∧
    printNum cfg (.f32 0) = [0x30] ∧ printNum cfg (.f32 (2 ^ 31)) = [0x30] := by
  refine ⟨?_, ?_, ?_, ?_⟩
  · show writeFloat cfg 0 9 = _
    rw [writeFloat_cfg_irrelevant cfg _ _ (by decide +kernel) (by decide +kernel)]; decide +kernel
  · show writeFloat cfg (2 ^ 63) 9 = _
    rw [writeFloat_cfg_irrelevant cfg _ _ (by decide +kernel) (by decide +kernel)]; decide +kernel
  · show writeFloat cfg (cvt b32 b64 0) 6 = _
    rw [writeFloat_cfg_irrelevant cfg _ _ (by decide +kernel) (by decide +kernel)]; decide +kernel
  · show writeFloat cfg (cvt b32 b64 (2 ^ 31)) 6 = _
    rw [writeFloat_cfg_irrelevant cfg _ _ (by decide +kernel) (by decide +kernel)]; decide +kernel

/-- outside the finite values: NaN and the infinities print as "null" unless the configuration enables the non-standard
    literals (then "NaN", "Infinity", "-Infinity"); no digits are produced -/
theorem print_nonfinite (cfg : Cfg) (b : Nat) (h : decode b64 b = .nan ∨ ∃ n, decode b64 b = .inf n) :
    printNum cfg (.f64 b) =
      if decode b64 b = .nan then (if cfg.nan then [0x4E,0x61,0x4E] else [0x6E,0x75,0x6C,0x6C])
      else if cfg.inf then (if SF.lt b64 b 0 then [0x2D,0x49,0x6E,0x66,0x69,0x6E,0x69,0x74,0x79] else [0x49,0x6E,0x66,0x69,0x6E,0x69,0x74,0x79])
      else [0x6E,0x75,0x6C,0x6C] := by
  have k1 : "NaN".toUTF8.toList = [0x4E,0x61,0x4E] := by decide +kernel
  have k2 : "null".toUTF8.toList = [0x6E,0x75,0x6C,0x6C] := by decide +kernel
  have k3 : "-Infinity".toUTF8.toList = [0x2D,0x49,0x6E,0x66,0x69,0x6E,0x69,0x74,0x79] := by decide +kernel
  have k4 : "Infinity".toUTF8.toList = [0x49,0x6E,0x66,0x69,0x6E,0x69,0x74,0x79] := by decide +kernel
  show writeFloat cfg b 9 = _
  rcases h with h | ⟨n, h⟩
  · have : isNaN b64 b = true := by unfold isNaN; rw [h]; rfl
    simp only [writeFloat, this, if_true, h]
    cases cfg.nan
    · simp only [Bool.false_eq_true, if_false]; exact k2
    · simp only [if_true]; exact k1
  · have h1 : isNaN b64 b = false := by unfold isNaN; rw [h]; rfl
    have h2 : isInf b64 b = true := by unfold isInf; rw [h]
    simp only [writeFloat, h1, h2, if_true, h, Bool.false_eq_true, if_false]
    have hne : ¬ (FP.inf n = FP.nan) := by intro hc; cases hc
    simp only [hne, if_false]
    cases cfg.inf
    · simp only [Bool.false_eq_true, if_false]; exact k2
    · cases SF.lt b64 b 0
      · simp only [if_true, Bool.false_eq_true, if_false]; exact k4
      · simp only [if_true]; exact k3

/-! ## 4. the parser on literals with `1e-325 ≤ |v| < 1e-300` (results subnormal or nearly so) -/

theorem big_num_11 : (2 : ℚ) ^ (-1000 : Int) ≤ (10 : ℚ) ^ (-325 : Int) / 2 * (10 : ℚ) ^ (256 : Int) := by
  have e1 : (10 : ℚ) ^ (-325 : Int) / 2 * (10 : ℚ) ^ (256 : Int) = (10 : ℚ) ^ (-69 : Int) / 2 := by
    rw [div_mul_eq_mul_div, ← zpow_add₀ (by norm_num : (10 : ℚ) ≠ 0)]; norm_num
  rw [e1]
  calc (2 : ℚ) ^ (-1000 : Int) ≤ (2 : ℚ) ^ (-240 : Int) := zpow_le_zpow_right₀ (by norm_num) (by norm_num)
    _ ≤ (10 : ℚ) ^ (-69 : Int) / 2 := by norm_num [zpow_neg]

theorem big_num_12 : (2 : ℚ) ^ 52 * (10 : ℚ) ^ (-326 : Int) < (10 : ℚ) ^ (-310 : Int) := by
  have h : (2 : ℚ) ^ 52 < (10 : ℚ) ^ (16 : Int) := by norm_num
  have hp := ten_zpow_pos (-326)
  calc (2 : ℚ) ^ 52 * (10 : ℚ) ^ (-326 : Int) < (10 : ℚ) ^ (16 : Int) * (10 : ℚ) ^ (-326 : Int) :=
        mul_lt_mul_of_pos_right h hp
    _ = (10 : ℚ) ^ (-310 : Int) := by rw [← zpow_add₀ (by norm_num : (10 : ℚ) ≠ 0)]; norm_num

/-- THE SUBNORMAL BAND. For every literal `-? ip f e` with `1e-325 ≤ |v| < 1e-300` (at most 99000 digits):
    * either the range test on the DECIMAL EXPONENT flushes it to the zero of its sign (stored as a float) — this happens only
      when the scanned exponent is below `-325`, hence only for `|v| < 2^52·1e-326 < 1e-310`;
    * or the result is a binary64 datum of the sign of the literal (zero, subnormal or normal) with
      `|r − v| ≤ 2^-1075 + 1e-13·|v|` (half a unit of the smallest subnormal, plus the relative error of the normal range), and,
      when it is not zero, `|r| ≤ (2 + 1e-12)·|v|`: never a wrong magnitude upwards. -/
theorem parse_subnormal_band (cfg : Cfg) (neg : Bool) {ip f e : List Byte} (hip : AllDigits ip) (hne : ip ≠ [])
    (hf : FracPart f) (he : ExpPart e) (hD : ip.length + f.tail.length ≤ 99000)
    (hlo : (10 : ℚ) ^ (-325 : Int) ≤ litAbs ip f e) (hhi : litAbs ip f e < (10 : ℚ) ^ (-300 : Int)) :
    let lit := (if neg then [0x2D] else []) ++ ip ++ f ++ e
    (parseNumber cfg lit = .f32 (negBits b32 neg 0) ∧ decode b32 (negBits b32 neg 0) = .fin neg 0 (-149) ∧
      litAbs ip f e < (10 : ℚ) ^ (-310 : Int)) ∨
    ∃ (bits m : Nat) (ex : Int), parseNumber cfg lit = .f64 bits ∧ decode b64 bits = .fin neg m ex ∧
      |sval neg m ex - litVal neg ip f e| ≤ (2 : ℚ) ^ (-1075 : Int) + 1 / 10 ^ 13 * |litVal neg ip f e| ∧
      (m ≠ 0 → |sval neg m ex| ≤ (2 + 1 / 10 ^ 12) * |litVal neg ip f e|) := by
  intro lit
  have hpos : 0 < litAbs ip f e := lt_of_lt_of_le (ten_zpow_pos _) hlo
  -- the written exponent is not saturated
  have hx : (expVal e).natAbs < 100000 := by
    by_contra hc
    obtain ⟨hsatHi, hsatLo⟩ := saturated_exponent cfg neg hip hne hf he hD
    rcases Int.le_total 0 (expVal e) with hs | hs
    · have hN : Digits.decVal (ip ++ f.tail) ≠ 0 := by
        intro h0; unfold litAbs at hpos; rw [h0] at hpos; simp at hpos
      have := (hsatHi (by omega) hN).2
      have h2 : (10 : ℚ) ^ (-300 : Int) < (10 : ℚ) ^ (1000 : Int) := zpow_lt_zpow_right₀ (by norm_num) (by norm_num)
      exact absurd (lt_trans (lt_of_le_of_lt this hhi) h2) (lt_irrefl _)
    · have := (hsatLo (by omega)).2
      have h2 : (10 : ℚ) ^ (-1000 : Int) < (10 : ℚ) ^ (-325 : Int) := zpow_lt_zpow_right₀ (by norm_num) (by norm_num)
      exact absurd (lt_trans (lt_of_le_of_lt hlo this) h2) (lt_irrefl _)
  rcases scan_error cfg neg hip hne hf he hx with ⟨h1, h2, _⟩ | ⟨mant, E, h1, h2, h3, h4, _, h6⟩
  · -- an integer literal has an integer value
    exfalso
    have hN : litAbs ip f e = (Digits.decVal ip : ℚ) := by unfold litAbs; rw [h1, h2]; simp [expVal]
    have h300 : (10 : ℚ) ^ (-300 : Int) ≤ 1 := zpow_le_one_of_nonpos₀ (by norm_num) (by norm_num)
    rw [hN] at hpos hhi
    have h0 : (Digits.decVal ip : ℚ) < 1 := lt_of_lt_of_le hhi h300
    have : Digits.decVal ip < 1 := by exact_mod_cast h0
    have : Digits.decVal ip = 0 := by omega
    rw [this] at hpos; simp at hpos
  · obtain ⟨hm0, hcl⟩ := h6 hpos
    have hlt : mant < 2 ^ 53 := by omega
    have hmq : (1 : ℚ) ≤ (mant : ℚ) := by exact_mod_cast Nat.pos_of_ne_zero hm0
    have hEp := ten_zpow_pos E
    -- E < -300
    have hE300 : E < -300 := by
      by_contra hc
      have h5 : (10 : ℚ) ^ (-300 : Int) ≤ (10 : ℚ) ^ E := zpow_le_zpow_right₀ (by norm_num) (by omega)
      have h7 : (10 : ℚ) ^ E ≤ (mant : ℚ) * (10 : ℚ) ^ E := le_mul_of_one_le_left hEp.le hmq
      exact absurd (lt_of_le_of_lt (le_trans h5 (le_trans h7 h3)) hhi) (lt_irrefl _)
    show (parseNumber cfg lit = _ ∧ _ ∧ _) ∨ ∃ bits m ex, parseNumber cfg lit = _ ∧ _
    rw [h1]
    by_cases hE : E < -325
    · left
      refine ⟨finish_tiny neg mant E hm0 hE, zero32_decode neg, ?_⟩
      have h5 : (10 : ℚ) ^ E ≤ (10 : ℚ) ^ (-326 : Int) := zpow_le_zpow_right₀ (by norm_num) (by omega)
      have h7 : (mant : ℚ) + 1 ≤ 2 ^ 52 := by
        have : mant + 1 ≤ 2 ^ 52 := by omega
        exact_mod_cast this
      have h8 : ((mant : ℚ) + 1) * (10 : ℚ) ^ E ≤ 2 ^ 52 * (10 : ℚ) ^ (-326 : Int) :=
        mul_le_mul h7 h5 hEp.le (by positivity)
      exact lt_trans (lt_of_lt_of_le h4 h8) big_num_12
    · right
      have hge := hcl.ge
      have hMv : litAbs ip f e / 2 ≤ (mant : ℚ) * (10 : ℚ) ^ E := by
        have : (1 / 2 : ℚ) ≤ 1 - 1 / 450359962737049 := by norm_num
        nlinarith
      have hlo' : (2 : ℚ) ^ (-1000 : Int) ≤ (mant : ℚ) * (10 : ℚ) ^ (E + 256) := by
        rw [zpow_add₀ (by norm_num : (10 : ℚ) ≠ 0), ← mul_assoc]
        have h256 := ten_zpow_pos 256
        have h9 : (10 : ℚ) ^ (-325 : Int) / 2 * (10 : ℚ) ^ (256 : Int) ≤ (mant : ℚ) * (10 : ℚ) ^ E * (10 : ℚ) ^ (256 : Int) :=
          mul_le_mul_of_nonneg_right (le_trans (div_le_div_of_nonneg_right hlo (by norm_num)) hMv) h256.le
        exact le_trans big_num_11 h9
      obtain ⟨bits, m, ex, hfin, hdec, hc⟩ := finish_band neg mant E hm0 hlt (by omega) (by omega) hlo'
      refine ⟨bits, m, ex, hfin, hdec, ?_⟩
      rw [abs_sval_sub, abs_litVal neg ip f e hpos.le, abs_sval]
      unfold Close at hcl
      have hW := two_zpow_pos (-1075)
      have hbot : m ≠ 0 → 2 * (2 : ℚ) ^ (-1075 : Int) ≤ qv m ex := by
        intro hm
        have := fin_ge_bot b64 bits neg m ex hdec hm
        rw [show emin b64 = -1075 + 1 from by decide, zpow_add₀ (by norm_num : (2 : ℚ) ≠ 0)] at this
        simpa [mul_comm] using this
      clear hlo' hlo hhi
      generalize (2 : ℚ) ^ (-1075 : Int) = W at *
      generalize (mant : ℚ) * (10 : ℚ) ^ E = M at *
      generalize litAbs ip f e = V at *
      generalize qv m ex = R at *
      have hRV : |R - V| ≤ W + 1 / 10 ^ 13 * V := by
        have h10 : |R - V| ≤ |R - M| + |M - V| := by
          have : R - V = (R - M) + (M - V) := by ring
          rw [this]; exact abs_add_le _ _
        have h11 : (25 / 2 ^ 53 : ℚ) * M ≤ 25 / 2 ^ 53 * V := mul_le_mul_of_nonneg_left h3 (by norm_num)
        have h12 : (25 / 2 ^ 53 : ℚ) * V + 1 / 450359962737049 * V ≤ 1 / 10 ^ 13 * V := by
          have : (25 / 2 ^ 53 : ℚ) + 1 / 450359962737049 ≤ 1 / 10 ^ 13 := by norm_num
          nlinarith
        linarith
      refine ⟨hRV, ?_⟩
      intro hm
      have hb := hbot hm
      have := (abs_le.mp hRV).2
      linarith

/-! ## non-vacuity: texts and errors by evaluation -/

theorem textVal_of_parts {s : List Byte} {neg : Bool} {ip f e : List Byte} (h : textParts s = (neg, ip, f, e)) :
    textVal s = litVal neg ip f e := by
  unfold textVal; rw [h]

-- 0.1f = 13421773·2^-27 prints as "0.1": the exact error is 1/671088640 ≈ 1.49e-9 ≤ 1e-6
example : printNum {} (.f32 0x3DCCCCCD) = [0x30,0x2E,0x31] := by decide +kernel
example : textVal [0x30,0x2E,0x31] = 1 / 10 ∧ sval false 13421773 (-27) - textVal [0x30,0x2E,0x31] = 1 / 671088640 := by
  have h : textVal [0x30,0x2E,0x31] = 1 / 10 := by
    rw [textVal_of_parts (show textParts [0x30,0x2E,0x31] = (false, [0x30], [0x2E,0x31], []) from by decide +kernel)]
    unfold litVal litAbs
    rw [show Digits.decVal ([0x30] ++ ([0x2E,0x31] : List Byte).tail) = 1 from by decide +kernel,
      show expVal [] - ((([0x2E,0x31] : List Byte).tail.length : Nat) : Int) = -1 from by decide +kernel]
    norm_num
  refine ⟨h, ?_⟩
  rw [h]; unfold sval qv; norm_num [zpow_neg]
example : |textVal [0x30,0x2E,0x31] - sval false 13421773 (-27)| ≤ 1 / 10 ^ 6 * max 1 |sval false 13421773 (-27)| := by
  have hv : qv 13421773 (-27) = 13421773 / 134217728 := by unfold qv; norm_num [zpow_neg]
  have := print_float_error {} 0x3DCCCCCD false 13421773 (-27) (by decide +kernel)
    (by rw [abs_sval, hv]
        calc (10 : ℚ) ^ (-300 : Int) ≤ (10 : ℚ) ^ (-2 : Int) := zpow_le_zpow_right₀ (by norm_num) (by norm_num)
          _ ≤ _ := by norm_num)
    (by rw [abs_sval, hv]
        calc (13421773 / 134217728 : ℚ) ≤ (10 : ℚ) ^ (0 : Int) := by norm_num
          _ ≤ (10 : ℚ) ^ (300 : Int) := zpow_le_zpow_right₀ (by norm_num) (by norm_num))
  rwa [show printNum {} (.f32 0x3DCCCCCD) = [0x30,0x2E,0x31] from by decide +kernel] at this

-- the threshold of the exponent notation: 1.0e7 prints as "1e7", 9999999.5 as "9999999.5" (both exact)
example : printNum {} (.f64 0x416312D000000000) = [0x31,0x65,0x37] := by decide +kernel
example : printNum {} (.f64 4711630319453732864) = [0x39,0x39,0x39,0x39,0x39,0x39,0x39,0x2E,0x35] := by decide +kernel
example : |textVal [0x39,0x39,0x39,0x39,0x39,0x39,0x39,0x2E,0x35] - sval false 5368708851564544 (-29)| ≤
    1 / 10 ^ 9 * max 1 |sval false 5368708851564544 (-29)| := by
  have hv : qv 5368708851564544 (-29) = 19999999 / 2 := by unfold qv; norm_num [zpow_neg]
  have := print_double_error {} 4711630319453732864 false 5368708851564544 (-29) (by decide +kernel)
    (by rw [abs_sval, hv]
        calc (10 : ℚ) ^ (-300 : Int) ≤ (10 : ℚ) ^ (0 : Int) := zpow_le_zpow_right₀ (by norm_num) (by norm_num)
          _ ≤ _ := by norm_num)
    (by rw [abs_sval, hv]
        calc (19999999 / 2 : ℚ) ≤ (10 : ℚ) ^ (7 : Int) := by norm_num
          _ ≤ (10 : ℚ) ^ (300 : Int) := zpow_le_zpow_right₀ (by norm_num) (by norm_num))
  rwa [show printNum {} (.f64 4711630319453732864) = [0x39,0x39,0x39,0x39,0x39,0x39,0x39,0x2E,0x35] from by decide +kernel] at this

-- the neighbours of the other threshold: 1e-5 prints as "1e-5", the next double up as "0.00001" (absolute error bound applies),
-- the next double down as "10e-6" (the last multiplication of `normalize` rounds 9.999…98 up to 10)
example : printNum {} (.f64 4532020583610935537) = [0x31,0x65,0x2D,0x35] := by decide +kernel
example : printNum {} (.f64 4532020583610935538) = [0x30,0x2E,0x30,0x30,0x30,0x30,0x31] := by decide +kernel
example : printNum {} (.f64 4532020583610935536) = [0x31,0x30,0x65,0x2D,0x36] := by decide +kernel
example : |textVal [0x31,0x30,0x65,0x2D,0x36] - sval false 5902958103587056 (-69)| ≤
    51 / 100 * (1 / 10 ^ 9) * max 1 |sval false 5902958103587056 (-69)| := by
  have := print_double_close {} 4532020583610935536 false 5902958103587056 (-69) (by decide +kernel) (by decide)
  rwa [show printNum {} (.f64 4532020583610935536) = [0x31,0x30,0x65,0x2D,0x36] from by decide +kernel] at this

-- 3.14159265358979 prints as "3.141592654"
example : printNum {} (.f64 4614256656552045841) = [0x33,0x2E,0x31,0x34,0x31,0x35,0x39,0x32,0x36,0x35,0x34] := by decide +kernel
example : |textVal [0x33,0x2E,0x31,0x34,0x31,0x35,0x39,0x32,0x36,0x35,0x34] - sval false 7074237752028433 (-51)| ≤
    51 / 100 * (1 / 10 ^ 9) * max 1 |sval false 7074237752028433 (-51)| := by
  have := print_double_close {} 4614256656552045841 false 7074237752028433 (-51) (by decide +kernel) (by decide)
  rwa [show printNum {} (.f64 4614256656552045841) = [0x33,0x2E,0x31,0x34,0x31,0x35,0x39,0x32,0x36,0x35,0x34] from by decide +kernel] at this

-- the doubles nearest to 1e300 and 1e-300 print as "1e300" and "1e-300"; the largest finite float as "3.402823e38";
-- the largest finite double as "1.797693135e308", the smallest subnormal as "4.940656458e-324" (outside the stated range, same bound)
example : printNum {} (.f64 9094988921128908188) = [0x31,0x65,0x33,0x30,0x30] := by decide +kernel
example : printNum {} (.f64 118622047889322841) = [0x31,0x65,0x2D,0x33,0x30,0x30] := by decide +kernel
example : printNum {} (.f32 0x7F7FFFFF) = [0x33,0x2E,0x34,0x30,0x32,0x38,0x32,0x33,0x65,0x33,0x38] := by decide +kernel
example : printNum {} (.f64 0x7FEFFFFFFFFFFFFF) =
    [0x31,0x2E,0x37,0x39,0x37,0x36,0x39,0x33,0x31,0x33,0x35,0x65,0x33,0x30,0x38] := by decide +kernel
example : printNum {} (.f64 1) = [0x34,0x2E,0x39,0x34,0x30,0x36,0x35,0x36,0x34,0x35,0x38,0x65,0x2D,0x33,0x32,0x34] := by decide +kernel
example : |textVal [0x31,0x65,0x33,0x30,0x30] - sval false 6724873095247260 944| ≤
    51 / 100 * (1 / 10 ^ 9) * max 1 |sval false 6724873095247260 944| := by
  have := print_double_close {} 9094988921128908188 false 6724873095247260 944 (by decide +kernel) (by decide)
  rwa [show printNum {} (.f64 9094988921128908188) = [0x31,0x65,0x33,0x30,0x30] from by decide +kernel] at this
example : |textVal [0x31,0x65,0x2D,0x33,0x30,0x30] - sval false 6032057205060441 (-1049)| ≤
    51 / 100 * (1 / 10 ^ 9) * max 1 |sval false 6032057205060441 (-1049)| := by
  have := print_double_close {} 118622047889322841 false 6032057205060441 (-1049) (by decide +kernel) (by decide)
  rwa [show printNum {} (.f64 118622047889322841) = [0x31,0x65,0x2D,0x33,0x30,0x30] from by decide +kernel] at this
example : |textVal [0x33,0x2E,0x34,0x30,0x32,0x38,0x32,0x33,0x65,0x33,0x38] - sval false 16777215 104| ≤
    51 / 100 * (1 / 10 ^ 6) * max 1 |sval false 16777215 104| := by
  have := print_float_close {} 0x7F7FFFFF false 16777215 104 (by decide +kernel) (by decide)
  rwa [show printNum {} (.f32 0x7F7FFFFF) = [0x33,0x2E,0x34,0x30,0x32,0x38,0x32,0x33,0x65,0x33,0x38] from by decide +kernel] at this

-- the subnormal band of the parser: "5e-324" is the smallest subnormal, "2e-324" the double zero, "1e-310" a subnormal;
-- "4503599627370495e-326" = 4.5e-311 is flushed to the float zero by the test on the decimal exponent (-326 < -325)
example : parseNumber {} [0x35,0x65,0x2D,0x33,0x32,0x34] = .f64 1 := by decide +kernel
example : parseNumber {} [0x32,0x65,0x2D,0x33,0x32,0x34] = .f64 0 := by decide +kernel
example : parseNumber {} [0x31,0x65,0x2D,0x33,0x31,0x30] = .f64 20240225330731 := by decide +kernel
example : parseNumber {} [0x34,0x35,0x30,0x33,0x35,0x39,0x39,0x36,0x32,0x37,0x33,0x37,0x30,0x34,0x39,0x35,0x65,0x2D,0x33,0x32,0x36]
    = .f32 0 := by decide +kernel

private theorem exp_m310 : ExpPart [0x65,0x2D,0x33,0x31,0x30] :=
  Or.inr ⟨0x65, [0x2D], [0x33,0x31,0x30], Or.inl rfl, Or.inr (Or.inr rfl), ⟨by decide, by decide⟩, rfl⟩

/-- `parse_subnormal_band` on "1e-310": the result 20240225330731·2^-1074 is within `2^-1075 + 1e-13·v` of `v = 1e-310` -/
example : |sval false 20240225330731 (-1074) - (10 : ℚ) ^ (-310 : Int)| ≤
    (2 : ℚ) ^ (-1075 : Int) + 1 / 10 ^ 13 * |(10 : ℚ) ^ (-310 : Int)| := by
  have hv : litAbs [0x31] [] [0x65,0x2D,0x33,0x31,0x30] = (10 : ℚ) ^ (-310 : Int) := by
    unfold litAbs
    rw [show Digits.decVal ([0x31] ++ ([] : List Byte).tail) = 1 from by decide +kernel,
      show expVal [0x65,0x2D,0x33,0x31,0x30] - ((([] : List Byte).tail.length : Nat) : Int) = -310 from by decide +kernel]
    simp
  have hlv : litVal false [0x31] [] [0x65,0x2D,0x33,0x31,0x30] = (10 : ℚ) ^ (-310 : Int) := by unfold litVal; rw [hv]; simp
  have hp : parseNumber {} ((if false then [0x2D] else []) ++ [0x31] ++ [] ++ [0x65,0x2D,0x33,0x31,0x30]) = .f64 20240225330731 := by
    decide +kernel
  rcases parse_subnormal_band {} false (ip := [0x31]) (f := []) (e := [0x65,0x2D,0x33,0x31,0x30])
    (by unfold AllDigits; decide) (by simp) (Or.inl rfl) exp_m310 (by decide)
    (by rw [hv]; exact zpow_le_zpow_right₀ (by norm_num) (by norm_num))
    (by rw [hv]; exact zpow_lt_zpow_right₀ (by norm_num) (by norm_num)) with ⟨h, _⟩ | ⟨bits, m, ex, h1, h2, h3, _⟩
  · rw [hp] at h; cases h
  · rw [hp] at h1; cases h1
    have hd : decode b64 20240225330731 = .fin false 20240225330731 (-1074) := by decide +kernel
    rw [hd] at h2; cases h2
    rw [hlv] at h3; exact h3

end C12
