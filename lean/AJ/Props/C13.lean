/- C13 — numeric conversions `as<T>()` / `is<T>()` of a stored number.
   Property theorems only; helper lemmas live in AJ/Lemmas/ConvLemmas.lean. -/
import AJ.Model.Conv
import AJ.Lemmas.ConvLemmas
namespace C13
open Conv SF

/-! ## 1. integer-stored numbers: exact -/

/-- `as<T>()` of an integer-stored number: the value itself when it fits `T`, otherwise 0; never undefined, never wrapped -/
theorem int_as (s : Src) (t : IT) (z : Int) (hs : s.WF) (ht : t ∈ allIT) (hz : s.ival = some z) :
    convInt s t = some (if t.min ≤ z ∧ z ≤ t.max then z else 0) := by
  have hc := canConvInt_int s t z hs ht hz
  unfold convInt
  by_cases hr : t.min ≤ z ∧ z ≤ t.max
  · rw [if_pos (hc.2 hr), if_pos hr]; exact castInt_int s t z ht hz hr
  · rw [if_neg (fun h => hr (hc.1 h)), if_neg hr]

/-- `is<T>()` of an integer-stored number holds exactly when the value fits `T` -/
theorem int_is (s : Src) (t : IT) (z : Int) (hs : s.WF) (ht : t ∈ allIT) (hz : s.ival = some z) :
    isInt s t = true ↔ t.min ≤ z ∧ z ≤ t.max := by
  have hc := canConvInt_int s t z hs ht hz
  cases s <;> simp only [isInt] <;> first | exact hc | simp [Src.ival] at hz

/-- `is<T>()` is false for every float-stored number -/
theorem float_is (b : Nat) (t : IT) : isInt (.f32 b) t = false ∧ isInt (.f64 b) t = false := ⟨rfl, rfl⟩

/-- when `is<T>()` holds, `as<T>()` is the stored value and every wider `U` gives the same result -/
theorem is_then_as (s : Src) (t : IT) (z : Int) (hs : s.WF) (ht : t ∈ allIT) (hz : s.ival = some z)
    (h : isInt s t = true) :
    convInt s t = some z ∧ ∀ u ∈ allIT, (t.min ≥ u.min ∧ t.max ≤ u.max) → convInt s u = some z := by
  have hr := (int_is s t z hs ht hz).1 h
  refine ⟨by rw [int_as s t z hs ht hz, if_pos hr], ?_⟩
  intro u hu hw
  have hr' : u.min ≤ z ∧ z ≤ u.max := ⟨by omega, by omega⟩
  rw [int_as s u z hs hu hz, if_pos hr']

/-- `is<T>()` can only hold for an integer-stored number (so the hypothesis `ival = some z` above is not a restriction) -/
theorem is_imp_int (s : Src) (t : IT) (h : isInt s t = true) : ∃ z, s.ival = some z := by
  cases s <;> simp [isInt, Src.ival] at h ⊢

example : convInt (.u 64 18446744073709551615) i64 = some 0 := by decide +kernel
example : convInt (.i 64 (-9223372036854775808)) i64 = some (-9223372036854775808) := by decide +kernel
example : convInt (.i 32 (-1)) u64 = some 0 := by decide +kernel
example : convInt (.u 32 255) u8 = some 255 ∧ convInt (.u 32 256) u8 = some 0 ∧ convInt (.u 32 128) i8 = some 0 := by decide +kernel
example : isInt (.u 32 127) i8 = true ∧ isInt (.u 32 128) i8 = false := by decide +kernel

/-! ## 2. float-stored numbers

   The exact value of a finite datum `decode f b = .fin n m e` is the dyadic `sgnm n m · 2^e`.
   `SF.DyLe s1 e1 s2 e2` is the exact comparison `s1·2^e1 ≤ s2·2^e2`, cross-multiplied to the common exponent
   `min e1 e2` (integers only); an integer `z` is the dyadic `(z, 0)`.  `Conv.inRange t x` says that `x` is finite and
   `t.min ≤ value x ≤ t.max`;  `Conv.truncFP x` is the truncation toward zero of the exact value. -/

/-- `DyLe` against an integer, spelled out: `z ≤ s·2^e ⇔ z·2^(-e)⁺ ≤ s·2^e⁺` (one of the two powers is 1) -/
theorem dyLe_int (z s e : Int) :
    (DyLe z 0 s e ↔ z * 2 ^ (-e).toNat ≤ s * 2 ^ e.toNat) ∧ (DyLe s e z 0 ↔ s * 2 ^ e.toNat ≤ z * 2 ^ (-e).toNat) :=
  ⟨DyLe_int_left z s e, DyLe_int_right z s e⟩

/-- exact value of a finite datum as a rational number -/
def ratVal (n : Bool) (m : Nat) (e : Int) : Rat := (sgnm n m : Rat) * (2 : Rat) ^ e

/-- `DyLe` / `DyLt` ARE the order of the rationals `s·2^e` (so every statement below phrased with `DyLe` is a statement about
    the exact real values); `sv E s e` is the value scaled by `2^(-E)` -/
theorem dyLe_is_rat_order (s1 e1 s2 e2 : Int) :
    (DyLe s1 e1 s2 e2 ↔ (s1 : Rat) * (2 : Rat) ^ e1 ≤ (s2 : Rat) * (2 : Rat) ^ e2) ∧
    (DyLt s1 e1 s2 e2 ↔ (s1 : Rat) * (2 : Rat) ^ e1 < (s2 : Rat) * (2 : Rat) ^ e2) :=
  ⟨DyLe_iff_rat s1 e1 s2 e2, DyLt_iff_rat s1 e1 s2 e2⟩

theorem sv_is_scaled_value (s e E : Int) (h : E ≤ e) : (s : Rat) * (2 : Rat) ^ e = ((sv E s e : Int) : Rat) * (2 : Rat) ^ E :=
  rat_val_eq s e E h

/-- `inRange` in terms of rationals: finite and `T::min ≤ value ≤ T::max` -/
theorem inRange_iff_rat (t : IT) (n : Bool) (m : Nat) (e : Int) :
    inRange t (.fin n m e) ↔ (t.min : Rat) ≤ ratVal n m e ∧ ratVal n m e ≤ (t.max : Rat) := by
  have h1 := DyLe_iff_rat t.min 0 (sgnm n m) e
  have h2 := DyLe_iff_rat (sgnm n m) e t.max 0
  rw [Rat.zpow_zero, Rat.mul_one] at h1 h2
  show DyLe t.min 0 (sgnm n m) e ∧ DyLe (sgnm n m) e t.max 0 ↔ _
  unfold ratVal
  rw [h1, h2]

/-- the softfloat comparisons on finite data are the comparisons of the exact dyadic values -/
theorem le_iff_value_le (f : Fmt) (a b : Nat) (na nb : Bool) (ma mb : Nat) (ea eb : Int)
    (ha : decode f a = .fin na ma ea) (hb : decode f b = .fin nb mb eb) :
    (SF.le f a b = true ↔ DyLe (sgnm na ma) ea (sgnm nb mb) eb) ∧
    (SF.ge f a b = true ↔ DyLe (sgnm nb mb) eb (sgnm na ma) ea) ∧
    (SF.lt f a b = true ↔ DyLt (sgnm na ma) ea (sgnm nb mb) eb) :=
  ⟨le_fin f a b na nb ma mb ea eb ha hb, le_fin f b a nb na mb ma eb ea hb ha, lt_fin f a b na nb ma mb ea eb ha hb⟩

/-- (a) a datum that passes a two-sided comparison against finite constants is finite, and lies between them exactly -/
theorem range_test_finite (f : Fmt) (b c X : Nat) (nc nx : Bool) (mc mx : Nat) (ec ex : Int)
    (hc : decode f c = .fin nc mc ec) (hx : decode f X = .fin nx mx ex) :
    (SF.ge f b c && SF.le f b X) = true ↔
      ∃ n m e, decode f b = .fin n m e ∧ DyLe (sgnm nc mc) ec (sgnm n m) e ∧ DyLe (sgnm n m) e (sgnm nx mx) ex :=
  range_iff f b c X nc nx mc mx ec ex hc hx

/-- `c` is finite with exact value `z` -/
def ExactInt (f : Fmt) (c : Nat) (z : Int) : Prop :=
  ∃ n m e, decode f c = .fin n m e ∧ DyLe (sgnm n m) e z 0 ∧ DyLe z 0 (sgnm n m) e

/-- `X` is the LARGEST datum of format `f` whose exact value is `≤ z` -/
def HighestFor (f : Fmt) (X : Nat) (z : Int) : Prop :=
  ∃ n m e, decode f X = .fin n m e ∧ DyLe (sgnm n m) e z 0 ∧
    ∀ b n' m' e', decode f b = .fin n' m' e' → DyLe (sgnm n' m') e' z 0 → DyLe (sgnm n' m') e' (sgnm n m) e

theorem dyLe_refl (s e : Int) : DyLe s e s e := Int.le_refl _

theorem exactInt_of_ok (f : Fmt) (c : Nat) (z : Int) (h0 : emin f ≤ 0) (h : exactOK f c z = true) : ExactInt f c z := by
  obtain ⟨n, m, e, hd, H⟩ := exactOK_spec f c z h h0
  have hb := decode_fin_bounds f c n m e hd
  exact ⟨n, m, e, hd, (H _ _ hb.1).2.1 (dyLe_refl _ _), (H _ _ hb.1).1.1 (dyLe_refl _ _)⟩

theorem highestFor_of_ok (f : Fmt) (X : Nat) (z : Int) (h0 : emin f ≤ 0) (h : upperOK f X z = true) : HighestFor f X z := by
  obtain ⟨n, m, e, hd, H⟩ := upperOK_spec f X z h h0
  have hb := decode_fin_bounds f X n m e hd
  refine ⟨n, m, e, hd, (H n m e hb.1 hb.2).1 (dyLe_refl _ _), ?_⟩
  intro b n' m' e' hd' hle
  have hb' := decode_fin_bounds f b n' m' e' hd'
  exact (H n' m' e' hb'.1 hb'.2).2 hle

/-- (c) the lower constant `TIn(numeric_limits<TOut>::lowest())` is exact for every target and both formats;
    the upper constant `TIn(numeric_limits<TOut>::highest())` is exact for the narrow targets -/
theorem const_exact :
    (∀ t ∈ allIT, ExactInt b32 (ofInt b32 t.min) t.min ∧ ExactInt b64 (ofInt b64 t.min) t.min) ∧
    (∀ t ∈ allIT, t.bits < 32 → ExactInt b32 (ofInt b32 t.max) t.max) ∧
    (∀ t ∈ allIT, t.bits < 64 → ExactInt b64 (ofInt b64 t.max) t.max) := by
  refine ⟨fun t ht => ⟨exactInt_of_ok _ _ _ (by decide) (consts32 t ht).1, exactInt_of_ok _ _ _ (by decide) (consts64 t ht).1⟩, ?_, ?_⟩
  · have : ∀ t ∈ allIT, t.bits < 32 → exactOK b32 (ofInt b32 t.max) t.max = true := by decide +kernel
    exact fun t ht hb => exactInt_of_ok _ _ _ (by decide) (this t ht hb)
  · have : ∀ t ∈ allIT, t.bits < 64 → exactOK b64 (ofInt b64 t.max) t.max = true := by decide +kernel
    exact fun t ht hb => exactInt_of_ok _ _ _ (by decide) (this t ht hb)

/-- (c) the six generated `highest_for` constants: each is the largest datum of its format not above `T::max` -/
theorem highest_for_correct :
    HighestFor b32 Gen.hi32_i32 i32.max ∧ HighestFor b32 Gen.hi32_u32 u32.max ∧
    HighestFor b32 Gen.hi32_i64 i64.max ∧ HighestFor b32 Gen.hi32_u64 u64.max ∧
    HighestFor b64 Gen.hi64_i64 i64.max ∧ HighestFor b64 Gen.hi64_u64 u64.max := by
  refine ⟨?_, ?_, ?_, ?_, ?_, ?_⟩ <;> exact highestFor_of_ok _ _ _ (by decide) (by decide +kernel)

/-- the concrete data behind `highest_for_correct`: all-ones mantissas just below 2^31, 2^32, 2^63, 2^64 -/
theorem highest_for_values :
    decode b32 Gen.hi32_i32 = .fin false 0xFFFFFF 7 ∧ decode b32 Gen.hi32_u32 = .fin false 0xFFFFFF 8 ∧
    decode b32 Gen.hi32_i64 = .fin false 0xFFFFFF 39 ∧ decode b32 Gen.hi32_u64 = .fin false 0xFFFFFF 40 ∧
    decode b64 Gen.hi64_i64 = .fin false 0x1FFFFFFFFFFFFF 10 ∧ decode b64 Gen.hi64_u64 = .fin false 0x1FFFFFFFFFFFFF 11 := by
  decide +kernel

/-- the constants the model actually compares against are the generated ones -/
theorem highestFor_eq :
    highestFor b32 i32 = Gen.hi32_i32 ∧ highestFor b32 u32 = Gen.hi32_u32 ∧ highestFor b32 i64 = Gen.hi32_i64 ∧
    highestFor b32 u64 = Gen.hi32_u64 ∧ highestFor b64 i64 = Gen.hi64_i64 ∧ highestFor b64 u64 = Gen.hi64_u64 := by
  decide +kernel

/-- the range test of `convertNumber` on a float-stored number is exactly "finite and `T::min ≤ value ≤ T::max`" -/
theorem float_can (t : IT) (ht : t ∈ allIT) (b : Nat) :
    (canConvInt (.f32 b) t = true ↔ inRange t (decode b32 b)) ∧ (canConvInt (.f64 b) t = true ↔ inRange t (decode b64 b)) :=
  ⟨canConv_f32_iff b t ht, canConv_f64_iff b t ht⟩

/-- `as<T>()` of a float-stored number: the exact value truncated toward zero when it lies within `[T::min, T::max]`,
    0 otherwise (NaN, ±inf, out of range); never undefined behaviour -/
theorem float_as (t : IT) (ht : t ∈ allIT) (b : Nat) :
    convInt (.f32 b) t = some (if inRange t (decode b32 b) then truncFP (decode b32 b) else 0) ∧
    convInt (.f64 b) t = some (if inRange t (decode b64 b) then truncFP (decode b64 b) else 0) :=
  ⟨convInt_f32 b t ht, convInt_f64 b t ht⟩

/-- `float_as` with the range condition stated on rationals -/
theorem float_as_rat (t : IT) (ht : t ∈ allIT) (b : Nat) :
    (∀ n m e, decode b32 b = .fin n m e → convInt (.f32 b) t =
      some (if (t.min : Rat) ≤ ratVal n m e ∧ ratVal n m e ≤ (t.max : Rat) then truncFP (.fin n m e) else 0)) ∧
    ((∀ n m e, decode b32 b ≠ .fin n m e) → convInt (.f32 b) t = some 0) ∧
    (∀ n m e, decode b64 b = .fin n m e → convInt (.f64 b) t =
      some (if (t.min : Rat) ≤ ratVal n m e ∧ ratVal n m e ≤ (t.max : Rat) then truncFP (.fin n m e) else 0)) ∧
    ((∀ n m e, decode b64 b ≠ .fin n m e) → convInt (.f64 b) t = some 0) := by
  have key : ∀ n m e, (if inRange t (.fin n m e) then truncFP (.fin n m e) else (0 : Int)) =
      (if (t.min : Rat) ≤ ratVal n m e ∧ ratVal n m e ≤ (t.max : Rat) then truncFP (.fin n m e) else 0) := by
    intro n m e
    by_cases hr : inRange t (.fin n m e)
    · rw [if_pos hr, if_pos ((inRange_iff_rat t n m e).1 hr)]
    · rw [if_neg hr, if_neg (fun h => hr ((inRange_iff_rat t n m e).2 h))]
  have nonfin : ∀ x : FP, (∀ n m e, x ≠ .fin n m e) → ¬ inRange t x := by
    intro x hx; cases x with
    | nan => exact id
    | inf n => exact id
    | fin n m e => exact absurd rfl (hx n m e)
  refine ⟨?_, ?_, ?_, ?_⟩
  · intro n m e h; rw [(float_as t ht b).1, h, key]
  · intro h; rw [(float_as t ht b).1, if_neg (nonfin _ h)]
  · intro n m e h; rw [(float_as t ht b).2, h, key]
  · intro h; rw [(float_as t ht b).2, if_neg (nonfin _ h)]

/-- the truncation of an in-range value is itself in range (so the result is never wrapped or saturated) -/
theorem trunc_inRange (t : IT) (x : FP) (h : inRange t x) : t.min ≤ truncFP x ∧ truncFP x ≤ t.max := by
  cases x with
  | nan => exact h.elim
  | inf n => exact h.elim
  | fin n m e => exact ⟨trunc_ge _ _ _ _ h.1, trunc_le _ _ _ _ h.2⟩

/-- "truncated toward zero", independently of the model's expression: `truncFP (.fin n m e) = (-1)^n·q` where `q` is the natural
    number with `q ≤ m·2^e < q+1` (cross-multiplied) -/
theorem trunc_spec (n : Bool) (m : Nat) (e : Int) :
    ∃ q : Nat, truncFP (.fin n m e) = sgnm n q ∧
      q * 2 ^ (-e).toNat ≤ m * 2 ^ e.toNat ∧ m * 2 ^ e.toNat < (q + 1) * 2 ^ (-e).toNat :=
  truncVal_spec n m e

/-- no conversion to an integral type ever reaches an undefined cast -/
theorem float_no_ub (s : Src) (t : IT) (hs : s.WF) (ht : t ∈ allIT) : convInt s t ≠ none := by
  cases s with
  | u sb n => rw [int_as _ t n hs ht rfl]; simp
  | i sb v => rw [int_as _ t v hs ht rfl]; simp
  | f32 b => rw [(float_as t ht b).1]; simp
  | f64 b => rw [(float_as t ht b).2]; simp

/-- the result of `as<T>()` always lies in `[T::min, T::max]` -/
theorem as_in_range (s : Src) (t : IT) (hs : s.WF) (ht : t ∈ allIT) : ∃ z, convInt s t = some z ∧ t.min ≤ z ∧ z ≤ t.max := by
  have h0 : t.min ≤ 0 ∧ 0 ≤ t.max := by
    rcases mem_allIT ht with rfl|rfl|rfl|rfl|rfl|rfl|rfl|rfl <;> decide
  have key : ∀ (P : Prop) [Decidable P] (z : Int), (P → t.min ≤ z ∧ z ≤ t.max) →
      ∃ r, some (if P then z else 0) = some r ∧ t.min ≤ r ∧ r ≤ t.max := by
    intro P _ z hz
    by_cases hp : P
    · exact ⟨z, by rw [if_pos hp], hz hp⟩
    · exact ⟨0, by rw [if_neg hp], h0⟩
  cases s with
  | u sb n => rw [int_as _ t n hs ht rfl]; exact key _ _ id
  | i sb v => rw [int_as _ t v hs ht rfl]; exact key _ _ id
  | f32 b => rw [(float_as t ht b).1]; exact key _ _ (trunc_inRange t _)
  | f64 b => rw [(float_as t ht b).2]; exact key _ _ (trunc_inRange t _)

-- 2147483647.5 (binary64) is above INT32_MAX: 0, although its truncation would fit
example : convInt (.f64 0x41DFFFFFFFE00000) i32 = some 0 ∧ ¬ inRange i32 (decode b64 0x41DFFFFFFFE00000) := by decide +kernel
-- 2147483647.0 exactly gives itself
example : convInt (.f64 0x41DFFFFFFFC00000) i32 = some 2147483647 := by decide +kernel
-- binary32 2147483520 = highest_for<int32_t>: accepted; the next float, 2^31, is rejected
example : convInt (.f32 0x4EFFFFFF) i32 = some 2147483520 ∧ convInt (.f32 0x4F000000) i32 = some 0 := by decide +kernel
-- -2147483648.5 is below INT32_MIN: 0;  -2147483648.0 gives INT32_MIN;  -0.75 truncates to 0;  -3.75 to -3
example : convInt (.f64 0xC1E0000000100000) i32 = some 0 ∧ convInt (.f64 0xC1E0000000000000) i32 = some (-2147483648) ∧
    convInt (.f64 0xBFE8000000000000) i8 = some 0 ∧ convInt (.f64 0xC00E000000000000) i8 = some (-3) := by decide +kernel
-- NaN, +inf, -inf give 0;  255.5 → u8 gives 0 but 255.0 gives 255;  2^64 → u64 gives 0, the double below gives 2^64-2048
example : convInt (.f64 0x7FF8000000000000) i64 = some 0 ∧ convInt (.f32 0x7F800000) u64 = some 0 ∧ convInt (.f32 0xFF800000) i64 = some 0 ∧
    convInt (.f64 0x406FF00000000000) u8 = some 0 ∧ convInt (.f64 0x406FE00000000000) u8 = some 255 ∧
    convInt (.f64 0x43F0000000000000) u64 = some 0 ∧ convInt (.f64 0x43EFFFFFFFFFFFFF) u64 = some 18446744073709549568 := by decide +kernel
example : truncFP (decode b64 0xC00E000000000000) = -3 ∧ inRange i8 (decode b64 0xC00E000000000000) := by decide +kernel

/-! ## 3. conversions to a floating type

   Distances are measured exactly on the integer scale `2^(-E)`: `SF.sv E s e = s·2^(e-E)` is the dyadic `s·2^e` scaled by `2^(-E)`
   (an integer whenever `E ≤ e`; every datum of format `f` has `emin f ≤ e`). -/

/-- same format: the bits are returned unchanged; otherwise `static_cast` between `float` and `double` -/
theorem float_to_float (b : Nat) :
    convFloat (.f32 b) b32 = b ∧ convFloat (.f64 b) b64 = b ∧
    convFloat (.f32 b) b64 = JD.cvt b32 b64 b ∧ convFloat (.f64 b) b32 = JD.cvt b64 b32 b := ⟨rfl, rfl, rfl, rfl⟩

/-- `float → double` is exact: NaN ↦ NaN, ±inf ↦ ±inf, and a finite `(-1)^n·m·2^e` ↦ `(-1)^n·m'·2^e'` with
    `m' = m·2^(e-e')`, i.e. the same exact value (and the same sign, also for ±0) -/
theorem float_widen_exact (b : Nat) :
    match decode b32 b with
    | .nan => decode b64 (convFloat (.f32 b) b64) = .nan
    | .inf n => decode b64 (convFloat (.f32 b) b64) = .inf n
    | .fin n m e => ∃ m' e', decode b64 (convFloat (.f32 b) b64) = .fin n m' e' ∧ e' ≤ e ∧ m' = m * 2 ^ (e - e').toNat ∧
        DyLe (sgnm n m) e (sgnm n m') e' ∧ DyLe (sgnm n m') e' (sgnm n m) e := by
  show match decode b32 b with
    | .nan => decode b64 (JD.cvt b32 b64 b) = .nan
    | .inf n => decode b64 (JD.cvt b32 b64 b) = .inf n
    | .fin n m e => ∃ m' e', decode b64 (JD.cvt b32 b64 b) = .fin n m' e' ∧ e' ≤ e ∧ m' = m * 2 ^ (e - e').toNat ∧
        DyLe (sgnm n m) e (sgnm n m') e' ∧ DyLe (sgnm n m') e' (sgnm n m) e
  cases hd : decode b32 b with
  | nan => simp only [JD.cvt, hd]; decide +kernel
  | inf n => simp only [JD.cvt, hd]; exact decode_inf b64 n
  | fin n m e =>
    obtain ⟨m', e', h1, h2, h3⟩ := cvt_32_64_exact b n m e hd
    exact ⟨m', e', h1, h2, h3, DyLe_of_scaled n m m' e e' h2 h3⟩

/-- `double → float` rounds to nearest: NaN ↦ NaN, ±inf ↦ ±inf, ±0 ↦ ±0; a finite non-zero value either overflows to the
    infinity of its sign (only when `|value| ≥ 2^127`) or goes to a finite binary32 datum of the same sign such that no
    binary32 datum is strictly closer to the exact value -/
theorem float_narrow_nearest (b : Nat) :
    match decode b64 b with
    | .nan => decode b32 (convFloat (.f64 b) b32) = .nan
    | .inf n => decode b32 (convFloat (.f64 b) b32) = .inf n
    | .fin n m e =>
      if m = 0 then decode b32 (convFloat (.f64 b) b32) = .fin n 0 (emin b32) else
      (decode b32 (convFloat (.f64 b) b32) = .inf n ∧ 127 ≤ e + Nat.log2 m) ∨
      ∃ m' e', decode b32 (convFloat (.f64 b) b32) = .fin n m' e' ∧
        ∀ x nx mx ex, decode b32 x = .fin nx mx ex →
          (sv (min e (emin b32)) (sgnm n m') e' - sv (min e (emin b32)) (sgnm n m) e).natAbs ≤
          (sv (min e (emin b32)) (sgnm nx mx) ex - sv (min e (emin b32)) (sgnm n m) e).natAbs := by
  show match decode b64 b with
    | .nan => decode b32 (JD.cvt b64 b32 b) = .nan
    | .inf n => decode b32 (JD.cvt b64 b32 b) = .inf n
    | .fin n m e =>
      if m = 0 then decode b32 (JD.cvt b64 b32 b) = .fin n 0 (emin b32) else
      (decode b32 (JD.cvt b64 b32 b) = .inf n ∧ 127 ≤ e + Nat.log2 m) ∨
      ∃ m' e', decode b32 (JD.cvt b64 b32 b) = .fin n m' e' ∧
        ∀ x nx mx ex, decode b32 x = .fin nx mx ex →
          (sv (min e (emin b32)) (sgnm n m') e' - sv (min e (emin b32)) (sgnm n m) e).natAbs ≤
          (sv (min e (emin b32)) (sgnm nx mx) ex - sv (min e (emin b32)) (sgnm n m) e).natAbs
  cases hd : decode b64 b with
  | nan => simp only [JD.cvt, hd]; decide +kernel
  | inf n => simp only [JD.cvt, hd]; exact decode_inf b32 n
  | fin n m e =>
    simp only [JD.cvt, hd]
    by_cases hm : m = 0
    · rw [if_pos hm]; subst hm
      have hr : roundPos b32 n 0 e = (if n then b32.signBit else 0) + 0 := by simp [roundPos]
      rw [hr]; exact decode_sub b32 n 0 (by decide) (by decide)
    · rw [if_neg hm]
      rcases roundPos_nearest b32 n m e hm (by decide) with ⟨h1, h2⟩ | h
      · left
        refine ⟨h1, ?_⟩
        have c1 : (b32.emax : Int) = 255 := by decide
        have c2 : (b32.bias : Int) = 127 := by decide
        have c3 : b32.mbits = 23 := rfl
        have c4 : emin b32 = -149 := by decide
        rw [c1, c2, c3] at h2
        unfold rpExp at h2
        rw [c3, c4] at h2
        push_cast at h2
        omega
      · exact Or.inr h

/-- integer → floating: `static_cast<float/double>(integer)` is a finite datum of the sign of the integer, and it is a NEAREST
    datum: no datum of the target format is strictly closer to the stored integer -/
theorem int_to_float_nearest (s : Src) (z : Int) (hs : s.WF) (hz : s.ival = some z) (f : Fmt) (hf : f = b32 ∨ f = b64) :
    ∃ m e, decode f (convFloat s f) = .fin (decide (z < 0)) m e ∧
      ∀ x nx mx ex, decode f x = .fin nx mx ex →
        (sv (emin f) (sgnm (decide (z < 0)) m) e - z * 2 ^ (-emin f).toNat).natAbs ≤
        (sv (emin f) (sgnm nx mx) ex - z * 2 ^ (-emin f).toNat).natAbs := by
  cases s with
  | u sb n =>
    simp only [Src.ival, Option.some.injEq] at hz; subst hz
    obtain ⟨hsb, hn⟩ := hs
    have : (n : Int).natAbs < 2 ^ 64 := by
      rcases hsb with rfl | rfl
      · have : n < 2 ^ 64 := Nat.lt_of_lt_of_le hn (by decide)
        omega
      · omega
    exact ofInt_nearest f hf n this
  | i sb v =>
    simp only [Src.ival, Option.some.injEq] at hz; subst hz
    obtain ⟨hsb, h1, h2⟩ := hs
    have : v.natAbs < 2 ^ 64 := by
      rcases hsb with rfl | rfl <;> simp at h1 h2 <;> omega
    exact ofInt_nearest f hf v this
  | f32 b => simp [Src.ival] at hz
  | f64 b => simp [Src.ival] at hz

/-- the general statement behind both: `roundPos` (the only rounding primitive of the softfloat) rounds to nearest -/
theorem roundPos_rounds_to_nearest (f : Fmt) (n : Bool) (m : Nat) (e : Int) (hm : m ≠ 0) (hf : 0 < f.emax) :
    (decode f (roundPos f n m e) = .inf n ∧ (f.emax : Int) ≤ rpExp f m e + 1 + f.bias + f.mbits) ∨
    ∃ m'' e'', decode f (roundPos f n m e) = .fin n m'' e'' ∧
      ∀ x nx mx ex, decode f x = .fin nx mx ex →
        (sv (min e (emin f)) (sgnm n m'') e'' - sv (min e (emin f)) (sgnm n m) e).natAbs ≤
        (sv (min e (emin f)) (sgnm nx mx) ex - sv (min e (emin f)) (sgnm n m) e).natAbs :=
  roundPos_nearest f n m e hm hf

/-- ties go to even: the rounding step `rneShift` of `roundPos` returns an even mantissa on an exact tie -/
theorem tie_to_even (m k : Nat) (hk : 0 < k) (h : m % 2 ^ k = 2 ^ (k - 1)) : rneShift m k % 2 = 0 :=
  rneShift_tie_even m k hk h

/-! ## the same at the level of a variant holding a number -/

/-- every number a variant can hold (`NumOK`: payload fits 64 / 32 bits) is stored well-formed -/
theorem stored_wf (n : JD.Num) (h : NumOK n) : (srcOfNum n).WF := srcOfNum_wf n h

/-- `variant.as<T>()` on a number: always defined, always within `[T::min, T::max]` -/
theorem variant_as_defined (cfg : JD.Cfg) (n : JD.Num) (h : NumOK n) (t : IT) (ht : t ∈ allIT) :
    ∃ z, asInt cfg (.num n) t = some z ∧ t.min ≤ z ∧ z ≤ t.max :=
  as_in_range (srcOfNum n) t (srcOfNum_wf n h) ht

/-- `variant.is<T>()` on a number implies `as<T>()` is the stored integer, and `as<U>()` agrees for every wider `U` -/
theorem variant_is_then_as (cfg : JD.Cfg) (n : JD.Num) (h : NumOK n) (t : IT) (ht : t ∈ allIT)
    (his : isIntV (.num n) t = true) :
    ∃ z, (srcOfNum n).ival = some z ∧ t.min ≤ z ∧ z ≤ t.max ∧ asInt cfg (.num n) t = some z ∧
      ∀ u ∈ allIT, (t.min ≥ u.min ∧ t.max ≤ u.max) → asInt cfg (.num n) u = some z := by
  have his' : isInt (srcOfNum n) t = true := his
  obtain ⟨z, hz⟩ := is_imp_int _ _ his'
  have hw := srcOfNum_wf n h
  have hr := (int_is _ t z hw ht hz).1 his'
  obtain ⟨h1, h2⟩ := is_then_as _ t z hw ht hz his'
  exact ⟨z, hz, hr.1, hr.2, h1, h2⟩

example : asInt {} (.num (.uint 300)) u8 = some 0 ∧ asInt {} (.num (.uint 200)) u8 = some 200 ∧
    isIntV (.num (.uint 200)) u8 = true ∧ isIntV (.num (.uint 200)) i8 = false ∧ isIntV (.num (.f64 0x4069000000000000)) u8 = false ∧
    asInt {} (.num (.f64 0x4069000000000000)) u8 = some 200 := by decide +kernel

-- 2^64-1 → float gives 2^64; 16777217 → float is a tie and goes to the even neighbour 16777216; 16777219 → 16777220
example : convFloat (.u 64 18446744073709551615) b32 = 0x5F800000 ∧ convFloat (.u 32 16777217) b32 = 0x4B800000 ∧
    convFloat (.u 32 16777219) b32 = 0x4B800002 ∧ convFloat (.i 64 (-9223372036854775807)) b64 = 0xC3E0000000000000 := by
  decide +kernel
-- 1.5f → 1.5; smallest float subnormal 2^-149 → the normal double 2^-149; 0.1 (double) → 0.1f; 1e300 → +inf; 1e-300 → +0
example : convFloat (.f32 0x3FC00000) b64 = 0x3FF8000000000000 ∧ convFloat (.f32 0x00000001) b64 = 0x36A0000000000000 ∧
    convFloat (.f64 0x3FB999999999999A) b32 = 0x3DCCCCCD ∧ convFloat (.f64 0x7E37E43C8800759C) b32 = 0x7F800000 ∧
    convFloat (.f64 0x01A56E1FC2F8F359) b32 = 0 ∧ convFloat (.f64 0x8000000000000000) b32 = 0x80000000 := by
  decide +kernel

end C13
