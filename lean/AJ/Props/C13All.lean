/- Aggregate: typed extraction (C13.lean) and copyArray (C13Copy.lean). -/
import AJ.Props.C13
import AJ.Props.C13Copy
import AJ.Props.C13Gen
