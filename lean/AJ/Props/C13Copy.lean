/- C13, last clause: "copyArray never writes beyond the destination it was given".
   Theorems about the model CA (tied to the library by the `copyarr` correspondence suite: same documents, destination sizes 0..N,
   guard cells and exactly-sized heap blocks under ASan). -/
import AJ.Model.CA
open JD

namespace C13

/-- the destination keeps its size, whatever the array holds -/
theorem copy1_within {α} (conv : Val → α) (xs : List Val) (dst : List α) :
    (CA.copy1 conv xs dst).1.length = dst.length := by
  induction xs generalizing dst with
  | nil => cases dst <;> simp [CA.copy1]
  | cons x xs ih => cases dst with
    | nil => simp [CA.copy1]
    | cons d ds => simp [CA.copy1, ih]

/-- the count returned is the smaller of the two lengths -/
theorem copy1_count {α} (conv : Val → α) (xs : List Val) (dst : List α) :
    (CA.copy1 conv xs dst).2 = min xs.length dst.length := by
  induction xs generalizing dst with
  | nil => cases dst <;> simp [CA.copy1]
  | cons x xs ih => cases dst with
    | nil => simp [CA.copy1]
    | cons d ds => simp [CA.copy1, ih]

/-- exactly the first `count` cells hold the converted elements, every other cell is untouched -/
theorem copy1_content {α} (conv : Val → α) (xs : List Val) (dst : List α) :
    (CA.copy1 conv xs dst).1 = (xs.take dst.length).map conv ++ dst.drop xs.length := by
  induction xs generalizing dst with
  | nil => cases dst <;> simp [CA.copy1]
  | cons x xs ih => cases dst with
    | nil => simp [CA.copy1]
    | cons d ds => simp [CA.copy1, ih]

theorem copy2_within {α} (conv : Val → α) (xs : List Val) (rows : List (List α)) :
    (CA.copy2 conv xs rows).1.length = rows.length ∧
    (CA.copy2 conv xs rows).1.map List.length = rows.map List.length := by
  induction xs generalizing rows with
  | nil => cases rows <;> simp [CA.copy2]
  | cons x xs ih => cases rows with
    | nil => simp [CA.copy2]
    | cons r rs => simp [CA.copy2, (ih rs).1, (ih rs).2, copy1_within]

theorem copy2_count {α} (conv : Val → α) (xs : List Val) (rows : List (List α)) :
    (CA.copy2 conv xs rows).2 = min xs.length rows.length := by
  induction xs generalizing rows with
  | nil => cases rows <;> simp [CA.copy2]
  | cons x xs ih => cases rows with
    | nil => simp [CA.copy2]
    | cons r rs => simp [CA.copy2, ih]

/-- a string copy keeps the destination's size, writes at most N-1 bytes of the string followed by one NUL, and nothing else -/
theorem copyStr_within (v : Val) (dst : List Byte) : (CA.copyStr v dst).length = dst.length := by
  unfold CA.copyStr
  split
  · rfl
  · simp only [List.length_append, List.length_take, List.length_drop, List.length_cons, List.length_nil]
    omega

theorem copyStr_terminated (v : Val) (dst : List Byte) (h : dst ≠ []) :
    ∃ len, len = min (dst.length - 1) (CA.strOf v).length ∧ len < dst.length ∧
      (CA.copyStr v dst).take len = (CA.strOf v).take len ∧ (CA.copyStr v dst)[len]? = some 0 ∧
      (CA.copyStr v dst).drop (len + 1) = dst.drop (len + 1) := by
  have hl : dst.length ≠ 0 := by cases dst <;> simp_all
  refine ⟨_, rfl, by omega, ?_, ?_, ?_⟩
  all_goals unfold CA.copyStr; rw [if_neg hl]
  · have : ((CA.strOf v).take (min (dst.length - 1) (CA.strOf v).length)).length = min (dst.length - 1) (CA.strOf v).length := by
      simp [List.length_take]
    rw [List.append_assoc, List.take_left' this]
  · have : ((CA.strOf v).take (min (dst.length - 1) (CA.strOf v).length)).length = min (dst.length - 1) (CA.strOf v).length := by
      simp [List.length_take]
    rw [List.append_assoc, List.getElem?_append_right (by omega)]
    simp [this]
  · have : ((CA.strOf v).take (min (dst.length - 1) (CA.strOf v).length) ++ [0]).length = min (dst.length - 1) (CA.strOf v).length + 1 := by
      simp [List.length_take]
    rw [List.drop_left' this]

/-- non-vacuity: an array longer than the destination, a destination longer than the array, a non-array source -/
example : CA.copy1 (fun v => match v with | .num (.uint n) => n | _ => 0) [.num (.uint 1), .num (.uint 2), .num (.uint 3)] [9, 9] = ([1, 2], 2) := by decide
example : CA.copy1 (fun v => match v with | .num (.uint n) => n | _ => 0) [.num (.uint 1)] [9, 9, 9] = ([1, 9, 9], 1) := by decide
example : CA.copyStr (.str [0x61, 0x62, 0x63, 0x64]) [7, 7, 7] = [0x61, 0x62, 0] := by decide
example : CA.copyStr (.str [0x61]) [7, 7, 7, 7] = [0x61, 0, 7, 7] := by decide
example : CA.copyStr .null [7, 7] = [0, 7] := by decide

end C13
