/- Typed extraction of the conversion model is EXACTLY that of the library on a table of stored values at and around every type boundary:
   `lean/AJ/Gen/Tables.lean` is regenerated on every run by calling `as<int8_t>() … as<uint64_t>()`, `as<float>()`, `as<double>()` (compiled from /repo) on
   92 stored values (unsigned, signed, double, float); the theorem evaluates `Conv.asInt` / `Conv.asFloatBits` on the same values in the kernel.
   A change of a range test, a cast, a `highest_for` constant or a rounding in the source changes the generated rows and breaks the theorem. -/
import AJ.Model.Conv
open JD SF

namespace C13

/-- the stored value of a table row -/
def rowVal (kind payload : Nat) : Val :=
  match kind with
  | 0 => .num (.uint payload)
  | 1 => .num (.sint ((payload : Int) - (if payload ≥ 2^63 then 2^64 else 0)))
  | 2 => .num (storeDouble payload)
  | _ => .num (.f32 payload)

def canonNaN (f : Fmt) (bits : Nat) (canon : Nat) : Nat := if isNaN f bits then canon else bits

/-- what the model answers for a row -/
def convRow (kind payload : Nat) : Nat × Nat × List Int × Nat × Nat :=
  let v := rowVal kind payload
  (kind, payload, Conv.allIT.map (fun t => (Conv.asInt {} v t).getD (-1)),
   canonNaN b32 ((Conv.asFloatBits {} v b32).getD 0) 0x7fc00000, canonNaN b64 ((Conv.asFloatBits {} v b64).getD 0) 0x7ff8000000000000)

/-- **as<T>() on the boundary table**: the model's ten readings of each stored value are those of the compiled library -/
theorem conversions_are_source : Gen.conv_rows.map (fun r => convRow r.1 r.2.1) = Gen.conv_rows := by decide +kernel

/-- no row of the table is an undefined conversion in the model (so `getD` above hides nothing) -/
theorem conversions_defined : Gen.conv_rows.all (fun r => Conv.allIT.all (fun t => (Conv.asInt {} (rowVal r.1 r.2.1) t).isSome) &&
    (Conv.asFloatBits {} (rowVal r.1 r.2.1) b32).isSome && (Conv.asFloatBits {} (rowVal r.1 r.2.1) b64).isSome) = true := by decide +kernel

end C13
