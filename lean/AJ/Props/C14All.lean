/- Aggregate: C14 per-operation statement (namespace C14 of C04.lean) and its lift to whole histories through the abstract tree machine (C14Hist.lean). -/
import AJ.Props.C04
import AJ.Props.C14Hist
