/- C04 / C14 lifted to whole histories, against the PLAIN ORDERED TREE.
   The abstract machine `DL.ARun : JD.Val → List AOp → JD.Val` (AJ/Lemmas/HistCor.lean) works on abstract values only:
   every operation names its target by a path from the root (`DL.updAt`), strings are byte lists. A concrete history
   `C04.HistA d F as d' F'` is a `C04.Hist2` history all of whose allocations succeed, indexed by the abstract operations
   `as` it stands for (`Op2.toA`: location ↦ `pathOf F l`, `strLinked s`/`strCopied s` ↦ `.str s`, the `linked` flag of
   `member` is dropped).
   * `C04.history_simulates_tree`   : `abs d' = ARun (abs d) as`
   * `C04.mutation_changes_only_target`, `C04.readonly_changes_nothing` : frame, whole histories
   * `C14.history_kind_irrelevant`  : the final abstract value depends on `as` only, hence not on how strings are stored -/
import AJ.Lemmas.HistCor
namespace C04
open DL
open JD (Byte Val)

/-! ## 1. Refinement to the ordered tree, stated once for whole histories -/

/-- Every history of valid operations whose allocations succeed, from a well-formed document, computes on the abstract
    document exactly what the plain ordered tree computes: `abs d' = ARun (abs d) as`. (The invariant `WFG`/`StrOK` and the
    geometry are kept, `history_refines2`.) -/
theorem history_simulates_tree {d d' : Doc} {F F' : Forest} {as : List AOp} (h : HistA d F as d' F') :
    WFG d F → StrOK d (d.strRefs F) → PL.GeoOK d.g → abs d' = ARun (abs d) as := by
  induction h with
  | nil d F => intros; rfl
  | cons op hv hok _ ih =>
    intro w hs gok
    obtain ⟨a, b, c, _⟩ := step_refines2 w hs gok hv
    rw [ARun_cons, ← step_simulates w hs gok hv hok]
    exact ih a b (by rw [c]; exact gok)

/-- the same with the invariant at the end -/
theorem history_simulates_tree_wf {d d' : Doc} {F F' : Forest} {as : List AOp} (h : HistA d F as d' F')
    (w : WFG d F) (hs : StrOK d (d.strRefs F)) (gok : PL.GeoOK d.g) :
    WFG d' F' ∧ StrOK d' (d'.strRefs F') ∧ d'.g = d.g ∧ abs d' = ARun (abs d) as :=
  ⟨(history_refines2 h.hist2 w hs gok).1, (history_refines2 h.hist2 w hs gok).2.1, (history_refines2 h.hist2 w hs gok).2.2,
    history_simulates_tree h w hs gok⟩

/-- the same for `Hist2` histories, the success of every allocation being read off the overflow flag at the END: the flag
    is never reset by an operation and is set by every failed allocation (`step_overflowed`), so a history that ends with
    the flag down stands for a list `as` of abstract operations, and computes what the tree machine computes on `as` -/
theorem history_simulates_tree_of_flag {d d' : Doc} {F F' : Forest} (h : Hist2 d F d' F') (w : WFG d F)
    (hs : StrOK d (d.strRefs F)) (gok : PL.GeoOK d.g) (hov : d'.overflowed = false) :
    ∃ as, HistA d F as d' F' ∧ abs d' = ARun (abs d) as := by
  obtain ⟨_, as, hh⟩ := Hist2.toHistA h hov
  exact ⟨as, hh, history_simulates_tree hh w hs gok⟩

/-! ## 2. A mutation changes only its target (whole histories) -/

/-- one step: a location whose path parts ways with the path of the target is still a location of the new layout, at
    the same path -/
theorem step_keeps_path {d : Doc} {F : Forest} {op : Op2} {l' : Loc} (w : WFG d F) (hs : StrOK d (d.strRefs F))
    (gok : PL.GeoOK d.g) (hv : op.Valid d F) (hl' : isLoc F l') (hdv : Diverge (pathOf F op.loc) (pathOf F l')) :
    isLoc (op.layout d F) l' ∧ pathOf (op.layout d F) l' = pathOf F l' := by
  have fresh : ∀ x, ¬ PL.live d.g d.pl x → x ∉ F.locs := fun x hx m => hx (w.live x (F.locs_sub_ids x m))
  cases op with
  | base op =>
    cases op with
    | add l =>
      obtain ⟨hl, _⟩ := hv
      simp only [Op2.layout, Op.layout]
      generalize hal : d.allocVariant = r
      obtain ⟨m, d1⟩ := r
      cases m with
      | none =>
        have : (d.addElement l).1 = none := by simp only [Doc.addElement, hal]
        rw [this]; exact ⟨hl', rfl⟩
      | some id =>
        have : (d.addElement l).1 = some id := by simp only [Doc.addElement, hal]
        rw [this]
        obtain ⟨_, _, _, _, hnl, _, _⟩ := allocVariant_some gok w.pool hal
        refine pathOf_replaceAt _ w.nodup hl hl' hdv (fun x hx => ?_)
        rcases (Forest.locs_snoc_mem _ _ _ _).1 hx with h | h
        · exact Or.inl h
        · exact Or.inr (h ▸ fresh id hnl)
    | clear l => exact pathOf_replaceAt _ w.nodup hv hl' hdv (fun x hx => by cases hx)
    | put l a => exact ⟨hl', rfl⟩
  | removeElem l k =>
    obtain ⟨hl, h, t, hg⟩ := hv
    simp only [Op2.layout, hg]
    cases (d.chain h)[k]? with
    | none => exact ⟨hl', rfl⟩
    | some id =>
      exact pathOf_replaceAt _ w.nodup hl hl' hdv (fun x hx => Or.inl (Forest.eraseTop_locs_sub _ id x hx))
  | removeMember l key =>
    obtain ⟨hl, h, t, hg⟩ := hv
    simp only [Op2.layout]
    cases d.findKey l key with
    | none => exact ⟨hl', rfl⟩
    | some p =>
      exact pathOf_replaceAt _ w.nodup hl hl' hdv (fun x hx => Or.inl (Forest.eraseTop_locs_sub _ p.2 x hx))
  | member l key linked =>
    obtain ⟨hl, hobj⟩ := hv
    simp only [Op2.layout]
    cases hfind : (membersAt d l).find? (fun m => m.1 == key) with
    | some m => exact ⟨hl', rfl⟩
    | none =>
      obtain ⟨_, hok⟩ := getOrAddMember_absent (linked := linked) w hs gok hl hobj hfind
      cases hr : (d.getOrAddMember l key linked).1 with
      | none => cases d.allocVariant.1 <;> exact ⟨hl', rfl⟩
      | some v =>
        obtain ⟨k, a1, _, _, hnv, _⟩ := hok v hr
        simp only [a1]
        refine pathOf_replaceAt _ w.nodup hl hl' hdv (fun x hx => ?_)
        rcases (Forest.locs_snoc_mem _ _ _ _).1 hx with h | h
        · exact Or.inl h
        · exact Or.inr (h ▸ fresh v hnv)

/-- A MUTATION CHANGES ONLY ITS TARGET, whole histories. Let `l` be a location of the initial document whose path parts
    ways with the path of the target of every operation of the history (`l` is neither the target, nor inside it, nor
    does it contain it). Then `l` is still a location of the final document, at the same path, and a reference to it
    designates exactly the same abstract value as before the history. -/
theorem mutation_changes_only_target {d d' : Doc} {F F' : Forest} {as : List AOp} (h : HistA d F as d' F') :
    WFG d F → StrOK d (d.strRefs F) → PL.GeoOK d.g → ∀ l, isLoc F l → (∀ a ∈ as, Diverge a.path (pathOf F l)) →
    isLoc F' l ∧ pathOf F' l = pathOf F l ∧ d'.toVal (d'.get l) = d.toVal (d.get l) := by
  induction h with
  | nil d F => intro _ _ _ l hl _; exact ⟨hl, rfl, rfl⟩
  | @cons d F as d' F' op hv hok _ ih =>
    intro w hs gok l hl hdv
    obtain ⟨a, b, c, _⟩ := step_refines2 w hs gok hv
    have h0 := hdv _ List.mem_cons_self
    rw [Op2.toA_path] at h0
    obtain ⟨hl1, hp1⟩ := step_keeps_path w hs gok hv hl h0
    obtain ⟨x, y, z⟩ := ih a b (by rw [c]; exact gok) l hl1
      (fun e he => by rw [hp1]; exact hdv e (List.mem_cons_of_mem _ he))
    refine ⟨x, y.trans hp1, z.trans ?_⟩
    have e1 := getAt_pathOf a hl1
    rw [hp1, step_simulates w hs gok hv hok, AOp.step] at e1
    rw [getAt_updAt_diverge _ _ _ _ (by rw [Op2.toA_path]; exact h0), getAt_pathOf w hl] at e1
    exact (Option.some.inj e1).symm

/-- the same read off the abstract machine alone: along `ARun`, the value at a path that parts ways with every target is
    constant -/
theorem tree_frame (t : Val) (as : List AOp) (q : Path) (h : ∀ a ∈ as, Diverge a.path q) :
    getAt q (ARun t as) = getAt q t := ARun_frame q as t h

/-! ## 3. Read-only steps change nothing (whole histories) -/

/-- the steps that only look: `object[key]` for a key that is present, `array.remove(i)` past the end,
    `object.remove(key)` for an absent key -/
def Op2.ReadOnly (d : Doc) : Op2 → Prop
  | .member l key _ => ∃ m, (membersAt d l).find? (fun m => m.1 == key) = some m
  | .removeElem l k => ∀ h t, d.get l = .arr h t → (d.chain h)[k]? = none
  | .removeMember l key => d.findKey l key = none
  | .base _ => False

theorem readonly_step {d : Doc} {F : Forest} {op : Op2} (w : WFG d F) (hv : op.Valid d F) (hro : op.ReadOnly d) :
    op.run d = d ∧ op.layout d F = F := by
  cases op with
  | base op => cases hro
  | removeElem l k =>
    obtain ⟨_, h, t, hg⟩ := hv
    simp only [Op2.run, Op2.layout, hg, hro h t hg]
    exact ⟨trivial, trivial⟩
  | removeMember l key =>
    simp only [Op2.ReadOnly] at hro
    simp only [Op2.run, Op2.layout, hro]
    exact ⟨trivial, trivial⟩
  | member l key linked =>
    obtain ⟨m, hm⟩ := hro
    obtain ⟨hl, hobj⟩ := hv
    have hg : ∃ h t, d.get l = .obj h t := by
      rcases hobj with hnull | hg
      · exfalso
        have : membersAt d l = [] := by simp only [membersAt, hnull, toVal_null]
        rw [this] at hm; cases hm
      · exact hg
    obtain ⟨h, t, hg⟩ := hg
    obtain ⟨v, hr, _⟩ := getOrAddMember_found (linked := linked) w hl hg hm
    simp only [Op2.run, Op2.layout, hr, hm]
    exact ⟨trivial, trivial⟩

/-- `RoHist d F n`: `n` valid read-only steps in a row from `d` -/
inductive RoHist : Doc → Forest → Doc → Forest → Prop
  | nil (d : Doc) (F : Forest) : RoHist d F d F
  | cons {d : Doc} {F : Forest} {d' : Doc} {F' : Forest} (op : Op2) :
      op.Valid d F → op.ReadOnly d → RoHist (op.run d) (op.layout d F) d' F' → RoHist d F d' F'

/-- READ-ONLY OPERATIONS CHANGE NOTHING, whole histories: a history of look-ups ends in the very same document (the same
    store, not only the same abstract value) with the same layout; it is a history in the sense of `Hist2`. -/
theorem readonly_changes_nothing {d d' : Doc} {F F' : Forest} (h : RoHist d F d' F') :
    WFG d F → (d' = d ∧ F' = F) ∧ Hist2 d F d' F' := by
  induction h with
  | nil d F => intro _; exact ⟨⟨rfl, rfl⟩, Hist2.nil _ _⟩
  | cons op hv hro _ ih =>
    intro w
    obtain ⟨e1, e2⟩ := readonly_step w hv hro
    obtain ⟨⟨x, y⟩, z⟩ := ih (by rw [e1, e2]; exact w)
    exact ⟨⟨x.trans e1, y.trans e2⟩, Hist2.cons op hv z⟩

end C04

/-! ## C14: how a string is stored is unobservable, whole histories -/
namespace C14
open DL C04
open JD (Byte Val)

/-- linked or copied, a string argument is the same abstract operation -/
theorem put_kind (F : Forest) (l : Loc) (s : List Byte) :
    (Op2.base (.put l (.strLinked s))).toA F = (Op2.base (.put l (.strCopied s))).toA F := rfl
/-- linked or copied, a key is the same abstract operation -/
theorem member_kind (F : Forest) (l : Loc) (key : List Byte) :
    (Op2.member l key true).toA F = (Op2.member l key false).toA F := rfl

/-- HOW A STRING IS STORED IS UNOBSERVABLE, whole histories. Two histories of valid operations whose allocations succeed,
    over two well-formed documents (possibly different stores, layouts and geometries) with the same abstract value, that
    stand for the same abstract operations `as` — that is: the same operations at the same paths with the same string
    BYTES, whatever the storage kind (linked, or copied, de-duplicated and reference-counted) of each string argument and
    key (`put_kind`, `member_kind`) — end in documents with the same abstract value: `ARun (abs d) as`.
    In particular sharing of equal copied strings inside a document is never visible. -/
theorem history_kind_irrelevant {d1 d1' d2 d2' : Doc} {F1 F1' F2 F2' : Forest} {as : List AOp}
    (h1 : HistA d1 F1 as d1' F1') (h2 : HistA d2 F2 as d2' F2')
    (w1 : WFG d1 F1) (s1 : StrOK d1 (d1.strRefs F1)) (g1 : PL.GeoOK d1.g)
    (w2 : WFG d2 F2) (s2 : StrOK d2 (d2.strRefs F2)) (g2 : PL.GeoOK d2.g)
    (he : abs d1 = abs d2) : abs d1' = abs d2' := by
  rw [history_simulates_tree h1 w1 s1 g1, history_simulates_tree h2 w2 s2 g2, he]

/-- every observable of the final documents that is a function of the abstract value agrees: here, the value read
    through any path -/
theorem history_kind_irrelevant_at {d1 d1' d2 d2' : Doc} {F1 F1' F2 F2' : Forest} {as : List AOp}
    (h1 : HistA d1 F1 as d1' F1') (h2 : HistA d2 F2 as d2' F2')
    (w1 : WFG d1 F1) (s1 : StrOK d1 (d1.strRefs F1)) (g1 : PL.GeoOK d1.g)
    (w2 : WFG d2 F2) (s2 : StrOK d2 (d2.strRefs F2)) (g2 : PL.GeoOK d2.g)
    (he : abs d1 = abs d2) {l1 l2 : Loc} (hl1 : isLoc F1' l1) (hl2 : isLoc F2' l2)
    (hp : pathOf F1' l1 = pathOf F2' l2) : d1'.toVal (d1'.get l1) = d2'.toVal (d2'.get l2) := by
  obtain ⟨a1, _, _, _⟩ := history_simulates_tree_wf h1 w1 s1 g1
  obtain ⟨a2, _, _, _⟩ := history_simulates_tree_wf h2 w2 s2 g2
  have e1 := getAt_pathOf a1 hl1
  have e2 := getAt_pathOf a2 hl2
  rw [history_kind_irrelevant h1 h2 w1 s1 g1 w2 s2 g2 he, hp, e2] at e1
  exact (Option.some.inj e1).symm

end C14

/-! ## Non-vacuity (geometry ⟨4,1,1⟩; documents with a slot id ≥ 1 do not evaluate in the kernel: facts about them are
   derived from the refinement theorems, as in AJ/Props/C04Rem.lean) -/
namespace C14.ExH
open DL C04 C04.Ex C04.Ex3
open JD (Byte Val)

/-! ### A. `[]`, then `add`, then `[0] := "hi"`: linked versus copied -/
def opL : Op2 := .base (.put (.slot 0) (.strLinked hi))
def opC : Op2 := .base (.put (.slot 0) (.strCopied hi))
/-- the abstract history both stand for -/
def asA : List AOp := [.add [], .put [0] (.str hi)]

theorem ok1 : op1.Succ e1 := by show (e1.addElement .root).1 ≠ none; decide +kernel
theorem p0 : pathOf FF1 (.slot 0) = [0] := by decide +kernel
theorem vL : opL.Valid dd1 FF1 := ⟨by show 0 ∈ FF1.locs; decide +kernel, by decide +kernel, by decide +kernel⟩
theorem vC : opC.Valid dd1 FF1 := ⟨by show 0 ∈ FF1.locs; decide +kernel, by decide +kernel, by decide +kernel⟩

theorem histL : HistA e1 .nil asA (opL.run dd1) (opL.layout dd1 FF1) := by
  have h := HistA.cons op1 v1 ok1 (HistA.cons opL vL trivial (HistA.nil _ _))
  have e : opL.toA (op1.layout e1 .nil) = .put [0] (.str hi) := by
    show AOp.put (pathOf FF1 (.slot 0)) _ = _; rw [p0]; rfl
  rw [e] at h; exact h
theorem histC : HistA e1 .nil asA (opC.run dd1) (opC.layout dd1 FF1) := by
  have h := HistA.cons op1 v1 ok1 (HistA.cons opC vC trivial (HistA.nil _ _))
  have e : opC.toA (op1.layout e1 .nil) = .put [0] (.str hi) := by
    show AOp.put (pathOf FF1 (.slot 0)) _ = _; rw [p0]; rfl
  rw [e] at h; exact h

/-- `history_simulates_tree` applies: the slot-level history computes what the tree machine computes, `["hi"]` -/
example : abs (opC.run dd1) = ARun (.arr []) asA ∧ ARun (.arr []) asA = .arr [.str hi] :=
  ⟨history_simulates_tree histC w1 C04.Ex2.s1 gok, rfl⟩

/-- `history_kind_irrelevant` applies: the linked and the copied history end with the same abstract value, although
    the stores differ (no string node versus one string node) -/
example : abs (opL.run dd1) = abs (opC.run dd1) ∧ (opL.run dd1).strings.length = 0 ∧ (opC.run dd1).strings.length = 1 :=
  ⟨history_kind_irrelevant histL histC w1 C04.Ex2.s1 gok w1 C04.Ex2.s1 gok rfl, by decide +kernel, by decide +kernel⟩

/-! ### B. de-duplication: `{}`, then `root["hi"]`, then `root["hi"] := "hi"`. Copied: the key and the value share ONE
   string node (reference count 2); linked: no node at all. Same abstract document `{"hi":"hi"}`. -/
def kC : Op2 := .member .root hi false
def kL : Op2 := .member .root hi true
def pC : Op2 := .base (.put (.slot 1) (.strCopied hi))
def pL : Op2 := .base (.put (.slot 1) (.strLinked hi))
def asB : List AOp := [.member [] hi, .put [0] (.str hi)]

theorem vk (b : Bool) : (Op2.member .root hi b).Valid eo .nil := ⟨trivial, Or.inr ⟨255, 255, rfl⟩⟩
theorem okC : kC.Succ eo := by show (eo.getOrAddMember .root hi false).1 ≠ none; decide +kernel
theorem okL : kL.Succ eo := by show (eo.getOrAddMember .root hi true).1 ≠ none; decide +kernel
theorem layC : kC.layout eo .nil = H1 := by decide +kernel
theorem layL : kL.layout eo .nil = H1 := by decide +kernel
theorem p1 : pathOf H1 (.slot 1) = [0] := by decide +kernel

/-- `{"hi": null}` with a linked key: value slot 1 holds null -/
theorem wm1' : m1.get (.slot 1) = .null := by
  obtain ⟨_, hok⟩ := getOrAddMember_absent (linked := true) wo so gok (l := .root) trivial (Or.inr ⟨255, 255, rfl⟩) (mo hi)
  obtain ⟨_, _, _, _, _, _, _, _, _, a9, _⟩ := hok 1 (by decide +kernel)
  exact a9

/-- the copied run unfolded: slots 0 (key) and 1 (value), the key bytes saved in the string table -/
theorem eC : eo.getOrAddMember .root hi false =
    (some 1, ((a2.saveString hi).2.set (.slot 0) (.owned 0)).appendPair .root 0 1) := by
  rw [getOrAddMember_absent_eq wo so (l := .root) trivial (Or.inr ⟨255, 255, rfl⟩) (mo hi)]
  show eo.addMember .root hi false = _
  exact addMember_copied_eq (Prod.ext (by decide +kernel) rfl : eo.allocVariant = (some 0, a1))
    (Prod.ext (by decide +kernel) rfl : a1.allocVariant = (some 1, a2))
    (Prod.ext (by decide +kernel) rfl : a2.saveString hi = (some 0, (a2.saveString hi).2))
theorem eL : eo.getOrAddMember .root hi true = (some 1, (a2.set (.slot 0) (.linked hi)).appendPair .root 0 1) := by
  rw [getOrAddMember_absent_eq wo so (l := .root) trivial (Or.inr ⟨255, 255, rfl⟩) (mo hi)]
  show eo.addMember .root hi true = _
  exact addMember_linked_eq (Prod.ext (by decide +kernel) rfl : eo.allocVariant = (some 0, a1))
    (Prod.ext (by decide +kernel) rfl : a1.allocVariant = (some 1, a2))

/-- after the copied `root["hi"]`: one string node, referenced once (by the key) -/
theorem c1_strings : (kC.run eo).strings = [⟨0, hi, 1⟩] := by
  show (eo.getOrAddMember .root hi false).2.strings = _
  rw [eC]; show (((a2.saveString hi).2.set (.slot 0) (.owned 0)).appendPair .root 0 1).strings = _
  rw [appendPair_strings, set_strings]; decide +kernel
theorem c1_ov : (kC.run eo).overflowed = false := by
  show (eo.getOrAddMember .root hi false).2.overflowed = _
  rw [eC]; show (((a2.saveString hi).2.set (.slot 0) (.owned 0)).appendPair .root 0 1).overflowed = _
  rw [appendPair_overflowed, set_overflowed]; decide +kernel
theorem c1_find : (kC.run eo).strings.find? (·.bytes == hi) = some ⟨0, hi, 1⟩ := by rw [c1_strings]; rfl
theorem m1_strings : (kL.run eo).strings = [] := by
  show (eo.getOrAddMember .root hi true).2.strings = _
  rw [eL]; show ((a2.set (.slot 0) (.linked hi)).appendPair .root 0 1).strings = _
  rw [appendPair_strings, set_strings]; decide +kernel
theorem m1_ov : (kL.run eo).overflowed = false := by
  show (eo.getOrAddMember .root hi true).2.overflowed = _
  rw [eL]; show ((a2.set (.slot 0) (.linked hi)).appendPair .root 0 1).overflowed = _
  rw [appendPair_overflowed, set_overflowed]; decide +kernel

theorem vpC : pC.Valid (kC.run eo) (kC.layout eo .nil) := by
  rw [layC]
  refine ⟨by show 1 ∈ H1.locs; decide +kernel, wc1.2.2.2.2, ?_⟩
  rw [setArg_copied_fst, saveString_found c1_find]
  show (!(kC.run eo).overflowed) = true
  rw [c1_ov]; rfl
theorem vpL : pL.Valid (kL.run eo) (kL.layout eo .nil) := by
  rw [layL]
  refine ⟨by show 1 ∈ H1.locs; decide +kernel, wm1', ?_⟩
  rw [setArg_linked_fst, m1_ov]; rfl

theorem histBC : HistA eo .nil asB (pC.run (kC.run eo)) (pC.layout (kC.run eo) (kC.layout eo .nil)) := by
  have h := HistA.cons kC (vk false) okC (HistA.cons pC vpC trivial (HistA.nil _ _))
  have e : pC.toA (kC.layout eo .nil) = .put [0] (.str hi) := by
    rw [layC]; show AOp.put (pathOf H1 (.slot 1)) _ = _; rw [p1]; rfl
  rw [e] at h; exact h
theorem histBL : HistA eo .nil asB (pL.run (kL.run eo)) (pL.layout (kL.run eo) (kL.layout eo .nil)) := by
  have h := HistA.cons kL (vk true) okL (HistA.cons pL vpL trivial (HistA.nil _ _))
  have e : pL.toA (kL.layout eo .nil) = .put [0] (.str hi) := by
    rw [layL]; show AOp.put (pathOf H1 (.slot 1)) _ = _; rw [p1]; rfl
  rw [e] at h; exact h

/-- `history_kind_irrelevant` applies, and the sharing is real: in the copied run ONE node with reference count 2 holds
    both the key and the value; in the linked run the string table is empty; the abstract documents are equal, and
    equal to what the tree machine computes, `{"hi":"hi"}` -/
example : abs (pC.run (kC.run eo)) = abs (pL.run (kL.run eo)) ∧
    abs (pC.run (kC.run eo)) = .obj [(hi, .str hi)] ∧
    (pC.run (kC.run eo)).strings.map (fun n => (n.bytes, n.refs)) = [(hi, 2)] ∧
    (pL.run (kL.run eo)).strings.length = 0 :=
  ⟨history_kind_irrelevant histBC histBL wo so gok wo so gok rfl,
   (history_simulates_tree histBC wo so gok).trans rfl,
   by show ((kC.run eo).setArg (.slot 1) (.strCopied hi)).2.strings.map _ = _
      rw [setArg_copied_strings, saveString_found c1_find]
      show ((kC.run eo).strings.map _).map _ = _
      rw [c1_strings]; rfl,
   by show ((kL.run eo).setArg (.slot 1) (.strLinked hi)).2.strings.length = 0
      rw [setArg_linked_strings, m1_strings]; rfl⟩

/-! ### C. frame: `[null, null]`, then `[1] := "hi"` (linked): element 0 keeps its path and its value -/
theorem toVal_eq_null {d : Doc} {v : VData} (h : d.toVal v = .null) : v = .null := by
  cases v <;> first | rfl | (simp [Doc.toVal, Doc.fuel, Doc.toValF] at h)

def qC : Op2 := .base (.put (.slot 1) (.strLinked hi))
theorem pg1 : pathOf G2 (.slot 1) = [1] := by decide +kernel
theorem pg0 : pathOf G2 (.slot 0) = [0] := by decide +kernel
theorem b2_slot1 : b2.get (.slot 1) = .null := by
  obtain ⟨w, _, _, habs⟩ := wb2
  have := getAt_pathOf w (l := .slot 1) (by show 1 ∈ G2.locs; decide +kernel)
  rw [pg1, habs] at this
  exact toVal_eq_null (Option.some.inj this).symm
theorem b2_ov : b2.overflowed = false := by
  have h1 : b1.overflowed = e1.overflowed := addElement_overflowed_some (id := 0) (by decide +kernel)
  have h2 : b2.overflowed = b1.overflowed := addElement_overflowed_some (id := 1) (by decide +kernel)
  rw [h2, h1]; rfl
theorem vq : qC.Valid b2 G2 :=
  ⟨by show 1 ∈ G2.locs; decide +kernel, b2_slot1, by rw [setArg_linked_fst, b2_ov]; rfl⟩
theorem histQ : HistA b2 G2 [qC.toA G2] (qC.run b2) (qC.layout b2 G2) := HistA.cons qC vq trivial (HistA.nil _ _)

/-- `mutation_changes_only_target` applies: a reference to element 0 still designates the same value (null), at the same
    path, after element 1 was set; and the document is `[null, "hi"]` -/
example : isLoc (qC.layout b2 G2) (.slot 0) ∧ pathOf (qC.layout b2 G2) (.slot 0) = pathOf G2 (.slot 0) ∧
    (qC.run b2).toVal ((qC.run b2).get (.slot 0)) = b2.toVal (b2.get (.slot 0)) ∧
    abs (qC.run b2) = .arr [.null, .str hi] := by
  obtain ⟨w, s, g, habs⟩ := wb2
  have gk : PL.GeoOK b2.g := by rw [g]; exact gok
  obtain ⟨a, b, c⟩ := mutation_changes_only_target histQ w s gk (.slot 0) (by show 0 ∈ G2.locs; decide +kernel)
    (by intro a ha
        simp only [List.mem_singleton] at ha; subst ha
        rw [Op2.toA_path]; show Diverge (pathOf G2 (.slot 1)) (pathOf G2 (.slot 0))
        rw [pg1, pg0]; exact Or.inl (by decide))
  refine ⟨a, b, c, ?_⟩
  rw [history_simulates_tree histQ w s gk, habs]
  show ARun _ [AOp.put (pathOf G2 (.slot 1)) _] = _
  rw [pg1]; rfl

/-- `history_simulates_tree_of_flag` applies to the underlying `Hist2` history: its overflow flag is down -/
example : ∃ as, HistA b2 G2 as (qC.run b2) (qC.layout b2 G2) ∧ abs (qC.run b2) = ARun (abs b2) as := by
  obtain ⟨w, s, g, _⟩ := wb2
  exact history_simulates_tree_of_flag histQ.hist2 w s (by rw [g]; exact gok)
    (by show (b2.set (.slot 1) (.linked hi)).overflowed = false; rw [set_overflowed]; exact b2_ov)

/-! ### D. read-only: on `{"hi": null}` (copied key), `root["hi"]` then `root.remove("k2")` change nothing -/
def r1 : Op2 := .member .root hi true
def r2 : Op2 := .removeMember .root k2

example : ∃ d' F', RoHist c1 H1 d' F' ∧ d' = c1 ∧ F' = H1 := by
  obtain ⟨w, _, habs, _, _⟩ := wc1
  have htv : c1.toVal (c1.get .root) = .obj [(hi, .null)] := habs
  obtain ⟨h, t, hv⟩ := toVal_obj_inv htv
  have hv1 : r1.Valid c1 H1 := ⟨trivial, Or.inr ⟨h, t, hv⟩⟩
  have hr1 : r1.ReadOnly c1 := ⟨(hi, .null), by rw [mc1]; rfl⟩
  obtain ⟨e1, e2⟩ := readonly_step w hv1 hr1
  have hv2 : r2.Valid c1 H1 := ⟨trivial, h, t, hv⟩
  have hr2 : r2.ReadOnly c1 := by
    obtain ⟨ms, hms, hfk⟩ := findKey_first w (l := .root) trivial hv k2
    have hm : ms = [(hi, .null)] := by rw [htv] at hms; injection hms with e; exact e.symm
    subst hm
    show c1.findKey .root k2 = none
    cases hf : c1.findKey .root k2 with
    | none => rfl
    | some p =>
      have hnone : List.find? (fun m : List Byte × Val => m.1 == k2) [(hi, .null)] = none := rfl
      rw [hf, hnone] at hfk; cases hfk
  have hh : RoHist c1 H1 (r2.run (r1.run c1)) (r2.layout (r1.run c1) (r1.layout c1 H1)) :=
    RoHist.cons r1 hv1 hr1 (RoHist.cons r2 (by rw [e1, e2]; exact hv2) (by rw [e1]; exact hr2) (RoHist.nil _ _))
  obtain ⟨⟨x, y⟩, _⟩ := readonly_changes_nothing hh w
  exact ⟨_, _, hh, x, y⟩

end C14.ExH
