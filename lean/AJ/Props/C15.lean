/- C15 — nesting limit: a document obtained with Ok has nesting() ≤ L (JSON unfiltered, JSON filtered, MessagePack);
   TooDeep is reported as soon as a container is opened at depth L+1 (also in parts that a filter discards).
   Property theorems only; helper lemmas live in AJ/Lemmas/Depth.lean. -/
import AJ.Lemmas.Depth
import AJ.Lemmas.DepthMono
namespace C15
open JD

/-- JSON, unfiltered: a value returned with Ok has nesting depth ≤ the nesting limit. -/
theorem json_ok_depth (cfg : Cfg) (L : Nat) (input : List Byte)
    (h : (JD.run cfg L input).1 = .ok) : depth (JD.run cfg L input).2.1 ≤ L := by
  have h0 := (okd_mutual (cfg := cfg) (2 * input.length + 4)).1 L ({ l := { unread := input } } : St)
  revert h
  simp only [JD.run]
  split
  · rename_i v s heq; rw [heq] at h0
    split
    · intro h; cases h
    · intro _; exact h0 rfl
  · rename_i e v s hne heq
    intro h; exact absurd h hne

-- `[[1]]` with L = 2 is accepted and has depth exactly 2 (the bound is attained); with L = 1 it is TooDeep after 2 bytes
example : (JD.run {} 2 [0x5B, 0x5B, 0x31, 0x5D, 0x5D]).1 = .ok ∧
    depth (JD.run {} 2 [0x5B, 0x5B, 0x31, 0x5D, 0x5D]).2.1 = 2 := by decide +kernel
example : (JD.run {} 1 [0x5B, 0x5B, 0x31, 0x5D, 0x5D]).1 = .tooDeep ∧
    (JD.run {} 1 [0x5B, 0x5B, 0x31, 0x5D, 0x5D]).2.2 = 2 := by decide +kernel

/-- JSON with a filter: a value returned with Ok has nesting depth ≤ the nesting limit. -/
theorem json_filtered_ok_depth (cfg : Cfg) (L : Nat) (flt : Flt) (input : List Byte)
    (h : (JD.frun cfg L flt input).1 = .ok) : depth (JD.frun cfg L flt input).2.1 ≤ L := by
  have h0 := (fokd_mutual (cfg := cfg) (2 * input.length + 4)).1 L flt ({ l := { unread := input } } : St)
  revert h
  simp only [JD.frun]
  split
  · rename_i v s heq; rw [heq] at h0
    split
    · intro h; cases h
    · intro _; exact h0 rfl
  · rename_i e v s hne heq
    intro h; exact absurd h hne

-- `{"a":[1]}` through the allow-all filter: Ok, depth 2 = L
example : (JD.frun {} 2 .all [0x7B, 0x22, 0x61, 0x22, 0x3A, 0x5B, 0x31, 0x5D, 0x7D]).1 = .ok ∧
    depth (JD.frun {} 2 .all [0x7B, 0x22, 0x61, 0x22, 0x3A, 0x5B, 0x31, 0x5D, 0x7D]).2.1 = 2 := by decide +kernel
-- `[[1]]` under the filter `false` (everything discarded): Ok with L = 2 (value null), but still TooDeep with L = 1
example : (JD.frun {} 2 (.doc (some (.bool false))) [0x5B, 0x5B, 0x31, 0x5D, 0x5D]).1 = .ok ∧
    depth (JD.frun {} 2 (.doc (some (.bool false))) [0x5B, 0x5B, 0x31, 0x5D, 0x5D]).2.1 = 0 := by decide +kernel
example : (JD.frun {} 1 (.doc (some (.bool false))) [0x5B, 0x5B, 0x31, 0x5D, 0x5D]).1 = .tooDeep ∧
    (JD.frun {} 1 (.doc (some (.bool false))) [0x5B, 0x5B, 0x31, 0x5D, 0x5D]).2.2 = 2 := by decide +kernel

/-- MessagePack (with or without filter): a value returned with Ok has nesting depth ≤ the nesting limit. -/
theorem msgpack_ok_depth (env : MD.Env) (L : Nat) (flt : Flt) (input : List Byte)
    (h : (MD.run env L flt input).1 = .ok) : depth (MD.run env L flt input).2.1 ≤ L := by
  have h0 := (okm_mutual (env := env) (2 * input.length + 4)).1 L flt true ({ unread := input } : MD.R)
  revert h
  simp only [MD.run]
  generalize MD.parseVariant env (2 * input.length + 4) L flt true { unread := input } = x at h0 ⊢
  obtain ⟨e, v, r, found⟩ := x
  simp only
  intro h
  cases found
  · simp at h
  · simp only [↓reduceIte] at h; exact h0 h

-- MessagePack `[[1]]` = 91 91 01
example : (MD.run {} 2 .all [0x91, 0x91, 0x01]).1 = .ok ∧ depth (MD.run {} 2 .all [0x91, 0x91, 0x01]).2.1 = 2 := by
  decide +kernel
example : (MD.run {} 1 .all [0x91, 0x91, 0x01]).1 = .tooDeep ∧ (MD.run {} 1 .all [0x91, 0x91, 0x01]).2.2 = 2 := by
  decide +kernel

/-- With limit 0 no container routine is ever entered: an Ok result is a scalar (all three parsers). -/
theorem limit_zero_scalar (cfg : Cfg) (fuel : Nat) (s : St) (h : (parseVariant cfg fuel 0 s).1 = .ok) :
    depth (parseVariant cfg fuel 0 s).2.1 = 0 :=
  Nat.le_zero.mp ((okd_mutual (cfg := cfg) fuel).1 0 s h)

theorem limit_zero_scalar_filtered (cfg : Cfg) (fuel : Nat) (flt : Flt) (s : St)
    (h : (fparseVariant cfg fuel 0 flt s).1 = .ok) : depth (fparseVariant cfg fuel 0 flt s).2.1 = 0 :=
  Nat.le_zero.mp ((fokd_mutual (cfg := cfg) fuel).1 0 flt s h)

theorem limit_zero_scalar_msgpack (env : MD.Env) (fuel : Nat) (flt : Flt) (b : Bool) (r : MD.R)
    (h : (MD.parseVariant env fuel 0 flt b r).1 = .ok) : depth (MD.parseVariant env fuel 0 flt b r).2.1 = 0 :=
  Nat.le_zero.mp ((okm_mutual (env := env) fuel).1 0 flt b r h)

/-- every element / member value is parsed with the limit of the enclosing container routine, which is one less than
    the limit of the `parseVariant` call that opened the container: the values collected by `parseElems … limit`
    have depth ≤ limit, so the array has depth ≤ limit + 1. -/
theorem limit_monotone (cfg : Cfg) (fuel limit : Nat) (s : St) (acc : List Val) (hacc : depthList acc ≤ limit)
    (h : (parseElems cfg fuel limit s acc).1 = .ok) : depth (parseElems cfg fuel limit s acc).2.1 ≤ limit + 1 :=
  (okd_mutual (cfg := cfg) fuel).2.1 limit s acc hacc h

theorem limit_monotone_members (cfg : Cfg) (fuel limit : Nat) (s : St) (ms : List (List Byte × Val))
    (hms : depthMembers ms ≤ limit) (h : (parseMembers cfg fuel limit s ms).1 = .ok) :
    depth (parseMembers cfg fuel limit s ms).2.1 ≤ limit + 1 :=
  (okd_mutual (cfg := cfg) fuel).2.2 limit s ms hms h

/-! ### TooDeep "as soon as" the (L+1)-th container is opened -/

private theorem run_fuel_ok {wss : List (List Byte)} {rest : List Byte} :
    2 * (opens wss).length ≤ 2 * (opens wss ++ rest).length + 4 + 1 := by
  simp only [List.length_append]; omega

/-- JSON, any flags: if the input is `w₀ [ w₁ [ … w_L [ rest` (L+1 opening brackets, each preceded by arbitrary
    whitespace `wᵢ`), the result is TooDeep and the reader has taken exactly the bytes up to and including the
    (L+1)-th bracket — nothing of `rest` is looked at. -/
theorem toodeep_at_limit_ws (cfg : Cfg) (L : Nat) (wss : List (List Byte)) (rest : List Byte)
    (hlen : wss.length = L + 1) (hws : AllWs wss) :
    (JD.run cfg L (opens wss ++ rest)).1 = .tooDeep ∧ (JD.run cfg L (opens wss ++ rest)).2.2 = (opens wss).length := by
  obtain ⟨v, s', hpv, hat, hinv⟩ := pv_toodeep (cfg := cfg) L wss (2 * (opens wss ++ rest).length + 4)
    ({ l := { unread := opens wss ++ rest } } : St) rest hlen hws run_fuel_ok (by simp [stream])
  have hi := hinv (opens wss ++ rest).length (by simp [JD.Inv])
  obtain ⟨_, _, hu⟩ := hat
  unfold JD.Inv at hi
  rw [hu] at hi
  simp only [List.length_append] at hi
  simp only [JD.run, hpv]
  exact ⟨trivial, by omega⟩

-- ` [\n\t[1]]` with L = 1: TooDeep after the 5 bytes ` [\n\t[`
example : (JD.run {} 1 ([0x20, 0x5B, 0x0A, 0x09, 0x5B] ++ [0x31, 0x5D, 0x5D])).1 = .tooDeep ∧
    (JD.run {} 1 ([0x20, 0x5B, 0x0A, 0x09, 0x5B] ++ [0x31, 0x5D, 0x5D])).2.2 = 5 :=
  toodeep_at_limit_ws {} 1 [[0x20], [0x0A, 0x09]] [0x31, 0x5D, 0x5D] rfl (by unfold AllWs; decide)

theorem toodeep_at_limit (cfg : Cfg) (L : Nat) (rest : List Byte) :
    (JD.run cfg L (List.replicate (L+1) 0x5B ++ rest)).1 = .tooDeep ∧
    (JD.run cfg L (List.replicate (L+1) 0x5B ++ rest)).2.2 = L + 1 := by
  have h := toodeep_at_limit_ws cfg L (List.replicate (L+1) []) rest (by simp)
    (by intro w hw; rw [List.eq_of_mem_replicate hw]; intro c hc; cases hc)
  rw [opens_replicate_nil] at h
  simpa using h

example : (JD.run {} 10 (List.replicate (10+1) 0x5B ++ [0x31])).1 = .tooDeep ∧
    (JD.run {} 10 (List.replicate (10+1) 0x5B ++ [0x31])).2.2 = 11 := toodeep_at_limit {} 10 [0x31]

/-- the same with a filter, whatever it is: also when the brackets lie in a part that the filter discards -/
theorem toodeep_at_limit_filtered_ws (cfg : Cfg) (L : Nat) (flt : Flt) (wss : List (List Byte)) (rest : List Byte)
    (hlen : wss.length = L + 1) (hws : AllWs wss) :
    (JD.frun cfg L flt (opens wss ++ rest)).1 = .tooDeep ∧
    (JD.frun cfg L flt (opens wss ++ rest)).2.2 = (opens wss).length := by
  obtain ⟨v, s', hpv, hat, hinv⟩ := fpv_toodeep (cfg := cfg) L wss (2 * (opens wss ++ rest).length + 4) flt
    ({ l := { unread := opens wss ++ rest } } : St) rest hlen hws run_fuel_ok (by simp [stream])
  have hi := hinv (opens wss ++ rest).length (by simp [JD.Inv])
  obtain ⟨_, _, hu⟩ := hat
  unfold JD.Inv at hi
  rw [hu] at hi
  simp only [List.length_append] at hi
  simp only [JD.frun, hpv]
  exact ⟨trivial, by omega⟩

theorem toodeep_at_limit_filtered (cfg : Cfg) (L : Nat) (flt : Flt) (rest : List Byte) :
    (JD.frun cfg L flt (List.replicate (L+1) 0x5B ++ rest)).1 = .tooDeep ∧
    (JD.frun cfg L flt (List.replicate (L+1) 0x5B ++ rest)).2.2 = L + 1 := by
  have h := toodeep_at_limit_filtered_ws cfg L flt (List.replicate (L+1) []) rest (by simp)
    (by intro w hw; rw [List.eq_of_mem_replicate hw]; intro c hc; cases hc)
  rw [opens_replicate_nil] at h
  simpa using h

-- discarded by the filter `{"k":true}` (an object filter does not allow arrays), yet TooDeep after 3 bytes
example : (JD.frun {} 2 (.doc (some (.obj [([0x6B], .bool true)]))) (List.replicate (2+1) 0x5B ++ [0x5D])).1 = .tooDeep ∧
    (JD.frun {} 2 (.doc (some (.obj [([0x6B], .bool true)]))) (List.replicate (2+1) 0x5B ++ [0x5D])).2.2 = 3 :=
  toodeep_at_limit_filtered {} 2 _ [0x5D]

/-- MessagePack, any filter: L+1 nested one-element array headers (0x91) give TooDeep after exactly L+1 bytes -/
theorem msgpack_toodeep_at_limit (env : MD.Env) (L : Nat) (flt : Flt) (rest : List Byte) :
    (MD.run env L flt (List.replicate (L+1) 0x91 ++ rest)).1 = .tooDeep ∧
    (MD.run env L flt (List.replicate (L+1) 0x91 ++ rest)).2.2 = L + 1 := by
  obtain ⟨v, r', hv, _, hp⟩ := mp_toodeep (env := env) L (2 * (List.replicate (L+1) 0x91 ++ rest).length + 4) flt true
    { unread := List.replicate (L+1) 0x91 ++ rest } rest (by simp; omega) rfl
  simp only [MD.run, hv, hp]
  simp

example : (MD.run {} 2 (.doc none) (List.replicate (2+1) 0x91 ++ [0x01])).1 = .tooDeep ∧
    (MD.run {} 2 (.doc none) (List.replicate (2+1) 0x91 ++ [0x01])).2.2 = 3 := msgpack_toodeep_at_limit {} 2 _ [0x01]

/-! ### "and never otherwise": the limit has no other effect than TooDeep

If the outcome with limit L is anything but TooDeep, then every larger limit gives exactly the same result (same code,
same document, same number of bytes read). Hence, for a given input, TooDeep is reported with limit L exactly when the
limit-free behaviour is not reproduced, i.e. when some container is opened beyond depth L. -/

theorem json_limit_only_toodeep (cfg : Cfg) (L L' : Nat) (input : List Byte) (hle : L ≤ L')
    (h : (JD.run cfg L input).1 ≠ .tooDeep) : JD.run cfg L' input = JD.run cfg L input := by
  obtain ⟨k, rfl⟩ := Nat.exists_eq_add_of_le hle
  have hpv : (parseVariant cfg (2 * input.length + 4) L { l := { unread := input } }).1 ≠ .tooDeep := by
    intro hc
    apply h
    simp only [JD.run]
    generalize parseVariant cfg (2 * input.length + 4) L { l := { unread := input } } = x at hc ⊢
    obtain ⟨e, v, s⟩ := x
    simp only at hc
    subst hc
    rfl
  have : parseVariant cfg (2 * input.length + 4) (L + k) { l := { unread := input } } =
      parseVariant cfg (2 * input.length + 4) L { l := { unread := input } } :=
    same_add (fun l => parseVariant cfg (2 * input.length + 4) l { l := { unread := input } })
      (fun l => (mono_mutual (cfg := cfg) _).1 l _) L k hpv
  simp only [JD.run, this]

theorem json_filtered_limit_only_toodeep (cfg : Cfg) (L L' : Nat) (flt : Flt) (input : List Byte) (hle : L ≤ L')
    (h : (JD.frun cfg L flt input).1 ≠ .tooDeep) : JD.frun cfg L' flt input = JD.frun cfg L flt input := by
  obtain ⟨k, rfl⟩ := Nat.exists_eq_add_of_le hle
  have hpv : (fparseVariant cfg (2 * input.length + 4) L flt { l := { unread := input } }).1 ≠ .tooDeep := by
    intro hc
    apply h
    simp only [JD.frun]
    generalize fparseVariant cfg (2 * input.length + 4) L flt { l := { unread := input } } = x at hc ⊢
    obtain ⟨e, v, s⟩ := x
    simp only at hc
    subst hc
    rfl
  have : fparseVariant cfg (2 * input.length + 4) (L + k) flt { l := { unread := input } } =
      fparseVariant cfg (2 * input.length + 4) L flt { l := { unread := input } } :=
    same_add (fun l => fparseVariant cfg (2 * input.length + 4) l flt { l := { unread := input } })
      (fun l => (mono_fmutual (cfg := cfg) _).1 l _ _) L k hpv
  simp only [JD.frun, this]

theorem msgpack_limit_only_toodeep (env : MD.Env) (L L' : Nat) (flt : Flt) (input : List Byte) (hle : L ≤ L')
    (h : (MD.run env L flt input).1 ≠ .tooDeep) : MD.run env L' flt input = MD.run env L flt input := by
  obtain ⟨k, rfl⟩ := Nat.exists_eq_add_of_le hle
  by_cases hpv : (MD.parseVariant env (2 * input.length + 4) L flt true { unread := input }).1 = .tooDeep
  · -- then the reader result is TooDeep unless nothing was found; `found` is false only for Incomplete at the first byte
    exfalso
    apply h
    simp only [MD.run]
    have hf := mp_toodeep_found env (2 * input.length + 4) L flt true { unread := input } hpv
    generalize MD.parseVariant env (2 * input.length + 4) L flt true { unread := input } = x at hpv hf ⊢
    obtain ⟨e, v, r, found⟩ := x
    simp only at hpv hf
    subst hpv hf
    rfl
  · have : MD.parseVariant env (2 * input.length + 4) (L + k) flt true { unread := input } =
        MD.parseVariant env (2 * input.length + 4) L flt true { unread := input } :=
      same_add (fun l => MD.parseVariant env (2 * input.length + 4) l flt true { unread := input })
        (fun l => (mono_mmutual (env := env) _).1 l _ _ _) L k hpv
    simp only [MD.run, this]

-- `[[1]]`: TooDeep with L = 1, and from L = 2 on the result no longer depends on the limit
example : JD.run {} 10 [0x5B, 0x5B, 0x31, 0x5D, 0x5D] = JD.run {} 2 [0x5B, 0x5B, 0x31, 0x5D, 0x5D] :=
  json_limit_only_toodeep {} 2 10 _ (by decide) (by decide +kernel)

end C15
