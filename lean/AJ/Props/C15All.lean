/- Aggregate: C15 depth theorems (C15.lean) and their slot-level form (namespace C15 of C01Doc.lean). -/
import AJ.Props.C15
import AJ.Props.C01Doc
import AJ.Props.C09Doc
import AJ.Props.SlotCor2
import AJ.Props.C15Gen
