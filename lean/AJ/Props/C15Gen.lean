/- Nesting limits and streams, tied to the source by translation: `lean/AJ/Gen/Tables.lean` is regenerated on every run by calling the compiled library on
   k nested arrays with nesting limit L for k, L in 0..12 (JSON and MessagePack: code and document left, partial documents included) and on 12 streams of documents read by
   successive calls on one reader; the theorems evaluate the deserializer models and the stream loop of lean/AJ/Lemmas/StreamSeq.lean on the same data in the kernel. -/
import AJ.Model.JD
import AJ.Model.JSer
import AJ.Model.MD
import AJ.Lemmas.StreamSeq
open JD

namespace C15

def dCodeNo : Code → Nat
  | .ok => 0 | .empty => 1 | .incomplete => 2 | .invalid => 3 | .noMemory => 4 | .tooDeep => 5 | .fuel => 9

def jsonNest (k : Nat) : List Byte := List.replicate k 0x5B ++ [0x31] ++ List.replicate k 0x5D
def mpNest (k : Nat) : List Byte := List.replicate k 0x91 ++ [0x01]

/-- **the limit, every (depth, limit) pair up to 12**: code and document left (partial documents included) are the library's, JSON and MessagePack -/
theorem nesting_limit_table_is_source :
    Gen.depth_rows.all (fun r =>
      let j := JD.run {} r.2.1 (jsonNest r.1)
      let m := MD.run {} r.2.1 .all (mpNest r.1)
      dCodeNo j.1 == r.2.2.1 && (JSer.compact {} j.2.1).map (·.toNat) == r.2.2.2.1 &&
      dCodeNo m.1 == r.2.2.2.2.1 && (JSer.compact {} m.2.1).map (·.toNat) == r.2.2.2.2.2) = true ∧ Gen.depth_rows.length = 169 := by decide +kernel

end C15

namespace C16
open C15

/-- **streams**: the successive calls of the model's stream loop return, call by call, the codes and documents the library returns -/
theorem stream_table_is_source :
    Gen.stream_rows.all (fun r =>
      (stream (JD.run {} 10) 8 (r.1.map UInt8.ofNat)).map (fun c => (dCodeNo c.1, (JSer.compact {} c.2).map (·.toNat))) == r.2) = true := by decide +kernel

end C16
