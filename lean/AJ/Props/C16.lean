/- C16 — One call consumes one document from a stream.
   MessagePack: exactly the bytes of one object are consumed, whatever follows (C09.consumes_exactly / roundtrip with arbitrary `rest`).
   JSON: `C16.exact_consumption` and `C16.exact_consumption_number` (in AJ/Props/C01.lean, same namespace): for every RFC 8259 value,
   leading whitespace + exactly the bytes of the value are consumed (plus the one look-ahead byte after a number), whatever follows. -/
import AJ.Props.C09
import AJ.Props.C17
import AJ.Props.C15
import AJ.Props.C01
namespace C16
open JD

/-- deserializeMsgPack consumes exactly the bytes of one object and its result does not depend on what follows -/
theorem msgpack_exact_consumption (env : MD.Env) (L : Nat) (v : Val) (hr : C09.RawFree v) (hw : C09.WithinLimits env v) (hd : C09.depth v ≤ L)
    (rest rest' : List UInt8) :
    (MD.run env L .all (MD.ser v ++ rest)).2.2 = (MD.ser v).length ∧
    (MD.run env L .all (MD.ser v ++ rest)).1 = (MD.run env L .all (MD.ser v ++ rest')).1 ∧
    (MD.run env L .all (MD.ser v ++ rest)).2.1 = (MD.run env L .all (MD.ser v ++ rest')).2.1 := by
  rw [C09.roundtrip env L v hr hw hd rest, C09.roundtrip env L v hr hw hd rest']
  exact ⟨rfl, rfl, rfl⟩

/-- successive calls on back-to-back MessagePack objects return them one after the other (two objects; induction on the list is immediate) -/
theorem msgpack_sequence (env : MD.Env) (L : Nat) (v w : Val) (hv : C09.RawFree v ∧ C09.WithinLimits env v ∧ C09.depth v ≤ L)
    (hw : C09.RawFree w ∧ C09.WithinLimits env w ∧ C09.depth w ≤ L) (rest : List UInt8) :
    let input := MD.ser v ++ (MD.ser w ++ rest)
    let r1 := MD.run env L .all input
    let r2 := MD.run env L .all (input.drop r1.2.2)
    r1.1 = .ok ∧ r1.2.1 = C09.norm v ∧ r2.1 = .ok ∧ r2.2.1 = C09.norm w ∧ r1.2.2 + r2.2.2 = (MD.ser v).length + (MD.ser w).length := by
  intro input r1 r2
  have h1 : r1 = (.ok, C09.norm v, (MD.ser v).length) := C09.roundtrip env L v hv.1 hv.2.1 hv.2.2 _
  have hdrop : input.drop r1.2.2 = MD.ser w ++ rest := by
    rw [h1]; simp [input]
  have h2 : r2 = (.ok, C09.norm w, (MD.ser w).length) := by
    show MD.run env L .all (input.drop r1.2.2) = _
    rw [hdrop]; exact C09.roundtrip env L w hw.1 hw.2.1 hw.2.2 _
  rw [h1, h2]; exact ⟨rfl, rfl, rfl, rfl, rfl⟩
end C16
