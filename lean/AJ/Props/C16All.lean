/- Aggregate: C16 single-call consumption (namespace C16 of C01.lean, C16.lean) and successive calls on streams of documents (C16Seq.lean). -/
import AJ.Props.C16
import AJ.Props.C16Seq
import AJ.Props.C09Doc
import AJ.Props.SlotCor
import AJ.Props.SlotCor2
import AJ.Props.C15Gen
