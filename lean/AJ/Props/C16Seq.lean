/- C16 — successive calls on a stream that is a concatenation of documents (NDJSON, JSON Lines, back-to-back MessagePack).

   `C16.stream f k t` (AJ/Lemmas/StreamSeq.lean): at most `k` calls of `f`, each on the bytes the previous call left,
   stopping after the first answer that is not `Ok` and when nothing is left — the `streamLoop` of the driver, which the
   correspondence suite `stream` compares with the real library. `f := JD.run cfg L` or `f := MD.run env L flt`.

   * `json_sequence_gen`, `json_sequence`, `json_sequence_exactly`: documents `w_i ++ body_i` of the dialect of
     AJ/Spec/Dialect.lean (white space / comments, then a value), any configuration, any nesting limit: the calls return the
     documents one after the other. Separator condition (`Sep`): only after a NUMBER, what follows must be empty or start
     with a white-space byte (the number's look-ahead takes it); after any other value nothing is required.
     With white space after the last document one more call answers `EmptyInput` (unless the number's look-ahead took the
     last byte).
   * `docs_step`: one call on a stream of documents, and what it leaves; `json_sequence_leftover`: what `n` calls leave.
   * `number_needs_separator`: the separator condition cannot be dropped (`1[2]` is `InvalidInput`).
   * `number_consumes_at_most_one_more`: bytes taken by one call.
   * `result_independent_of_rest`, `result_independent_of_rest'` (JSON), `msgpack_result_independent_of_rest` (uses
     `MD.run_incomplete_all`: `IncompleteInput` only when the whole input was consumed): the answer of a call — any code —
     does not depend on the bytes it did not take. `SeqExamples.end_of_input_matters`: the END of the input is not such a byte.
   * `msgpack_sequence_n`, `msgpack_sequence_take`, `msgpack_sequence_leftover` (any legal encodings `MD.Enc`, any filter),
     `msgpack_sequence_ser` (serializer output, no filter).
     (AJ/Props/C11Mp.lean cannot be imported together with AJ/Props/C09Prefix.lean — both families declare `MD.keyLenOf` —
     so the filtered documents are stated as "what a call on that object alone returns".)

   Chunking: the models read their input one byte at a time (JSON through a one-byte latch, MessagePack through
   `R.read`/`R.readBytes`) and `consumed` counts these bytes; how the real readers cut the stream into blocks
   (`std::istream`, block-buffered custom readers) is not visible in the model. That the real library gives the same
   answers and the same positions whatever the block size is checked by the correspondence suite `stream`, not here. -/
import AJ.Lemmas.StreamSeq
import AJ.Props.C16
import AJ.Props.C10Class
import AJ.Props.C09Prefix
set_option linter.unusedSimpArgs false
set_option linter.unusedVariables false
namespace C16
open JD Spec.Dialect

/-! ## JSON: one call -/

/-- one call on `white space ++ value ++ rest`: `Ok`, the value, and the bytes taken -/
theorem run_doc (cfg : Cfg) {L : Nat} {w body rest : List UInt8} {v : Val} (hw : DWs cfg w) (hv : Value cfg L body v)
    (htr : Trailer v rest) :
    JD.run cfg L (w ++ body ++ rest) =
      (.ok, v, w.length + body.length + (if isNumberVal v then min 1 rest.length else 0)) := by
  obtain ⟨h1, h2⟩ := C10.complete_doc cfg ⟨w, body, rest, rfl, hw, hv, htr⟩
  have h3 := C10.doc_pos cfg hw hv htr
  exact Prod.ext h1 (Prod.ext h2 h3)

/-- **C16 (bytes taken by one call).** On `w ++ body ++ rest` (`w` white space / comments, `body` a value text): exactly
    `|w| + |body|` bytes when the value is an object, an array, a string or a literal; when it is a number, one byte more
    if there is one (the look-ahead that ends the number). -/
theorem number_consumes_at_most_one_more (cfg : Cfg) {L : Nat} {w body rest : List UInt8} {v : Val} (hw : DWs cfg w)
    (hv : Value cfg L body v) (htr : Trailer v rest) :
    (JD.run cfg L (w ++ body ++ rest)).2.2 =
        w.length + body.length + (if isNumberVal v = true ∧ rest ≠ [] then 1 else 0) ∧
      (isNumberVal v = false → (JD.run cfg L (w ++ body ++ rest)).2.2 = w.length + body.length) ∧
      (JD.run cfg L (w ++ body ++ rest)).2.2 ≤ w.length + body.length + 1 := by
  rw [run_doc cfg hw hv htr]
  cases hn : isNumberVal v <;> cases rest <;> simp

/-- `EmptyInput` comes with the null document -/
theorem run_empty_null (cfg : Cfg) (L : Nat) (t : List UInt8) (h : (JD.run cfg L t).1 = .empty) :
    (JD.run cfg L t).2.1 = .null := by
  have hrun : JD.run cfg L t =
      (match parseVariant cfg (2 * t.length + 4) L { l := { unread := t } } with
       | (.ok, v, s) =>
         if s.l.cur != 0 && !isWs s.l.cur && isNumberVal v then (.invalid, v, s.l.pos) else (.ok, v, s.l.pos)
       | (e, v, s) => (e, v, s.l.pos)) := rfl
  have hfuel : 2 * t.length + 4 = (2 * t.length + 3) + 1 := rfl
  rw [hrun] at h ⊢
  have hpv : (parseVariant cfg (2 * t.length + 4) L { l := { unread := t } }).1 = .empty := by
    split at h
    · split at h <;> cases h
    · rename_i heq; rw [heq]; exact h
  rw [hfuel] at hpv ⊢
  have hss := parseVariant_empty cfg _ L _ hpv
  cases hq : skipSpaces cfg (2 * t.length + 3 + 1) { l := { unread := t } } with
  | mk e s' =>
    rw [hq] at hss
    simp only at hss
    subst hss
    simp only [parseVariant, hq]

/-- one call on non-empty white space: `EmptyInput`, null document -/
theorem run_ws (cfg : Cfg) (L : Nat) {w : List UInt8} (hw : DWs cfg w) :
    (JD.run cfg L w).1 = .empty ∧ (JD.run cfg L w).2.1 = .null := by
  have he : (JD.run cfg L w).1 = .empty := by
    rw [C10.empty_iff]
    have := text_of_prefix (w := w) (r' := []) (dws_no_nul hw) rfl
    rw [List.append_nil] at this
    unfold text at this
    rw [this]; exact hw
  exact ⟨he, run_empty_null cfg L w he⟩

/-! ## JSON: a sequence of documents -/

/-- a document of the stream: white space / comments `w`, then the value text `body`, which denotes `v` -/
structure JDoc where
  w : List UInt8
  body : List UInt8
  v : Val

/-- `w` is white space of the dialect and `body` a value text of the dialect (within the limits) denoting `v` -/
def JDoc.OK (cfg : Cfg) (L : Nat) (d : JDoc) : Prop := DWs cfg d.w ∧ Value cfg L d.body d.v

/-- the stream: the documents one after the other, then `rest` -/
def cat : List JDoc → List UInt8 → List UInt8
  | [], rest => rest
  | d :: ds, rest => d.w ++ d.body ++ cat ds rest

/-- **The separator condition.** After a document that is a NUMBER, what follows in the stream — the next document, or
    `rest` after the last one — is empty or starts with a white-space byte (or a NUL, which ends the input):
    `Trailer v next` is `isNumberVal v → next.headD 0 = 0 ∨ isWs (next.headD 0)`. After an object, an array, a string,
    `true`, `false`, `null`: no condition. -/
def Sep : List JDoc → List UInt8 → Prop
  | [], _ => True
  | d :: ds, rest => Trailer d.v (cat ds rest) ∧ Sep ds rest

/-- the usual way to satisfy `Sep`: a white-space byte -/
theorem trailer_of_ws (v : Val) (c : UInt8) (r : List UInt8) (hc : IsWsByte c) : Trailer v (c :: r) :=
  fun _ => Or.inr (ws_byte hc).2

theorem trailer_nil (v : Val) : Trailer v [] := fun _ => Or.inl rfl

theorem trailer_of_not_number {v : Val} (h : isNumberVal v = false) (r : List UInt8) : Trailer v r := by
  intro hn; rw [h] at hn; cases hn

/-- is the last document a number? -/
def lastIsNumber : List JDoc → Bool
  | [] => false
  | [d] => isNumberVal d.v
  | _ :: d :: ds => lastIsNumber (d :: ds)

/-- what the calls leave of `rest`: all of it, minus its first byte when the last document is a number -/
def left (ds : List JDoc) (rest : List UInt8) : List UInt8 := if lastIsNumber ds then rest.tail else rest

theorem value_ne_nil {cfg : Cfg} {L : Nat} {body : List UInt8} {v : Val} (hv : Value cfg L body v) : body ≠ [] := by
  obtain ⟨c, cs, rfl, _⟩ := value_head_d hv
  exact List.cons_ne_nil _ _

theorem cat_cons_ne_nil {cfg : Cfg} {L : Nat} {d : JDoc} (hd : d.OK cfg L) (ds : List JDoc) (rest : List UInt8) :
    cat (d :: ds) rest ≠ [] := by
  intro h
  simp only [cat, List.append_eq_nil_iff] at h
  exact value_ne_nil hd.2 h.1.2

theorem drop_doc (w body rest : List UInt8) :
    (w ++ body ++ rest).drop (w.length + body.length + min 1 rest.length) = rest.tail ∧
    (w ++ body ++ rest).drop (w.length + body.length + 0) = rest := by
  have e : w.length + body.length = (w ++ body).length := by simp
  constructor
  · rw [e, ← List.drop_drop, List.drop_left]
    cases rest <;> simp
  · rw [Nat.add_zero, e, List.drop_left]

/-- a number followed by a document: the document starts with a white-space byte, which can be removed -/
theorem next_starts_with_ws {cfg : Cfg} {L : Nat} {w body : List UInt8} {v : Val} (hw : DWs cfg w)
    (hv : Value cfg L body v) (more : List UInt8)
    (h : (w ++ body ++ more).headD 0 = 0 ∨ isWs ((w ++ body ++ more).headD 0) = true) :
    ∃ c w', w = c :: w' ∧ IsWsByte c ∧ DWs cfg w' := by
  cases hw with
  | nil =>
    obtain ⟨c, cs, rfl, tok, _, _⟩ := value_head_d hv
    simp only [List.nil_append, List.cons_append, List.headD_cons] at h
    rcases h with h | h
    · exact absurd h tok.1
    · rw [tok.2.1] at h; cases h
  | ws c w' hc hw' => exact ⟨c, w', rfl, hc, hw'⟩
  | block b w' _ _ _ =>
    simp only [List.cons_append, List.headD_cons] at h
    rcases h with h | h
    · exact absurd h (by decide)
    · exact absurd h (by decide)
  | line x w' _ _ _ =>
    simp only [List.cons_append, List.headD_cons] at h
    rcases h with h | h
    · exact absurd h (by decide)
    · exact absurd h (by decide)

/-- **One call on a stream of documents.** The call on `d :: ds` followed by `rest` answers `Ok` with the document of
    `d`, and what it leaves is again a stream of documents `ds'` followed by `rest'`: the same documents with the same
    values — except that after a number the next document (or `rest`) has lost its first white-space byte. -/
theorem docs_step (cfg : Cfg) (L : Nat) (d : JDoc) (ds : List JDoc) (rest : List UInt8) (hd : d.OK cfg L)
    (hok : ∀ x ∈ ds, x.OK cfg L) (hsep : Sep (d :: ds) rest) :
    ∃ (n : Nat) (ds' : List JDoc) (rest' : List UInt8),
      JD.run cfg L (cat (d :: ds) rest) = (.ok, d.v, n) ∧ (cat (d :: ds) rest).drop n = cat ds' rest' ∧
      n = d.w.length + d.body.length + (if isNumberVal d.v = true ∧ cat ds rest ≠ [] then 1 else 0) ∧
      ds'.length = ds.length ∧ (∀ x ∈ ds', x.OK cfg L) ∧ Sep ds' rest' ∧
      ds'.map (·.v) = ds.map (·.v) ∧ left ds' rest' = left (d :: ds) rest := by
  obtain ⟨htr, hsep'⟩ := hsep
  have hrun := run_doc cfg hd.1 hd.2 htr
  refine ⟨d.w.length + d.body.length + (if isNumberVal d.v = true then min 1 (cat ds rest).length else 0), ?_⟩
  rcases Bool.eq_false_or_eq_true (isNumberVal d.v) with hn | hn
  · have hcnt : (if isNumberVal d.v = true then min 1 (cat ds rest).length else 0) =
        (if isNumberVal d.v = true ∧ cat ds rest ≠ [] then 1 else 0) := by
      rw [hn]; cases cat ds rest <;> simp
    have hdrop : (cat (d :: ds) rest).drop
        (d.w.length + d.body.length + (if isNumberVal d.v = true then min 1 (cat ds rest).length else 0)) =
        (cat ds rest).tail := by
      simp only [hn, ↓reduceIte]
      exact (drop_doc d.w d.body (cat ds rest)).1
    cases ds with
    | nil =>
      refine ⟨[], rest.tail, hrun, hdrop, by rw [hcnt], rfl, hok, trivial, rfl, ?_⟩
      simp only [left, lastIsNumber, hn, ↓reduceIte]
      rfl
    | cons d' ds'' =>
      obtain ⟨w, body, v⟩ := d'
      have hd' := hok ⟨w, body, v⟩ (List.mem_cons_self ..)
      obtain ⟨c, w', rfl, hc, hw'⟩ := next_starts_with_ws hd'.1 hd'.2 (cat ds'' rest) (htr hn)
      refine ⟨⟨w', body, v⟩ :: ds'', rest, hrun, ?_, by rw [hcnt], rfl, ?_, hsep', rfl, ?_⟩
      · rw [hdrop]
        simp only [cat, List.cons_append, List.tail_cons]
      · intro x hx
        rcases List.mem_cons.mp hx with rfl | hx
        · exact ⟨hw', hd'.2⟩
        · exact hok x (List.mem_cons_of_mem _ hx)
      · cases ds'' <;> rfl
  · refine ⟨ds, rest, hrun, ?_, ?_, rfl, hok, hsep', rfl, ?_⟩
    · simp only [hn, Bool.false_eq_true, ↓reduceIte]
      exact (drop_doc d.w d.body (cat ds rest)).2
    · simp [hn]
    · cases ds with
      | nil => simp only [left, lastIsNumber, hn]; rfl
      | cons d' ds'' => rfl

theorem map_ok_eq {ds ds' : List JDoc} (h : ds'.map (·.v) = ds.map (·.v)) :
    ds'.map (fun d => (Code.ok, d.v)) = ds.map (fun d => (Code.ok, d.v)) := by
  have e : ∀ l : List JDoc, l.map (fun d => (Code.ok, d.v)) = (l.map (·.v)).map (fun v => (Code.ok, v)) := by
    intro l; rw [List.map_map]; rfl
  rw [e, e, h]

/-- the loop over a sequence of documents (induction on the number of documents) -/
theorem cont_docs (cfg : Cfg) (L : Nat) : ∀ (n : Nat) (ds : List JDoc), ds.length = n → ∀ (rest : List UInt8) (j : Nat),
    (∀ d ∈ ds, d.OK cfg L) → Sep ds rest →
    cont (JD.run cfg L) (n + j) (cat ds rest) =
      ds.map (fun d => (Code.ok, d.v)) ++ cont (JD.run cfg L) j (left ds rest) := by
  intro n
  induction n with
  | zero =>
    intro ds hl rest j _ _
    have : ds = [] := List.length_eq_zero_iff.mp hl
    subst this
    simp [cat, left, lastIsNumber]
  | succ n ih =>
    intro ds hl rest j hok hsep
    cases ds with
    | nil => cases hl
    | cons d ds' =>
      have hd := hok d (List.mem_cons_self ..)
      obtain ⟨m, ds2, rest2, hrun, hdrop, _, hlen, hok2, hsep2, hmap, hleft⟩ :=
        docs_step cfg L d ds' rest hd (fun x hx => hok x (List.mem_cons_of_mem _ hx)) hsep
      rw [cont_of_ne _ _ (cat_cons_ne_nil hd ds' rest)]
      have e : n + 1 + j = (n + j) + 1 := by omega
      rw [e, stream_ok _ _ hrun, hdrop, ih ds2 (by rw [hlen]; simpa using hl) rest2 j hok2 hsep2, hleft, map_ok_eq hmap]
      rfl

/-- **C16 (JSON: what `n` calls consume).** After the `n` calls on `n` documents followed by `rest`, exactly `rest` is left
    — minus its first byte when the last document is a number (and `rest` is not empty). -/
theorem json_sequence_leftover (cfg : Cfg) (L : Nat) : ∀ (n : Nat) (ds : List JDoc), ds.length = n → ∀ (rest : List UInt8),
    (∀ d ∈ ds, d.OK cfg L) → Sep ds rest → leftover (JD.run cfg L) n (cat ds rest) = left ds rest := by
  intro n
  induction n with
  | zero =>
    intro ds hl rest _ _
    have : ds = [] := List.length_eq_zero_iff.mp hl
    subst this
    rfl
  | succ n ih =>
    intro ds hl rest hok hsep
    cases ds with
    | nil => cases hl
    | cons d ds' =>
      have hd := hok d (List.mem_cons_self ..)
      obtain ⟨m, ds2, rest2, hrun, hdrop, _, hlen, hok2, hsep2, hmap, hleft⟩ :=
        docs_step cfg L d ds' rest hd (fun x hx => hok x (List.mem_cons_of_mem _ hx)) hsep
      simp only [leftover, hrun]
      rw [hdrop, ih ds2 (by rw [hlen]; simpa using hl) rest2 hok2 hsep2, hleft]

/-- **C16 (JSON, successive calls), general form.** The stream is `n ≥ 1` documents `w_i ++ body_i` (`DWs cfg w_i`:
    white space and, when enabled, comments; `Value cfg L body_i v_i`: a value of the dialect within the limits) followed by
    ARBITRARY bytes `rest`, with the separator condition `Sep` (after a number only). Then `n + j` calls return
    `(Ok, v_1), …, (Ok, v_n)` and go on (`cont`: stop if nothing is left) with what is left of `rest` — `rest` itself, or
    `rest` without its first byte when the last document is a number. Any configuration, any nesting limit. -/
theorem json_sequence_gen (cfg : Cfg) (L : Nat) (ds : List JDoc) (rest : List UInt8) (j : Nat) (hne : ds ≠ [])
    (hok : ∀ d ∈ ds, d.OK cfg L) (hsep : Sep ds rest) :
    stream (JD.run cfg L) (ds.length + j) (cat ds rest) =
      ds.map (fun d => (Code.ok, d.v)) ++ cont (JD.run cfg L) j (left ds rest) := by
  rw [← cont_docs cfg L ds.length ds rfl rest j hok hsep]
  cases ds with
  | nil => exact absurd rfl hne
  | cons d ds' => exact (cont_of_ne _ _ (cat_cons_ne_nil (hok d (List.mem_cons_self ..)) ds' rest)).symm

/-- **C16 (JSON): exactly `n` calls return exactly the `n` documents**, whatever follows the last one (subject to `Sep`). -/
theorem json_sequence_exactly (cfg : Cfg) (L : Nat) (ds : List JDoc) (rest : List UInt8) (hne : ds ≠ [])
    (hok : ∀ d ∈ ds, d.OK cfg L) (hsep : Sep ds rest) :
    stream (JD.run cfg L) ds.length (cat ds rest) = ds.map (fun d => (Code.ok, d.v)) := by
  have := json_sequence_gen cfg L ds rest 0 hne hok hsep
  rw [Nat.add_zero, cont_zero, List.append_nil] at this
  exact this

/-- what is left of trailing white space is white space -/
theorem left_dws {cfg : Cfg} {tail : List UInt8} (ht : DWs cfg tail) : ∀ (ds : List JDoc), Sep ds tail → DWs cfg (left ds tail)
  | [], _ => ht
  | [d], h => by
    unfold left lastIsNumber
    cases hn : isNumberVal d.v with
    | false => exact ht
    | true =>
      simp only [↓reduceIte]
      have h1 := h.1 hn
      simp only [cat] at h1
      cases ht with
      | nil => exact DWs.nil
      | ws c w' hc hw' => exact hw'
      | block b w' _ _ _ =>
        simp only [List.cons_append, List.headD_cons] at h1
        rcases h1 with h1 | h1
        · exact absurd h1 (by decide)
        · exact absurd h1 (by decide)
      | line x w' _ _ _ =>
        simp only [List.cons_append, List.headD_cons] at h1
        rcases h1 with h1 | h1
        · exact absurd h1 (by decide)
        · exact absurd h1 (by decide)
  | _ :: d :: ds, h => left_dws ht (d :: ds) h.2

/-- **C16 (JSON, successive calls): NDJSON / JSON Lines / concatenated JSON.** The stream is `n ≥ 1` documents
    `w_i ++ body_i` followed by white space `tail` (possibly empty). Separator condition `Sep`: after a number the next
    document — or `tail` after the last one — is empty or starts with a white-space byte; nothing is required after any
    other value (`{"a":1}[2]"x"` needs no separator at all). Then, for every `k`, `k` calls return the first `k` of
    `(Ok, v_1), …, (Ok, v_n), (EmptyInput, null)`; the last entry is there only if something is left of `tail` (all of
    `tail`, minus its first byte when the last document is a number): otherwise the loop stops after the `n`-th call
    because the stream is exhausted. Any configuration, any nesting limit. -/
theorem json_sequence (cfg : Cfg) (L : Nat) (ds : List JDoc) (tail : List UInt8) (hne : ds ≠ [])
    (hok : ∀ d ∈ ds, d.OK cfg L) (htail : DWs cfg tail) (hsep : Sep ds tail) (k : Nat) :
    stream (JD.run cfg L) k (cat ds tail) =
      (ds.map (fun d => (Code.ok, d.v)) ++ (if left ds tail = [] then [] else [(Code.empty, Val.null)])).take k := by
  have hgen := fun j => json_sequence_gen cfg L ds tail j hne hok hsep
  by_cases hk : k ≤ ds.length
  · obtain ⟨j, hj⟩ : ∃ j, ds.length = k + j := ⟨ds.length - k, by omega⟩
    have h0 := hgen 0
    rw [Nat.add_zero, cont_zero, List.append_nil, hj] at h0
    rw [stream_take _ k j, h0, List.take_append_of_le_length (by simp; omega)]
  · obtain ⟨j, hj⟩ : ∃ j, k = ds.length + (j + 1) := ⟨k - ds.length - 1, by omega⟩
    rw [hj, hgen (j + 1)]
    have hc : cont (JD.run cfg L) (j + 1) (left ds tail) =
        (if left ds tail = [] then [] else [(Code.empty, Val.null)]) := by
      unfold cont
      by_cases hl : left ds tail = []
      · rw [if_pos hl, if_pos hl]
      · rw [if_neg hl, if_neg hl]
        obtain ⟨h1, h2⟩ := run_ws cfg L (left_dws htail ds hsep)
        rw [stream_stop _ _ (by rw [h1]; exact fun h => Code.noConfusion h), h1, h2]
    rw [hc, List.take_of_length_le]
    simp only [List.length_append, List.length_map]
    split <;> simp


/-- **The separator after a number cannot be dropped.** A number directly followed by a byte that is neither white space
    nor a number byte (so that the number token does end there) — `1[2]`, `1{}`, `1"x"`, `1,` — is `InvalidInput`:
    the look-ahead byte is taken and refused. (Followed by a number byte the token simply goes on: `1` `2` is `12`.) -/
theorem number_needs_separator (cfg : Cfg) {L : Nat} {w body : List UInt8} {v : Val} (c : UInt8) (r : List UInt8)
    (hw : DWs cfg w) (hv : Value cfg L body v) (hn : isNumberVal v = true) (h0 : c ≠ 0) (hws : isWs c = false)
    (hnum : inNumber cfg c = false) :
    JD.run cfg L (w ++ body ++ c :: r) = (.invalid, v, w.length + body.length + 1) := by
  have hrun : JD.run cfg L (w ++ body ++ c :: r) =
      (match parseVariant cfg (2 * (w ++ body ++ c :: r).length + 4) L { l := { unread := w ++ body ++ c :: r } } with
       | (.ok, v, s) =>
         if s.l.cur != 0 && !isWs s.l.cur && isNumberVal v then (.invalid, v, s.l.pos) else (.ok, v, s.l.pos)
       | (e, v, s) => (e, v, s.l.pos)) := rfl
  have hd : isNumberVal v = true → Delim cfg (c :: r) := by
    intro _ c' r' hr
    rw [← (List.cons.inj hr).1]; exact hnum
  obtain ⟨s', hp, _, hpost⟩ := C10.complete cfg hv (2 * (w ++ body ++ c :: r).length + 4) w (c :: r)
    { l := { unread := w ++ body ++ c :: r } } hw rfl rfl (by simp; omega) hd
  rw [hrun, hp]
  rw [hn] at hpost
  simp only [↓reduceIte, List.headD_cons, List.length_cons] at hpost
  have hc : (s'.l.cur != 0 && !isWs s'.l.cur) = true := by
    rw [hpost.2.1, hws]; simpa using h0
  simp only [hc, hn, Bool.and_self, ↓reduceIte, hpost.2.2.2]
  congr 2
  omega

/-! ## JSON: the answer depends only on the bytes taken -/

/-- **C16 (JSON: the result never depends on bytes beyond those consumed).** Let a call on `t` take `n` bytes and leave
    at least one (`n < |t|`). Then a call on ANY input `t'` that has the same first `n` bytes gives the same answer:
    same code (whatever it is: `Ok` or an error), same document, same number of bytes taken. -/
theorem result_independent_of_rest (cfg : Cfg) (L : Nat) (t t' : List UInt8)
    (h : (JD.run cfg L t).2.2 < t.length) (hp : t'.take (JD.run cfg L t).2.2 = t.take (JD.run cfg L t).2.2) :
    JD.run cfg L t' = JD.run cfg L t := by
  generalize hn : (JD.run cfg L t).2.2 = n at h hp
  have ht : t = t.take n ++ t.drop n := (List.take_append_drop n t).symm
  have ht' : t' = t.take n ++ t'.drop n := by rw [← hp]; exact (List.take_append_drop n t').symm
  have hx : t.drop n ≠ [] := by
    intro h0
    have := congrArg List.length h0
    simp only [List.length_drop, List.length_nil] at this
    omega
  have hlen : (t.take n).length = n := by rw [List.length_take]; omega
  have := C10.run_local cfg L (t.take n) (t.drop n) (t'.drop n) hx (by rw [← ht, hn, hlen])
  rw [← ht, ← ht'] at this
  exact this

/-- the same in the vocabulary of `C10.run_local`: inputs `p ++ x` and `p ++ y`. The call on `p ++ x` must have stopped
    strictly inside `p`, or at the end of `p` with `x ≠ []`. (When the call takes all of `p` and `x = []` the END of the
    input was seen, and that is information: `[1` is `IncompleteInput`, `[1]` is `Ok`; see `end_of_input_matters`.) -/
theorem result_independent_of_rest' (cfg : Cfg) (L : Nat) (p x y : List UInt8)
    (h : (JD.run cfg L (p ++ x)).2.2 < p.length ∨ ((JD.run cfg L (p ++ x)).2.2 ≤ p.length ∧ x ≠ [])) :
    JD.run cfg L (p ++ y) = JD.run cfg L (p ++ x) := by
  rcases h with h | ⟨h, hx⟩
  · apply result_independent_of_rest
    · simp only [List.length_append]; omega
    · rw [List.take_append_of_le_length (by omega), List.take_append_of_le_length (by omega)]
  · exact C10.run_local cfg L p x y hx h

/-- every call of the loop but the last sees only its own document: replacing what the `n` documents are followed by
    does not change the first `n` results (consequence of `json_sequence_exactly`) -/
theorem json_sequence_independent_of_rest (cfg : Cfg) (L : Nat) (ds : List JDoc) (rest rest' : List UInt8) (hne : ds ≠ [])
    (hok : ∀ d ∈ ds, d.OK cfg L) (hsep : Sep ds rest) (hsep' : Sep ds rest') :
    stream (JD.run cfg L) ds.length (cat ds rest') = stream (JD.run cfg L) ds.length (cat ds rest) := by
  rw [json_sequence_exactly cfg L ds rest hne hok hsep, json_sequence_exactly cfg L ds rest' hne hok hsep']

/-! ## MessagePack -/
section msgpack
open MD

/-- **C16 (MessagePack: the result never depends on bytes beyond those consumed).** If the call on `p ++ x` (`x ≠ []`)
    consumed no byte of `x`, the answer — code, document, bytes consumed — is the same for every input that starts with
    `p`. Any filter, any code. (`IncompleteInput` never occurs here: it is answered only when the whole input was consumed,
    `MD.run_incomplete_all`.) -/
theorem msgpack_result_independent_of_rest (env : Env) (L : Nat) (flt : Flt) (p x y : List UInt8) (hx : x ≠ [])
    (h : (MD.run env L flt (p ++ x)).2.2 ≤ p.length) :
    MD.run env L flt (p ++ y) = MD.run env L flt (p ++ x) := by
  have hpx : MD.run env L flt p = MD.run env L flt (p ++ x) := by
    rcases C09.run_prefix_dichotomy env L flt p x with h' | ⟨_, _, h'⟩ | ⟨h', _⟩
    · exact h'
    · omega
    · subst h'
      have := C09.run_consumed_pos env L flt ([] ++ x) (by simpa using hx)
      simp only [List.length_nil] at h
      omega
  rcases C09.run_prefix_dichotomy env L flt p y with h' | ⟨h', _, _⟩ | ⟨h', _⟩
  · rw [← h', hpx]
  · rw [hpx] at h'
    have := MD.run_incomplete_all env L flt (p ++ x) h'
    have hl : 0 < x.length := List.length_pos_iff.mpr hx
    simp only [List.length_append] at this
    omega
  · subst h'
    have := C09.run_consumed_pos env L flt ([] ++ x) (by simpa using hx)
    simp only [List.length_nil] at h
    omega

/-- the same for two arbitrary inputs that agree on the bytes consumed -/
theorem msgpack_result_independent_of_rest' (env : Env) (L : Nat) (flt : Flt) (t t' : List UInt8)
    (h : (MD.run env L flt t).2.2 < t.length) (hp : t'.take (MD.run env L flt t).2.2 = t.take (MD.run env L flt t).2.2) :
    MD.run env L flt t' = MD.run env L flt t := by
  generalize hn : (MD.run env L flt t).2.2 = n at h hp
  have ht : t = t.take n ++ t.drop n := (List.take_append_drop n t).symm
  have ht' : t' = t.take n ++ t'.drop n := by rw [← hp]; exact (List.take_append_drop n t').symm
  have hx : t.drop n ≠ [] := by
    intro h0
    have := congrArg List.length h0
    simp only [List.length_drop, List.length_nil] at this
    omega
  have hlen : (t.take n).length = n := by rw [List.length_take]; omega
  have := msgpack_result_independent_of_rest env L flt (t.take n) (t.drop n) (t'.drop n) hx
    (by rw [← ht, hn, hlen])
  rw [← ht, ← ht'] at this
  exact this

/-- a legal encoding is accepted as exactly one object, whatever follows, with the document a call on it alone returns -/
theorem enc_exact (env : Env) (L : Nat) (flt : Flt) {d : Nat} {e : List UInt8} (h : Enc env d e) (hd : d ≤ L) :
    Exact (MD.run env L flt) e (MD.run env L flt e).2.1 := by
  refine ⟨fun h0 => ?_, fun rest => ?_⟩
  · have := enc_nonempty h
    rw [h0] at this
    simp at this
  · have h1 := C09.enc_accepts env L flt h hd []
    rw [List.append_nil] at h1
    have hs := C09.extension_stable env L flt e rest (by rw [h1.1]; exact fun h => Code.noConfusion h)
      (by rw [h1.1]; exact fun h => Code.noConfusion h)
    rw [hs]
    exact Prod.ext h1.1 (Prod.ext rfl h1.2)

/-- **C16 (MessagePack, successive calls).** `n ≥ 1` back-to-back objects `e_1 … e_n`, each in ANY legal encoding
    (`MD.Enc`: any width at every place, bin, ext, fixext, nested containers within the nesting limit), followed by
    arbitrary bytes `rest`; ANY filter. Then `n + j` calls return `(Ok, doc_1), …, (Ok, doc_n)` — `doc_i` is the document
    a call on `e_i` alone returns (for a filter: the projection of the unfiltered document, `C11.msgpack_projection_all_inputs`
    in AJ/Props/C11Mp.lean) — and go on with `rest` (stop if `rest` is empty). No separator is needed or allowed. -/
theorem msgpack_sequence_n (env : Env) (L : Nat) (flt : Flt) (es : List (List UInt8)) (rest : List UInt8) (j : Nat)
    (hne : es ≠ []) (henc : ∀ e ∈ es, ∃ d, d ≤ L ∧ Enc env d e) :
    stream (MD.run env L flt) (es.length + j) (es.flatten ++ rest) =
      es.map (fun e => (Code.ok, (MD.run env L flt e).2.1)) ++ cont (MD.run env L flt) j rest := by
  have := stream_exact (MD.run env L flt) rest j (es.map (fun e => (e, (MD.run env L flt e).2.1)))
    (by simpa using hne)
    (by
      intro s hs
      obtain ⟨e, he, rfl⟩ := List.mem_map.mp hs
      obtain ⟨d, hd, hE⟩ := henc e he
      exact enc_exact env L flt hE hd)
  simp only [List.length_map, List.map_map, Function.comp_def, List.map_id'] at this
  exact this

/-- **C16 (MessagePack: what `n` calls consume).** After `n` calls on `n` back-to-back objects followed by `rest`,
    exactly `rest` is left. -/
theorem msgpack_sequence_leftover (env : Env) (L : Nat) (flt : Flt) (es : List (List UInt8)) (rest : List UInt8)
    (henc : ∀ e ∈ es, ∃ d, d ≤ L ∧ Enc env d e) :
    leftover (MD.run env L flt) es.length (es.flatten ++ rest) = rest := by
  have := leftover_exact (MD.run env L flt) rest (es.map (fun e => (e, (MD.run env L flt e).2.1)))
    (by
      intro s hs
      obtain ⟨e, he, rfl⟩ := List.mem_map.mp hs
      obtain ⟨d, hd, hE⟩ := henc e he
      exact enc_exact env L flt hE hd)
  simp only [List.length_map, List.map_map, Function.comp_def, List.map_id'] at this
  exact this

/-- nothing after the last object: `k` calls return the first `k` documents (the loop stops when the stream is exhausted) -/
theorem msgpack_sequence_take (env : Env) (L : Nat) (flt : Flt) (es : List (List UInt8)) (hne : es ≠ [])
    (henc : ∀ e ∈ es, ∃ d, d ≤ L ∧ Enc env d e) (k : Nat) :
    stream (MD.run env L flt) k es.flatten = (es.map (fun e => (Code.ok, (MD.run env L flt e).2.1))).take k := by
  have := stream_exact_take (MD.run env L flt) (es.map (fun e => (e, (MD.run env L flt e).2.1)))
    (by simpa using hne)
    (by
      intro s hs
      obtain ⟨e, he, rfl⟩ := List.mem_map.mp hs
      obtain ⟨d, hd, hE⟩ := henc e he
      exact enc_exact env L flt hE hd) k
  simp only [List.map_map, Function.comp_def, List.map_id'] at this
  exact this

/-- **C16 (MessagePack, successive calls on serializer output).** Documents `v_1 … v_n` (no raw values, within the
    limits of the format and of the nesting limit) serialized back to back, then arbitrary bytes: the calls return
    `norm v_1, …, norm v_n` (`C09.norm`: the document read back from `ser v`, C09 round trip). -/
theorem msgpack_sequence_ser (env : Env) (L : Nat) (vs : List Val) (rest : List UInt8) (j : Nat) (hne : vs ≠ [])
    (hv : ∀ v ∈ vs, C09.RawFree v ∧ C09.WithinLimits env v ∧ C09.depth v ≤ L) :
    stream (MD.run env L .all) (vs.length + j) ((vs.map MD.ser).flatten ++ rest) =
      vs.map (fun v => (Code.ok, C09.norm v)) ++ cont (MD.run env L .all) j rest := by
  have := stream_exact (MD.run env L .all) rest j (vs.map (fun v => (MD.ser v, C09.norm v)))
    (by simpa using hne)
    (by
      intro s hs
      obtain ⟨v, hvm, rfl⟩ := List.mem_map.mp hs
      obtain ⟨h1, h2, h3⟩ := hv v hvm
      refine ⟨fun h0 => ?_, fun rest => C09.roundtrip env L v h1 h2 h3 rest⟩
      have := C09.ser_pos v h1
      simp only at h0
      rw [h0] at this
      simp at this)
  simp only [List.length_map, List.map_map, Function.comp_def] at this
  exact this

end msgpack

end C16

/-! ## Non-vacuity -/
namespace C16.SeqExamples
open JD Spec.Dialect C16 MD

/-! ### evaluated in the kernel, independently of the theorems -/

/-- NDJSON `{"a":1}⏎[2]⏎3⏎"x"` -/
def ndjson : List UInt8 :=
  [0x7B, 0x22, 0x61, 0x22, 0x3A, 0x31, 0x7D, 0x0A, 0x5B, 0x32, 0x5D, 0x0A, 0x33, 0x0A, 0x22, 0x78, 0x22]

def ndjsonDocs : List (Code × Val) :=
  [(.ok, .obj [([0x61], .num (.uint 1))]), (.ok, .arr [.num (.uint 2)]), (.ok, .num (.uint 3)), (.ok, .str [0x78])]

example : stream (JD.run {} 10) 10 ndjson = ndjsonDocs := resEqb_sound _ _ (by decide +kernel)
/-- with a final line feed one more call answers `EmptyInput` -/
example : stream (JD.run {} 10) 10 (ndjson ++ [0x0A]) = ndjsonDocs ++ [(.empty, .null)] :=
  resEqb_sound _ _ (by decide +kernel)
/-- fewer calls: the first documents -/
example : stream (JD.run {} 10) 2 ndjson = ndjsonDocs.take 2 := resEqb_sound _ _ (by decide +kernel)

def n123 : List (Code × Val) := [(.ok, .num (.uint 1)), (.ok, .num (.uint 2)), (.ok, .num (.uint 3))]
/-- numbers separated by single spaces `1 2 3`; `1 2 3 ` : the last look-ahead takes the last byte, no `EmptyInput` call;
    `1 2 3  ` : one more call, `EmptyInput` -/
example : stream (JD.run {} 10) 10 [0x31, 0x20, 0x32, 0x20, 0x33] = n123 := resEqb_sound _ _ (by decide +kernel)
example : stream (JD.run {} 10) 10 [0x31, 0x20, 0x32, 0x20, 0x33, 0x20] = n123 := resEqb_sound _ _ (by decide +kernel)
example : stream (JD.run {} 10) 10 [0x31, 0x20, 0x32, 0x20, 0x33, 0x20, 0x20] = n123 ++ [(.empty, .null)] :=
  resEqb_sound _ _ (by decide +kernel)

/-- back to back, no separator at all: `[1][2]{}"s"` -/
example : stream (JD.run {} 10) 10 [0x5B, 0x31, 0x5D, 0x5B, 0x32, 0x5D, 0x7B, 0x7D, 0x22, 0x73, 0x22] =
    [(.ok, .arr [.num (.uint 1)]), (.ok, .arr [.num (.uint 2)]), (.ok, .obj []), (.ok, .str [0x73])] :=
  resEqb_sound _ _ (by decide +kernel)

/-- the separator after a number is needed: `1[2]` is `InvalidInput` (3 bytes… 2 taken); `12` is one number -/
example : stream (JD.run {} 10) 10 [0x31, 0x5B, 0x32, 0x5D] = [(.invalid, .num (.uint 1))] :=
  resEqb_sound _ _ (by decide +kernel)
example : JD.run {} 10 [0x31, 0x5B, 0x32, 0x5D] = (.invalid, .num (.uint 1), 2) := result_eq (by decide +kernel)
example : stream (JD.run {} 10) 10 [0x31, 0x32] = [(.ok, .num (.uint 12))] := resEqb_sound _ _ (by decide +kernel)

/-- MessagePack `01 91 02 a1 78`: 1, [2], "x" -/
def mp3 : List UInt8 := [0x01, 0x91, 0x02, 0xA1, 0x78]
example : stream (MD.run {} 10 .all) 10 mp3 =
    [(.ok, .num (.sint 1)), (.ok, .arr [.num (.sint 2)]), (.ok, .str [0x78])] := resEqb_sound _ _ (by decide +kernel)
example : stream (MD.run {} 10 .all) 2 mp3 = [(.ok, .num (.sint 1)), (.ok, .arr [.num (.sint 2)])] :=
  resEqb_sound _ _ (by decide +kernel)

/-- the end of the input is information: `[1` (everything taken, nothing follows) and `[1]` differ -/
theorem end_of_input_matters :
    JD.run {} 10 ([0x5B, 0x31] ++ []) = (.incomplete, .arr [.num (.uint 1)], 2) ∧
    JD.run {} 10 ([0x5B, 0x31] ++ [0x5D]) = (.ok, .arr [.num (.uint 1)], 3) :=
  ⟨result_eq (by decide +kernel), result_eq (by decide +kernel)⟩
/-- and for MessagePack: `92 01` / `92 01 02` -/
example : MD.run {} 10 .all ([0x92, 0x01] ++ []) = (.incomplete, .arr [.num (.sint 1), .null], 2) ∧
    MD.run {} 10 .all ([0x92, 0x01] ++ [0x02]) = (.ok, .arr [.num (.sint 1), .num (.sint 2)], 3) :=
  ⟨result_eq (by decide +kernel), result_eq (by decide +kernel)⟩

/-! ### the theorems instantiated -/

theorem num1 (c : UInt8) (n : Nat) (hp : parseNumber {} [c] = .uint n) (hc : inNumber {} c = true) (h3 : c ≠ 0x6E) :
    Value {} 10 [c] (.num (.uint n)) :=
  Value.num 10 _ _ (C10.Examples.numTok_of (n := .uint n) hp rfl (by simp)
    (by intro x hx; rw [List.mem_singleton.mp hx]; exact hc) (by simpa using h3))

theorem v1 : Value {} 10 [0x31] (.num (.uint 1)) := num1 0x31 1 (by decide +kernel) (by decide) (by decide)
theorem v2 : Value {} 10 [0x32] (.num (.uint 2)) := num1 0x32 2 (by decide +kernel) (by decide) (by decide)
theorem v3 : Value {} 10 [0x33] (.num (.uint 3)) := num1 0x33 3 (by decide +kernel) (by decide) (by decide)
theorem v1' : Value {} 9 [0x31] (.num (.uint 1)) :=
  Value.num 9 _ _ (C10.Examples.numTok_of (n := .uint 1) (by decide +kernel) rfl (by decide) (by decide) (by decide))
theorem v2' : Value {} 9 [0x32] (.num (.uint 2)) :=
  Value.num 9 _ _ (C10.Examples.numTok_of (n := .uint 2) (by decide +kernel) rfl (by decide) (by decide) (by decide))

/-- `{"a":1}` -/
theorem vObj : Value {} 10 [0x7B, 0x22, 0x61, 0x22, 0x3A, 0x31, 0x7D] (.obj [([0x61], .num (.uint 1))]) :=
  Value.obj 9 [0x22, 0x61, 0x22, 0x3A, 0x31] [([0x61], .num (.uint 1))]
    (Members.one 9 [] [0x22, 0x61, 0x22] [0x61] [] [] [0x31] _ [] DWs.nil
      (Key.quoted 0x22 [0x61] [0x61] (Or.inl rfl) (by decide +kernel) (by decide)) DWs.nil DWs.nil v1' DWs.nil)
/-- `[1]`, `[2]` -/
theorem vArr1 : Value {} 10 [0x5B, 0x31, 0x5D] (.arr [.num (.uint 1)]) :=
  Value.arr 9 [0x31] _ (Elements.one 9 [] [0x31] _ [] DWs.nil v1' DWs.nil)
theorem vArr2 : Value {} 10 [0x5B, 0x32, 0x5D] (.arr [.num (.uint 2)]) :=
  Value.arr 9 [0x32] _ (Elements.one 9 [] [0x32] _ [] DWs.nil v2' DWs.nil)
/-- `{}` -/
theorem vEmptyObj : Value {} 10 [0x7B, 0x7D] (.obj []) := Value.objEmpty 9 [] DWs.nil
/-- `"x"`, `"s"` -/
theorem vStrX : Value {} 10 [0x22, 0x78, 0x22] (.str [0x78]) :=
  Value.str 10 0x22 [0x78] _ (Or.inl rfl) (by decide +kernel) (by decide)
theorem vStrS : Value {} 10 [0x22, 0x73, 0x22] (.str [0x73]) :=
  Value.str 10 0x22 [0x73] _ (Or.inl rfl) (by decide +kernel) (by decide)

theorem lf : IsWsByte 0x0A := Or.inr (Or.inr (Or.inl rfl))
theorem sp : IsWsByte 0x20 := Or.inl rfl
theorem wLf : DWs {} [0x0A] := DWs.ws _ _ lf DWs.nil
theorem wSp : DWs {} [0x20] := DWs.ws _ _ sp DWs.nil

/-- the four lines of the NDJSON stream -/
def ndDocs : List JDoc :=
  [⟨[], [0x7B, 0x22, 0x61, 0x22, 0x3A, 0x31, 0x7D], .obj [([0x61], .num (.uint 1))]⟩,
   ⟨[0x0A], [0x5B, 0x32, 0x5D], .arr [.num (.uint 2)]⟩,
   ⟨[0x0A], [0x33], .num (.uint 3)⟩,
   ⟨[0x0A], [0x22, 0x78, 0x22], .str [0x78]⟩]

theorem ndDocs_ok : ∀ d ∈ ndDocs, d.OK {} 10 := by
  intro d hd
  simp only [ndDocs, List.mem_cons, List.mem_nil_iff, or_false] at hd
  rcases hd with rfl | rfl | rfl | rfl
  · exact ⟨DWs.nil, vObj⟩
  · exact ⟨wLf, vArr2⟩
  · exact ⟨wLf, v3⟩
  · exact ⟨wLf, vStrX⟩

/-- only the number `3` needs its separator (the line feed of the next line) -/
theorem ndDocs_sep (tail : List UInt8) : Sep ndDocs tail :=
  ⟨trailer_of_not_number rfl _, trailer_of_not_number rfl _, trailer_of_ws _ 0x0A _ lf, trailer_of_not_number rfl _, trivial⟩

/-- `json_sequence` on the NDJSON stream followed by white space `tail`, any number `k` of calls -/
theorem ndjson_by_theorem (tail : List UInt8) (ht : DWs {} tail) (k : Nat) :
    stream (JD.run {} 10) k (ndjson ++ tail) =
      (ndjsonDocs ++ (if tail = [] then [] else [(Code.empty, Val.null)])).take k :=
  json_sequence {} 10 ndDocs tail (by decide) ndDocs_ok ht (ndDocs_sep tail) k

/-- after the four calls exactly `rest` is left (the last document is a string) -/
example (rest : List UInt8) : leftover (JD.run {} 10) 4 (ndjson ++ rest) = rest :=
  json_sequence_leftover {} 10 4 ndDocs rfl rest ndDocs_ok (ndDocs_sep rest)

/-- … followed by ANY bytes: four calls return the four documents (`json_sequence_exactly`) -/
theorem ndjson_any_rest (rest : List UInt8) : stream (JD.run {} 10) 4 (ndjson ++ rest) = ndjsonDocs :=
  json_sequence_exactly {} 10 ndDocs rest (by decide) ndDocs_ok (ndDocs_sep rest)

/-- `1 2 3` then white space: every number but the first is preceded by the one space its predecessor's look-ahead takes;
    what is left of `tail` is `tail.tail` -/
def numDocs : List JDoc := [⟨[], [0x31], .num (.uint 1)⟩, ⟨[0x20], [0x32], .num (.uint 2)⟩, ⟨[0x20], [0x33], .num (.uint 3)⟩]

theorem numDocs_ok : ∀ d ∈ numDocs, d.OK {} 10 := by
  intro d hd
  simp only [numDocs, List.mem_cons, List.mem_nil_iff, or_false] at hd
  rcases hd with rfl | rfl | rfl
  · exact ⟨DWs.nil, v1⟩
  · exact ⟨wSp, v2⟩
  · exact ⟨wSp, v3⟩

theorem numbers_by_theorem (tail : List UInt8) (ht : DWs {} tail)
    (h3 : tail.headD 0 = 0 ∨ isWs (tail.headD 0) = true) (k : Nat) :
    stream (JD.run {} 10) k ([0x31, 0x20, 0x32, 0x20, 0x33] ++ tail) =
      (n123 ++ (if tail.tail = [] then [] else [(Code.empty, Val.null)])).take k :=
  json_sequence {} 10 numDocs tail (by decide) numDocs_ok ht
    ⟨trailer_of_ws _ 0x20 _ sp, trailer_of_ws _ 0x20 _ sp, fun _ => h3, trivial⟩ k

/-- `[1][2]{}"s"`: no separator, no condition -/
def b2bDocs : List JDoc :=
  [⟨[], [0x5B, 0x31, 0x5D], .arr [.num (.uint 1)]⟩, ⟨[], [0x5B, 0x32, 0x5D], .arr [.num (.uint 2)]⟩,
   ⟨[], [0x7B, 0x7D], .obj []⟩, ⟨[], [0x22, 0x73, 0x22], .str [0x73]⟩]

theorem b2b_by_theorem (rest : List UInt8) :
    stream (JD.run {} 10) 4 ([0x5B, 0x31, 0x5D, 0x5B, 0x32, 0x5D, 0x7B, 0x7D, 0x22, 0x73, 0x22] ++ rest) =
      [(.ok, .arr [.num (.uint 1)]), (.ok, .arr [.num (.uint 2)]), (.ok, .obj []), (.ok, .str [0x73])] :=
  json_sequence_exactly {} 10 b2bDocs rest (by decide)
    (by
      intro d hd
      simp only [b2bDocs, List.mem_cons, List.mem_nil_iff, or_false] at hd
      rcases hd with rfl | rfl | rfl | rfl
      · exact ⟨DWs.nil, vArr1⟩
      · exact ⟨DWs.nil, vArr2⟩
      · exact ⟨DWs.nil, vEmptyObj⟩
      · exact ⟨DWs.nil, vStrS⟩)
    ⟨trailer_of_not_number rfl _, trailer_of_not_number rfl _, trailer_of_not_number rfl _, trailer_of_not_number rfl _, trivial⟩

/-- `number_needs_separator`: `1` followed by `[`… -/
example (r : List UInt8) : JD.run {} 10 ([] ++ [0x31] ++ 0x5B :: r) = (.invalid, .num (.uint 1), 2) :=
  number_needs_separator {} 0x5B r DWs.nil v1 rfl (by decide) (by decide) (by decide)

/-- `number_consumes_at_most_one_more`: ` 3` + line feed + anything: 3 bytes; `[2]` + anything: 3 bytes -/
example (r : List UInt8) : (JD.run {} 10 ([0x20] ++ [0x33] ++ 0x0A :: r)).2.2 = 3 :=
  (number_consumes_at_most_one_more {} wSp v3 (trailer_of_ws _ 0x0A r lf)).1
example (r : List UInt8) : (JD.run {} 10 ([] ++ [0x5B, 0x32, 0x5D] ++ r)).2.2 = 3 :=
  (number_consumes_at_most_one_more {} DWs.nil vArr2 (trailer_of_not_number rfl r)).2.1 rfl

/-- `result_independent_of_rest`: `[1]x…` took 3 of ≥ 4 bytes, so every input that starts with `[1]` gets the same answer;
    also for an error: `[1,]` stops at `]` with `InvalidInput`, whatever follows -/
example (y : List UInt8) : JD.run {} 10 ([0x5B, 0x31, 0x5D] ++ y) = (.ok, .arr [.num (.uint 1)], 3) := by
  rw [result_independent_of_rest' {} 10 [0x5B, 0x31, 0x5D] [0x78] y (Or.inr ⟨by decide +kernel, by decide⟩)]
  exact result_eq (by decide +kernel)
example (y : List UInt8) : (JD.run {} 10 ([0x5B, 0x31, 0x2C, 0x5D] ++ y)).1 = .invalid := by
  rw [result_independent_of_rest' {} 10 [0x5B, 0x31, 0x2C, 0x5D] [0x78] y (Or.inr ⟨by decide +kernel, by decide⟩)]
  decide +kernel

theorem mp3_enc : ∀ e ∈ [[0x01], [0x91, 0x02], [0xA1, 0x78]], ∃ d, d ≤ 10 ∧ Enc {} d e := by
  intro e he
  simp only [List.mem_cons, List.mem_nil_iff, or_false] at he
  rcases he with rfl | rfl | rfl
  · exact ⟨0, by decide, .leaf (.posfix 0x01 (by decide))⟩
  · exact ⟨1, by decide, Enc.arr [0x91] [[0x02]] (.fix 0x91 1 (by decide) (by decide))
      (by intro e he; rw [List.mem_singleton.mp he]; exact .leaf (.posfix 0x02 (by decide)))⟩
  · exact ⟨0, by decide, .leaf (.fixstr 0xA1 [0x78] (by decide) (by decide) (by decide))⟩

/-- MessagePack `01 91 02 a1 78` followed by anything, any filter: three calls, three objects -/
theorem mp3_by_theorem (flt : Flt) (rest : List UInt8) :
    stream (MD.run {} 10 flt) 3 (mp3 ++ rest) =
      [(.ok, (MD.run {} 10 flt [0x01]).2.1), (.ok, (MD.run {} 10 flt [0x91, 0x02]).2.1),
       (.ok, (MD.run {} 10 flt [0xA1, 0x78]).2.1)] := by
  have h := msgpack_sequence_n {} 10 flt [[0x01], [0x91, 0x02], [0xA1, 0x78]] rest 0 (by decide) mp3_enc
  rw [cont_zero] at h
  exact h

example (flt : Flt) (rest : List UInt8) : leftover (MD.run {} 10 flt) 3 (mp3 ++ rest) = rest :=
  msgpack_sequence_leftover {} 10 flt [[0x01], [0x91, 0x02], [0xA1, 0x78]] rest mp3_enc

/-- the serializer's output for 1, [2], "x" is that stream; the calls return the normalised documents -/
example (rest : List UInt8) :
    stream (MD.run {} 10 .all) 3 (mp3 ++ rest) = [(.ok, .num (.sint 1)), (.ok, .arr [.num (.sint 2)]), (.ok, .str [0x78])] := by
  have h := msgpack_sequence_ser {} 10 [.num (.uint 1), .arr [.num (.uint 2)], .str [0x78]] rest 0 (by decide)
    (by
      intro v hv
      simp only [List.mem_cons, List.mem_nil_iff, or_false] at hv
      rcases hv with rfl | rfl | rfl
      · refine ⟨by simp only [C09.RawFree], ?_, by simp only [C09.depth]; decide⟩
        simp only [C09.WithinLimits, C09.NumOk]; decide
      · refine ⟨by simp only [C09.RawFree, C09.RawFreeElems, and_self], ?_, by simp only [C09.depth, C09.depthElems]; decide⟩
        simp only [C09.WithinLimits, C09.WithinLimitsElems, C09.NumOk, List.length_cons, List.length_nil]; decide
      · refine ⟨by simp only [C09.RawFree], ?_, by simp only [C09.depth]; decide⟩
        simp only [C09.WithinLimits, List.length_cons, List.length_nil]; decide)
  rw [cont_zero] at h
  exact h

/-- `msgpack_result_independent_of_rest`: `91 02` took 2 of 3 bytes -/
example (y : List UInt8) : MD.run {} 10 .all ([0x91, 0x02] ++ y) = (.ok, .arr [.num (.sint 2)], 2) := by
  rw [msgpack_result_independent_of_rest {} 10 .all [0x91, 0x02] [0xC1] y (by decide) (by decide +kernel)]
  exact result_eq (by decide +kernel)

end C16.SeqExamples
