/- C17 — Unicode escapes decode correctly for every code point; escaping is the inverse.
   Property theorems (facts about single functions first, then their composition through the string parser
   `parseQuoted`, `parseVariant`, `parseMembers`, `run`); helper lemmas live in AJ/Lemmas/{Bits,Latch,Quoted}.lean.
   The `_gen` / `pq_u_*` theorems are the generalised forms used by the inductions. -/
import AJ.Model.JD
import AJ.Model.JSer
import AJ.Spec.Unicode
import AJ.Lemmas.Bits
import AJ.Lemmas.Latch
import AJ.Lemmas.Quoted
namespace C17
open JD

/-- `Utf8::encodeCodepoint` (reverse buffer, 16-bit intermediate) is UTF-8, for every Unicode code point. -/
theorem encodeCodepoint_eq_utf8 (cp : Nat) (h : cp < 0x110000) : encodeCodepoint cp = Spec.utf8 cp := by
  unfold encodeCodepoint Spec.utf8 contByte
  simp only [Nat.shiftRight_eq_div_pow, Bits.cont_eq]
  have m (x : Nat) : (128 + x % 64) % 256 = 128 + x % 64 := by omega
  by_cases h1 : cp < 0x80
  · simp [h1]
  · simp only [h1, ↓reduceIte, m]
    have e6 : cp / 2 ^ 6 % 65536 = cp / 64 := by omega
    rw [e6]
    by_cases h2 : cp < 0x800
    · have lt : cp / 64 < 0x20 := by omega
      have e : (192 + cp / 64) % 256 = 192 + cp / 64 := by omega
      simp only [lt, h2, ↓reduceIte, Bits.or_C0 _ lt, e]
    · have n2 : ¬ cp / 64 < 0x20 := by omega
      simp only [n2, h2, ↓reduceIte]
      have e12 : cp / 64 / 2 ^ 6 = cp / 4096 := by omega
      rw [e12]
      by_cases h3 : cp < 0x10000
      · have lt : cp / 4096 < 0x10 := by omega
        have e : (224 + cp / 4096) % 256 = 224 + cp / 4096 := by omega
        simp only [lt, h3, ↓reduceIte, Bits.or_E0 _ lt, e]
      · have n3 : ¬ cp / 4096 < 0x10 := by omega
        simp only [n3, h3, ↓reduceIte]
        have e18 : cp / 4096 / 2 ^ 6 = cp / 262144 := by omega
        have lt : cp / 262144 < 0x10 := by omega
        have e : (240 + cp / 262144) % 256 = 240 + cp / 262144 := by omega
        rw [e18, Bits.or_F0 _ lt, e]

/-- `decodeHex` maps every hexadecimal digit, in either case, to its value. -/
theorem decodeHex_hex (c : UInt8) (v : Nat) (h : Spec.hexVal c = some v) : decodeHex c = v := by
  have key : ∀ c : UInt8, (match Spec.hexVal c with | some v => decodeHex c == v | none => true) = true := by
    apply Bits.all_bytes; decide +kernel
  have := key c
  rw [h] at this
  simpa using this

/-- surrogate recombination as done by `Utf16::Codepoint::append` (10 bits kept from each unit) -/
theorem surrogate_pair (hi lo : Nat) (hh : 0xD800 ≤ hi ∧ hi < 0xDC00) (hl : 0xDC00 ≤ lo ∧ lo < 0xE000) :
    0x10000 + ((hi % 1024) * 1024 + lo % 1024) = Spec.pairValue hi lo := by
  unfold Spec.pairValue; omega

/-- The two tables read from `escapeTable` are inverse of each other: whatever the serializer escapes,
    the deserializer unescapes to the same byte. -/
theorem unescape_escape (c : UInt8) (h : JSer.escapeChar c ≠ 0) : unescapeChar (JSer.escapeChar c) = c := by
  have key : ∀ c : UInt8, (JSer.escapeChar c == 0 || unescapeChar (JSer.escapeChar c) == c) = true := by
    apply Bits.all_bytes; decide +kernel
  have := key c
  simp only [Bool.or_eq_true, beq_iff_eq] at this
  rcases this with h0 | h1
  · exact absurd h0 h
  · exact h1

/-- the bytes that `serializeJson` does not copy verbatim: quote, backslash, \b \f \n \r \t and NUL -/
def specials : List UInt8 := [0x22, 0x5C, 0x08, 0x0C, 0x0A, 0x0D, 0x09, 0]

/-- `serializeJson` changes a byte exactly when it is the quote, the backslash, \b \f \n \r \t or NUL. -/
theorem escape_minimal (c : UInt8) : JSer.writeChar c = [c] ↔ c ∉ specials := by
  have key : ∀ c : UInt8, (decide (JSer.writeChar c = [c]) == !(specials.contains c)) = true := by
    apply Bits.all_bytes; decide +kernel
  have := key c
  rw [beq_iff_eq] at this
  constructor
  · intro h
    rw [decide_eq_true h] at this
    intro hm
    have hc : specials.contains c = true := List.contains_iff_mem.mpr hm
    rw [hc] at this
    exact absurd this (by decide)
  · intro h
    have hc : specials.contains c = false := by
      cases hcc : specials.contains c
      · rfl
      · exact absurd (List.contains_iff_mem.mp hcc) h
    rw [hc] at this
    exact of_decide_eq_true this

/-! ## Composition through the string parser -/

/-- generalised accumulator version of `escape_inverse` -/
theorem escape_inverse_gen {cfg : Cfg} (hcfg : cfg.decodeUnicode = true) (s : List UInt8) :
    ∀ (fuel : Nat) (acc : List UInt8) (hi : Nat) (q : St) (rest : List UInt8) (p : Nat) (f : Bool),
      s.length < fuel → acc.length + s.length ≤ cfg.maxStrLen →
      At q (s.flatMap JSer.writeChar ++ 0x22 :: rest) p f →
      ∃ q', At q' rest (p + (s.flatMap JSer.writeChar).length + 1) f ∧
        parseQuoted cfg 0x22 fuel acc hi q = (.ok, acc.reverse ++ s, q') := by
  induction s with
  | nil =>
    intro fuel acc hi q rest p f hf hl h
    obtain ⟨n, rfl⟩ : ∃ n, fuel = n + 1 := ⟨fuel - 1, by simp at hf; omega⟩
    have h' : At q (0x22 :: rest) p f := by simpa using h
    obtain ⟨q', hq', he⟩ := pq_close (cfg := cfg) (fuel := n) (acc := acc) (hi := hi) h' (by simpa using hl)
    exact ⟨q', by simpa using hq', by simpa using he⟩
  | cons c cs ih =>
    intro fuel acc hi q rest p f hf hl h
    obtain ⟨n, rfl⟩ : ∃ n, fuel = n + 1 := ⟨fuel - 1, by simp at hf; omega⟩
    have h' : At q (JSer.writeChar c ++ (cs.flatMap JSer.writeChar ++ 0x22 :: rest)) p f := by
      simpa [List.flatMap_cons, List.append_assoc] using h
    obtain ⟨q1, hq1, he1⟩ := pq_writeChar hcfg c n acc hi q _ p f h'
    obtain ⟨q', hq', he'⟩ := ih n (c :: acc) hi q1 rest _ f (by simp at hf; omega)
      (by simp at hl ⊢; omega) hq1
    refine ⟨q', ?_, ?_⟩
    · have : p + (JSer.writeChar c).length + (cs.flatMap JSer.writeChar).length + 1 =
          p + ((c :: cs).flatMap JSer.writeChar).length + 1 := by
        simp only [List.flatMap_cons, List.length_append]; omega
      rw [← this]; exact hq'
    · rw [he1, he']; simp

/-- **Escaping is inverted by the string parser.** Whatever `writeString` emits for the body of a string
    (any bytes at all, hence every byte and every pair of bytes), followed by the closing quote, is read back
    by `parseQuotedString` as the identical bytes; the reader is left just after the closing quote.
    One unit of fuel per source byte plus one for the quote is enough. -/
theorem escape_inverse (s : List UInt8) (cfg : Cfg) (q : St) (rest : List UInt8) (fuel hi : Nat)
    (hcfg : cfg.decodeUnicode = true) (hlen : s.length ≤ cfg.maxStrLen)
    (hq1 : q.l.loaded = false) (hq2 : q.l.unread = s.flatMap JSer.writeChar ++ 0x22 :: rest)
    (hfuel : s.length < fuel) :
    ∃ q', parseQuoted cfg 0x22 fuel [] hi q = (.ok, s, q') ∧ q'.l.loaded = false ∧ q'.l.unread = rest ∧
      q'.l.pos = q.l.pos + (s.flatMap JSer.writeChar).length + 1 ∧ q'.found = q.found := by
  obtain ⟨q', hq', he⟩ := escape_inverse_gen hcfg s fuel [] hi q rest q.l.pos q.found hfuel (by simpa using hlen)
    ⟨hq1, hq2, rfl, rfl⟩
  exact ⟨q', by simpa using he, hq'.1, hq'.2.1, hq'.2.2.1, hq'.2.2.2⟩

/-- the same with the fuel bound stated on the escaped text -/
theorem escape_inverse' (s : List UInt8) (cfg : Cfg) (q : St) (rest : List UInt8) (fuel : Nat)
    (hcfg : cfg.decodeUnicode = true) (hlen : s.length ≤ cfg.maxStrLen)
    (hq1 : q.l.loaded = false) (hq2 : q.l.unread = s.flatMap JSer.writeChar ++ 0x22 :: rest)
    (hfuel : (s.flatMap JSer.writeChar).length + 1 < fuel) :
    ∃ q', parseQuoted cfg 0x22 fuel [] 0 q = (.ok, s, q') ∧ q'.l.loaded = false ∧ q'.l.unread = rest := by
  have := length_le_escaped s
  obtain ⟨q', h1, h2, h3, _⟩ := escape_inverse s cfg q rest fuel 0 hcfg hlen hq1 hq2 (by omega)
  exact ⟨q', h1, h2, h3⟩

/-- **Round trip of a top-level string**: for every byte string `s` (within the length limit of the string
    buffer), `deserializeJson(serializeJson(s))` succeeds, yields exactly `s`, and consumes the whole text. -/
theorem roundtrip_string (cfg : Cfg) (L : Nat) (s : List UInt8)
    (hcfg : cfg.decodeUnicode = true) (hlen : s.length ≤ cfg.maxStrLen) :
    JD.run cfg L (JSer.writeString s) = (.ok, .str s, (JSer.writeString s).length) := by
  have hle := length_le_escaped s
  have hlenW : (JSer.writeString s).length = (s.flatMap JSer.writeChar).length + 2 := by
    simp [JSer.writeString]
  have hrun : JD.run cfg L (JSer.writeString s) =
      (match parseVariant cfg ((2 * (JSer.writeString s).length + 3) + 1) L { l := { unread := JSer.writeString s } } with
       | (.ok, v, s) =>
         if s.l.cur != 0 && !isWs s.l.cur && isNumberVal v then (.invalid, v, s.l.pos) else (.ok, v, s.l.pos)
       | (e, v, s) => (e, v, s.l.pos)) := rfl
  rw [hrun, parseVariant_quote (rest := s.flatMap JSer.writeChar ++ [0x22]) rfl rfl]
  obtain ⟨q', he, _, _, hp, _⟩ := escape_inverse s cfg
    { adv { l := { unread := JSer.writeString s } } 0x22 (s.flatMap JSer.writeChar ++ [0x22]) with found := true }
    [] (2 * (JSer.writeString s).length + 3 + 1) 0 hcfg hlen rfl rfl (by omega)
  have hpos : q'.l.pos = (JSer.writeString s).length := by
    rw [hp, hlenW]
    show (0 + 1) + (List.flatMap JSer.writeChar s).length + 1 = (List.flatMap JSer.writeChar s).length + 2
    omega
  rw [he]
  simp only [isNumberVal, Bool.and_false, Bool.false_eq_true, ↓reduceIte, hpos]

/-- every byte value placed in a string survives `serializeJson` then `deserializeJson` -/
theorem roundtrip_byte (cfg : Cfg) (L : Nat) (c : UInt8) (hcfg : cfg.decodeUnicode = true) (hm : 1 ≤ cfg.maxStrLen) :
    JD.run cfg L (JSer.writeString [c]) = (.ok, .str [c], (JSer.writeString [c]).length) :=
  roundtrip_string cfg L [c] hcfg (by simpa using hm)

/-- every pair of byte values placed in a string survives `serializeJson` then `deserializeJson` -/
theorem roundtrip_byte_pair (cfg : Cfg) (L : Nat) (a b : UInt8) (hcfg : cfg.decodeUnicode = true)
    (hm : 2 ≤ cfg.maxStrLen) :
    JD.run cfg L (JSer.writeString [a, b]) = (.ok, .str [a, b], (JSer.writeString [a, b]).length) :=
  roundtrip_string cfg L [a, b] hcfg (by simpa using hm)

/-! ## A key and a string value inside an object -/

/-- **Round trip of a key and of a string value inside an object**: the compact serialization of
    `{k: s}` deserializes to exactly that object, for all byte strings `k` and `s`. -/
theorem roundtrip_member (cfg : Cfg) (L : Nat) (k s : List UInt8) (hcfg : cfg.decodeUnicode = true)
    (hk : k.length ≤ cfg.maxStrLen) (hs : s.length ≤ cfg.maxStrLen) :
    JD.run cfg (L + 1) (JSer.compact cfg (.obj [(k, .str s)])) =
      (.ok, .obj [(k, .str s)], (JSer.compact cfg (.obj [(k, .str s)])).length) := by
  have hin : JSer.compact cfg (.obj [(k, .str s)]) =
      0x7B :: 0x22 :: (k.flatMap JSer.writeChar ++ 0x22 :: 0x3A :: 0x22 :: (s.flatMap JSer.writeChar ++ 0x22 :: [0x7D])) := by
    simp [JSer.compact, JSer.compactMembers, JSer.writeString]
  rw [hin]
  generalize hI : (0x7B :: 0x22 :: (k.flatMap JSer.writeChar ++ 0x22 :: 0x3A :: 0x22 ::
      (s.flatMap JSer.writeChar ++ 0x22 :: [0x7D])) : List UInt8) = I
  have hlen : I.length = (k.flatMap JSer.writeChar).length + (s.flatMap JSer.writeChar).length + 7 := by
    rw [← hI]; simp only [List.length_cons, List.length_append, List.length_nil]; omega
  have hkl := length_le_escaped k
  have hsl := length_le_escaped s
  have hrun : JD.run cfg (L + 1) I =
      (match parseVariant cfg (2 * I.length + 1 + 1 + 1 + 1) (L + 1) { l := { unread := I } } with
       | (.ok, v, s) =>
         if s.l.cur != 0 && !isWs s.l.cur && isNumberVal v then (.invalid, v, s.l.pos) else (.ok, v, s.l.pos)
       | (e, v, s) => (e, v, s.l.pos)) := rfl
  rw [hrun]
  have hopen := parseVariant_obj_open (cfg := cfg) (fuel := 2 * I.length + 1 + 1 + 1) (limit := L)
    (s := { l := { unread := I } }) (c := 0x22)
    (rest := k.flatMap JSer.writeChar ++ 0x22 :: 0x3A :: 0x22 :: (s.flatMap JSer.writeChar ++ 0x22 :: [0x7D]))
    rfl (by rw [← hI]) (by decide) (by decide) (by decide) (by decide)
  rw [hopen]
  -- the key
  obtain ⟨q1, he1, h11, h12, hp1, _⟩ := escape_inverse k cfg
    (setFound (adv (setFound (adv { l := { unread := I } } 0x7B
      (0x22 :: (k.flatMap JSer.writeChar ++ 0x22 :: 0x3A :: 0x22 :: (s.flatMap JSer.writeChar ++ 0x22 :: [0x7D])))))
      0x22 (k.flatMap JSer.writeChar ++ 0x22 :: 0x3A :: 0x22 :: (s.flatMap JSer.writeChar ++ 0x22 :: [0x7D]))))
    (0x3A :: 0x22 :: (s.flatMap JSer.writeChar ++ 0x22 :: [0x7D])) (2 * I.length + 1 + 1 + 1) 0 hcfg hk rfl rfl (by omega)
  -- the value
  obtain ⟨q2, he2, h21, h22, hp2, _⟩ := escape_inverse s cfg
    { adv (setFound (adv q1 0x3A (0x22 :: (s.flatMap JSer.writeChar ++ 0x22 :: [0x7D])))) 0x22
        (s.flatMap JSer.writeChar ++ 0x22 :: [0x7D]) with found := true }
    [0x7D] (2 * I.length + 1 + 1) 0 hcfg hs rfl rfl (by omega)
  have hv : parseVariant cfg (2 * I.length + 1 + 1) L
      (setFound (adv q1 0x3A (0x22 :: (s.flatMap JSer.writeChar ++ 0x22 :: [0x7D])))) = (.ok, .str s, q2) := by
    rw [parseVariant_quote (rest := s.flatMap JSer.writeChar ++ 0x22 :: [0x7D]) rfl rfl, he2]
  rw [parseMembers_single he1 h11 h12 hv h21 h22]
  have hpos : (setFound (adv q2 0x7D [])).l.pos = I.length := by
    rw [setFound_l, adv_pos, hp2]
    show q1.l.pos + 1 + 1 + _ + 1 + 1 = _
    rw [hp1]
    show (0 + 1) + 1 + _ + 1 + 1 + 1 + _ + 1 + 1 = _
    omega
  simp only [isNumberVal, Bool.and_false, Bool.false_eq_true, ↓reduceIte, hpos, setMember]

/-! ## `\uXXXX` at any position -/

theorem decodeHex_le (c : UInt8) (v : Nat) (h : Spec.hexVal c = some v) : decodeHex c ≤ 0x0F := by
  rw [decodeHex_hex c v h]; exact hexVal_le c v h

/-- one `\uXXXX` of a non-surrogate code unit: one round of the loop, appends the UTF-8 encoding -/
theorem pq_u_bmp {cfg : Cfg} {stop : UInt8} (hs : stop ≠ 0x5C) (hcfg : cfg.decodeUnicode = true)
    {h1 h2 h3 h4 : UInt8} {d1 d2 d3 d4 : Nat}
    (e1 : Spec.hexVal h1 = some d1) (e2 : Spec.hexVal h2 = some d2)
    (e3 : Spec.hexVal h3 = some d3) (e4 : Spec.hexVal h4 = some d4)
    (hns : Spec.isSurrogate (d1 * 4096 + d2 * 256 + d3 * 16 + d4) = false)
    (fuel : Nat) (acc : List UInt8) (hi : Nat) (s : St) (rest : List UInt8) (p : Nat) (f : Bool)
    (h : At s (0x5C :: 0x75 :: h1 :: h2 :: h3 :: h4 :: rest) p f) :
    ∃ s', At s' rest (p + 6) f ∧
      parseQuoted cfg stop (fuel + 1) acc hi s =
        parseQuoted cfg stop fuel ((Spec.utf8 (d1 * 4096 + d2 * 256 + d3 * 16 + d4)).reverse ++ acc) hi s' := by
  obtain ⟨s', hs', he⟩ := pq_u (cfg := cfg) (stop := stop) (fuel := fuel) (acc := acc) (hi := hi) h.1 h.2.1 hs hcfg
    (decodeHex_le _ _ e1) (decodeHex_le _ _ e2) (decodeHex_le _ _ e3) (decodeHex_le _ _ e4)
  rw [h.2.2.1, h.2.2.2] at hs'
  refine ⟨s', hs', ?_⟩
  rw [he, decodeHex_hex _ _ e1, decodeHex_hex _ _ e2, decodeHex_hex _ _ e3, decodeHex_hex _ _ e4]
  have b1 := hexVal_le _ _ e1; have b2 := hexVal_le _ _ e2; have b3 := hexVal_le _ _ e3; have b4 := hexVal_le _ _ e4
  generalize hcu : d1 * 4096 + d2 * 256 + d3 * 16 + d4 = cu at hns ⊢
  have hlt : cu < 0x110000 := by omega
  simp only [Spec.isSurrogate, Bool.and_eq_false_iff, decide_eq_false_iff_not] at hns
  have c1 : (decide (0xD800 ≤ cu) && decide (cu < 0xDC00)) = false := by
    simp only [Bool.and_eq_false_iff, decide_eq_false_iff_not]; omega
  have c2 : (decide (0xDC00 ≤ cu) && decide (cu < 0xE000)) = false := by
    simp only [Bool.and_eq_false_iff, decide_eq_false_iff_not]; omega
  simp only [c1, c2, Bool.false_eq_true, ↓reduceIte, encodeCodepoint_eq_utf8 cu hlt]

/-- a high surrogate escape immediately followed by a low surrogate escape: two rounds of the loop, appends the
    UTF-8 encoding of the code point of the pair (whatever was pending before) -/
theorem pq_u_pair {cfg : Cfg} {stop : UInt8} (hs : stop ≠ 0x5C) (hcfg : cfg.decodeUnicode = true)
    {a1 a2 a3 a4 b1 b2 b3 b4 : UInt8} {x1 x2 x3 x4 y1 y2 y3 y4 hiu lou : Nat}
    (ea1 : Spec.hexVal a1 = some x1) (ea2 : Spec.hexVal a2 = some x2)
    (ea3 : Spec.hexVal a3 = some x3) (ea4 : Spec.hexVal a4 = some x4)
    (eb1 : Spec.hexVal b1 = some y1) (eb2 : Spec.hexVal b2 = some y2)
    (eb3 : Spec.hexVal b3 = some y3) (eb4 : Spec.hexVal b4 = some y4)
    (hhiu : hiu = x1 * 4096 + x2 * 256 + x3 * 16 + x4) (hlou : lou = y1 * 4096 + y2 * 256 + y3 * 16 + y4)
    (hhi : 0xD800 ≤ hiu ∧ hiu < 0xDC00) (hlo : 0xDC00 ≤ lou ∧ lou < 0xE000)
    (fuel : Nat) (acc : List UInt8) (hi0 : Nat) (s : St) (rest : List UInt8) (p : Nat) (f : Bool)
    (h : At s (0x5C :: 0x75 :: a1 :: a2 :: a3 :: a4 :: 0x5C :: 0x75 :: b1 :: b2 :: b3 :: b4 :: rest) p f) :
    ∃ s', At s' rest (p + 12) f ∧
      parseQuoted cfg stop (fuel + 2) acc hi0 s =
        parseQuoted cfg stop fuel ((Spec.utf8 (Spec.pairValue hiu lou)).reverse ++ acc) (hiu % 1024) s' := by
  obtain ⟨s1, hs1, he1⟩ := pq_u (cfg := cfg) (stop := stop) (fuel := fuel + 1) (acc := acc) (hi := hi0) h.1 h.2.1 hs hcfg
    (decodeHex_le _ _ ea1) (decodeHex_le _ _ ea2) (decodeHex_le _ _ ea3) (decodeHex_le _ _ ea4)
  rw [h.2.2.1, h.2.2.2] at hs1
  rw [decodeHex_hex _ _ ea1, decodeHex_hex _ _ ea2, decodeHex_hex _ _ ea3, decodeHex_hex _ _ ea4, ← hhiu] at he1
  have c1 : (decide (0xD800 ≤ hiu) && decide (hiu < 0xDC00)) = true := by
    simp only [Bool.and_eq_true, decide_eq_true_eq]; exact hhi
  simp only [c1, ↓reduceIte] at he1
  obtain ⟨s2, hs2, he2⟩ := pq_u (cfg := cfg) (stop := stop) (fuel := fuel) (acc := acc) (hi := hiu % 1024)
    hs1.1 hs1.2.1 hs hcfg
    (decodeHex_le _ _ eb1) (decodeHex_le _ _ eb2) (decodeHex_le _ _ eb3) (decodeHex_le _ _ eb4)
  rw [hs1.2.2.1, hs1.2.2.2] at hs2
  rw [decodeHex_hex _ _ eb1, decodeHex_hex _ _ eb2, decodeHex_hex _ _ eb3, decodeHex_hex _ _ eb4, ← hlou] at he2
  have c2 : (decide (0xD800 ≤ lou) && decide (lou < 0xDC00)) = false := by
    simp only [Bool.and_eq_false_iff, decide_eq_false_iff_not]; omega
  have c3 : (decide (0xDC00 ≤ lou) && decide (lou < 0xE000)) = true := by
    simp only [Bool.and_eq_true, decide_eq_true_eq]; exact hlo
  simp only [c2, c3, Bool.false_eq_true, ↓reduceIte] at he2
  refine ⟨s2, by simpa [Nat.add_assoc] using hs2, ?_⟩
  have hpv : Spec.pairValue hiu lou < 0x110000 := by unfold Spec.pairValue; omega
  rw [show fuel + 2 = (fuel + 1) + 1 from rfl, he1, he2, surrogate_pair hiu lou hhi hlo,
    encodeCodepoint_eq_utf8 _ hpv]

/-- **A BMP escape decodes to UTF-8 at any position**: `pre \uXXXX post "` with plain bytes before and after,
    hex digits in any case, for the string delimiter `stop` (`"` or `'`; strings and keys use the same routine). -/
theorem bmp_decodes_anywhere (cfg : Cfg) (stop : UInt8) (hs : stop ≠ 0x5C) (hcfg : cfg.decodeUnicode = true)
    (pre post rest : List UInt8) (hpre : ∀ c ∈ pre, Plain stop c) (hpost : ∀ c ∈ post, Plain stop c)
    (h1 h2 h3 h4 : UInt8) (d1 d2 d3 d4 cu : Nat)
    (e1 : Spec.hexVal h1 = some d1) (e2 : Spec.hexVal h2 = some d2)
    (e3 : Spec.hexVal h3 = some d3) (e4 : Spec.hexVal h4 = some d4)
    (hcu : cu = d1 * 4096 + d2 * 256 + d3 * 16 + d4) (hns : Spec.isSurrogate cu = false)
    (hlen : (pre ++ Spec.utf8 cu ++ post).length ≤ cfg.maxStrLen)
    (q : St) (hq1 : q.l.loaded = false)
    (hq2 : q.l.unread = pre ++ [0x5C, 0x75, h1, h2, h3, h4] ++ post ++ [stop] ++ rest)
    (fuel hi : Nat) (hfuel : pre.length + post.length + 2 ≤ fuel) :
    ∃ q', parseQuoted cfg stop fuel [] hi q = (.ok, pre ++ Spec.utf8 cu ++ post, q') ∧
      q'.l.loaded = false ∧ q'.l.unread = rest ∧ q'.l.pos = q.l.pos + (pre.length + 6 + post.length + 1) := by
  subst hcu
  obtain ⟨k, rfl⟩ : ∃ k, fuel = pre.length + ((post.length + (k + 1)) + 1) :=
    ⟨fuel - (pre.length + post.length + 2), by omega⟩
  have h0 : At q (pre ++ (0x5C :: 0x75 :: h1 :: h2 :: h3 :: h4 :: (post ++ stop :: rest))) q.l.pos q.found :=
    ⟨hq1, by rw [hq2]; simp, rfl, rfl⟩
  obtain ⟨s1, hs1, he1⟩ := parseQuoted_plain_prefix (cfg := cfg) pre hpre _ [] hi q _ _ _ h0
  obtain ⟨s2, hs2, he2⟩ := pq_u_bmp (cfg := cfg) hs hcfg e1 e2 e3 e4 hns (post.length + (k + 1)) (pre.reverse ++ [])
    hi s1 _ _ _ hs1
  obtain ⟨s3, hs3, he3⟩ := pq_plain_then_close (cfg := cfg) post hpost k
    ((Spec.utf8 (d1 * 4096 + d2 * 256 + d3 * 16 + d4)).reverse ++ (pre.reverse ++ [])) hi s2 rest _ _ hs2
    (by simp at hlen ⊢; omega)
  refine ⟨s3, ?_, hs3.1, hs3.2.1, ?_⟩
  · rw [he1, he2, he3]; simp
  · rw [hs3.2.2.1]; omega

/-- **A surrogate pair decodes to the UTF-8 of its code point at any position**: a high-surrogate escape
    immediately followed by a low-surrogate escape, hex digits in any case. -/
theorem pair_decodes_anywhere (cfg : Cfg) (stop : UInt8) (hs : stop ≠ 0x5C) (hcfg : cfg.decodeUnicode = true)
    (pre post rest : List UInt8) (hpre : ∀ c ∈ pre, Plain stop c) (hpost : ∀ c ∈ post, Plain stop c)
    (a1 a2 a3 a4 b1 b2 b3 b4 : UInt8) (x1 x2 x3 x4 y1 y2 y3 y4 hiu lou : Nat)
    (ea1 : Spec.hexVal a1 = some x1) (ea2 : Spec.hexVal a2 = some x2)
    (ea3 : Spec.hexVal a3 = some x3) (ea4 : Spec.hexVal a4 = some x4)
    (eb1 : Spec.hexVal b1 = some y1) (eb2 : Spec.hexVal b2 = some y2)
    (eb3 : Spec.hexVal b3 = some y3) (eb4 : Spec.hexVal b4 = some y4)
    (hhiu : hiu = x1 * 4096 + x2 * 256 + x3 * 16 + x4) (hlou : lou = y1 * 4096 + y2 * 256 + y3 * 16 + y4)
    (hhi : 0xD800 ≤ hiu ∧ hiu < 0xDC00) (hlo : 0xDC00 ≤ lou ∧ lou < 0xE000)
    (hlen : (pre ++ Spec.utf8 (Spec.pairValue hiu lou) ++ post).length ≤ cfg.maxStrLen)
    (q : St) (hq1 : q.l.loaded = false)
    (hq2 : q.l.unread = pre ++ [0x5C, 0x75, a1, a2, a3, a4, 0x5C, 0x75, b1, b2, b3, b4] ++ post ++ [stop] ++ rest)
    (fuel hi : Nat) (hfuel : pre.length + post.length + 3 ≤ fuel) :
    ∃ q', parseQuoted cfg stop fuel [] hi q = (.ok, pre ++ Spec.utf8 (Spec.pairValue hiu lou) ++ post, q') ∧
      q'.l.loaded = false ∧ q'.l.unread = rest ∧ q'.l.pos = q.l.pos + (pre.length + 12 + post.length + 1) := by
  obtain ⟨k, rfl⟩ : ∃ k, fuel = pre.length + ((post.length + (k + 1)) + 2) :=
    ⟨fuel - (pre.length + post.length + 3), by omega⟩
  have h0 : At q (pre ++ (0x5C :: 0x75 :: a1 :: a2 :: a3 :: a4 :: 0x5C :: 0x75 :: b1 :: b2 :: b3 :: b4 ::
      (post ++ stop :: rest))) q.l.pos q.found :=
    ⟨hq1, by rw [hq2]; simp, rfl, rfl⟩
  obtain ⟨s1, hs1, he1⟩ := parseQuoted_plain_prefix (cfg := cfg) pre hpre _ [] hi q _ _ _ h0
  obtain ⟨s2, hs2, he2⟩ := pq_u_pair (cfg := cfg) hs hcfg ea1 ea2 ea3 ea4 eb1 eb2 eb3 eb4 hhiu hlou hhi hlo
    (post.length + (k + 1)) (pre.reverse ++ []) hi s1 _ _ _ hs1
  obtain ⟨s3, hs3, he3⟩ := pq_plain_then_close (cfg := cfg) post hpost k
    ((Spec.utf8 (Spec.pairValue hiu lou)).reverse ++ (pre.reverse ++ [])) _ s2 rest _ _ hs2
    (by simp at hlen ⊢; omega)
  refine ⟨s3, ?_, hs3.1, hs3.2.1, ?_⟩
  · rw [he1, he2, he3]; simp
  · rw [hs3.2.2.1]; omega


/-! ## The string part of C01: the parser computes the value that the grammar assigns to a string body -/

/-- **`parseQuotedString` agrees with the grammar.** If `t` is a well-formed string body denoting `v`
    (`JD.Body`: plain bytes, the eight short escapes, `\uXXXX` of non-surrogates in any hex case, surrogate pairs,
    in any order and at any position), then reading `t` followed by the closing delimiter yields exactly `v`,
    appended to what was accumulated, and leaves the reader just after the delimiter — whatever high surrogate
    was pending. -/
theorem body_decodes_gen {cfg : Cfg} {stop : UInt8} (hs : stop ≠ 0x5C) (hcfg : cfg.decodeUnicode = true)
    {t v : List UInt8} (hb : Body stop t v) :
    ∀ (fuel : Nat) (acc : List UInt8) (hi : Nat) (q : St) (rest : List UInt8) (p : Nat) (f : Bool),
      t.length < fuel → acc.length + v.length ≤ cfg.maxStrLen → At q (t ++ stop :: rest) p f →
      ∃ q', At q' rest (p + t.length + 1) f ∧ parseQuoted cfg stop fuel acc hi q = (.ok, acc.reverse ++ v, q') := by
  induction hb with
  | nil =>
    intro fuel acc hi q rest p f hf hl h
    obtain ⟨n, rfl⟩ : ∃ n, fuel = n + 1 := ⟨fuel - 1, by simp at hf; omega⟩
    have h' : At q (stop :: rest) p f := by simpa using h
    obtain ⟨q', hq', he⟩ := pq_close (cfg := cfg) (fuel := n) (acc := acc) (hi := hi) h' (by simpa using hl)
    exact ⟨q', by simpa using hq', by simpa using he⟩
  | plain c t v h1 h2 h3 _ ih =>
    intro fuel acc hi q rest p f hf hl h
    obtain ⟨n, rfl⟩ : ∃ n, fuel = n + 1 := ⟨fuel - 1, by simp at hf; omega⟩
    have h' : At q (c :: (t ++ stop :: rest)) p f := by simpa using h
    obtain ⟨q', hq', he'⟩ := ih n (c :: acc) hi _ rest _ f (by simp at hf; omega) (by simp at hl ⊢; omega) h'.adv
    refine ⟨q', ?_, ?_⟩
    · have : p + 1 + t.length + 1 = p + (c :: t).length + 1 := by simp; omega
      rw [← this]; exact hq'
    · rw [pq_plain h'.1 h'.2.1 h2 (ne_zero_of_ge_space h1) h3, he']; simp
  | esc l x t v hm _ ih =>
    intro fuel acc hi q rest p f hf hl h
    obtain ⟨n, rfl⟩ : ∃ n, fuel = n + 1 := ⟨fuel - 1, by simp at hf; omega⟩
    obtain ⟨f1, f2, f3, f4⟩ := rfcEscapes_facts hm
    have h' : At q (0x5C :: l :: (t ++ stop :: rest)) p f := by simpa using h
    obtain ⟨q', hq', he'⟩ := ih n (x :: acc) hi _ rest _ f (by simp at hf; omega) (by simp at hl ⊢; omega) h'.adv.adv
    refine ⟨q', ?_, ?_⟩
    · have : p + 1 + 1 + t.length + 1 = p + (0x5C :: l :: t).length + 1 := by simp; omega
      rw [← this]; exact hq'
    · rw [pq_esc h'.1 h'.2.1 hs f1 f2 (by rw [f3]; exact f4), f3, he']; simp
  | bmp h1 h2 h3 h4 d1 d2 d3 d4 t v e1 e2 e3 e4 hns _ ih =>
    intro fuel acc hi q rest p f hf hl h
    obtain ⟨n, rfl⟩ : ∃ n, fuel = n + 1 := ⟨fuel - 1, by simp at hf; omega⟩
    have h' : At q (0x5C :: 0x75 :: h1 :: h2 :: h3 :: h4 :: (t ++ stop :: rest)) p f := by simpa using h
    obtain ⟨q1, hq1, he1⟩ := pq_u_bmp (cfg := cfg) hs hcfg e1 e2 e3 e4 hns n acc hi q _ p f h'
    obtain ⟨q', hq', he'⟩ := ih n ((Spec.utf8 (d1 * 4096 + d2 * 256 + d3 * 16 + d4)).reverse ++ acc) hi q1 rest _ f
      (by simp at hf; omega) (by simp at hl ⊢; omega) hq1
    refine ⟨q', ?_, ?_⟩
    · have : p + 6 + t.length + 1 = p + (0x5C :: 0x75 :: h1 :: h2 :: h3 :: h4 :: t).length + 1 := by simp; omega
      rw [← this]; exact hq'
    · rw [he1, he']; simp
  | pair a1 a2 a3 a4 b1 b2 b3 b4 x1 x2 x3 x4 y1 y2 y3 y4 hiu lou t v ea1 ea2 ea3 ea4 eb1 eb2 eb3 eb4
      hhiu hlou hhi hlo _ ih =>
    intro fuel acc hi q rest p f hf hl h
    obtain ⟨n, rfl⟩ : ∃ n, fuel = n + 2 := ⟨fuel - 2, by simp at hf; omega⟩
    have h' : At q (0x5C :: 0x75 :: a1 :: a2 :: a3 :: a4 :: 0x5C :: 0x75 :: b1 :: b2 :: b3 :: b4 ::
        (t ++ stop :: rest)) p f := by simpa using h
    obtain ⟨q1, hq1, he1⟩ := pq_u_pair (cfg := cfg) hs hcfg ea1 ea2 ea3 ea4 eb1 eb2 eb3 eb4 hhiu hlou hhi hlo
      n acc hi q _ p f h'
    obtain ⟨q', hq', he'⟩ := ih n ((Spec.utf8 (Spec.pairValue hiu lou)).reverse ++ acc) (hiu % 1024) q1 rest _ f
      (by simp at hf; omega) (by simp at hl ⊢; omega) hq1
    refine ⟨q', ?_, ?_⟩
    · have : p + 12 + t.length + 1 =
          p + (0x5C :: 0x75 :: a1 :: a2 :: a3 :: a4 :: 0x5C :: 0x75 :: b1 :: b2 :: b3 :: b4 :: t).length + 1 := by
        simp; omega
      rw [← this]; exact hq'
    · rw [he1, he']; simp

/-- `parseQuotedString` on a well-formed body, from the empty accumulator -/
theorem body_decodes (cfg : Cfg) (stop : UInt8) (hs : stop ≠ 0x5C) (hcfg : cfg.decodeUnicode = true)
    (t v : List UInt8) (hb : Body stop t v) (hlen : v.length ≤ cfg.maxStrLen)
    (q : St) (rest : List UInt8) (hq1 : q.l.loaded = false) (hq2 : q.l.unread = t ++ stop :: rest)
    (fuel hi : Nat) (hfuel : t.length < fuel) :
    ∃ q', parseQuoted cfg stop fuel [] hi q = (.ok, v, q') ∧ q'.l.loaded = false ∧ q'.l.unread = rest ∧
      q'.l.pos = q.l.pos + t.length + 1 ∧ q'.found = q.found := by
  obtain ⟨q', hq', he⟩ := body_decodes_gen hs hcfg hb fuel [] hi q rest q.l.pos q.found hfuel (by simpa using hlen)
    ⟨hq1, hq2, rfl, rfl⟩
  exact ⟨q', by simpa using he, hq'.1, hq'.2.1, hq'.2.2.1, hq'.2.2.2⟩

/-- **A valid JSON string document deserializes to the value it denotes** (string part of C01): the text
    `"` body `"` where the body is well formed per RFC 8259 and denotes `v` gives `Ok`, the string `v`, and
    the whole text is consumed. -/
theorem string_document (cfg : Cfg) (L : Nat) (t v : List UInt8) (hcfg : cfg.decodeUnicode = true)
    (hb : Body 0x22 t v) (hlen : v.length ≤ cfg.maxStrLen) :
    JD.run cfg L (0x22 :: t ++ [0x22]) = (.ok, .str v, t.length + 2) := by
  have hrun : JD.run cfg L (0x22 :: t ++ [0x22]) =
      (match parseVariant cfg ((2 * (0x22 :: t ++ [0x22]).length + 3) + 1) L { l := { unread := 0x22 :: t ++ [0x22] } } with
       | (.ok, v, s) =>
         if s.l.cur != 0 && !isWs s.l.cur && isNumberVal v then (.invalid, v, s.l.pos) else (.ok, v, s.l.pos)
       | (e, v, s) => (e, v, s.l.pos)) := rfl
  rw [hrun, parseVariant_quote (rest := t ++ [0x22]) rfl rfl]
  obtain ⟨q', he, _, _, hp, _⟩ := body_decodes cfg 0x22 (by decide) hcfg t v hb hlen
    { adv { l := { unread := 0x22 :: t ++ [0x22] } } 0x22 (t ++ [0x22]) with found := true }
    [] rfl rfl (2 * (0x22 :: t ++ [0x22]).length + 3 + 1) 0 (by simp; omega)
  have hpos : q'.l.pos = t.length + 2 := by
    rw [hp]
    show (0 + 1) + t.length + 1 = t.length + 2
    omega
  rw [he]
  simp only [isNumberVal, Bool.and_false, Bool.false_eq_true, ↓reduceIte, hpos]

-- non-vacuity
example : encodeCodepoint 0x1F600 = [0xF0, 0x9F, 0x98, 0x80] := by decide
example : Spec.hexVal 0x66 = some 15 := by decide

-- escape_inverse on  A " NUL LF 0xFF \  (six source bytes, 14 escaped bytes), followed by `",`
example : ∃ q', parseQuoted {} 0x22 7 [] 0
      { l := { unread := [0x41, 0x5C, 0x22, 0x5C, 0x75, 0x30, 0x30, 0x30, 0x30, 0x5C, 0x6E, 0xFF, 0x5C, 0x5C, 0x22, 0x2C] } }
      = (.ok, [0x41, 0x22, 0x00, 0x0A, 0xFF, 0x5C], q') ∧ q'.l.loaded = false ∧ q'.l.unread = [0x2C] := by
  obtain ⟨q', h1, h2, h3, _⟩ := escape_inverse [0x41, 0x22, 0x00, 0x0A, 0xFF, 0x5C] {}
    { l := { unread := [0x41, 0x5C, 0x22, 0x5C, 0x75, 0x30, 0x30, 0x30, 0x30, 0x5C, 0x6E, 0xFF, 0x5C, 0x5C, 0x22, 0x2C] } }
    [0x2C] 7 0 rfl (by decide) rfl (by decide +kernel) (by decide)
  exact ⟨q', h1, h2, h3⟩

-- the same text evaluated directly (independent of the theorem)
example : (match parseQuoted {} 0x22 7 [] 0
      { l := { unread := [0x41, 0x5C, 0x22, 0x5C, 0x75, 0x30, 0x30, 0x30, 0x30, 0x5C, 0x6E, 0xFF, 0x5C, 0x5C, 0x22, 0x2C] } } with
    | (.ok, v, q') => v == [0x41, 0x22, 0x00, 0x0A, 0xFF, 0x5C] && q'.l.unread == [0x2C] && q'.l.pos == 15
    | _ => false) = true := by decide +kernel

-- roundtrip_string on the same six bytes
example : JD.run {} 10 [0x22, 0x41, 0x5C, 0x22, 0x5C, 0x75, 0x30, 0x30, 0x30, 0x30, 0x5C, 0x6E, 0xFF, 0x5C, 0x5C, 0x22]
    = (.ok, .str [0x41, 0x22, 0x00, 0x0A, 0xFF, 0x5C], 16) := by
  have hw : JSer.writeString [0x41, 0x22, 0x00, 0x0A, 0xFF, 0x5C] =
      [0x22, 0x41, 0x5C, 0x22, 0x5C, 0x75, 0x30, 0x30, 0x30, 0x30, 0x5C, 0x6E, 0xFF, 0x5C, 0x5C, 0x22] := by decide +kernel
  have := roundtrip_string {} 10 [0x41, 0x22, 0x00, 0x0A, 0xFF, 0x5C] rfl (by decide)
  rw [hw] at this
  exact this

-- aéb with mixed-case digits "00e9"/"00E9":  a é b
example : ∃ q', parseQuoted {} 0x22 4 [] 0
      { l := { unread := [0x61, 0x5C, 0x75, 0x30, 0x30, 0x65, 0x39, 0x62, 0x22] } }
      = (.ok, [0x61, 0xC3, 0xA9, 0x62], q') ∧ q'.l.loaded = false ∧ q'.l.unread = [] := by
  obtain ⟨q', h1, h2, h3, _⟩ := bmp_decodes_anywhere {} 0x22 (by decide) rfl [0x61] [0x62] [] (by decide) (by decide)
    0x30 0x30 0x65 0x39 0 0 14 9 0xE9 (by decide) (by decide) (by decide) (by decide) (by decide) (by decide)
    (by decide +kernel) { l := { unread := [0x61, 0x5C, 0x75, 0x30, 0x30, 0x65, 0x39, 0x62, 0x22] } } rfl rfl 4 0 (by decide)
  have e : [0x61] ++ Spec.utf8 0xE9 ++ [0x62] = [0x61, 0xC3, 0xA9, 0x62] := by decide +kernel
  rw [e] at h1
  exact ⟨q', h1, h2, h3⟩

-- x😀 in a single-quoted key/string: U+1F600
example : ∃ q', parseQuoted {} 0x27 4 [] 0
      { l := { unread := [0x78, 0x5C, 0x75, 0x64, 0x38, 0x33, 0x64, 0x5C, 0x75, 0x44, 0x45, 0x30, 0x30, 0x27, 0x3A] } }
      = (.ok, [0x78, 0xF0, 0x9F, 0x98, 0x80], q') ∧ q'.l.loaded = false ∧ q'.l.unread = [0x3A] := by
  obtain ⟨q', h1, h2, h3, _⟩ := pair_decodes_anywhere {} 0x27 (by decide) rfl [0x78] [] [0x3A] (by decide) (by decide)
    0x64 0x38 0x33 0x64 0x44 0x45 0x30 0x30 13 8 3 13 13 14 0 0 0xD83D 0xDE00
    (by decide) (by decide) (by decide) (by decide) (by decide) (by decide) (by decide) (by decide)
    (by decide) (by decide) (by decide) (by decide) (by decide +kernel)
    { l := { unread := [0x78, 0x5C, 0x75, 0x64, 0x38, 0x33, 0x64, 0x5C, 0x75, 0x44, 0x45, 0x30, 0x30, 0x27, 0x3A] } }
    rfl rfl 4 0 (by decide)
  have e : [0x78] ++ Spec.utf8 (Spec.pairValue 0xD83D 0xDE00) ++ [] = [0x78, 0xF0, 0x9F, 0x98, 0x80] := by decide +kernel
  rw [e] at h1
  exact ⟨q', h1, h2, h3⟩

-- string_document:  "a\né"  is well formed and denotes  a LF é
example : JD.run {} 10 [0x22, 0x61, 0x5C, 0x6E, 0x5C, 0x75, 0x30, 0x30, 0x45, 0x39, 0x22]
    = (.ok, .str [0x61, 0x0A, 0xC3, 0xA9], 11) := by
  have hb : Body 0x22 [0x61, 0x5C, 0x6E, 0x5C, 0x75, 0x30, 0x30, 0x45, 0x39]
      (0x61 :: 0x0A :: (Spec.utf8 (0 * 4096 + 0 * 256 + 14 * 16 + 9) ++ [])) :=
    .plain 0x61 _ _ (by decide) (by decide) (by decide)
      (.esc 0x6E 0x0A _ _ (by decide)
        (.bmp 0x30 0x30 0x45 0x39 0 0 14 9 [] [] (by decide) (by decide) (by decide) (by decide) (by decide) .nil))
  have e : (0x61 :: 0x0A :: (Spec.utf8 (0 * 4096 + 0 * 256 + 14 * 16 + 9) ++ [])) = [0x61, 0x0A, 0xC3, 0xA9] := by
    decide +kernel
  rw [e] at hb
  exact string_document {} 10 _ _ rfl hb (by decide)
-- roundtrip_member:  {"a\"":"\u0000"}  (key  a"  , value NUL)
example : JD.run {} 1 [0x7B, 0x22, 0x61, 0x5C, 0x22, 0x22, 0x3A, 0x22, 0x5C, 0x75, 0x30, 0x30, 0x30, 0x30, 0x22, 0x7D]
    = (.ok, .obj [([0x61, 0x22], .str [0x00])], 16) := by
  have hw : JSer.compact {} (.obj [([0x61, 0x22], .str [0x00])]) =
      [0x7B, 0x22, 0x61, 0x5C, 0x22, 0x22, 0x3A, 0x22, 0x5C, 0x75, 0x30, 0x30, 0x30, 0x30, 0x22, 0x7D] := by decide +kernel
  have := roundtrip_member {} 0 [0x61, 0x22] [0x00] rfl (by decide) (by decide)
  rw [hw] at this
  exact this
end C17
