/- C17 — Unicode escapes decode correctly for every code point; escaping is the inverse.
   Property theorems only; helper lemmas live in AJ/Lemmas. -/
import AJ.Model.JD
import AJ.Model.JSer
import AJ.Spec.Unicode
import AJ.Lemmas.Bits
namespace C17
open JD

/-- `Utf8::encodeCodepoint` (reverse buffer, 16-bit intermediate) is UTF-8, for every Unicode code point. -/
theorem encodeCodepoint_eq_utf8 (cp : Nat) (h : cp < 0x110000) : encodeCodepoint cp = Spec.utf8 cp := by
  unfold encodeCodepoint Spec.utf8 contByte
  simp only [Nat.shiftRight_eq_div_pow, Bits.cont_eq]
  have m (x : Nat) : (128 + x % 64) % 256 = 128 + x % 64 := by omega
  by_cases h1 : cp < 0x80
  · simp [h1]
  · simp only [h1, ↓reduceIte, m]
    have e6 : cp / 2 ^ 6 % 65536 = cp / 64 := by omega
    rw [e6]
    by_cases h2 : cp < 0x800
    · have lt : cp / 64 < 0x20 := by omega
      have e : (192 + cp / 64) % 256 = 192 + cp / 64 := by omega
      simp only [lt, h2, ↓reduceIte, Bits.or_C0 _ lt, e]
    · have n2 : ¬ cp / 64 < 0x20 := by omega
      simp only [n2, h2, ↓reduceIte]
      have e12 : cp / 64 / 2 ^ 6 = cp / 4096 := by omega
      rw [e12]
      by_cases h3 : cp < 0x10000
      · have lt : cp / 4096 < 0x10 := by omega
        have e : (224 + cp / 4096) % 256 = 224 + cp / 4096 := by omega
        simp only [lt, h3, ↓reduceIte, Bits.or_E0 _ lt, e]
      · have n3 : ¬ cp / 4096 < 0x10 := by omega
        simp only [n3, h3, ↓reduceIte]
        have e18 : cp / 4096 / 2 ^ 6 = cp / 262144 := by omega
        have lt : cp / 262144 < 0x10 := by omega
        have e : (240 + cp / 262144) % 256 = 240 + cp / 262144 := by omega
        rw [e18, Bits.or_F0 _ lt, e]

/-- `decodeHex` maps every hexadecimal digit, in either case, to its value. -/
theorem decodeHex_hex (c : UInt8) (v : Nat) (h : Spec.hexVal c = some v) : decodeHex c = v := by
  have key : ∀ c : UInt8, (match Spec.hexVal c with | some v => decodeHex c == v | none => true) = true := by
    apply Bits.all_bytes; decide +kernel
  have := key c
  rw [h] at this
  simpa using this

/-- surrogate recombination as done by `Utf16::Codepoint::append` (10 bits kept from each unit) -/
theorem surrogate_pair (hi lo : Nat) (hh : 0xD800 ≤ hi ∧ hi < 0xDC00) (hl : 0xDC00 ≤ lo ∧ lo < 0xE000) :
    0x10000 + ((hi % 1024) * 1024 + lo % 1024) = Spec.pairValue hi lo := by
  unfold Spec.pairValue; omega

/-- The two tables read from `escapeTable` are inverse of each other: whatever the serializer escapes,
    the deserializer unescapes to the same byte. -/
theorem unescape_escape (c : UInt8) (h : JSer.escapeChar c ≠ 0) : unescapeChar (JSer.escapeChar c) = c := by
  have key : ∀ c : UInt8, (JSer.escapeChar c == 0 || unescapeChar (JSer.escapeChar c) == c) = true := by
    apply Bits.all_bytes; decide +kernel
  have := key c
  simp only [Bool.or_eq_true, beq_iff_eq] at this
  rcases this with h0 | h1
  · exact absurd h0 h
  · exact h1

/-- the bytes that `serializeJson` does not copy verbatim: quote, backslash, \b \f \n \r \t and NUL -/
def specials : List UInt8 := [0x22, 0x5C, 0x08, 0x0C, 0x0A, 0x0D, 0x09, 0]

/-- `serializeJson` changes a byte exactly when it is the quote, the backslash, \b \f \n \r \t or NUL. -/
theorem escape_minimal (c : UInt8) : JSer.writeChar c = [c] ↔ c ∉ specials := by
  have key : ∀ c : UInt8, (decide (JSer.writeChar c = [c]) == !(specials.contains c)) = true := by
    apply Bits.all_bytes; decide +kernel
  have := key c
  rw [beq_iff_eq] at this
  constructor
  · intro h
    rw [decide_eq_true h] at this
    intro hm
    have hc : specials.contains c = true := List.contains_iff_mem.mpr hm
    rw [hc] at this
    exact absurd this (by decide)
  · intro h
    have hc : specials.contains c = false := by
      cases hcc : specials.contains c
      · rfl
      · exact absurd (List.contains_iff_mem.mp hcc) h
    rw [hc] at this
    exact of_decide_eq_true this

-- non-vacuity
example : encodeCodepoint 0x1F600 = [0xF0, 0x9F, 0x98, 0x80] := by decide
example : Spec.hexVal 0x66 = some 15 := by decide
end C17
