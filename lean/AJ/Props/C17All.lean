/- Aggregate: C17 theorems (C17.lean) and the hex-digit table tie (C10Gen.lean). -/
import AJ.Props.C17
import AJ.Props.C10Gen
import AJ.Props.SlotCor
import AJ.Props.C17Gen
