/- Strings through text, tied to the source by translation: `lean/AJ/Gen/Tables.lean` is regenerated on every run by calling the compiled library -
   `serializeJson` of the one-byte string b for all 256 bytes, `deserializeJson` of "\uXXXX" for 272 code units (all boundaries of the UTF-8 lengths and of the
   surrogate ranges, lone surrogates, a spread over the BMP, both hex cases), 64 surrogate pairs and six malformed or mixed texts - and the theorems evaluate
   the serializer and deserializer models on the same data in the kernel. -/
import AJ.Model.JD
import AJ.Model.JSer
open JD

namespace C17

/-- **escaping of every byte**: the model writes for the one-byte string b exactly what serializeJson writes -/
theorem escaping_is_source :
    Gen.escape_rows.all (fun r => (JSer.compact {} (.str [UInt8.ofNat r.1])).map (·.toNat) == r.2) = true ∧ Gen.escape_rows.length = 256 := by decide +kernel

def uCodeNo : Code → Nat
  | .ok => 0 | .incomplete => 2 | .invalid => 3 | _ => 4

/-- **decoding of escapes**: code and stored bytes of the model are those of the library for every text of the table -/
theorem unicode_decoding_is_source :
    Gen.unicode_rows.all (fun r =>
      let res := JD.run {} 10 (r.1.map UInt8.ofNat)
      uCodeNo res.1 == r.2.1 &&
      (match res.2.1 with
       | .str s => r.2.2.1 == 1 && s.map (·.toNat) == r.2.2.2
       | _ => r.2.2.1 == 0)) = true := by decide +kernel

end C17
