/- C18 — the six comparison operators of two variants are coherent (`==` symmetric, `!=` its negation, `<` the mirror of `>`,
   `<=` = `<` or `==`, at most one of `<`, `==`, `>`), numbers compare by value, strings / raw by bytes, arrays element-wise,
   objects member-wise regardless of order, null only equals null.
   Model: AJ/Model/Cmp.lean. Helper lemmas: AJ/Lemmas/CmpLemmas.lean. -/
import AJ.Model.Cmp
import AJ.Lemmas.CmpLemmas
namespace C18
open Cmp JD _root_.SF

/-! ## 1. Operator coherence, by construction, for all values
`variantOps a b = opsRev (compare b a) = [a==b, a!=b, a<b, a<=b, a>b, a>=b]`. -/

/-- the six results of `a ? b`, by name -/
def vEq (a b : Val) : Bool := (variantOps a b).getD 0 false
def vNe (a b : Val) : Bool := (variantOps a b).getD 1 false
def vLt (a b : Val) : Bool := (variantOps a b).getD 2 false
def vLe (a b : Val) : Bool := (variantOps a b).getD 3 false
def vGt (a b : Val) : Bool := (variantOps a b).getD 4 false
def vGe (a b : Val) : Bool := (variantOps a b).getD 5 false
theorem variantOps_eq (a b : Val) : variantOps a b = [vEq a b, vNe a b, vLt a b, vLe a b, vGt a b, vGe a b] := rfl

section
variable {eq ne lt le gt ge : Bool}
theorem opsRev_ne_iff_not_eq (r : CR) (h : opsRev r = [eq, ne, lt, le, gt, ge]) : ne = !eq := by
  cases r <;> cases h <;> decide
theorem opsRev_le_iff (r : CR) (h : opsRev r = [eq, ne, lt, le, gt, ge]) : le = (lt || eq) := by
  cases r <;> cases h <;> decide
theorem opsRev_ge_iff (r : CR) (h : opsRev r = [eq, ne, lt, le, gt, ge]) : ge = (gt || eq) := by
  cases r <;> cases h <;> decide
theorem opsRev_exclusive (r : CR) (h : opsRev r = [eq, ne, lt, le, gt, ge]) :
    ¬ (lt = true ∧ eq = true) ∧ ¬ (lt = true ∧ gt = true) ∧ ¬ (eq = true ∧ gt = true) := by
  cases r <;> cases h <;> decide

/-- `a != b` is exactly `!(a == b)` -/
theorem ne_iff_not_eq (a b : Val) (h : variantOps a b = [eq, ne, lt, le, gt, ge]) : ne = !eq := opsRev_ne_iff_not_eq _ h
/-- `a <= b` is exactly `a < b || a == b` -/
theorem le_iff (a b : Val) (h : variantOps a b = [eq, ne, lt, le, gt, ge]) : le = (lt || eq) := opsRev_le_iff _ h
/-- `a >= b` is exactly `a > b || a == b` -/
theorem ge_iff (a b : Val) (h : variantOps a b = [eq, ne, lt, le, gt, ge]) : ge = (gt || eq) := opsRev_ge_iff _ h
/-- at most one of `a < b`, `a == b`, `a > b` -/
theorem exclusive (a b : Val) (h : variantOps a b = [eq, ne, lt, le, gt, ge]) :
    ¬ (lt = true ∧ eq = true) ∧ ¬ (lt = true ∧ gt = true) ∧ ¬ (eq = true ∧ gt = true) := opsRev_exclusive _ h

/-- the same facts for the non-reversed operator table `ops` (variant against a C++ scalar) -/
theorem ops_coherent (r : CR) (h : ops r = [eq, ne, lt, le, gt, ge]) :
    ne = (!eq) ∧ le = (lt || eq) ∧ ge = (gt || eq) ∧
    ¬ (lt = true ∧ eq = true) ∧ ¬ (lt = true ∧ gt = true) ∧ ¬ (eq = true ∧ gt = true) := by
  cases r <;> cases h <;> decide
end

/-- the hypothesis `variantOps a b = [..]` is always satisfiable: the named form, for all values -/
theorem coherent_named (a b : Val) :
    vNe a b = (!vEq a b) ∧ vLe a b = (vLt a b || vEq a b) ∧ vGe a b = (vGt a b || vEq a b) ∧
    ¬ (vLt a b = true ∧ vEq a b = true) ∧ ¬ (vLt a b = true ∧ vGt a b = true) ∧ ¬ (vEq a b = true ∧ vGt a b = true) :=
  ⟨ne_iff_not_eq a b (variantOps_eq a b), le_iff a b (variantOps_eq a b), ge_iff a b (variantOps_eq a b),
   exclusive a b (variantOps_eq a b)⟩

/-! ## 2. Antisymmetry of the primitive comparisons -/

/-- a NaN operand takes part in the comparison (as a double) -/
def involvesNaN (l r : NumV) : Prop :=
  ((∃ x, l = .d x) ∨ (∃ x, r = .d x)) ∧ (isNaN b64 (toDouble l) = true ∨ isNaN b64 (toDouble r) = true)

/-- `arithmeticCompare(r, l)` is the mirror of `arithmeticCompare(l, r)` for ALL operands: every `Int`, every `Nat`, every bit
    pattern (no range hypothesis is needed), every mix of integer / unsigned / double / bool, NaN included (both sides
    then give `differ`, which is its own mirror). Stronger than the requested `¬ involvesNaN l r → …` with bounded operands. -/
theorem arith_reverse (l r : NumV) : arith r l = (arith l r).reverse := Cmp.arith_reverse l r

/-- the requested form (hypotheses not used) -/
theorem arith_reverse_wf (l r : NumV) (_ : ¬ involvesNaN l r) : arith r l = (arith l r).reverse := Cmp.arith_reverse l r

/-- with a NaN operand both directions give `differ` -/
theorem arith_nan_differ (l r : NumV) (h : involvesNaN l r) : arith l r = .differ ∧ arith r l = .differ := by
  obtain ⟨hd, hn⟩ := h
  have key : arith l r = .differ := by
    rcases hd with ⟨x, rfl⟩ | ⟨x, rfl⟩
    · rw [arith_d_left]; exact dcmp_nan _ _ hn
    · rw [arith_d_right]; exact dcmp_nan _ _ hn
  exact ⟨key, by rw [Cmp.arith_reverse l r, key]; rfl⟩

/-- the double order used by `arith`: `a > c` is by definition `c < a`, and `<` is asymmetric on all bit patterns -/
theorem double_lt_gt (a c : Nat) : SF.lt b64 a c = SF.gt b64 c a := rfl
theorem double_lt_asymm (a c : Nat) (h : SF.lt b64 a c = true) : SF.gt b64 a c = false := sf_lt_asymm b64 a c h

/-- any comparison with a double operand is the comparison of the two operands converted to double -/
theorem mixed_as_double (x : Nat) (n : NumV) :
    arith (.d x) n = dcmp x (toDouble n) ∧ arith n (.d x) = dcmp (toDouble n) x := ⟨arith_d_left x n, arith_d_right n x⟩

theorem stringCompare_antisym (a b : List Byte) : stringCompare b a = - stringCompare a b := Cmp.stringCompare_antisym a b
/-- `stringCompare` answers 0 exactly on identical byte sequences -/
theorem stringCompare_eq_zero_iff (a b : List Byte) : stringCompare a b = 0 ↔ a = b := Cmp.stringCompare_eq_zero a b
theorem rawCompare_antisym (a b : List Byte) : rawCompare b a = - rawCompare a b := Cmp.rawCompare_antisym a b
theorem rawCompare_eq_zero_iff (a b : List Byte) : rawCompare a b = 0 ↔ a = b := Cmp.rawCompare_eq_zero a b
/-- the signed-char view of a byte is injective -/
theorem schar_injective (a c : Byte) (h : schar a = schar c) : a = c := schar_inj a c h

example : arith (.d 0x7FF8000000000000) (.i 3) = .differ ∧ arith (.i 3) (.d 0x7FF8000000000000) = .differ :=
  arith_nan_differ _ _ ⟨Or.inl ⟨_, rfl⟩, Or.inl (by decide +kernel)⟩
example : arith (.u 18446744073709551615) (.i (-1)) = .greater ∧ arith (.i (-1)) (.u 18446744073709551615) = .less := by
  decide +kernel
example : stringCompare [0x61, 0xC3] [0x61, 0x62] = -159 ∧ stringCompare [0x61, 0x62] [0x61, 0xC3] = 159 := by decide +kernel

/-! ## 3. Swap symmetry of the whole comparison -/

/-- `compare(b, a)` is the mirror of `compare(a, b)` as soon as no object inside `a` or `b` repeats a key.
    (No bound on the numeric payloads is needed: `WFNum` of the task statement is superfluous.) Objects included. -/
theorem compare_reverse (a b : Val) (ha : NoDupKeys a) (hb : NoDupKeys b) : Cmp.compare b a = (Cmp.compare a b).reverse := by
  have := compareF_reverse (depth a + depth b + 2) a b ha hb
  unfold Cmp.compare; rw [Nat.add_comm (depth b) (depth a)]; exact this

/-- `a == b` iff `b == a` -/
theorem eq_symm (a b : Val) (ha : NoDupKeys a) (hb : NoDupKeys b) : vEq a b = vEq b a := by
  simp only [vEq, variantOps, opsRev, List.getD_cons_zero]
  rw [compare_reverse a b ha hb]; cases Cmp.compare a b <;> rfl
/-- `a != b` iff `b != a` -/
theorem ne_symm (a b : Val) (ha : NoDupKeys a) (hb : NoDupKeys b) : vNe a b = vNe b a := by
  have h1 := (coherent_named a b).1; have h2 := (coherent_named b a).1
  rw [h1, h2, eq_symm a b ha hb]
/-- `a < b` iff `b > a` -/
theorem lt_gt (a b : Val) (ha : NoDupKeys a) (hb : NoDupKeys b) : vLt a b = vGt b a := by
  simp only [vLt, vGt, variantOps, opsRev, List.getD_cons_succ, List.getD_cons_zero]
  rw [compare_reverse a b ha hb]; cases Cmp.compare a b <;> rfl
/-- `a <= b` iff `b >= a` -/
theorem le_ge (a b : Val) (ha : NoDupKeys a) (hb : NoDupKeys b) : vLe a b = vGe b a := by
  have h1 := (coherent_named a b).2.1; have h2 := (coherent_named b a).2.2.1
  rw [h1, h2, eq_symm a b ha hb, lt_gt a b ha hb]
/-- list form: the whole operator table of `b ? a` is the table of `a ? b` with `<`/`>` and `<=`/`>=` exchanged -/
theorem variantOps_swap (a b : Val) (ha : NoDupKeys a) (hb : NoDupKeys b) :
    variantOps b a = [vEq a b, vNe a b, vGt a b, vGe a b, vLt a b, vLe a b] := by
  rw [variantOps_eq b a, eq_symm a b ha hb, ne_symm a b ha hb, lt_gt a b ha hb, le_ge a b ha hb,
    lt_gt b a hb ha, le_ge b a hb ha]

/-- values without any object need no hypothesis at all -/
def NoObj : Val → Prop
  | .arr xs => noObjL xs
  | .obj _ => False
  | _ => True
where
  noObjL : List Val → Prop
    | [] => True
    | x :: r => NoObj x ∧ noObjL r

mutual
theorem NoObj.noDupKeys : ∀ v, NoObj v → NoDupKeys v
  | .arr xs, h => by simp only [NoDupKeys]; simp only [NoObj] at h; exact NoObj.noDupKeysL xs h
  | .obj _, h => by simp only [NoObj] at h
  | .null, _ | .bool _, _ | .num _, _ | .str _, _ | .raw _, _ => by simp only [NoDupKeys]
theorem NoObj.noDupKeysL : ∀ xs, NoObj.noObjL xs → NoDupKeys.ndL xs
  | [], _ => by simp only [NoDupKeys.ndL]
  | x :: r, h => by
    simp only [NoObj.noObjL] at h; simp only [NoDupKeys.ndL]
    exact ⟨NoObj.noDupKeys x h.1, NoObj.noDupKeysL r h.2⟩
end

theorem compare_reverse_noobj (a b : Val) (ha : NoObj a) (hb : NoObj b) : Cmp.compare b a = (Cmp.compare a b).reverse :=
  compare_reverse a b ha.noDupKeys hb.noDupKeys

/-- kernel-evaluable form of `variantOps` (through the structurally recursive `compareS`, proved equal to `compareF`) -/
theorem variantOps_eval (a b : Val) : variantOps a b = opsRev (compareS (depth b + depth a + 2) b a) := by
  rw [variantOps, Cmp.compare, compareF_eq_compareS]
theorem compare_eval (a b : Val) : Cmp.compare a b = compareS (depth a + depth b + 2) a b := by
  rw [Cmp.compare, compareF_eq_compareS]

/-- The hypothesis on keys is needed: with a = {"a":1,"a":1} (repeated key) and b = {"a":1,"b":2},
    `a == b` is true (every member of `a` is found in `b`, and the counts agree) but `b == a` is false. -/
theorem eq_asymmetric_with_repeated_keys :
    let a : Val := .obj [([0x61], .num (.uint 1)), ([0x61], .num (.uint 1))]
    let b : Val := .obj [([0x61], .num (.uint 1)), ([0x62], .num (.uint 2))]
    vEq a b ≠ vEq b a ∧
    variantOps a b = [true, false, false, true, false, true] ∧
    variantOps b a = [false, true, false, false, false, false] := by
  intro a b
  simp only [vEq]
  rw [variantOps_eval a b, variantOps_eval b a]
  decide +kernel

/-- non-vacuity of `compare_reverse`: nested value with an object whose members are in a different order, mixed storage -/
example :
    let a : Val := .arr [.obj [([0x61], .num (.uint 1)), ([0x62], .str [0x78])], .num (.sint (-5)), .null]
    let b : Val := .arr [.obj [([0x62], .str [0x78]), ([0x61], .num (.f64 0x3FF0000000000000))], .num (.f64 0xC014000000000000), .null]
    NoDupKeys a ∧ NoDupKeys b ∧ Cmp.compare a b = .equal ∧ Cmp.compare b a = .equal := by
  intro a b
  refine ⟨?_, ?_, ?_, ?_⟩
  · simp only [a, NoDupKeys, NoDupKeys.ndL, NoDupKeys.ndM, and_true, keys]; decide
  · simp only [b, NoDupKeys, NoDupKeys.ndL, NoDupKeys.ndM, and_true, keys]; decide
  · rw [compare_eval]; decide +kernel
  · rw [compare_eval]; decide +kernel

example : variantOps (.num (.sint (-1))) (.num (.uint 18446744073709551615)) = [false, true, true, true, false, false] ∧
    variantOps (.num (.uint 18446744073709551615)) (.num (.sint (-1))) = [false, true, false, false, true, true] := by
  rw [variantOps_eval, variantOps_eval]; decide +kernel

/-! ## 4. Agreement with the values -/

/-- integer against integer: exact on all of `Int` / `Nat` (in particular the whole int64 / uint64 ranges), every
    signedness combination. `ordCR x y` is `less / equal / greater` according to `x < y`, `x = y`, `x > y` in ℤ. -/
theorem int_exact (x y : Int) (m n : Nat) :
    arith (.i x) (.i y) = ordCR x y ∧ arith (.u m) (.u n) = ordCR m n ∧
    arith (.i x) (.u n) = ordCR x n ∧ arith (.u m) (.i y) = ordCR m y :=
  ⟨arith_ii x y, arith_uu m n, arith_iu x n, arith_ui m y⟩

theorem ordCR_spec (x y : Int) :
    (ordCR x y = .less ↔ x < y) ∧ (ordCR x y = .equal ↔ x = y) ∧ (ordCR x y = .greater ↔ x > y) ∧ ordCR x y ≠ .differ := by
  unfold ordCR; refine ⟨?_, ?_, ?_, ?_⟩ <;> repeat' split
  all_goals first | (simp only [reduceCtorEq]; omega) | (simp [*]; done) | (simp [*]; omega) | omega

/-- two number-like values (bool, unsigned, signed, float, double) compare as `arith` of their payloads, whatever the storage -/
theorem num_by_value (a b : Val) (x y : NumV) (ha : numOf a = some x) (hb : numOf b = some y) :
    Cmp.compare a b = arith x y := compare_num a b x y ha hb

/-- integers stored with different signedness compare by value over the whole range -/
theorem num_int_exact (x y : Int) (m n : Nat) :
    Cmp.compare (.num (.sint x)) (.num (.sint y)) = ordCR x y ∧ Cmp.compare (.num (.uint m)) (.num (.uint n)) = ordCR m n ∧
    Cmp.compare (.num (.sint x)) (.num (.uint n)) = ordCR x n ∧ Cmp.compare (.num (.uint m)) (.num (.sint y)) = ordCR m y :=
  ⟨(compare_num _ _ _ _ rfl rfl).trans (arith_ii x y), (compare_num _ _ _ _ rfl rfl).trans (arith_uu m n),
   (compare_num _ _ _ _ rfl rfl).trans (arith_iu x n), (compare_num _ _ _ _ rfl rfl).trans (arith_ui m y)⟩

/-- a NaN is never equal (nor ordered) to anything, itself included -/
theorem nan_never_equal (a b : Nat) (h : isNaN b64 a = true ∨ isNaN b64 b = true) : arith (.d a) (.d b) = .differ := by
  rw [arith_d_left]; exact dcmp_nan a b h
/-- conversely two doubles that compare equal are not NaN -/
theorem double_equal_not_nan (a b : Nat) (h : arith (.d a) (.d b) = .equal) : isNaN b64 a = false ∧ isNaN b64 b = false := by
  rw [arith_d_left] at h; exact dcmp_equal_not_nan a b h

/-- strings are equal exactly when their bytes are identical; otherwise they are ordered by `stringCompare` (never `differ`) -/
theorem string_eq_iff (a b : List Byte) : Cmp.compare (.str a) (.str b) = .equal ↔ a = b := by
  rw [compare_str, ← Cmp.stringCompare_eq_zero a b]
  repeat' split
  all_goals first | (simp only [reduceCtorEq, false_iff]; omega) | (simp only [true_iff]; omega)
theorem string_order (a b : List Byte) : Cmp.compare (.str a) (.str b) =
    if stringCompare a b < 0 then .less else if stringCompare a b > 0 then .greater else .equal := compare_str a b

theorem raw_eq_iff (a b : List Byte) : Cmp.compare (.raw a) (.raw b) = .equal ↔ a = b := by
  rw [compare_raw, ← Cmp.rawCompare_eq_zero a b]
  repeat' split
  all_goals first | (simp only [reduceCtorEq, false_iff]; omega) | (simp only [true_iff]; omega)
theorem raw_order (a b : List Byte) : Cmp.compare (.raw a) (.raw b) =
    if rawCompare a b < 0 then .less else if rawCompare a b > 0 then .greater else .equal := compare_raw a b

/-- null equals only null -/
theorem null_only_null (b : Val) : Cmp.compare .null b = .equal ↔ b = .null := compare_null b
theorem only_null_null (a : Val) : Cmp.compare a .null = .equal ↔ a = .null := by
  rw [compare_eq_succ, compareF_succ]
  rcases a with _ | _ | (_|_|_|_) | sa | ra | la | ma <;> simp [numOf]

/-- arrays compare element-wise, in order (and the answer is only ever `equal` or `differ`) -/
theorem array_elementwise (xs ys : List Val) : Cmp.compare (.arr xs) (.arr ys) = .equal ↔
    xs.length = ys.length ∧ ∀ i (h1 : i < xs.length) (h2 : i < ys.length), Cmp.compare xs[i] ys[i] = .equal :=
  compare_arr xs ys
theorem array_equal_or_differ (xs ys : List Val) :
    Cmp.compare (.arr xs) (.arr ys) = .equal ∨ Cmp.compare (.arr xs) (.arr ys) = .differ := compare_arr_cases xs ys

/-- objects compare member-wise: same member count, and every member of the second is found in the first (first match on
    the key) with an equal value -/
theorem object_memberwise (ma mb : List (List Byte × Val)) : Cmp.compare (.obj ma) (.obj mb) = .equal ↔
    mb.length = ma.length ∧ ∀ p ∈ mb, ∃ rv, lookup ma p.1 = some rv ∧ Cmp.compare p.2 rv = .equal := compare_obj ma mb
theorem object_equal_or_differ (ma mb : List (List Byte × Val)) :
    Cmp.compare (.obj ma) (.obj mb) = .equal ∨ Cmp.compare (.obj ma) (.obj mb) = .differ := compare_obj_cases ma mb

/-- … regardless of the order of the members: permuting either operand does not change the answer
    (left operand: needs distinct keys, because the lookup takes the first match) -/
theorem object_order_irrelevant (ma ma' mb mb' : List (List Byte × Val)) (ha : ma.Perm ma') (hb : mb.Perm mb')
    (hn : (keys ma).Nodup) : Cmp.compare (.obj ma) (.obj mb) = Cmp.compare (.obj ma') (.obj mb') :=
  (compare_obj_perm_left ma ma' mb ha hn).trans (compare_obj_perm_right ma' mb mb' hb)

/-! ### non-vacuity -/
-- INT64_MIN < UINT64_MAX, UINT64_MAX > INT64_MAX, 2^63 (unsigned) > 2^63 - 1 (signed): exact where a double comparison would tie
example : arith (.i (-9223372036854775808)) (.u 18446744073709551615) = .less ∧
    arith (.u 18446744073709551615) (.i 9223372036854775807) = .greater ∧
    arith (.u 9223372036854775808) (.i 9223372036854775807) = .greater ∧
    arith (.i 9223372036854775807) (.i 9223372036854775807) = .equal := by
  refine ⟨?_, ?_, ?_, ?_⟩
  · rw [(int_exact _ 0 0 _).2.2.1]; decide
  · rw [(int_exact 0 _ _ 0).2.2.2]; decide
  · rw [(int_exact 0 _ _ 0).2.2.2]; decide
  · rw [(int_exact _ _ 0 0).1]; decide
-- the same through doubles would NOT distinguish 2^63 from 2^63 - 1: the integer path is what makes it exact
example : arith (.d (toDouble (.u 9223372036854775808))) (.i 9223372036854775807) = .equal := by decide +kernel
example : Cmp.compare (.num (.uint 3)) (.num (.f64 0x4008000000000000)) = .equal ∧
    Cmp.compare (.num (.f32 0x40400000)) (.num (.sint 3)) = .equal ∧ Cmp.compare (.bool true) (.num (.uint 1)) = .equal := by
  rw [num_by_value _ _ _ _ rfl rfl, num_by_value _ _ _ _ rfl rfl, num_by_value _ _ _ _ rfl rfl]; decide +kernel
example : arith (.d 0x7FF8000000000000) (.d 0x7FF8000000000000) = .differ := nan_never_equal _ _ (Or.inl (by decide +kernel))
example : Cmp.compare (.str [0x61, 0x62]) (.str [0x61, 0x62]) = .equal := (string_eq_iff _ _).mpr rfl
example : Cmp.compare (.str [0x61, 0x62]) (.str [0x61, 0x63]) = .less := by rw [string_order]; decide +kernel
example : Cmp.compare (.str [0x61, 0x62]) (.str [0x61, 0x63]) ≠ .equal := fun h => by
  have := (string_eq_iff _ _).mp h; revert this; decide
example : Cmp.compare (.raw [0x31]) (.raw [0x31, 0x30]) = .less := by rw [raw_order]; decide +kernel
example : Cmp.compare .null (.num (.uint 0)) ≠ .equal := fun h => by cases (null_only_null _).mp h
example : Cmp.compare (.str []) .null ≠ .equal := fun h => by cases (only_null_null _).mp h
example :
    let xs : List Val := [.num (.uint 1), .str [0x61], .arr [.null]]
    let ys : List Val := [.num (.f64 0x3FF0000000000000), .str [0x61], .arr [.null]]
    Cmp.compare (.arr xs) (.arr ys) = .equal ∧ Cmp.compare xs[2] ys[2] = .equal := by
  intro xs ys
  have h : Cmp.compare (.arr xs) (.arr ys) = .equal := by rw [compare_eval]; decide +kernel
  exact ⟨h, ((array_elementwise xs ys).mp h).2 2 (by decide) (by decide)⟩
example : Cmp.compare (.arr [.null]) (.arr [.null, .null]) = .differ := by
  rcases array_equal_or_differ [.null] [.null, .null] with h | h
  · have := ((array_elementwise _ _).mp h).1; revert this; decide
  · exact h
example :
    Cmp.compare (.obj [([0x61], .null), ([0x62], .bool true)]) (.obj [([0x62], .num (.uint 1)), ([0x61], .null)]) =
    Cmp.compare (.obj [([0x62], .bool true), ([0x61], .null)]) (.obj [([0x61], .null), ([0x62], .num (.uint 1))]) :=
  object_order_irrelevant _ _ _ _ (List.Perm.swap _ _ _) (List.Perm.swap _ _ _) (by decide)
example : Cmp.compare (.obj [([0x61], .null), ([0x62], .bool true)]) (.obj [([0x62], .num (.uint 1)), ([0x61], .null)]) = .equal := by
  rw [compare_eval]; decide +kernel

/-! ## fuel: `compare` is the fuel-independent value of `compareF` -/
/-- any fuel above `depth a + depth b` gives the same answer as `compare` (which uses `depth a + depth b + 2`) -/
theorem fuel_irrelevant (f : Nat) (a b : Val) (h : depth a + depth b + 1 ≤ f) : compareF f a b = Cmp.compare a b :=
  compareF_eq_compare f a b h
theorem fuel_stable (f : Nat) (a b : Val) (h : depth a + depth b + 1 ≤ f) : compareF (f + 1) a b = compareF f a b :=
  compareF_stable (f + 1) f a b (by omega) h
/-- swap symmetry holds at every fuel, not only at the one `compare` picks -/
theorem compareF_reverse (f : Nat) (a b : Val) (ha : NoDupKeys a) (hb : NoDupKeys b) :
    compareF f b a = (compareF f a b).reverse := Cmp.compareF_reverse f a b ha hb

end C18
