/- Aggregate: C18 laws (C18.lean) and the operator table tie (C18Gen.lean). -/
import AJ.Props.C18
import AJ.Props.C18Gen
