/- The comparison model is EXACTLY the library on a table: `lean/AJ/Gen/Tables.lean` is regenerated on every run by evaluating `==  !=  <  <=  >  >=`
   between two `JsonVariantConst` (compiled from /repo) on every ordered pair of 18 values - null, booleans, integers of both signs and at the 64-bit limits,
   a float, a double, NaN, strings, arrays, objects; the theorem evaluates the comparison model on the same 324 pairs in the kernel. -/
import AJ.Props.C18
open JD Cmp

namespace C18

/-- the 18 values of harness/dump_cmp.cpp, in its order -/
def cmpVals : List Val :=
  [.null, .bool true, .bool false, .num (.sint 0), .num (.sint 1), .num (.sint (-1)), .num (.f32 0x3F800000), .num (storeDouble 0x3FF8000000000000),
   .num (storeDouble 0x7FF8000000000000), .num (.uint 9223372036854775808), .num (.sint (-9223372036854775808)),
   .str [0x61], .str [0x62], .str [],
   .arr [.num (.uint 1)], .arr [.num (.uint 1), .num (.uint 2)], .obj [([0x61], .num (.uint 1))], .obj [([0x61], .num (.uint 1)), ([0x62], .num (.uint 2))]]

/-- the six operators by the structural twin of `compare` (equal to it: `variantOps_eval`) -/
def opsS (a b : Val) : List Bool := opsRev (compareS (depth b + depth a + 2) b a)

theorem opsS_eq (a b : Val) : variantOps a b = opsS a b := variantOps_eval a b

/-- **the operator table**: for every ordered pair the model's six answers are those of the compiled library -/
theorem comparison_table_is_source :
    Gen.cmp_rows.all (fun r => opsS (cmpVals.getD r.1 .null) (cmpVals.getD r.2.1 .null) == r.2.2) = true ∧ Gen.cmp_rows.length = 324 := by
  decide +kernel

/-- the same statement about `variantOps` itself -/
theorem comparison_table_is_source' (r : Nat × Nat × List Bool) (h : r ∈ Gen.cmp_rows) :
    variantOps (cmpVals.getD r.1 .null) (cmpVals.getD r.2.1 .null) = r.2.2 := by
  rw [opsS_eq]
  have := (List.all_eq_true.mp comparison_table_is_source.1) r h
  simpa using this

end C18
