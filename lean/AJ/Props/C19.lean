/- C19 — slot identifiers never wrap; reaching a limit makes the operation fail cleanly; usable again after
         removal or clear.
   C06 — released slots are reused before a new pool is requested; `clear` returns every block exactly once.
   C05 — an allocation failure never corrupts the pool list.
   All statements are about the model `PL` (AJ/Model/PL.lean) of `MemoryPoolList`, for every geometry satisfying
   `GeoOK` (`1 ≤ poolCap`, `1 ≤ initPools`; nothing else), every state satisfying the invariant `Inv`
   (AJ/Lemmas/PoolInv.lean) and every failure oracle `failAt`. `reach_inv` shows that `Inv` holds after every
   sequence of `allocSlot / freeSlot (of a live id) / clear / shrink`. -/
import AJ.Model.PL
import AJ.Lemmas.PoolInv
open PL

namespace C19

/-! ## Every sequence of operations, every failure oracle -/

/-- states reachable from the initial one (with failure oracle `f`: positions of failing calls, `k`: every call
    from position `k` on fails) through the public operations;
    `freeSlot` is only ever called by the library on a live slot -/
inductive Reach (g : Geo) (f : List Nat) (k : Option Nat) : St → Prop
  | init : Reach g f k { init g with failAt := f, failFrom := k }
  | alloc {s : St} : Reach g f k s → Reach g f k (allocSlot g s).2
  | free {s : St} {id : Nat} : Reach g f k s → live g s id → Reach g f k (freeSlot s id)
  | clear {s : St} : Reach g f k s → Reach g f k (clear g s)
  | shrink {s : St} : Reach g f k s → Reach g f k (shrink g s)

/-- `allocSlot` preserves the invariant, whatever it returns -/
theorem allocSlot_inv {g : Geo} {s : St} (gok : GeoOK g) (hI : Inv g s) : Inv g (allocSlot g s).2 := by
  cases hf : s.free with
  | nil => exact (allocSlot_nil gok hI hf (res := (allocSlot g s).1) (s' := (allocSlot g s).2) rfl).1
  | cons id rest => rw [allocSlot_cons hf]; exact (allocSlot_cons_ok hI hf).2.2.2

/-- The invariant holds in every reachable state, for every failure oracle. -/
theorem reach_inv {g : Geo} {f : List Nat} {k : Option Nat} {s : St} (gok : GeoOK g) (h : Reach g f k s) :
    Inv g s := by
  induction h with
  | init => exact init_inv gok f k
  | alloc _ ih => exact allocSlot_inv gok ih
  | free _ hl ih => exact (freeSlot_ok ih hl).1
  | clear _ ih => exact clear_inv gok ih
  | shrink _ ih => exact (shrink_ok ih).1

/-- consequences of the invariant spelled out: pool count and table bounds, per-pool bounds, the pool that
    reaches `maxPools` stops at `nullSlot`, the free list holds distinct, previously handed-out ids below NULL -/
theorem inv_facts {g : Geo} {s : St} (hI : Inv g s) :
    s.pools.length ≤ g.maxPools ∧ s.pools.length ≤ s.tableCap ∧
    (∀ i p, s.pools[i]? = some p → p.usage ≤ p.cap ∧ p.cap ≤ g.poolCap ∧ i * g.poolCap + p.cap ≤ g.nullSlot) ∧
    (∀ i p, s.pools[i]? = some p → i + 1 < s.pools.length → p.usage = p.cap) ∧
    (∀ x ∈ s.free, x < g.nullSlot ∧ allocated g s x) ∧ s.free.Nodup := by
  refine ⟨hI.len_max, hI.len_tab, hI.pools_ok, ?_, ?_, hI.free_nodup⟩
  · intro i p hp hi
    apply hI.full_init p
    have hlen : i < s.pools.dropLast.length := by rw [List.length_dropLast]; omega
    have : s.pools.dropLast[i]? = some p := by
      rw [List.getElem?_dropLast]; simp [hp]
      rw [List.length_dropLast] at hlen; omega
    exact List.mem_of_getElem? this
  · intro x hx
    exact ⟨allocP_lt_null hI.pools_ok (hI.free_alloc x hx), hI.free_alloc x hx⟩

/-! ## C19: identifiers never wrap, never collide, never equal NULL -/

/-- A successful `allocSlot` returns an id below `nullSlot` (so the truncation `wrap` was the identity and the
    NULL id is never handed out) that is not live, and exactly this id becomes live. -/
theorem alloc_fresh {g : Geo} {s s' : St} {id : Nat} (gok : GeoOK g) (hI : Inv g s)
    (h : allocSlot g s = (some id, s')) :
    id < g.nullSlot ∧ ¬ live g s id ∧ (∀ x, live g s' x ↔ live g s x ∨ x = id) ∧ Inv g s' := by
  cases hf : s.free with
  | nil =>
    obtain ⟨a, b, _, c1, c2, c3⟩ := allocSlot_nil gok hI hf h
    refine ⟨c1, fun hl => c2 hl.1, ?_, a⟩
    intro x; unfold live; rw [b, hf, c3]; simp
  | cons id0 rest =>
    rw [allocSlot_cons hf] at h
    cases h
    exact allocSlot_cons_ok hI hf

/-- the id returned is the un-truncated `poolIndex · poolCap + indexInPool` when it comes from a pool -/
theorem alloc_id_exact {g : Geo} {s s' : St} {id : Nat} (hI : Inv g s)
    (h : allocFromLastPool g s = (some id, s')) :
    ∃ ps p, s.pools = ps ++ [p] ∧ id = ps.length * g.poolCap + p.usage ∧ id < g.nullSlot := by
  obtain ⟨a, _, _, _, _, _, _, _, ps, p, h1, h2⟩ := allocFromLastPool_ok hI h
  exact ⟨ps, p, h1, h2, a⟩

/-- A failed `allocSlot` (allocator failure or capacity limit) leaves every live slot alone. -/
theorem alloc_fail_clean {g : Geo} {s s' : St} (gok : GeoOK g) (hI : Inv g s)
    (h : allocSlot g s = (none, s')) :
    (∀ x, live g s' x ↔ live g s x) ∧ s'.free = s.free ∧ Inv g s' := by
  cases hf : s.free with
  | nil =>
    obtain ⟨a, b, _, c⟩ := allocSlot_nil gok hI hf h
    refine ⟨?_, by rw [b], a⟩
    intro x; unfold live; rw [b, hf, c]
  | cons id0 rest =>
    rw [allocSlot_cons hf] at h
    cases h

/-- At most `2^(8·idBytes) − 1` slots: the live slots, as a duplicate-free list, number at most `nullSlot`,
    every one of them is below `nullSlot`, and so is the slot count `usage` reported by the library. -/
theorem limit {g : Geo} {s : St} (hI : Inv g s) :
    (∀ x, x ∈ liveIds g s ↔ live g s x) ∧ (liveIds g s).Nodup ∧ (liveIds g s).length ≤ g.nullSlot ∧
    (∀ x, live g s x → x < g.nullSlot) ∧ usage s ≤ g.nullSlot ∧
    (liveIds g s).length + s.free.length = usage s :=
  ⟨mem_liveIds g s, hI.liveIds_nodup, hI.liveIds_length_le,
   fun _ hx => allocP_lt_null hI.pools_ok hx.1, hI.usage_le, hI.liveIds_length⟩

/-- Once `maxPools` pools exist and all are used up, `allocSlot` fails, without calling the allocator. -/
theorem limit_clean {g : Geo} {s : St} (hfree : s.free = []) (hmax : g.maxPools ≤ s.pools.length)
    (hfull : ∀ ps p, s.pools = ps ++ [p] → p.hasBlock = false ∨ p.cap ≤ p.usage) :
    allocSlot g s = (none, s) := by
  unfold allocSlot
  rw [hfree]
  simp only
  have h1 : (if s.pools.isEmpty then ((none : Option Nat), s) else allocFromLastPool g s) = (none, s) := by
    split
    · rfl
    · unfold allocFromLastPool
      split
      · rfl
      · rename_i p hp
        rcases hfull _ p (pools_eq_snoc hp) with h | h
        · simp [h]
        · have : p.usage ≥ p.cap := h
          simp [this]
  rw [h1]
  simp only
  unfold addPool
  simp [hmax]

/-! ## C19: usable again after a removal or a clear -/

/-- Freeing a live slot removes exactly that slot from the live set. -/
theorem free_then_alloc {g : Geo} {s : St} {id : Nat} (hl : live g s id) (hI : Inv g s) :
    Inv g (freeSlot s id) ∧ (∀ x, live g (freeSlot s id) x ↔ live g s x ∧ x ≠ id) :=
  freeSlot_ok hI hl

/-- After a `freeSlot` the next `allocSlot` succeeds, returns that slot, restores the state and does not call the
    allocator — also when the pool list is at its limit or the allocator would fail. -/
theorem usable_again (g : Geo) (s : St) (id : Nat) : allocSlot g (freeSlot s id) = (some id, s) :=
  allocSlot_cons (s := freeSlot s id) rfl

/-- `shrink` (shrinkToFit) keeps the invariant and the live slots. -/
theorem shrink_keeps {g : Geo} {s : St} (hI : Inv g s) :
    Inv g (shrink g s) ∧ (∀ x, live g (shrink g s) x ↔ live g s x) :=
  ⟨(shrink_ok hI).1, (shrink_ok hI).2.1⟩

theorem maxPools_pos {g : Geo} (h2 : 2 ≤ g.poolCap) (hb : 1 ≤ g.idBytes) : 1 ≤ g.maxPools := by
  have hW : 2 ^ (8 * 1) ≤ 2 ^ (8 * g.idBytes) := Nat.pow_le_pow_right (by decide) (by omega)
  have hn : g.nullSlot + 1 = 2 ^ (8 * g.idBytes) := by have := g.width_pos; unfold Geo.nullSlot; omega
  have hq : g.nullSlot / g.poolCap ≤ g.nullSlot / 2 := Nat.div_le_div_left h2 (by decide)
  unfold Geo.maxPools
  generalize g.nullSlot / g.poolCap = q at hq
  rw [Nat.mod_eq_of_lt (by omega)]
  omega

/-- A pool list without pools (initial state, or after `clear`) hands out slot 0 as soon as the allocator
    succeeds, provided the geometry allows at least one pool (`maxPools_pos`: `2 ≤ poolCap`, `1 ≤ idBytes`). -/
theorem usable_after_clear {g : Geo} {s : St} (gok : GeoOK g) (hI : Inv g s) (hp : s.pools = []) (hf : s.free = [])
    (hM : 1 ≤ g.maxPools) (hok : s.failsAt (s.calls + 1) = false) : (allocSlot g s).1 = some 0 := by
  have hW := g.maxPools_lt
  have hw1 : g.wrap 1 = 1 := g.wrap_of_lt (by omega)
  have hw0 : g.wrap 0 = 0 := g.wrap_of_lt (by omega)
  have htab : (0 == s.tableCap) = false := by have := hI.tab_pos; simp; omega
  have hM' : ¬ (0 ≥ g.maxPools) := by omega
  have hn : 1 ≤ g.nullSlot := by unfold Geo.nullSlot; omega
  have hcap : 1 ≤ (if (1 == g.maxPools) = true then g.nullSlot - (g.maxPools - 1) * g.poolCap else g.poolCap) := by
    split
    · rename_i h; have : 1 = g.maxPools := by simpa using h
      rw [← this]; simpa using hn
    · exact gok.pool_pos
  unfold allocSlot
  rw [hf]
  simp only [hp, List.isEmpty_nil, ↓reduceIte]
  unfold addPool
  simp only [hp, List.length_nil, hM', ↓reduceIte, htab, Bool.not_true, Bool.false_eq_true, Nat.zero_add, hw1]
  generalize (if (1 == g.maxPools) = true then g.nullSlot - (g.maxPools - 1) * g.poolCap else g.poolCap) = cap at hcap
  have hfst := alloc_fst s (cap * g.slotSize)
  rw [hok] at hfst
  have hpl := alloc_pools s (cap * g.slotSize)
  generalize s.alloc (cap * g.slotSize) = r at hfst hpl
  obtain ⟨got, s1⟩ := r
  simp only [Bool.not_false] at hfst hpl
  subst hfst
  simp only [↓reduceIte]
  unfold allocFromLastPool
  have hcap0 : cap ≠ 0 := by omega
  rw [hp] at hpl
  simp [hpl, hw0, hcap0]

/-- … in particular after `clear`, from any state. -/
theorem usable_after_clear' {g : Geo} {s : St} (gok : GeoOK g) (hI : Inv g s) (hM : 1 ≤ g.maxPools)
    (hok : s.failsAt (s.calls + 1) = false) : (allocSlot g (clear g s)).1 = some 0 := by
  obtain ⟨a, b, _, _, e, f, _⟩ := clear_spec g s
  exact usable_after_clear gok (clear_inv gok hI) a b hM
    (by unfold St.failsAt at hok ⊢; rw [e, f, clear_failFrom]; exact hok)

end C19

namespace C06

/-- A slot released by a removal is reused by the next insertion; the allocator is not called and no pool is
    touched. -/
theorem reuse {g : Geo} {s : St} {id : Nat} {rest : List Nat} (hf : s.free = id :: rest) :
    allocSlot g s = (some id, { s with free := rest }) ∧
    (allocSlot g s).2.calls = s.calls ∧ (allocSlot g s).2.log = s.log ∧ (allocSlot g s).2.pools = s.pools := by
  rw [allocSlot_cons hf]; exact ⟨rfl, rfl, rfl, rfl⟩

/-- `allocSlot` calls the allocator only if the free list is empty and the last pool is absent, block-less or
    full. -/
theorem new_pool_only_when_needed {g : Geo} {s : St} (h : (allocSlot g s).2.calls ≠ s.calls) :
    s.free = [] ∧
    (s.pools = [] ∨ ∃ ps p, s.pools = ps ++ [p] ∧ (p.hasBlock = false ∨ p.cap ≤ p.usage)) := by
  cases hf : s.free with
  | cons id rest => rw [allocSlot_cons hf] at h; exact absurd rfl h
  | nil =>
    refine ⟨rfl, ?_⟩
    unfold allocSlot at h
    rw [hf] at h
    simp only at h
    generalize hr1 : (if s.pools.isEmpty then (none, s) else allocFromLastPool g s) = r1 at h
    obtain ⟨r, s1⟩ := r1
    cases r with
    | some id =>
      simp only at h
      split at hr1
      · cases hr1
      · obtain ⟨ps, p, _, _, _, _, rfl⟩ := allocFromLastPool_some hr1
        exact absurd rfl h
    | none =>
      split at hr1
      · rename_i he; exact Or.inl (by simpa using he)
      · exact (allocFromLastPool_none hr1).2

/-- … and then, under the invariant, every slot of every pool is in use: a new pool is requested only when no
    released or unused slot exists. -/
theorem new_pool_only_when_full {g : Geo} {s : St} (hI : Inv g s) (h : (allocSlot g s).2.calls ≠ s.calls) :
    s.free = [] ∧ (∀ q ∈ s.pools, q.usage = q.cap) ∧ (∀ x, live g s x ↔ allocated g s x) := by
  obtain ⟨hf, hp⟩ := new_pool_only_when_needed h
  refine ⟨hf, ?_, fun x => by unfold live; rw [hf]; simp⟩
  rcases hp with hp | ⟨ps, p, hs, hp⟩
  · intro q hq; rw [hp] at hq; cases hq
  · intro q hq
    have hfi := hI.full_init
    rw [hs] at hq hfi
    simp only [List.dropLast_concat] at hfi
    simp only [List.mem_append, List.mem_singleton] at hq
    rcases hq with hq | rfl
    · exact hfi q hq
    · have hle := ((PoolsOK_snoc _ _ ps q).1 (hs ▸ hI.pools_ok)).2.1
      rcases hp with hp | hp
      · have := hI.noblock q (by rw [hs]; simp) hp
        omega
      · omega

/-- `clear` empties the pool list and the free list, never calls allocate/reallocate, and adds to the allocator
    log exactly one `D` per pool that owned a block plus one for a heap-allocated pool table — nothing else. -/
theorem clear_releases_everything (g : Geo) (s : St) :
    (clear g s).pools = [] ∧ (clear g s).free = [] ∧ (clear g s).tableHeap = false ∧
    (clear g s).calls = s.calls ∧
    (clear g s).log = List.replicate (s.pools.countP (·.hasBlock) + (if s.tableHeap then 1 else 0)) "D" ++ s.log ∧
    blocks (clear g s) = 0 := by
  obtain ⟨a, b, c, _, e, _, h⟩ := clear_spec g s
  refine ⟨a, b, c, e, h, ?_⟩
  unfold blocks; rw [a, c]; rfl

/-- after `clear` no slot is live and the invariant holds: the pool list is as good as new -/
theorem clear_fresh {g : Geo} {s : St} (gok : GeoOK g) (hI : Inv g s) :
    Inv g (clear g s) ∧ (∀ x, ¬ live g (clear g s) x) ∧ (clear g s).tableCap = g.initPools := by
  refine ⟨clear_inv gok hI, clear_live g s, ?_⟩
  rw [(clear_spec g s).2.2.2.1]
  split
  · rfl
  · rename_i hh; exact hI.inline_cap (by simpa using hh)

end C06

/-! ## Non-vacuity: a tiny geometry (2 slots per pool, 1 inline pool, 1-byte ids ⇒ 128 pools, 255 slots) -/
namespace C19.Examples

def tiny : Geo := ⟨2, 1, 1, 16, 16⟩
theorem tinyOK : GeoOK tiny := ⟨by decide, by decide⟩

/-- `n` allocations in a row: the results in order and the final state -/
def allocN (g : Geo) : Nat → St → List (Option Nat) × St
  | 0, s => ([], s)
  | n + 1, s => let (r, s1) := allocSlot g s; let (rs, s2) := allocN g n s1; (r :: rs, s2)

example : tiny.maxPools = 128 ∧ tiny.nullSlot = 255 := by decide +kernel
example : (allocN tiny 5 (init tiny)).1 = [some 0, some 1, some 2, some 3, some 4] := by decide +kernel
/-- the limit is a clean edge: ids 0..254, then failure; NULL (255) is never handed out -/
example : (allocN tiny 257 (init tiny)).1.drop 253 = [some 253, some 254, none, none] := by decide +kernel

/-- state after three allocations without failure: two pools, heap-allocated pool table -/
def s3 : St := (allocSlot tiny (allocSlot tiny (allocSlot tiny { init tiny with failAt := [] }).2).2).2
theorem s3_reach : Reach tiny [] none s3 := .alloc (.alloc (.alloc .init))
theorem s3_inv : Inv tiny s3 := reach_inv tinyOK s3_reach

example : s3.pools.length = 2 ∧ s3.tableHeap = true ∧ s3.tableCap = 2 ∧ usage s3 = 3 ∧ liveIds tiny s3 = [0, 1, 2] := by
  decide +kernel

/-- `alloc_fresh` on `s3`: the 4th allocation returns 3 -/
example : 3 < tiny.nullSlot ∧ ¬ live tiny s3 3 ∧
    (∀ x, live tiny (allocSlot tiny s3).2 x ↔ live tiny s3 x ∨ x = 3) ∧ Inv tiny (allocSlot tiny s3).2 := by
  have h1 : (allocSlot tiny s3).1 = some 3 := by decide +kernel
  exact alloc_fresh tinyOK s3_inv (by rw [← h1])

/-- `free_then_alloc` / `usable_again` / `C06.reuse` on `s3`: slot 1 is released and handed out again -/
example : live tiny s3 1 := (mem_liveIds tiny s3 1).1 (by decide +kernel)
example : allocSlot tiny (freeSlot s3 1) = (some 1, s3) := usable_again tiny s3 1
example : (allocSlot tiny (freeSlot s3 1)).2.calls = s3.calls := (C06.reuse (s := freeSlot s3 1) rfl).2.1

/-- `C06.clear_releases_everything` on `s3`: three blocks (two pools and the table) are returned -/
example : blocks s3 = 3 ∧ (clear tiny s3).log = List.replicate 3 "D" ++ s3.log := by
  have h : blocks s3 = 3 := by decide +kernel
  refine ⟨h, ?_⟩
  have := (C06.clear_releases_everything tiny s3).2.2.2.2.1
  unfold blocks at h; rw [h] at this; exact this

/-- failure oracle: the 1st allocator call fails. The operation fails cleanly (`alloc_fail_clean`), leaving a
    block-less pool behind; the next allocation skips it and returns id 2 (pool 1, slot 0). -/
def f1 : St := (allocSlot tiny { init tiny with failAt := [1] }).2
example : (allocSlot tiny { init tiny with failAt := [1] }).1 = none ∧ f1.pools.length = 1 ∧ usage f1 = 0 := by
  decide +kernel
example : (∀ x, live tiny f1 x ↔ live tiny { init tiny with failAt := [1] } x) ∧ Inv tiny f1 := by
  have h1 : (allocSlot tiny { init tiny with failAt := [1] }).1 = none := by decide +kernel
  have := alloc_fail_clean tinyOK (init_inv tinyOK [1]) (s' := f1) (by rw [← h1]; rfl)
  exact ⟨this.1, this.2.2⟩
example : (allocSlot tiny f1).1 = some 2 := by decide +kernel

/-- `usable_after_clear'` on `s3` -/
example : (allocSlot tiny (clear tiny s3)).1 = some 0 :=
  usable_after_clear' tinyOK s3_inv (by decide +kernel) (by decide +kernel)

/-! ### `GeoOK` cannot be weakened -/

/-- `initPools = 0`: the first pool is written into a pool table of size 0 (`len_tab` fails) -/
example : (allocSlot ⟨2, 0, 1, 16, 16⟩ (init ⟨2, 0, 1, 16, 16⟩)).2.pools.length = 1 ∧
    (allocSlot ⟨2, 0, 1, 16, 16⟩ (init ⟨2, 0, 1, 16, 16⟩)).2.tableCap = 0 := by decide +kernel
/-- `poolCap = 0`: the only pool gets 255 slots, more than `poolCap` (`pools_ok` fails) -/
example : (allocSlot ⟨0, 1, 1, 16, 16⟩ (init ⟨0, 1, 1, 16, 16⟩)).2.pools.map (·.cap) = [255] := by decide +kernel

/-! ### FINDING (repaired in /repo by "fix: the last pool handed out NULL_SLOT …"; the model follows the repair)

  Rule of the pinned tree, also after the earlier fix a92331e: the pool that reaches `maxPools` gets
  `poolCap − 1` slots. That keeps ids below NULL only if `poolCap` divides `2^(8·idBytes)`. With
  `ARDUINOJSON_SLOT_ID_SIZE=1`, `ARDUINOJSON_POOL_CAPACITY=10`: `maxPools = 26`, pool 25 covers ids 250..258, so the
  256th allocation returns 255 (= NULL_SLOT) and the following ones 0, 1, 2 (wrapped; they are live slots).
  Observed on the C++ library: 300 × `array.add(i)` → 259 report success, `size() == 255`. -/

def addPoolOld (g : Geo) (s : St) : Bool × St :=
  if s.pools.length ≥ g.maxPools then (false, s) else
  let (ok, s) := if s.pools.length == s.tableCap then increaseCapacity g s else (true, s)
  if !ok then (false, s) else
  let count := s.pools.length + 1
  let cap := if g.wrap count == g.maxPools then g.poolCap - 1 else g.poolCap
  let (got, s) := s.alloc (cap * g.slotSize)
  (true, { s with pools := s.pools ++ [{ cap := if got then cap else 0, usage := 0, hasBlock := got }] })

def allocSlotOld (g : Geo) (s : St) : Option Nat × St :=
  match s.free with
  | id :: rest => (some id, { s with free := rest })
  | [] =>
    let (r, s1) := if s.pools.isEmpty then (none, s) else allocFromLastPool g s
    match r with
    | some id => (some id, s1)
    | none =>
      let (ok, s2) := addPoolOld g s
      if !ok then (none, s2) else allocFromLastPool g s2

def allocNOld (g : Geo) : Nat → St → List (Option Nat) × St
  | 0, s => ([], s)
  | n + 1, s => let (r, s1) := allocSlotOld g s; let (rs, s2) := allocNOld g n s1; (r :: rs, s2)

/-- old rule, 1-byte ids, 10 slots per pool: NULL is handed out, then ids wrap onto live slots -/
theorem old_rule_counterexample :
    (allocNOld ⟨10, 1, 1, 16, 16⟩ 259 (init ⟨10, 1, 1, 16, 16⟩)).1.drop 254 =
      [some 254, some 255, some 0, some 1, some 2] := by decide +kernel

/-- the repaired rule on the same geometry: ids 0..254, then clean failure -/
example : (allocN ⟨10, 1, 1, 16, 16⟩ 259 (init ⟨10, 1, 1, 16, 16⟩)).1.drop 253 =
      [some 253, some 254, none, none, none, none] := by decide +kernel
/-- a capacity for which the last pool comes out empty (`255 % 3 = 0`): it is simply useless -/
example : (allocN ⟨3, 1, 1, 16, 16⟩ 257 (init ⟨3, 1, 1, 16, 16⟩)).1.drop 253 =
      [some 253, some 254, none, none] := by decide +kernel

end C19.Examples
