/- Aggregate: C19 pool-level limits (C19.lean) and string-copy failure / reference-count bounds at document level (C19Str.lean). -/
import AJ.Props.C19
import AJ.Props.C19Str
import AJ.Props.C19Geo
