/- C19 lifted to whole histories: "for every supported combination of slot-id size, pool capacity, initial pool count,
   string overhead, a history that stays below the limits produces exactly the same observable results as under any other
   combination".
   * `C19.geometry_independent`: two histories standing for the same abstract operations (`C04.HistA`), over documents of
     ANY two geometries satisfying `GeoOK` (pool capacity ≥ 1, initial pools ≥ 1, any id size, any slot/pool/string
     overhead sizes), end with the same abstract value: the value computed by the geometry-free tree machine `DL.ARun`.
   * `C19.below_limit_succeeds_pool` / `C19.below_limit_succeeds`: "stays below the limits" implies the success hypothesis
     of `HistA` for slot allocations. The limits are: slot ids left, allocator oracle, and the string-length limit
     `Doc.maxStrLen` for a copied member key (`KeyFits`; a copied string VALUE beyond the limit makes `put` report failure,
     which `Op2.Valid` excludes). -/
import AJ.Props.C14Hist
import AJ.Props.C19
import AJ.Lemmas.DocAlloc
namespace C19
open DL C04
open JD (Byte Val)

/-- GEOMETRY INDEPENDENCE, whole histories. `d1` and `d2` are well-formed documents over two geometries `d1.g`, `d2.g`
    (nothing relates them; also `strOverhead`, the allocator oracle, the slot ids in use and the layouts may differ) with
    the same abstract value. Two histories of valid operations whose allocations succeed and which stand for the same
    abstract operations `as` end in well-formed documents over the respective geometries with the same abstract value,
    namely `ARun (abs d1) as` — a term in which no geometry occurs. -/
theorem geometry_independent {d1 d1' d2 d2' : Doc} {F1 F1' F2 F2' : Forest} {as : List AOp}
    (h1 : HistA d1 F1 as d1' F1') (h2 : HistA d2 F2 as d2' F2')
    (w1 : WFG d1 F1) (s1 : StrOK d1 (d1.strRefs F1)) (g1 : PL.GeoOK d1.g)
    (w2 : WFG d2 F2) (s2 : StrOK d2 (d2.strRefs F2)) (g2 : PL.GeoOK d2.g)
    (he : abs d1 = abs d2) :
    abs d1' = abs d2' ∧ abs d1' = ARun (abs d1) as ∧
    (WFG d1' F1' ∧ d1'.g = d1.g) ∧ (WFG d2' F2' ∧ d2'.g = d2.g) := by
  obtain ⟨a1, _, c1, e1⟩ := history_simulates_tree_wf h1 w1 s1 g1
  obtain ⟨a2, _, c2, e2⟩ := history_simulates_tree_wf h2 w2 s2 g2
  exact ⟨by rw [e1, e2, he], e1, ⟨a1, c1⟩, ⟨a2, c2⟩⟩

/-- every observable that is read through a path agrees, too -/
theorem geometry_independent_at {d1 d1' d2 d2' : Doc} {F1 F1' F2 F2' : Forest} {as : List AOp}
    (h1 : HistA d1 F1 as d1' F1') (h2 : HistA d2 F2 as d2' F2')
    (w1 : WFG d1 F1) (s1 : StrOK d1 (d1.strRefs F1)) (g1 : PL.GeoOK d1.g)
    (w2 : WFG d2 F2) (s2 : StrOK d2 (d2.strRefs F2)) (g2 : PL.GeoOK d2.g)
    (he : abs d1 = abs d2) {l1 l2 : Loc} (hl1 : isLoc F1' l1) (hl2 : isLoc F2' l2)
    (hp : pathOf F1' l1 = pathOf F2' l2) : d1'.toVal (d1'.get l1) = d2'.toVal (d2'.get l2) :=
  C14.history_kind_irrelevant_at h1 h2 w1 s1 g1 w2 s2 g2 he hl1 hl2 hp

/-! ## "Stays below the limits" implies that the allocations succeed -/

/-- the allocator oracle lets the next `n` calls through -/
def OracleOK (s : PL.St) (n : Nat) : Prop := ∀ m, s.calls < m → m ≤ s.calls + n → s.failsAt m = false

/-- BELOW THE LIMIT `allocVariant` SUCCEEDS. Pool invariant; every pool owns a block of its nominal capacity
    (`PL.Nominal`: no block allocation failed earlier, `shrink` was not applied); the geometry admits a pool
    (`1 ≤ maxPools`, e.g. `2 ≤ poolCap` and `1 ≤ idBytes`: `C19.maxPools_pos`); fewer than `nullSlot` slots are live; the
    oracle lets the next `n + 2` calls through. Then a slot is returned; the hypotheses hold again with one more live slot
    and `n` calls left. -/
theorem allocVariant_succeeds {d : Doc} {n : Nat} (gok : PL.GeoOK d.g) (hI : PL.Inv d.g d.pl) (hN : PL.Nominal d.g d.pl)
    (hM : 1 ≤ d.g.maxPools) (hlim : (PL.liveIds d.g d.pl).length < d.g.nullSlot) (ho : OracleOK d.pl (n + 2)) :
    ∃ id d', d.allocVariant = (some id, d') ∧ d'.g = d.g ∧ PL.Inv d'.g d'.pl ∧ PL.Nominal d'.g d'.pl ∧
      (PL.liveIds d'.g d'.pl).length = (PL.liveIds d.g d.pl).length + 1 ∧ OracleOK d'.pl n ∧
      d'.strings = d.strings := by
  obtain ⟨id, s', h, hN', ⟨hc1, hc2⟩, hf⟩ := PL.allocSlot_succeeds gok hI hN hM hlim
    (ho _ (by omega) (by omega)) (ho _ (by omega) (by omega))
  refine ⟨id, { d with pl := s', cells := d.cells.insert id (.var .null d.null) }, by simp only [Doc.allocVariant, h], rfl,
    (alloc_fresh gok hI h).2.2.2, hN',
    PL.liveIds_length_alloc gok hI h, ?_, rfl⟩
  intro m h1 h2
  have h1' : s'.calls < m := h1
  have h2' : m ≤ s'.calls + n := h2
  show s'.failsAt m = false
  rw [hf]; exact ho m (by omega) (by omega)

/-- … hence `array.add()` returns a slot -/
theorem addElement_succeeds {d : Doc} (l : Loc) (gok : PL.GeoOK d.g) (hI : PL.Inv d.g d.pl) (hN : PL.Nominal d.g d.pl)
    (hM : 1 ≤ d.g.maxPools) (hlim : (PL.liveIds d.g d.pl).length < d.g.nullSlot) (ho : OracleOK d.pl 2) :
    (d.addElement l).1 ≠ none := by
  obtain ⟨id, d', h, _⟩ := allocVariant_succeeds (n := 0) gok hI hN hM hlim ho
  simp only [Doc.addElement, h]; exact fun e => by cases e

/-- … and `addMember` (two slots, and one block for a copied key that is not yet in the string table) returns a slot,
    when a copied key is within the string-length limit `maxStrLen` -/
theorem addMember_succeeds {d : Doc} (l : Loc) (key : List Byte) (linked : Bool) (gok : PL.GeoOK d.g)
    (hI : PL.Inv d.g d.pl) (hN : PL.Nominal d.g d.pl) (hM : 1 ≤ d.g.maxPools)
    (hlim : (PL.liveIds d.g d.pl).length + 1 < d.g.nullSlot) (ho : OracleOK d.pl 5)
    (hkey : linked = false → key.length ≤ d.maxStrLen) :
    (d.addMember l key linked).1 ≠ none := by
  obtain ⟨k, d1, h1, g1, I1, N1, L1, O1, _⟩ := allocVariant_succeeds (n := 3) gok hI hN hM (by omega) ho
  obtain ⟨v, d2, h2, g2, I2, N2, L2, O2, _⟩ := allocVariant_succeeds (n := 1) (d := d1) (by rw [g1]; exact gok) I1 N1
    (by rw [g1]; exact hM) (by rw [L1, g1]; omega) O1
  have hm1 : d1.maxStrLen = d.maxStrLen := by have := (sameId_allocVariant d).2.2.2; rw [h1] at this; exact this
  have hm2 : d2.maxStrLen = d1.maxStrLen := by have := (sameId_allocVariant d1).2.2.2; rw [h2] at this; exact this
  simp only [Doc.addMember, h1, h2]
  cases linked with
  | true => simp only [if_true]; exact fun e => by cases e
  | false =>
    simp only [Bool.false_eq_true, if_false]
    cases hf : d2.strings.find? (·.bytes == key) with
    | some x => rw [saveString_found hf]; exact fun e => by cases e
    | none =>
      rw [saveString_short hf (by rw [hm2, hm1]; exact hkey rfl),
        if_neg (by rw [O2 _ (by omega) (by omega)]; exact fun e => by cases e)]
      exact fun e => by cases e

/-- the step stays below the string-length limit: a COPIED member key is at most `maxStrLen` bytes long (a copied string
    VALUE beyond the limit is already excluded by `Op2.Valid`: `put` reports success) -/
def KeyFits (d : Doc) : Op2 → Prop
  | .member _ key linked => linked = false → key.length ≤ d.maxStrLen
  | _ => True

/-- "STAYS BELOW THE LIMITS" IMPLIES THE SUCCESS HYPOTHESIS of `C04.HistA`, step by step: for a valid operation on a
    document whose pool list is `Nominal`, with at least two slot ids left below `nullSlot`, an oracle that lets the
    next five allocator calls through and a copied key within the string-length limit, every allocation of the step
    succeeds (`Op2.Succ`). -/
theorem below_limit_succeeds {d : Doc} {F : Forest} {op : Op2} (hv : op.Valid d F) (gok : PL.GeoOK d.g)
    (hI : PL.Inv d.g d.pl) (hN : PL.Nominal d.g d.pl) (hM : 1 ≤ d.g.maxPools)
    (hlim : (PL.liveIds d.g d.pl).length + 1 < d.g.nullSlot) (ho : OracleOK d.pl 5) (hk : KeyFits d op) : op.Succ d := by
  cases op with
  | base op =>
    cases op with
    | add l =>
      exact addElement_succeeds l gok hI hN hM (by omega) (fun m h1 h2 => ho m h1 (by omega))
    | clear l => trivial
    | put l a => trivial
  | removeElem l k => trivial
  | removeMember l key => trivial
  | member l key linked =>
    show (d.getOrAddMember l key linked).1 ≠ none
    rw [getOrAddMember_eq]
    have hg' : (toObj d l).g = d.g := by simp only [toObj]; split <;> first | exact set_g _ _ _ | rfl
    have hp' : (toObj d l).pl = d.pl := by simp only [toObj]; split <;> first | exact set_pl _ _ _ | rfl
    have hm' : (toObj d l).maxStrLen = d.maxStrLen := by
      simp only [toObj]; split <;> first | exact (sameId_set _ _ _).2.2.2 | rfl
    have hg : ∃ h t, (toObj d l).get l = .obj h t := by
      rcases hv.2 with hn | ⟨h, t, hg⟩
      · exact ⟨d.null, d.null, by simp only [toObj, hn, get_set_self]⟩
      · exact ⟨h, t, by simp only [toObj, hg]⟩
    obtain ⟨h, t, hg⟩ := hg
    simp only [hg]
    cases (toObj d l).findKey l key with
    | some p => exact fun e => by cases e
    | none =>
      exact addMember_succeeds l key linked (by rw [hg']; exact gok) (by rw [hg', hp']; exact hI)
        (by rw [hg', hp']; exact hN) (by rw [hg']; exact hM) (by rw [hg', hp']; exact hlim) (by rw [hp']; exact ho)
        (by rw [hm']; exact hk)

/-! ## Whole histories that stay below the limits -/

/-- `HistB d F as d' F'`: a history of valid operations that STAYS BELOW THE LIMITS — before every step at least two slot
    ids are left below `nullSlot`, the allocator oracle lets the next five calls through and a copied key is within the
    string-length limit (`KeyFits`) — standing for the abstract operations `as`. Nothing is assumed about the success of
    any allocation. -/
inductive HistB : Doc → Forest → List AOp → Doc → Forest → Prop
  | nil (d : Doc) (F : Forest) : HistB d F [] d F
  | cons {d : Doc} {F : Forest} {as : List AOp} {d' : Doc} {F' : Forest} (op : Op2) :
      op.Valid d F → (PL.liveIds d.g d.pl).length + 1 < d.g.nullSlot → OracleOK d.pl 5 → KeyFits d op →
      HistB (op.run d) (op.layout d F) as d' F' → HistB d F (op.toA F :: as) d' F'

/-- A history that stays below the limits, from a well-formed document whose pool list is `Nominal` (e.g. has no pool
    yet) over a geometry that admits a pool, is a history all of whose allocations succeed. -/
theorem below_limit_history {d d' : Doc} {F F' : Forest} {as : List AOp} (h : HistB d F as d' F') :
    WFG d F → StrOK d (d.strRefs F) → PL.GeoOK d.g → 1 ≤ d.g.maxPools → PL.Nominal d.g d.pl → HistA d F as d' F' := by
  induction h with
  | nil d F => intros; exact HistA.nil d F
  | cons op hv hlim ho hk _ ih =>
    intro w hs gok hM hN
    have hok := below_limit_succeeds hv gok w.pool hN hM hlim ho hk
    obtain ⟨a, b, c, _⟩ := step_refines2 w hs gok hv
    exact HistA.cons op hv hok (ih a b (by rw [c]; exact gok) (by rw [c]; exact hM) (step_nominal w hs gok hv hok hN))

/-- C19, whole histories: "a history that stays below the limits produces exactly the same observable results as under
    any other combination" of slot-id size, pool capacity (≥ 2, see the finding below), initial pool count, string
    overhead. Two histories that stay below the limits of their respective geometries and stand for the same abstract
    operations, from well-formed documents with the same abstract value, end with the same abstract value, the one the
    geometry-free tree machine computes; no allocation fails on the way (the overflow flags stay as they were). -/
theorem geometry_independent_below_limit {d1 d1' d2 d2' : Doc} {F1 F1' F2 F2' : Forest} {as : List AOp}
    (h1 : HistB d1 F1 as d1' F1') (h2 : HistB d2 F2 as d2' F2')
    (w1 : WFG d1 F1) (s1 : StrOK d1 (d1.strRefs F1)) (g1 : PL.GeoOK d1.g) (m1 : 1 ≤ d1.g.maxPools)
    (n1 : PL.Nominal d1.g d1.pl)
    (w2 : WFG d2 F2) (s2 : StrOK d2 (d2.strRefs F2)) (g2 : PL.GeoOK d2.g) (m2 : 1 ≤ d2.g.maxPools)
    (n2 : PL.Nominal d2.g d2.pl)
    (he : abs d1 = abs d2) : abs d1' = abs d2' ∧ abs d1' = ARun (abs d1) as :=
  ⟨(geometry_independent (below_limit_history h1 w1 s1 g1 m1 n1) (below_limit_history h2 w2 s2 g2 m2 n2)
      w1 s1 g1 w2 s2 g2 he).1,
   history_simulates_tree (below_limit_history h1 w1 s1 g1 m1 n1) w1 s1 g1⟩

end C19

/-! ## Non-vacuity: geometry ⟨4,1,1⟩ (1-byte ids, string overhead 15) versus ⟨2,1,2⟩ (2-byte ids, string overhead 9) -/
namespace C19.ExG
open DL C04 C04.Ex C04.Ex3 C14.ExH
open JD (Byte Val)

def g2 : PL.Geo := ⟨2, 1, 2, 16, 16⟩
theorem gok2 : PL.GeoOK g2 := ⟨by decide, by decide⟩
/-- the empty array over the second geometry (null id 65535) -/
def e1g : Doc := ({ g := g2, alloc := 0, pl := PL.init g2, strOverhead := 9 } : Doc).set .root (.arr 65535 65535)
theorem w1g : WFG e1g .nil := wfg_empty_arr rfl (PL.init_inv gok2 [])
theorem s1g : StrOK e1g (e1g.strRefs .nil) := ⟨by decide +kernel, by decide +kernel, by decide +kernel, by decide +kernel⟩

def dd1g : Doc := op1.run e1g
def FF1g : Forest := op1.layout e1g .nil
theorem v1g : op1.Valid e1g .nil := ⟨trivial, 65535, 65535, rfl⟩
theorem ok1g : op1.Succ e1g := by show (e1g.addElement .root).1 ≠ none; decide +kernel
theorem p0g : pathOf FF1g (.slot 0) = [0] := by decide +kernel
theorem vCg1 : dd1g.get (.slot 0) = .null := by decide +kernel
set_option maxRecDepth 8000 in
theorem vCg2 : (dd1g.setArg (.slot 0) (.strCopied hi)).1 = true := by decide +kernel
theorem vCg : opC.Valid dd1g FF1g := ⟨by show 0 ∈ FF1g.locs; decide +kernel, vCg1, vCg2⟩

/-- the same abstract history `[add [], put [0] "hi"]` over the second geometry (string copied) -/
theorem histCg : HistA e1g .nil asA (opC.run dd1g) (opC.layout dd1g FF1g) := by
  have h := HistA.cons op1 v1g ok1g (HistA.cons opC vCg trivial (HistA.nil _ _))
  have e : opC.toA (op1.layout e1g .nil) = .put [0] (.str hi) := by
    show AOp.put (pathOf FF1g (.slot 0)) _ = _; rw [p0g]; rfl
  rw [e] at h; exact h

/-- `geometry_independent` applies: 1-byte ids / 4 slots per pool / linked string versus 2-byte ids / 2 slots per pool /
    copied string — the geometries differ, the final abstract documents are equal (`["hi"]`) -/
example : e1.g ≠ e1g.g ∧ abs (opL.run dd1) = abs (opC.run dd1g) ∧ abs (opC.run dd1g) = .arr [.str hi] ∧
    (opC.run dd1g).g = g2 ∧ (opL.run dd1).g = g0 := by
  have he : abs e1 = abs e1g := veq (by decide +kernel)
  obtain ⟨a, b, ⟨_, c⟩, ⟨_, e⟩⟩ := geometry_independent histL histCg w1 C04.Ex2.s1 gok w1g s1g gok2 he
  exact ⟨fun h => absurd (congrArg PL.Geo.poolCap h : (4 : Nat) = 2) (by decide), a, a.symm.trans (b.trans rfl), e, c⟩

/-- `below_limit_succeeds` applies to `add` on the empty array and to `root["hi"]` (copied key) on the empty object:
    pool list without pools (`Nominal`), 64 pools possible, no live slot, oracle without failures -/
theorem orc (d : Doc) (h1 : d.pl.failAt = []) (h2 : d.pl.failFrom = none) (n : Nat) : OracleOK d.pl n := by
  intro m _ _; simp only [PL.St.failsAt, h1, h2]; rfl
example : op1.Succ e1 :=
  below_limit_succeeds v1 gok (PL.init_inv gok []) (PL.Nominal_of_no_pools rfl) (by decide +kernel) (by decide +kernel)
    (orc e1 rfl rfl 5) trivial
example : kC.Succ eo :=
  below_limit_succeeds (vk false) gok (PL.init_inv gok []) (PL.Nominal_of_no_pools rfl) (by decide +kernel)
    (by decide +kernel) (orc eo rfl rfl 5) (fun _ => by decide +kernel)
/-- the hypothesis `KeyFits` cannot be dropped: on the empty object with the string-length limit 1 everything else holds
    (no pool yet, no live slot, no oracle failure) and `root["hi"]` with a copied key fails -/
example : ¬ kC.Succ { eo with maxStrLen := 1 } ∧ ¬ KeyFits { eo with maxStrLen := 1 } kC ∧
    OracleOK ({ eo with maxStrLen := 1 } : Doc).pl 5 :=
  ⟨by show ¬ (({ eo with maxStrLen := 1 } : Doc).getOrAddMember .root hi false).1 ≠ none; decide +kernel,
   fun h => absurd (h rfl) (by decide +kernel), orc _ rfl rfl 5⟩
/-- `allocVariant_succeeds` applies twice in a row (the hypotheses are re-established by the conclusion) -/
example : ∃ k d1 v d2, e1.allocVariant = (some k, d1) ∧ d1.allocVariant = (some v, d2) ∧
    (PL.liveIds d2.g d2.pl).length = 2 := by
  obtain ⟨k, d1, h1, g1, I1, N1, L1, O1, _⟩ := allocVariant_succeeds (n := 2) (d := e1) gok (PL.init_inv gok [])
    (PL.Nominal_of_no_pools rfl) (by decide +kernel) (by decide +kernel) (orc e1 rfl rfl 4)
  obtain ⟨v, d2, h2, g2, _, _, L2, _, _⟩ := allocVariant_succeeds (n := 0) (d := d1) (by rw [g1]; exact gok) I1 N1
    (by rw [g1]; decide +kernel) (by rw [L1, g1]; decide +kernel) O1
  exact ⟨k, d1, v, d2, h1, h2, by rw [L2, L1]; decide +kernel⟩

/-- the two histories stay below the limits of their geometries (255 resp. 65535 slot ids, no oracle failure) -/
theorem histLB : HistB e1 .nil asA (opL.run dd1) (opL.layout dd1 FF1) := by
  have h := HistB.cons op1 v1 (by decide +kernel) (orc e1 rfl rfl 5) trivial
    (HistB.cons opL vL (by decide +kernel) (orc dd1 (by decide +kernel) (by decide +kernel) 5) trivial (HistB.nil _ _))
  have e : opL.toA (op1.layout e1 .nil) = .put [0] (.str hi) := by
    show AOp.put (pathOf FF1 (.slot 0)) _ = _; rw [p0]; rfl
  rw [e] at h; exact h
theorem histCgB : HistB e1g .nil asA (opC.run dd1g) (opC.layout dd1g FF1g) := by
  have h := HistB.cons op1 v1g (by decide +kernel) (orc e1g rfl rfl 5) trivial
    (HistB.cons opC vCg (by decide +kernel) (orc dd1g (by decide +kernel) (by decide +kernel) 5) trivial (HistB.nil _ _))
  have e : opC.toA (op1.layout e1g .nil) = .put [0] (.str hi) := by
    show AOp.put (pathOf FF1g (.slot 0)) _ = _; rw [p0g]; rfl
  rw [e] at h; exact h

/-- `below_limit_history` and `geometry_independent_below_limit` apply: no success hypothesis is needed -/
example : HistA e1g .nil asA (opC.run dd1g) (opC.layout dd1g FF1g) ∧ abs (opL.run dd1) = abs (opC.run dd1g) :=
  ⟨below_limit_history histCgB w1g s1g gok2 (by decide +kernel) (PL.Nominal_of_no_pools rfl),
   (geometry_independent_below_limit histLB histCgB w1 C04.Ex2.s1 gok (by decide +kernel) (PL.Nominal_of_no_pools rfl)
      w1g s1g gok2 (by decide +kernel) (PL.Nominal_of_no_pools rfl) (veq (by decide +kernel))).1⟩

/-! ### The hypothesis `1 ≤ maxPools` cannot be dropped: FINDING about the geometry `poolCap = 1`
   `GeoOK` admits `poolCap = 1`; then `maxPools = (nullSlot / 1 + 1) mod 2^(8·idBytes) = 0` (the count wraps in the slot-id
   type, as `SlotId(NULL_SLOT / ARDUINOJSON_POOL_CAPACITY + 1)` does), no pool can ever be created and EVERY slot allocation
   fails cleanly although no slot is live. "Any pool capacity ≥ 1" in C19 must read "≥ 2" for "below the limit ⇒ success". -/
def gOne : PL.Geo := ⟨1, 1, 1, 16, 16⟩
example : PL.GeoOK gOne ∧ gOne.maxPools = 0 ∧ (PL.allocSlot gOne (PL.init gOne)).1 = none ∧
    (PL.liveIds gOne (PL.init gOne)).length = 0 :=
  ⟨⟨by decide, by decide⟩, by decide +kernel, by decide +kernel, by decide +kernel⟩

end C19.ExG
