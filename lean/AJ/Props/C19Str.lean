/- C19 at the document level, strings:
   "strings up to 2^(8*length-size)-1 bytes … Reaching a limit makes the operation fail cleanly (false or NoMemory,
    overflowed() set) with the document intact; slot identifiers, lengths and reference counts never wrap."

   FINDING about the model: `DL.Doc.saveString` has NO length limit (`PL.Geo` has no field for
   ARDUINOJSON_STRING_LENGTH_SIZE; the limit `maxStrLen` exists only in the deserializer models `JD`/`MD`). The target
   "`saveString s` with `s.length > maxStrLen` returns `none`" is therefore false of the model:
   `model_has_no_string_length_limit` — a copy of ANY length succeeds when the allocator does not fail. What is true, and
   proved here, is the clean-failure half for the only failure the model has (the allocator):
   `string_copy_fails_only_on_allocator_failure`, `string_copy_fails_cleanly`, `copied_string_set_fails_cleanly`.

   Reference counts: `refcount_never_wraps` (a counter is at most the number of live slots, which is at most
   `nullSlot = 2^(8·idBytes) − 1`), for every document reachable by a history: `refcount_never_wraps_history`. `StrOK`
   alone (counter ≥ number of references) does not bound the counters: `refcount_needs_exact`. -/
import AJ.Props.C06Doc
namespace C19
open DL
open JD (Byte Val)
open C04 (Op Hist)

/-! ## The string copy: its only failure is the allocator's, and it is clean -/

/-- FINDING: the slot-level document model has no string length limit: when no node holds these bytes and the next
    allocator call does not fail, the copy succeeds whatever the length (so "reaching the length limit fails cleanly"
    cannot be stated for `DL`). -/
theorem model_has_no_string_length_limit (d : Doc) (s : List Byte) (hnew : ∀ x ∈ d.strings, x.bytes ≠ s)
    (hok : d.pl.failsAt (d.pl.calls + 1) = false) : (d.saveString s).1 = some d.nextNode :=
  (C06.new_string_one_block hnew hok).1

/-- the copy fails exactly when the bytes are not stored yet and the allocator call fails -/
theorem string_copy_fails_only_on_allocator_failure (d : Doc) (s : List Byte) :
    (d.saveString s).1 = none ↔ (∀ x ∈ d.strings, x.bytes ≠ s) ∧ d.pl.failsAt (d.pl.calls + 1) = true := by
  cases hf : d.strings.find? (·.bytes == s) with
  | some x =>
    rw [saveString_found hf]
    have hx : x ∈ d.strings := List.mem_of_find?_eq_some hf
    have hb : x.bytes = s := by have := List.find?_some hf; simpa using this
    constructor
    · intro h; cases h
    · intro h; exact absurd hb (h.1 x hx)
  | none =>
    have hnew : ∀ x ∈ d.strings, x.bytes ≠ s := by
      intro x hx; simpa using List.find?_eq_none.1 hf x hx
    rw [saveString_new hf]
    cases hfail : d.pl.failsAt (d.pl.calls + 1)
    · simp
    · simp only [if_true, true_iff]; exact ⟨hnew, trivial⟩

/-- A failed string copy is clean: the overflow flag is set and NOTHING else of the document changes — cells, root,
    string table, node counter — and of the pool only the call counter and the log move: one failed allocate of the
    documented size. -/
theorem string_copy_fails_cleanly {d : Doc} {s : List Byte} (hf : (d.saveString s).1 = none) :
    (d.saveString s).2.overflowed = true ∧ (d.saveString s).2.cells = d.cells ∧ (d.saveString s).2.root = d.root ∧
    (d.saveString s).2.strings = d.strings ∧ (d.saveString s).2.nextNode = d.nextNode ∧
    (d.saveString s).2.g = d.g ∧
    (d.saveString s).2.pl.pools = d.pl.pools ∧ (d.saveString s).2.pl.free = d.pl.free ∧
    (d.saveString s).2.pl.tableCap = d.pl.tableCap ∧ (d.saveString s).2.pl.tableHeap = d.pl.tableHeap ∧
    (d.saveString s).2.pl.calls = d.pl.calls + 1 ∧
    (d.saveString s).2.pl.log = s!"A{s.length + d.strOverhead}!" :: d.pl.log := by
  obtain ⟨hnew, hfail⟩ := (string_copy_fails_only_on_allocator_failure d s).1 hf
  have hfind : d.strings.find? (·.bytes == s) = none := by
    rw [List.find?_eq_none]; intro x hx; simpa using hnew x hx
  rw [saveString_new hfind, hfail]
  refine ⟨rfl, rfl, rfl, rfl, rfl, rfl, rfl, rfl, rfl, rfl, rfl, ?_⟩
  show s!"A{s.length + d.strOverhead}{if d.pl.failsAt (d.pl.calls + 1) then "!" else ""}" :: d.pl.log = _
  rw [hfail]; rfl

/-- `set(copied string)` whose copy fails returns false with the overflow flag set; the document is well-formed, is
    the SAME abstract document, holds the same strings and the same live slots. -/
theorem copied_string_set_fails_cleanly {d : Doc} {F : Forest} {l : Loc} {s : List Byte} (w : WFG d F)
    (hs : StrOK d (d.strRefs F)) (hf : (d.saveString s).1 = none) :
    (d.setArg l (.strCopied s)).1 = false ∧ (d.setArg l (.strCopied s)).2.overflowed = true ∧
    WFG (d.setArg l (.strCopied s)).2 F ∧
    StrOK (d.setArg l (.strCopied s)).2 ((d.setArg l (.strCopied s)).2.strRefs F) ∧
    abs (d.setArg l (.strCopied s)).2 = abs d ∧ (d.setArg l (.strCopied s)).2.strings = d.strings ∧
    (∀ x, PL.live (d.setArg l (.strCopied s)).2.g (d.setArg l (.strCopied s)).2.pl x ↔ PL.live d.g d.pl x) := by
  generalize hal : d.saveString s = r at hf
  obtain ⟨m, d1⟩ := r
  simp only at hf; subst hf
  obtain ⟨hg, hov, hlv⟩ := saveString_none w.pool hal
  obtain ⟨a, b, c⟩ := wfg_of_grow w hs hg
  simp only [Doc.setArg, hal, hov]
  exact ⟨rfl, trivial, a, b, c, hg.strings, hlv⟩

/-- the same for a raw (pre-serialized) value -/
theorem raw_string_set_fails_cleanly {d : Doc} {F : Forest} {l : Loc} {s : List Byte} (w : WFG d F)
    (hs : StrOK d (d.strRefs F)) (hf : (d.saveString s).1 = none) :
    (d.setArg l (.raw s)).1 = false ∧ (d.setArg l (.raw s)).2.overflowed = true ∧
    WFG (d.setArg l (.raw s)).2 F ∧ StrOK (d.setArg l (.raw s)).2 ((d.setArg l (.raw s)).2.strRefs F) ∧
    abs (d.setArg l (.raw s)).2 = abs d := by
  generalize hal : d.saveString s = r at hf
  obtain ⟨m, d1⟩ := r
  simp only at hf; subst hf
  obtain ⟨hg, hov, _⟩ := saveString_none w.pool hal
  obtain ⟨a, b, c⟩ := wfg_of_grow w hs hg
  simp only [Doc.setArg, hal, hov]
  exact ⟨rfl, trivial, a, b, c⟩

/-! ## Reference counts never wrap -/

theorem strOfV_length (v : VData) : (strOfV v).length ≤ 1 := by cases v <;> simp [strOfV]

theorem flatMap_length_le {α β : Type} (f : α → List β) (hf : ∀ a, (f a).length ≤ 1) :
    ∀ l : List α, (l.flatMap f).length ≤ l.length := by
  intro l
  induction l with
  | nil => simp
  | cons a l ih =>
    simp only [List.flatMap_cons, List.length_append, List.length_cons]
    have := hf a; omega

/-- a document holds at most as many string references as it has slots (one, when it is a single string) -/
theorem strRefs_length_le {d : Doc} {F : Forest} (w : WFG d F) : (d.strRefs F).length ≤ max 1 F.ids.length := by
  have hrest : ((F.ids.map Loc.slot).flatMap (fun l => strOfV (d.get l))).length ≤ F.ids.length := by
    have := flatMap_length_le (fun l => strOfV (d.get l)) (fun l => strOfV_length _) (F.ids.map Loc.slot)
    rwa [List.length_map] at this
  have hroot := strOfV_length d.root
  have hsplit : (d.strRefs F).length =
      (strOfV d.root).length + ((F.ids.map Loc.slot).flatMap (fun l => strOfV (d.get l))).length := by
    simp only [Doc.strRefs, holders, List.flatMap_cons, List.length_append]; rfl
  by_cases hF : F = .nil
  · subst hF
    rw [hsplit]
    simp only [Forest.ids, List.map_nil, List.flatMap_nil, List.length_nil]
    omega
  · obtain ⟨_, _, _, hc⟩ := VOK_coll_of_ne_nil w.root hF
    have : strOfV d.root = [] := by
      cases hv : d.root <;> rw [hv] at hc <;> first | rfl | exact absurd hc (fun h => h)
    rw [hsplit, this]
    simp only [List.length_nil]
    omega

theorem slots_le_live {d : Doc} {F : Forest} (w : WFG d F) : F.ids.length ≤ (PL.liveIds d.g d.pl).length :=
  List.Nodup.length_le_of_subset w.nodup (fun x hx => (PL.mem_liveIds d.g d.pl x).2 (w.live x hx))

/-- In a well-formed document with exact counts, every reference counter is at most the number of live slots (or 1,
    for a document that is a single string), which is at most `nullSlot = 2^(8·idBytes) − 1`: the counter, which has
    the width of a slot id, never wraps. (`1 ≤ idBytes`: with 0-byte ids `nullSlot = 0` and nothing can be stored.) -/
theorem refcount_never_wraps {d : Doc} {F : Forest} (w : WFG d F) (hs : StrOK d (d.strRefs F))
    (he : Exact d (d.strRefs F)) :
    ∀ n ∈ d.strings, n.refs ≤ max 1 (PL.liveIds d.g d.pl).length ∧ (PL.liveIds d.g d.pl).length ≤ d.g.nullSlot ∧
      (1 ≤ d.g.idBytes → n.refs ≤ d.g.nullSlot ∧ n.refs < 2 ^ (8 * d.g.idBytes)) := by
  intro n hn
  have _ := hs
  have h1 : n.refs ≤ (d.strRefs F).length := by rw [(he n hn).1]; exact List.count_le_length
  have h2 := strRefs_length_le w
  have h3 := slots_le_live w
  have h4 := w.pool.liveIds_length_le
  refine ⟨by omega, h4, fun hb => ?_⟩
  have hW : 2 ^ (8 * 1) ≤ 2 ^ (8 * d.g.idBytes) := Nat.pow_le_pow_right (by decide) (by omega)
  have hlt := d.g.nullSlot_lt
  have hnull : d.g.nullSlot + 1 = 2 ^ (8 * d.g.idBytes) := by
    have := d.g.width_pos; unfold PL.Geo.nullSlot; omega
  have : (2 : Nat) ^ (8 * 1) = 256 := by decide
  omega

/-- … for every document reachable by a history of `add` / `clear` / `put` from a document satisfying the invariants
    (`C06.Good`; e.g. a fresh one): after every operation — in particular after every increment done by storing an
    equal string — all counters fit the counter width. -/
theorem refcount_never_wraps_history {d d' : Doc} {F F' : Forest} (h : Hist d F d' F') (w : WFG d F)
    (hs : StrOK d (d.strRefs F)) (gok : PL.GeoOK d.g) (g : C06.Good d F) (hb : 1 ≤ d.g.idBytes) :
    ∀ n ∈ d'.strings, n.refs ≤ max 1 (PL.liveIds d'.g d'.pl).length ∧ n.refs < 2 ^ (8 * d'.g.idBytes) := by
  obtain ⟨w', s', hg⟩ := C04.history_refines h w hs gok
  have g' := C06.history_good h w hs gok g
  intro n hn
  obtain ⟨a, _, c⟩ := refcount_never_wraps w' s' g'.exact n hn
  exact ⟨a, (c (by rw [hg]; exact hb)).2⟩

/-- slot identifiers of a reachable document: distinct, below the null id, at most `nullSlot` of them -/
theorem slot_ids_never_wrap_history {d d' : Doc} {F F' : Forest} (h : Hist d F d' F') (w : WFG d F)
    (hs : StrOK d (d.strRefs F)) (gok : PL.GeoOK d.g) :
    F'.ids.Nodup ∧ (∀ i ∈ F'.ids, i < d'.g.nullSlot) ∧ F'.ids.length ≤ d'.g.nullSlot := by
  obtain ⟨w', _, _⟩ := C04.history_refines h w hs gok
  exact ⟨w'.nodup, w'.lt, Nat.le_trans (slots_le_live w') w'.pool.liveIds_length_le⟩

/-! ## Non-vacuity -/
namespace StrEx
open C04.Ex C04.Ex2 C06.Ex

/-- allocator failing from its first call on -/
def e4f : Doc := { e4 with pl := { e4.pl with failFrom := some 1 } }
theorem w4f : WFG e4f F3 := by
  obtain ⟨a, _, _⟩ := wfg_frame (d' := e4f) w4 rfl rfl (fun _ _ => rfl)
    (fun l0 h0 e he => ⟨rfl, (w4.ext l0 h0 e he).2.1⟩)
    (w4.pool.congr rfl rfl rfl rfl) (fun x hx => w4.live x hx) (StrOK_congr (d := e4) rfl rfl s4) (fun _ _ => rfl)
  exact a
theorem s4f : StrOK e4f (e4f.strRefs F3) := ⟨by decide +kernel, by decide +kernel, by decide +kernel, by decide +kernel⟩

/-- a 300-byte string (longer than any 1-byte length field could describe) is copied without complaint -/
example : (e4.saveString (List.replicate 300 0x61)).1 = some 1 :=
  model_has_no_string_length_limit e4 _ (by decide +kernel) (by decide +kernel)

/-- `string_copy_fails_cleanly` / `copied_string_set_fails_cleanly` on `["hi"]` with a failing allocator -/
example : (e4f.saveString [0x61]).1 = none := by decide +kernel
example : (e4f.saveString [0x61]).2.overflowed = true ∧ (e4f.saveString [0x61]).2.strings = e4f.strings ∧
    (e4f.saveString [0x61]).2.pl.log = s!"A{1 + 15}!" :: e4f.pl.log := by
  obtain ⟨a, _, _, b, _, _, _, _, _, _, _, c⟩ := string_copy_fails_cleanly (d := e4f) (s := [0x61]) (by decide +kernel)
  exact ⟨a, b, c⟩
example : (e4f.setArg (.slot 0) (.strCopied [0x61])).1 = false ∧
    abs (e4f.setArg (.slot 0) (.strCopied [0x61])).2 = abs e4f := by
  obtain ⟨a, _, _, _, b, _⟩ := copied_string_set_fails_cleanly (l := .slot 0) w4f s4f (s := [0x61]) (by decide +kernel)
  exact ⟨a, b⟩
/-- … whereas an equal string needs no allocation and succeeds even then -/
example : (e4f.saveString hi).1 = some 0 := by decide +kernel

/-- `refcount_never_wraps` on `["hi","hi"]`: the counter 2 is at most the number of live slots -/
example : ∀ n ∈ d4.strings, n.refs ≤ max 1 (PL.liveIds d4.g d4.pl).length ∧ n.refs < 2 ^ (8 * d4.g.idBytes) :=
  refcount_never_wraps_history hist4 w1 s1 gok g1 (by decide)
example : ∀ n ∈ e4.strings, n.refs ≤ max 1 (PL.liveIds e4.g e4.pl).length :=
  fun n hn => (refcount_never_wraps w4 s4 x4 n hn).1
example : F3b.ids.Nodup ∧ (∀ i ∈ F3b.ids, i < d4.g.nullSlot) ∧ F3b.ids.length ≤ d4.g.nullSlot :=
  slot_ids_never_wrap_history hist4 w1 s1 gok

/-- `StrOK` alone does not bound the counters: an (unreachable) well-formed document whose only node claims 1000
    references although nothing refers to it satisfies `WFG` and `StrOK`, and 1000 does not fit one byte -/
def eX : Doc := { e1 with strings := [⟨0, [], 1000⟩], nextNode := 1 }
theorem refcount_needs_exact : WFG eX .nil ∧ StrOK eX (eX.strRefs .nil) ∧
    ∃ n ∈ eX.strings, ¬ n.refs < 2 ^ (8 * eX.g.idBytes) :=
  ⟨wfg_empty_arr rfl (PL.init_inv gok []),
   ⟨by decide +kernel, by decide +kernel, by decide +kernel, by decide +kernel⟩,
   ⟨0, [], 1000⟩, by decide +kernel, by decide +kernel⟩

end StrEx
end C19
