/- C19 at the document level, strings:
   "strings up to 2^(8*length-size)-1 bytes … Reaching a limit makes the operation fail cleanly (false or NoMemory,
    overflowed() set) with the document intact; slot identifiers, lengths and reference counts never wrap."

   The slot-level model has the limit: `Doc.maxStrLen` (= `StringNode::maxLength` = 2^(8·STRING_LENGTH_SIZE) − 1, 65535 by
   default, a construction-time constant that no operation changes: `DL.SameId`, `limit_constant_history`). `Doc.saveString` refuses a NEW string
   longer than that WITHOUT calling the allocator and sets the overflow flag (`StringNode::create` +
   `ResourceManager::saveString`); a string that is already stored is shared whatever its length (it was stored, so it is
   within the limit in every reachable document). The copy therefore has exactly two causes of failure
   (`string_copy_fails_iff`): the length limit and the allocator. Both are clean:
   * the limit is a clean edge: `string_length_limit_is_clean_edge` (the result IS `{ d with overflowed := true }`: allocator
     state, log, call counter, string table, cells, root, node counter untouched), `string_length_limit_keeps_invariants`
     (`WFG`, `StrOK`, `Exact`, `Bal`, `BytesNodup`, same abstract value); one byte less and the copy succeeds:
     `string_at_limit_succeeds`; after the failure the document is as usable as before: `usable_after_length_failure`;
   * the allocator: `string_copy_fails_cleanly` (exactly one failed allocate of the documented size is logged);
   * either cause: `string_copy_failure_is_clean`;
   * document level: `copied_string_set_fails_cleanly`, `raw_string_set_fails_cleanly` (either cause),
     `copied_string_too_long_fails_cleanly`, `raw_string_too_long_fails_cleanly` (the limit: no allocator call, the target
     stays null), `key_too_long_fails_cleanly` (`getOrAddMember` with a too-long copied key: `none`, flag set, same abstract
     document, same strings; the two slots obtained for the member before the key is copied stay allocated — as in the
     library — which the invariant `WFG` allows: live slots may be unreachable).

   Reference counts: `refcount_never_wraps` (a counter is at most the number of live slots, which is at most
   `nullSlot = 2^(8·idBytes) − 1`), for every document reachable by a history: `refcount_never_wraps_history`. `StrOK`
   alone (counter ≥ number of references) does not bound the counters: `refcount_needs_exact`. -/
import AJ.Props.C06Doc
import AJ.Lemmas.DocCopy
import AJ.Lemmas.DocAlloc
namespace C19
open DL
open JD (Byte Val)
open C04 (Op Hist)

/-! ## The string copy: it fails on the length limit or on the allocator, and both failures are clean -/

theorem find_none_of_new {d : Doc} {s : List Byte} (hnew : ∀ x ∈ d.strings, x.bytes ≠ s) :
    d.strings.find? (·.bytes == s) = none := by
  rw [List.find?_eq_none]; intro x hx; simpa using hnew x hx

/-- THE LIMIT IS A CLEAN EDGE. A new string longer than `maxStrLen` is refused: `none`, and the document that comes back
    is the old one with the overflow flag set - the allocator was not called (state, log and call counter of `pl` are
    literally the same), string table, cells, root, node counter, geometry and the limit itself are unchanged. -/
theorem string_length_limit_is_clean_edge (d : Doc) (s : List Byte) (hnew : ∀ x ∈ d.strings, x.bytes ≠ s)
    (hlong : d.maxStrLen < s.length) :
    (d.saveString s).1 = none ∧ (d.saveString s).2 = { d with overflowed := true } ∧
    (d.saveString s).2.overflowed = true ∧ (d.saveString s).2.pl = d.pl ∧
    (d.saveString s).2.pl.log = d.pl.log ∧ (d.saveString s).2.pl.calls = d.pl.calls ∧
    (d.saveString s).2.strings = d.strings ∧ (d.saveString s).2.cells = d.cells ∧ (d.saveString s).2.root = d.root ∧
    (d.saveString s).2.nextNode = d.nextNode ∧ (d.saveString s).2.g = d.g ∧
    (d.saveString s).2.maxStrLen = d.maxStrLen := by
  rw [saveString_long (find_none_of_new hnew) hlong]
  exact ⟨rfl, rfl, rfl, rfl, rfl, rfl, rfl, rfl, rfl, rfl, rfl, rfl⟩

/-- … so every invariant of the document survives: well-formedness over the same forest, the string table invariants
    (`StrOK`, exact counts, one node per byte string), the allocator ledger, and the abstract value. -/
theorem string_length_limit_keeps_invariants {d : Doc} {F : Forest} {s : List Byte} (w : WFG d F)
    (hs : StrOK d (d.strRefs F)) (hnew : ∀ x ∈ d.strings, x.bytes ≠ s) (hlong : d.maxStrLen < s.length) :
    WFG (d.saveString s).2 F ∧ StrOK (d.saveString s).2 ((d.saveString s).2.strRefs F) ∧
    abs (d.saveString s).2 = abs d ∧
    (Exact d (d.strRefs F) → Exact (d.saveString s).2 ((d.saveString s).2.strRefs F)) ∧
    (Bal d → Bal (d.saveString s).2) ∧ (BytesNodup d → BytesNodup (d.saveString s).2) ∧
    (∀ x, PL.live (d.saveString s).2.g (d.saveString s).2.pl x ↔ PL.live d.g d.pl x) := by
  have e := saveString_long (find_none_of_new hnew) hlong
  obtain ⟨hg, _, hlv⟩ := saveString_none w.pool e
  obtain ⟨a, b, c⟩ := wfg_of_grow w hs hg
  rw [e]
  exact ⟨a, b, c, fun h => h, fun h => h, fun h => h, hlv⟩

/-- AT THE LIMIT (and below) the copy of a new string succeeds when the next allocator call does not fail: the limit is
    exactly `maxStrLen`, the longest storable length. -/
theorem string_at_limit_succeeds (d : Doc) (s : List Byte) (hnew : ∀ x ∈ d.strings, x.bytes ≠ s)
    (hlen : s.length ≤ d.maxStrLen) (hok : d.pl.failsAt (d.pl.calls + 1) = false) :
    (d.saveString s).1 = some d.nextNode :=
  (C06.new_string_one_block hnew hlen hok).1

/-- the copy fails exactly when the bytes are not stored yet and either they are longer than the limit or the allocator
    call fails -/
theorem string_copy_fails_iff (d : Doc) (s : List Byte) :
    (d.saveString s).1 = none ↔
      (∀ x ∈ d.strings, x.bytes ≠ s) ∧ (d.maxStrLen < s.length ∨ d.pl.failsAt (d.pl.calls + 1) = true) := by
  cases hf : d.strings.find? (·.bytes == s) with
  | some x =>
    rw [saveString_found hf]
    have hx : x ∈ d.strings := List.mem_of_find?_eq_some hf
    have hb : x.bytes = s := by have := List.find?_some hf; simpa using this
    constructor
    · intro h; cases h
    · intro h; exact absurd hb (h.1 x hx)
  | none =>
    have hnew : ∀ x ∈ d.strings, x.bytes ≠ s := by
      intro x hx; simpa using List.find?_eq_none.1 hf x hx
    by_cases hlong : d.maxStrLen < s.length
    · rw [saveString_long hf hlong]
      exact ⟨fun _ => ⟨hnew, Or.inl hlong⟩, fun _ => rfl⟩
    · rw [saveString_short hf (Nat.le_of_not_lt hlong)]
      cases hfail : d.pl.failsAt (d.pl.calls + 1)
      · simp only [Bool.false_eq_true, if_false, or_false]
        exact ⟨(fun h => by cases h), fun h => absurd h.2 hlong⟩
      · simp only [if_true, true_iff]; exact ⟨hnew, Or.inr trivial⟩

/-- within the limit the only failure is the allocator's -/
theorem string_copy_fails_only_on_allocator_failure (d : Doc) (s : List Byte) (hlen : s.length ≤ d.maxStrLen) :
    (d.saveString s).1 = none ↔ (∀ x ∈ d.strings, x.bytes ≠ s) ∧ d.pl.failsAt (d.pl.calls + 1) = true := by
  rw [string_copy_fails_iff]
  constructor
  · rintro ⟨a, b | b⟩
    · omega
    · exact ⟨a, b⟩
  · rintro ⟨a, b⟩; exact ⟨a, Or.inr b⟩

/-- A string copy (within the length limit) that fails is clean: the overflow flag is set and NOTHING else of the document
    changes — cells, root, string table, node counter — and of the pool only the call counter and the log move: one failed
    allocate of the documented size. -/
theorem string_copy_fails_cleanly {d : Doc} {s : List Byte} (hlen : s.length ≤ d.maxStrLen)
    (hf : (d.saveString s).1 = none) :
    (d.saveString s).2.overflowed = true ∧ (d.saveString s).2.cells = d.cells ∧ (d.saveString s).2.root = d.root ∧
    (d.saveString s).2.strings = d.strings ∧ (d.saveString s).2.nextNode = d.nextNode ∧
    (d.saveString s).2.g = d.g ∧
    (d.saveString s).2.pl.pools = d.pl.pools ∧ (d.saveString s).2.pl.free = d.pl.free ∧
    (d.saveString s).2.pl.tableCap = d.pl.tableCap ∧ (d.saveString s).2.pl.tableHeap = d.pl.tableHeap ∧
    (d.saveString s).2.pl.calls = d.pl.calls + 1 ∧
    (d.saveString s).2.pl.log = s!"A{s.length + d.strOverhead}!" :: d.pl.log := by
  obtain ⟨hnew, hfail⟩ := (string_copy_fails_only_on_allocator_failure d s hlen).1 hf
  rw [saveString_short (find_none_of_new hnew) hlen, hfail]
  refine ⟨rfl, rfl, rfl, rfl, rfl, rfl, rfl, rfl, rfl, rfl, rfl, ?_⟩
  show s!"A{s.length + d.strOverhead}{if d.pl.failsAt (d.pl.calls + 1) then "!" else ""}" :: d.pl.log = _
  rw [hfail]; rfl

/-- A failed string copy, whatever its cause, is clean: the overflow flag is set; cells, root, string table, node counter,
    geometry, limit and the pools are unchanged; the allocator either was not called at all (length limit) or logged one
    failed allocate of the documented size. -/
theorem string_copy_failure_is_clean {d : Doc} {s : List Byte} (hf : (d.saveString s).1 = none) :
    (d.saveString s).2.overflowed = true ∧ (d.saveString s).2.cells = d.cells ∧ (d.saveString s).2.root = d.root ∧
    (d.saveString s).2.strings = d.strings ∧ (d.saveString s).2.nextNode = d.nextNode ∧
    (d.saveString s).2.g = d.g ∧ (d.saveString s).2.maxStrLen = d.maxStrLen ∧
    (d.saveString s).2.pl.pools = d.pl.pools ∧ (d.saveString s).2.pl.free = d.pl.free ∧
    (d.saveString s).2.pl.tableCap = d.pl.tableCap ∧ (d.saveString s).2.pl.tableHeap = d.pl.tableHeap ∧
    ((d.maxStrLen < s.length ∧ (d.saveString s).2.pl = d.pl) ∨
     (s.length ≤ d.maxStrLen ∧ (d.saveString s).2.pl.calls = d.pl.calls + 1 ∧
      (d.saveString s).2.pl.log = s!"A{s.length + d.strOverhead}!" :: d.pl.log)) := by
  by_cases hlong : d.maxStrLen < s.length
  · obtain ⟨hnew, _⟩ := (string_copy_fails_iff d s).1 hf
    obtain ⟨_, _, a1, a2, _, _, a3, a4, a5, a6, a7, a8⟩ := string_length_limit_is_clean_edge d s hnew hlong
    exact ⟨a1, a4, a5, a3, a6, a7, a8, by rw [a2], by rw [a2], by rw [a2], by rw [a2], Or.inl ⟨hlong, a2⟩⟩
  · have hlen := Nat.le_of_not_lt hlong
    obtain ⟨a1, a2, a3, a4, a5, a6, a7, a8, a9, a10, a11, a12⟩ := string_copy_fails_cleanly hlen hf
    exact ⟨a1, a2, a3, a4, a5, a6, (DL.sameId_saveString d s).2.2.2, a7, a8, a9, a10, Or.inr ⟨hlen, a11, a12⟩⟩

/-- the flag does not influence the copy: with the flag set, `saveString` does the same and the flag stays set -/
theorem saveString_flagged (d : Doc) (t : List Byte) :
    ({ d with overflowed := true } : Doc).saveString t =
      ((d.saveString t).1, { (d.saveString t).2 with overflowed := true }) := by
  simp only [Doc.saveString]
  split
  · rfl
  · split
    · rfl
    · generalize d.pl.alloc (t.length + d.strOverhead) = q
      obtain ⟨ok, pl⟩ := q
      cases ok <;> rfl

/-- USABLE AFTER THE FAILURE. After a copy refused for its length the document stores strings exactly as before: any
    further copy gives the result it would have given without the failed attempt (same node, same allocator traffic, same
    table), only the sticky flag differs; in particular a new string within the limit is stored as soon as the allocator
    does not fail. -/
theorem usable_after_length_failure (d : Doc) (s t : List Byte) (hnew : ∀ x ∈ d.strings, x.bytes ≠ s)
    (hlong : d.maxStrLen < s.length) :
    ((d.saveString s).2.saveString t).1 = (d.saveString t).1 ∧
    ((d.saveString s).2.saveString t).2 = { (d.saveString t).2 with overflowed := true } ∧
    ((∀ x ∈ d.strings, x.bytes ≠ t) → t.length ≤ d.maxStrLen → d.pl.failsAt (d.pl.calls + 1) = false →
      ((d.saveString s).2.saveString t).1 = some d.nextNode) := by
  rw [saveString_long (find_none_of_new hnew) hlong, saveString_flagged]
  exact ⟨rfl, rfl, fun h1 h2 h3 => string_at_limit_succeeds d t h1 h2 h3⟩

/-- `set(copied string)` whose copy fails returns false with the overflow flag set; the document is well-formed, is
    the SAME abstract document, holds the same strings and the same live slots. -/
theorem copied_string_set_fails_cleanly {d : Doc} {F : Forest} {l : Loc} {s : List Byte} (w : WFG d F)
    (hs : StrOK d (d.strRefs F)) (hf : (d.saveString s).1 = none) :
    (d.setArg l (.strCopied s)).1 = false ∧ (d.setArg l (.strCopied s)).2.overflowed = true ∧
    WFG (d.setArg l (.strCopied s)).2 F ∧
    StrOK (d.setArg l (.strCopied s)).2 ((d.setArg l (.strCopied s)).2.strRefs F) ∧
    abs (d.setArg l (.strCopied s)).2 = abs d ∧ (d.setArg l (.strCopied s)).2.strings = d.strings ∧
    (∀ x, PL.live (d.setArg l (.strCopied s)).2.g (d.setArg l (.strCopied s)).2.pl x ↔ PL.live d.g d.pl x) := by
  generalize hal : d.saveString s = r at hf
  obtain ⟨m, d1⟩ := r
  simp only at hf; subst hf
  obtain ⟨hg, hov, hlv⟩ := saveString_none w.pool hal
  obtain ⟨a, b, c⟩ := wfg_of_grow w hs hg
  simp only [Doc.setArg, hal, hov]
  exact ⟨rfl, trivial, a, b, c, hg.strings, hlv⟩

/-- the same for a raw (pre-serialized) value -/
theorem raw_string_set_fails_cleanly {d : Doc} {F : Forest} {l : Loc} {s : List Byte} (w : WFG d F)
    (hs : StrOK d (d.strRefs F)) (hf : (d.saveString s).1 = none) :
    (d.setArg l (.raw s)).1 = false ∧ (d.setArg l (.raw s)).2.overflowed = true ∧
    WFG (d.setArg l (.raw s)).2 F ∧ StrOK (d.setArg l (.raw s)).2 ((d.setArg l (.raw s)).2.strRefs F) ∧
    abs (d.setArg l (.raw s)).2 = abs d := by
  generalize hal : d.saveString s = r at hf
  obtain ⟨m, d1⟩ := r
  simp only at hf; subst hf
  obtain ⟨hg, hov, _⟩ := saveString_none w.pool hal
  obtain ⟨a, b, c⟩ := wfg_of_grow w hs hg
  simp only [Doc.setArg, hal, hov]
  exact ⟨rfl, trivial, a, b, c⟩

/-! ## The length limit at the document level -/

/-- `set(copied string)` (`set` = `clear`, then `setArg` on the cleared location) with a new string beyond the limit:
    false, and the document is the old one with the flag set — no allocator call, same string table, every location
    (in particular the cleared target, which stays null) holds what it held; well-formed, same abstract document. -/
theorem copied_string_too_long_fails_cleanly {d : Doc} {F : Forest} {l : Loc} {s : List Byte} (w : WFG d F)
    (hs : StrOK d (d.strRefs F)) (hnew : ∀ x ∈ d.strings, x.bytes ≠ s) (hlong : d.maxStrLen < s.length) :
    (d.setArg l (.strCopied s)).1 = false ∧ (d.setArg l (.strCopied s)).2 = { d with overflowed := true } ∧
    (d.setArg l (.strCopied s)).2.overflowed = true ∧
    WFG (d.setArg l (.strCopied s)).2 F ∧
    StrOK (d.setArg l (.strCopied s)).2 ((d.setArg l (.strCopied s)).2.strRefs F) ∧
    abs (d.setArg l (.strCopied s)).2 = abs d ∧ (d.setArg l (.strCopied s)).2.pl = d.pl ∧
    (d.setArg l (.strCopied s)).2.strings = d.strings ∧
    (∀ l', (d.setArg l (.strCopied s)).2.get l' = d.get l') ∧
    (d.get l = .null → (d.setArg l (.strCopied s)).2.get l = .null) := by
  have e := saveString_long (find_none_of_new hnew) hlong
  obtain ⟨a, b, c, _⟩ := string_length_limit_keeps_invariants w hs hnew hlong
  rw [e] at a b c
  have e2 : d.setArg l (.strCopied s) = (false, { d with overflowed := true }) := by
    simp only [Doc.setArg, e]; rfl
  rw [e2]
  have hget : ∀ l', ({ d with overflowed := true } : Doc).get l' = d.get l' := fun l' => by cases l' <;> rfl
  exact ⟨rfl, rfl, rfl, a, b, c, rfl, rfl, hget, fun h => (hget l).trans h⟩

/-- the same for a raw (pre-serialized) value beyond the limit -/
theorem raw_string_too_long_fails_cleanly {d : Doc} {F : Forest} {l : Loc} {s : List Byte} (w : WFG d F)
    (hs : StrOK d (d.strRefs F)) (hnew : ∀ x ∈ d.strings, x.bytes ≠ s) (hlong : d.maxStrLen < s.length) :
    (d.setArg l (.raw s)).1 = false ∧ (d.setArg l (.raw s)).2 = { d with overflowed := true } ∧
    WFG (d.setArg l (.raw s)).2 F ∧ StrOK (d.setArg l (.raw s)).2 ((d.setArg l (.raw s)).2.strRefs F) ∧
    abs (d.setArg l (.raw s)).2 = abs d := by
  have e := saveString_long (find_none_of_new hnew) hlong
  obtain ⟨a, b, c, _⟩ := string_length_limit_keeps_invariants w hs hnew hlong
  rw [e] at a b c
  have e2 : d.setArg l (.raw s) = (false, { d with overflowed := true }) := by
    simp only [Doc.setArg, e]; rfl
  rw [e2]
  exact ⟨rfl, rfl, a, b, c⟩

/-- `addMember` with a new copied key beyond the limit reports failure (whether or not the two slots could be obtained) -/
theorem addMember_key_too_long (d : Doc) (l : Loc) (key : List Byte) (hnew : ∀ x ∈ d.strings, x.bytes ≠ key)
    (hlong : d.maxStrLen < key.length) : (d.addMember l key false).1 = none := by
  simp only [Doc.addMember]
  have h1s := (allocVariant_pl_s d).2
  have h1m := (sameId_allocVariant d).2.2.2
  generalize d.allocVariant = r1 at h1s h1m ⊢
  obtain ⟨m1, d1⟩ := r1
  simp only at h1s h1m
  cases m1 with
  | none => rfl
  | some k =>
    simp only
    have h2s := (allocVariant_pl_s d1).2
    have h2m := (sameId_allocVariant d1).2.2.2
    generalize d1.allocVariant = r2 at h2s h2m ⊢
    obtain ⟨m2, d2⟩ := r2
    simp only at h2s h2m
    cases m2 with
    | none => rfl
    | some v =>
      simp only [Bool.false_eq_true, if_false]
      rw [saveString_long (d := d2) (find_none_of_new (by rw [h2s, h1s]; exact hnew)) (by rw [h2m, h1m]; exact hlong)]

/-- `object[key]` with a new COPIED key beyond the limit, on an object that has no such member: `none`, flag set; the
    document is well-formed over the same forest, is the same abstract document and has the same string table and limit.
    (The slots obtained for the member before the key is copied stay allocated, in the model as in the library.) -/
theorem key_too_long_fails_cleanly {d : Doc} {F : Forest} {l : Loc} {h t : Nat} {key : List Byte} (w : WFG d F)
    (hs : StrOK d (d.strRefs F)) (gok : PL.GeoOK d.g) (hv : d.get l = .obj h t) (habs : d.findKey l key = none)
    (hnew : ∀ x ∈ d.strings, x.bytes ≠ key) (hlong : d.maxStrLen < key.length) :
    (d.getOrAddMember l key false).1 = none ∧ (d.getOrAddMember l key false).2.overflowed = true ∧
    WFG (d.getOrAddMember l key false).2 F ∧
    StrOK (d.getOrAddMember l key false).2 ((d.getOrAddMember l key false).2.strRefs F) ∧
    abs (d.getOrAddMember l key false).2 = abs d ∧ (d.getOrAddMember l key false).2.strings = d.strings ∧
    (d.getOrAddMember l key false).2.maxStrLen = d.maxStrLen := by
  rw [getOrAddMember_obj hv habs]
  have h1 := addMember_key_too_long d l key hnew hlong
  have hm := (sameId_addMember d l key false).2.2.2
  generalize hal : d.addMember l key false = r at h1 hm
  obtain ⟨m, d'⟩ := r
  simp only at h1 hm; subst h1
  obtain ⟨hg, ho⟩ := addMember_none gok w.pool hal
  obtain ⟨a, b, c⟩ := wfg_of_grow w hs hg
  exact ⟨rfl, ho, a, b, c, hg.strings, hm⟩

/-- the limit is a constant of the document: no operation of a history changes it (nor the allocator identity, the
    string overhead, the geometry) -/
theorem limit_constant_history {d d' : Doc} {F F' : Forest} (h : Hist d F d' F') : d'.maxStrLen = d.maxStrLen := by
  induction h with
  | nil d F => rfl
  | cons op _ _ ih =>
    refine ih.trans ?_
    cases op with
    | add l => exact (sameId_addElement _ l).2.2.2
    | clear l => exact (sameId_clearV _ l).2.2.2
    | put l a => exact (sameId_setArg _ l a).2.2.2

/-! ## Reference counts never wrap -/

theorem strOfV_length (v : VData) : (strOfV v).length ≤ 1 := by cases v <;> simp [strOfV]

theorem flatMap_length_le {α β : Type} (f : α → List β) (hf : ∀ a, (f a).length ≤ 1) :
    ∀ l : List α, (l.flatMap f).length ≤ l.length := by
  intro l
  induction l with
  | nil => simp
  | cons a l ih =>
    simp only [List.flatMap_cons, List.length_append, List.length_cons]
    have := hf a; omega

/-- a document holds at most as many string references as it has slots (one, when it is a single string) -/
theorem strRefs_length_le {d : Doc} {F : Forest} (w : WFG d F) : (d.strRefs F).length ≤ max 1 F.ids.length := by
  have hrest : ((F.ids.map Loc.slot).flatMap (fun l => strOfV (d.get l))).length ≤ F.ids.length := by
    have := flatMap_length_le (fun l => strOfV (d.get l)) (fun l => strOfV_length _) (F.ids.map Loc.slot)
    rwa [List.length_map] at this
  have hroot := strOfV_length d.root
  have hsplit : (d.strRefs F).length =
      (strOfV d.root).length + ((F.ids.map Loc.slot).flatMap (fun l => strOfV (d.get l))).length := by
    simp only [Doc.strRefs, holders, List.flatMap_cons, List.length_append]; rfl
  by_cases hF : F = .nil
  · subst hF
    rw [hsplit]
    simp only [Forest.ids, List.map_nil, List.flatMap_nil, List.length_nil]
    omega
  · obtain ⟨_, _, _, hc⟩ := VOK_coll_of_ne_nil w.root hF
    have : strOfV d.root = [] := by
      cases hv : d.root <;> rw [hv] at hc <;> first | rfl | exact absurd hc (fun h => h)
    rw [hsplit, this]
    simp only [List.length_nil]
    omega

theorem slots_le_live {d : Doc} {F : Forest} (w : WFG d F) : F.ids.length ≤ (PL.liveIds d.g d.pl).length :=
  List.Nodup.length_le_of_subset w.nodup (fun x hx => (PL.mem_liveIds d.g d.pl x).2 (w.live x hx))

/-- In a well-formed document with exact counts, every reference counter is at most the number of live slots (or 1,
    for a document that is a single string), which is at most `nullSlot = 2^(8·idBytes) − 1`: the counter, which has
    the width of a slot id, never wraps. (`1 ≤ idBytes`: with 0-byte ids `nullSlot = 0` and nothing can be stored.) -/
theorem refcount_never_wraps {d : Doc} {F : Forest} (w : WFG d F) (hs : StrOK d (d.strRefs F))
    (he : Exact d (d.strRefs F)) :
    ∀ n ∈ d.strings, n.refs ≤ max 1 (PL.liveIds d.g d.pl).length ∧ (PL.liveIds d.g d.pl).length ≤ d.g.nullSlot ∧
      (1 ≤ d.g.idBytes → n.refs ≤ d.g.nullSlot ∧ n.refs < 2 ^ (8 * d.g.idBytes)) := by
  intro n hn
  have _ := hs
  have h1 : n.refs ≤ (d.strRefs F).length := by rw [(he n hn).1]; exact List.count_le_length
  have h2 := strRefs_length_le w
  have h3 := slots_le_live w
  have h4 := w.pool.liveIds_length_le
  refine ⟨by omega, h4, fun hb => ?_⟩
  have hW : 2 ^ (8 * 1) ≤ 2 ^ (8 * d.g.idBytes) := Nat.pow_le_pow_right (by decide) (by omega)
  have hlt := d.g.nullSlot_lt
  have hnull : d.g.nullSlot + 1 = 2 ^ (8 * d.g.idBytes) := by
    have := d.g.width_pos; unfold PL.Geo.nullSlot; omega
  have : (2 : Nat) ^ (8 * 1) = 256 := by decide
  omega

/-- … for every document reachable by a history of `add` / `clear` / `put` from a document satisfying the invariants
    (`C06.Good`; e.g. a fresh one): after every operation — in particular after every increment done by storing an
    equal string — all counters fit the counter width. -/
theorem refcount_never_wraps_history {d d' : Doc} {F F' : Forest} (h : Hist d F d' F') (w : WFG d F)
    (hs : StrOK d (d.strRefs F)) (gok : PL.GeoOK d.g) (g : C06.Good d F) (hb : 1 ≤ d.g.idBytes) :
    ∀ n ∈ d'.strings, n.refs ≤ max 1 (PL.liveIds d'.g d'.pl).length ∧ n.refs < 2 ^ (8 * d'.g.idBytes) := by
  obtain ⟨w', s', hg⟩ := C04.history_refines h w hs gok
  have g' := C06.history_good h w hs gok g
  intro n hn
  obtain ⟨a, _, c⟩ := refcount_never_wraps w' s' g'.exact n hn
  exact ⟨a, (c (by rw [hg]; exact hb)).2⟩

/-- slot identifiers of a reachable document: distinct, below the null id, at most `nullSlot` of them -/
theorem slot_ids_never_wrap_history {d d' : Doc} {F F' : Forest} (h : Hist d F d' F') (w : WFG d F)
    (hs : StrOK d (d.strRefs F)) (gok : PL.GeoOK d.g) :
    F'.ids.Nodup ∧ (∀ i ∈ F'.ids, i < d'.g.nullSlot) ∧ F'.ids.length ≤ d'.g.nullSlot := by
  obtain ⟨w', _, _⟩ := C04.history_refines h w hs gok
  exact ⟨w'.nodup, w'.lt, Nat.le_trans (slots_le_live w') w'.pool.liveIds_length_le⟩

/-! ## Non-vacuity -/
namespace StrEx
open C04.Ex C04.Ex2 C06.Ex

/-- allocator failing from its first call on -/
def e4f : Doc := { e4 with pl := { e4.pl with failFrom := some 1 } }
theorem w4f : WFG e4f F3 := by
  obtain ⟨a, _, _⟩ := wfg_frame (d' := e4f) w4 rfl rfl (fun _ _ => rfl)
    (fun l0 h0 e he => ⟨rfl, (w4.ext l0 h0 e he).2.1⟩)
    (w4.pool.congr rfl rfl rfl rfl) (fun x hx => w4.live x hx) (StrOK_congr (d := e4) rfl rfl s4) (fun _ _ => rfl)
  exact a
theorem s4f : StrOK e4f (e4f.strRefs F3) := ⟨by decide +kernel, by decide +kernel, by decide +kernel, by decide +kernel⟩

/-! the length limit: `["hi"]` resp. `[null]` resp. `{}` with `maxStrLen := 3` -/
def e4m : Doc := { e4 with maxStrLen := 3 }
theorem w4m : WFG e4m F3 := by
  obtain ⟨a, _, _⟩ := wfg_frame (d' := e4m) w4 rfl rfl (fun _ _ => rfl)
    (fun l0 h0 e he => ⟨rfl, (w4.ext l0 h0 e he).2.1⟩)
    (w4.pool.congr rfl rfl rfl rfl) (fun x hx => w4.live x hx) (StrOK_congr (d := e4) rfl rfl s4) (fun _ _ => rfl)
  exact a
theorem s4m : StrOK e4m (e4m.strRefs F3) := ⟨by decide +kernel, by decide +kernel, by decide +kernel, by decide +kernel⟩
def abcd : List Byte := [0x61, 0x62, 0x63, 0x64]
def abc : List Byte := [0x61, 0x62, 0x63]

/-- 4 bytes with the limit 3: refused, the document is `e4m` with the flag set, the allocator log did not move -/
example : (e4m.saveString abcd).1 = none ∧ (e4m.saveString abcd).2 = { e4m with overflowed := true } ∧
    (e4m.saveString abcd).2.pl.log = e4m.pl.log ∧ (e4m.saveString abcd).2.pl.calls = e4m.pl.calls := by
  obtain ⟨a, b, _, _, c, e, _⟩ := string_length_limit_is_clean_edge e4m abcd (by decide +kernel) (by decide +kernel)
  exact ⟨a, b, c, e⟩
example : (e4m.saveString abcd).1 = none := by decide +kernel
example : WFG (e4m.saveString abcd).2 F3 ∧ abs (e4m.saveString abcd).2 = abs e4m := by
  obtain ⟨a, _, c, _⟩ := string_length_limit_keeps_invariants w4m s4m (s := abcd) (by decide +kernel) (by decide +kernel)
  exact ⟨a, c⟩
/-- 3 bytes with the limit 3: stored -/
example : (e4m.saveString abc).1 = some 1 :=
  string_at_limit_succeeds e4m abc (by decide +kernel) (by decide +kernel) (by decide +kernel)
example : (e4m.saveString abc).1 = some 1 := by decide +kernel
/-- … also after the refusal of the 4 bytes -/
example : ((e4m.saveString abcd).2.saveString abc).1 = some 1 :=
  (usable_after_length_failure e4m abcd abc (by decide +kernel) (by decide +kernel)).2.2
    (by decide +kernel) (by decide +kernel) (by decide +kernel)
example : ((e4m.saveString abcd).2.saveString abc).1 = some 1 := by decide +kernel
/-- with the default limit 65535 a 300-byte string is stored -/
example : (e4.saveString (List.replicate 300 0x61)).1 = some 1 :=
  string_at_limit_succeeds e4 _ (by decide +kernel) (by decide +kernel) (by decide +kernel)
/-- the two causes: `string_copy_fails_iff` on the too-long string -/
example : (∀ x ∈ e4m.strings, x.bytes ≠ abcd) ∧
    (e4m.maxStrLen < abcd.length ∨ e4m.pl.failsAt (e4m.pl.calls + 1) = true) :=
  (string_copy_fails_iff e4m abcd).1 (by decide +kernel)

/-- `limit_constant_history` on the history that builds `["hi","hi"]`: the limit is still the one of the start -/
example : d4.maxStrLen = e1.maxStrLen := limit_constant_history hist4

/-- `[null]` with the limit 3: `set("abcd")` on element 0 fails, the element stays null, the value is `[null]` -/
def e3m : Doc := { e3 with maxStrLen := 3 }
theorem w3m : WFG e3m F3 ∧ abs e3m = abs e3 := by
  obtain ⟨a, _, c⟩ := wfg_frame (d' := e3m) w3.1 rfl rfl (fun _ _ => rfl)
    (fun l0 h0 e he => ⟨rfl, (w3.1.ext l0 h0 e he).2.1⟩)
    (w3.1.pool.congr rfl rfl rfl rfl) (fun x hx => w3.1.live x hx) (StrOK_congr (d := e3) rfl rfl s3) (fun _ _ => rfl)
  exact ⟨a, c⟩
theorem s3m : StrOK e3m (e3m.strRefs F3) := ⟨by decide +kernel, by decide +kernel, by decide +kernel, by decide +kernel⟩
example : (e3m.setArg (.slot 0) (.strCopied abcd)).1 = false ∧
    (e3m.setArg (.slot 0) (.strCopied abcd)).2.overflowed = true ∧
    abs (e3m.setArg (.slot 0) (.strCopied abcd)).2 = .arr [.null] ∧
    (e3m.setArg (.slot 0) (.strCopied abcd)).2.pl = e3m.pl ∧
    (e3m.setArg (.slot 0) (.strCopied abcd)).2.get (.slot 0) = .null := by
  obtain ⟨a, _, b, _, _, c, e, _, _, f⟩ :=
    copied_string_too_long_fails_cleanly (l := .slot 0) w3m.1 s3m (s := abcd) (by decide +kernel) (by decide +kernel)
  refine ⟨a, b, ?_, e, f (by decide +kernel)⟩
  rw [c, w3m.2]; exact w3.2
example : (e3m.setArg (.slot 0) (.strCopied abcd)).1 = false := by decide +kernel
example : (e3m.setArg (.slot 0) (.strCopied abc)).1 = true := by decide +kernel

/-- `{}` with the limit 3: `obj["abcd"]` (copied key) fails cleanly, `obj["abc"]` adds the member -/
def eom : Doc := ({ g := g0, alloc := 0, pl := PL.init g0, maxStrLen := 3 } : Doc).set .root (.obj 255 255)
theorem wom : WFG eom .nil := by
  refine ⟨⟨rfl, rfl⟩, List.nodup_nil, fun i hi => (by cases hi), PL.init_inv gok [], fun i hi => (by cases hi), ?_⟩
  intro l hl e he
  rcases mem_holders.1 hl with h | ⟨j, hj, _⟩
  · subst h; cases he
  · cases hj
theorem som : StrOK eom (eom.strRefs .nil) := ⟨by decide +kernel, by decide +kernel, by decide +kernel, by decide +kernel⟩
example : (eom.getOrAddMember .root abcd false).1 = none ∧ (eom.getOrAddMember .root abcd false).2.overflowed = true ∧
    WFG (eom.getOrAddMember .root abcd false).2 .nil ∧ abs (eom.getOrAddMember .root abcd false).2 = abs eom ∧
    (eom.getOrAddMember .root abcd false).2.strings = [] := by
  obtain ⟨a, b, c, _, e, f, _⟩ := key_too_long_fails_cleanly (l := .root) (h := 255) (t := 255) (key := abcd) wom som gok rfl
    (by decide +kernel) (by decide +kernel) (by decide +kernel)
  exact ⟨a, b, c, e, f⟩
example : (eom.getOrAddMember .root abcd false).1 = none := by decide +kernel
example : (eom.getOrAddMember .root abc false).1 = some 1 := by decide +kernel
/-- a LINKED key is not copied, so its length does not matter -/
example : (eom.getOrAddMember .root abcd true).1 = some 1 := by decide +kernel

/-- `string_copy_fails_cleanly` / `copied_string_set_fails_cleanly` on `["hi"]` with a failing allocator -/
example : (e4f.saveString [0x61]).1 = none := by decide +kernel
example : (e4f.saveString [0x61]).2.overflowed = true ∧ (e4f.saveString [0x61]).2.strings = e4f.strings ∧
    (e4f.saveString [0x61]).2.pl.log = s!"A{1 + 15}!" :: e4f.pl.log := by
  obtain ⟨a, _, _, b, _, _, _, _, _, _, _, c⟩ := string_copy_fails_cleanly (d := e4f) (s := [0x61]) (by decide +kernel) (by decide +kernel)
  exact ⟨a, b, c⟩
example : (e4f.setArg (.slot 0) (.strCopied [0x61])).1 = false ∧
    abs (e4f.setArg (.slot 0) (.strCopied [0x61])).2 = abs e4f := by
  obtain ⟨a, _, _, _, b, _⟩ := copied_string_set_fails_cleanly (l := .slot 0) w4f s4f (s := [0x61]) (by decide +kernel)
  exact ⟨a, b⟩
/-- … whereas an equal string needs no allocation and succeeds even then -/
example : (e4f.saveString hi).1 = some 0 := by decide +kernel

/-- `refcount_never_wraps` on `["hi","hi"]`: the counter 2 is at most the number of live slots -/
example : ∀ n ∈ d4.strings, n.refs ≤ max 1 (PL.liveIds d4.g d4.pl).length ∧ n.refs < 2 ^ (8 * d4.g.idBytes) :=
  refcount_never_wraps_history hist4 w1 s1 gok g1 (by decide)
example : ∀ n ∈ e4.strings, n.refs ≤ max 1 (PL.liveIds e4.g e4.pl).length :=
  fun n hn => (refcount_never_wraps w4 s4 x4 n hn).1
example : F3b.ids.Nodup ∧ (∀ i ∈ F3b.ids, i < d4.g.nullSlot) ∧ F3b.ids.length ≤ d4.g.nullSlot :=
  slot_ids_never_wrap_history hist4 w1 s1 gok

/-- `StrOK` alone does not bound the counters: an (unreachable) well-formed document whose only node claims 1000
    references although nothing refers to it satisfies `WFG` and `StrOK`, and 1000 does not fit one byte -/
def eX : Doc := { e1 with strings := [⟨0, [], 1000⟩], nextNode := 1 }
theorem refcount_needs_exact : WFG eX .nil ∧ StrOK eX (eX.strRefs .nil) ∧
    ∃ n ∈ eX.strings, ¬ n.refs < 2 ^ (8 * eX.g.idBytes) :=
  ⟨wfg_empty_arr rfl (PL.init_inv gok []),
   ⟨by decide +kernel, by decide +kernel, by decide +kernel, by decide +kernel⟩,
   ⟨0, [], 1000⟩, by decide +kernel, by decide +kernel⟩

end StrEx
end C19
