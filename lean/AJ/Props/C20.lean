/- C20 — Distinct documents can be used from distinct threads without synchronisation.
   Two parts.
   (1) The library keeps no mutable state outside the documents: the inventory of every object with static storage duration
       defined by ArduinoJson code is regenerated from the object code on every run (tools/gen_statics.py → AJ/Gen/Statics.lean)
       and `statics_ok` is re-checked against it: every such object is in a read-only section or on a justified allow-list.
   (2) Given (1), an operation on document i is a function of that document (and of read-only data) alone; then every
       interleaving of per-thread operation lists over pairwise distinct documents gives each thread the outputs and the final
       document of its sequential run (`interleaving_sequential`), for any step function — in particular for the document
       machine of AJ/Model. Data races on memory the model does not describe and the thread-safety of malloc are observed with
       the thread harness (TSan in the thorough tier), not proved. -/
import AJ.Gen.Statics
namespace C20

/-- Objects allowed in a writable section, each justified:
    * `DefaultAllocator::instance()::allocator`: an object without data members (only a vtable pointer written once by the
      dynamic loader / constant initialisation); its member functions forward to malloc/free/realloc.
    * `DeserializationError::c_str() const::messages`: a `const char* const[]` table of pointers to string literals; it lies in
      `.data.rel.ro` only because it needs relocation, and it is never assigned. -/
def allowList : List String :=
  ["ArduinoJson::detail::DefaultAllocator::instance()::allocator", "ArduinoJson::DeserializationError::c_str() const::messages"]

/-- every static object of the library is read-only or on the allow-list -/
theorem statics_ok : ∀ s ∈ Gen.statics, s.2 = false ∨ s.1 ∈ allowList := by decide

/-! ## interleavings over disjoint documents -/
section
variable {D Op Out : Type}

/-- the system: one document per thread index -/
def upd (σ : Nat → D) (i : Nat) (d : D) : Nat → D := fun j => if j = i then d else σ j

/-- run a schedule (thread index, operation): thread `i` operates on document `i` only; `step` may read any fixed global data
    (it is a parameter), but has no other state -/
def runSched (step : D → Op → D × Out) : (Nat → D) → List (Nat × Op) → (Nat → D) × List (Nat × Out)
  | σ, [] => (σ, [])
  | σ, (i, op) :: rest =>
    let r := step (σ i) op
    let (σ', outs) := runSched step (upd σ i r.1) rest
    (σ', (i, r.2) :: outs)

/-- the sequential run of one thread's operations on its own document -/
def runSeq (step : D → Op → D × Out) : D → List Op → D × List Out
  | d, [] => (d, [])
  | d, op :: rest =>
    let r := step d op
    let (d', outs) := runSeq step r.1 rest
    (d', r.2 :: outs)

def opsOf (i : Nat) (sched : List (Nat × Op)) : List Op := (sched.filter (fun p => p.1 == i)).map (·.2)
def outsOf (i : Nat) (outs : List (Nat × Out)) : List Out := (outs.filter (fun p => p.1 == i)).map (·.2)

/-- Every interleaving behaves, for each thread, exactly like that thread's sequential run: same final document, same outputs in order. -/
theorem interleaving_sequential (step : D → Op → D × Out) (sched : List (Nat × Op)) (σ : Nat → D) (i : Nat) :
    (runSched step σ sched).1 i = (runSeq step (σ i) (opsOf i sched)).1 ∧
    outsOf i (runSched step σ sched).2 = (runSeq step (σ i) (opsOf i sched)).2 := by
  induction sched generalizing σ with
  | nil => simp [runSched, runSeq, opsOf, outsOf]
  | cons hd rest ih =>
    obtain ⟨j, op⟩ := hd
    simp only [runSched]
    have ih' := ih (upd σ j (step (σ j) op).1)
    generalize hr : runSched step (upd σ j (step (σ j) op).1) rest = r at ih'
    obtain ⟨σ', outs⟩ := r
    simp only at ih' ⊢
    by_cases hji : j = i
    · subst hji
      have hu : upd σ j (step (σ j) op).1 j = (step (σ j) op).1 := by simp [upd]
      rw [hu] at ih'
      simp only [opsOf, outsOf, List.filter_cons, beq_self_eq_true, ↓reduceIte, List.map_cons, runSeq] at ih' ⊢
      generalize hs : runSeq step (step (σ j) op).1 (List.map (fun x => x.2) (List.filter (fun p => p.1 == j) rest)) = s at ih'
      obtain ⟨d', os⟩ := s
      simp only at ih' ⊢
      exact ⟨ih'.1, by rw [ih'.2]⟩
    · have hu : upd σ j (step (σ j) op).1 i = σ i := by simp [upd, Ne.symm hji]
      rw [hu] at ih'
      have hb : (j == i) = false := by simpa using hji
      simp only [opsOf, outsOf, List.filter_cons, hb, Bool.false_eq_true, ↓reduceIte] at ih' ⊢
      exact ih'

/-- a thread's result does not depend on what the other threads do -/
theorem other_threads_irrelevant (step : D → Op → D × Out) (s1 s2 : List (Nat × Op)) (σ : Nat → D) (i : Nat)
    (h : opsOf i s1 = opsOf i s2) :
    (runSched step σ s1).1 i = (runSched step σ s2).1 i ∧ outsOf i (runSched step σ s1).2 = outsOf i (runSched step σ s2).2 := by
  have a := interleaving_sequential step s1 σ i
  have b := interleaving_sequential step s2 σ i
  rw [h] at a
  exact ⟨a.1.trans b.1.symm, a.2.trans b.2.symm⟩
end

-- non-vacuity: two threads appending to their own counters, interleaved
example : (runSched (fun (d : Nat) (op : Nat) => (d + op, d)) (fun _ => 0) [(0, 1), (1, 10), (0, 2), (1, 20)]).1 0 = 3 := by decide
example : (Gen.statics.filter (·.2)).length = 2 := by decide
end C20
