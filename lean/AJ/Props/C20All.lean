/- Aggregate: C20 static inventory and generic interleaving (C20.lean), frame/commutation/interleaving on the history interpreter (C20Hist.lean). -/
import AJ.Props.C20
import AJ.Props.C20Hist
