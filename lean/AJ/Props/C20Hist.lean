/- C20, THE LINK TO THE MODEL OF THE API: operations on distinct documents commute, on the history interpreter itself.

   AJ/Props/C20.lean proves the generic statement (for ANY step function over per-thread states every interleaving gives
   each thread its sequential result) and the read-only inventory of static objects. What was missing is that the modelled
   operations really are of that shape. The world in which several documents and references into them live is the one of
   the history interpreter `DH.step : DH.W → List String → String × DH.W` (AJ/Model/DH.lean: an array of documents, an
   array of references `⟨document, location⟩`, validated against the C++ by differential testing); the typed operations
   `C04.Op`, `C04.Op2`, `C04.OpD` of AJ/Props/C04Hist.lean, C04Rem.lean, AJ/Lemmas/HistDeser.lean are single-document
   functions `Doc → Doc` and are lifted to the same world here (`WOp`).

   1. FOOTPRINT AND FRAME. `Cmd` (AJ/Lemmas/HistFrameCmd4.lean) types 36 commands of the interpreter; `Cmd.fp c` is the
      footprint of `c`: the documents it may write / reads - through the CURRENT binding of the references it goes
      through -, the references it reads / rebinds. `step_frame`: a step leaves every document outside its write set and
      every reference it does not rebind LITERALLY unchanged, and adds nothing to the world log, the ghost table, the
      geometry. `step_reads_only_footprint`: its output, the new contents of what it writes and its footprint are
      functions of the documents it reads and the references it uses alone.
   2. `ops_on_distinct_documents_commute`: two commands with disjoint footprints commute - same world, same two outputs.
   3. `interleaving_of_document_histories`: two histories, each confined to its own documents and references (statically:
      `Cmd.In`; or along its solo run: `interleaving_of_confined_histories`): EVERY interleaving ends in the world reached
      by running one after the other, and each history sees the outputs of its solo run.
   4. `shared_const_source`: deep copies FROM a common third document (or through a common reference) into two distinct
      documents, and reads of it, commute; at the level of histories this is the region `S` of 3.
   5. The typed layer `WOp` over `C04.OpD` (`wops_on_distinct_documents_commute`, `WOp.keeps_wf`), and examples.

   WHAT DOES NOT COMMUTE, by construction of the interpreter (not of the library): `copydoc` moves the allocator logs of
   ALL THREE documents into the world log `W.log` (`W.flush`), so it writes every document's `pl.log` and orders the
   world log (`copydoc_log`); `liveq` updates the ghost table `W.dead`; `reset`, `geo` replace the world. These four are
   not given a footprint. Every other command leaves `W.log` and `W.dead` alone (`step_frame`), so for them equality of
   worlds is plain equality - no "up to the log" is needed. The per-document allocator log `Doc.pl.log` is part of the
   document it belongs to and needs no special treatment. -/
import AJ.Lemmas.HistFrameCmd5
import AJ.Lemmas.HistDeser
import AJ.Props.C04DocCopy
namespace C20
open DL
open DH (W Ref)
open JD (Byte Val)

/-! ## 1. Footprint and frame -/

/-- the documents a command may write, as a list (the document its reference is bound to; the named document; both
    documents of a swap; none for the reads and the navigation without creation) -/
def Cmd.targets (w : W) : Cmd → List Nat
  | .memw _ r2 _ _ | .elemw _ r2 _ | .addv _ r2 | .toarr _ r2 | .toobj _ r2 => (w.refs[r2.toNat!]!).doc.toList
  | .clear r | .remi r _ | .remk r _ | .deserj r _ _ | .deserm r _ _ => (w.refs[r.toNat!]!).doc.toList
  | .set r _ _ _ | .setm r _ _ _ _ _ | .sete r _ _ _ _ | .add r _ _ _ => (w.refs[r.toNat!]!).doc.toList
  | .setDoc r _ | .setmDoc r _ _ _ | .seteDoc r _ _ | .addDoc r _ => (w.refs[r.toNat!]!).doc.toList
  | .setRef r _ | .setmRef r _ _ _ | .seteRef r _ _ | .addRef r _ => (w.refs[r.toNat!]!).doc.toList
  | .cleardoc d | .shrink d | .failat d _ | .failfrom d _ | .nofail d => [d.toNat!]
  | .swapdoc d e => [d.toNat!, e.toNat!]
  | _ => []

theorem docOf_iff_mem (s : Ref) (j : Nat) : docOf s j ↔ j ∈ s.doc.toList := by
  obtain ⟨_ | di, sl⟩ := s
  · exact ⟨fun h => (by cases h), fun h => (by cases h)⟩
  · exact ⟨fun h => (by cases h; exact List.mem_singleton.2 rfl), fun h => (by cases List.mem_singleton.1 h; rfl)⟩

/-- the write set of the footprint is the list of targets -/
theorem Cmd.wr_iff_targets (c : Cmd) (w : W) (j : Nat) : c.fp.wr w j ↔ j ∈ c.targets w := by
  cases c <;> first
    | exact docOf_iff_mem _ j
    | exact ⟨fun h => h.elim, fun h => (by cases h)⟩
    | exact ⟨fun h => List.mem_singleton.2 h, fun h => List.mem_singleton.1 h⟩
    | exact ⟨fun h => h.elim (fun h => h ▸ List.mem_cons_self) (fun h => h ▸ List.mem_cons_of_mem _ List.mem_cons_self),
        fun h => by
          rcases List.mem_cons.1 h with h | h
          · exact Or.inl h
          · exact Or.inr (List.mem_singleton.1 h)⟩

/-- **FRAME.** A step of the interpreter leaves every document that is not a target of the command literally unchanged,
    every reference the command does not rebind literally unchanged, and does not touch the world log, the ghost table,
    the geometry, the string overhead, the string-length limit: `w'.docs[j] = w.docs[j]` for `j ∉ targets`. -/
theorem step_frame (c : Cmd) (w : W) :
    (∀ j, j ∉ c.targets w → (DH.step w c.render).2.docs[j]? = w.docs[j]? ∧ (DH.step w c.render).2.docs[j]! = w.docs[j]!) ∧
    (∀ r, ¬ c.fp.bind r → (DH.step w c.render).2.refs[r]? = w.refs[r]? ∧ (DH.step w c.render).2.refs[r]! = w.refs[r]!) ∧
    (DH.step w c.render).2.log = w.log ∧ (DH.step w c.render).2.dead = w.dead ∧ (DH.step w c.render).2.geo = w.geo ∧
    (DH.step w c.render).2.strOverhead = w.strOverhead ∧ (DH.step w c.render).2.maxStrLen = w.maxStrLen := by
  refine ⟨fun j hj => ?_, fun r hr => ?_, c.local.frame_rest w⟩
  · have h := c.local.frame_docs w j (fun h => hj ((c.wr_iff_targets w j).1 h))
    exact ⟨h, docs_bang_congr h⟩
  · have h := c.local.frame_refs w r hr
    exact ⟨h, refs_bang_congr h⟩

/-- **LOCALITY.** The output of a step, the new contents of the documents it writes and of the references it rebinds,
    and its footprint, depend only on the documents it reads and the references it uses: two worlds that agree there give
    the same output and the same new contents - whatever else the worlds contain. -/
theorem step_reads_only_footprint (c : Cmd) (w w' : W) (h : c.fp.Agree w w') :
    (DH.step w c.render).1 = (DH.step w' c.render).1 ∧
    (∀ j, j ∈ c.targets w → (DH.step w c.render).2.docs[j]? = (DH.step w' c.render).2.docs[j]?) ∧
    (∀ r, c.fp.bind r → (DH.step w c.render).2.refs[r]? = (DH.step w' c.render).2.refs[r]?) ∧
    (∀ j, j ∈ c.targets w ↔ j ∈ c.targets w') ∧ (∀ j, c.fp.rd w j ↔ c.fp.rd w' j) := by
  obtain ⟨a, b, d, e, f⟩ := c.local.loc w w' h
  exact ⟨a, fun j hj => b j ((c.wr_iff_targets w j).2 hj), d,
    fun j => by rw [← c.wr_iff_targets, ← c.wr_iff_targets]; exact e j, f⟩

/-! ## 2. Commutation -/

/-- two footprints inside disjoint regions (sharing at most a region both only read) are disjoint -/
theorem FP.Within.disjoint {p q : FP} {A B S : Region} {w : W} (hp : p.Within A S w) (hq : q.Within B S w)
    (hAB : A.Disj B) (hAS : A.Disj S) (hBS : B.Disj S) : p.Disjoint q w :=
  ⟨fun j h h' => (hq.rd j h').elim (hAB.1 j (hp.wr j h)) (hAS.1 j (hp.wr j h)),
   fun j h h' => (hp.rd j h').elim (fun x => hAB.1 j x (hq.wr j h)) (hBS.1 j (hq.wr j h)),
   fun r h h' => (hq.use r h').elim (hAB.2 r (hp.bind r h)) (hAS.2 r (hp.bind r h)),
   fun r h h' => (hp.use r h').elim (fun x => hAB.2 r x (hq.bind r h)) (hBS.2 r (hq.bind r h))⟩

/-- **Operations on distinct documents commute.** Two commands whose footprints are disjoint at `w` - different target
    documents, neither reads a target of the other, neither uses a reference the other rebinds - can be run in either
    order: the final worlds are EQUAL, and each command gives the output it gives when it runs first. -/
theorem ops_on_distinct_documents_commute (a b : Cmd) (w : W) (hd : a.fp.Disjoint b.fp w) :
    (DH.step (DH.step w a.render).2 b.render).2 = (DH.step (DH.step w b.render).2 a.render).2 ∧
    (DH.step (DH.step w a.render).2 b.render).1 = (DH.step w b.render).1 ∧
    (DH.step (DH.step w b.render).2 a.render).1 = (DH.step w a.render).1 :=
  Local.commute a.local b.local w hd

/-- the same from the texts of the commands: `a` names references and documents of region `A`, `b` of region `B`, the
    regions are disjoint, and the references are bound inside their regions -/
theorem ops_in_disjoint_regions_commute {A B S : Region} (hAB : A.Disj B) (hAS : A.Disj S) (hBS : B.Disj S)
    (a b : Cmd) (w : W) (ha : a.In A S) (hb : b.In B S) (iA : RefsInto A S w) (iB : RefsInto B S w) :
    (DH.step (DH.step w a.render).2 b.render).2 = (DH.step (DH.step w b.render).2 a.render).2 ∧
    (DH.step (DH.step w a.render).2 b.render).1 = (DH.step w b.render).1 ∧
    (DH.step (DH.step w b.render).2 a.render).1 = (DH.step w a.render).1 :=
  ops_on_distinct_documents_commute a b w
    ((Cmd.within_of_in ha iA).disjoint (Cmd.within_of_in hb iB) hAB hAS hBS)

/-- two mutations through references bound to different documents commute (the simplest instance) -/
theorem mutations_through_distinct_references_commute (a b : Cmd) (r r' : Nat) (ha : a.fp = fpMut r) (hb : b.fp = fpMut r')
    (w : W) (hdoc : ∀ j, (w.refs[r]!).doc = some j → (w.refs[r']!).doc ≠ some j) :
    (DH.step (DH.step w a.render).2 b.render).2 = (DH.step (DH.step w b.render).2 a.render).2 := by
  refine (ops_on_distinct_documents_commute a b w ?_).1
  rw [ha, hb]
  exact ⟨fun j h h' => h'.elim (fun x => hdoc j h x) (fun x => x.elim),
    fun j h h' => h'.elim (fun x => hdoc j x h) (fun x => x.elim), fun _ h => h.elim, fun _ h => h.elim⟩

/-! ## 3. Interleavings -/

/-- sequential run of a list of commands: final world, outputs in order -/
def runCmds (h : List Cmd) (w : W) : W × List String := runHist (h.map Cmd.lstep) w
/-- run of a schedule of commands tagged with the history (`true` / `false`) they belong to -/
def runTagged (s : List (Bool × Cmd)) (w : W) : W × List (Bool × String) :=
  runInter (s.map (fun x => (x.1, x.2.lstep))) w

theorem runCmds_nil (w : W) : runCmds [] w = (w, []) := rfl
theorem runCmds_cons (c : Cmd) (h : List Cmd) (w : W) :
    runCmds (c :: h) w =
      ((runCmds h (DH.step w c.render).2).1, (DH.step w c.render).1 :: (runCmds h (DH.step w c.render).2).2) := rfl
theorem runTagged_nil (w : W) : runTagged [] w = (w, []) := rfl
theorem runTagged_cons (b : Bool) (c : Cmd) (s : List (Bool × Cmd)) (w : W) :
    runTagged ((b, c) :: s) w =
      ((runTagged s (DH.step w c.render).2).1, (b, (DH.step w c.render).1) :: (runTagged s (DH.step w c.render).2).2) := rfl

theorem sideOf_map {α β : Type} (f : α → β) (b : Bool) : ∀ (l : List (Bool × α)),
    sideOf b (l.map (fun x => (x.1, f x.2))) = (sideOf b l).map f
  | [] => rfl
  | (b', x) :: l => by
    have ih := sideOf_map f b l
    by_cases h : b' = b
    · subst h
      rw [List.map_cons, sideOf_cons_self, sideOf_cons_self, List.map_cons, ih]
    · have e : b = !b' := by cases b <;> cases b' <;> simp_all
      rw [e] at ih ⊢
      rw [List.map_cons, sideOf_cons_other, sideOf_cons_other, ih]

/-- **Interleaving, histories confined along their solo runs.** `A`, `B`, `S` pairwise disjoint regions. If the history
    tagged `true`, run alone from `w`, keeps its footprint inside `A` (reading `S`) at every step, and the history tagged
    `false` inside `B` (reading `S`), then EVERY schedule of the two ends in the world reached by running the first
    history and then the second, each history gets the outputs of its solo run from `w`, and these are also the outputs
    the second history gets when it runs after the first. -/
theorem interleaving_of_confined_histories {A B S : Region} (hAB : A.Disj B) (hAS : A.Disj S) (hBS : B.Disj S)
    (sched : List (Bool × Cmd)) (w : W)
    (cA : Confined A S ((sideOf true sched).map Cmd.lstep) w) (cB : Confined B S ((sideOf false sched).map Cmd.lstep) w) :
    (runTagged sched w).1 = (runCmds (sideOf false sched) (runCmds (sideOf true sched) w).1).1 ∧
    sideOf true (runTagged sched w).2 = (runCmds (sideOf true sched) w).2 ∧
    sideOf false (runTagged sched w).2 = (runCmds (sideOf false sched) w).2 ∧
    (runCmds (sideOf false sched) (runCmds (sideOf true sched) w).1).2 = (runCmds (sideOf false sched) w).2 := by
  have h := inter_seq hAB hAS hBS (sched.map (fun x => (x.1, x.2.lstep))) w
    (by rw [sideOf_map]; exact cA) (by rw [sideOf_map]; exact cB)
  rw [sideOf_map, sideOf_map] at h
  exact h

/-- **Interleaving of document histories.** `A`, `B`, `S` pairwise disjoint regions (sets of documents and of
    references). Every command of the first history names only references and documents of `A`, every command of the
    second only those of `B` (sources of deep copies and of reads may be in `S`); initially the references of each region
    are bound inside it. Then EVERY interleaving of the two histories ends in the SAME world as running the first history
    and then the second, and each history sees exactly the outputs of its solo run. -/
theorem interleaving_of_document_histories {A B S : Region} (hAB : A.Disj B) (hAS : A.Disj S) (hBS : B.Disj S)
    (sched : List (Bool × Cmd)) (w : W)
    (hA : ∀ c ∈ sideOf true sched, c.In A S) (hB : ∀ c ∈ sideOf false sched, c.In B S)
    (iA : RefsInto A S w) (iB : RefsInto B S w) :
    (runTagged sched w).1 = (runCmds (sideOf false sched) (runCmds (sideOf true sched) w).1).1 ∧
    sideOf true (runTagged sched w).2 = (runCmds (sideOf true sched) w).2 ∧
    sideOf false (runTagged sched w).2 = (runCmds (sideOf false sched) w).2 ∧
    (runCmds (sideOf false sched) (runCmds (sideOf true sched) w).1).2 = (runCmds (sideOf false sched) w).2 :=
  interleaving_of_confined_histories hAB hAS hBS sched w (confined_of_in hAS _ w hA iA) (confined_of_in hBS _ w hB iB)

/-- two interleavings of the same two histories cannot be told apart -/
theorem interleavings_agree {A B S : Region} (hAB : A.Disj B) (hAS : A.Disj S) (hBS : B.Disj S)
    (s1 s2 : List (Bool × Cmd)) (w : W) (e1 : sideOf true s1 = sideOf true s2) (e2 : sideOf false s1 = sideOf false s2)
    (hA : ∀ c ∈ sideOf true s1, c.In A S) (hB : ∀ c ∈ sideOf false s1, c.In B S)
    (iA : RefsInto A S w) (iB : RefsInto B S w) :
    (runTagged s1 w).1 = (runTagged s2 w).1 ∧ sideOf true (runTagged s1 w).2 = sideOf true (runTagged s2 w).2 ∧
    sideOf false (runTagged s1 w).2 = sideOf false (runTagged s2 w).2 := by
  obtain ⟨a1, a2, a3, _⟩ := interleaving_of_document_histories hAB hAS hBS s1 w hA hB iA iB
  obtain ⟨b1, b2, b3, _⟩ := interleaving_of_document_histories hAB hAS hBS s2 w (e1 ▸ hA) (e2 ▸ hB) iA iB
  rw [← e1] at b1 b2
  rw [← e2] at b1 b3
  exact ⟨a1.trans b1.symm, a2.trans b2.symm, a3.trans b3.symm⟩

/-! ## 4. A shared read-only source -/

/-- **A shared constant source.** Two commands that both READ a document `k` (deep copies from it, reads of it,
    serializations of it) but do not write it, and otherwise touch different documents, commute - as long as nobody writes
    the source. (An instance of `ops_on_distinct_documents_commute`: disjointness of footprints allows common reads.) -/
theorem shared_const_source (a b : Cmd) (w : W) (k : Nat) (ha : ¬ a.fp.wr w k) (hb : ¬ b.fp.wr w k)
    (hd : ∀ j, j ≠ k → a.fp.rd w j → ¬ b.fp.rd w j)
    (hr : ∀ r, a.fp.bind r → ¬ b.fp.use r) (hr' : ∀ r, b.fp.bind r → ¬ a.fp.use r) :
    (DH.step (DH.step w a.render).2 b.render).2 = (DH.step (DH.step w b.render).2 a.render).2 ∧
    (DH.step (DH.step w a.render).2 b.render).1 = (DH.step w b.render).1 ∧
    (DH.step (DH.step w b.render).2 a.render).1 = (DH.step w a.render).1 := by
  refine ops_on_distinct_documents_commute a b w ⟨fun j h h' => ?_, fun j h h' => ?_, hr, hr'⟩
  · by_cases e : j = k
    · exact ha (e ▸ h)
    · exact hd j e (a.local.wr_rd w j h) h'
  · by_cases e : j = k
    · exact hb (e ▸ h)
    · exact hd j e h' (b.local.wr_rd w j h)

/-- `r.set(document k)` and `r'.set(document k)`, with `r`, `r'` bound to different documents, neither to `k` -/
theorem shared_const_source_copies (r r' k : String) (w : W)
    (h1 : ∀ j, (w.refs[r.toNat!]!).doc = some j → (w.refs[r'.toNat!]!).doc ≠ some j)
    (h2 : (w.refs[r.toNat!]!).doc ≠ some k.toNat!) (h3 : (w.refs[r'.toNat!]!).doc ≠ some k.toNat!) :
    (DH.step (DH.step w ["set", r, "doc", k]).2 ["set", r', "doc", k]).2 =
      (DH.step (DH.step w ["set", r', "doc", k]).2 ["set", r, "doc", k]).2 :=
  (shared_const_source (.setDoc r k) (.setDoc r' k) w k.toNat! h2 h3
    (fun j hj ha hb => ha.elim (fun x => hb.elim (fun y => h1 j x y) (fun y => hj y)) (fun x => hj x))
    (fun _ h => h.elim) (fun _ h => h.elim)).1

/-- a deep copy from document `k` commutes with a serialization of document `k` -/
theorem shared_const_source_copy_read (r k : String) (w : W) (h : (w.refs[r.toNat!]!).doc ≠ some k.toNat!) :
    (DH.step (DH.step w ["set", r, "doc", k]).2 ["hser", k]).2 = (DH.step (DH.step w ["hser", k]).2 ["set", r, "doc", k]).2 ∧
    (DH.step (DH.step w ["set", r, "doc", k]).2 ["hser", k]).1 = (DH.step w ["hser", k]).1 :=
  let x := shared_const_source (.setDoc r k) (.hser k) w k.toNat! h (fun y => y.elim)
    (fun _ hj _ hb => hj hb) (fun _ h => h.elim) (fun _ h => h.elim)
  ⟨x.1, x.2.1⟩

/-- `r.set(r2)` and `r'.set(r2)`: copies through a common reference `r2`, into different documents -/
theorem shared_const_source_ref (r r' r2 : String) (w : W)
    (h1 : ∀ j, (w.refs[r.toNat!]!).doc = some j → (w.refs[r'.toNat!]!).doc ≠ some j ∧ (w.refs[r2.toNat!]!).doc ≠ some j)
    (h2 : ∀ j, (w.refs[r'.toNat!]!).doc = some j → (w.refs[r2.toNat!]!).doc ≠ some j) :
    (DH.step (DH.step w ["set", r, "ref", r2]).2 ["set", r', "ref", r2]).2 =
      (DH.step (DH.step w ["set", r', "ref", r2]).2 ["set", r, "ref", r2]).2 :=
  (ops_on_distinct_documents_commute (.setRef r r2) (.setRef r' r2) w
    ⟨fun j h h' => h'.elim (fun x => (h1 j h).1 x) (fun x => (h1 j h).2 x),
     fun j h h' => h'.elim (fun x => (h1 j x).1 h) (fun x => h2 j h x), fun _ h => h.elim, fun _ h => h.elim⟩).1

/-! ## What is global in the interpreter: `copydoc` -/

/-- `copydoc` appends the allocator log of document 0 (and of the others) to the WORLD log: whenever that log is not
    empty, the world log changes - whatever the two documents named in the command -/
theorem flushDoc_log (w : W) (i : Nat) :
    (w.flushDoc i).log = (w.docs[i]!).pl.log.map (fun e => s!"a{(w.docs[i]!).alloc}:{e}") ++ w.log := rfl

theorem copydoc_writes_world_log (w : W) (r r2 : String) (h : (w.docs[0]!).pl.log ≠ []) :
    (DH.step w ["copydoc", r, r2]).2.log ≠ w.log := by
  have e1 : ∃ X : List String, (DH.step w ["copydoc", r, r2]).2.log = X ++ w.flush.log := ⟨_, rfl⟩
  have e2 : ∃ Y : List String, w.flush.log = Y ++ (w.flushDoc 0).log :=
    ⟨_ ++ _, by
      show ((w.flushDoc 0).flushDoc 1 |>.flushDoc 2).log = _
      rw [flushDoc_log, flushDoc_log, List.append_assoc]⟩
  obtain ⟨X, e1⟩ := e1
  obtain ⟨Y, e2⟩ := e2
  intro hh
  have := congrArg List.length (e1.symm.trans hh)
  rw [e2, flushDoc_log] at this
  simp only [List.length_append, List.length_map] at this
  have : (w.docs[0]!).pl.log.length = 0 := by omega
  exact h (List.eq_nil_of_length_eq_zero this)

/-- hence `copydoc` has NO footprint in the sense of `Local` (every footprint leaves the world log alone) -/
theorem copydoc_not_local (r r2 : String) : ¬ ∃ p, Local (fun w => DH.step w ["copydoc", r, r2]) p := by
  rintro ⟨p, hp⟩
  let d : Doc := { DH.newDocG ⟨256, 4, 4, 16, 16⟩ 15 0 with pl := { (DH.newDocG ⟨256, 4, 4, 16, 16⟩ 15 0).pl with log := ["A"] } }
  let w : W := { DH.W.init with docs := #[d] }
  exact copydoc_writes_world_log w r r2 (by show d.pl.log ≠ []; exact List.cons_ne_nil _ _) (hp.frame_rest w).1

/-! ## 5. The typed operations of C04 (`Op`, `Op2`, `OpD`), lifted to the world -/

/-- an operation of the C04 histories applied to one document of the world -/
inductive WOp
  /-- `op` (an `add`, `clear`, `put`, `remove`, `object[key]`, a deserialization into a value, a copy inside the document,
      a copy from a FIXED document value) on document `i` -/
  | doc (i : Nat) (op : C04.OpD)
  /-- `docs[i][l].set(docs[k][ls])`: deep copy from document `k` of the world (`C04.OpD.copyFrom` with `src := docs[k]`) -/
  | copyFrom (i : Nat) (l : Loc) (k : Nat) (ls : Loc)

/-- the document the operation writes -/
def WOp.target : WOp → Option Nat
  | .doc i _ => some i
  | .copyFrom i _ _ _ => some i
/-- the documents the operation reads -/
def WOp.reads : WOp → List Nat
  | .doc i _ => [i]
  | .copyFrom i _ k _ => [i, k]

/-- the step; its output is the overflow flag of the target afterwards (what `doc.overflowed()` reports) -/
def WOp.step : WOp → Step Bool
  | .doc i op => modDoc i (fun d => ((op.run d).overflowed, op.run d))
  | .copyFrom i l k ls =>
    modDocFrom i k (fun d s => ((copyInto d l s (s.get ls)).overflowed, copyInto d l s (s.get ls)))

def WOp.fp (o : WOp) : FP := FP.static (fun j => o.target = some j) (fun j => j ∈ o.reads) none' none'

theorem WOp.local (o : WOp) : Local o.step o.fp := by
  cases o with
  | doc i op =>
    have h := Local.modDoc i (fun d => ((op.run d).overflowed, op.run d))
    exact h.mono_static (D' := fun j => some i = some j) (R' := fun j => j ∈ [i])
      (fun j (hj : j = i) => by rw [hj]) (fun j (hj : j = i) => by rw [hj]; exact List.mem_singleton.2 rfl)
      (fun _ h => h) (fun _ h => h)
      ⟨fun j hj => (by cases hj; exact List.mem_singleton.2 rfl), fun _ h => h.elim⟩
  | copyFrom i l k ls =>
    have h := Local.modDocFrom i k (fun d s => ((copyInto d l s (s.get ls)).overflowed, copyInto d l s (s.get ls)))
    exact h.mono_static (D' := fun j => some i = some j) (R' := fun j => j ∈ [i, k])
      (fun j (hj : j = i) => by rw [hj])
      (fun j (hj : j = i ∨ j = k) => by
        rcases hj with hj | hj
        · rw [hj]; exact List.mem_cons_self
        · rw [hj]; exact List.mem_cons_of_mem _ List.mem_cons_self)
      (fun _ h => h) (fun _ h => h)
      ⟨fun j hj => (by cases hj; exact List.mem_cons_self), fun _ h => h.elim⟩

/-- **frame** for the typed operations: every document other than the target is literally unchanged, no reference, no log
    entry; the output and the new target depend only on the documents read -/
theorem WOp.frame (o : WOp) (w : W) :
    (∀ j, o.target ≠ some j → (o.step w).2.docs[j]? = w.docs[j]? ∧ (o.step w).2.docs[j]! = w.docs[j]!) ∧
    (o.step w).2.refs = w.refs ∧ (o.step w).2.log = w.log ∧
    (∀ w' : W, (∀ j ∈ o.reads, w.docs[j]? = w'.docs[j]?) →
      (o.step w).1 = (o.step w').1 ∧ ∀ j, o.target = some j → (o.step w).2.docs[j]? = (o.step w').2.docs[j]?) := by
  refine ⟨fun j hj => ?_, by cases o <;> rfl, (o.local.frame_rest w).1, fun w' h => ?_⟩
  · have e := o.local.frame_docs w j hj
    exact ⟨e, docs_bang_congr e⟩
  · obtain ⟨a, b, _⟩ := o.local.loc w w' ⟨h, fun _ h => h.elim⟩
    exact ⟨a, b⟩

/-- **typed operations on distinct documents commute**: different targets, neither reads the other's target -/
theorem wops_on_distinct_documents_commute (a b : WOp) (w : W)
    (h1 : ∀ j, a.target = some j → j ∉ b.reads) (h2 : ∀ j, b.target = some j → j ∉ a.reads) :
    (b.step (a.step w).2).2 = (a.step (b.step w).2).2 ∧ (b.step (a.step w).2).1 = (b.step w).1 ∧
    (a.step (b.step w).2).1 = (a.step w).1 :=
  Local.commute a.local b.local w ⟨h1, h2, fun _ h => h.elim, fun _ h => h.elim⟩

/-- a typed operation as a step with its footprint (for `inter_seq`, `Confined`) -/
def WOp.lstep (o : WOp) : LStep Bool := ⟨o.step, o.fp, o.local⟩

/-- the typed footprints are static: a history of typed operations whose targets lie in `A` and whose sources lie in
    `A ∪ S` is confined, from any world -/
theorem confined_wops {A S : Region} : ∀ (h : List WOp) (w : W),
    (∀ o ∈ h, (∀ j, o.target = some j → A.docs j) ∧ ∀ j ∈ o.reads, A.docs j ∨ S.docs j) → Confined A S (h.map WOp.lstep) w
  | [], _, _ => trivial
  | o :: h, _, hh =>
    ⟨⟨(hh o List.mem_cons_self).1, (hh o List.mem_cons_self).2, fun _ x => x.elim, fun _ x => x.elim⟩,
      confined_wops h _ (fun x hx => hh x (List.mem_cons_of_mem _ hx))⟩

/-- what the step does to its target is the C04 operation: `WOp.doc i op` runs `op`, `WOp.copyFrom i l k ls` runs
    `C04.OpD.copyFrom l (docs[k]) _ ls` -/
theorem WOp.target_after (w : W) (i : Nat) (hi : i < w.docs.size) :
    (∀ op : C04.OpD, ((WOp.doc i op).step w).2.docs[i]! = op.run (w.docs[i]!)) ∧
    (∀ (l : Loc) (k : Nat) (ls : Loc) (Fs : Forest),
      ((WOp.copyFrom i l k ls).step w).2.docs[i]! = (C04.OpD.copyFrom l (w.docs[k]!) Fs ls).run (w.docs[i]!)) := by
  have key : ∀ x : Doc, (w.docs.set! i x)[i]! = x := fun x => by
    rw [getElem!_eq_getD?, getElem?_set!_self, Array.getElem?_eq_getElem hi]; rfl
  exact ⟨fun op => key _, fun l k ls Fs => key _⟩

/-- the invariant of the C04 refinement, for every document of the world, under the layouts `F` -/
def WorldWF (w : W) (F : Nat → Forest) : Prop :=
  ∀ (j : Nat) (d : Doc), w.docs[j]? = some d → WFG d (F j) ∧ StrOK d (d.strRefs (F j)) ∧ PL.GeoOK d.g

/-- **the C04 refinement, document by document**: a valid C04 operation on document `i` of a well-formed world gives a
    well-formed world; the layouts of the other documents are the old ones (`C04.stepD_refines` on the target, the frame
    on the others) -/
theorem WOp.keeps_wf (w : W) (F : Nat → Forest) (i : Nat) (op : C04.OpD) (hw : WorldWF w F)
    (hv : ∀ d, w.docs[i]? = some d → op.Valid d (F i)) :
    WorldWF ((WOp.doc i op).step w).2 (fun j => if j = i then op.layout (w.docs[i]!) (F i) else F j) := by
  intro j d hj
  by_cases e : j = i
  · subst e
    have hj' : (w.docs.set! j (op.run (w.docs[j]!)))[j]? = some d := hj
    rw [getElem?_set!_self] at hj'
    cases h0 : w.docs[j]? with
    | none => rw [h0] at hj'; cases hj'
    | some d0 =>
      rw [h0] at hj'
      have e0 : w.docs[j]! = d0 := by rw [getElem!_eq_getD?, h0]; rfl
      have hd : op.run (w.docs[j]!) = d := Option.some.inj hj'
      rw [e0] at hd
      subst hd
      obtain ⟨a, b, c⟩ := hw j d0 h0
      obtain ⟨x, y, z, _⟩ := C04.stepD_refines a b c (hv d0 h0)
      show WFG (op.run d0) (if j = j then op.layout (w.docs[j]!) (F j) else F j) ∧
        StrOK (op.run d0) ((op.run d0).strRefs (if j = j then op.layout (w.docs[j]!) (F j) else F j)) ∧
        PL.GeoOK (op.run d0).g
      rw [if_pos rfl, e0]
      exact ⟨x, y, by rw [z]; exact c⟩
  · have hj' : ((WOp.doc i op).step w).2.docs[j]? = w.docs[j]? :=
      (WOp.doc i op).local.frame_docs w j (fun h => e (Option.some.inj h).symm)
    rw [hj'] at hj
    show WFG d (if j = i then op.layout (w.docs[i]!) (F i) else F j) ∧
      StrOK d (d.strRefs (if j = i then op.layout (w.docs[i]!) (F i) else F j)) ∧ PL.GeoOK d.g
    rw [if_neg e]
    exact hw j d hj

/-- **Interleaving, typed operations.** The targets of the first history lie in `A`, those of the second in `B`, the
    sources of copies in the own region or in the shared region `S` (nobody's target): every interleaving ends in the
    world of the sequential run, each history sees the overflow flags of its solo run. No hypothesis on the world. -/
theorem interleaving_of_typed_histories {A B S : Region} (hAB : A.Disj B) (hAS : A.Disj S) (hBS : B.Disj S)
    (sched : List (Bool × WOp)) (w : W)
    (hA : ∀ o ∈ sideOf true sched, (∀ j, o.target = some j → A.docs j) ∧ ∀ j ∈ o.reads, A.docs j ∨ S.docs j)
    (hB : ∀ o ∈ sideOf false sched, (∀ j, o.target = some j → B.docs j) ∧ ∀ j ∈ o.reads, B.docs j ∨ S.docs j) :
    (runInter (sched.map (fun x => (x.1, x.2.lstep))) w).1 =
      (runHist ((sideOf false sched).map WOp.lstep) (runHist ((sideOf true sched).map WOp.lstep) w).1).1 ∧
    sideOf true (runInter (sched.map (fun x => (x.1, x.2.lstep))) w).2 = (runHist ((sideOf true sched).map WOp.lstep) w).2 ∧
    sideOf false (runInter (sched.map (fun x => (x.1, x.2.lstep))) w).2 = (runHist ((sideOf false sched).map WOp.lstep) w).2 := by
  have h := inter_seq hAB hAS hBS (sched.map (fun x => (x.1, x.2.lstep))) w
    (by rw [sideOf_map]; exact confined_wops _ w hA) (by rw [sideOf_map]; exact confined_wops _ w hB)
  rw [sideOf_map, sideOf_map] at h
  exact ⟨h.1, h.2.1, h.2.2.1⟩

/-! ## 6. Non-vacuity -/
namespace ExH

/-- the initial world binds no reference -/
theorem init_refs (r : Nat) : DH.W.init.refs[r]! = ⟨none, none⟩ := by
  rw [getElem!_eq_getD?]
  show ((Array.replicate 10 ({} : Ref))[r]?).getD default = _
  rw [Array.getElem?_replicate]
  split <;> rfl

theorem refsInto_init (A S : Region) : RefsInto A S DH.W.init :=
  ⟨fun r _ j h => (by rw [init_refs] at h; cases h), fun r _ j h => (by rw [init_refs] at h; cases h)⟩

/-! ### A. the interpreter: thread A works on document `d0` through reference `r0`, thread B on document `d1` through `r1`;
   both copy from / read the shared document `d2`, which nobody writes. (`String.toNat!` does not evaluate in the kernel, so
   the numerals are variables; at run time `r0 = "0"`, `r1 = "1"`, `d0 = "0"`, `d1 = "1"`, `d2 = "2"`.) -/
section
variable (r0 r1 d0 d1 d2 : String)

/-- `doc0.add(1); doc0.add("hi"); doc0[1] = doc2` (the last one a deep copy from the shared document) -/
def hA : List Cmd :=
  [.root r0 d0, .add r0 "i" "1" (by decide), .add r0 "sc" "6869" (by decide), .seteDoc r0 "1" d2]
/-- `deserializeJson(doc1, "[1]"); doc1.add(doc2); serialize(doc2); doc1.clear()` -/
def hB : List Cmd := [.root r1 d1, .deserj r1 "10" "5b315d", .addDoc r1 d2, .hser d2, .clear r1]

/-- two different interleavings of `hA` and `hB` -/
def sched1 : List (Bool × Cmd) :=
  [(true, .root r0 d0), (false, .root r1 d1), (true, .add r0 "i" "1" (by decide)), (false, .deserj r1 "10" "5b315d"),
   (false, .addDoc r1 d2), (true, .add r0 "sc" "6869" (by decide)), (true, .seteDoc r0 "1" d2), (false, .hser d2),
   (false, .clear r1)]
def sched2 : List (Bool × Cmd) :=
  [(false, .root r1 d1), (false, .deserj r1 "10" "5b315d"), (true, .root r0 d0), (false, .addDoc r1 d2), (false, .hser d2),
   (true, .add r0 "i" "1" (by decide)), (false, .clear r1), (true, .add r0 "sc" "6869" (by decide)), (true, .seteDoc r0 "1" d2)]

theorem side1 : sideOf true (sched1 r0 r1 d0 d1 d2) = hA r0 d0 d2 ∧ sideOf false (sched1 r0 r1 d0 d1 d2) = hB r1 d1 d2 := ⟨rfl, rfl⟩
theorem side2 : sideOf true (sched2 r0 r1 d0 d1 d2) = hA r0 d0 d2 ∧ sideOf false (sched2 r0 r1 d0 d1 d2) = hB r1 d1 d2 := ⟨rfl, rfl⟩

def regA : Region := ⟨one d0.toNat!, one r0.toNat!⟩
def regB : Region := ⟨one d1.toNat!, one r1.toNat!⟩
def regS : Region := ⟨one d2.toNat!, none'⟩

theorem hA_in : ∀ c ∈ hA r0 d0 d2, c.In (regA r0 d0) (regS d2) := by
  intro c hc
  simp only [hA, List.mem_cons, List.not_mem_nil, or_false] at hc
  rcases hc with rfl | rfl | rfl | rfl
  · exact ⟨rfl, rfl⟩
  · exact rfl
  · exact rfl
  · exact ⟨rfl, Or.inr rfl⟩

theorem hB_in : ∀ c ∈ hB r1 d1 d2, c.In (regB r1 d1) (regS d2) := by
  intro c hc
  simp only [hB, List.mem_cons, List.not_mem_nil, or_false] at hc
  rcases hc with rfl | rfl | rfl | rfl | rfl
  · exact ⟨rfl, rfl⟩
  · exact rfl
  · exact ⟨rfl, Or.inr rfl⟩
  · exact Or.inr rfl
  · exact rfl

/-- `interleaving_of_document_histories` / `interleavings_agree` apply: from the initial world, the two schedules end in the
    SAME world, equal to the one reached by running `hA` and then `hB`; each thread sees the same outputs in both schedules
    (the codes of `deserializeJson`, the success flags of `add`, the serialization of the shared document) -/
example (hr : r0.toNat! ≠ r1.toNat!) (h01 : d0.toNat! ≠ d1.toNat!) (h02 : d0.toNat! ≠ d2.toNat!) (h12 : d1.toNat! ≠ d2.toNat!) :
    (runTagged (sched1 r0 r1 d0 d1 d2) DH.W.init).1 = (runTagged (sched2 r0 r1 d0 d1 d2) DH.W.init).1 ∧
    (runTagged (sched1 r0 r1 d0 d1 d2) DH.W.init).1 = (runCmds (hB r1 d1 d2) (runCmds (hA r0 d0 d2) DH.W.init).1).1 ∧
    sideOf true (runTagged (sched1 r0 r1 d0 d1 d2) DH.W.init).2 = (runCmds (hA r0 d0 d2) DH.W.init).2 ∧
    sideOf false (runTagged (sched1 r0 r1 d0 d1 d2) DH.W.init).2 = sideOf false (runTagged (sched2 r0 r1 d0 d1 d2) DH.W.init).2 := by
  have hAB : (regA r0 d0).Disj (regB r1 d1) :=
    ⟨fun j (h : j = _) (h' : j = _) => h01 (h.symm.trans h'), fun j (h : j = _) (h' : j = _) => hr (h.symm.trans h')⟩
  have hAS : (regA r0 d0).Disj (regS d2) := ⟨fun j (h : j = _) (h' : j = _) => h02 (h.symm.trans h'), fun _ _ h => h.elim⟩
  have hBS : (regB r1 d1).Disj (regS d2) := ⟨fun j (h : j = _) (h' : j = _) => h12 (h.symm.trans h'), fun _ _ h => h.elim⟩
  obtain ⟨a1, a2⟩ := side1 r0 r1 d0 d1 d2
  obtain ⟨b1, b2⟩ := side2 r0 r1 d0 d1 d2
  obtain ⟨x, _, z⟩ := interleavings_agree hAB hAS hBS (sched1 r0 r1 d0 d1 d2) (sched2 r0 r1 d0 d1 d2) DH.W.init
    (a1.trans b1.symm) (a2.trans b2.symm) (by rw [a1]; exact hA_in r0 d0 d2) (by rw [a2]; exact hB_in r1 d1 d2)
    (refsInto_init _ _) (refsInto_init _ _)
  obtain ⟨y1, y2, _⟩ := interleaving_of_document_histories hAB hAS hBS (sched1 r0 r1 d0 d1 d2) DH.W.init
    (by rw [a1]; exact hA_in r0 d0 d2) (by rw [a2]; exact hB_in r1 d1 d2) (refsInto_init _ _) (refsInto_init _ _)
  rw [a1, a2] at y1
  rw [a1] at y2
  exact ⟨x, y1, y2, z⟩

/-- `ops_in_disjoint_regions_commute` (hence `ops_on_distinct_documents_commute`) and `shared_const_source_copies` apply to
    single steps: once the two roots are bound, `doc0.add(1)` and `deserializeJson(doc1, "[1]")` commute, and so do the deep
    copies from the shared document -/
example (hr : r0.toNat! ≠ r1.toNat!) (h01 : d0.toNat! ≠ d1.toNat!) (h02 : d0.toNat! ≠ d2.toNat!) (h12 : d1.toNat! ≠ d2.toNat!) :
    let w := (runCmds [.root r0 d0, .root r1 d1] DH.W.init).1
    (DH.step (DH.step w ["add", r0, "i", "1"]).2 ["deserj", r1, "10", "5b315d"]).2 =
      (DH.step (DH.step w ["deserj", r1, "10", "5b315d"]).2 ["add", r0, "i", "1"]).2 ∧
    (DH.step (DH.step w ["sete", r0, "1", "doc", d2]).2 ["add", r1, "doc", d2]).2 =
      (DH.step (DH.step w ["add", r1, "doc", d2]).2 ["sete", r0, "1", "doc", d2]).2 ∧
    (DH.step (DH.step w ["set", r0, "doc", d2]).2 ["set", r1, "doc", d2]).2 =
      (DH.step (DH.step w ["set", r1, "doc", d2]).2 ["set", r0, "doc", d2]).2 := by
  intro w
  have hAB : (regA r0 d0).Disj (regB r1 d1) :=
    ⟨fun j (h : j = _) (h' : j = _) => h01 (h.symm.trans h'), fun j (h : j = _) (h' : j = _) => hr (h.symm.trans h')⟩
  have hAS : (regA r0 d0).Disj (regS d2) := ⟨fun j (h : j = _) (h' : j = _) => h02 (h.symm.trans h'), fun _ _ h => h.elim⟩
  have hBS : (regB r1 d1).Disj (regS d2) := ⟨fun j (h : j = _) (h' : j = _) => h12 (h.symm.trans h'), fun _ _ h => h.elim⟩
  have iA0 := refsInto_init (regA r0 d0) (regS d2)
  have iB0 := refsInto_init (regB r1 d1) (regS d2)
  -- binding the two roots keeps the references inside their regions
  have iA1 : RefsInto (regA r0 d0) (regS d2) (DH.step DH.W.init ["root", r0, d0]).2 :=
    Cmd.refsInto_step hAS (c := .root r0 d0) ⟨rfl, rfl⟩ iA0
  have iB1 : RefsInto (regB r1 d1) (regS d2) (DH.step DH.W.init ["root", r0, d0]).2 := by
    refine ⟨fun r hr' j hj => ?_, fun r hr' => hr'.elim⟩
    have e : (DH.step DH.W.init ["root", r0, d0]).2.refs[r]! = DH.W.init.refs[r]! :=
      refs_bang_congr ((Cmd.root r0 d0).local.frame_refs DH.W.init r (fun (h : r = _) => hr (h.symm.trans hr')))
    rw [e, init_refs] at hj; cases hj
  have iB : RefsInto (regB r1 d1) (regS d2) w := Cmd.refsInto_step hBS (c := .root r1 d1) ⟨rfl, rfl⟩ iB1
  have iA : RefsInto (regA r0 d0) (regS d2) w := by
    refine ⟨fun r hr' j hj => ?_, fun r hr' => hr'.elim⟩
    have e : w.refs[r]! = (DH.step DH.W.init ["root", r0, d0]).2.refs[r]! :=
      refs_bang_congr ((Cmd.root r1 d1).local.frame_refs _ r (fun (h : r = _) => hr (hr'.symm.trans h)))
    rw [e] at hj; exact iA1.1 r hr' j hj
  refine ⟨(ops_in_disjoint_regions_commute hAB hAS hBS (.add r0 "i" "1" (by decide)) (.deserj r1 "10" "5b315d") w rfl rfl iA iB).1,
    (ops_in_disjoint_regions_commute hAB hAS hBS (.seteDoc r0 "1" d2) (.addDoc r1 d2) w ⟨rfl, Or.inr rfl⟩ ⟨rfl, Or.inr rfl⟩ iA iB).1,
    ?_⟩
  -- `shared_const_source_copies` applies: `r0.set(doc2)` and `r1.set(doc2)`
  refine shared_const_source_copies r0 r1 d2 w (fun j hj hj' => ?_) (fun h => ?_) (fun h => ?_)
  · exact h01 ((iA.1 _ rfl j hj).symm.trans (iB.1 _ rfl j hj'))
  · exact h02 (iA.1 _ rfl _ h).symm
  · exact h12 (iB.1 _ rfl _ h).symm
end

/-! ### B. the typed operations, fully concrete: documents 0 and 1 of the interpreter's initial world, document 2 (set to
   `true` beforehand) as a shared source -/

def put (a : Arg) : C04.OpD := .base (.base (.put .root a))
def clr : C04.OpD := .base (.base (.clear .root))
/-- the world in which document 2 is `true` -/
def w2 : W := ((WOp.doc 2 (put (.bool true))).step DH.W.init).2

/-- thread A: `doc0.set(7); doc0.clear(); doc0.set(doc2)` -/
def tA : List WOp := [.doc 0 (put (.uint 7)), .doc 0 clr, .copyFrom 0 .root 2 .root]
/-- thread B: `doc1.set(doc2); doc1.clear(); doc1.set(9)` -/
def tB : List WOp := [.copyFrom 1 .root 2 .root, .doc 1 clr, .doc 1 (put (.uint 9))]
def ts1 : List (Bool × WOp) :=
  [(true, .doc 0 (put (.uint 7))), (false, .copyFrom 1 .root 2 .root), (false, .doc 1 clr), (true, .doc 0 clr),
   (true, .copyFrom 0 .root 2 .root), (false, .doc 1 (put (.uint 9)))]
def ts2 : List (Bool × WOp) :=
  [(false, .copyFrom 1 .root 2 .root), (true, .doc 0 (put (.uint 7))), (true, .doc 0 clr), (true, .copyFrom 0 .root 2 .root),
   (false, .doc 1 clr), (false, .doc 1 (put (.uint 9)))]

def rA : Region := ⟨one 0, none'⟩
def rB : Region := ⟨one 1, none'⟩
def rS : Region := ⟨one 2, none'⟩

theorem tA_in : ∀ o ∈ tA, (∀ j, o.target = some j → rA.docs j) ∧ ∀ j ∈ o.reads, rA.docs j ∨ rS.docs j := by
  intro o ho
  simp only [tA, List.mem_cons, List.not_mem_nil, or_false] at ho
  rcases ho with rfl | rfl | rfl
  · exact ⟨fun j h => (Option.some.inj h).symm, fun j h => Or.inl (List.mem_singleton.1 h)⟩
  · exact ⟨fun j h => (Option.some.inj h).symm, fun j h => Or.inl (List.mem_singleton.1 h)⟩
  · refine ⟨fun j h => (Option.some.inj h).symm, fun j h => ?_⟩
    rcases List.mem_cons.1 h with h | h
    · exact Or.inl h
    · exact Or.inr (List.mem_singleton.1 h)

theorem tB_in : ∀ o ∈ tB, (∀ j, o.target = some j → rB.docs j) ∧ ∀ j ∈ o.reads, rB.docs j ∨ rS.docs j := by
  intro o ho
  simp only [tB, List.mem_cons, List.not_mem_nil, or_false] at ho
  rcases ho with rfl | rfl | rfl
  · refine ⟨fun j h => (Option.some.inj h).symm, fun j h => ?_⟩
    rcases List.mem_cons.1 h with h | h
    · exact Or.inl h
    · exact Or.inr (List.mem_singleton.1 h)
  · exact ⟨fun j h => (Option.some.inj h).symm, fun j h => Or.inl (List.mem_singleton.1 h)⟩
  · exact ⟨fun j h => (Option.some.inj h).symm, fun j h => Or.inl (List.mem_singleton.1 h)⟩

/-- `interleaving_of_typed_histories` applies to both schedules: same final world (the sequential one); evaluated: document 0
    ends as a copy of the shared document (`true`), document 1 as `9`, the shared document is still `true` -/
example :
    (runInter (ts1.map (fun x => (x.1, x.2.lstep))) w2).1 = (runInter (ts2.map (fun x => (x.1, x.2.lstep))) w2).1 ∧
    (runInter (ts1.map (fun x => (x.1, x.2.lstep))) w2).1 = (runHist (tB.map WOp.lstep) (runHist (tA.map WOp.lstep) w2).1).1 ∧
    ((runInter (ts1.map (fun x => (x.1, x.2.lstep))) w2).1.docs[0]!).root = .bool true ∧
    ((runInter (ts1.map (fun x => (x.1, x.2.lstep))) w2).1.docs[1]!).root = .u32 9 ∧
    ((runInter (ts1.map (fun x => (x.1, x.2.lstep))) w2).1.docs[2]!).root = .bool true := by
  have hAB : rA.Disj rB := ⟨fun j (h : j = 0) (h' : j = 1) => by omega, fun _ h => h.elim⟩
  have hAS : rA.Disj rS := ⟨fun j (h : j = 0) (h' : j = 2) => by omega, fun _ h => h.elim⟩
  have hBS : rB.Disj rS := ⟨fun j (h : j = 1) (h' : j = 2) => by omega, fun _ h => h.elim⟩
  have h1 := interleaving_of_typed_histories hAB hAS hBS ts1 w2 tA_in tB_in
  have h2 := interleaving_of_typed_histories hAB hAS hBS ts2 w2 tA_in tB_in
  exact ⟨h1.1.trans h2.1.symm, h1.1, by decide +kernel, by decide +kernel, by decide +kernel⟩

/-- `WOp.keeps_wf` applies: the fresh documents of the initial world are well formed (`C04.fresh_document_wf`), `put` on the
    (null) root of document 0 is valid, so the world after the step is well formed, document by document -/
example : ∃ F', WorldWF ((WOp.doc 0 (put (.uint 7))).step DH.W.init).2 F' := by
  have gok : PL.GeoOK (⟨256, 4, 4, 16, 16⟩ : PL.Geo) := ⟨by decide, by decide⟩
  have hw : WorldWF DH.W.init (fun _ => .nil) := by
    intro j d hj
    have hd : d = DH.newDocG ⟨256, 4, 4, 16, 16⟩ 15 0 ∨ d = DH.newDocG ⟨256, 4, 4, 16, 16⟩ 15 1 ∨
        d = DH.newDocG ⟨256, 4, 4, 16, 16⟩ 15 2 := by
      have : (#[DH.newDocG ⟨256, 4, 4, 16, 16⟩ 15 0, DH.newDocG ⟨256, 4, 4, 16, 16⟩ 15 1,
          DH.newDocG ⟨256, 4, 4, 16, 16⟩ 15 2] : Array Doc)[j]? = some d := hj
      match j, this with
      | 0, h => exact Or.inl (Option.some.inj h).symm
      | 1, h => exact Or.inr (Or.inl (Option.some.inj h).symm)
      | 2, h => exact Or.inr (Or.inr (Option.some.inj h).symm)
      | _ + 3, h => cases h
    rcases hd with rfl | rfl | rfl <;>
      exact ⟨(C04.fresh_document_wf _ 15 _ gok).1, (C04.fresh_document_wf _ 15 _ gok).2.1, gok⟩
  refine ⟨_, WOp.keeps_wf DH.W.init _ 0 (put (.uint 7)) hw (fun d hd => ?_)⟩
  have : d = DH.newDocG ⟨256, 4, 4, 16, 16⟩ 15 0 := (Option.some.inj hd).symm
  subst this
  exact ⟨trivial, rfl, by decide +kernel⟩

/-- `step_frame` applies: `document.clear()` on document `d` leaves every other document, every reference and the world log
    literally unchanged - in any world -/
example (d : String) (w : W) (j r : Nat) (h : j ≠ d.toNat!) :
    (DH.step w ["cleardoc", d]).2.docs[j]! = w.docs[j]! ∧ (DH.step w ["cleardoc", d]).2.refs[r]! = w.refs[r]! ∧
    (DH.step w ["cleardoc", d]).2.log = w.log :=
  let x := step_frame (.cleardoc d) w
  ⟨(x.1 j (fun hj => h (List.mem_singleton.1 hj))).2, (x.2.1 r (fun hr => hr.elim)).2, x.2.2.1⟩

/-- `step_frame` through a reference: `r.clear()` leaves every document but the one `r` is bound to unchanged -/
example (r : String) (w : W) (j : Nat) (h : (w.refs[r.toNat!]!).doc ≠ some j) :
    (DH.step w ["clear", r]).2.docs[j]! = w.docs[j]! :=
  ((step_frame (.clear r) w).1 j (fun hj => h ((docOf_iff_mem _ j).2 hj))).2

/-- `WOp.frame` and `wops_on_distinct_documents_commute` apply (documents 0, 1 and the shared source 2 of `w2`) -/
example :
    ((WOp.doc 0 (put (.uint 7))).step w2).2.docs[1]! = w2.docs[1]! ∧
    ((WOp.copyFrom 1 .root 2 .root).step ((WOp.doc 0 (put (.uint 7))).step w2).2).2 =
      ((WOp.doc 0 (put (.uint 7))).step ((WOp.copyFrom 1 .root 2 .root).step w2).2).2 :=
  ⟨(((WOp.doc 0 (put (.uint 7))).frame w2).1 1 (by decide)).2,
    (wops_on_distinct_documents_commute (.doc 0 (put (.uint 7))) (.copyFrom 1 .root 2 .root) w2
      (fun j h => by cases h; decide) (fun j h => by cases h; decide)).1⟩

end ExH

end C20
