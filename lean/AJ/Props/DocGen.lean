/- Whole documents through the serializers and the filter, tied to the source by translation: `lean/AJ/Gen/Tables.lean` is regenerated on every run by calling
   the compiled library - `serializeJson`, `serializeJsonPretty`, `serializeMsgPack` on the documents denoted by 46 JSON texts (scalars at every MessagePack width
   boundary, strings with every escape, fixstr/str8 and fixarray/array16 and fixmap/map16 boundaries, nested and repeated-key objects, floats), and the filtered
   `deserializeJson` on 14 filters x 9 inputs - and the theorems evaluate the deserializer, the two JSON serializers, the MessagePack serializer and the filtered
   deserializer models on the same data in the kernel. -/
import AJ.Model.JD
import AJ.Model.JSer
import AJ.Model.MD
open JD

namespace DocGen
def bytes (l : List Nat) : List Byte := l.map UInt8.ofNat
def nats (l : List Byte) : List Nat := l.map (·.toNat)
def docOf (t : List Nat) : Val := (JD.run {} 20 (bytes t)).2.1
end DocGen

namespace C02
open DocGen
/-- **compact and pretty text**: for every document of the table the two serializer models write byte for byte what the library writes -/
theorem serialized_documents_are_source :
    Gen.doc_rows.all (fun r => nats (JSer.compact {} (docOf r.1)) == r.2.1 && nats (JSer.pretty {} 0 (docOf r.1)) == r.2.2.1) = true := by decide +kernel
end C02

namespace C08
open DocGen
/-- **MessagePack bytes**: for every document of the table the serializer model writes byte for byte what serializeMsgPack writes -/
theorem msgpack_documents_are_source : Gen.doc_rows.all (fun r => nats (MD.ser (docOf r.1)) == r.2.2.2) = true := by decide +kernel
end C08

namespace C09
open DocGen
/-- **MessagePack read back**: for the bytes of every document of the table the deserializer model answers the library's code and leaves the library's document -/
theorem msgpack_read_back_is_source :
    Gen.mpback_rows.all (fun r =>
      let res := MD.run {} 20 .all (bytes r.1)
      (if res.1 == .ok then 0 else 3) == r.2.1 && nats (JSer.compact {} res.2.1) == r.2.2) = true := by decide +kernel
end C09

namespace C11
open DocGen
/-- **filter table**: for every (filter, input) pair the filtered deserializer model answers the library's code and leaves the library's document -/
theorem filtered_documents_are_source :
    Gen.filter_rows.all (fun r =>
      let res := JD.frun {} 20 (.doc (some (docOf r.1))) (bytes r.2.1)
      (if res.1 == .ok then 0 else 3) == r.2.2.1 && nats (JSer.compact {} res.2.1) == r.2.2.2) = true := by decide +kernel
end C11
