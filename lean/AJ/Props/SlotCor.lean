/- SLOT-LEVEL COROLLARIES of the value-level theorems C02, C07, C12, C16, C17.

   The value-level deserializers `JD.run` (JSON) and `MD.run` (MessagePack) are what the grammar / round-trip / number /
   consumption / unicode theorems are about. The slot-level deserializers `JDD.run cfg L d input` / `MDD.run env L d input`
   write into the real document structure (`DL.Doc`: slots, pools, string table, builder) and REFINE them:
   `C01.slot_level_refines`, `C01.ok_refines` (AJ/Props/C01Doc.lean), `C09.slot_level_refines`, `C09.ok_refines`
   (AJ/Props/C09Doc.lean): whenever no allocation failed (`(run …).2.1.overflowed = false`), the code, the consumption and
   `toVal root` of the document left are those of the value-level run.

   This file carries the value-level theorems down to the document, one short theorem each: obtain the value-level fact,
   rewrite with the refinement. For every starting document `d` (any content: the run clears it) with `PL.GeoOK d.g`,
   `PL.Inv d.g d.pl`, `31 ≤ cfg.maxStrLen` (JSON only) and the hypothesis that the run met no allocation failure. The
   hypotheses of the value-level theorems are kept verbatim.
   (C01, C10, C15 at slot level: AJ/Props/C01Doc.lean; C09 — round trip, `enc_accepts_slot_level`, prefix classification —,
   C15 and the two-object C16 for MessagePack: AJ/Props/C09Doc.lean.) -/
import AJ.Props.C01Doc
import AJ.Props.C09Doc
import AJ.Props.C03Doc
import AJ.Props.C02Parse
import AJ.Props.C07
import AJ.Props.C07Cross
import AJ.Props.C12
import AJ.Props.C16
import AJ.Props.C16Seq
import AJ.Props.C17
set_option linter.unusedSimpArgs false
set_option linter.unusedVariables false

/-! ## C02 — what the serializers write is read back into the document -/
namespace C02
open DL JDD
open JD (Byte Val Cfg Code)

/-- **C02, slot level (compact text).** For a document value `v` satisfying the hypotheses of
    `C02.Parse.compact_parses_back`: `deserializeJson(serializeJson(v))` into ANY document with an allocator that does not
    fail is `Ok` and leaves a document that reads back as the value the text denotes (`SerG.denote cfg v`). -/
theorem serialized_text_read_back_slot_level (cfg : Cfg) (hu : cfg.decodeUnicode = true) (h31 : 31 ≤ cfg.maxStrLen)
    (L : Nat) (v : Val) (h : SerG.Ok cfg v) (hd : Spec.Json.depth v ≤ L) (d : Doc) (gok : PL.GeoOK d.g)
    (hp : PL.Inv d.g d.pl) (hno : (JDD.run cfg L d (JSer.compact cfg v)).2.1.overflowed = false) :
    (JDD.run cfg L d (JSer.compact cfg v)).1 = .ok ∧
    (JDD.run cfg L d (JSer.compact cfg v)).2.1.toVal (JDD.run cfg L d (JSer.compact cfg v)).2.1.root =
      SerG.denote cfg v := by
  obtain ⟨a, _, c⟩ := (C01.slot_level_refines cfg L d (JSer.compact cfg v) gok hp h31).1 hno
  obtain ⟨h1, h2⟩ := C02.Parse.compact_parses_back cfg hu L v h hd
  exact ⟨by rw [a, h1], by rw [c, h2]⟩

/-- **C02, slot level (pretty text)**: `deserializeJson(serializeJsonPretty(v))` leaves the SAME document value -/
theorem pretty_text_read_back_slot_level (cfg : Cfg) (hu : cfg.decodeUnicode = true) (h31 : 31 ≤ cfg.maxStrLen)
    (n L : Nat) (v : Val) (h : SerG.Ok cfg v) (hd : Spec.Json.depth v ≤ L) (d : Doc) (gok : PL.GeoOK d.g)
    (hp : PL.Inv d.g d.pl) (hno : (JDD.run cfg L d (JSer.pretty cfg n v)).2.1.overflowed = false) :
    (JDD.run cfg L d (JSer.pretty cfg n v)).1 = .ok ∧
    (JDD.run cfg L d (JSer.pretty cfg n v)).2.1.toVal (JDD.run cfg L d (JSer.pretty cfg n v)).2.1.root =
      SerG.denote cfg v := by
  obtain ⟨a, _, c⟩ := (C01.slot_level_refines cfg L d (JSer.pretty cfg n v) gok hp h31).1 hno
  obtain ⟨h1, h2⟩ := C02.Parse.pretty_parses_back cfg hu n L v h hd
  exact ⟨by rw [a, h1], by rw [c, h2]⟩

/-- both texts, into two arbitrary documents: the documents left read back as the same value -/
theorem pretty_compact_read_same_slot_level (cfg : Cfg) (hu : cfg.decodeUnicode = true) (h31 : 31 ≤ cfg.maxStrLen)
    (n L : Nat) (v : Val) (h : SerG.Ok cfg v) (hd : Spec.Json.depth v ≤ L)
    (d : Doc) (gok : PL.GeoOK d.g) (hp : PL.Inv d.g d.pl) (d' : Doc) (gok' : PL.GeoOK d'.g) (hp' : PL.Inv d'.g d'.pl)
    (hno : (JDD.run cfg L d (JSer.compact cfg v)).2.1.overflowed = false)
    (hno' : (JDD.run cfg L d' (JSer.pretty cfg n v)).2.1.overflowed = false) :
    (JDD.run cfg L d' (JSer.pretty cfg n v)).2.1.toVal (JDD.run cfg L d' (JSer.pretty cfg n v)).2.1.root =
      (JDD.run cfg L d (JSer.compact cfg v)).2.1.toVal (JDD.run cfg L d (JSer.compact cfg v)).2.1.root := by
  rw [(serialized_text_read_back_slot_level cfg hu h31 L v h hd d gok hp hno).2,
    (pretty_text_read_back_slot_level cfg hu h31 n L v h hd d' gok' hp' hno').2]

/-- when the document is not a bare number, whatever follows the pretty text: exactly the text is consumed -/
theorem pretty_consumed_slot_level (cfg : Cfg) (hu : cfg.decodeUnicode = true) (h31 : 31 ≤ cfg.maxStrLen)
    (n L : Nat) (v : Val) (h : SerG.Ok cfg v) (hd : Spec.Json.depth v ≤ L)
    (hn : JD.isNumberVal (SerG.denote cfg v) = false) (rest : List Byte) (d : Doc) (gok : PL.GeoOK d.g)
    (hp : PL.Inv d.g d.pl) (hno : (JDD.run cfg L d (JSer.pretty cfg n v ++ rest)).2.1.overflowed = false) :
    (JDD.run cfg L d (JSer.pretty cfg n v ++ rest)).1 = .ok ∧
    (JDD.run cfg L d (JSer.pretty cfg n v ++ rest)).2.2 = (JSer.pretty cfg n v).length ∧
    (JDD.run cfg L d (JSer.pretty cfg n v ++ rest)).2.1.toVal (JDD.run cfg L d (JSer.pretty cfg n v ++ rest)).2.1.root =
      SerG.denote cfg v := by
  obtain ⟨a, b, c⟩ := (C01.slot_level_refines cfg L d (JSer.pretty cfg n v ++ rest) gok hp h31).1 hno
  rw [a, b, c, C02.Parse.pretty_consumed cfg hu n L v h hd hn rest]
  exact ⟨rfl, rfl, rfl⟩

end C02

/-! ## C07 — round trips through the document -/
namespace C07
open DL JDD
open JD (Byte Val Cfg Code)

/-- **C07 JSON round trip, slot level** (from `C07.json_roundtrip_all`): without the NaN/Infinity options, for every
    raw-free document value with 64-bit integers, strings within the limit and nesting within the limit,
    `deserializeJson(serializeJson(v))` into ANY document with an allocator that does not fail: `Ok`, the whole text
    consumed, and the document left reads back as `readBack cfg v`. -/
theorem json_roundtrip_slot_level (cfg : Cfg) (L : Nat) (v : Val) (hcfg : cfg.decodeUnicode = true)
    (hnan : cfg.nan = false) (hinf : cfg.inf = false)
    (h2 : RawFree v) (h3 : IntsInRange v) (h4 : StrsWithin cfg.maxStrLen v) (hd : depth v ≤ L)
    (h31 : 31 ≤ cfg.maxStrLen) (d : Doc) (gok : PL.GeoOK d.g) (hp : PL.Inv d.g d.pl)
    (hno : (JDD.run cfg L d (JSer.compact cfg v)).2.1.overflowed = false) :
    (JDD.run cfg L d (JSer.compact cfg v)).1 = .ok ∧
    (JDD.run cfg L d (JSer.compact cfg v)).2.2 = (JSer.compact cfg v).length ∧
    (JDD.run cfg L d (JSer.compact cfg v)).2.1.toVal (JDD.run cfg L d (JSer.compact cfg v)).2.1.root =
      readBack cfg v := by
  obtain ⟨a, b, c⟩ := (C01.slot_level_refines cfg L d (JSer.compact cfg v) gok hp h31).1 hno
  rw [a, b, c, json_roundtrip_all cfg L v hcfg hnan hinf h2 h3 h4 hd]
  exact ⟨rfl, rfl, rfl⟩

/-- **C07 document → JSON → document, slot level** (from `C07.json_of_document`): any options; floats `±0` or finite
    within `1e-300 ≤ |x| ≤ 1e300`, no repeated keys. The document left is `CloseDoc` to `v`, and when `v` has no float
    node it is `normInt v` and compares equal to `v` both ways. -/
theorem json_of_document_slot_level (cfg : Cfg) (L : Nat) (v : Val) (hcfg : cfg.decodeUnicode = true)
    (h2 : RawFree v) (h5 : NoDupKeys v) (h3 : IntsInRange v) (hf : FloatsInRange v) (h4 : StrsWithin cfg.maxStrLen v)
    (hd : depth v ≤ L) (h31 : 31 ≤ cfg.maxStrLen) (d : Doc) (gok : PL.GeoOK d.g) (hp : PL.Inv d.g d.pl)
    (hno : (JDD.run cfg L d (JSer.compact cfg v)).2.1.overflowed = false) :
    (JDD.run cfg L d (JSer.compact cfg v)).1 = .ok ∧
    (JDD.run cfg L d (JSer.compact cfg v)).2.2 = (JSer.compact cfg v).length ∧
    (JDD.run cfg L d (JSer.compact cfg v)).2.1.toVal (JDD.run cfg L d (JSer.compact cfg v)).2.1.root =
      readBack cfg v ∧
    CloseDoc v ((JDD.run cfg L d (JSer.compact cfg v)).2.1.toVal (JDD.run cfg L d (JSer.compact cfg v)).2.1.root) ∧
    (NoFloat v →
      (JDD.run cfg L d (JSer.compact cfg v)).2.1.toVal (JDD.run cfg L d (JSer.compact cfg v)).2.1.root = normInt v ∧
      Cmp.compare ((JDD.run cfg L d (JSer.compact cfg v)).2.1.toVal
        (JDD.run cfg L d (JSer.compact cfg v)).2.1.root) v = .equal ∧
      Cmp.compare v ((JDD.run cfg L d (JSer.compact cfg v)).2.1.toVal
        (JDD.run cfg L d (JSer.compact cfg v)).2.1.root) = .equal) := by
  obtain ⟨a, b, c⟩ := (C01.slot_level_refines cfg L d (JSer.compact cfg v) gok hp h31).1 hno
  obtain ⟨r, cd, nf⟩ := json_of_document cfg L v hcfg h2 h5 h3 hf h4 hd
  rw [a, b, c, r]
  refine ⟨rfl, rfl, rfl, cd, fun h1 => ?_⟩
  obtain ⟨e1, e2, e3, _, _⟩ := nf h1
  exact ⟨e1, e2, e3⟩

/-- **C07 MessagePack round trip, slot level** (from `C07.msgpack_roundtrip`, i.e. `C09.roundtrip`):
    `deserializeMsgPack(serializeMsgPack(v))` into ANY document with an allocator that does not fail: `Ok`, exactly the
    bytes written consumed (whatever follows), and the document left reads back as `C09.norm v`. -/
theorem msgpack_roundtrip_slot_level (env : MD.Env) (L : Nat) (v : Val) (hr : C09.RawFree v)
    (hw : C09.WithinLimits env v) (hd : C09.depth v ≤ L) (rest : List Byte) (d : Doc) (gok : PL.GeoOK d.g)
    (hp : PL.Inv d.g d.pl) (hno : (MDD.run env L d (MD.ser v ++ rest)).2.1.overflowed = false) :
    (MDD.run env L d (MD.ser v ++ rest)).1 = .ok ∧ (MDD.run env L d (MD.ser v ++ rest)).2.2 = (MD.ser v).length ∧
    (MDD.run env L d (MD.ser v ++ rest)).2.1.toVal (MDD.run env L d (MD.ser v ++ rest)).2.1.root = C09.norm v := by
  obtain ⟨a, b, c⟩ := (C09.slot_level_refines env L d (MD.ser v ++ rest) gok hp).1 hno
  rw [a, b, c, msgpack_roundtrip env L v hr hw hd rest]
  exact ⟨rfl, rfl, rfl⟩

/-- **C07 cross-format round trip, slot level** (from `C07.cross_format`). A JSON text `t` deserialized with `Ok` into a
    document `d` (`Ok` excludes an allocation failure) leaves the value `V := toVal root`; `serializeMsgPack` of it,
    followed by anything, deserialized into ANY document `d'` with an allocator that does not fail: `Ok`, exactly the bytes
    written consumed, and `d'` reads back as `C09.norm V`; if `V` holds no NaN, `norm V == V` and `V == norm V`. -/
theorem cross_format_slot_level (cfg : Cfg) (env : MD.Env) (L L' : Nat) (t : List Byte) (h31 : 31 ≤ cfg.maxStrLen)
    (d : Doc) (gok : PL.GeoOK d.g) (hp : PL.Inv d.g d.pl) (d' : Doc) (gok' : PL.GeoOK d'.g) (hp' : PL.Inv d'.g d'.pl)
    (hok : (JDD.run cfg L d t).1 = .ok) (hm : cfg.maxStrLen ≤ env.maxStrLen) (hL : L ≤ L') (ht : t.length < 2^32)
    (rest : List Byte)
    (hno' : (MDD.run env L' d'
      (MD.ser ((JDD.run cfg L d t).2.1.toVal (JDD.run cfg L d t).2.1.root) ++ rest)).2.1.overflowed = false) :
    let V := (JDD.run cfg L d t).2.1.toVal (JDD.run cfg L d t).2.1.root
    let R := MDD.run env L' d' (MD.ser V ++ rest)
    R.1 = .ok ∧ R.2.2 = (MD.ser V).length ∧ R.2.1.toVal R.2.1.root = C09.norm V ∧
    (CrossFormat.NoNaN V →
      Cmp.compare (R.2.1.toVal R.2.1.root) V = .equal ∧ Cmp.compare V (R.2.1.toVal R.2.1.root) = .equal ∧
      C18.vEq (R.2.1.toVal R.2.1.root) V = true ∧ C18.vEq V (R.2.1.toVal R.2.1.root) = true) := by
  intro V R
  obtain ⟨hok0, _, hV⟩ := C01.ok_refines cfg L d t gok hp h31 hok
  have hVe : V = (JD.run cfg L t).2.1 := hV
  obtain ⟨a, b, c⟩ := (C09.slot_level_refines env L' d' (MD.ser V ++ rest) gok' hp').1 hno'
  obtain ⟨x, y⟩ := cross_format cfg env L L' t hok0 hm hL ht rest
  rw [← hVe] at x y
  have a' : R.1 = _ := a
  have b' : R.2.2 = _ := b
  have c' : R.2.1.toVal R.2.1.root = _ := c
  rw [a', b', c', x]
  exact ⟨rfl, rfl, rfl, y⟩

end C07

/-! ## C12 — number literals arrive in the document -/
namespace C12
open DL JDD
open JD (Byte Val Cfg Code)
open Spec.Dialect (DWs Value NumTok Trailer)

/-- the bytes of an RFC number literal -/
def NumByte (c : UInt8) : Prop :=
  (0x30 ≤ c ∧ c ≤ 0x39) ∨ c = 0x2B ∨ c = 0x2D ∨ c = 0x2E ∨ c = 0x65 ∨ c = 0x45

theorem numByte_inNumber (cfg : Cfg) {c : UInt8} (h : NumByte c) : JD.inNumber cfg c = true := by
  unfold JD.inNumber
  rcases h with ⟨h1, h2⟩ | h | h | h | h | h
  · simp [h1, h2]
  · subst h; simp
  · subst h; simp
  · subst h; simp
  · subst h; cases (cfg.nan || cfg.inf) <;> simp
  · subst h; cases (cfg.nan || cfg.inf) <;> simp

theorem numByte_ne_n {c : UInt8} (h : NumByte c) : c ≠ 0x6E := by
  rintro rfl
  rcases h with ⟨_, h2⟩ | h | h | h | h | h
  · exact absurd h2 (by decide)
  all_goals exact absurd h (by decide)

theorem head_ne_n {lit : List UInt8} (h : ∀ c ∈ lit, NumByte c) : lit.head? ≠ some 0x6E := by
  cases lit with
  | nil => intro h0; cases h0
  | cons c r =>
    intro h0
    simp only [List.head?_cons, Option.some.injEq] at h0
    exact numByte_ne_n (h c (List.mem_cons_self ..)) h0

/-- the slot-level run on `white space ++ number token ++ trailer`: `Ok`, the number at the root, the token and (if there
    is one) the look-ahead byte consumed -/
theorem number_token_slot_level (cfg : Cfg) (h31 : 31 ≤ cfg.maxStrLen) (L : Nat) {lit : List UInt8} {pn : JD.PNum}
    {n : JD.Num} (hb : ∀ c ∈ lit, NumByte c) (hlen : lit.length ≤ 63) (hpn : JD.parseNumber cfg lit = pn)
    (hv : (match pn with
      | .uint n => some (Val.num (.uint n)) | .sint n => some (.num (.sint n)) | .f32 b => some (.num (.f32 b))
      | .f64 b => some (.num (JD.storeDouble b)) | .invalid => none | .fault => none) = some (.num n))
    (w rest : List UInt8) (hw : DWs cfg w) (htr : rest.headD 0 = 0 ∨ JD.isWs (rest.headD 0) = true)
    (d : Doc) (gok : PL.GeoOK d.g) (hp : PL.Inv d.g d.pl)
    (hno : (JDD.run cfg L d (w ++ lit ++ rest : List UInt8)).2.1.overflowed = false) :
    (JDD.run cfg L d (w ++ lit ++ rest : List UInt8)).1 = .ok ∧
    (JDD.run cfg L d (w ++ lit ++ rest : List UInt8)).2.2 = w.length + lit.length + min 1 rest.length ∧
    (JDD.run cfg L d (w ++ lit ++ rest : List UInt8)).2.1.toVal (JDD.run cfg L d (w ++ lit ++ rest : List UInt8)).2.1.root = .num n := by
  have tok : NumTok cfg lit (.num n) := by
    refine ⟨hlen, fun c hc => numByte_inNumber cfg (hb c hc), head_ne_n hb, ?_⟩
    unfold Spec.Dialect.numDen
    rw [hpn]
    cases pn <;> exact hv
  have hrun := C16.run_doc cfg (L := L) (rest := rest) hw (Value.num L lit _ tok) (fun _ => htr)
  obtain ⟨a, b, c⟩ := (C01.slot_level_refines cfg L d (w ++ lit ++ rest : List UInt8) gok hp h31).1 hno
  rw [a, b, c, hrun]
  exact ⟨rfl, rfl, rfl⟩

theorem numByte_of_digits {ds : List UInt8} (h : Digits.AllDigits ds) : ∀ c ∈ ds, NumByte c :=
  fun c hc => Or.inl (h c hc)

/-- **C12, slot level (unsigned).** Every integer literal `n < 2^64`, written with any number `k` of leading zeros (the
    token fits the 63-byte number buffer), after white space / comments `w` and followed by the end of the input, a NUL or
    white space, read by `JDD.run` into ANY document with an allocator that does not fail: `Ok`, and exactly the integer
    `n` (unsigned) is at the root. -/
theorem integer_literal_slot_level (cfg : Cfg) (h31 : 31 ≤ cfg.maxStrLen) (L : Nat) (n k : Nat) (h : n < 2 ^ 64)
    (hlen : (List.replicate k (0x30 : UInt8) ++ JS.digits n).length ≤ 63)
    (w rest : List UInt8) (hw : DWs cfg w) (htr : rest.headD 0 = 0 ∨ JD.isWs (rest.headD 0) = true)
    (d : Doc) (gok : PL.GeoOK d.g) (hp : PL.Inv d.g d.pl)
    (hno : (JDD.run cfg L d (w ++ (List.replicate k 0x30 ++ JS.digits n) ++ rest : List UInt8)).2.1.overflowed = false) :
    (JDD.run cfg L d (w ++ (List.replicate k 0x30 ++ JS.digits n) ++ rest : List UInt8)).1 = .ok ∧
    (JDD.run cfg L d (w ++ (List.replicate k 0x30 ++ JS.digits n) ++ rest : List UInt8)).2.1.toVal
      (JDD.run cfg L d (w ++ (List.replicate k 0x30 ++ JS.digits n) ++ rest : List UInt8)).2.1.root = .num (.uint n) := by
  obtain ⟨a, _, c⟩ := number_token_slot_level cfg h31 L (pn := .uint n) (n := .uint n)
    (numByte_of_digits (Digits.zeros_digits k n).1) hlen (uint_parse cfg n k h) rfl w rest hw htr d gok hp hno
  exact ⟨a, c⟩

/-- **C12, slot level (signed).** `-` followed by any number of zeros and the digits of `n ≤ 2^63` leaves exactly the
    signed integer `-n` at the root (for `n = 0`: `-0` is the signed integer 0). -/
theorem negative_integer_literal_slot_level (cfg : Cfg) (h31 : 31 ≤ cfg.maxStrLen) (L : Nat) (n k : Nat)
    (h : n ≤ 2 ^ 63) (hlen : (0x2D :: (List.replicate k (0x30 : UInt8) ++ JS.digits n)).length ≤ 63)
    (w rest : List UInt8) (hw : DWs cfg w) (htr : rest.headD 0 = 0 ∨ JD.isWs (rest.headD 0) = true)
    (d : Doc) (gok : PL.GeoOK d.g) (hp : PL.Inv d.g d.pl)
    (hno : (JDD.run cfg L d (w ++ (0x2D :: (List.replicate k 0x30 ++ JS.digits n)) ++ rest : List UInt8)).2.1.overflowed = false) :
    (JDD.run cfg L d (w ++ (0x2D :: (List.replicate k 0x30 ++ JS.digits n)) ++ rest : List UInt8)).1 = .ok ∧
    (JDD.run cfg L d (w ++ (0x2D :: (List.replicate k 0x30 ++ JS.digits n)) ++ rest : List UInt8)).2.1.toVal
      (JDD.run cfg L d (w ++ (0x2D :: (List.replicate k 0x30 ++ JS.digits n)) ++ rest : List UInt8)).2.1.root =
        .num (.sint (-(n : Int))) := by
  have hb : ∀ c ∈ (0x2D :: (List.replicate k (0x30 : UInt8) ++ JS.digits n)), NumByte c := by
    intro c hc
    rcases List.mem_cons.mp hc with e | hc
    · exact Or.inr (Or.inr (Or.inl e))
    · exact numByte_of_digits (Digits.zeros_digits k n).1 c hc
  obtain ⟨a, _, c⟩ := number_token_slot_level cfg h31 L (pn := .sint (-(n : Int))) (n := .sint (-(n : Int)))
    hb hlen (sint_parse' cfg n k h) rfl w rest hw htr d gok hp hno
  exact ⟨a, c⟩

/-- the serializer's text of a 64-bit unsigned integer (20 digits at most: the length hypothesis is discharged), alone in
    the input, leaves that integer at the root -/
theorem printed_integer_slot_level (cfg : Cfg) (h31 : 31 ≤ cfg.maxStrLen) (L : Nat) (n : Nat) (h : n < 2 ^ 64)
    (d : Doc) (gok : PL.GeoOK d.g) (hp : PL.Inv d.g d.pl)
    (hno : (JDD.run cfg L d (JS.printNum cfg (.uint n))).2.1.overflowed = false) :
    (JDD.run cfg L d (JS.printNum cfg (.uint n))).1 = .ok ∧
    (JDD.run cfg L d (JS.printNum cfg (.uint n))).2.1.toVal (JDD.run cfg L d (JS.printNum cfg (.uint n))).2.1.root =
      .num (.uint n) := by
  have e : JS.printNum cfg (.uint n) = [] ++ (List.replicate 0 0x30 ++ JS.digits n) ++ [] := by
    rw [int_print_unsigned]; simp
  rw [e] at hno ⊢
  exact integer_literal_slot_level cfg h31 L n 0 h
    (by have := FloatLen.digits_length_le_20 n h; simp only [List.replicate_zero, List.nil_append]; omega)
    [] [] DWs.nil (Or.inl rfl) d gok hp hno

theorem numByte_frac {f : List UInt8} (hf : Spec.Json.FracPart f) : ∀ c ∈ f, NumByte c := by
  rcases hf with rfl | ⟨ds, hd, rfl⟩
  · intro c hc; cases hc
  · intro c hc
    rcases List.mem_cons.mp hc with e | hc
    · exact Or.inr (Or.inr (Or.inr (Or.inl e)))
    · exact Or.inl (hd.2 c hc)

theorem numByte_exp {e : List UInt8} (he : Spec.Json.ExpPart e) : ∀ c ∈ e, NumByte c := by
  rcases he with rfl | ⟨x, sg, ds, hx, hsg, hd, rfl⟩
  · intro c hc; cases hc
  · intro c hc
    rcases List.mem_cons.mp hc with e | hc
    · subst e
      rcases hx with rfl | rfl
      · exact Or.inr (Or.inr (Or.inr (Or.inr (Or.inl rfl))))
      · exact Or.inr (Or.inr (Or.inr (Or.inr (Or.inr rfl))))
    · rcases List.mem_append.mp hc with hc | hc
      · rcases hsg with rfl | rfl | rfl
        · cases hc
        · rw [List.mem_singleton] at hc; exact Or.inr (Or.inl hc)
        · rw [List.mem_singleton] at hc; exact Or.inr (Or.inr (Or.inl hc))
      · exact Or.inl (hd.2 c hc)

/-- **C12, slot level (the binary64 path, from `C12.parse_double_error`).** For every literal `-? ip f e` (exponent below
    the saturation threshold, at most 63 bytes) whose value `v` satisfies `1e-300 ≤ |v| ≤ 1e300`, after white space and
    followed by the end of the input, a NUL or white space: the slot-level run answers `Ok` and the root holds the exact
    integer, a float, or a double; and WHENEVER `parseNumber` produced a binary64 pattern `bits`, the root holds
    `storeDouble bits` where `bits` is a finite datum of the sign of the literal with `|r − v| ≤ 1e-13·|v|`. -/
theorem double_literal_slot_level (cfg : Cfg) (h31 : 31 ≤ cfg.maxStrLen) (L : Nat) (neg : Bool) {ip f e : List UInt8}
    (hip : Digits.AllDigits ip) (hne : ip ≠ []) (hf : Spec.Json.FracPart f) (he : Spec.Json.ExpPart e)
    (hx : (JD.expVal e).natAbs < 100000)
    (hlo : (10 : ℚ) ^ (-300 : Int) ≤ litAbs ip f e) (hhi : litAbs ip f e ≤ (10 : ℚ) ^ (300 : Int))
    (hlen : ((if neg then [0x2D] else []) ++ ip ++ f ++ e).length ≤ 63)
    (w rest : List UInt8) (hw : DWs cfg w) (htr : rest.headD 0 = 0 ∨ JD.isWs (rest.headD 0) = true)
    (d : Doc) (gok : PL.GeoOK d.g) (hp : PL.Inv d.g d.pl)
    (hno : (JDD.run cfg L d (w ++ ((if neg then [0x2D] else []) ++ ip ++ f ++ e) ++ rest : List UInt8)).2.1.overflowed = false) :
    let lit := (if neg then [0x2D] else []) ++ ip ++ f ++ e
    let R := JDD.run cfg L d (w ++ lit ++ rest : List UInt8)
    R.1 = .ok ∧
    (R.2.1.toVal R.2.1.root = .num (.uint (Digits.decVal ip)) ∨
      R.2.1.toVal R.2.1.root = .num (.sint (-(Digits.decVal ip : Int))) ∨
      (∃ bits, R.2.1.toVal R.2.1.root = .num (.f32 bits)) ∨
      (∃ bits, JD.parseNumber cfg lit = .f64 bits ∧ R.2.1.toVal R.2.1.root = .num (JD.storeDouble bits) ∧
        ∃ (m : Nat) (ex : Int), SF.decode SF.b64 bits = .fin neg m ex ∧ m ≠ 0 ∧
          |sval neg m ex - litVal neg ip f e| ≤ 1 / 10 ^ 13 * |litVal neg ip f e|)) := by
  intro lit R
  have hb : ∀ c ∈ lit, NumByte c := by
    intro c hc
    rcases List.mem_append.mp hc with hc | hc
    · rcases List.mem_append.mp hc with hc | hc
      · rcases List.mem_append.mp hc with hc | hc
        · cases neg
          · cases hc
          · simp only [↓reduceIte, List.mem_singleton] at hc; exact Or.inr (Or.inr (Or.inl hc))
        · exact Or.inl (hip c hc)
      · exact numByte_frac hf c hc
    · exact numByte_exp he c hc
  obtain ⟨h1, h2⟩ := parse_double_error cfg neg hip hne hf he hx hlo hhi
  have key : ∀ (pn : JD.PNum) (n : JD.Num), JD.parseNumber cfg lit = pn →
      (match pn with
        | .uint n => some (Val.num (.uint n)) | .sint n => some (.num (.sint n)) | .f32 b => some (.num (.f32 b))
        | .f64 b => some (.num (JD.storeDouble b)) | .invalid => none | .fault => none) = some (.num n) →
      R.1 = .ok ∧ R.2.1.toVal R.2.1.root = .num n := by
    intro pn n hpn hv
    obtain ⟨a, _, c⟩ := number_token_slot_level cfg h31 L hb hlen hpn hv w rest hw htr d gok hp hno
    exact ⟨a, c⟩
  rcases h1 with h1 | h1 | ⟨bits, h1⟩ | ⟨bits, h1⟩
  · obtain ⟨a, c⟩ := key _ _ h1 rfl
    exact ⟨a, Or.inl c⟩
  · obtain ⟨a, c⟩ := key _ _ h1 rfl
    exact ⟨a, Or.inr (Or.inl c)⟩
  · obtain ⟨a, c⟩ := key _ _ h1 rfl
    exact ⟨a, Or.inr (Or.inr (Or.inr ⟨bits, h1, c, h2 bits h1⟩))⟩
  · obtain ⟨a, c⟩ := key _ _ h1 rfl
    exact ⟨a, Or.inr (Or.inr (Or.inl ⟨bits, c⟩))⟩

end C12

/-! ## C16 — one call consumes one document; successive calls into the same document -/
namespace C16
open DL JDD
open JD (Byte Val Cfg Code)

/-- **C16, slot level (JSON, from `C16.exact_consumption`).** Whatever follows a (non-number) RFC 8259 value — more
    documents, garbage, nothing — the slot-level run with an allocator that does not fail answers `Ok`, has taken exactly
    the bytes of the leading white space and of the value, and leaves the value in the document. -/
theorem exact_consumption_slot_level (cfg : Cfg) (hu : cfg.decodeUnicode = true) (h31 : 31 ≤ cfg.maxStrLen) {L : Nat}
    {t : List Byte} {v : Val} (h : Spec.Json.Value cfg L t v) (hn : JD.isNumberVal v = false) (w rest : List Byte)
    (hw : Spec.Json.Ws w) (d : Doc) (gok : PL.GeoOK d.g) (hp : PL.Inv d.g d.pl)
    (hno : (JDD.run cfg L d (w ++ t ++ rest)).2.1.overflowed = false) :
    (JDD.run cfg L d (w ++ t ++ rest)).1 = .ok ∧ (JDD.run cfg L d (w ++ t ++ rest)).2.2 = w.length + t.length ∧
    (JDD.run cfg L d (w ++ t ++ rest)).2.1.toVal (JDD.run cfg L d (w ++ t ++ rest)).2.1.root = v := by
  obtain ⟨a, b, c⟩ := (C01.slot_level_refines cfg L d (w ++ t ++ rest) gok hp h31).1 hno
  rw [a, b, c, exact_consumption cfg hu h hn w rest hw]
  exact ⟨rfl, rfl, rfl⟩

/-- for a number the deserializer looks one byte further and takes that byte from the reader (if there is one) -/
theorem exact_consumption_number_slot_level (cfg : Cfg) (h31 : 31 ≤ cfg.maxStrLen) {L : Nat} {t : List Byte}
    (h : Spec.Json.NumLit t) (w rest : List Byte) (hw : Spec.Json.Ws w) (hd : JD.Delim cfg rest)
    (d : Doc) (gok : PL.GeoOK d.g) (hp : PL.Inv d.g d.pl)
    (hno : (JDD.run cfg L d (w ++ t ++ rest)).2.1.overflowed = false) :
    (JDD.run cfg L d (w ++ t ++ rest)).2.1.toVal (JDD.run cfg L d (w ++ t ++ rest)).2.1.root = Spec.Json.numVal cfg t ∧
    (JDD.run cfg L d (w ++ t ++ rest)).2.2 = w.length + t.length + min 1 rest.length := by
  obtain ⟨_, b, c⟩ := (C01.slot_level_refines cfg L d (w ++ t ++ rest) gok hp h31).1 hno
  rw [b, c]
  exact exact_consumption_number cfg h w rest hw hd

/-- the same for the dialect (comments, single quotes, lenient numbers; from `C16.run_doc`): `|w| + |body|` bytes, one
    more after a number if there is one -/
theorem dialect_consumption_slot_level (cfg : Cfg) (h31 : 31 ≤ cfg.maxStrLen) {L : Nat} {w body rest : List Byte}
    {v : Val} (hw : Spec.Dialect.DWs cfg w) (hv : Spec.Dialect.Value cfg L body v) (htr : Spec.Dialect.Trailer v rest)
    (d : Doc) (gok : PL.GeoOK d.g) (hp : PL.Inv d.g d.pl)
    (hno : (JDD.run cfg L d (w ++ body ++ rest)).2.1.overflowed = false) :
    (JDD.run cfg L d (w ++ body ++ rest)).1 = .ok ∧
    (JDD.run cfg L d (w ++ body ++ rest)).2.2 =
      w.length + body.length + (if JD.isNumberVal v then min 1 rest.length else 0) ∧
    (JDD.run cfg L d (w ++ body ++ rest)).2.1.toVal (JDD.run cfg L d (w ++ body ++ rest)).2.1.root = v := by
  obtain ⟨a, b, c⟩ := (C01.slot_level_refines cfg L d (w ++ body ++ rest) gok hp h31).1 hno
  rw [a, b, c, run_doc cfg hw hv htr]
  exact ⟨rfl, rfl, rfl⟩

/-- **C16, slot level (MessagePack, from `C16.msgpack_exact_consumption`)**: exactly the bytes of one object are consumed,
    and code and document do not depend on what follows (nor on the document deserialized into) -/
theorem msgpack_exact_consumption_slot_level (env : MD.Env) (L : Nat) (v : Val) (hr : C09.RawFree v)
    (hw : C09.WithinLimits env v) (hd : C09.depth v ≤ L) (rest rest' : List Byte)
    (d : Doc) (gok : PL.GeoOK d.g) (hp : PL.Inv d.g d.pl) (d' : Doc) (gok' : PL.GeoOK d'.g) (hp' : PL.Inv d'.g d'.pl)
    (hno : (MDD.run env L d (MD.ser v ++ rest)).2.1.overflowed = false)
    (hno' : (MDD.run env L d' (MD.ser v ++ rest')).2.1.overflowed = false) :
    (MDD.run env L d (MD.ser v ++ rest)).2.2 = (MD.ser v).length ∧
    (MDD.run env L d (MD.ser v ++ rest)).1 = (MDD.run env L d' (MD.ser v ++ rest')).1 ∧
    (MDD.run env L d (MD.ser v ++ rest)).2.1.toVal (MDD.run env L d (MD.ser v ++ rest)).2.1.root =
      (MDD.run env L d' (MD.ser v ++ rest')).2.1.toVal (MDD.run env L d' (MD.ser v ++ rest')).2.1.root := by
  obtain ⟨a, b, c⟩ := (C09.slot_level_refines env L d (MD.ser v ++ rest) gok hp).1 hno
  obtain ⟨a', _, c'⟩ := (C09.slot_level_refines env L d' (MD.ser v ++ rest') gok' hp').1 hno'
  rw [a, b, c, a', c']
  exact msgpack_exact_consumption env L v hr hw hd rest rest'

/-! ### successive calls INTO THE SAME DOCUMENT

   `streamDoc f k d t`: the loop `C16.stream` (AJ/Lemmas/StreamSeq.lean) at slot level: at most `k` calls of the slot-level
   deserializer `f`, each on the bytes the previous call left AND INTO THE DOCUMENT the previous call left (the call clears
   it and reuses its pools), recording the code and the value the document reads back as after each call. -/

/-- at most `k` successive calls on one stream into one document -/
def streamDoc (f : Doc → List Byte → Code × Doc × Nat) : Nat → Doc → List Byte → List (Code × Val)
  | 0, _, _ => []
  | k + 1, d, t =>
    ((f d t).1, (f d t).2.1.toVal (f d t).2.1.root) ::
      (if (f d t).1 = .ok then
        (if t.drop (f d t).2.2 = [] then [] else streamDoc f k (f d t).2.1 (t.drop (f d t).2.2))
       else [])

/-- none of the calls the loop makes meets an allocation failure -/
def NoFail (f : Doc → List Byte → Code × Doc × Nat) : Nat → Doc → List Byte → Prop
  | 0, _, _ => True
  | k + 1, d, t =>
    (f d t).2.1.overflowed = false ∧
      ((f d t).1 = .ok → t.drop (f d t).2.2 ≠ [] → NoFail f k (f d t).2.1 (t.drop (f d t).2.2))

/-- generic step: if every call without allocation failure keeps the invariant `I` of the document and agrees with the
    value-level `g`, the slot-level loop is the value-level loop -/
theorem streamDoc_refines (f : Doc → List Byte → Code × Doc × Nat) (g : List Byte → Code × Val × Nat)
    (I : Doc → Prop)
    (hstep : ∀ d t, I d → (f d t).2.1.overflowed = false →
      I (f d t).2.1 ∧ (f d t).1 = (g t).1 ∧ (f d t).2.2 = (g t).2.2 ∧ (f d t).2.1.toVal (f d t).2.1.root = (g t).2.1) :
    ∀ (k : Nat) (d : Doc) (t : List Byte), I d → NoFail f k d t → streamDoc f k d t = stream g k t := by
  intro k
  induction k with
  | zero => intro d t _ _; rfl
  | succ k ih =>
    intro d t hI hnf
    obtain ⟨hno, hrest⟩ := hnf
    obtain ⟨hI', a, b, c⟩ := hstep d t hI hno
    have e1 : streamDoc f (k + 1) d t = ((f d t).1, (f d t).2.1.toVal (f d t).2.1.root) ::
        (if (f d t).1 = .ok then
          (if t.drop (f d t).2.2 = [] then [] else streamDoc f k (f d t).2.1 (t.drop (f d t).2.2))
         else []) := rfl
    have e2 : stream g (k + 1) t = ((g t).1, (g t).2.1) ::
        (if (g t).1 = .ok then (if t.drop (g t).2.2 = [] then [] else stream g k (t.drop (g t).2.2)) else []) := rfl
    rw [e1, e2, c]
    by_cases h1 : (f d t).1 = .ok
    · by_cases h2 : t.drop (f d t).2.2 = []
      · rw [if_pos h1, if_pos h2, ← a, ← b, if_pos h1, if_pos h2]
      · rw [if_pos h1, if_neg h2, ih _ _ hI' (hrest h1 h2), ← a, ← b, if_pos h1, if_neg h2]
    · rw [if_neg h1, ← a, if_neg h1]

/-- **C16, slot level: successive `deserializeJson` calls into the same document.** `k` calls of `JDD.run`, each on what
    the previous one left of the input and INTO THE DOCUMENT the previous one left, none of them meeting an allocation
    failure: the codes and the values the document reads back as after each call are exactly those of the value-level loop
    `C16.stream (JD.run cfg L)` — to which all the sequence theorems of AJ/Props/C16Seq.lean apply. -/
theorem sequence_slot_level (cfg : Cfg) (h31 : 31 ≤ cfg.maxStrLen) (L : Nat) (k : Nat) (d : Doc) (t : List Byte)
    (gok : PL.GeoOK d.g) (hp : PL.Inv d.g d.pl) (hnf : NoFail (JDD.run cfg L) k d t) :
    streamDoc (JDD.run cfg L) k d t = stream (JD.run cfg L) k t := by
  refine streamDoc_refines (JDD.run cfg L) (JD.run cfg L) (fun d => PL.GeoOK d.g ∧ PL.Inv d.g d.pl) ?_ k d t
    ⟨gok, hp⟩ hnf
  intro d t ⟨gok, hp⟩ hno
  obtain ⟨a, b, c⟩ := (C01.slot_level_refines cfg L d t gok hp h31).1 hno
  obtain ⟨F, w, _⟩ := JDD.run_wf cfg L t gok hp
  exact ⟨⟨by rw [JDD.run_g cfg L t gok hp]; exact gok, w.pool⟩, a, b, c⟩

/-- **C16, slot level: NDJSON / JSON Lines / concatenated JSON into one document** (from `C16.json_sequence`): `n ≥ 1`
    documents `w_i ++ body_i` of the dialect followed by white space `tail`, separator condition `Sep` (after a number
    only). For every `k`, `k` calls into the same document return the first `k` of `(Ok, v_1), …, (Ok, v_n),
    (EmptyInput, null)` (the last entry only if something is left of `tail`). -/
theorem json_sequence_slot_level (cfg : Cfg) (h31 : 31 ≤ cfg.maxStrLen) (L : Nat) (ds : List JDoc)
    (tail : List Byte) (hne : ds ≠ []) (hok : ∀ x ∈ ds, x.OK cfg L) (htail : Spec.Dialect.DWs cfg tail)
    (hsep : Sep ds tail) (k : Nat) (d : Doc) (gok : PL.GeoOK d.g) (hp : PL.Inv d.g d.pl)
    (hnf : NoFail (JDD.run cfg L) k d (cat ds tail)) :
    streamDoc (JDD.run cfg L) k d (cat ds tail) =
      (ds.map (fun x => (Code.ok, x.v)) ++ (if left ds tail = [] then [] else [(Code.empty, Val.null)])).take k := by
  rw [sequence_slot_level cfg h31 L k d _ gok hp hnf]
  exact json_sequence cfg L ds tail hne hok htail hsep k

/-- two documents, with the result of the first call named (`R1`) -/
theorem two_documents_aux (cfg : Cfg) (h31 : 31 ≤ cfg.maxStrLen) (L : Nat) {w1 b1 w2 b2 rest : List Byte}
    {v1 v2 : Val} (hw1 : Spec.Dialect.DWs cfg w1) (hv1 : Spec.Dialect.Value cfg L b1 v1)
    (hn1 : JD.isNumberVal v1 = false) (hw2 : Spec.Dialect.DWs cfg w2) (hv2 : Spec.Dialect.Value cfg L b2 v2)
    (htr : Spec.Dialect.Trailer v2 rest) (d : Doc) (gok : PL.GeoOK d.g) (hp : PL.Inv d.g d.pl)
    (R1 : Code × Doc × Nat) (hR1 : R1 = JDD.run cfg L d (w1 ++ b1 ++ (w2 ++ b2 ++ rest)))
    (hno1 : R1.2.1.overflowed = false)
    (hno2 : (JDD.run cfg L R1.2.1 ((w1 ++ b1 ++ (w2 ++ b2 ++ rest)).drop R1.2.2)).2.1.overflowed = false) :
    R1.1 = .ok ∧ R1.2.1.toVal R1.2.1.root = v1 ∧
    (JDD.run cfg L R1.2.1 ((w1 ++ b1 ++ (w2 ++ b2 ++ rest)).drop R1.2.2)).1 = .ok ∧
    (JDD.run cfg L R1.2.1 ((w1 ++ b1 ++ (w2 ++ b2 ++ rest)).drop R1.2.2)).2.1.toVal
      (JDD.run cfg L R1.2.1 ((w1 ++ b1 ++ (w2 ++ b2 ++ rest)).drop R1.2.2)).2.1.root = v2 ∧
    (w1 ++ b1 ++ (w2 ++ b2 ++ rest)).drop R1.2.2 = w2 ++ b2 ++ rest := by
  have hno1' := hno1
  rw [hR1] at hno1'
  obtain ⟨a1, a2, a3⟩ := dialect_consumption_slot_level cfg h31 hw1 hv1
    (trailer_of_not_number hn1 (w2 ++ b2 ++ rest)) d gok hp hno1'
  rw [hn1] at a2
  rw [← hR1] at a1 a2 a3
  have hdrop : (w1 ++ b1 ++ (w2 ++ b2 ++ rest)).drop R1.2.2 = w2 ++ b2 ++ rest := by
    rw [a2]
    have : w1.length + b1.length + (if false = true then min 1 (w2 ++ b2 ++ rest).length else 0) =
        (w1 ++ b1).length := by simp
    rw [this, List.drop_left]
  have gok1 : PL.GeoOK R1.2.1.g := by
    rw [hR1, JDD.run_g cfg L _ gok hp]; exact gok
  have hp1 : PL.Inv R1.2.1.g R1.2.1.pl := by
    obtain ⟨F, wf, _⟩ := JDD.run_wf cfg L (w1 ++ b1 ++ (w2 ++ b2 ++ rest)) gok hp
    rw [hR1]; exact wf.pool
  rw [hdrop] at hno2 ⊢
  obtain ⟨b1', _, b3⟩ := dialect_consumption_slot_level cfg h31 hw2 hv2 htr R1.2.1 gok1 hp1 hno2
  exact ⟨a1, a3, b1', b3, rfl⟩

/-- two documents, spelled out: `w1 body1 w2 body2 rest` (the first value not a number, so that no separator is needed;
    after the second the trailer condition) read by two calls into the same document: both `Ok`, the document reads back
    as `v1` after the first call and as `v2` after the second, which started from the document holding `v1`. -/
theorem two_documents_slot_level (cfg : Cfg) (h31 : 31 ≤ cfg.maxStrLen) (L : Nat) {w1 b1 w2 b2 rest : List Byte}
    {v1 v2 : Val} (hw1 : Spec.Dialect.DWs cfg w1) (hv1 : Spec.Dialect.Value cfg L b1 v1)
    (hn1 : JD.isNumberVal v1 = false) (hw2 : Spec.Dialect.DWs cfg w2) (hv2 : Spec.Dialect.Value cfg L b2 v2)
    (htr : Spec.Dialect.Trailer v2 rest) (d : Doc) (gok : PL.GeoOK d.g) (hp : PL.Inv d.g d.pl)
    (hno1 : (JDD.run cfg L d (w1 ++ b1 ++ (w2 ++ b2 ++ rest))).2.1.overflowed = false)
    (hno2 : (JDD.run cfg L (JDD.run cfg L d (w1 ++ b1 ++ (w2 ++ b2 ++ rest))).2.1
      ((w1 ++ b1 ++ (w2 ++ b2 ++ rest)).drop
        (JDD.run cfg L d (w1 ++ b1 ++ (w2 ++ b2 ++ rest))).2.2)).2.1.overflowed = false) :
    let input := w1 ++ b1 ++ (w2 ++ b2 ++ rest)
    let r1 := JDD.run cfg L d input
    let r2 := JDD.run cfg L r1.2.1 (input.drop r1.2.2)
    r1.1 = .ok ∧ r1.2.1.toVal r1.2.1.root = v1 ∧ r2.1 = .ok ∧ r2.2.1.toVal r2.2.1.root = v2 ∧
      input.drop r1.2.2 = w2 ++ b2 ++ rest :=
  two_documents_aux cfg h31 L hw1 hv1 hn1 hw2 hv2 htr d gok hp _ rfl hno1 hno2

/-- **C16, slot level: successive `deserializeMsgPack` calls into the same document**: the slot-level loop without
    allocation failure is the value-level loop `C16.stream (MD.run env L .all)` -/
theorem msgpack_stream_slot_level (env : MD.Env) (L : Nat) (k : Nat) (d : Doc) (t : List Byte)
    (gok : PL.GeoOK d.g) (hp : PL.Inv d.g d.pl) (hnf : NoFail (MDD.run env L) k d t) :
    streamDoc (MDD.run env L) k d t = stream (MD.run env L .all) k t := by
  refine streamDoc_refines (MDD.run env L) (MD.run env L .all) (fun d => PL.GeoOK d.g ∧ PL.Inv d.g d.pl) ?_ k d t
    ⟨gok, hp⟩ hnf
  intro d t ⟨gok, hp⟩ hno
  obtain ⟨a, b, c⟩ := (C09.slot_level_refines env L d t gok hp).1 hno
  obtain ⟨F, w, _⟩ := C09.slot_level_wf env L d t gok hp hno
  exact ⟨⟨by rw [C09.run_geo env L d t gok hp hno]; exact gok, w.pool⟩, a, b, c⟩

/-- `n ≥ 1` serialized documents back to back, then arbitrary bytes (from `C16.msgpack_sequence_ser`): the calls into
    the same document return `norm v_1, …, norm v_n` and go on with `rest` -/
theorem msgpack_sequence_ser_slot_level (env : MD.Env) (L : Nat) (vs : List Val) (rest : List Byte) (j : Nat)
    (hne : vs ≠ []) (hv : ∀ v ∈ vs, C09.RawFree v ∧ C09.WithinLimits env v ∧ C09.depth v ≤ L)
    (d : Doc) (gok : PL.GeoOK d.g) (hp : PL.Inv d.g d.pl)
    (hnf : NoFail (MDD.run env L) (vs.length + j) d ((vs.map MD.ser).flatten ++ rest)) :
    streamDoc (MDD.run env L) (vs.length + j) d ((vs.map MD.ser).flatten ++ rest) =
      vs.map (fun v => (Code.ok, C09.norm v)) ++ cont (MD.run env L .all) j rest := by
  rw [msgpack_stream_slot_level env L _ d _ gok hp hnf]
  exact msgpack_sequence_ser env L vs rest j hne hv

end C16

/-! ## C17 — `\uXXXX` escapes arrive in the document as UTF-8 -/
namespace C17
open DL JDD
open JD (Byte Val Cfg Code)

/-- **C17, slot level (from `C17.string_document`).** The text `"` body `"` whose body is well formed per RFC 8259
    (`JD.Body`: plain bytes, two-character escapes, `\uXXXX` for BMP code points, surrogate pairs) and denotes the bytes
    `v` (the UTF-8 encoding of the code points), `v` within the string limit, deserialized into ANY document with an
    allocator that does not fail: `Ok`, the whole text consumed, and the document holds the string `v`. -/
theorem unicode_escape_slot_level (cfg : Cfg) (L : Nat) (t v : List Byte) (hcfg : cfg.decodeUnicode = true)
    (hb : JD.Body 0x22 t v) (hlen : v.length ≤ cfg.maxStrLen) (h31 : 31 ≤ cfg.maxStrLen)
    (d : Doc) (gok : PL.GeoOK d.g) (hp : PL.Inv d.g d.pl)
    (hno : (JDD.run cfg L d (0x22 :: t ++ [0x22])).2.1.overflowed = false) :
    (JDD.run cfg L d (0x22 :: t ++ [0x22])).1 = .ok ∧ (JDD.run cfg L d (0x22 :: t ++ [0x22])).2.2 = t.length + 2 ∧
    (JDD.run cfg L d (0x22 :: t ++ [0x22])).2.1.toVal (JDD.run cfg L d (0x22 :: t ++ [0x22])).2.1.root = .str v := by
  obtain ⟨a, b, c⟩ := (C01.slot_level_refines cfg L d (0x22 :: t ++ [0x22]) gok hp h31).1 hno
  rw [a, b, c, string_document cfg L t v hcfg hb hlen]
  exact ⟨rfl, rfl, rfl⟩

/-- the serializer's escaping of ANY byte string (`JSer.writeString`: `\u0000` for NUL, the short escapes, everything else
    verbatim) comes back into the document as that byte string (from `C17.roundtrip_string`) -/
theorem roundtrip_string_slot_level (cfg : Cfg) (L : Nat) (s : List Byte) (hcfg : cfg.decodeUnicode = true)
    (hlen : s.length ≤ cfg.maxStrLen) (h31 : 31 ≤ cfg.maxStrLen) (d : Doc) (gok : PL.GeoOK d.g)
    (hp : PL.Inv d.g d.pl) (hno : (JDD.run cfg L d (JSer.writeString s)).2.1.overflowed = false) :
    (JDD.run cfg L d (JSer.writeString s)).1 = .ok ∧
    (JDD.run cfg L d (JSer.writeString s)).2.1.toVal (JDD.run cfg L d (JSer.writeString s)).2.1.root = .str s := by
  obtain ⟨a, _, c⟩ := (C01.slot_level_refines cfg L d (JSer.writeString s) gok hp h31).1 hno
  rw [a, c, roundtrip_string cfg L s hcfg hlen]
  exact ⟨rfl, rfl⟩

end C17

/-! ## Non-vacuity: the fresh document `C01.ExDoc.dz` (geometry ⟨4, 1, 1⟩), default configuration

   As in AJ/Props/C01Doc.lean: the overflow flag of a slot-level run that touches slot 0 only is evaluated in the kernel;
   everything else comes from the theorems above. -/
namespace C02
open DL JDD C01.ExDoc
open JD (Byte Val Cfg Code)

/-- `serializeJson` of the string `hi` (the text `"hi"`) into `dz` -/
example : (JDD.run {} 10 dz (JSer.compact {} (.str [0x68, 0x69]))).1 = .ok ∧
    (JDD.run {} 10 dz (JSer.compact {} (.str [0x68, 0x69]))).2.1.toVal
      (JDD.run {} 10 dz (JSer.compact {} (.str [0x68, 0x69]))).2.1.root = .str [0x68, 0x69] := by
  have hs : JSer.compact {} (.str [0x68, 0x69]) = hi := by decide +kernel
  have := serialized_text_read_back_slot_level {} rfl h31 10 (.str [0x68, 0x69])
    (by simp only [SerG.Ok]; exact ⟨by decide, by decide⟩) (by decide) dz gok hp (by rw [hs]; exact ov_hi)
  simpa only [SerG.denote] using this

end C02

namespace C07
open DL JDD C01.ExDoc
open JD (Byte Val Cfg Code)

/-- the JSON round trip of `[1]` through `dz` -/
example : (JDD.run {} 10 dz (JSer.compact {} (.arr [.num (.uint 1)]))).1 = .ok ∧
    (JDD.run {} 10 dz (JSer.compact {} (.arr [.num (.uint 1)]))).2.2 = 3 ∧
    (JDD.run {} 10 dz (JSer.compact {} (.arr [.num (.uint 1)]))).2.1.toVal
      (JDD.run {} 10 dz (JSer.compact {} (.arr [.num (.uint 1)]))).2.1.root = readBack {} (.arr [.num (.uint 1)]) := by
  have hs : JSer.compact {} (.arr [.num (.uint 1)]) = arr1 := by decide +kernel
  have := json_roundtrip_slot_level {} 10 (.arr [.num (.uint 1)]) rfl rfl rfl
    (by simp [RawFree, AllV, AllE, AllM, RawFreeS]) (by simp [IntsInRange, AllV, AllE, AllM, IntOkS])
    (by simp [StrsWithin, AllV, AllE, AllM, StrOkS]) (by simp [depth, depthE, depthM]) h31 dz gok hp
    (by rw [hs]; exact ov_arr1)
  rw [hs] at this ⊢
  exact this

/-- the text `[1]` into `dz`, the document serialized to MessagePack (`91 01`) and read into `dz` again -/
example :
    let V := (JDD.run {} 10 dz arr1).2.1.toVal (JDD.run {} 10 dz arr1).2.1.root
    let R := MDD.run {} 10 dz (MD.ser V ++ [])
    R.1 = .ok ∧ R.2.1.toVal R.2.1.root = C09.norm V := by
  obtain ⟨a, _, c⟩ := (C01.slot_level_refines {} 10 dz arr1 gok hp h31).1 ov_arr1
  have hV : (JDD.run {} 10 dz arr1).2.1.toVal (JDD.run {} 10 dz arr1).2.1.root = .arr [.num (.uint 1)] := by
    rw [c]; exact valEq_sound _ _ (by decide +kernel)
  have hok : (JDD.run {} 10 dz arr1).1 = .ok := by rw [a]; decide +kernel
  have hno' : (MDD.run {} 10 dz
      (MD.ser ((JDD.run {} 10 dz arr1).2.1.toVal (JDD.run {} 10 dz arr1).2.1.root) ++ [])).2.1.overflowed = false := by
    rw [hV, show MD.ser (.arr [.num (.uint 1)]) ++ [] = C09.ExDoc.arr1 from by decide +kernel]
    exact C09.ExDoc.ov_arr1
  have := cross_format_slot_level {} {} 10 10 arr1 h31 dz gok hp dz gok hp hok (by decide) (by decide) (by decide) []
    hno'
  exact ⟨this.1, this.2.2.1⟩

end C07

namespace C12
open DL JDD C01.ExDoc
open JD (Byte Val Cfg Code)

/-- the token `0042` read into `dz`: the unsigned integer 42 at the root -/
example : (JDD.run {} 10 dz ([] ++ (List.replicate 2 0x30 ++ JS.digits 42) ++ [] : List UInt8)).1 = .ok ∧
    (JDD.run {} 10 dz ([] ++ (List.replicate 2 0x30 ++ JS.digits 42) ++ [] : List UInt8)).2.1.toVal
      (JDD.run {} 10 dz ([] ++ (List.replicate 2 0x30 ++ JS.digits 42) ++ [] : List UInt8)).2.1.root =
        .num (.uint 42) :=
  integer_literal_slot_level {} h31 10 42 2 (by decide) (by decide +kernel) [] [] Spec.Dialect.DWs.nil (Or.inl rfl) dz gok hp
    (by decide +kernel)

/-- `-7` followed by a space: the signed integer -7 -/
example : (JDD.run {} 10 dz ([] ++ (0x2D :: (List.replicate 0 0x30 ++ JS.digits 7)) ++ [0x20] : List UInt8)).2.1.toVal
      (JDD.run {} 10 dz ([] ++ (0x2D :: (List.replicate 0 0x30 ++ JS.digits 7)) ++ [0x20] : List UInt8)).2.1.root =
        .num (.sint (-7)) :=
  (negative_integer_literal_slot_level {} h31 10 7 0 (by decide) (by decide +kernel) [] [0x20] Spec.Dialect.DWs.nil
    (Or.inr (by decide)) dz gok hp (by decide +kernel)).2

end C12

namespace C16
open DL JDD C01.ExDoc C16.SeqExamples
open JD (Byte Val Cfg Code)

theorem noFail_zero (f : Doc → List Byte → Code × Doc × Nat) (d : Doc) (t : List Byte) : NoFail f 0 d t := trivial

theorem noFail_succ (f : Doc → List Byte → Code × Doc × Nat) (k : Nat) (d : Doc) (t : List Byte) :
    NoFail f (k + 1) d t ↔ ((f d t).2.1.overflowed = false ∧
      ((f d t).1 = .ok → t.drop (f d t).2.2 ≠ [] → NoFail f k (f d t).2.1 (t.drop (f d t).2.2))) := Iff.rfl

/-- `"x"[1]` : two documents without separator -/
def xArr : List Byte := [0x22, 0x78, 0x22, 0x5B, 0x31, 0x5D]

set_option maxRecDepth 100000 in
theorem ov_x1 : (JDD.run {} 10 dz xArr).2.1.overflowed = false := by decide +kernel
set_option maxRecDepth 100000 in
theorem ov_x2 : (JDD.run {} 10 (JDD.run {} 10 dz xArr).2.1
    (xArr.drop (JDD.run {} 10 dz xArr).2.2)).2.1.overflowed = false := by decide +kernel

/-- two calls into the same document `dz`: after the first it reads back as `"x"`, after the second (which cleared and
    reused it) as `[1]` -/
example :
    (JDD.run {} 10 dz xArr).1 = .ok ∧
    (JDD.run {} 10 dz xArr).2.1.toVal (JDD.run {} 10 dz xArr).2.1.root = .str [0x78] ∧
    (JDD.run {} 10 (JDD.run {} 10 dz xArr).2.1 (xArr.drop (JDD.run {} 10 dz xArr).2.2)).1 = .ok ∧
    (JDD.run {} 10 (JDD.run {} 10 dz xArr).2.1 (xArr.drop (JDD.run {} 10 dz xArr).2.2)).2.1.toVal
      (JDD.run {} 10 (JDD.run {} 10 dz xArr).2.1 (xArr.drop (JDD.run {} 10 dz xArr).2.2)).2.1.root =
        .arr [.num (.uint 1)] := by
  have e : ([] ++ [0x22, 0x78, 0x22] ++ ([] ++ [0x5B, 0x31, 0x5D] ++ []) : List Byte) = xArr := rfl
  have h := two_documents_aux {} h31 10 (w1 := []) (w2 := []) (rest := []) Spec.Dialect.DWs.nil vStrX rfl
    Spec.Dialect.DWs.nil vArr1 (trailer_nil _) dz gok hp (JDD.run {} 10 dz xArr) (by rw [e]) ov_x1
    (by rw [e]; exact ov_x2)
  rw [e] at h
  exact ⟨h.1, h.2.1, h.2.2.1, h.2.2.2.1⟩

/-- the same through the loop: `streamDoc` returns the two documents one after the other, then stops -/
example : streamDoc (JDD.run {} 10) 5 dz xArr = [(.ok, .str [0x78]), (.ok, .arr [.num (.uint 1)])] := by
  have hnf : NoFail (JDD.run {} 10) 5 dz xArr := by
    refine (noFail_succ _ _ _ _).2 ⟨ov_x1, fun _ _ => (noFail_succ _ _ _ _).2 ⟨ov_x2, fun _ h => ?_⟩⟩
    exact absurd (by decide +kernel) h
  have := json_sequence_slot_level {} h31 10 [⟨[], [0x22, 0x78, 0x22], .str [0x78]⟩, ⟨[], [0x5B, 0x31, 0x5D], .arr [.num (.uint 1)]⟩]
    [] (by simp) (by
      intro x hx
      simp only [List.mem_cons, List.not_mem_nil, or_false] at hx
      rcases hx with rfl | rfl
      · exact ⟨Spec.Dialect.DWs.nil, vStrX⟩
      · exact ⟨Spec.Dialect.DWs.nil, vArr1⟩)
    Spec.Dialect.DWs.nil ⟨trailer_of_not_number rfl _, trailer_nil _, trivial⟩ 5 dz gok hp hnf
  exact this

end C16

namespace C17
open DL JDD C01.ExDoc
open JD (Byte Val Cfg Code)

/-- `"é"` into `dz`: the document holds the two UTF-8 bytes C3 A9 -/
example : (JDD.run {} 10 dz [0x22, 0x5C, 0x75, 0x30, 0x30, 0x45, 0x39, 0x22]).1 = .ok ∧
    (JDD.run {} 10 dz [0x22, 0x5C, 0x75, 0x30, 0x30, 0x45, 0x39, 0x22]).2.1.toVal
      (JDD.run {} 10 dz [0x22, 0x5C, 0x75, 0x30, 0x30, 0x45, 0x39, 0x22]).2.1.root = .str [0xC3, 0xA9] := by
  have hb : JD.Body 0x22 [0x5C, 0x75, 0x30, 0x30, 0x45, 0x39] (Spec.utf8 (0 * 4096 + 0 * 256 + 14 * 16 + 9) ++ []) :=
    .bmp 0x30 0x30 0x45 0x39 0 0 14 9 [] [] (by decide) (by decide) (by decide) (by decide) (by decide) .nil
  have e : Spec.utf8 (0 * 4096 + 0 * 256 + 14 * 16 + 9) ++ [] = [0xC3, 0xA9] := by decide +kernel
  rw [e] at hb
  obtain ⟨a, _, c⟩ := unicode_escape_slot_level {} 10 _ _ rfl hb (by decide) h31 dz gok hp (by decide +kernel)
  exact ⟨a, c⟩

end C17
