/- MORE SLOT-LEVEL COROLLARIES: the filtered slot-level deserializers for C15, C16, C09, C03; the bounded buffer for
   MessagePack output (C08).

   `JDDF.run cfg L flt d input` / `MDDF.run env L flt d input` (AJ/Model/JDDF.lean, MDDF.lean) are the FILTERED slot-level
   deserializers (`deserializeJson/deserializeMsgPack(doc, input, Filter(f), NestingLimit)` writing into `DL.Doc`). They refine
   the value-level filtered runs `JD.frun cfg L flt input` / `MD.run env L flt input`: `C11.filtered_slot_level_refines`,
   `C11.filtered_ok_refines` (AJ/Props/C11Doc.lean), `C11.filtered_mp_slot_level_refines`, `C11.filtered_mp_ok_refines`
   (AJ/Props/C11MpDoc.lean). As in AJ/Props/SlotCor.lean each theorem here obtains the value-level fact and rewrites with the
   refinement; hypotheses of the value-level theorems are kept verbatim; slot-level hypotheses: `PL.GeoOK d.g`,
   `PL.Inv d.g d.pl`, `31 ≤ cfg.maxStrLen` (JSON only), and — where the statement is about a run without allocation failure —
   `(run …).2.1.overflowed = false`. Statements about codes and consumption come in the two-clause form of the refinement
   theorems: clause 1 under `overflowed = false`; clause 2 unconditional, with the alternative `NoMemory ∧ overflowed = true`.

   * C15: `filtered_ok_depth_slot_level`, `mp_ok_depth_slot_level`, `filtered_mp_ok_depth_slot_level`,
     `toodeep_at_limit_ws_slot_level`, `toodeep_at_limit_slot_level`, `filtered_toodeep_ws_slot_level`,
     `filtered_toodeep_slot_level`, `msgpack_toodeep_at_limit_slot_level`, `filtered_msgpack_toodeep_at_limit_slot_level`.
   * C16: `filtered_consumption_slot_level`, `filtered_mp_consumption_slot_level`, `filtered_exact_consumption_slot_level`,
     `filtered_msgpack_exact_consumption_slot_level`.
   * C09: `filtered_enc_accepts_slot_level`, `filtered_roundtrip_slot_level`.
   * C03: `filtered_run_within_input_slot_level`, `filtered_mp_run_within_input_slot_level` (UNCONDITIONAL: every input, filter,
     document and allocator schedule; by induction over the filtered routines, AJ/Lemmas/FiltPos.lean, FiltPosMp.lean) and the
     four-deserializer summary `slot_level_runs_within_input`.
   * C08: `mp_buffer_count`, `mp_buffer_prefix`, `mp_buffer_no_nul`, `mp_buffer_within`, `mp_buffer_content`,
     `mp_buffer_untouched`, `mp_buffer_exact_fit`, `mp_buffer_truncated`.
   Not stated: `measure_is_length` (C02, C08) — the models have no `measure` function (`measureJson`/`measureMsgPack` run the same
   serializer into a counting writer; the models identify them with the length of `JSer.compact`/`JSer.pretty`/`MD.ser`). -/
import AJ.Props.SlotCor
import AJ.Props.C11Doc
import AJ.Props.C11MpDoc
import AJ.Props.C06Mem
import AJ.Props.C08
import AJ.Props.C02
import AJ.Props.C03
import AJ.Lemmas.FiltPos
import AJ.Lemmas.FiltPosMp
set_option linter.unusedSimpArgs false
set_option linter.unusedVariables false

/-! ## the transfer step shared by the code/consumption statements -/
namespace SlotCor2
open JD (Code)

/-- from the unconditional clause of a refinement theorem and the value-level code and consumption: the two clauses -/
theorem transfer {c1 c0 c : Code} {n1 n0 n : Nat} {ov : Bool}
    (h : (c1 = c0 ∧ n1 = n0) ∨ (c1 = .noMemory ∧ ov = true)) (hv : c0 = c ∧ n0 = n) :
    (ov = false → c1 = c ∧ n1 = n) ∧ ((c1 = c ∧ n1 = n) ∨ (c1 = .noMemory ∧ ov = true)) := by
  rcases h with ⟨a, b⟩ | ⟨a, b⟩
  · exact ⟨fun _ => ⟨a.trans hv.1, b.trans hv.2⟩, Or.inl ⟨a.trans hv.1, b.trans hv.2⟩⟩
  · exact ⟨fun h => (by rw [b] at h; cases h), Or.inr ⟨a, b⟩⟩

end SlotCor2

/-! ## C15 — the nesting limit, filtered runs and MessagePack -/
namespace C15
open DL
open JD (Byte Val Cfg Code Flt)

/-- **C15, slot level, JSON with a filter** (from `C15.json_filtered_ok_depth`). A document obtained with `Ok` from the
    filtered slot-level run nests at most `L` deep — whatever the filter and whatever the allocator does (`Ok` is not answered
    after a failure). Both depth functions of the development (`C15.depth`, `C09.depth`) are given. -/
theorem filtered_ok_depth_slot_level (cfg : Cfg) (h31 : 31 ≤ cfg.maxStrLen) (L : Nat) (flt : Flt) (input : List Byte)
    (d : Doc) (gok : PL.GeoOK d.g) (hp : PL.Inv d.g d.pl) (hok : (JDDF.run cfg L flt d input).1 = .ok) :
    C15.depth ((JDDF.run cfg L flt d input).2.1.toVal (JDDF.run cfg L flt d input).2.1.root) ≤ L ∧
    C09.depth ((JDDF.run cfg L flt d input).2.1.toVal (JDDF.run cfg L flt d input).2.1.root) ≤ L := by
  obtain ⟨a, _, c⟩ := C11.filtered_ok_refines cfg L flt d input gok hp h31 hok
  rw [CrossFormat.depth09_eq, c]
  exact ⟨json_filtered_ok_depth cfg L flt input a, json_filtered_ok_depth cfg L flt input a⟩

/-- **C15, slot level, MessagePack** (from `C15.msgpack_ok_depth`; `C15.msgpack_ok_depth_slot_level` of AJ/Props/C09Doc.lean
    with the second depth function) -/
theorem mp_ok_depth_slot_level (env : MD.Env) (L : Nat) (input : List Byte) (d : Doc)
    (gok : PL.GeoOK d.g) (hp : PL.Inv d.g d.pl) (hok : (MDD.run env L d input).1 = .ok) :
    C15.depth ((MDD.run env L d input).2.1.toVal (MDD.run env L d input).2.1.root) ≤ L ∧
    C09.depth ((MDD.run env L d input).2.1.toVal (MDD.run env L d input).2.1.root) ≤ L := by
  obtain ⟨a, _, c⟩ := C09.ok_refines env L d input gok hp hok
  rw [CrossFormat.depth09_eq, c]
  exact ⟨msgpack_ok_depth env L .all input a, msgpack_ok_depth env L .all input a⟩

/-- **C15, slot level, MessagePack with a filter** -/
theorem filtered_mp_ok_depth_slot_level (env : MD.Env) (L : Nat) (flt : Flt) (input : List Byte) (d : Doc)
    (gok : PL.GeoOK d.g) (hp : PL.Inv d.g d.pl) (hok : (MDDF.run env L flt d input).1 = .ok) :
    C15.depth ((MDDF.run env L flt d input).2.1.toVal (MDDF.run env L flt d input).2.1.root) ≤ L ∧
    C09.depth ((MDDF.run env L flt d input).2.1.toVal (MDDF.run env L flt d input).2.1.root) ≤ L := by
  obtain ⟨a, _, c⟩ := C11.filtered_mp_ok_refines env L flt d input gok hp hok
  rw [CrossFormat.depth09_eq, c]
  exact ⟨msgpack_ok_depth env L flt input a, msgpack_ok_depth env L flt input a⟩

/-- **C15, slot level: TooDeep as soon as the (L+1)-th bracket is opened** (from `C15.toodeep_at_limit_ws`). The input
    `w₀ [ w₁ [ … w_L [ rest` read by `JDD.run` into any document: when no allocation failed the answer is `TooDeep` and exactly
    the bytes up to and including the (L+1)-th bracket were taken; in any case the answer is that one or `NoMemory` with the
    overflow flag set (an element slot of one of the L enclosing arrays could not be allocated). `TooDeep` is not a memory
    failure. -/
theorem toodeep_at_limit_ws_slot_level (cfg : Cfg) (h31 : 31 ≤ cfg.maxStrLen) (L : Nat) (wss : List (List Byte))
    (rest : List Byte) (hlen : wss.length = L + 1) (hws : AllWs wss) (d : Doc) (gok : PL.GeoOK d.g)
    (hp : PL.Inv d.g d.pl) :
    ((JDD.run cfg L d (opens wss ++ rest)).2.1.overflowed = false →
      (JDD.run cfg L d (opens wss ++ rest)).1 = .tooDeep ∧
      (JDD.run cfg L d (opens wss ++ rest)).2.2 = (opens wss).length) ∧
    (((JDD.run cfg L d (opens wss ++ rest)).1 = .tooDeep ∧
        (JDD.run cfg L d (opens wss ++ rest)).2.2 = (opens wss).length) ∨
      ((JDD.run cfg L d (opens wss ++ rest)).1 = .noMemory ∧
        (JDD.run cfg L d (opens wss ++ rest)).2.1.overflowed = true)) :=
  SlotCor2.transfer (C01.slot_level_refines cfg L d (opens wss ++ rest) gok hp h31).2
    (toodeep_at_limit_ws cfg L wss rest hlen hws)

/-- the same without white space: `L+1` opening brackets -/
theorem toodeep_at_limit_slot_level (cfg : Cfg) (h31 : 31 ≤ cfg.maxStrLen) (L : Nat) (rest : List Byte) (d : Doc)
    (gok : PL.GeoOK d.g) (hp : PL.Inv d.g d.pl) :
    ((JDD.run cfg L d (List.replicate (L+1) 0x5B ++ rest)).2.1.overflowed = false →
      (JDD.run cfg L d (List.replicate (L+1) 0x5B ++ rest)).1 = .tooDeep ∧
      (JDD.run cfg L d (List.replicate (L+1) 0x5B ++ rest)).2.2 = L + 1) ∧
    (((JDD.run cfg L d (List.replicate (L+1) 0x5B ++ rest)).1 = .tooDeep ∧
        (JDD.run cfg L d (List.replicate (L+1) 0x5B ++ rest)).2.2 = L + 1) ∨
      ((JDD.run cfg L d (List.replicate (L+1) 0x5B ++ rest)).1 = .noMemory ∧
        (JDD.run cfg L d (List.replicate (L+1) 0x5B ++ rest)).2.1.overflowed = true)) :=
  SlotCor2.transfer (C01.slot_level_refines cfg L d (List.replicate (L+1) 0x5B ++ rest) gok hp h31).2
    (toodeep_at_limit cfg L rest)

/-- **C15, slot level, filtered: TooDeep also in parts that the filter discards** (from `C15.toodeep_at_limit_filtered_ws`),
    for EVERY filter -/
theorem filtered_toodeep_ws_slot_level (cfg : Cfg) (h31 : 31 ≤ cfg.maxStrLen) (L : Nat) (flt : Flt)
    (wss : List (List Byte)) (rest : List Byte) (hlen : wss.length = L + 1) (hws : AllWs wss) (d : Doc)
    (gok : PL.GeoOK d.g) (hp : PL.Inv d.g d.pl) :
    ((JDDF.run cfg L flt d (opens wss ++ rest)).2.1.overflowed = false →
      (JDDF.run cfg L flt d (opens wss ++ rest)).1 = .tooDeep ∧
      (JDDF.run cfg L flt d (opens wss ++ rest)).2.2 = (opens wss).length) ∧
    (((JDDF.run cfg L flt d (opens wss ++ rest)).1 = .tooDeep ∧
        (JDDF.run cfg L flt d (opens wss ++ rest)).2.2 = (opens wss).length) ∨
      ((JDDF.run cfg L flt d (opens wss ++ rest)).1 = .noMemory ∧
        (JDDF.run cfg L flt d (opens wss ++ rest)).2.1.overflowed = true)) :=
  SlotCor2.transfer (C11.filtered_slot_level_refines cfg L flt d (opens wss ++ rest) gok hp h31).2
    (toodeep_at_limit_filtered_ws cfg L flt wss rest hlen hws)

theorem filtered_toodeep_slot_level (cfg : Cfg) (h31 : 31 ≤ cfg.maxStrLen) (L : Nat) (flt : Flt) (rest : List Byte)
    (d : Doc) (gok : PL.GeoOK d.g) (hp : PL.Inv d.g d.pl) :
    ((JDDF.run cfg L flt d (List.replicate (L+1) 0x5B ++ rest)).2.1.overflowed = false →
      (JDDF.run cfg L flt d (List.replicate (L+1) 0x5B ++ rest)).1 = .tooDeep ∧
      (JDDF.run cfg L flt d (List.replicate (L+1) 0x5B ++ rest)).2.2 = L + 1) ∧
    (((JDDF.run cfg L flt d (List.replicate (L+1) 0x5B ++ rest)).1 = .tooDeep ∧
        (JDDF.run cfg L flt d (List.replicate (L+1) 0x5B ++ rest)).2.2 = L + 1) ∨
      ((JDDF.run cfg L flt d (List.replicate (L+1) 0x5B ++ rest)).1 = .noMemory ∧
        (JDDF.run cfg L flt d (List.replicate (L+1) 0x5B ++ rest)).2.1.overflowed = true)) :=
  SlotCor2.transfer (C11.filtered_slot_level_refines cfg L flt d (List.replicate (L+1) 0x5B ++ rest) gok hp h31).2
    (toodeep_at_limit_filtered cfg L flt rest)

/-- **C15, slot level, MessagePack** (from `C15.msgpack_toodeep_at_limit`): `L+1` nested one-element array headers -/
theorem msgpack_toodeep_at_limit_slot_level (env : MD.Env) (L : Nat) (rest : List Byte) (d : Doc)
    (gok : PL.GeoOK d.g) (hp : PL.Inv d.g d.pl) :
    ((MDD.run env L d (List.replicate (L+1) 0x91 ++ rest)).2.1.overflowed = false →
      (MDD.run env L d (List.replicate (L+1) 0x91 ++ rest)).1 = .tooDeep ∧
      (MDD.run env L d (List.replicate (L+1) 0x91 ++ rest)).2.2 = L + 1) ∧
    (((MDD.run env L d (List.replicate (L+1) 0x91 ++ rest)).1 = .tooDeep ∧
        (MDD.run env L d (List.replicate (L+1) 0x91 ++ rest)).2.2 = L + 1) ∨
      ((MDD.run env L d (List.replicate (L+1) 0x91 ++ rest)).1 = .noMemory ∧
        (MDD.run env L d (List.replicate (L+1) 0x91 ++ rest)).2.1.overflowed = true)) :=
  SlotCor2.transfer (C09.slot_level_refines env L d (List.replicate (L+1) 0x91 ++ rest) gok hp).2
    (msgpack_toodeep_at_limit env L .all rest)

/-- the same for the filtered MessagePack run, every filter -/
theorem filtered_msgpack_toodeep_at_limit_slot_level (env : MD.Env) (L : Nat) (flt : Flt) (rest : List Byte) (d : Doc)
    (gok : PL.GeoOK d.g) (hp : PL.Inv d.g d.pl) :
    ((MDDF.run env L flt d (List.replicate (L+1) 0x91 ++ rest)).2.1.overflowed = false →
      (MDDF.run env L flt d (List.replicate (L+1) 0x91 ++ rest)).1 = .tooDeep ∧
      (MDDF.run env L flt d (List.replicate (L+1) 0x91 ++ rest)).2.2 = L + 1) ∧
    (((MDDF.run env L flt d (List.replicate (L+1) 0x91 ++ rest)).1 = .tooDeep ∧
        (MDDF.run env L flt d (List.replicate (L+1) 0x91 ++ rest)).2.2 = L + 1) ∨
      ((MDDF.run env L flt d (List.replicate (L+1) 0x91 ++ rest)).1 = .noMemory ∧
        (MDDF.run env L flt d (List.replicate (L+1) 0x91 ++ rest)).2.1.overflowed = true)) :=
  SlotCor2.transfer (C11.filtered_mp_slot_level_refines env L flt d (List.replicate (L+1) 0x91 ++ rest) gok hp).2
    (msgpack_toodeep_at_limit env L flt rest)

end C15

/-! ## C16 — what a filtered call consumes -/
namespace C16
open DL
open JD (Byte Val Cfg Code Flt)

/-- **C16, slot level, JSON with a filter** (from `C11.json_projection_all_inputs`). Whenever the UNFILTERED value-level run
    on an input is `Ok`, the filtered slot-level run on that input, for every filter and into any document: when no allocation
    failed it answers `Ok`, has consumed exactly what the unfiltered run consumes, and leaves the projection of the unfiltered
    value; in any case it answers `Ok` with that consumption or `NoMemory` with the overflow flag set. A filter never changes
    where the next document of a stream starts. -/
theorem filtered_consumption_slot_level (cfg : Cfg) (h31 : 31 ≤ cfg.maxStrLen) (L : Nat) (flt : Flt)
    (input : List Byte) (hok : (JD.run cfg L input).1 = .ok) (d : Doc) (gok : PL.GeoOK d.g) (hp : PL.Inv d.g d.pl) :
    ((JDDF.run cfg L flt d input).2.1.overflowed = false →
      (JDDF.run cfg L flt d input).1 = .ok ∧
      (JDDF.run cfg L flt d input).2.2 = (JD.run cfg L input).2.2 ∧
      (JDDF.run cfg L flt d input).2.1.toVal (JDDF.run cfg L flt d input).2.1.root =
        Spec.Filter.project flt (JD.run cfg L input).2.1) ∧
    (((JDDF.run cfg L flt d input).1 = .ok ∧ (JDDF.run cfg L flt d input).2.2 = (JD.run cfg L input).2.2) ∨
      ((JDDF.run cfg L flt d input).1 = .noMemory ∧ (JDDF.run cfg L flt d input).2.1.overflowed = true)) := by
  have hpr := C11.json_projection_all_inputs cfg L flt input hok
  have hv : (JD.frun cfg L flt input).1 = .ok ∧ (JD.frun cfg L flt input).2.2 = (JD.run cfg L input).2.2 := by
    rw [hpr]; exact ⟨rfl, rfl⟩
  obtain ⟨r1, r2⟩ := C11.filtered_slot_level_refines cfg L flt d input gok hp h31
  obtain ⟨t1, t2⟩ := SlotCor2.transfer r2 hv
  refine ⟨fun hno => ?_, t2⟩
  obtain ⟨a, b⟩ := t1 hno
  obtain ⟨_, _, c⟩ := r1 hno
  exact ⟨a, b, by rw [c, hpr]⟩

/-- **C16, slot level, MessagePack with a filter** (from `C11.msgpack_projection_all_inputs`) -/
theorem filtered_mp_consumption_slot_level (env : MD.Env) (L : Nat) (flt : Flt) (input : List Byte)
    (hok : (MD.run env L .all input).1 = .ok) (d : Doc) (gok : PL.GeoOK d.g) (hp : PL.Inv d.g d.pl) :
    ((MDDF.run env L flt d input).2.1.overflowed = false →
      (MDDF.run env L flt d input).1 = .ok ∧
      (MDDF.run env L flt d input).2.2 = (MD.run env L .all input).2.2 ∧
      (MDDF.run env L flt d input).2.1.toVal (MDDF.run env L flt d input).2.1.root =
        Spec.Filter.project flt (MD.run env L .all input).2.1) ∧
    (((MDDF.run env L flt d input).1 = .ok ∧ (MDDF.run env L flt d input).2.2 = (MD.run env L .all input).2.2) ∨
      ((MDDF.run env L flt d input).1 = .noMemory ∧ (MDDF.run env L flt d input).2.1.overflowed = true)) := by
  have hpr := C11.msgpack_projection_all_inputs env L flt input hok
  have hv : (MD.run env L flt input).1 = .ok ∧ (MD.run env L flt input).2.2 = (MD.run env L .all input).2.2 := by
    rw [hpr]; exact ⟨rfl, rfl⟩
  obtain ⟨r1, r2⟩ := C11.filtered_mp_slot_level_refines env L flt d input gok hp
  obtain ⟨t1, t2⟩ := SlotCor2.transfer r2 hv
  refine ⟨fun hno => ?_, t2⟩
  obtain ⟨a, b⟩ := t1 hno
  obtain ⟨_, _, c⟩ := r1 hno
  exact ⟨a, b, by rw [c, hpr]⟩

/-- **C16, slot level, JSON with a filter, on the grammar** (from `C16.exact_consumption`): whatever follows a (non-number)
    RFC 8259 value and whatever the filter keeps of it, the filtered slot-level run without allocation failure answers `Ok`, has
    taken exactly the leading white space and the value, and leaves the projection of the value. -/
theorem filtered_exact_consumption_slot_level (cfg : Cfg) (hu : cfg.decodeUnicode = true) (h31 : 31 ≤ cfg.maxStrLen)
    {L : Nat} {t : List Byte} {v : Val} (h : Spec.Json.Value cfg L t v) (hn : JD.isNumberVal v = false)
    (w rest : List Byte) (hw : Spec.Json.Ws w) (flt : Flt) (d : Doc) (gok : PL.GeoOK d.g) (hp : PL.Inv d.g d.pl)
    (hno : (JDDF.run cfg L flt d (w ++ t ++ rest)).2.1.overflowed = false) :
    (JDDF.run cfg L flt d (w ++ t ++ rest)).1 = .ok ∧
    (JDDF.run cfg L flt d (w ++ t ++ rest)).2.2 = w.length + t.length ∧
    (JDDF.run cfg L flt d (w ++ t ++ rest)).2.1.toVal (JDDF.run cfg L flt d (w ++ t ++ rest)).2.1.root =
      Spec.Filter.project flt v := by
  have e := exact_consumption cfg hu h hn w rest hw
  obtain ⟨a, b, c⟩ := (filtered_consumption_slot_level cfg h31 L flt (w ++ t ++ rest) (by rw [e]) d gok hp).1 hno
  rw [e] at b c
  exact ⟨a, b, c⟩

/-- **C16, slot level, MessagePack with a filter, on serialized documents** (from `C09.roundtrip`): exactly the bytes of one
    object are consumed whatever follows and whatever the filter keeps; the document left is the projection of `norm v` -/
theorem filtered_msgpack_exact_consumption_slot_level (env : MD.Env) (L : Nat) (v : Val) (hr : C09.RawFree v)
    (hw : C09.WithinLimits env v) (hd : C09.depth v ≤ L) (rest : List Byte) (flt : Flt) (d : Doc)
    (gok : PL.GeoOK d.g) (hp : PL.Inv d.g d.pl)
    (hno : (MDDF.run env L flt d (MD.ser v ++ rest)).2.1.overflowed = false) :
    (MDDF.run env L flt d (MD.ser v ++ rest)).1 = .ok ∧
    (MDDF.run env L flt d (MD.ser v ++ rest)).2.2 = (MD.ser v).length ∧
    (MDDF.run env L flt d (MD.ser v ++ rest)).2.1.toVal (MDDF.run env L flt d (MD.ser v ++ rest)).2.1.root =
      Spec.Filter.project flt (C09.norm v) := by
  have e := C09.roundtrip env L v hr hw hd rest
  obtain ⟨a, b, c⟩ := (filtered_mp_consumption_slot_level env L flt (MD.ser v ++ rest) (by rw [e]) d gok hp).1 hno
  rw [e] at b c
  exact ⟨a, b, c⟩

end C16

/-! ## C09 — every legal encoding under every filter -/
namespace C09
open DL
open JD (Byte Val Code Flt)
open MD (Env)

/-- **C09, slot level, every filter** (from `C09.enc_accepts`, which holds for every filter, and
    `C11.msgpack_projection_all_inputs`). Every legal encoding (`MD.Enc`: any width at every place, bin, ext, fixext, nested
    containers within the nesting limit) followed by anything, read by `MDDF.run` with ANY filter into any document: when no
    allocation failed it is accepted with exactly its bytes consumed, and the document left is the projection of the value the
    unfiltered deserializer yields; in any case the answer is `Ok` with that consumption or `NoMemory` with the flag set. -/
theorem filtered_enc_accepts_slot_level (env : Env) (L : Nat) (flt : Flt) {dd : Nat} {e : List Byte}
    (h : MD.Enc env dd e) (hd : dd ≤ L) (rest : List Byte) (d : Doc) (gok : PL.GeoOK d.g) (hp : PL.Inv d.g d.pl) :
    ((MDDF.run env L flt d (e ++ rest)).2.1.overflowed = false →
      (MDDF.run env L flt d (e ++ rest)).1 = .ok ∧ (MDDF.run env L flt d (e ++ rest)).2.2 = e.length ∧
      (MDDF.run env L flt d (e ++ rest)).2.1.toVal (MDDF.run env L flt d (e ++ rest)).2.1.root =
        Spec.Filter.project flt (MD.run env L .all (e ++ rest)).2.1) ∧
    (((MDDF.run env L flt d (e ++ rest)).1 = .ok ∧ (MDDF.run env L flt d (e ++ rest)).2.2 = e.length) ∨
      ((MDDF.run env L flt d (e ++ rest)).1 = .noMemory ∧ (MDDF.run env L flt d (e ++ rest)).2.1.overflowed = true)) := by
  obtain ⟨u1, u2⟩ := enc_accepts env L .all h hd rest
  obtain ⟨t1, t2⟩ := C16.filtered_mp_consumption_slot_level env L flt (e ++ rest) u1 d gok hp
  rw [u2] at t1 t2
  exact ⟨t1, t2⟩

/-- the serializer's own output under every filter: `deserializeMsgPack(serializeMsgPack(v), Filter(f))` leaves the projection
    of `norm v` (from `C09.roundtrip`) -/
theorem filtered_roundtrip_slot_level (env : Env) (L : Nat) (flt : Flt) (v : Val) (hr : RawFree v)
    (hw : WithinLimits env v) (hd : depth v ≤ L) (rest : List Byte) (d : Doc) (gok : PL.GeoOK d.g) (hp : PL.Inv d.g d.pl)
    (hno : (MDDF.run env L flt d (MD.ser v ++ rest)).2.1.overflowed = false) :
    (MDDF.run env L flt d (MD.ser v ++ rest)).1 = .ok ∧
    (MDDF.run env L flt d (MD.ser v ++ rest)).2.2 = (MD.ser v).length ∧
    (MDDF.run env L flt d (MD.ser v ++ rest)).2.1.toVal (MDDF.run env L flt d (MD.ser v ++ rest)).2.1.root =
      Spec.Filter.project flt (norm v) :=
  C16.filtered_msgpack_exact_consumption_slot_level env L v hr hw hd rest flt d gok hp hno

end C09

/-! ## C03 — the filtered slot-level runs never read past the input -/
namespace C03
open DL
open JD (Byte Cfg Code Flt)

/-- **C03, slot level, JSON with a filter: never more bytes taken than supplied.** UNCONDITIONAL: every configuration,
    nesting limit, filter, input, starting document and allocator schedule — no hypothesis on the geometry, the pool or the
    string limit (the refinement ties the consumption to the value-level one only outside `NoMemory`; this is proved by
    pushing the position invariant `JD.Inv` through the filtered slot-level routines, AJ/Lemmas/FiltPos.lean). -/
theorem filtered_run_within_input_slot_level (cfg : Cfg) (L : Nat) (flt : Flt) (d : Doc) (input : List Byte) :
    (JDDF.run cfg L flt d input).2.2 ≤ input.length := JDDF.pos_run_le cfg L flt d input

/-- **C03, slot level, MessagePack with a filter** — unconditional as well (AJ/Lemmas/FiltPosMp.lean) -/
theorem filtered_mp_run_within_input_slot_level (env : MD.Env) (L : Nat) (flt : Flt) (d : Doc) (input : List Byte) :
    (MDDF.run env L flt d input).2.2 ≤ input.length := MDDF.pos_run_le env L flt d input

/-- what the refinement alone gives (not needed any more, kept as a cross-check of the two routes): outside `NoMemory` the
    consumption is the value-level one, which is within the input (`C03.json_filtered_reads_within_input`) -/
theorem filtered_run_within_input_of_refinement (cfg : Cfg) (h31 : 31 ≤ cfg.maxStrLen) (L : Nat) (flt : Flt) (d : Doc)
    (input : List Byte) (gok : PL.GeoOK d.g) (hp : PL.Inv d.g d.pl)
    (hne : ¬ ((JDDF.run cfg L flt d input).1 = .noMemory ∧ (JDDF.run cfg L flt d input).2.1.overflowed = true)) :
    (JDDF.run cfg L flt d input).2.2 = (JD.frun cfg L flt input).2.2 ∧
    (JDDF.run cfg L flt d input).2.2 ≤ input.length := by
  rcases (C11.filtered_slot_level_refines cfg L flt d input gok hp h31).2 with ⟨_, b⟩ | h
  · exact ⟨b, by rw [b]; exact json_filtered_reads_within_input cfg L flt input⟩
  · exact absurd h hne

/-- all four slot-level deserializers, every input, document and allocator schedule -/
theorem slot_level_runs_within_input (cfg : Cfg) (env : MD.Env) (L : Nat) (flt : Flt) (d : Doc) (input : List Byte) :
    (JDD.run cfg L d input).2.2 ≤ input.length ∧ (JDDF.run cfg L flt d input).2.2 ≤ input.length ∧
    (MDD.run env L d input).2.2 ≤ input.length ∧ (MDDF.run env L flt d input).2.2 ≤ input.length :=
  ⟨C06.deser_reads_within_input cfg L d input, filtered_run_within_input_slot_level cfg L flt d input,
   C06.mp_deser_reads_within_input env L d input, filtered_mp_run_within_input_slot_level env L flt d input⟩

end C03

/-! ## C08 — `serializeMsgPack(doc, buffer, size)`: the bounded buffer -/
namespace C08
open JD (Byte Val)
open JSer (toBuffer bufferAfter)

/-- the count returned is the number of bytes stored: `min cap length` (from `C02.buffer_count`) -/
theorem mp_buffer_count (v : Val) (cap : Nat) : (toBuffer (MD.ser v) cap false).ret = min cap (MD.ser v).length :=
  C02.buffer_count (MD.ser v) cap false

/-- exactly that prefix of the encoding is stored (from `C02.buffer_prefix`) -/
theorem mp_buffer_prefix (v : Val) (cap : Nat) : (toBuffer (MD.ser v) cap false).stored = (MD.ser v).take cap :=
  C02.buffer_prefix (MD.ser v) cap false

/-- a binary format: no terminating NUL is ever stored, whatever the capacity (from `C02.buffer_no_nul_binary`) -/
theorem mp_buffer_no_nul (v : Val) (cap : Nat) : (toBuffer (MD.ser v) cap false).nul = false :=
  C02.buffer_no_nul_binary (MD.ser v) cap

/-- the call defines exactly `cap` bytes: nothing outside the buffer is written (from `C02.buffer_within`) -/
theorem mp_buffer_within (v : Val) (cap : Nat) (fill : Byte) : (bufferAfter (MD.ser v) cap false fill).length = cap :=
  C02.buffer_within (MD.ser v) cap false fill

/-- the stored bytes are those of the encoding, index by index (from `C02.buffer_content`) -/
theorem mp_buffer_content (v : Val) (cap : Nat) (fill : Byte) (i : Nat) (h : i < min cap (MD.ser v).length) :
    (bufferAfter (MD.ser v) cap false fill)[i]? = (MD.ser v)[i]? :=
  C02.buffer_content (MD.ser v) cap false fill i h

/-- bytes of the buffer beyond the stored prefix are the caller's: they keep their previous value — from index
    `min cap length` on, there being no NUL (from `C02.buffer_untouched`) -/
theorem mp_buffer_untouched (v : Val) (cap : Nat) (fill : Byte) (i : Nat) (h1 : min cap (MD.ser v).length ≤ i)
    (h2 : i < cap) : (bufferAfter (MD.ser v) cap false fill)[i]? = some fill := by
  refine C02.buffer_untouched (MD.ser v) cap false fill i ?_ h2
  rw [mp_buffer_no_nul, mp_buffer_prefix, List.length_take]
  simpa using h1

/-- **exact fit**: a buffer of exactly `(MD.ser v).length` bytes receives the whole encoding and nothing else: the count is
    the length, the stored bytes and the whole buffer afterwards ARE the encoding, no NUL -/
theorem mp_buffer_exact_fit (v : Val) (fill : Byte) :
    (toBuffer (MD.ser v) (MD.ser v).length false).ret = (MD.ser v).length ∧
    (toBuffer (MD.ser v) (MD.ser v).length false).stored = MD.ser v ∧
    (toBuffer (MD.ser v) (MD.ser v).length false).nul = false ∧
    bufferAfter (MD.ser v) (MD.ser v).length false fill = MD.ser v := by
  refine ⟨by rw [mp_buffer_count, Nat.min_self], by rw [mp_buffer_prefix, List.take_length],
    mp_buffer_no_nul v _, ?_⟩
  simp only [bufferAfter, mp_buffer_no_nul, mp_buffer_prefix, List.take_length]
  simp

/-- a buffer at least as large holds the whole encoding as well; a smaller one a proper prefix, and the count tells:
    `ret = length ↔ length ≤ cap` (a caller detects truncation by `ret = cap` only up to the exact-fit case) -/
theorem mp_buffer_truncated (v : Val) (cap : Nat) :
    ((toBuffer (MD.ser v) cap false).ret = (MD.ser v).length ↔ (MD.ser v).length ≤ cap) ∧
    ((MD.ser v).length ≤ cap → (toBuffer (MD.ser v) cap false).stored = MD.ser v) ∧
    (cap < (MD.ser v).length → (toBuffer (MD.ser v) cap false).ret = cap ∧
      (toBuffer (MD.ser v) cap false).stored ≠ MD.ser v) := by
  refine ⟨by rw [mp_buffer_count]; omega, fun h => by rw [mp_buffer_prefix, List.take_of_length_le h], fun h => ?_⟩
  refine ⟨by rw [mp_buffer_count]; omega, fun e => ?_⟩
  have := congrArg List.length e
  rw [mp_buffer_prefix, List.length_take] at this
  omega

end C08

/-! ## Non-vacuity: geometry ⟨4, 1, 1⟩ (the fresh document `C01.ExDoc.dz`, and `C01.ExDoc.dzf` whose allocator fails at its
   first call), default configuration / environment. Slot-level runs are evaluated in the kernel where they touch slot 0 only;
   the theorems then give the code, the consumption and the value of the slot-level document. -/
namespace SlotCor2.Ex
open DL C01.ExDoc
open JD (Byte Val Cfg Code Flt)

/-- the filter `[{"b":true}]` -/
def fB : Flt := .doc (some (.arr [.obj [([0x62], .bool true)]]))
/-- the filter `[true]` -/
def fT : Flt := .doc (some (.arr [.bool true]))
/-- the filter `[false]` -/
def fF : Flt := .doc (some (.arr [.bool false]))
/-- `[{"a":[1,2]}]` -/
def tA : List Byte := [0x5B, 0x7B, 0x22, 0x61, 0x22, 0x3A, 0x5B, 0x31, 0x2C, 0x32, 0x5D, 0x7D, 0x5D]
/-- `[7] [8]` : two documents -/
def t78 : List Byte := [0x5B, 0x37, 0x5D, 0x20, 0x5B, 0x38, 0x5D]
/-- MessagePack `[1]` with a 16-bit array header, followed by the never-used byte 0xC1 -/
def e1 : List Byte := [0xDC, 0x00, 0x01, 0x01]

/-! ### C15 -/

set_option maxRecDepth 100000 in
theorem ok_tA3 : (JDDF.run {} 3 fB dz tA).1 = .ok := by decide +kernel

/-- `[{"a":[1,2]}]` under `[{"b":true}]` with `L = 3`: `Ok`, and the document left (`[{}]`) nests at most 3 deep -/
example : C15.depth ((JDDF.run {} 3 fB dz tA).2.1.toVal (JDDF.run {} 3 fB dz tA).2.1.root) ≤ 3 ∧
    C09.depth ((JDDF.run {} 3 fB dz tA).2.1.toVal (JDDF.run {} 3 fB dz tA).2.1.root) ≤ 3 :=
  C15.filtered_ok_depth_slot_level {} h31 3 fB tA dz gok hp ok_tA3

/-- with `L = 2` the same text is `TooDeep` although the array `[1,2]` that exceeds the limit is discarded by the filter -/
example : (JD.frun {} 2 fB tA).1 = .tooDeep := by decide +kernel

set_option maxRecDepth 100000 in
theorem ov_open2 : (JDD.run {} 1 dz (List.replicate (1+1) 0x5B ++ [0x31])).2.1.overflowed = false := by decide +kernel

/-- `[[1` with `L = 1` into the fresh document: `TooDeep` after the 2 brackets -/
example : (JDD.run {} 1 dz (List.replicate (1+1) 0x5B ++ [0x31])).1 = .tooDeep ∧
    (JDD.run {} 1 dz (List.replicate (1+1) 0x5B ++ [0x31])).2.2 = 1 + 1 :=
  (C15.toodeep_at_limit_slot_level {} h31 1 [0x31] dz gok hp).1 ov_open2

set_option maxRecDepth 100000 in
/-- the alternative of the unconditional clause is real: with the allocator that refuses its first call the element slot of
    the outer array cannot be allocated and the answer is `NoMemory` (after the same 2 bytes), not `TooDeep` -/
example : (JDD.run {} 1 dzf (List.replicate (1+1) 0x5B ++ [0x31])).1 = .noMemory ∧
    (JDD.run {} 1 dzf (List.replicate (1+1) 0x5B ++ [0x31])).2.1.overflowed = true ∧
    (JDD.run {} 1 dzf (List.replicate (1+1) 0x5B ++ [0x31])).2.2 = 2 := by decide +kernel

set_option maxRecDepth 100000 in
theorem ov_open2F : (JDDF.run {} 1 fF dzf (List.replicate (1+1) 0x5B ++ [0x31])).2.1.overflowed = false := by
  decide +kernel

/-- the same text under `[false]`: the inner array is discarded (no slot is asked for, so even the failing allocator of
    `dzf` does not matter) and the answer is still `TooDeep` after 2 bytes -/
example : (JDDF.run {} 1 fF dzf (List.replicate (1+1) 0x5B ++ [0x31])).1 = .tooDeep ∧
    (JDDF.run {} 1 fF dzf (List.replicate (1+1) 0x5B ++ [0x31])).2.2 = 1 + 1 :=
  (C15.filtered_toodeep_slot_level {} h31 1 fF [0x31] dzf
    (show PL.GeoOK dzf.g from gok) (show PL.Inv dzf.g dzf.pl from PL.init_inv gok [] (some 1))).1 ov_open2F

set_option maxRecDepth 100000 in
theorem ov_mp2 : (MDD.run {} 1 dz (List.replicate (1+1) 0x91 ++ [0x01])).2.1.overflowed = false := by decide +kernel

/-- MessagePack `91 91 01` with `L = 1`: `TooDeep` after 2 bytes -/
example : (MDD.run {} 1 dz (List.replicate (1+1) 0x91 ++ [0x01])).1 = .tooDeep ∧
    (MDD.run {} 1 dz (List.replicate (1+1) 0x91 ++ [0x01])).2.2 = 1 + 1 :=
  (C15.msgpack_toodeep_at_limit_slot_level {} 1 [0x01] dz gok hp).1 ov_mp2

/-! ### C16 -/

set_option maxRecDepth 100000 in
theorem ov_t78T : (JDDF.run {} 10 fT dz t78).2.1.overflowed = false := by decide +kernel
set_option maxRecDepth 100000 in
theorem ov_t78F : (JDDF.run {} 10 fF dz t78).2.1.overflowed = false := by decide +kernel
theorem ok_t78 : (JD.run {} 10 t78).1 = .ok := by decide +kernel

/-- `[7] [8]` under `[true]` and under `[false]`: both filtered slot-level calls stop after the 3 bytes of the first document,
    as the unfiltered value-level call does; the documents left are `[7]` and `[]` -/
example : (JDDF.run {} 10 fT dz t78).2.2 = 3 ∧ (JDDF.run {} 10 fF dz t78).2.2 = 3 ∧
    (JDDF.run {} 10 fT dz t78).2.1.toVal (JDDF.run {} 10 fT dz t78).2.1.root = .arr [.num (.uint 7)] ∧
    (JDDF.run {} 10 fF dz t78).2.1.toVal (JDDF.run {} 10 fF dz t78).2.1.root = .arr [] := by
  obtain ⟨_, a2, a3⟩ := (C16.filtered_consumption_slot_level {} h31 10 fT t78 ok_t78 dz gok hp).1 ov_t78T
  obtain ⟨_, b2, b3⟩ := (C16.filtered_consumption_slot_level {} h31 10 fF t78 ok_t78 dz gok hp).1 ov_t78F
  rw [a2, a3, b2, b3]
  exact ⟨by decide +kernel, by decide +kernel, valEq_sound _ _ (by decide +kernel), valEq_sound _ _ (by decide +kernel)⟩

/-! ### C09 -/

theorem e1_enc : MD.Enc {} 1 e1 :=
  MD.Enc.arr (d := 0) [0xDC, 0x00, 0x01] [[0x01]] (.a16 [0x00, 0x01] 1 rfl (by decide +kernel))
    (fun e he => by
      simp only [List.mem_cons, List.mem_nil_iff, or_false] at he
      subst he
      exact .leaf (.posfix 0x01 (by decide)))

set_option maxRecDepth 100000 in
theorem ov_e1T : (MDDF.run {} 10 fT dz (e1 ++ [0xC1])).2.1.overflowed = false := by decide +kernel
set_option maxRecDepth 100000 in
theorem ov_e1F : (MDDF.run {} 10 fF dz (e1 ++ [0xC1])).2.1.overflowed = false := by decide +kernel

/-- the array16 encoding `DC 00 01 01` (which the serializer never writes) followed by `C1`, under `[true]` and under
    `[false]`: `Ok`, exactly its 4 bytes consumed, the documents left are `[1]` and `[]` -/
example : (MDDF.run {} 10 fT dz (e1 ++ [0xC1])).1 = .ok ∧ (MDDF.run {} 10 fT dz (e1 ++ [0xC1])).2.2 = 4 ∧
    (MDDF.run {} 10 fF dz (e1 ++ [0xC1])).1 = .ok ∧ (MDDF.run {} 10 fF dz (e1 ++ [0xC1])).2.2 = 4 ∧
    (MDDF.run {} 10 fT dz (e1 ++ [0xC1])).2.1.toVal (MDDF.run {} 10 fT dz (e1 ++ [0xC1])).2.1.root =
      .arr [.num (.sint 1)] ∧
    (MDDF.run {} 10 fF dz (e1 ++ [0xC1])).2.1.toVal (MDDF.run {} 10 fF dz (e1 ++ [0xC1])).2.1.root = .arr [] := by
  obtain ⟨a1, a2, a3⟩ := (C09.filtered_enc_accepts_slot_level {} 10 fT e1_enc (by decide) [0xC1] dz gok hp).1 ov_e1T
  obtain ⟨b1, b2, b3⟩ := (C09.filtered_enc_accepts_slot_level {} 10 fF e1_enc (by decide) [0xC1] dz gok hp).1 ov_e1F
  rw [a3, b3]
  exact ⟨a1, a2, b1, b2, valEq_sound _ _ (by decide +kernel), valEq_sound _ _ (by decide +kernel)⟩

/-! ### C03 -/

/-- `{"a":{"key":[1]}}` in MessagePack, 10 bytes, into the document whose allocator refuses every call, under any filter:
    the run stays within the 10 bytes (here it stops after 2: the first key cannot be buffered) -/
example (flt : Flt) :
    (MDDF.run {} 10 flt dzf [0x81, 0xa1, 0x61, 0x81, 0xa3, 0x6b, 0x65, 0x79, 0x91, 0x01]).2.2 ≤ 10 :=
  C03.filtered_mp_run_within_input_slot_level {} 10 flt dzf _

set_option maxRecDepth 100000 in
/-- JSON `[7] [8]` under `[true]` with the failing allocator: `NoMemory` after 2 bytes (the value-level filtered run consumes
    3) — the consumption is NOT the value-level one, and still within the input -/
example : (JDDF.run {} 10 fT dzf t78).1 = .noMemory ∧ (JDDF.run {} 10 fT dzf t78).2.2 = 2 ∧
    (JD.frun {} 10 fT t78).2.2 = 3 := by decide +kernel
example : (JDDF.run {} 10 fT dzf t78).2.2 ≤ 7 := C03.filtered_run_within_input_slot_level {} 10 fT dzf t78

/-! ### C08 -/

/-- `[1, "a"]` -/
def vB : Val := .arr [.num (.uint 1), .str [0x61]]
theorem ser_vB : MD.ser vB = [0x92, 0x01, 0xA1, 0x61] := by decide +kernel

/-- a 2-byte buffer receives `92 01` and the count 2; a 6-byte buffer filled with `EE` receives the 4 bytes and keeps its
    last two bytes; no NUL in either case; a 4-byte buffer is an exact fit -/
example : (JSer.toBuffer (MD.ser vB) 2 false).ret = 2 ∧ (JSer.toBuffer (MD.ser vB) 2 false).stored = [0x92, 0x01] ∧
    (JSer.toBuffer (MD.ser vB) 6 false).ret = 4 ∧ (JSer.toBuffer (MD.ser vB) 6 false).nul = false ∧
    (JSer.bufferAfter (MD.ser vB) 6 false 0xEE)[4]? = some 0xEE ∧
    (JSer.bufferAfter (MD.ser vB) 6 false 0xEE)[5]? = some 0xEE ∧
    JSer.bufferAfter (MD.ser vB) (MD.ser vB).length false 0xEE = [0x92, 0x01, 0xA1, 0x61] := by
  refine ⟨?_, ?_, ?_, C08.mp_buffer_no_nul vB 6, ?_, ?_, ?_⟩
  · rw [C08.mp_buffer_count, ser_vB]; decide
  · rw [C08.mp_buffer_prefix, ser_vB]; decide
  · rw [C08.mp_buffer_count, ser_vB]; decide
  · exact C08.mp_buffer_untouched vB 6 0xEE 4 (by rw [ser_vB]; decide) (by decide)
  · exact C08.mp_buffer_untouched vB 6 0xEE 5 (by rw [ser_vB]; decide) (by decide)
  · rw [(C08.mp_buffer_exact_fit vB 0xEE).2.2.2, ser_vB]

end SlotCor2.Ex
