/- The dialect of JSON that `deserializeJson` documents, as a relational specification (no proofs here).

   It generalises `Spec.Json` (RFC 8259):
   * white space may contain comments `/* … */` and `// … LF` when `cfg.comments` is set;
   * strings are delimited by `"` or by `'`; a body byte is any byte but the closing quote, the backslash and NUL
     (raw control characters and the other quote included); the escapes are `\" \' \/ \\ \b \f \n \r \t` and `\uXXXX`;
   * an object key is a string, or a non-empty run of identifier bytes `[0-9A-Za-z_]` plus the backquote;
   * a number is a token of at most 63 "number bytes" (`JD.inNumber`) which `JD.parseNumber` does not refuse:
     this covers the lenient spellings `+1`, `.5`, `1.`, `1e`, `01`, and `NaN` / `Infinity` when enabled;
   * whatever follows a complete top-level value is ignored (`Doc`), except that a top-level number must be followed by
     white space, NUL or the end of the input.
   A NUL byte ends the input of the deserializer; it occurs nowhere inside a text of the dialect.

   `Value cfg L t v`: the byte string `t` is a value of the dialect within the limits (nesting ≤ `L`, quoted strings
   ≤ `cfg.maxStrLen` bytes) and denotes `v`.
   Soundness and completeness of the deserializer model w.r.t. this specification: AJ/Props/C10.lean. -/
import AJ.Model.JD
import AJ.Spec.Unicode
namespace Spec.Dialect
open JD

/-! ## white space and comments -/

/-- RFC 8259 §2 white space bytes -/
def IsWsByte (c : Byte) : Prop := c = 0x20 ∨ c = 0x09 ∨ c = 0x0A ∨ c = 0x0D

/-- `Block star b`: `b` is what follows the opening `/*` of a block comment, up to and including the FIRST `*/`
    (`star`: the byte before `b` counts as a `*`; it is `false` right after the opening, so `/*/` is not closed).
    No NUL inside. -/
inductive Block : Bool → List Byte → Prop
  | close : Block true [0x2F]
  | step (star : Bool) (c : Byte) (b : List Byte) :
      c ≠ 0 → ¬ (c = 0x2F ∧ star = true) → Block (c == 0x2A) b → Block star (c :: b)

/-- dialect white space: RFC white space bytes and, when enabled, block comments and line comments
    (a line comment extends to a LF, which must be there) -/
inductive DWs (cfg : Cfg) : List Byte → Prop
  | nil : DWs cfg []
  | ws (c : Byte) (w : List Byte) : IsWsByte c → DWs cfg w → DWs cfg (c :: w)
  | block (b w : List Byte) : cfg.comments = true → Block false b → DWs cfg w → DWs cfg (0x2F :: 0x2A :: b ++ w)
  | line (x w : List Byte) : cfg.comments = true → (∀ c ∈ x, c ≠ 0 ∧ c ≠ 0x0A) → DWs cfg w →
      DWs cfg (0x2F :: 0x2F :: x ++ 0x0A :: w)

/-! ## strings -/

/-- the two-character escapes: (letter after the backslash, denoted byte) -/
def escapes : List (Byte × Byte) :=
  [(0x22, 0x22), (0x27, 0x27), (0x2F, 0x2F), (0x5C, 0x5C), (0x62, 0x08), (0x66, 0x0C), (0x6E, 0x0A), (0x72, 0x0D), (0x74, 0x09)]

/-- the 16-bit code unit written by four hexadecimal digits -/
def hex4 (a b c d : Byte) : Option Nat :=
  match Spec.hexVal a, Spec.hexVal b, Spec.hexVal c, Spec.hexVal d with
  | some x1, some x2, some x3, some x4 => some (x1 * 4096 + x2 * 256 + x3 * 16 + x4)
  | _, _, _, _ => none

/-- `decodeBody cfg stop hi body`: the bytes denoted by the string body `body` (the text between the quotes `stop`),
    or `none` if `body` is not a well-formed body.
    * a byte other than `stop`, `\` and NUL denotes itself;
    * `\l` for the nine escape letters denotes one byte;
    * with `cfg.decodeUnicode`: `\uXXXX` (four hex digits, either case) denotes the UTF-8 encoding of the code unit;
      a high surrogate (D800–DBFF) denotes nothing but is remembered (`hi` = its low ten bits, initially 0);
      a low surrogate (DC00–DFFF) denotes the code point `0x10000 + hi·1024 + (its low ten bits)` — the usual
      pair rule when it follows its high surrogate; unpaired surrogates are not refused;
    * without `cfg.decodeUnicode`: `\u` denotes the two bytes `\u` (the digits that follow are ordinary bytes and are
      not checked). -/
def decodeBody (cfg : Cfg) (stop : Byte) : Nat → List Byte → Option (List Byte)
  | _, [] => some []
  | hi, c :: t =>
    if c = stop ∨ c = 0 then none
    else if c ≠ 0x5C then (decodeBody cfg stop hi t).map (c :: ·)
    else
      match t with
      | [] => none
      | l :: t' =>
        if l = 0x75 then
          if cfg.decodeUnicode then
            match t' with
            | a :: b :: c' :: d :: t'' =>
              match hex4 a b c' d with
              | none => none
              | some cu =>
                if 0xD800 ≤ cu ∧ cu < 0xDC00 then decodeBody cfg stop (cu % 1024) t''
                else if 0xDC00 ≤ cu ∧ cu < 0xE000 then
                  (decodeBody cfg stop hi t'').map (Spec.utf8 (0x10000 + (hi * 1024 + cu % 1024)) ++ ·)
                else (decodeBody cfg stop hi t'').map (Spec.utf8 cu ++ ·)
            | _ => none
          else (decodeBody cfg stop hi t').map (fun r => 0x5C :: 0x75 :: r)
        else
          match escapes.lookup l with
          | none => none
          | some x => (decodeBody cfg stop hi t').map (x :: ·)

def IsQuote (q : Byte) : Prop := q = 0x22 ∨ q = 0x27

/-- an object key: a quoted string, or a non-empty run of identifier bytes (which denotes itself); both go through the
    string builder, so both are limited by `cfg.maxStrLen` -/
inductive Key (cfg : Cfg) : List Byte → List Byte → Prop
  | quoted (q : Byte) (body k : List Byte) : IsQuote q → decodeBody cfg q 0 body = some k → k.length ≤ cfg.maxStrLen →
      Key cfg (q :: body ++ [q]) k
  | bare (k : List Byte) : k ≠ [] → (∀ c ∈ k, inUnquoted c = true) → k.length ≤ cfg.maxStrLen → Key cfg k k

/-! ## numbers -/

/-- the document value of a number token: what `JD.parseNumber` computes, stored as the deserializer stores it
    (`none`: refused). The accuracy of the floating-point result is property C12. -/
def numDen (cfg : Cfg) (lit : List Byte) : Option Val :=
  match parseNumber cfg lit with
  | .uint n => some (.num (.uint n))
  | .sint n => some (.num (.sint n))
  | .f32 b => some (.num (.f32 b))
  | .f64 b => some (.num (storeDouble b))
  | .invalid => none
  | .fault => none

/-- a number token: at most 63 number bytes (the buffer is `char[64]`), accepted by `parseNumber`. A token that starts
    with `n` is never a number (the deserializer reads it as `null`). -/
def NumTok (cfg : Cfg) (lit : List Byte) (v : Val) : Prop :=
  lit.length ≤ 63 ∧ (∀ c ∈ lit, inNumber cfg c = true) ∧ lit.head? ≠ some 0x6E ∧ numDen cfg lit = some v

/-- a repeated name keeps its first position and takes its last value -/
def lastWins (ms : List (List Byte × Val)) : List (List Byte × Val) :=
  ms.foldl (fun acc kv => setMember acc kv.1 kv.2) []

/-! ## values -/
mutual
inductive Value (cfg : Cfg) : Nat → List Byte → Val → Prop
  | null (L) : Value cfg L [0x6E, 0x75, 0x6C, 0x6C] .null
  | true (L) : Value cfg L [0x74, 0x72, 0x75, 0x65] (.bool true)
  | false (L) : Value cfg L [0x66, 0x61, 0x6C, 0x73, 0x65] (.bool false)
  | num (L lit v) : NumTok cfg lit v → Value cfg L lit v
  | str (L q body s) : IsQuote q → decodeBody cfg q 0 body = some s → s.length ≤ cfg.maxStrLen →
      Value cfg L (q :: body ++ [q]) (.str s)
  | arrEmpty (L w) : DWs cfg w → Value cfg (L + 1) (0x5B :: w ++ [0x5D]) (.arr [])
  | arr (L body xs) : Elements cfg L body xs → Value cfg (L + 1) (0x5B :: body ++ [0x5D]) (.arr xs)
  | objEmpty (L w) : DWs cfg w → Value cfg (L + 1) (0x7B :: w ++ [0x7D]) (.obj [])
  | obj (L body ms) : Members cfg L body ms → Value cfg (L + 1) (0x7B :: body ++ [0x7D]) (.obj (lastWins ms))
/-- `ws value ws ( , ws value ws )*` -/
inductive Elements (cfg : Cfg) : Nat → List Byte → List Val → Prop
  | one (L w1 t v w2) : DWs cfg w1 → Value cfg L t v → DWs cfg w2 → Elements cfg L (w1 ++ t ++ w2) [v]
  | cons (L w1 t v w2 rest vs) : DWs cfg w1 → Value cfg L t v → DWs cfg w2 → Elements cfg L rest vs →
      Elements cfg L (w1 ++ t ++ w2 ++ 0x2C :: rest) (v :: vs)
/-- `ws key ws : ws value ws ( , … )*`, the members in TEXT order, repetitions included -/
inductive Members (cfg : Cfg) : Nat → List Byte → List (List Byte × Val) → Prop
  | one (L w1 kt k w2 w3 t v w4) : DWs cfg w1 → Key cfg kt k → DWs cfg w2 → DWs cfg w3 → Value cfg L t v → DWs cfg w4 →
      Members cfg L (w1 ++ kt ++ w2 ++ 0x3A :: w3 ++ t ++ w4) [(k, v)]
  | cons (L w1 kt k w2 w3 t v w4 rest ms) : DWs cfg w1 → Key cfg kt k → DWs cfg w2 → DWs cfg w3 → Value cfg L t v →
      DWs cfg w4 → Members cfg L rest ms →
      Members cfg L (w1 ++ kt ++ w2 ++ 0x3A :: w3 ++ t ++ w4 ++ 0x2C :: rest) ((k, v) :: ms)
end

/-- what may follow the top-level value: anything, except after a number (white space, NUL or the end) -/
def Trailer (v : Val) (rest : List Byte) : Prop :=
  isNumberVal v = true → rest.headD 0 = 0 ∨ isWs (rest.headD 0) = true

/-- a text the deserializer accepts: white space, a value, a trailer -/
def Doc (cfg : Cfg) (L : Nat) (t : List Byte) (v : Val) : Prop :=
  ∃ w body rest, t = w ++ body ++ rest ∧ DWs cfg w ∧ Value cfg L body v ∧ Trailer v rest

/-- the text proper: the input up to the first NUL -/
def text (t : List Byte) : List Byte := t.takeWhile (· != 0)

end Spec.Dialect
