/- What a deserialization filter keeps of a document (Deserialization/Filter.hpp), as a function on documents.

   `project flt v` is the projection of the document `v` onto the filter `flt`:
   * the filter `true` (`Flt.all`, or a filter document equal to `true`) keeps a value entirely;
   * an object filter keeps the members whose entry (the entry `"*"` standing for every key without an entry
     of its own) is true-ish, and filters their values recursively with that entry;
   * an array filter applies its first element to every element;
   * a `null` or `false` entry removes the member / the element;
   * a kept value whose kind the filter does not accept (an array under a filter that is neither `true` nor an
     array, an object under a filter that is neither `true` nor an object, a scalar or a string under a filter
     that is not `true`) becomes `null`.
   Written against the filter API of the model (`JD.Flt.allow…`, `subKey`, `subIdx`) so that it is directly
   comparable with the filtered deserializer. No proofs here; see AJ/Lemmas/Project*.lean and AJ/Props/C11.lean. -/
import AJ.Model.JD
namespace Spec.Filter
open JD

mutual
/-- the projection of a document onto a filter -/
def project : Flt → Val → Val
  | f, .arr xs => if f.allowArray then .arr (projectElems f.subIdx xs) else .null
  | f, .obj ms => if f.allowObject then .obj (projectMembers f ms) else .null
  | _, .null => .null
  | f, .bool b => if f.allowValue then .bool b else .null
  | f, .num n => if f.allowValue then .num n else .null
  | f, .str s => if f.allowValue then .str s else .null
  | f, .raw s => if f.allowValue then .raw s else .null
/-- elements under the element filter `ef` (= `filter[0]`): removed when `ef` is not true-ish -/
def projectElems : Flt → List Val → List Val
  | _, [] => []
  | ef, x :: xs => if ef.allow then project ef x :: projectElems ef xs else projectElems ef xs
/-- members under the object filter `f`: the member `k` is removed when `filter[k]` is not true-ish -/
def projectMembers : Flt → List (List Byte × Val) → List (List Byte × Val)
  | _, [] => []
  | f, (k, x) :: ms =>
    if (f.subKey k).allow then (k, project (f.subKey k) x) :: projectMembers f ms else projectMembers f ms
end

end Spec.Filter
