/- RFC 8259 as a relational specification: which byte strings are JSON texts, and which document each denotes.

   `Value cfg L t v` : the byte string `t` is a JSON value (RFC 8259 §3–§7) that fits the limits of a deserializer
   configured by `cfg` with nesting limit `L` (containers nested at most `L` deep, every string literal and every
   key decoding to at most `cfg.maxStrLen` bytes), and it denotes the document `v`.
   The limits are part of the grammar (and not predicates on `v`) because a repeated key hides the value it
   overwrites: that value is absent from `v` but it was in the text, and the deserializer had to read it.

   No proofs here. The deserializer model is proved complete w.r.t. this specification in AJ/Props/C01.lean. -/
import AJ.Model.JD
import AJ.Lemmas.Quoted   -- `JD.Body`: RFC 8259 §7 string bodies with the bytes they denote
namespace Spec.Json
open JD

/-- §2 `ws`: any sequence of space, horizontal tab, line feed, carriage return -/
def Ws (w : List Byte) : Prop := ∀ c ∈ w, c = 0x20 ∨ c = 0x09 ∨ c = 0x0A ∨ c = 0x0D

/-! ## §6 numbers: `-? (0 | [1-9][0-9]*) (. [0-9]+)? ([eE] [+-]? [0-9]+)?` -/

/-- `[0-9]+` -/
def Digits1 (ds : List Byte) : Prop := ds ≠ [] ∧ ∀ c ∈ ds, 0x30 ≤ c ∧ c ≤ 0x39
/-- `0 | [1-9][0-9]*` -/
def IntPart (ds : List Byte) : Prop := ds = [0x30] ∨ (Digits1 ds ∧ ds.head? ≠ some 0x30)
/-- `(. [0-9]+)?` -/
def FracPart (f : List Byte) : Prop := f = [] ∨ ∃ ds, Digits1 ds ∧ f = 0x2E :: ds
/-- `([eE] [+-]? [0-9]+)?` -/
def ExpPart (e : List Byte) : Prop :=
  e = [] ∨ ∃ c sg ds, (c = 0x65 ∨ c = 0x45) ∧ (sg = [] ∨ sg = [0x2B] ∨ sg = [0x2D]) ∧ Digits1 ds ∧ e = c :: (sg ++ ds)

/-- a number literal of the RFC, of at most 63 bytes (the deserializer's number buffer is `char[64]`) -/
def NumLit (t : List Byte) : Prop :=
  t.length ≤ 63 ∧
  ∃ sg ip f e, (sg = [] ∨ sg = [0x2D]) ∧ IntPart ip ∧ FracPart f ∧ ExpPart e ∧ t = sg ++ ip ++ f ++ e

/-- value of a string of decimal digits -/
def decVal (ds : List Byte) : Nat := ds.foldl (fun acc c => acc * 10 + (c.toNat - 48)) 0
def allDigits (ds : List Byte) : Bool := ds.all isDigit

/-- what a literal with a fraction, an exponent, or an integer part outside the 64-bit ranges becomes: the
    floating-point value computed by `JD.parseNumber`, stored as `parseNumeric` stores it. Its accuracy is
    property C12, not this one. -/
def floatVal (cfg : Cfg) (lit : List Byte) : Val :=
  match parseNumber cfg lit with
  | .f32 b => .num (.f32 b)
  | .f64 b => .num (storeDouble b)
  | .uint n => .num (.uint n)
  | .sint n => .num (.sint n)
  | _ => .null

/-- the document value of a number literal: integer literals in `[-2^63, 2^64)` are exact integers,
    unsigned when written without sign, signed (including `-0`) when written with a minus sign -/
def numVal (cfg : Cfg) (lit : List Byte) : Val :=
  match lit with
  | 0x2D :: ds =>
    if allDigits ds ∧ decVal ds ≤ 2 ^ 63 then .num (.sint (-(decVal ds : Int))) else floatVal cfg lit
  | ds =>
    if allDigits ds ∧ decVal ds < 2 ^ 64 then .num (.uint (decVal ds)) else floatVal cfg lit

/-! ## §4 objects: a repeated name keeps its first position and takes its last value -/
def lastWins (ms : List (List Byte × Val)) : List (List Byte × Val) :=
  ms.foldl (fun acc kv => setMember acc kv.1 kv.2) []

/-! ## §3–§5, §7 values -/
mutual
/-- `Value cfg L t v`: `t` is a JSON value within the limits (`L`, `cfg.maxStrLen`) and denotes `v` -/
inductive Value (cfg : Cfg) : Nat → List Byte → Val → Prop
  | null (L) : Value cfg L [0x6E, 0x75, 0x6C, 0x6C] .null
  | true (L) : Value cfg L [0x74, 0x72, 0x75, 0x65] (.bool true)
  | false (L) : Value cfg L [0x66, 0x61, 0x6C, 0x73, 0x65] (.bool false)
  | num (L lit) : NumLit lit → Value cfg L lit (numVal cfg lit)
  | str (L body s) : Body 0x22 body s → s.length ≤ cfg.maxStrLen → Value cfg L (0x22 :: body ++ [0x22]) (.str s)
  | arrEmpty (L w) : Ws w → Value cfg (L + 1) (0x5B :: w ++ [0x5D]) (.arr [])
  | arr (L body xs) : Elements cfg L body xs → Value cfg (L + 1) (0x5B :: body ++ [0x5D]) (.arr xs)
  | objEmpty (L w) : Ws w → Value cfg (L + 1) (0x7B :: w ++ [0x7D]) (.obj [])
  | obj (L body ms) : Members cfg L body ms → Value cfg (L + 1) (0x7B :: body ++ [0x7D]) (.obj (lastWins ms))
/-- `ws value ws ( , ws value ws )*` with the list of denoted values -/
inductive Elements (cfg : Cfg) : Nat → List Byte → List Val → Prop
  | one (L w1 t v w2) : Ws w1 → Value cfg L t v → Ws w2 → Elements cfg L (w1 ++ t ++ w2) [v]
  | cons (L w1 t v w2 rest vs) : Ws w1 → Value cfg L t v → Ws w2 → Elements cfg L rest vs →
      Elements cfg L (w1 ++ t ++ w2 ++ 0x2C :: rest) (v :: vs)
/-- `ws string ws : ws value ws ( , … )*` with the members in TEXT order, repetitions included -/
inductive Members (cfg : Cfg) : Nat → List Byte → List (List Byte × Val) → Prop
  | one (L w1 kb k w2 w3 t v w4) : Ws w1 → Body 0x22 kb k → k.length ≤ cfg.maxStrLen → Ws w2 → Ws w3 →
      Value cfg L t v → Ws w4 →
      Members cfg L (w1 ++ 0x22 :: kb ++ 0x22 :: w2 ++ 0x3A :: w3 ++ t ++ w4) [(k, v)]
  | cons (L w1 kb k w2 w3 t v w4 rest ms) : Ws w1 → Body 0x22 kb k → k.length ≤ cfg.maxStrLen → Ws w2 → Ws w3 →
      Value cfg L t v → Ws w4 → Members cfg L rest ms →
      Members cfg L (w1 ++ 0x22 :: kb ++ 0x22 :: w2 ++ 0x3A :: w3 ++ t ++ w4 ++ 0x2C :: rest) ((k, v) :: ms)
end

/-- §2 `JSON-text = ws value ws` -/
def Doc (cfg : Cfg) (L : Nat) (t : List Byte) (v : Val) : Prop :=
  ∃ w1 body w2, t = w1 ++ body ++ w2 ∧ Ws w1 ∧ Ws w2 ∧ Value cfg L body v

/-! ## measures of a document -/
mutual
/-- nesting depth: scalars 0, a container one more than its deepest child -/
def depth : Val → Nat
  | .arr xs => depthList xs + 1
  | .obj ms => depthMembers ms + 1
  | _ => 0
def depthList : List Val → Nat
  | [] => 0
  | x :: xs => max (depth x) (depthList xs)
def depthMembers : List (List Byte × Val) → Nat
  | [] => 0
  | (_, v) :: ms => max (depth v) (depthMembers ms)
end

mutual
/-- every string and every key has at most `max` bytes -/
def StrOk (max : Nat) : Val → Prop
  | .str s => s.length ≤ max
  | .arr xs => StrOkList max xs
  | .obj ms => StrOkMembers max ms
  | _ => True
def StrOkList (max : Nat) : List Val → Prop
  | [] => True
  | x :: xs => StrOk max x ∧ StrOkList max xs
def StrOkMembers (max : Nat) : List (List Byte × Val) → Prop
  | [] => True
  | (k, v) :: ms => k.length ≤ max ∧ StrOk max v ∧ StrOkMembers max ms
end

end Spec.Json
