/- Independent MessagePack decoder written from the format specification (spec side, not a model of the code).
   Produces a neutral value: ints as Int, floats as (width, bits), str/bin/ext, arrays, maps. -/
namespace MSpec
abbrev Byte := UInt8

inductive MV
  | nil | bool (b : Bool) | int (v : Int) | f32 (bits : Nat) | f64 (bits : Nat)
  | str (s : List Byte) | bin (s : List Byte) | ext (type : Nat) (s : List Byte)
  | arr (xs : List MV) | map (kvs : List (MV × MV))
deriving Repr, Inhabited

def be (bs : List Byte) : Nat := bs.foldl (fun a b => a * 256 + b.toNat) 0
def signed (w : Nat) (u : Nat) : Int := if u ≥ 2^(8*w-1) then Int.ofNat u - Int.ofNat (2^(8*w)) else Int.ofNat u

def take? (n : Nat) (bs : List Byte) : Option (List Byte × List Byte) :=
  if bs.length ≥ n then some (bs.take n, bs.drop n) else none

mutual
def decode : Nat → List Byte → Option (MV × List Byte)
  | 0, _ => none
  | _, [] => none
  | fuel+1, c :: r =>
    let c := c.toNat
    if c ≤ 0x7f then some (.int c, r)
    else if c ≤ 0x8f then decodeMap fuel (c - 0x80) r []
    else if c ≤ 0x9f then decodeArr fuel (c - 0x90) r []
    else if c ≤ 0xbf then (take? (c - 0xa0) r).map (fun (s, r) => (.str s, r))
    else if c == 0xc0 then some (.nil, r)
    else if c == 0xc1 then none
    else if c == 0xc2 then some (.bool false, r)
    else if c == 0xc3 then some (.bool true, r)
    else if c == 0xc4 || c == 0xc5 || c == 0xc6 then
      let w := 2^(c - 0xc4)
      (take? w r).bind (fun (l, r) => (take? (be l) r).map (fun (s, r) => (.bin s, r)))
    else if c == 0xc7 || c == 0xc8 || c == 0xc9 then
      let w := 2^(c - 0xc7)
      (take? w r).bind (fun (l, r) => (take? 1 r).bind (fun (t, r) => (take? (be l) r).map (fun (s, r) => (.ext (be t) s, r))))
    else if c == 0xca then (take? 4 r).map (fun (b, r) => (.f32 (be b), r))
    else if c == 0xcb then (take? 8 r).map (fun (b, r) => (.f64 (be b), r))
    else if 0xcc ≤ c && c ≤ 0xcf then let w := 2^(c - 0xcc); (take? w r).map (fun (b, r) => (.int (be b), r))
    else if 0xd0 ≤ c && c ≤ 0xd3 then let w := 2^(c - 0xd0); (take? w r).map (fun (b, r) => (.int (signed w (be b)), r))
    else if 0xd4 ≤ c && c ≤ 0xd8 then
      let n := 2^(c - 0xd4)
      (take? 1 r).bind (fun (t, r) => (take? n r).map (fun (s, r) => (.ext (be t) s, r)))
    else if c == 0xd9 || c == 0xda || c == 0xdb then
      let w := 2^(c - 0xd9)
      (take? w r).bind (fun (l, r) => (take? (be l) r).map (fun (s, r) => (.str s, r)))
    else if c == 0xdc || c == 0xdd then let w := 2 * 2^(c - 0xdc); (take? w r).bind (fun (l, r) => decodeArr fuel (be l) r [])
    else if c == 0xde || c == 0xdf then let w := 2 * 2^(c - 0xde); (take? w r).bind (fun (l, r) => decodeMap fuel (be l) r [])
    else some (.int (Int.ofNat c - 256), r)       -- negative fixint
def decodeArr : Nat → Nat → List Byte → List MV → Option (MV × List Byte)
  | 0, _, _, _ => none
  | fuel+1, n, bs, acc =>
    if n == 0 then some (.arr acc.reverse, bs) else
    (decode fuel bs).bind (fun (v, r) => decodeArr fuel (n - 1) r (v :: acc))
def decodeMap : Nat → Nat → List Byte → List (MV × MV) → Option (MV × List Byte)
  | 0, _, _, _ => none
  | fuel+1, n, bs, acc =>
    if n == 0 then some (.map acc.reverse, bs) else
    (decode fuel bs).bind (fun (k, r) => (decode fuel r).bind (fun (v, r) => decodeMap fuel (n - 1) r ((k, v) :: acc)))
end

/-- decode exactly one object; the fuel is linear in the input and never runs out on it (see Props/C08) -/
def decodeTop (bs : List Byte) : Option (MV × List Byte) := decode (2 * bs.length + 2) bs
end MSpec
