/- Spec side: UTF-8 as defined by the Unicode standard (table 3-6), by div/mod; surrogate recombination (UTF-16). -/
namespace Spec

def utf8 (cp : Nat) : List UInt8 :=
  if cp < 0x80 then [UInt8.ofNat cp]
  else if cp < 0x800 then [UInt8.ofNat (0xC0 + cp / 64), UInt8.ofNat (0x80 + cp % 64)]
  else if cp < 0x10000 then [UInt8.ofNat (0xE0 + cp / 4096), UInt8.ofNat (0x80 + cp / 64 % 64), UInt8.ofNat (0x80 + cp % 64)]
  else [UInt8.ofNat (0xF0 + cp / 262144), UInt8.ofNat (0x80 + cp / 4096 % 64), UInt8.ofNat (0x80 + cp / 64 % 64), UInt8.ofNat (0x80 + cp % 64)]

/-- code point of a surrogate pair -/
def pairValue (hi lo : Nat) : Nat := 0x10000 + (hi - 0xD800) * 0x400 + (lo - 0xDC00)

def isSurrogate (cu : Nat) : Bool := 0xD800 ≤ cu && cu < 0xE000

/-- value of a hex digit character, if it is one -/
def hexVal (c : UInt8) : Option Nat :=
  if 0x30 ≤ c && c ≤ 0x39 then some (c.toNat - 0x30)
  else if 0x41 ≤ c && c ≤ 0x46 then some (c.toNat - 0x41 + 10)
  else if 0x61 ≤ c && c ≤ 0x66 then some (c.toNat - 0x61 + 10)
  else none
end Spec
