/- Line-protocol driver: runs the executable models on the same operation lines as harness/aj_harness.cpp.
   Imports models and specs only (no proofs, no Mathlib), so it links even when a property theorem is broken. -/
import AJ
import AJ.Model.JDD
import AJ.Model.MDD
import AJ.Model.JDDF
import AJ.Model.MDDF
open JD

def hexDigit (n : Nat) : Char := if n < 10 then Char.ofNat (48 + n) else Char.ofNat (87 + n)
def hexBytes (bs : List UInt8) : String := String.ofList (bs.flatMap (fun b => [hexDigit (b.toNat / 16), hexDigit (b.toNat % 16)]))
def hexOrDash (bs : List UInt8) : String := if bs.isEmpty then "-" else hexBytes bs
def hexNat (n : Nat) (digits : Nat) : String :=
  String.ofList ((List.range digits).reverse.map (fun i => hexDigit (n / 16^i % 16)))
def hv (c : Char) : Nat := if c.isDigit then c.toNat - 48 else if c.toNat ≥ 97 then c.toNat - 87 else c.toNat - 55
def unhex (s : String) : List UInt8 :=
  if s == "-" then [] else
  let rec go : List Char → List UInt8
    | a :: b :: r => UInt8.ofNat (hv a * 16 + hv b) :: go r
    | _ => []
  go s.toList
def hexToNat (cs : List Char) : Nat := cs.foldl (fun a c => a * 16 + hv c) 0

partial def showVal : Val → String
  | .null => "N"
  | .bool true => "T"
  | .bool false => "F"
  | .num (.uint n) => s!"U{n}"
  | .num (.sint n) => s!"I{n}"
  | .num (.f32 b) => "f" ++ hexNat b 8
  | .num (.f64 b) => "d" ++ hexNat b 16
  | .str s => "S" ++ hexBytes s
  | .raw s => "R" ++ hexBytes s
  | .arr xs => "[" ++ ",".intercalate (xs.map showVal) ++ "]"
  | .obj ms => "{" ++ ",".intercalate (ms.map (fun (k, v) => hexBytes k ++ ":" ++ showVal v)) ++ "}"

def showCode : Code → String
  | .ok => "Ok" | .empty => "EmptyInput" | .incomplete => "IncompleteInput" | .invalid => "InvalidInput"
  | .noMemory => "NoMemory" | .tooDeep => "TooDeep" | .fuel => "FAULT"

partial def showMV : MSpec.MV → String
  | .nil => "N" | .bool true => "T" | .bool false => "F"
  | .int v => s!"i{v}" | .f32 b => "f" ++ hexNat b 8 | .f64 b => "d" ++ hexNat b 16
  | .str s => "S" ++ hexBytes s | .bin s => "B" ++ hexBytes s | .ext t s => s!"X{t}." ++ hexBytes s
  | .arr xs => "[" ++ ",".intercalate (xs.map showMV) ++ "]"
  | .map kvs => "{" ++ ",".intercalate (kvs.map (fun (k, v) => showMV k ++ ":" ++ showMV v)) ++ "}"

/-! term parser: the canonical tree syntax is also the input syntax for documents built through the API -/
def isHexC (c : Char) : Bool := c.isDigit || ('a' ≤ c && c ≤ 'f') || ('A' ≤ c && c ≤ 'F')
def spanHex (cs : List Char) : List Char × List Char := (cs.takeWhile isHexC, cs.dropWhile isHexC)
def cutNul (s : List UInt8) : List UInt8 := s.takeWhile (· != 0)

partial def parseTerm : List Char → Option (Val × List Char)
  | 'N' :: r => some (.null, r)
  | 'T' :: r => some (.bool true, r)
  | 'F' :: r => some (.bool false, r)
  | 'U' :: r => let d := r.takeWhile Char.isDigit; some (.num (.uint (String.ofList d).toNat!), r.dropWhile Char.isDigit)
  | 'I' :: r =>
    let (neg, r) := match r with | '-' :: r' => (true, r') | _ => (false, r)
    let d := r.takeWhile Char.isDigit
    let n : Int := (String.ofList d).toNat!
    some (.num (.sint (if neg then -n else n)), r.dropWhile Char.isDigit)
  | 'f' :: r => some (.num (.f32 (hexToNat (r.take 8))), r.drop 8)
  | 'd' :: r => some (.num (storeDouble (hexToNat (r.take 16))), r.drop 16)
  | 'S' :: r => let (h, r) := spanHex r; some (.str (unhex (String.ofList h)), r)
  | 'L' :: r => let (h, r) := spanHex r; some (.str (cutNul (unhex (String.ofList h))), r)
  | 'R' :: r => let (h, r) := spanHex r; some (.raw (unhex (String.ofList h)), r)
  | 'B' :: r => let (h, r) := spanHex r; some (.raw (MD.binRaw (unhex (String.ofList h))), r)
  | 'X' :: r =>
    let (h, r) := spanHex r
    match unhex (String.ofList h) with
    | t :: d => some (.raw (MD.extRaw t.toNat d), r)
    | [] => none
  | '[' :: ']' :: r => some (.arr [], r)
  | '[' :: r =>
    let rec elems (r : List Char) (acc : List Val) : Option (Val × List Char) :=
      match parseTerm r with
      | none => none
      | some (v, ',' :: r) => elems r (v :: acc)
      | some (v, ']' :: r) => some (.arr (v :: acc).reverse, r)
      | _ => none
    elems r []
  | '{' :: '}' :: r => some (.obj [], r)
  | '{' :: r =>
    let rec members (r : List Char) (acc : List (List UInt8 × Val)) : Option (Val × List Char) :=
      let (linked, r) := match r with | 'l' :: r' => (true, r') | _ => (false, r)
      let (h, r) := spanHex r
      let k := unhex (String.ofList h)
      let k := if linked then cutNul k else k
      match r with
      | ':' :: r =>
        match parseTerm r with
        | none => none
        | some (v, ',' :: r) => members r (acc ++ [(k, v)])
        | some (v, '}' :: r) => some (.obj (acc ++ [(k, v)]), r)
        | _ => none
      | _ => none
    members r []
  | _ => none

def cfgOfBits (bits : Nat) : Cfg :=
  { comments := bits % 2 == 1, nan := bits / 2 % 2 == 1, inf := bits / 4 % 2 == 1, decodeUnicode := bits / 8 % 2 == 1 }

/-- document source: t:<term> | m:<msgpack hex> | j:<json hex> -/
def docOfSpec (spec : String) : Option Val :=
  let body := (spec.drop 2).toString
  if spec.startsWith "t:" then (parseTerm body.toList).map (·.1)
  else if spec.startsWith "m:" then
    match MD.run {} 100 .all (unhex body) with | (.fuel, _, _) => none | (_, v, _) => some v
  else if spec.startsWith "j:" then
    match run {} 100 (unhex body) with | (.fuel, _, _) => none | (_, v, _) => some v
  else none

partial def Val.nesting : Val → Nat
  | .arr xs => 1 + (xs.map Val.nesting).foldl max 0
  | .obj ms => 1 + (ms.map (fun p => Val.nesting p.2)).foldl max 0
  | _ => 0

def filterOf (fhex : String) : Flt :=
  if fhex == "-" then .all else let (_, fv, _) := run {} 20 (unhex fhex); .doc (some fv)

/-- successive calls on one stream: each call starts a fresh latch at the reader's position -/
partial def streamLoop (f : List UInt8 → Code × Val × Nat) (input : List UInt8) (pos : Nat) (k : Nat) (acc : String) : String :=
  if k == 0 then acc else
  let (c, v, n) := f (input.drop pos)
  let pos := pos + n
  let acc := acc ++ s!"{showCode c} {showVal v} {pos};"
  if c != .ok then acc else if pos ≥ input.length then acc else streamLoop f input pos (k - 1) acc

structure DState where
  g : PL.Geo := ⟨256, 4, 4, 16, 16⟩
  ps : PL.St := PL.init ⟨256, 4, 4, 16, 16⟩
  w : DH.W := DH.W.init

def histOps : List String :=
  ["reset", "geo", "root", "mem", "memw", "elem", "elemw", "set", "setm", "sete", "add", "addv", "toarr", "toobj", "remi", "remk", "clear", "cleardoc",
   "copydoc", "swapdoc", "shrink", "obs", "obsx", "failat", "failfrom", "nofail", "ledger", "hser", "liveq", "deserj", "deserm", "rd2"]

/-- cell of a C array after copyArray: `none` in the model = undefined behaviour of the conversion -/
def caCell (cfg : Cfg) (kind : String) (v : Val) : String :=
  let names := ["i8", "u8", "i16", "u16", "i32", "u32", "i64", "u64"]
  match (names.zip Conv.allIT).find? (fun p => p.1 == kind) with
  | some (_, t) => match Conv.asInt cfg v t with | some z => toString z | none => "UB"
  | none =>
    if kind == "f" then (match Conv.asFloatBits cfg v SF.b32 with | some b => hexNat b 8 | none => "UB")
    else (match Conv.asFloatBits cfg v SF.b64 with | some b => hexNat b 16 | none => "UB")

/-- the 0x5A fill pattern read back as a cell of that type -/
def caFill (kind : String) : String :=
  let names := ["i8", "u8", "i16", "u16", "i32", "u32", "i64", "u64"]
  match (names.zip Conv.allIT).find? (fun p => p.1 == kind) with
  | some (_, t) => let raw : Nat := (List.replicate t.bytes 0x5A).foldl (fun a b => a * 256 + b) 0; toString raw
  | none => if kind == "f" then "5a5a5a5a" else "5a5a5a5a5a5a5a5a"

/-- form 0: pointer + length n; form 1: T(&)[3]; form 2: T(&)[2][3] -/
def copyArrOp (cfgs kind : String) (rest : List String) (form : Nat) : String :=
  let cfg := cfgOfBits cfgs.toNat!
  let (n, spec) := match form, rest with
    | 0, [n, spec] => (n.toNat!, spec)
    | _, [spec] => (3, spec)
    | _, _ => (0, "")
  match docOfSpec spec with
  | none => "bad-doc"
  | some v =>
    if form == 2 then
      let (rows, c) := CA.copy2 (caCell cfg kind) (CA.elems v) (List.replicate 2 (List.replicate 3 (caFill kind)))
      s!"{c} {" ".intercalate rows.flatten}"
    else
      let (cells, c) := CA.copy1 (caCell cfg kind) (CA.elems v) (List.replicate n (caFill kind))
      if n == 0 then s!"{c}" else s!"{c} {" ".intercalate cells}"

/-- geometry of the build the harness was compiled with (default: the generated constants of the default configuration) -/
def docGeo (geo : List String) : PL.Geo × Nat × Nat :=
  match geo with
  | [cap, ini, idb, so, mx] => (⟨cap.toNat!, ini.toNat!, idb.toNat!, Gen.slot_size, Gen.pool_object_size⟩, so.toNat!, mx.toNat!)
  | _ => (⟨Gen.pool_capacity, Gen.initial_pool_count, Gen.slot_id_size, Gen.slot_size, Gen.pool_object_size⟩, Gen.string_overhead, Gen.string_max_length)

def handle (st : DState) (ws : List String) : String × DState :=
  let pure (s : String) : String × DState := (s, st)
  if histOps.contains (ws.headD "") then
    let ws := match ws with | ["remk", r, k, _kind] => ["remk", r, k] | _ => ws     -- the source kind of a key is irrelevant to a removal
    let (res, w) := DH.step st.w ws
    let w := w.flush
    (s!"{ws.headD ""} {res}|{" ".intercalate w.log.reverse}", { st with w := { w with log := [] } })
  else
  match ws with
  | "copyarr" :: cfgs :: kind :: rest =>
      -- copyarr cfg kind n spec | copyarr3 cfg kind spec | copyarr2 cfg kind spec ; copystr n spec
      pure (copyArrOp cfgs kind rest 0)
  | "copyarr3" :: cfgs :: kind :: rest => pure (copyArrOp cfgs kind rest 1)
  | "copyarr2" :: cfgs :: kind :: rest => pure (copyArrOp cfgs kind rest 2)
  | ["copystr", n, spec] =>
      match docOfSpec spec with
      | none => pure "bad-doc"
      | some v => pure s!"1 {hexBytes (CA.copyStr v (List.replicate n.toNat! 0x5A))}"
  | "mpdocf" :: lim :: pre :: fail :: fhex :: hex :: geo =>
      -- slot-level FILTERED deserializeMsgPack (AJ/Model/MDDF.lean) with the allocator log
      let (g, so, maxStr) := docGeo geo
      let (_, fv, _) := run {} 20 (unhex fhex)
      let d0 := DH.newDocG g so 0
      let d0 := if pre == "1" then (JDD.run {} 10 d0 "[1,\"abc\",{\"k\":2,\"abc\":12345678901}]".toUTF8.toList).2.1 else d0
      let d0 := { d0 with pl := { d0.pl with log := [] } }
      let k := (fail.drop 1).toString.toNat!
      let d0 := if fail.startsWith "a" then { d0 with pl := { d0.pl with failAt := [d0.pl.calls + k] } }
                else if fail.startsWith "f" then { d0 with pl := { d0.pl with failFrom := some (d0.pl.calls + k) } } else d0
      let (c, d, pos) := MDDF.run { maxStrLen := maxStr } lim.toNat! (.doc (some fv)) d0 (unhex hex)
      let log := " ".intercalate (d.pl.log.reverse.map (fun e => s!"a0:{e}"))
      pure s!"{showCode c} {d.show d.root} {pos} o={if d.overflowed then 1 else 0}|{log}"
  | "mpdoc" :: lim :: pre :: fail :: hex :: geo =>
      let (g, so, maxStr) := docGeo geo
      let d0 := DH.newDocG g so 0
      let d0 := if pre == "1" then (JDD.run {} 10 d0 "[1,\"abc\",{\"k\":2,\"abc\":12345678901}]".toUTF8.toList).2.1 else d0
      let d0 := { d0 with pl := { d0.pl with log := [] } }
      let k := (fail.drop 1).toString.toNat!
      let d0 := if fail.startsWith "a" then { d0 with pl := { d0.pl with failAt := [d0.pl.calls + k] } }
                else if fail.startsWith "f" then { d0 with pl := { d0.pl with failFrom := some (d0.pl.calls + k) } } else d0
      let (c, d, pos) := MDD.run { maxStrLen := maxStr } lim.toNat! d0 (unhex hex)
      let log := " ".intercalate (d.pl.log.reverse.map (fun e => s!"a0:{e}"))
      pure s!"{showCode c} {d.show d.root} {pos} o={if d.overflowed then 1 else 0}|{log}"
  | "jsondocf" :: cfgs :: lim :: pre :: fail :: fhex :: hex :: geo =>
      -- slot-level FILTERED deserializeJson (AJ/Model/JDDF.lean) with the allocator log
      let (g, so, maxStr) := docGeo geo
      let cfg := { cfgOfBits cfgs.toNat! with maxStrLen := maxStr }
      let (_, fv, _) := run (cfgOfBits cfgs.toNat!) 20 (unhex fhex)
      let d0 := DH.newDocG g so 0
      let d0 := if pre == "1" then (JDD.run cfg 10 d0 "[1,\"abc\",{\"k\":2,\"abc\":12345678901}]".toUTF8.toList).2.1 else d0
      let d0 := { d0 with pl := { d0.pl with log := [] } }
      let k := (fail.drop 1).toString.toNat!
      let d0 := if fail.startsWith "a" then { d0 with pl := { d0.pl with failAt := [d0.pl.calls + k] } }
                else if fail.startsWith "f" then { d0 with pl := { d0.pl with failFrom := some (d0.pl.calls + k) } } else d0
      let (c, d, pos) := JDDF.run cfg lim.toNat! (.doc (some fv)) d0 (unhex hex)
      let log := " ".intercalate (d.pl.log.reverse.map (fun e => s!"a0:{e}"))
      pure s!"{showCode c} {d.show d.root} {pos} o={if d.overflowed then 1 else 0}|{log}"
  | "jsondoc" :: cfgs :: lim :: pre :: fail :: hex :: geo =>
      -- slot-level deserializeJson (AJ/Model/JDD.lean) with the allocator log; optional geometry: poolCap initPools idBytes stringOverhead maxStrLen
      let (g, so, maxStr) := docGeo geo
      let cfg := { cfgOfBits cfgs.toNat! with maxStrLen := maxStr }
      let d0 := DH.newDocG g so 0
      let d0 := if pre == "1" then (JDD.run cfg 10 d0 "[1,\"abc\",{\"k\":2,\"abc\":12345678901}]".toUTF8.toList).2.1 else d0
      let d0 := { d0 with pl := { d0.pl with log := [] } }
      let k := (fail.drop 1).toString.toNat!
      let d0 := if fail.startsWith "a" then { d0 with pl := { d0.pl with failAt := [d0.pl.calls + k] } }
                else if fail.startsWith "f" then { d0 with pl := { d0.pl with failFrom := some (d0.pl.calls + k) } } else d0
      let (c, d, pos) := JDD.run cfg lim.toNat! d0 (unhex hex)
      let log := " ".intercalate (d.pl.log.reverse.map (fun e => s!"a0:{e}"))
      pure s!"{showCode c} {d.show d.root} {pos} o={if d.overflowed then 1 else 0}|{log}"
  | ["jsonde", cfgs, _rk, lim, hex] =>
      let (c, v, pos) := run (cfgOfBits cfgs.toNat!) lim.toNat! (unhex hex)
      pure s!"{showCode c} {showVal v} {pos}"
  | ["jsonfilt", cfgs, _rk, lim, fhex, hex] =>
      let cfg := cfgOfBits cfgs.toNat!
      let (_, fv, _) := run cfg 20 (unhex fhex)
      let (c, v, pos) := frun cfg lim.toNat! (.doc (some fv)) (unhex hex)
      pure s!"{showCode c} {showVal v} {pos}"
  | ["mpde", _rk, lim, fhex, hex] =>
      let (c, v, pos) := MD.run {} lim.toNat! (filterOf fhex) (unhex hex)
      pure s!"{showCode c} {showVal v} {pos} {hexOrDash (MD.ser v)}"
  | ["mpde0", _rk, lim, fhex, hex] =>
      let (c, v, pos) := MD.run {} lim.toNat! (filterOf fhex) (unhex hex)
      let v := MD.narrowDoubles v
      pure s!"{showCode c} {showVal v} {pos} {hexOrDash (MD.ser v)}"
  | ["mpspec", hex] =>
      match MSpec.decodeTop (unhex hex) with
      | some (v, []) => pure (showMV v)
      | some (_, _) => pure "trailing"
      | none => pure "none"
  | ["jsonser", cfgs, spec] =>
      match docOfSpec spec with
      | none => pure "bad-doc"
      | some v =>
        let cfg := cfgOfBits cfgs.toNat!
        pure s!"ok {showVal v} {hexOrDash (JSer.compact cfg v)} {hexOrDash (JSer.pretty cfg 0 v)} dest-ok"
  | ["mpser", spec] =>
      match docOfSpec spec with
      | none => pure "bad-doc"
      | some v => pure s!"ok {showVal v} {hexOrDash (MD.ser v)} dest-ok"
  | ["jsonre", cfgs, lim, ha, hb] =>
      let cfg := cfgOfBits cfgs.toNat!
      let once (h : String) := let (c, v, _) := run cfg lim.toNat! (unhex h); s!"{showCode c} {showVal v}"
      pure s!"{once ha} ; {once hb} ; {once ha}"
  | ["mpre", lim, ha, hb] =>
      let once (h : String) := let (c, v, _) := MD.run {} lim.toNat! .all (unhex h); s!"{showCode c} {showVal v}"
      pure s!"{once ha} ; {once hb} ; {once ha}"
  | [op, cfgs, cap, spec] =>
      if op == "jsonbuf" || op == "prettybuf" || op == "mpbuf" then
        match docOfSpec spec with
        | none => pure "bad-doc"
        | some v =>
          let cfg := cfgOfBits cfgs.toNat!
          let text := if op == "jsonbuf" then JSer.compact cfg v else if op == "prettybuf" then JSer.pretty cfg 0 v else MD.ser v
          let o := JSer.toBuffer text cap.toNat! (op != "mpbuf")
          pure s!"ret={o.ret} buf={hexOrDash (JSer.bufferAfter text cap.toNat! (op != "mpbuf") 0xAA)} guard-ok buf-ok"
      else if op == "mpstream" then
        -- mpstream <lim> <chunk> <hex>
        pure (streamLoop (fun bs => MD.run {} cfgs.toNat! .all bs) (unhex spec) 0 40 "")
      else pure "bad-op"
  | ["jsonrt", cfgs, spec] =>
      match docOfSpec spec with
      | none => pure "bad-doc"
      | some v =>
        let cfg := cfgOfBits cfgs.toNat!
        let a := JSer.compact cfg v
        let (c, v2, _) := run cfg 250 a
        pure s!"{showVal v} {hexOrDash a} {showCode c} {showVal v2} {hexOrDash (JSer.compact cfg v2)}"
  | ["mprt", spec] =>
      match docOfSpec spec with
      | none => pure "bad-doc"
      | some v =>
        let a := MD.ser v
        let (c, v2, _) := MD.run {} 250 .all a
        pure s!"{showVal v} {hexOrDash a} {showCode c} {showVal v2} {hexOrDash (MD.ser v2)}"
  | ["cross", cfgs, hex] =>
      let cfg := cfgOfBits cfgs.toNat!
      let (c, v, _) := run cfg 250 (unhex hex)
      let (c2, v2, _) := MD.run {} 250 .all (MD.ser v)
      pure s!"{showCode c} {showVal v} {showCode c2} {showVal v2}"
  | ["conv", cfgs, spec] =>
      match docOfSpec spec with
      | none => pure "bad-doc"
      | some v =>
        let cfg := cfgOfBits cfgs.toNat!
        let names := ["i8", "u8", "i16", "u16", "i32", "u32", "i64", "u64"]
        let ints := (names.zip Conv.allIT).map (fun (n, t) => match Conv.asInt cfg v t with | some z => s!"{n}={z}" | none => s!"{n}=UB")
        let f := match Conv.asFloatBits cfg v SF.b32 with | some b => hexNat b 8 | none => "UB"
        let d := match Conv.asFloatBits cfg v SF.b64 with | some b => hexNat b 16 | none => "UB"
        let isb := String.join ((Conv.allIT.map (fun t => if Conv.isIntV v t then "1" else "0")) ++ [if Conv.isFloatV v then "1" else "0", if Conv.isFloatV v then "1" else "0"])
        pure (" ".intercalate ints ++ s!" f={f} d={d} is={isb}")
  | ["cmp", sa, sb] =>
      let va := if sa == "?" then some Val.null else docOfSpec sa
      let vb := if sb == "?" then some Val.null else docOfSpec sb
      match va, vb with
      | some a, some b =>
        let bits (l : List Bool) := String.join (l.map (fun x => if x then "1" else "0"))
        pure s!"{bits (Cmp.variantOps a b)} {bits (Cmp.variantOps b a)}"
      | _, _ => pure "bad-doc"
  | ["cmps", sa, sc] =>
      match docOfSpec sa with
      | none => pure "bad-doc"
      | some a =>
        let kind := (sc.splitOn ":").headD ""
        let val := ((sc.splitOn ":").drop 1).headD ""
        let small := kind == "i32" || kind == "i16"
        let sc? : Option Cmp.Scalar :=
          if kind == "i64" || small then
            let v := val.toInt!
            -- a narrower signed right operand is converted to the (unsigned) type of the left one
            some (.num (.i v))
          else if kind == "u64" then some (.num (.u val.toNat!))
          else if kind == "u32" || kind == "u16" then some (.num (.u val.toNat!))
          else if kind == "b" then some (.num (.b (val == "1")))
          else if kind == "d" then some (.num (.d (hexToNat val.toList)))
          else if kind == "f" then some (.num (.d (cvt SF.b32 SF.b64 (hexToNat val.toList))))
          else if kind == "s" then some (.str (unhex val))
          else if kind == "cs" then some (.str (cutNul (unhex val)))
          else none
        match sc? with
        | none => pure "bad-kind"
        | some x =>
          let r := Cmp.compareScalar a x
          let b (x : Bool) := if x then "1" else "0"
          let fwd := String.join ((Cmp.ops r).map b)
          let rev := String.join ((Cmp.opsRev r).map b)
          pure s!"{fwd} {rev}"
  | ["stream", cfgs, lim, _chunk, hex] =>
      pure (streamLoop (fun bs => run (cfgOfBits cfgs.toNat!) lim.toNat! bs) (unhex hex) 0 40 "")
  | ["streamf", cfgs, lim, _chunk, fhex, hex] =>
      -- successive calls with a filter: what is discarded is skipped, and must be skipped exactly
      let cfg := cfgOfBits cfgs.toNat!
      pure (streamLoop (fun bs => frun cfg lim.toNat! (filterOf fhex) bs) (unhex hex) 0 40 "")
  | ["depth", fmt, cfgs, lim, fhex, hex] =>
      let cfg := cfgOfBits cfgs.toNat!
      let flt : Flt := if fhex == "-" then .all else let (_, fv, _) := run cfg 20 (unhex fhex); .doc (some fv)
      let (c, v, pos) :=
        if fmt == "j" then (if fhex == "-" then run cfg lim.toNat! (unhex hex) else frun cfg lim.toNat! flt (unhex hex))
        else MD.run {} lim.toNat! flt (unhex hex)
      pure s!"{showCode c} nesting={Val.nesting v} pos={pos}"
  | ["print", "f", hex] =>
      pure (hexBytes (JS.printNum {} (.f32 (hexToNat hex.toList))))
  | ["print", "d", hex] =>
      pure (hexBytes (JS.printNum {} (storeDouble (hexToNat hex.toList))))
  | _ => pure "bad-op"

partial def loop (h : IO.FS.Stream) (out : IO.FS.Stream) (st : DState) : IO Unit := do
  let line ← h.getLine
  if line.isEmpty then return ()
  let ws := (line.trimAscii.toString.splitOn " ").filter (· != "")
  let (res, st) := handle st ws
  out.putStrLn res
  out.flush
  loop h out st

def main : IO Unit := do
  let i ← IO.getStdin; let o ← IO.getStdout
  loop i o {}
