"""Shared machinery for the checks: builds (Lean library + driver, sanitizer harness per configuration, generated
tables), crash-resilient execution of operation lines on harness and driver, evidence writing."""
import fcntl, hashlib, json, os, re, shutil, subprocess, sys, tempfile, time
from concurrent.futures import ThreadPoolExecutor

ROOT = os.path.dirname(os.path.dirname(os.path.abspath(__file__)))
REPO = os.environ.get("AJ_REPO", "/repo")
CACHE = os.path.join(ROOT, ".cache")
LEAN = os.path.join(ROOT, "lean")
DRIVER = os.path.join(LEAN, ".lake", "build", "bin", "ajdriver")
GUARD = "BBLANCHON_ARDUINOJSON_VERIF"
NCPU = max(2, min(16, os.cpu_count() or 4))

os.makedirs(CACHE, exist_ok=True)


class Lock:
    def __init__(self, name):
        self.path = os.path.join(CACHE, name + ".lock")

    def __enter__(self):
        self.f = open(self.path, "w")
        fcntl.flock(self.f, fcntl.LOCK_EX)
        return self

    def __exit__(self, *a):
        fcntl.flock(self.f, fcntl.LOCK_UN)
        self.f.close()


def sh(cmd, timeout=None, cwd=None, env=None, input=None):
    p = subprocess.run(cmd, stdout=subprocess.PIPE, stderr=subprocess.STDOUT, text=True, timeout=timeout, cwd=cwd, env=env, input=input)
    return p.returncode, p.stdout


def tree_hash(paths):
    h = hashlib.sha256()
    for base in paths:
        if os.path.isfile(base):
            files = [base]
        else:
            files = []
            for d, _, fs in os.walk(base):
                for f in fs:
                    files.append(os.path.join(d, f))
        for f in sorted(files):
            h.update(f.encode())
            with open(f, "rb") as fh:
                h.update(fh.read())
    return h.hexdigest()


_src_hash = None


def src_hash():
    global _src_hash
    if _src_hash is None:
        _src_hash = tree_hash([os.path.join(REPO, "src"), os.path.join(ROOT, "harness")])
    return _src_hash


# ---------------------------------------------------------------------------------------------- harness builds
DEFAULT_CFG = {}


def cfg_flags(cfg):
    """cfg: dict of ARDUINOJSON_* suffix -> value, plus special keys 'arduino' and 'std'"""
    flags = []
    for k in sorted(cfg):
        if k in ("arduino", "std", "tsan", "exe"):
            continue
        flags.append("-DARDUINOJSON_%s=%s" % (k, cfg[k]))
    if cfg.get("arduino"):
        flags += ["-DAJ_ARDUINO", "-I" + os.path.join(REPO, "extras/tests/Helpers")]
    return flags


def cfg_bits(cfg):
    return (1 if cfg.get("ENABLE_COMMENTS") else 0) | (2 if cfg.get("ENABLE_NAN") else 0) | (4 if cfg.get("ENABLE_INFINITY") else 0) | \
           (8 if cfg.get("DECODE_UNICODE", 1) else 0)


def build_harness(cfg=None, source="aj_harness.cpp"):
    """Compile harness/<source> against REPO/src with hooks on and ASan+UBSan. Cached by content hash."""
    cfg = cfg or {}
    san = "-fsanitize=thread" if cfg.get("tsan") else "-fsanitize=address,undefined"
    flags = ["-std=" + cfg.get("std", "gnu++17"), "-O1", "-g1", san, "-fno-sanitize-recover=all", "-fno-omit-frame-pointer",
             "-D" + GUARD, "-I" + os.path.join(REPO, "src"), "-I" + os.path.join(ROOT, "harness")] + cfg_flags(cfg)
    if cfg.get("tsan"):
        flags.append("-pthread")
    key = hashlib.sha256((src_hash() + " ".join(flags) + source).encode()).hexdigest()[:20]
    outdir = os.path.join(CACHE, "harness")
    os.makedirs(outdir, exist_ok=True)
    exe = os.path.join(outdir, key)
    if os.path.exists(exe):
        os.utime(exe)
        return exe, None
    with Lock("hbuild-" + key):
        if os.path.exists(exe):
            return exe, None
        tmp = exe + ".tmp%d" % os.getpid()
        rc, out = sh(["g++"] + flags + [os.path.join(ROOT, "harness", source), "-o", tmp], timeout=900)
        if rc != 0:
            if os.path.exists(tmp):
                os.unlink(tmp)
            return None, out
        os.rename(tmp, exe)
    prune(outdir, 60)
    return exe, None


def prune(d, keep):
    fs = sorted((os.path.join(d, f) for f in os.listdir(d)), key=lambda p: os.path.getmtime(p))
    for p in fs[:-keep]:
        try:
            os.unlink(p)
        except OSError:
            pass


def build_harnesses(cfgs, source="aj_harness.cpp"):
    if not cfgs:
        return []
    with ThreadPoolExecutor(max_workers=min(len(cfgs), NCPU)) as ex:
        res = list(ex.map(lambda c: build_harness(c, source), cfgs))
    return res


# ---------------------------------------------------------------------------------------------- Lean
def lean_env():
    e = dict(os.environ)
    return e


def gen_tables():
    rc, out = sh([sys.executable, os.path.join(ROOT, "tools", "gen_tables.py")], timeout=300)
    return rc == 0, out


def gen_statics():
    p = os.path.join(ROOT, "tools", "gen_statics.py")
    if not os.path.exists(p):
        return True, ""
    rc, out = sh([sys.executable, p], timeout=300)
    return rc == 0, out


def lake_build(targets, timeout=3000):
    with Lock("lake"):
        rc, out = sh(["lake", "build"] + targets, cwd=LEAN, timeout=timeout, env=lean_env())
    return rc == 0, out


def ensure_driver():
    """regenerate tables from REPO, build the model library and the driver"""
    with Lock("gen"):
        ok, out = gen_tables()
        if not ok:
            return False, "gen_tables failed:\n" + out
        ok, out2 = gen_statics()
        if not ok:
            return False, "gen_statics failed:\n" + out2
    ok, out = lake_build(["ajdriver"])
    return ok, out


ALLOWED_AXIOMS = {"propext", "Classical.choice", "Quot.sound"}
FORBIDDEN = re.compile(r"\b(sorry|admit|native_decide|bv_decide|implemented_by|unsafe)\b|^\s*axiom\s|maxHeartbeats\s+0\b")


def strip_comments(text):
    # remove /- ... -/ (nested) and -- comments
    out = []
    i = 0
    depth = 0
    n = len(text)
    while i < n:
        if text.startswith("/-", i):
            depth += 1
            i += 2
        elif depth and text.startswith("-/", i):
            depth -= 1
            i += 2
        elif depth:
            i += 1
        elif text.startswith("--", i):
            while i < n and text[i] != "\n":
                i += 1
        else:
            out.append(text[i])
            i += 1
    return "".join(out)


def grep_forbidden(files):
    hits = []
    for f in files:
        txt = strip_comments(open(f).read())
        for ln, line in enumerate(txt.splitlines(), 1):
            # string literals may mention the words
            l2 = re.sub(r'"[^"]*"', '""', line)
            if FORBIDDEN.search(l2):
                hits.append("%s: %s" % (os.path.relpath(f, ROOT), line.strip()[:120]))
    return hits


def lean_module_files(module):
    """transitive AJ.* imports of a module (files)"""
    seen = {}
    todo = [module]
    while todo:
        m = todo.pop()
        if m in seen:
            continue
        path = os.path.join(LEAN, *m.split(".")) + ".lean"
        if not os.path.exists(path):
            continue
        seen[m] = path
        for line in open(path):
            mm = re.match(r"\s*import\s+(AJ(\.\w+)+)", line)
            if mm:
                todo.append(mm.group(1))
    return seen


def audit_theorems(module, theorems):
    """returns dict theorem -> list of axioms (None if the theorem does not exist / does not check)"""
    src = "import %s\n" % module + "".join("#print axioms %s\n" % t for t in theorems)
    d = os.path.join(CACHE, "audit")
    os.makedirs(d, exist_ok=True)
    f = os.path.join(d, "audit_%s_%d.lean" % (module.replace(".", "_"), os.getpid()))
    open(f, "w").write(src)
    try:
        rc, out = sh(["lake", "env", "lean", f], cwd=LEAN, timeout=900, env=lean_env())
    finally:
        os.unlink(f)
    res = {t: None for t in theorems}
    # output: "'name' depends on axioms: [a, b]" or "'name' does not depend on any axioms"
    for m in re.finditer(r"'(\S+?)' depends on axioms: \[([^\]]*)\]", out.replace("\n", " ")):
        res[m.group(1)] = [a.strip() for a in m.group(2).split(",") if a.strip()]
    for m in re.finditer(r"'(\S+?)' does not depend on any axioms", out):
        res[m.group(1)] = []
    return res, out


# ---------------------------------------------------------------------------------------------- running lines
def _run_file(exe, lines, timeout, env=None):
    """feed lines through exe via files; returns (outputs, returncode, stderr_tail). One output line per input line."""
    d = os.path.join(CACHE, "tmp")
    os.makedirs(d, exist_ok=True)
    fi = tempfile.NamedTemporaryFile("w", dir=d, suffix=".in", delete=False)
    fi.write("\n".join(lines) + "\n")
    fi.close()
    fo = fi.name[:-3] + ".out"
    fe = fi.name[:-3] + ".err"
    rc = None
    try:
        with open(fi.name) as i, open(fo, "w") as o, open(fe, "w") as e:
            try:
                p = subprocess.run([exe], stdin=i, stdout=o, stderr=e, timeout=timeout, env=env)
                rc = p.returncode
            except subprocess.TimeoutExpired:
                rc = "timeout"
        outs = open(fo, errors="replace").read().split("\n")
        if outs and outs[-1] == "":
            outs.pop()
        err = open(fe, errors="replace").read()
        err = err[:3000] + err[-1500:]
    finally:
        for f in (fi.name, fo, fe):
            if os.path.exists(f):
                os.unlink(f)
    return outs, rc, err


def crash_kind(err):
    m = re.search(r"ERROR: AddressSanitizer: ([\w-]+)", err)
    if m:
        return "asan:" + m.group(1)
    m = re.search(r"runtime error: ([^\n]+)", err)
    if m:
        msg = m.group(1)
        msg = re.sub(r"0x[0-9a-f]+", "ADDR", msg)
        return "ubsan:" + msg[:80].replace(" ", "_")
    if "LeakSanitizer" in err:
        return "lsan:leak"
    if "stack-overflow" in err:
        return "asan:stack-overflow"
    return "crash"


def run_harness_chunk(exe, lines, per_line_timeout=2.0, group_starts=None):
    """crash-resilient: a sanitizer abort / crash / hang is an output ('CRASH:<kind>' / 'HANG') for the line that
    caused it; execution resumes after it (for stateful suites: at the next group start)."""
    outs = [None] * len(lines)
    start = 0
    env = dict(os.environ)
    env["ASAN_OPTIONS"] = "detect_leaks=1:abort_on_error=0:exitcode=77:allocator_may_return_null=1:detect_stack_use_after_return=0"
    env["UBSAN_OPTIONS"] = "print_stacktrace=0:halt_on_error=1:exitcode=78"
    restarts = 0
    while start < len(lines):
        chunk = lines[start:]
        to = max(20.0, 10.0 + per_line_timeout * 0.02 * len(chunk))
        got, rc, err = _run_file(exe, chunk, to, env)
        # trailing LEAK line
        leak = None
        if got and got[-1].startswith("LEAK"):
            leak = got.pop()
        n = min(len(got), len(chunk))
        for i in range(n):
            outs[start + i] = got[i]
        if n == len(chunk):
            if leak:
                outs[start + n - 1] = (outs[start + n - 1] or "") + " " + leak.replace(" ", ":")
            elif rc not in (0, None) and rc != "timeout":
                outs[start + n - 1] = (outs[start + n - 1] or "") + " EXIT:" + crash_kind(err)
            break
        # line start+n did not produce output
        outs[start + n] = "HANG" if rc == "timeout" else "CRASH:" + crash_kind(err)
        restarts += 1
        nxt = start + n + 1
        if group_starts is not None:
            # skip to the next group start
            while nxt < len(lines) and nxt not in group_starts:
                outs[nxt] = "SKIPPED"
                nxt += 1
        start = nxt
        if restarts > 200:
            for i in range(start, len(lines)):
                outs[i] = "SKIPPED"
            break
    return outs


def run_driver_chunk(lines):
    got, rc, err = _run_file(DRIVER, lines, max(60.0, 0.01 * len(lines)))
    if rc != 0 or len(got) != len(lines):
        raise RuntimeError("model driver failed (rc=%s, %d/%d lines): %s" % (rc, len(got), len(lines), err[-500:]))
    return got


def split_chunks(lines, n, group_starts=None):
    if not lines:
        return []
    if group_starts is None:
        size = max(1, (len(lines) + n - 1) // n)
        return [(i, lines[i:i + size]) for i in range(0, len(lines), size)]
    starts = sorted(group_starts)
    per = max(1, (len(starts) + n - 1) // n)
    chunks = []
    for i in range(0, len(starts), per):
        a = starts[i]
        b = starts[i + per] if i + per < len(starts) else len(lines)
        chunks.append((a, lines[a:b]))
    return chunks


def run_both(exe, lines, hlines=None, stateful=False, group_starts=None, driver=True):
    """returns (harness outputs, model outputs)"""
    hlines = hlines or lines
    chunks_h = split_chunks(hlines, NCPU, group_starts)
    chunks_m = split_chunks(lines, NCPU, group_starts) if driver else []
    with ThreadPoolExecutor(max_workers=NCPU * 2) as ex:
        fh = [ex.submit(run_harness_chunk, exe, c, 2.0, (None if group_starts is None else {g - a for g in group_starts if g >= a})) for a, c in chunks_h]
        fm = [ex.submit(run_driver_chunk, c) for a, c in chunks_m]
        ho = [x for f in fh for x in f.result()]
        mo = [x for f in fm for x in f.result()]
    return ho, mo


# ---------------------------------------------------------------------------------------------- evidence
def write_evidence(prop, data):
    d = os.path.join(ROOT, "evidence")
    os.makedirs(d, exist_ok=True)
    p = os.path.join(d, prop + ".json")
    tmp = p + ".tmp%d" % os.getpid()
    with open(tmp, "w") as f:
        json.dump(data, f, indent=1, sort_keys=True)
    os.rename(tmp, p)
    return p


def write_replay(prop, sig, content):
    d = os.path.join(ROOT, "replays")
    os.makedirs(d, exist_ok=True)
    h = hashlib.sha256((sig + json.dumps(content, sort_keys=True)).encode()).hexdigest()[:12]
    p = os.path.join(d, "%s-%s.json" % (prop, h))
    with open(p, "w") as f:
        json.dump(content, f, indent=1, sort_keys=True)
    return p
