#!/usr/bin/env python3
"""check.py <property> [--tier quick|thorough] [--replay FILE]

Decides one property of /verif/properties.jsonl for the code under /repo (AJ_REPO):
 1. regenerates lean/AJ/Gen/*.lean from the source, builds the model library and the driver;
 2. builds lean/AJ/Props/<property>.lean and audits the axioms of the theorems listed in tools/props_index.json;
 3. builds the sanitizer harness from /repo's working tree (hooks on) for the configurations the property needs;
 4. runs the correspondence suites (same lines through harness and driver, outputs diffed) and evaluates the
    property oracles on the implementation's own output;
 5. verdict, evidence/<property>.json, replay files.
Exit 0: held on everything explored (known findings are listed as KNOWN-FINDING lines); exit 1: VIOLATION line(s)."""
import argparse, json, os, random, re, sys, time
sys.path.insert(0, os.path.dirname(os.path.abspath(__file__)))
import ajlib
from ajlib import ROOT
import props
import fingerprint

DRIFT_ROUNDS = 3


def load_known():
    p = os.path.join(ROOT, "known_findings.json")
    if not os.path.exists(p):
        return []
    return json.load(open(p)).get("findings", [])


def match_known(known, prop, sig):
    for k in known:
        if k.get("status", "open") != "open":
            continue
        if prop in k["properties"] and re.fullmatch(k["signature"], sig):
            return k
    return None


def search_changed_rows(changed, known, prop):
    """a table theorem broke: the rows of the generated tables that changed are concrete inputs on which the library answers differently now. Those that are JSON inputs
    are judged by the independent recognizer of the documented dialect (the oracle of the `jsonany` suite) on the implementation: a failure is a concrete failing input."""
    import suites as S_
    tails = {"alone": b"", "elem": b"1]", "key": b'":1}x'}
    cands = []          # (cfg, limit, bytes)
    for r_ in changed:
        t_, row = r_["table"], r_["now"] or r_["baseline"] or ""
        nums = lambda txt: [int(x) for x in re.findall(r"-?\d+", txt)]
        try:
            if t_.startswith("jsonfirst_"):
                _, tail, build = t_.split("_")
                cfg = {} if build == "plain" else {"ENABLE_COMMENTS": 1, "ENABLE_NAN": 1, "ENABLE_INFINITY": 1}
                cands.append((cfg, 10, bytes([nums(row)[0]]) + tails[tail]))
            elif t_ in ("parse_rows", "unicode_rows", "stream_rows"):
                m_ = re.match(r"\(\[([^\]]*)\]", row)
                if m_:
                    cands.append(({}, 10, bytes(nums(m_.group(1)))))
            elif t_ == "depth_rows":
                k_, L_ = nums(row)[:2]
                cands.append(({}, L_, b"[" * k_ + b"1" + b"]" * k_))
            elif t_ == "doc_rows":
                m_ = re.match(r"\(\[([^\]]*)\]", row)
                if m_:
                    cands.append(({}, 20, bytes(nums(m_.group(1)))))
        except Exception:
            continue
    for cfg, lim, data in cands[:60]:
        exe, err = ajlib.build_harness(cfg)
        if not exe:
            continue
        su = S_.JsonAnySuite(cfg=cfg)
        case = S_.Case("jsonde %d 0 %d %s" % (S_.cfgbits(cfg), lim, S_.hx(data)), text=data, lim=lim, rk=0, gid=0)
        ho, _ = ajlib.run_both(exe, [case.line], driver=False)
        try:
            o = su.oracle(case, ho[0])
        except Exception:
            o = None
        if o and not match_known(known, prop, o[0]):
            return (o[0], o[1], {"suite": "jsonany", "cfg": cfg, "line": case.line, "implementation": ho[0], "what": o[1],
                                 "found_by": "a generated table row that changed (lean/AJ/Gen/Tables.lean against tables_baseline.lean), judged by the dialect recognizer"})
    return None


def shrink_case(suite, case, exe, sig, rounds=6):
    """delta-debugging on the last hex field of a stateless operation line, keeping the oracle signature; returns the shrunk line or None"""
    import copy
    f = case.line.split(" ")
    if len(f) < 2 or not re.fullmatch(r"[0-9a-f]{8,}", f[-1]):
        return None
    data = bytes.fromhex(f[-1])
    meta_key = next((k for k in ("text", "data") if isinstance(case.meta.get(k), (bytes, bytearray))), None)
    if meta_key is None or case.meta[meta_key] != data:
        return None

    def variants(b):
        n = len(b)
        step = max(1, n // 2)
        while step >= 1:
            for i in range(0, n, step):
                yield b[:i] + b[i + step:]
            step //= 2

    best = data
    for _ in range(rounds):
        cands = [v for v in dict.fromkeys(variants(best)) if v != best][:400]
        if not cands:
            break
        cs = []
        for v in cands:
            c2 = copy.copy(case)
            c2.meta = dict(case.meta)
            c2.meta[meta_key] = v
            # expectations attached by the generator do not survive shrinking: only suites whose oracle needs nothing else are shrunk
            if "exp" in c2.meta or "value" in c2.meta:
                return None
            c2.line = " ".join(f[:-1] + [v.hex() or "-"])
            cs.append(c2)
        try:
            ho, _ = ajlib.run_both(exe, [c.line for c in cs], driver=False)
        except Exception:
            return None
        better = None
        for c2, h in zip(cs, ho):
            try:
                o = suite.oracle(c2, h)
            except Exception:
                o = None
            if o and o[0] == sig and len(c2.meta[meta_key]) < len(best):
                better = c2
                break
        if better is None:
            break
        best = better.meta[meta_key]
    return " ".join(f[:-1] + [best.hex() or "-"]) if best != data else None


def main():
    ap = argparse.ArgumentParser()
    ap.add_argument("prop")
    ap.add_argument("--tier", default=os.environ.get("VERIF_TIER", "quick"))
    ap.add_argument("--replay")
    a = ap.parse_args()
    prop = a.prop
    tier = a.tier if a.tier in ("quick", "thorough") else "quick"
    seed = int(os.environ.get("VERIF_SEED", "1") or "1")
    t0 = time.time()
    P = props.PROPS[prop]
    known = load_known()
    violations = []      # (signature, description, replay dict)
    known_hits = {}
    notes = []
    ev = {"property_id": prop, "tier": tier, "seed": seed, "level": "proof", "wall_s": 0.0, "violations": 0,
          "coverage": {}, "assumptions": list(P.get("assumptions", []))}
    cov = ev["coverage"]

    def finish():
        nv = len(violations)
        ev["violations"] = nv
        ev["wall_s"] = round(time.time() - t0, 2)
        cov.setdefault("obligations", 0)
        cov.setdefault("discharged", 0)
        if cov["obligations"] == 0:
            # schema: a proof-level file needs >= 1; say honestly that nothing is proved by falling back to exploration keys
            pass
        ajlib.write_evidence(prop, ev)
        for k in known_hits.values():
            print("KNOWN-FINDING: property=%s %s" % (prop, k["what"]))
        for sig, desc, rep in violations:
            path = ajlib.write_replay(prop, sig, rep)
            tail = " no-failing-input-found" if rep.get("no_failing_input") else ""
            print("VIOLATION property=%s replay=%s%s" % (prop, path, tail))
            print("  " + sig + ": " + desc[:300])
        for n in notes:
            print("note: " + n)
        print("%s %s: %s in %.1fs (%d obligations, %d discharged, %d evaluations)" % (
            prop, tier, "VIOLATION" if nv else "ok", time.time() - t0, cov.get("obligations", 0), cov.get("discharged", 0), cov.get("evaluations", 0)))
        sys.exit(1 if nv else 0)

    # ---- 1. translator + model library + driver
    ok, out = ajlib.ensure_driver()
    if not ok:
        violations.append(("build:driver", "generated tables / model library / driver do not build:\n" + out[-1500:],
                           {"no_failing_input": True, "broken": "lake build ajdriver (models regenerated from /repo)", "log": out[-3000:]}))
        cov.update({"obligations": len(P["theorems"]), "discharged": 0, "checker_cmd": "lake build ajdriver", "trusted_base": props.TRUSTED_BASE,
                    "evaluations": 0, "distinct_nontrivial": 0})
        finish()

    # ---- 2. proofs
    module = P.get("module", "AJ.Props." + prop)
    theorems = P["theorems"]
    okp, outp = ajlib.lake_build([module])
    proof_broken = []
    axioms = {}
    if okp:
        axioms, aout = ajlib.audit_theorems(module, theorems)
        for t in theorems:
            if axioms.get(t) is None:
                proof_broken.append(t + " (missing)")
            elif not set(axioms[t]) <= ajlib.ALLOWED_AXIOMS:
                proof_broken.append(t + " (axioms: %s)" % ",".join(axioms[t]))
    else:
        m = re.findall(r"error: ([^\n]*)", outp)
        proof_broken = ["%s does not build: %s" % (module, "; ".join(m[:3]))]
    files = ajlib.lean_module_files(module)
    hits = ajlib.grep_forbidden(files.values())
    if hits:
        proof_broken.append("forbidden construct: " + "; ".join(hits[:3]))
    cov["obligations"] = len(theorems)
    cov["discharged"] = 0 if not okp else sum(1 for t in theorems if axioms.get(t) is not None and set(axioms[t]) <= ajlib.ALLOWED_AXIOMS)
    cov["checker_cmd"] = "cd lean && lake build %s && lake env lean <audit: #print axioms of each theorem>" % module
    cov["trusted_base"] = props.TRUSTED_BASE + ["axioms used: " + ", ".join(sorted({x for v in axioms.values() if v for x in v}) or ["none"])]
    cov["theorems"] = {t: axioms.get(t) for t in theorems}
    cov["partial"] = P.get("partial", [])
    cov["lean_files"] = sorted(os.path.relpath(f, ROOT) for f in files.values())
    if tier == "thorough" and okp:
        rc, lo = ajlib.sh(["lake", "env", "leanchecker", module], cwd=ajlib.LEAN, timeout=1800)
        cov["leanchecker"] = "ok" if rc == 0 else "FAILED: " + lo[-300:]
        if rc != 0:
            proof_broken.append("leanchecker rejected " + module)

    # ---- 3./4. correspondence + oracles
    rng = random.Random(seed * 1000003 + sum(map(ord, prop)))
    suites = P["suites"](tier)
    cfgs = []
    for s in suites:
        if s.cfg not in cfgs and not hasattr(s, "run_custom"):
            cfgs.append(s.cfg)
    built = ajlib.build_harnesses(cfgs, )
    exes = {}
    for c, (exe, err) in zip(cfgs, built):
        if exe is None:
            violations.append(("build:harness", "the harness does not compile against /repo for configuration %s:\n%s" % (c, err[-1200:]),
                               {"no_failing_input": True, "broken": "harness build", "cfg": c, "log": err[-3000:]}))
            finish()
        exes[json.dumps(c, sort_keys=True)] = exe
    cov["configurations"] = cfgs
    total = 0
    features = set()
    samples = []
    drifted = fingerprint.drift()
    disagreements = []
    per_suite = {}
    for s in suites:
        if hasattr(s, "run_custom"):
            r = s.run_custom(ajlib, rng, tier)
            if "error" in r:
                violations.append(("build:harness", "the thread harness does not compile against /repo:\n" + r["error"][-1200:],
                                   {"no_failing_input": True, "broken": "thread harness build", "log": r["error"][-3000:]}))
                finish()
            total += r["evaluations"]
            for ft in r["features"]:
                features.add((s.name, ft))
            samples += r["samples"]
            for sig, desc, rep in r["violations"]:
                k = match_known(known, prop, sig)
                if k:
                    known_hits[k["id"]] = k
                else:
                    violations.append((sig, desc, rep))
            per_suite[s.name] = {"cases": r["evaluations"], "disagreements": 0, "oracle_failures": len(r["violations"])}
            continue
        exe = exes[json.dumps(s.cfg, sort_keys=True)]
        cases = s.generate(rng, tier)
        if drifted and tier == "quick" and not a.replay:
            # the source moved since the models were validated against it: explore more (further rounds of the same generator, other random draws)
            seen = {c.line for c in cases} if not getattr(s, "group_starts", None) else None
            for extra in range(DRIFT_ROUNDS):
                more = s.generate(random.Random(rng.getrandbits(48)), tier)
                if seen is None:
                    cases += more
                else:
                    for c in more:
                        if c.line not in seen:
                            seen.add(c.line)
                            cases.append(c)
        if a.replay:
            cases = []
        lines = [c.line for c in cases]
        mlines = [c.meta.get("mline", c.line) for c in cases]      # oracle-only cases send a cheap placeholder to the model
        group_starts = getattr(s, "group_starts", None)
        gs = group_starts(cases) if group_starts else None
        ho, mo = ajlib.run_both(exe, mlines, hlines=lines, group_starts=gs, driver=getattr(s, "uses_driver", True))
        nd = 0
        nf = 0
        for i, c in enumerate(cases):
            h = ho[i]
            if h == "SKIPPED":
                continue
            total += 1
            m = mo[i] if mo else None
            if m is not None and not c.meta.get("nocompare"):
                try:
                    d = s.compare(c, h, m)
                except Exception as ex:      # the implementation's output could not even be parsed: that is a disagreement, not a tool failure
                    d = "implementation output not understood (%s: %s): %s" % (type(ex).__name__, ex, str(h)[:120])
                if d:
                    nd += 1
                    if len(disagreements) < 50:
                        if gs is not None:      # stateful suite: keep the whole history up to the disagreeing operation for the replay
                            st = max(g for g in gs if g <= i)
                            c.meta["history"] = lines[st:i + 1]
                        disagreements.append((s, c, h, m, d))
            try:
                o = s.oracle(c, h)
            except Exception as ex:
                o = ("oracle:output-not-understood:" + s.name, "the oracle could not interpret the implementation's output (%s: %s) for '%s': %s" % (type(ex).__name__, ex, c.line[:80], str(h)[:160]))
            if o:
                nf += 1
                sig, desc = o
                k = match_known(known, prop, sig)
                if k:
                    known_hits[k["id"]] = k
                elif not any(v[0] == sig for v in violations):
                    rep_lines = c.line
                    if gs is not None:
                        st = max(g for g in gs if g <= i)
                        rep_lines = lines[st:i + 1]          # stateful suite: the whole history up to the failing operation
                    else:
                        try:
                            rep_lines = shrink_case(s, c, exe, sig) or c.line
                        except Exception:
                            rep_lines = c.line
                    violations.append((sig, desc, {"suite": s.name, "cfg": s.cfg, "line": rep_lines, "original_line": c.line if rep_lines != c.line else None,
                                                   "implementation": h, "model": m, "what": desc}))
            try:
                ft = s.feature(c, h)
            except Exception:
                ft = None
            if ft is not None:
                features.add((s.name, ft))
        if hasattr(s, "post"):
            try:
                posted = list(s.post(cases, ho))
            except Exception as ex:
                posted = [("oracle:output-not-understood:" + s.name, "the suite-level oracle could not interpret the implementation's outputs (%s: %s)" % (type(ex).__name__, ex), cases[0])] if cases else []
            for sig, desc, c in posted:
                nf += 1
                k = match_known(known, prop, sig)
                if k:
                    known_hits[k["id"]] = k
                elif not any(v[0] == sig for v in violations):
                    violations.append((sig, desc, {"suite": s.name, "cfg": s.cfg, "line": c.line, "what": desc}))
        if cases:
            for j in (0, len(cases) // 2, len(cases) - 1):
                samples.append({"suite": s.name, "line": cases[j].line[:300], "implementation": (ho[j] or "")[:300]})
        # what the generated inputs actually exercised: operations sent, first word of the implementation's answers (result codes), sizes of the lines
        ops_hist, ans_hist, size_hist = {}, {}, {}
        for c_, h_ in zip(cases, ho):
            o_ = c_.line.split(" ", 1)[0]
            ops_hist[o_] = ops_hist.get(o_, 0) + 1
            a_ = (h_ or "").split(" ")
            a_ = a_[1] if (len(a_) > 1 and a_[0] == o_) else (a_[0] if a_ else "")      # history operations echo their name first
            a_ = a_ if (a_[:1].isalpha() and len(a_) <= 20 and a_.isalnum()) else "(data)"
            ans_hist[a_] = ans_hist.get(a_, 0) + 1
            b_ = len(c_.line)
            b_ = "<64" if b_ < 64 else "<256" if b_ < 256 else "<4096" if b_ < 4096 else ">=4096"
            size_hist[b_] = size_hist.get(b_, 0) + 1
        top = lambda d_: dict(sorted(d_.items(), key=lambda kv: -kv[1])[:14])
        per_suite[s.name + ":" + json.dumps(s.cfg, sort_keys=True)] = {"cases": len(cases), "disagreements": nd, "oracle_failures": nf,
                                                                         "operations": top(ops_hist), "answers": top(ans_hist), "line_sizes": size_hist}
    cov["source_drift"] = {"files": drifted[:40], "extra_rounds": DRIFT_ROUNDS if (drifted and tier == "quick") else 0,
                           "meaning": "files under /repo/src whose normalized text differs from the tree the models were last validated against (source_baseline.json); "
                                      "not a violation by itself - the quick tier then explores several further rounds of every suite"}
    cov["evaluations"] = total
    cov["distinct_nontrivial"] = len(features)
    cov["rule"] = P.get("rule", "cases are generated per suite (see tools/suites.py); a case is non-trivial when the suite's feature() returns a key, distinct = distinct keys")
    cov["samples"] = samples[:12]
    cov["suites"] = per_suite
    cov["exhaustive"] = bool(P.get("exhaustive", False))
    cov["traces_validated_against_impl"] = total

    # ---- 5. verdict for broken proof obligations / correspondence
    if disagreements and not violations:
        # search: evaluate the property oracle on the neighbourhood of the disagreeing inputs
        found = None
        for s, c, h, m, d in disagreements[:10]:
            nb = s.neighbours(c, rng)
            if not nb:
                continue
            exe = exes[json.dumps(s.cfg, sort_keys=True)]
            ho, _ = ajlib.run_both(exe, [x.line for x in nb], driver=False)
            for x, hh in zip(nb, ho):
                o = s.oracle(x, hh)
                if o and not match_known(known, prop, o[0]):
                    found = (o[0], o[1], {"suite": s.name, "cfg": s.cfg, "line": x.line, "implementation": hh, "what": o[1],
                                          "found_by": "search around a model/implementation disagreement"})
                    break
            if found:
                break
        if found:
            violations.append(found)
        else:
            s, c, h, m, d = disagreements[0]
            violations.append(("correspondence:" + s.name, "implementation and model disagree (%d cases); first: %s" % (len(disagreements), d),
                               {"no_failing_input": not P.get("model_is_oracle", False), "suite": s.name, "cfg": s.cfg, "line": c.meta.get("history", c.line), "implementation": h, "model": m,
                                "broken": "correspondence between lean/AJ/Model and the implementation (suite %s)" % s.name,
                                "theorems_no_longer_tied": theorems}))
    if proof_broken and not violations:
        rep = {"no_failing_input": True, "broken": proof_broken, "log": (outp or "")[-3000:]}
        try:
            changed = fingerprint.table_rows_changed()
        except Exception:
            changed = []
        found = None
        if changed:
            # a table theorem compares the model with rows obtained by calling the library: the rows that changed are concrete inputs on which the library answers differently now
            rep["generated_table_rows_that_changed"] = changed
            try:
                found = search_changed_rows(fingerprint.table_rows_changed(60), known, prop)
            except Exception:
                found = None
        if found:
            found[2]["broken"] = proof_broken
            found[2]["generated_table_rows_that_changed"] = changed
            violations.append(found)
        else:
            violations.append(("proof", "proof obligations no longer check: " + "; ".join(proof_broken), rep))
    elif proof_broken:
        notes.append("proof obligations no longer check: " + "; ".join(proof_broken))
        try:
            for r_ in fingerprint.table_rows_changed(3):
                notes.append("generated table %s, row %d: was %s, the library now gives %s" % (r_["table"], r_["row"], r_["baseline"][:120], r_["now"][:120]))
        except Exception:
            pass
    finish()


if __name__ == "__main__":
    main()
