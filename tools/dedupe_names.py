#!/usr/bin/env python3
"""dedupe_names.py <test.lean>: make the declarations of the proof libraries globally unique, so that any set of Props modules can be imported together.
Proof libraries written independently sometimes declare the same helper name in the same namespace; Lean refuses to import both. For each clash reported when
elaborating <test.lean> (a file importing all modules of interest), the name is renamed (suffix _d<k>) in the module that failed to import and in every module that
imports it. Only files under lean/AJ/Lemmas and lean/AJ/Props are touched; Model/Spec/Gen never."""
import os, re, subprocess, sys
LEAN = os.path.join(os.path.dirname(os.path.dirname(os.path.abspath(__file__))), "lean")


def imports_of(path):
    return re.findall(r"^import\s+(AJ\.[\w.]+)", open(path).read(), re.M)


def graph():
    g = {}
    for d, _, fs in os.walk(os.path.join(LEAN, "AJ")):
        for f in fs:
            if f.endswith(".lean"):
                p = os.path.join(d, f)
                mod = os.path.relpath(p, LEAN)[:-5].replace("/", ".")
                g[mod] = (p, imports_of(p))
    return g


def dependents(g, target):
    out = {target}
    changed = True
    while changed:
        changed = False
        for m, (_, imps) in g.items():
            if m not in out and any(i in out for i in imps):
                out.add(m)
                changed = True
    return out


def main():
    test = sys.argv[1]
    for it in range(200):
        subprocess.run(["lake", "build"] + imports_of(test), cwd=LEAN, capture_output=True, text=True)      # stale object files would report the clash again
        r = subprocess.run(["lake", "env", "lean", test], cwd=LEAN, capture_output=True, text=True)
        out = r.stdout + r.stderr
        m = re.search(r"import ([\w.]+) failed, environment already contains '([^']+)' from ([\w.]+)", out)
        if not m:
            print("no more clashes; remaining output:", out[:400])
            return
        a, full, b = m.groups()
        full = re.sub(r"(\.(match_\d+|_proof_\d+|_eq_\d+|eq_\d+|_unary|_mutual|_sunfold|splitter|congr_simp|_simp_\d+|proof_\d+))+$", "", full)      # auxiliary declarations: rename their parent
        ns, _, name = full.rpartition(".")
        g = graph()
        fam = [x for x in dependents(g, a) if ".Lemmas." in x or ".Props." in x]
        rx = re.compile(r"(?<![\w.])((?:%s\.)?)%s(?![\w'])" % (re.escape(ns), re.escape(name))) if ns else re.compile(r"(?<![\w.])()%s(?![\w'])" % re.escape(name))
        new = name + "_d%d" % it
        tot = 0
        for x in fam:
            p = g[x][0]
            s = open(p).read()
            s2, n = rx.subn(lambda mm: mm.group(1) + new, s)
            if n:
                open(p, "w").write(s2)
                tot += n
        print("clash %s (%s vs %s): renamed %d occurrence(s) in %d module(s)" % (full, a, b, tot, len(fam)))
        if tot == 0:
            print("cannot resolve"); return
        mods = sorted(fam)
        b2 = subprocess.run(["lake", "build"] + mods, cwd=LEAN, capture_output=True, text=True)
        if b2.returncode != 0 and "environment already contains" not in (b2.stdout + b2.stderr):
            print("build failed after renaming %s:\n%s" % (full, (b2.stdout + b2.stderr)[-1500:]))
            return


main()
