"""Reference recognizer for the documented ArduinoJson JSON dialect (DESIGN.md Appendix A), written independently of the Lean
model as the Python-side oracle for C10/C03/C16: classification + denoted value + number of bytes that belong to the document.

result: (code, tree_or_None, end) where code in Ok/EmptyInput/IncompleteInput/InvalidInput/TooDeep, or None = "do not judge"
(number runs longer than 63 bytes, surrogate anomalies, NUL-containing keys with filters...)."""
import re
from fractions import Fraction
import gens

WS = b" \t\r\n"


class Stop(Exception):
    def __init__(self, code):
        self.code = code


class Skip(Exception):
    pass


NUM_RE = re.compile(rb"[+-]?(?=[0-9.])[0-9]*(\.[0-9]*)?([eE][+-]?[0-9]*)?$")


class P:
    def __init__(self, t, comments, nan, inf, decode_unicode, limit):
        # a NUL byte ends the input for every reader
        i = t.find(b"\x00")
        self.t = t if i < 0 else t[:i]
        self.comments, self.nan, self.inf, self.du = comments, nan, inf, decode_unicode
        self.i = 0
        self.limit = limit
        self.found = False

    def peek(self):
        return self.t[self.i] if self.i < len(self.t) else None

    def ws(self):
        while True:
            c = self.peek()
            if c is None:
                raise Stop("IncompleteInput" if self.found else "EmptyInput")
            if c in WS:
                self.i += 1
            elif self.comments and c == 0x2F:
                self.i += 1
                d = self.peek()
                if d == 0x2A:
                    j = self.t.find(b"*/", self.i + 1)
                    if j < 0:
                        self.i = len(self.t)
                        raise Stop("IncompleteInput")
                    self.i = j + 2
                elif d == 0x2F:
                    j = self.t.find(b"\n", self.i + 1)
                    if j < 0:
                        self.i = len(self.t)
                        raise Stop("IncompleteInput")
                    self.i = j
                else:
                    raise Stop("InvalidInput")
            else:
                self.found = True
                return

    def value(self, depth):
        self.ws()
        c = self.peek()
        if c == 0x5B:
            if depth >= self.limit:
                raise Stop("TooDeep")
            self.i += 1
            self.ws()
            if self.peek() == 0x5D:
                self.i += 1
                return ("A", [])
            xs = []
            while True:
                xs.append(self.value(depth + 1))
                self.ws()
                c = self.peek()
                if c == 0x5D:
                    self.i += 1
                    return ("A", xs)
                if c != 0x2C:
                    raise Stop("InvalidInput")
                self.i += 1
        if c == 0x7B:
            if depth >= self.limit:
                raise Stop("TooDeep")
            self.i += 1
            self.ws()
            if self.peek() == 0x7D:
                self.i += 1
                return ("O", [])
            ms = []
            while True:
                c = self.peek()
                if c in (0x22, 0x27):
                    k = self.string()
                elif c is not None and (0x30 <= c <= 0x39 or 0x5F <= c <= 0x7A or 0x41 <= c <= 0x5A):
                    j = self.i
                    while j < len(self.t) and (0x30 <= self.t[j] <= 0x39 or 0x5F <= self.t[j] <= 0x7A or 0x41 <= self.t[j] <= 0x5A):
                        j += 1
                    k = self.t[self.i:j]
                    self.i = j
                else:
                    raise Stop("InvalidInput" if c is not None else "IncompleteInput")
                self.ws()
                if self.peek() != 0x3A:
                    raise Stop("InvalidInput")
                self.i += 1
                v = self.value(depth + 1)
                ms.append((k, v))
                self.ws()
                c = self.peek()
                if c == 0x7D:
                    self.i += 1
                    return ("O", gens.last_wins(ms))
                if c != 0x2C:
                    raise Stop("InvalidInput")
                self.i += 1
                self.ws()
        if c in (0x22, 0x27):
            return ("S", self.string())
        for kw, val in ((b"true", ("B", True)), (b"false", ("B", False)), (b"null", ("N",))):
            if c == kw[0]:
                for x in kw:
                    d = self.peek()
                    if d is None:
                        raise Stop("IncompleteInput")
                    if d != x:
                        raise Stop("InvalidInput")
                    self.i += 1
                return val
        return self.number()

    def string(self):
        q = self.t[self.i]
        self.i += 1
        out = bytearray()
        hi = None
        while True:
            c = self.peek()
            if c is None:
                raise Stop("IncompleteInput")
            self.i += 1
            if c == q:
                return bytes(out)
            if c != 0x5C:
                out.append(c)
                continue
            d = self.peek()
            if d is None:
                raise Stop("IncompleteInput")
            if d == 0x75:
                if not self.du:
                    out.append(0x5C)
                    continue
                self.i += 1
                cu = 0
                for _ in range(4):
                    h = self.peek()
                    if h is None:
                        raise Stop("IncompleteInput")
                    if not (0x30 <= h <= 0x39 or 0x41 <= h <= 0x46 or 0x61 <= h <= 0x66):
                        raise Stop("InvalidInput")
                    cu = cu * 16 + int(chr(h), 16)
                    self.i += 1
                if 0xD800 <= cu < 0xDC00:
                    if hi is not None:
                        raise Skip()
                    hi = cu
                elif 0xDC00 <= cu < 0xE000:
                    if hi is None:
                        raise Skip()
                    out += gens.utf8(0x10000 + ((hi - 0xD800) << 10) + (cu - 0xDC00))
                    hi = None
                else:
                    if hi is not None:
                        raise Skip()
                    out += gens.utf8(cu)
                continue
            m = {0x22: 0x22, 0x27: 0x27, 0x2F: 0x2F, 0x5C: 0x5C, 0x62: 8, 0x66: 12, 0x6E: 10, 0x72: 13, 0x74: 9}.get(d)
            if m is None:
                raise Stop("InvalidInput")
            self.i += 1
            out.append(m)

    def number(self):
        letters = self.nan or self.inf

        def in_num(c):
            return 0x30 <= c <= 0x39 or c in b"+-." or ((0x41 <= c <= 0x5A or 0x61 <= c <= 0x7A) if letters else c in b"eE")
        j = self.i
        while j < len(self.t) and in_num(self.t[j]):
            j += 1
        run = self.t[self.i:j]
        if len(run) > 63:
            raise Skip()
        self.i = j
        body = run[1:] if run[:1] in (b"+", b"-") else run
        if self.nan and body[:1] in (b"n", b"N"):
            return ("NAN",)
        if self.inf and body[:1] in (b"i", b"I"):
            return ("INF", run[:1] == b"-")
        if not NUM_RE.match(run):
            raise Stop("InvalidInput")
        txt = run.decode()
        if re.fullmatch(r"[+-]?[0-9]+", txt):
            n = int(txt)
            neg = txt[0] == "-"
            if not neg and n < 2 ** 64:
                return ("U", n)
            if neg and -n <= 2 ** 63:
                return ("I", n)
        return ("Q", gens.lit_value(txt), gens.sig_digits(txt))


def recognize(text, comments=False, nan=False, inf=False, decode_unicode=True, limit=10, number_then_ws_ok=True):
    p = P(text, comments, nan, inf, decode_unicode, limit)
    try:
        v = p.value(0)
    except Stop as s:
        return (s.code, None, p.i)
    except Skip:
        return None
    except RecursionError:
        return None
    if v[0] in ("U", "I", "Q", "NAN", "INF"):
        c = p.peek()
        if c is not None:
            if c in WS and number_then_ws_ok:
                return ("Ok", v, p.i + 1)
            return ("InvalidInput", v, p.i + 1)
        # the look-ahead byte of a number may be a NUL (which ends the input) : it is consumed too
        return ("Ok", v, p.i + (1 if p.i < len(text) else 0))
    return ("Ok", v, p.i)
