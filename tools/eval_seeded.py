#!/usr/bin/env python3
"""eval_seeded.py <incoming-dir>... : confirm a seeded change (suite still green, demo fails with / passes without) in a scratch
worktree, then apply it to /repo, run the quick checks of the targeted property (and optionally others), and undo it.
Writes <dir>/meta.json. Never commits anything in /repo."""
import json, os, subprocess, sys, time, shutil
ROOT = os.path.dirname(os.path.dirname(os.path.abspath(__file__)))
WT = "/tmp/wt/eval"


def sh(cmd, **kw):
    return subprocess.run(cmd, shell=isinstance(cmd, str), stdout=subprocess.PIPE, stderr=subprocess.STDOUT, text=True, errors="replace", **kw)


def confirm(d, skip_suite=False):
    """in a scratch worktree: suite passes with the patch; demo fails with and passes without"""
    res = {}
    head = sh("git -C /repo rev-parse HEAD").stdout.strip()
    if not os.path.exists(WT):
        sh("git -C /repo worktree add -q --detach %s HEAD" % WT)
    sh("git -C %s checkout -q --detach %s && git -C %s checkout -- ." % (WT, head, WT))
    patch = os.path.join(d, "patch.diff")
    r = sh("git -C %s apply --check %s" % (WT, patch))
    res["applies"] = r.returncode == 0
    if not res["applies"]:
        res["apply_error"] = r.stdout[-400:]
        return res
    demo = os.path.join(d, "demo.cpp")
    exe = "/tmp/wt/eval_demo"
    r0 = sh("g++ -std=c++17 -I%s/src %s -o %s && %s" % (WT, demo, exe, exe), timeout=600)
    res["demo_without_patch_rc"] = r0.returncode
    sh("git -C %s apply %s" % (WT, patch))
    r1 = sh("g++ -std=c++17 -I%s/src %s -o %s && %s" % (WT, demo, exe, exe), timeout=600)
    res["demo_with_patch_rc"] = r1.returncode
    res["demo_with_patch_tail"] = r1.stdout[-300:]
    if not skip_suite:
        r = sh("cmake -G Ninja -S %s -B %s/_build -DCMAKE_BUILD_TYPE=Debug >/dev/null && cmake --build %s/_build -j16 2>&1 | tail -2 && ctest --test-dir %s/_build -j8 --timeout 900 2>&1 | grep -E 'tests passed|tests failed|Failed'" % (WT, WT, WT, WT), timeout=3000)
        res["suite_passes_with_patch"] = "100% tests passed" in r.stdout
        res["suite_tail"] = r.stdout[-300:]
    sh("git -C %s checkout -- ." % WT)
    return res


def run_checks(d, props):
    patch = os.path.join(d, "patch.diff")
    out = {}
    assert sh("git -C /repo status --porcelain --untracked-files=no").stdout.strip() == "", "/repo has local changes"
    r = sh("git -C /repo apply %s" % patch)
    if r.returncode != 0:
        return {"error": "patch does not apply to /repo: " + r.stdout[-300:]}
    # evidence files must always describe the unchanged tree: keep them aside while a seeded change is applied
    ev = os.path.join(ROOT, "evidence")
    bak = os.path.join(ROOT, ".cache", "evidence.bak")
    shutil.rmtree(bak, ignore_errors=True)
    shutil.copytree(ev, bak)
    try:
        for p in props:
            t = time.time()
            r = sh([sys.executable, os.path.join(ROOT, "tools", "check.py"), p, "--tier", "quick"], timeout=3600, cwd=ROOT)
            viol = [l for l in r.stdout.splitlines() if l.startswith("VIOLATION")]
            detail = [l.strip() for l in r.stdout.splitlines() if l.startswith("  ")][:2]
            out[p] = {"exit": r.returncode, "violation_lines": viol, "detail": detail, "wall_s": round(time.time() - t, 1)}
    finally:
        sh("git -C /repo checkout -- .")
        shutil.rmtree(ev, ignore_errors=True)
        shutil.copytree(bak, ev)
    return out


def main():
    args = [a for a in sys.argv[1:] if not a.startswith("--")]
    extra = [a[8:].split(",") for a in sys.argv[1:] if a.startswith("--props=")]
    skip_suite = "--skip-suite" in sys.argv
    for d in args:
        d = os.path.abspath(d)
        name = os.path.basename(d.rstrip("/"))
        target = name.split("-")[0]
        meta_path = os.path.join(d, "meta.json")
        meta = json.load(open(meta_path)) if os.path.exists(meta_path) else {}
        meta.setdefault("breaks_property", target)
        if "confirmed" not in meta or "--reconfirm" in sys.argv:
            meta["confirmed"] = confirm(d, skip_suite)
        props = extra[0] if extra else [target]
        meta.setdefault("checks", {}).update(run_checks(d, props))
        meta["repo_head"] = sh("git -C /repo rev-parse --short HEAD").stdout.strip()
        notes = os.path.join(d, "notes.md")
        if os.path.exists(notes) and "needs_to_manifest" not in meta:
            meta["needs_to_manifest"] = open(notes).read()[:1500]
        json.dump(meta, open(meta_path, "w"), indent=1)
        det = {p: ("DETECTED" if v.get("exit") == 1 and v.get("violation_lines") else "missed") for p, v in meta["checks"].items() if isinstance(v, dict)}
        print(name, "confirmed:", {k: v for k, v in meta["confirmed"].items() if k in ("applies", "demo_without_patch_rc", "demo_with_patch_rc", "suite_passes_with_patch")}, "checks:", det)


if __name__ == "__main__":
    main()
