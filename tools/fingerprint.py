#!/usr/bin/env python3
"""Source fingerprint: a normalized hash (comments and white space removed) of every file under /repo/src, compared with the
baseline recorded when the models were last validated against it (source_baseline.json, committed). A file that differs is
"drift": the hand-written model may no longer describe it. Drift is not a violation - the correspondence decides - but the
check deepens its exploration when the code has moved (more rounds of every suite) and lists the drifted files in the evidence.

  fingerprint.py            print the drift against the baseline
  fingerprint.py --update   record the current tree as the baseline (after a fix: commit, once the checks pass on it)"""
import hashlib, json, os, re, sys

ROOT = os.path.dirname(os.path.dirname(os.path.abspath(__file__)))
REPO = os.environ.get("AJ_REPO", "/repo")
BASE = os.path.join(ROOT, "source_baseline.json")


def normalize(text):
    text = re.sub(r"/\*.*?\*/", " ", text, flags=re.S)
    text = re.sub(r"//[^\n]*", " ", text)
    return re.sub(r"\s+", " ", text).strip()


def current():
    out = {}
    src = os.path.join(REPO, "src")
    for d, _, fs in sorted(os.walk(src)):
        for f in sorted(fs):
            p = os.path.join(d, f)
            try:
                t = open(p, encoding="utf-8", errors="replace").read()
            except OSError:
                continue
            out[os.path.relpath(p, REPO)] = hashlib.sha256(normalize(t).encode()).hexdigest()[:16]
    return out


def drift():
    """files added, removed or changed with respect to the baseline (empty list if there is no baseline)"""
    if not os.path.exists(BASE):
        return []
    base = json.load(open(BASE))["files"]
    cur = current()
    return sorted(f for f in set(base) | set(cur) if base.get(f) != cur.get(f))


if __name__ == "__main__":
    if "--update" in sys.argv:
        import subprocess
        head = subprocess.run(["git", "-C", REPO, "rev-parse", "--short", "HEAD"], stdout=subprocess.PIPE, text=True).stdout.strip()
        json.dump({"repo_head": head, "files": current()}, open(BASE, "w"), indent=1, sort_keys=True)
        print("baseline recorded for", head, len(current()), "files")
    else:
        d = drift()
        print("drift: %d file(s)" % len(d))
        for f in d:
            print("  " + f)
