#!/usr/bin/env python3
"""Source fingerprint: a normalized hash (comments and white space removed) of every file under /repo/src, compared with the
baseline recorded when the models were last validated against it (source_baseline.json, committed). A file that differs is
"drift": the hand-written model may no longer describe it. Drift is not a violation - the correspondence decides - but the
check deepens its exploration when the code has moved (more rounds of every suite) and lists the drifted files in the evidence.

  fingerprint.py            print the drift against the baseline
  fingerprint.py --update   record the current tree as the baseline (after a fix: commit, once the checks pass on it)"""
import hashlib, json, os, re, sys

ROOT = os.path.dirname(os.path.dirname(os.path.abspath(__file__)))
REPO = os.environ.get("AJ_REPO", "/repo")
BASE = os.path.join(ROOT, "source_baseline.json")


def normalize(text):
    text = re.sub(r"/\*.*?\*/", " ", text, flags=re.S)
    text = re.sub(r"//[^\n]*", " ", text)
    return re.sub(r"\s+", " ", text).strip()


def current():
    out = {}
    src = os.path.join(REPO, "src")
    for d, _, fs in sorted(os.walk(src)):
        for f in sorted(fs):
            p = os.path.join(d, f)
            try:
                t = open(p, encoding="utf-8", errors="replace").read()
            except OSError:
                continue
            out[os.path.relpath(p, REPO)] = hashlib.sha256(normalize(t).encode()).hexdigest()[:16]
    return out


def drift():
    """files added, removed or changed with respect to the baseline (empty list if there is no baseline)"""
    if not os.path.exists(BASE):
        return []
    base = json.load(open(BASE))["files"]
    cur = current()
    return sorted(f for f in set(base) | set(cur) if base.get(f) != cur.get(f))


def table_rows_changed(limit=6):
    """rows of the generated tables (lean/AJ/Gen/Tables.lean) that differ from the tables of the baseline tree: each is a concrete input on which the
    library now answers differently (the table theorems compare the model with these rows)"""
    base = os.path.join(ROOT, "tables_baseline.lean")
    gen = os.path.join(ROOT, "lean", "AJ", "Gen", "Tables.lean")
    if not (os.path.exists(base) and os.path.exists(gen)):
        return []
    def defs(path):
        out = {}
        for line in open(path):
            m = re.match(r"def (\w+) : [^=]*:= (.*)$", line.strip())
            if m:
                out[m.group(1)] = m.group(2)
        return out
    def rows(body):
        body = body.strip()
        if not (body.startswith("[") and body.endswith("]")):
            return [body]
        inner, out, depth, cur = body[1:-1], [], 0, ""
        for ch in inner:
            if ch in "([":
                depth += 1
            elif ch in ")]":
                depth -= 1
            if ch == "," and depth == 0:
                out.append(cur.strip()); cur = ""
            else:
                cur += ch
        if cur.strip():
            out.append(cur.strip())
        return out
    a, b = defs(base), defs(gen)
    res = []
    for name in sorted(set(a) | set(b)):
        if a.get(name) == b.get(name):
            continue
        ra, rb = rows(a.get(name, "[]")), rows(b.get(name, "[]"))
        for i in range(max(len(ra), len(rb))):
            x, y = (ra[i] if i < len(ra) else None), (rb[i] if i < len(rb) else None)
            if x != y:
                res.append({"table": name, "row": i, "baseline": (x or "")[:300], "now": (y or "")[:300]})
                if len(res) >= limit:
                    return res
    return res


if __name__ == "__main__":
    if "--update" in sys.argv:
        import subprocess
        head = subprocess.run(["git", "-C", REPO, "rev-parse", "--short", "HEAD"], stdout=subprocess.PIPE, text=True).stdout.strip()
        json.dump({"repo_head": head, "files": current()}, open(BASE, "w"), indent=1, sort_keys=True)
        # the generated tables of the baseline tree: a broken table theorem is then reported with the rows that changed
        import shutil
        gen = os.path.join(ROOT, "lean", "AJ", "Gen", "Tables.lean")
        if os.path.exists(gen):
            shutil.copyfile(gen, os.path.join(ROOT, "tables_baseline.lean"))
        print("baseline recorded for", head, len(current()), "files")
    else:
        d = drift()
        print("drift: %d file(s)" % len(d))
        for f in d:
            print("  " + f)
