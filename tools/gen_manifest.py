#!/usr/bin/env python3
"""Regenerates /verif/MANIFEST.json from tools/props.py (claimed checks) — keeps the manifest valid at all times."""
import json, os, sys
sys.path.insert(0, os.path.dirname(os.path.abspath(__file__)))
import props
ROOT = os.path.dirname(os.path.dirname(os.path.abspath(__file__)))
ALL = [json.loads(l)["id"] for l in open(os.path.join(ROOT, "properties.jsonl"))]
checks = []
for pid in ALL:
    if pid not in props.PROPS:
        continue
    P = props.PROPS[pid]
    checks.append({
        "property_id": pid,
        "quick_cmd": "python3 tools/check.py %s --tier quick" % pid,
        "thorough_cmd": "python3 tools/check.py %s --tier thorough" % pid,
        "evidence_file": "/verif/evidence/%s.json" % pid,
        "replay_cmd_template": "python3 tools/replay.py {path}",
        "engine": "lean4-proof+correspondence",
        "level_claimed": {"category": "proof", "text": P["level_text"], "design_ref": P.get("design_ref", "DESIGN.md section 6/" + pid)},
        "level_note": P["level_note"],
        "technique": P.get("technique", "Lean 4 theorems about an executable model of the code; model tied to /repo by generated tables and a differential correspondence check (harness vs. compiled model driver)"),
    })
man = {
    "version": 1,
    "setup_cmd": "python3 tools/setup.py",
    "hooks": {
        "guard": "BBLANCHON_ARDUINOJSON_VERIF",
        "enable": "tools/ajlib.py compiles harness/*.cpp against /repo/src with -DBBLANCHON_ARDUINOJSON_VERIF -fsanitize=address,undefined (one binary per -D configuration, cached by content hash under /verif/.cache)",
        "baseline_off_cmd": "cmake -G Ninja -S /repo -B /repo/_build -DCMAKE_BUILD_TYPE=Debug && cmake --build /repo/_build -j16 && ctest --test-dir /repo/_build -j8 --timeout 900",
        "source_commits": props.HOOK_COMMITS,
        "add_only": True,
    },
    "engines": [{"name": "lean4-proof+correspondence", "path": "/verif/tools/check.py", "serves_properties": [c["property_id"] for c in checks],
                 "kind_free_text": "Lean 4.33 library lean/AJ (models, specs, property theorems), translator tools/gen_*.py, C++ sanitizer harness, differential driver"}],
    "checks": checks,
    "not_applicable": [{"property_id": pid, "reason": props.NOT_APPLICABLE.get(pid, "not claimed yet: model and theorems for this property are still being built (see DESIGN.md section 6)")}
                       for pid in ALL if pid not in props.PROPS],
    "notes": "Every check: regenerate tables from /repo, lake build of the property's theorem file + axiom audit, harness rebuilt from /repo's working tree, correspondence + property oracles; see DESIGN.md.",
}
json.dump(man, open(os.path.join(ROOT, "MANIFEST.json"), "w"), indent=1)
print("MANIFEST.json: %d checks, %d not applicable" % (len(checks), len(man["not_applicable"])))
