#!/usr/bin/env python3
"""Translator: regenerate lean/AJ/Gen/Tables.lean from /repo's current source.

Values come from (a) running harness/dump_tables.cpp compiled against /repo/src (functions are *called*, nothing
is parsed) and (b) the four powers-of-ten tables and two buffer sizes read off the preprocessed source (their
lengths are not observable through calls).  The file is rewritten only when its content changes.
"""
import os, re, subprocess, sys, hashlib

ROOT = os.path.dirname(os.path.dirname(os.path.abspath(__file__)))
REPO = os.environ.get("AJ_REPO", "/repo")
CACHE = os.path.join(ROOT, ".cache")
OUT = os.path.join(ROOT, "lean", "AJ", "Gen", "Tables.lean")


def run(cmd, **kw):
    return subprocess.run(cmd, check=True, stdout=subprocess.PIPE, stderr=subprocess.PIPE, text=True, **kw).stdout


def generate():
    os.makedirs(CACHE, exist_ok=True)
    exe = os.path.join(CACHE, "dump_tables.%d" % os.getpid())
    try:
        subprocess.run(["g++", "-std=gnu++17", "-O0", "-I" + REPO + "/src", os.path.join(ROOT, "harness", "dump_tables.cpp"), "-o", exe],
                       check=True, stdout=subprocess.PIPE, stderr=subprocess.PIPE, text=True)
        dump = run([exe])
    finally:
        if os.path.exists(exe):
            os.unlink(exe)
    # character classes: the private static predicates of JsonDeserializer, called for every byte, in the three configurations that matter
    cls = {}
    for tag, flags in (("plain", []), ("nan", ["-DARDUINOJSON_ENABLE_NAN=1"]), ("inf", ["-DARDUINOJSON_ENABLE_INFINITY=1"])):
        exe2 = os.path.join(CACHE, "dump_classes.%d" % os.getpid())
        try:
            subprocess.run(["g++", "-std=gnu++17", "-O0", "-I" + REPO + "/src"] + flags + [os.path.join(ROOT, "harness", "dump_classes.cpp"), "-o", exe2],
                           check=True, stdout=subprocess.PIPE, stderr=subprocess.PIPE, text=True)
            for line in run([exe2]).splitlines():
                k, _, v = line.partition(" ")
                cls[(tag, k)] = v.strip()
        finally:
            if os.path.exists(exe2):
                os.unlink(exe2)
    # MessagePack dispatch on the first byte: the public API called on 2 x 256 ten-byte inputs
    exe3 = os.path.join(CACHE, "dump_mpfirst.%d" % os.getpid())
    try:
        subprocess.run(["g++", "-std=gnu++17", "-O0", "-I" + REPO + "/src", os.path.join(ROOT, "harness", "dump_mpfirst.cpp"), "-o", exe3],
                       check=True, stdout=subprocess.PIPE, stderr=subprocess.PIPE, text=True)
        mpfirst = {}
        for line in run([exe3]).splitlines():
            k, _, v = line.partition(" ")
            mpfirst[k] = v.split()
    finally:
        if os.path.exists(exe3):
            os.unlink(exe3)
    # JSON dispatch on the first byte: the public API called on 3 x 256 short inputs, default build and the build with comments, NaN and Infinity
    jsonfirst = {}
    for tag, flags in (("plain", []), ("ext", ["-DARDUINOJSON_ENABLE_COMMENTS=1", "-DARDUINOJSON_ENABLE_NAN=1", "-DARDUINOJSON_ENABLE_INFINITY=1"])):
        exe4 = os.path.join(CACHE, "dump_jsonfirst.%d" % os.getpid())
        try:
            subprocess.run(["g++", "-std=gnu++17", "-O0", "-I" + REPO + "/src"] + flags + [os.path.join(ROOT, "harness", "dump_jsonfirst.cpp"), "-o", exe4],
                           check=True, stdout=subprocess.PIPE, stderr=subprocess.PIPE, text=True)
            for line in run([exe4]).splitlines():
                k, _, v = line.partition(" ")
                jsonfirst[k + "_" + tag] = v.split()
        finally:
            if os.path.exists(exe4):
                os.unlink(exe4)
    # typed extraction: as<T>() of stored values at the type boundaries
    exe5 = os.path.join(CACHE, "dump_conv.%d" % os.getpid())
    try:
        subprocess.run(["g++", "-std=gnu++17", "-O0", "-I" + REPO + "/src", os.path.join(ROOT, "harness", "dump_conv.cpp"), "-o", exe5],
                       check=True, stdout=subprocess.PIPE, stderr=subprocess.PIPE, text=True)
        conv_rows = run([exe5]).split()[1:]
    finally:
        if os.path.exists(exe5):
            os.unlink(exe5)
    # numbers through text: printed values and parsed literals
    exe6 = os.path.join(CACHE, "dump_numbers.%d" % os.getpid())
    try:
        subprocess.run(["g++", "-std=gnu++17", "-O0", "-I" + REPO + "/src", os.path.join(ROOT, "harness", "dump_numbers.cpp"), "-o", exe6],
                       check=True, stdout=subprocess.PIPE, stderr=subprocess.PIPE, text=True)
        numrows = {}
        for line in run([exe6]).splitlines():
            k, _, v = line.partition(" ")
            numrows[k] = v.split()
    finally:
        if os.path.exists(exe6):
            os.unlink(exe6)
    # comparison operators on every ordered pair of 18 values
    exe7 = os.path.join(CACHE, "dump_cmp.%d" % os.getpid())
    try:
        subprocess.run(["g++", "-std=gnu++17", "-O0", "-I" + REPO + "/src", os.path.join(ROOT, "harness", "dump_cmp.cpp"), "-o", exe7],
                       check=True, stdout=subprocess.PIPE, stderr=subprocess.PIPE, text=True)
        cmp_rows = run([exe7]).split()[1:]
    finally:
        if os.path.exists(exe7):
            os.unlink(exe7)
    # whole documents through the serializers and the filter
    exe8 = os.path.join(CACHE, "dump_docs.%d" % os.getpid())
    try:
        subprocess.run(["g++", "-std=gnu++17", "-O0", "-I" + REPO + "/src", os.path.join(ROOT, "harness", "dump_docs.cpp"), "-o", exe8],
                       check=True, stdout=subprocess.PIPE, stderr=subprocess.PIPE, text=True)
        docrows = {}
        for line in run([exe8]).splitlines():
            k, _, v = line.partition(" ")
            docrows[k] = v.split()
    finally:
        if os.path.exists(exe8):
            os.unlink(exe8)
    # strings through text: escaping of every byte, decoding of \u escapes
    exe9 = os.path.join(CACHE, "dump_unicode.%d" % os.getpid())
    try:
        subprocess.run(["g++", "-std=gnu++17", "-O0", "-I" + REPO + "/src", os.path.join(ROOT, "harness", "dump_unicode.cpp"), "-o", exe9],
                       check=True, stdout=subprocess.PIPE, stderr=subprocess.PIPE, text=True)
        unirows = {}
        for line in run([exe9]).splitlines():
            k, _, v = line.partition(" ")
            unirows[k] = v.split()
    finally:
        if os.path.exists(exe9):
            os.unlink(exe9)
    # nesting limits and streams
    exe10 = os.path.join(CACHE, "dump_depth_stream.%d" % os.getpid())
    try:
        subprocess.run(["g++", "-std=gnu++17", "-O0", "-I" + REPO + "/src", os.path.join(ROOT, "harness", "dump_depth_stream.cpp"), "-o", exe10],
                       check=True, stdout=subprocess.PIPE, stderr=subprocess.PIPE, text=True)
        dsrows = {}
        for line in run([exe10]).splitlines():
            k, _, v = line.partition(" ")
            dsrows[k] = v.split()
    finally:
        if os.path.exists(exe10):
            os.unlink(exe10)
    vals = {}
    for line in dump.splitlines():
        k, _, v = line.partition(" ")
        vals[k] = v.strip()
    pre = run(["g++", "-std=gnu++17", "-E", "-P", "-I" + REPO + "/src", "-x", "c++", "-"], input="#include <ArduinoJson.h>\n")
    tabs = re.findall(r"static\s+uint(64|32)_t\s+const\s+factors\[\]\s*=\s*\{([^}]*)\}", pre)
    if len(tabs) != 4:
        raise RuntimeError("expected 4 powers-of-ten tables, found %d" % len(tabs))
    names = ["pos64", "neg64", "pos32", "neg32"]
    tables = {}
    for name, (w, body) in zip(names, tabs):
        tables[name] = [int(x, 16) for x in re.findall(r"0x[0-9A-Fa-f]+", body)]
    m = re.search(r"char\s+buffer_\[(\d+)\]", pre)
    numbuf = int(m.group(1)) if m else 64
    pairs = lambda s: "[" + ", ".join("(%s, %s)" % tuple(p.split(":")) for p in s.split()) + "]"
    L = []
    L.append("/- GENERATED by tools/gen_tables.py from the source under /repo — do not edit. -/")
    L.append("namespace Gen")
    for n in names:
        L.append("def %s : List Nat := [%s]" % (n, ", ".join("0x%X" % x for x in tables[n])))
    L.append("/-- (byte, escape letter) for every byte that `EscapeSequence::escapeChar` maps to a non-zero letter -/")
    L.append("def escapeNZ : List (Nat × Nat) := " + pairs(vals["escape"]))
    L.append("/-- (escape letter, byte) for every letter that `EscapeSequence::unescapeChar` accepts -/")
    L.append("def unescapeNZ : List (Nat × Nat) := " + pairs(vals["unescape"]))
    for k in ["hi64_i64", "hi64_u64", "hi32_i32", "hi32_u32", "hi32_i64", "hi32_u64", "mantissa_max64", "mantissa_max32",
              "exponent_max64", "exponent_max32", "nesting_limit", "pool_capacity", "initial_pool_count", "slot_id_size",
              "string_length_size", "slot_size", "pool_object_size", "string_overhead", "string_max_length", "null_slot",
              "max_pools", "positive_exp_threshold_bits", "negative_exp_threshold_bits", "use_double", "use_long_long"]:
        L.append("def %s : Nat := %s" % (k, vals[k]))
    L.append("def number_buffer : Nat := %d" % numbuf)
    nums = lambda s: "[" + ", ".join(s.split()) + "]"
    L.append("/-- bytes for which `JsonDeserializer::canBeInNumber` holds: default build, ENABLE_NAN=1, ENABLE_INFINITY=1 -/")
    L.append("def cls_number_plain : List Nat := " + nums(cls[("plain", "cls_number")]))
    L.append("def cls_number_nan : List Nat := " + nums(cls[("nan", "cls_number")]))
    L.append("def cls_number_inf : List Nat := " + nums(cls[("inf", "cls_number")]))
    for k in ("cls_unquoted", "cls_quote", "cls_space"):
        for tag in ("nan", "inf"):
            if cls[(tag, k)] != cls[("plain", k)]:
                raise RuntimeError("%s depends on the configuration" % k)
        L.append("/-- bytes for which `JsonDeserializer::%s` holds -/" % {"cls_unquoted": "canBeInNonQuotedString", "cls_quote": "isQuote", "cls_space": "isSpace"}[k])
        L.append("def %s : List Nat := %s" % (k, nums(cls[("plain", k)])))
    L.append("/-- (byte, value) for every byte that `JsonDeserializer::decodeHex` maps to a value <= 15 -/")
    L.append("def hexdigit : List (Nat × Nat) := " + pairs(cls[("plain", "hexdigit")]))
    def mprow(e):
        b, c, pos, hx_ = e.split(":")
        bs = [] if hx_ == "-" else [int(hx_[i:i + 2], 16) for i in range(0, len(hx_), 2)]
        return "(%s, %s, %s, [%s])" % (b, c, pos, ", ".join(str(x) for x in bs))
    for k, doc in (("mpfirst_zero", "first byte followed by nine zero bytes"), ("mpfirst_count", "first byte followed by the bytes 1..9")):
        L.append("/-- deserializeMsgPack on `%s`, nesting limit 10: (first byte, code 0=Ok 1=EmptyInput 2=IncompleteInput 3=InvalidInput 4=NoMemory 5=TooDeep, bytes consumed, serializeMsgPack of the document left) -/" % doc)
        L.append("def %s : List (Nat × Nat × Nat × List Nat) := [%s]" % (k, ", ".join(mprow(e) for e in mpfirst[k])))
    def convrow(e):
        f_ = e.split(":")
        kind = {"U": 0, "I": 1, "D": 2, "F": 3}[f_[0]]
        return "(%d, %s, [%s], %s, %s)" % (kind, f_[1], ", ".join(f_[2:10]), f_[10], f_[11])
    L.append("/-- as<T>() of stored values (kind 0 = unsigned, 1 = signed given as its 64-bit two's complement, 2 = double bits, 3 = float bits; payload): the eight integral readings i8 u8 i16 u16 i32 u32 i64 u64, the bits of as<float>() and of as<double>() (NaN canonical) -/")
    L.append("def conv_rows : List (Nat × Nat × List Int × Nat × Nat) := [%s]" % ", ".join(convrow(e) for e in conv_rows))
    hexl = lambda h: "[" + ", ".join(str(int(h[i:i + 2], 16)) for i in range(0, len(h), 2)) + "]" if h != "-" else "[]"
    L.append("/-- serializeJson of stored numbers (kind 0 = unsigned, 1 = signed as two's complement, 2 = double bits, 3 = float bits; payload; text) -/")
    L.append("def print_rows : List (Nat × Nat × List Nat) := [%s]" % ", ".join("(%s, %s, %s)" % (e.split(":")[0], e.split(":")[1], hexl(e.split(":")[2])) for e in numrows["print_rows"]))
    L.append("/-- deserializeJson of number-like literals: (text, code, stored as an integer, as<uint64>, as<int64>, bits of as<float>, bits of as<double>) -/")
    L.append("def parse_rows : List (List Nat × Nat × Nat × Nat × Int × Nat × Nat) := [%s]" % ", ".join(
        "(%s, %s, %s, %s, %s, %s, %s)" % ((hexl(e.split(":")[0]),) + tuple(e.split(":")[1:7])) for e in numrows["parse_rows"]))
    L.append("/-- a ? b for every ordered pair of the 18 values of harness/dump_cmp.cpp: (index of a, index of b, [==, !=, <, <=, >, >=]) -/")
    L.append("def cmp_rows : List (Nat × Nat × List Bool) := [%s]" % ", ".join(
        "(%s, %s, [%s])" % (e.split(":")[0], e.split(":")[1], ", ".join("true" if c == "1" else "false" for c in e.split(":")[2])) for e in cmp_rows))
    L.append("/-- (JSON text, serializeJson, serializeJsonPretty, serializeMsgPack) of the document the text denotes -/")
    L.append("def doc_rows : List (List Nat × List Nat × List Nat × List Nat) := [%s]" % ", ".join("(%s)" % ", ".join(hexl(x) for x in e.split(":")) for e in docrows["doc_rows"]))
    L.append("/-- (MessagePack bytes of a document of doc_rows, code of deserializeMsgPack on them, serializeJson of the document read back) -/")
    L.append("def mpback_rows : List (List Nat × Nat × List Nat) := [%s]" % ", ".join(
        "(%s, %s, %s)" % (hexl(e.split(":")[0]), e.split(":")[1], hexl(e.split(":")[2])) for e in docrows["mpback_rows"]))
    L.append("/-- (filter text, input text, code 0 = Ok, serializeJson of the filtered document) -/")
    L.append("def filter_rows : List (List Nat × List Nat × Nat × List Nat) := [%s]" % ", ".join(
        "(%s, %s, %s, %s)" % (hexl(e.split(":")[0]), hexl(e.split(":")[1]), e.split(":")[2], hexl(e.split(":")[3])) for e in docrows["filter_rows"]))
    L.append("/-- (byte b, serializeJson of the one-byte string b) for all 256 bytes -/")
    L.append("def escape_rows : List (Nat × List Nat) := [%s]" % ", ".join("(%s, %s)" % (e.split(":")[0], hexl(e.split(":")[1])) for e in unirows["escape_rows"]))
    L.append("/-- (JSON text of a string with \\u escapes, code 0 = Ok 2 = IncompleteInput 3 = InvalidInput, 1 if the result is a string, its bytes) -/")
    L.append("def unicode_rows : List (List Nat × Nat × Nat × List Nat) := [%s]" % ", ".join(
        "(%s, %s, %s, %s)" % (hexl(e.split(":")[0]), e.split(":")[1], e.split(":")[2], hexl(e.split(":")[3])) for e in unirows["unicode_rows"]))
    L.append("/-- k nested arrays around the number 1 read with nesting limit L: (k, L, JSON code, serializeJson of the document left, MessagePack code, serializeJson of the document left) -/")
    L.append("def depth_rows : List (Nat × Nat × Nat × List Nat × Nat × List Nat) := [%s]" % ", ".join(
        "(%s, %s, %s, %s, %s, %s)" % (f_[0], f_[1], f_[2], hexl(f_[3]), f_[4], hexl(f_[5])) for f_ in (e.split(":") for e in dsrows["depth_rows"])))
    def calls(cs):
        return "[" + ", ".join("(%s, %s)" % (c.split(".")[0], hexl(c.split(".")[1])) for c in cs.split(",")) + "]"
    L.append("/-- a stream of documents read by successive deserializeJson calls on one reader: (text, per call (code, serializeJson of the document)) -/")
    L.append("def stream_rows : List (List Nat × List (Nat × List Nat)) := [%s]" % ", ".join("(%s, %s)" % (hexl(e.split(":")[0]), calls(e.split(":")[1])) for e in dsrows["stream_rows"]))
    for k in sorted(jsonfirst):
        L.append("/-- deserializeJson on a first byte and a fixed tail (alone: nothing; elem: `1]`; key: `\":1}x`), nesting limit 10; plain = default build, ext = comments, NaN and Infinity enabled: (first byte, code, bytes consumed, serializeJson of the document left) -/")
        L.append("def %s : List (Nat × Nat × Nat × List Nat) := [%s]" % (k, ", ".join(mprow(e) for e in jsonfirst[k])))
    L.append("end Gen")
    return "\n".join(L) + "\n"


def source_key():
    """content hash of everything the generated text depends on: every file under /repo/src and the dump programs"""
    h = hashlib.sha256()
    files = []
    for d, _, fs in os.walk(os.path.join(REPO, "src")):
        files += [os.path.join(d, f) for f in fs]
    files += [os.path.join(ROOT, "harness", f) for f in os.listdir(os.path.join(ROOT, "harness")) if f.startswith("dump_")]
    files.append(os.path.abspath(__file__))
    for f in sorted(files):
        h.update(f.encode()); h.update(open(f, "rb").read())
    return h.hexdigest()[:24]


def main():
    # the translation is a function of the source: the text is cached under the content hash of /repo/src and of the dump programs
    os.makedirs(CACHE, exist_ok=True)
    cached = os.path.join(CACHE, "gen_tables.%s.lean" % source_key())
    if os.path.exists(cached) and "--no-cache" not in sys.argv:
        text = open(cached).read()
    else:
        text = generate()
        tmp = cached + ".%d" % os.getpid()
        with open(tmp, "w") as f:
            f.write(text)
        os.replace(tmp, cached)
    os.makedirs(os.path.dirname(OUT), exist_ok=True)
    old = open(OUT).read() if os.path.exists(OUT) else None
    changed = old != text
    if changed:
        with open(OUT, "w") as f:
            f.write(text)
    print(("changed " if changed else "unchanged ") + hashlib.sha256(text.encode()).hexdigest()[:16])


if __name__ == "__main__":
    main()
