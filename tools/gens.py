"""Input generators and independent (Python-side) reference semantics used by the property oracles.
Every random choice comes from the random.Random instance passed in (seeded from VERIF_SEED)."""
import struct
from fractions import Fraction

# ------------------------------------------------------------------------------------------------ canonical trees


def parse_tree(s):
    """canonical tree text -> python structure:
    ('N',) ('B',bool) ('U',n) ('I',n) ('f',bits) ('d',bits) ('S',bytes) ('R',bytes) ('A',[..]) ('O',[(key,v)..]) ('?',)"""
    pos = 0

    def hexrun():
        nonlocal pos
        st = pos
        while pos < len(s) and s[pos] in "0123456789abcdef":
            pos += 1
        return bytes.fromhex(s[st:pos])

    def val():
        nonlocal pos
        c = s[pos]
        pos += 1
        if c == "N":
            return ("N",)
        if c == "?":
            return ("?",)
        if c == "T":
            return ("B", True)
        if c == "F":
            return ("B", False)
        if c in "UI":
            st = pos
            if pos < len(s) and s[pos] == "-":
                pos += 1
            while pos < len(s) and s[pos].isdigit():
                pos += 1
            return (c, int(s[st:pos]))
        if c == "f":
            pos += 8
            return ("f", int(s[pos - 8:pos], 16))
        if c == "d":
            pos += 16
            return ("d", int(s[pos - 16:pos], 16))
        if c == "S":
            return ("S", hexrun())
        if c == "L":            # a string handed over by address: the same value as a copied one
            return ("S", hexrun())
        if c == "R":
            return ("R", hexrun())
        if c == "[":
            xs = []
            if s[pos] == "]":
                pos += 1
                return ("A", xs)
            while True:
                xs.append(val())
                if s[pos] == ",":
                    pos += 1
                    continue
                assert s[pos] == "]", s[pos:]
                pos += 1
                return ("A", xs)
        if c == "{":
            ms = []
            if s[pos] == "}":
                pos += 1
                return ("O", ms)
            while True:
                k = hexrun()
                assert s[pos] == ":"
                pos += 1
                ms.append((k, val()))
                if s[pos] == ",":
                    pos += 1
                    continue
                assert s[pos] == "}"
                pos += 1
                return ("O", ms)
        raise ValueError("bad tree at %d: %r" % (pos, s[:80]))

    v = val()
    if pos != len(s):
        raise ValueError("trailing tree text: %r" % s[pos:pos + 20])
    return v


def show_tree(t):
    k = t[0]
    if k == "N":
        return "N"
    if k == "B":
        return "T" if t[1] else "F"
    if k in "UI":
        return "%s%d" % (k, t[1])
    if k == "f":
        return "f%08x" % t[1]
    if k == "d":
        return "d%016x" % t[1]
    if k == "S":
        return "S" + t[1].hex()
    if k == "L":
        return "L" + t[1].hex()
    if k == "R":
        return "R" + t[1].hex()
    if k == "Bn":
        return "B" + t[1].hex()
    if k == "X":
        return "X%02x" % (t[1] % 256) + t[2].hex()
    if k == "A":
        return "[" + ",".join(show_tree(x) for x in t[1]) + "]"
    if k == "O":
        return "{" + ",".join((("l" if len(m) > 2 and m[2] else "") + m[0].hex()) + ":" + show_tree(m[1]) for m in t[1]) + "}"
    raise ValueError(t)


def f32_value(bits):
    """exact value of a binary32 pattern: Fraction, or 'nan' / 'inf' / '-inf'"""
    s = bits >> 31
    e = (bits >> 23) & 0xFF
    m = bits & 0x7FFFFF
    if e == 255:
        return "nan" if m else ("-inf" if s else "inf")
    v = Fraction(m, 1 << 23) * Fraction(2) ** (-126) if e == 0 else (1 + Fraction(m, 1 << 23)) * Fraction(2) ** (e - 127)
    return -v if s else v


def f64_value(bits):
    s = bits >> 63
    e = (bits >> 52) & 0x7FF
    m = bits & ((1 << 52) - 1)
    if e == 2047:
        return "nan" if m else ("-inf" if s else "inf")
    v = Fraction(m, 1 << 52) * Fraction(2) ** (-1022) if e == 0 else (1 + Fraction(m, 1 << 52)) * Fraction(2) ** (e - 1023)
    return -v if s else v


def num_value(t):
    """numeric value of a number node as Fraction / 'nan' / 'inf' / '-inf'; None if not a number"""
    if t[0] in "UI":
        return Fraction(t[1])
    if t[0] == "f":
        return f32_value(t[1])
    if t[0] == "d":
        return f64_value(t[1])
    return None


def is_neg_zero(t):
    return (t[0] == "f" and t[1] == 0x80000000) or (t[0] == "d" and t[1] == 1 << 63)


def double_bits(x):
    return struct.unpack("<Q", struct.pack("<d", x))[0]


def float_bits(x):
    return struct.unpack("<I", struct.pack("<f", x))[0]


# ------------------------------------------------------------------------------------------------ JSON text generation

WS = [b" ", b"\t", b"\r", b"\n"]


def gen_ws(rng, p=0.3):
    out = b""
    while rng.random() < p:
        out += rng.choice(WS)
    return out


def utf8(cp):
    if cp < 0x80:
        return bytes([cp])
    if cp < 0x800:
        return bytes([0xC0 | cp >> 6, 0x80 | cp & 63])
    if cp < 0x10000:
        return bytes([0xE0 | cp >> 12, 0x80 | (cp >> 6) & 63, 0x80 | cp & 63])
    return bytes([0xF0 | cp >> 18, 0x80 | (cp >> 12) & 63, 0x80 | (cp >> 6) & 63, 0x80 | cp & 63])


SIMPLE_ESC = {0x22: b'\\"', 0x5C: b"\\\\", 0x2F: b"\\/", 0x08: b"\\b", 0x0C: b"\\f", 0x0A: b"\\n", 0x0D: b"\\r", 0x09: b"\\t"}


def hex4(rng, cu):
    h = "%04x" % cu
    return "".join(c.upper() if rng.random() < 0.5 else c for c in h).encode()


def gen_string(rng, maxlen=12, allow_nul=True):
    """returns (decoded bytes, spelling without quotes) - RFC 8259 string"""
    n = rng.choice([0, 0, 1, 1, 2, 3, 5, 8, maxlen])
    dec = b""
    sp = b""
    for _ in range(n):
        r = rng.random()
        if r < 0.45:
            c = rng.choice(b"abcxyz019 _-:,[]{}'")
            dec += bytes([c])
            sp += bytes([c])
        elif r < 0.55:
            c = rng.choice(list(SIMPLE_ESC))
            dec += bytes([c])
            sp += SIMPLE_ESC[c]
        elif r < 0.65:
            # printable char that must not appear raw, or may appear escaped with \u
            c = rng.randrange(1 if not allow_nul else 0, 0x80)
            dec += bytes([c])
            sp += b"\\u" + hex4(rng, c)
        elif r < 0.75:
            cp = rng.choice([0x80, 0xE9, 0x7FF, 0x800, 0xFFFF, 0xD7FF, 0xE000, 0x20AC, rng.randrange(0x80, 0xD800), rng.randrange(0xE000, 0x10000)])
            dec += utf8(cp)
            sp += b"\\u" + hex4(rng, cp)
        elif r < 0.83:
            cp = rng.choice([0x10000, 0x10FFFF, 0x1F600, rng.randrange(0x10000, 0x110000)])
            v = cp - 0x10000
            dec += utf8(cp)
            sp += b"\\u" + hex4(rng, 0xD800 + (v >> 10)) + b"\\u" + hex4(rng, 0xDC00 + (v & 0x3FF))
        elif r < 0.93:
            cp = rng.choice([0xE9, 0x20AC, 0x1F600, rng.randrange(0x80, 0xD800)])
            dec += utf8(cp)
            sp += utf8(cp)
        else:
            # raw byte >= 0x20 that is not a quote/backslash (control characters are not legal raw)
            c = rng.choice([0x7F, 0x80, 0xFF, 0xC0, 0x20, 0x27, 0x7E])
            dec += bytes([c])
            sp += bytes([c])
    return dec, sp


def gen_number(rng):
    """returns (expected, spelling): expected = ('U',n) / ('I',n) for integer literals in range, else ('Q', Fraction, sigdigits)"""
    r = rng.random()
    if r < 0.06:
        # integer literal beyond the 64-bit range (no fraction, no exponent): stored as a floating-point number, judged within the C12 accuracy
        mag = rng.choice([2 ** 64, 2 ** 64 + 1, 2 ** 64 + rng.randrange(0, 10 ** 6), rng.randrange(2 ** 64, 10 ** 20), rng.randrange(10 ** 19, 10 ** rng.randrange(20, 40)),
                          int(str(rng.randrange(1, 10)) + "".join(rng.choice("0123456789") for _ in range(rng.randrange(19, 45))))])
        neg = rng.random() < 0.4
        if neg and rng.random() < 0.3:
            mag = 2 ** 63 + rng.choice([1, 2, 1000, 2 ** 62])
        txt = ("-" if neg else "") + str(mag)
        return ("Q", Fraction(-mag if neg else mag), sig_digits(txt)), txt.encode()
    if r < 0.35:
        # integer literal
        mag = rng.choice([0, 1, 9, 10, 127, 128, 255, 256, 32767, 65535, 2 ** 31 - 1, 2 ** 31, 2 ** 32 - 1, 2 ** 32, 2 ** 53, 2 ** 63 - 1, 2 ** 63,
                          2 ** 64 - 1, rng.randrange(0, 1000), rng.randrange(0, 2 ** 64)])
        neg = rng.random() < 0.4
        if neg and mag > 2 ** 63:
            mag = 2 ** 63
        txt = ("-" if neg else "") + str(mag)
        return (("I", -mag) if neg else ("U", mag)), txt.encode()
    # general number: int part, optional frac, optional exp (RFC: no leading zeros, at least one digit after '.')
    ip = rng.choice(["0", "1", "7", "12", "123456789", str(rng.randrange(0, 10 ** rng.randrange(1, 20)))])
    frac = ""
    if rng.random() < 0.7:
        frac = "." + "".join(rng.choice("0123456789") for _ in range(rng.choice([1, 1, 2, 3, 6, 9, 15, 20])))
    ex = ""
    if rng.random() < 0.5 or not frac:
        e = rng.choice([0, 1, -1, 5, -5, 10, -10, 37, 38, 39, -37, -38, -39, 100, -100, 290, -290, 307, 308, -307, -308, rng.randrange(-320, 320)])
        ex = rng.choice("eE") + rng.choice(["", "+", "-"] if e == 0 else (["", "+"] if e > 0 else ["-"])) + str(abs(e)).rjust(rng.choice([1, 1, 2, 3]), "0")
    neg = rng.random() < 0.3
    txt = ("-" if neg else "") + ip + frac + ex
    if len(txt) > 63:
        return gen_number(rng)
    return ("Q", lit_value(txt), sig_digits(txt)), txt.encode()


def lit_value(txt):
    """exact rational value of a decimal literal (lenient forms included: '+1', '.5', '1.', '1e')"""
    t = txt
    neg = False
    if t and t[0] in "+-":
        neg = t[0] == "-"
        t = t[1:]
    mant, _, ex = t.replace("E", "e").partition("e")
    ip, _, fp = mant.partition(".")
    digits = (ip + fp) or "0"
    v = Fraction(int(digits or "0"), 10 ** len(fp))
    if ex not in ("", "+", "-"):
        v *= Fraction(10) ** max(-100000, min(100000, int(ex)))
    return -v if neg else v


def sig_digits(txt):
    t = txt.lstrip("+-").replace("E", "e").partition("e")[0].replace(".", "").lstrip("0")
    return len(t.rstrip("0")) if t else 0


def gen_value(rng, depth, maxdepth, size):
    """returns (expected tree, text). expected number nodes as produced by gen_number"""
    r = rng.random()
    if depth >= maxdepth or size[0] <= 0:
        r = r * 0.6
    size[0] -= 1
    if r < 0.1:
        return ("N",), b"null"
    if r < 0.2:
        b = rng.random() < 0.5
        return ("B", b), (b"true" if b else b"false")
    if r < 0.42:
        return gen_number(rng)
    if r < 0.6:
        d, s = gen_string(rng)
        return ("S", d), b'"' + s + b'"'
    if r < 0.8:
        n = rng.choice([0, 1, 1, 2, 3, 5])
        xs = [gen_value(rng, depth + 1, maxdepth, size) for _ in range(n)]
        txt = b"[" + gen_ws(rng)
        txt += b",".join(gen_ws(rng) + t + gen_ws(rng) for _, t in xs)
        txt += b"]"
        return ("A", [e for e, _ in xs]), txt
    n = rng.choice([0, 1, 1, 2, 3, 4])
    ms = []
    parts = []
    keys = []
    for i in range(n):
        kr = rng.random()
        if keys and kr < 0.2:
            kd = rng.choice(keys)                      # repeated key
            ks = b"".join(SIMPLE_ESC.get(c, bytes([c]) if 0x20 <= c and c not in (0x22, 0x5C) else b"\\u%04x" % c) for c in kd)
        elif keys and kr < 0.35:
            base = rng.choice(keys)                    # key that extends another one, possibly through a NUL
            ext = rng.choice([b"x", b"\x00", b"\x00b", b"0"])
            kd = base + ext
            ks = b"".join(SIMPLE_ESC.get(c, bytes([c]) if 0x20 <= c and c not in (0x22, 0x5C) else b"\\u%04x" % c) for c in kd)
        else:
            kd, ks = gen_string(rng, maxlen=6)
        keys.append(kd)
        v, t = gen_value(rng, depth + 1, maxdepth, size)
        ms.append((kd, v))
        parts.append(gen_ws(rng) + b'"' + ks + b'"' + gen_ws(rng) + b":" + gen_ws(rng) + t + gen_ws(rng))
    txt = b"{" + (gen_ws(rng) if not parts else b"") + b",".join(parts) + b"}"
    return ("O", last_wins(ms)), txt


def last_wins(ms):
    out = []
    idx = {}
    for k, v in ms:
        if k in idx:
            out[idx[k]] = (k, v)
        else:
            idx[k] = len(out)
            out.append((k, v))
    return out


def depth_of(t):
    if t[0] == "A":
        return 1 + max([depth_of(x) for x in t[1]] + [0])
    if t[0] == "O":
        return 1 + max([depth_of(v) for _, v in t[1]] + [0])
    return 0


def gen_json_doc(rng, maxdepth=4, budget=12):
    exp, txt = gen_value(rng, 0, maxdepth, [budget])
    return exp, gen_ws(rng) + txt + gen_ws(rng, 0.2)


# ------------------------------------------------------------------------------------------------ number tolerance (C12)
TOL6 = Fraction(1, 10 ** 6)
TOL13 = Fraction(1, 10 ** 13)
BIG = Fraction(10) ** 300
SMALL = Fraction(1, 10 ** 300)


def check_parsed_number(expected, got):
    """C12 parse clause. expected = ('Q', v, sig) ; got = tree node. returns None if fine else description"""
    v, sig = expected[1], expected[2]
    r = num_value(got)
    if r is None:
        return "not a number: %s" % (got,)
    if r == "nan":
        return "NaN"
    a = abs(v)
    if v == 0:
        return None if r == 0 else "zero literal parsed to %s" % (show_tree(got),)
    if SMALL <= a <= BIG:
        if r in ("inf", "-inf"):
            return "in-range literal parsed to infinity"
        tol = TOL13 if sig > 7 else TOL6
        if abs(r - v) > tol * a:
            return "relative error %.3e exceeds %s" % (float(abs(r - v) / a), "1e-13" if sig > 7 else "1e-6")
        return None
    if a > BIG:
        if r in ("inf", "-inf"):
            return None if (r == "-inf") == (v < 0) else "wrong sign of infinity"
        # finite result for |v| > 1e300 must still be of the right magnitude
        if abs(r - v) > TOL6 * a:
            return "huge literal parsed to a finite value of the wrong magnitude"
        return None
    # a < 1e-300
    if r in ("inf", "-inf"):
        return "tiny literal parsed to infinity"
    if r == 0:
        return None
    if abs(r - v) > TOL6 * a and abs(r) > 2 * a:
        return "tiny literal parsed to a finite value of the wrong magnitude"
    return None


def match_expected(exp, got, path="$"):
    """compare an expected tree (numbers possibly ('Q',v,sig)) with the tree extracted from the library. returns list of problems"""
    if exp[0] == "Q":
        p = check_parsed_number(exp, got)
        return ["%s: %s" % (path, p)] if p else []
    if exp[0] == "NAN":
        return [] if num_value(got) == "nan" else ["%s: NaN literal parsed to %s" % (path, show_tree(got)[:40])]
    if exp[0] == "INF":
        return [] if num_value(got) == ("-inf" if exp[1] else "inf") else ["%s: Infinity literal parsed to %s" % (path, show_tree(got)[:40])]
    if exp[0] in "UI":
        if got[0] == exp[0] and got[1] == exp[1]:
            return []
        # -0 is stored as signed 0
        return ["%s: expected %s got %s" % (path, show_tree(exp), show_tree(got))]
    if exp[0] != got[0]:
        return ["%s: expected kind %s got %s" % (path, exp[0], show_tree(got)[:60])]
    if exp[0] in ("N",):
        return []
    if exp[0] in ("B", "S", "R"):
        return [] if exp[1] == got[1] else ["%s: expected %s got %s" % (path, show_tree(exp)[:60], show_tree(got)[:60])]
    if exp[0] == "A":
        if len(exp[1]) != len(got[1]):
            return ["%s: expected %d elements got %d" % (path, len(exp[1]), len(got[1]))]
        out = []
        for i, (a, b) in enumerate(zip(exp[1], got[1])):
            out += match_expected(a, b, "%s[%d]" % (path, i))
        return out
    if exp[0] == "O":
        if [k for k, _ in exp[1]] != [k for k, _ in got[1]]:
            return ["%s: expected keys %s got %s" % (path, [k.hex() for k, _ in exp[1]], [k.hex() for k, _ in got[1]])]
        out = []
        for (k, a), (_, b) in zip(exp[1], got[1]):
            out += match_expected(a, b, "%s.%s" % (path, k.hex()))
        return out
    return ["%s: unknown expected node" % path]


# ------------------------------------------------------------------------------------------------ mutation
def mutate(rng, b):
    b = bytearray(b)
    for _ in range(rng.choice([1, 1, 1, 2, 3])):
        r = rng.random()
        if not b or r < 0.25:
            b.insert(rng.randrange(len(b) + 1), rng.choice(b'[]{}:,"\\\'0-e.tfn \x00/*\xff'))
        elif r < 0.5:
            del b[rng.randrange(len(b))]
        elif r < 0.7:
            b[rng.randrange(len(b))] = rng.randrange(256)
        elif r < 0.85:
            del b[rng.randrange(len(b)):]
        else:
            i = rng.randrange(len(b))
            j = rng.randrange(i, min(len(b), i + 6) + 1)
            b[i:i] = b[i:j]
    return bytes(b)


# ------------------------------------------------------------------------------------------------ document terms (API-built documents)
BOUND_U = [0, 1, 9, 10, 127, 128, 255, 256, 65535, 65536, 2 ** 31 - 1, 2 ** 31, 2 ** 32 - 1, 2 ** 32, 2 ** 53, 2 ** 63 - 1, 2 ** 63, 2 ** 64 - 1, 10 ** 19, 99999999999999999]
BOUND_I = [0, -1, 1, -32, -33, -128, -129, -32768, -32769, -2 ** 31, -2 ** 31 - 1, 2 ** 31 - 1, 2 ** 31, -2 ** 63, 2 ** 63 - 1, -10 ** 18, 123456789]
BOUND_F32 = [0, 0x80000000, 0x3F800000, 0xBF800000, 0x3FC00000, 1, 0x007FFFFF, 0x00800000, 0x7F7FFFFF, 0x7F800000, 0xFF800000, 0x7FC00000, 0x4B800000,
             0x4B18967F, 0x4B189680, 0x4B189681, 0x3727C5AC, 0x3727C5AB, 0x3727C5AD, 0x41200000, 0x3DCCCCCD, 0x4CBEBC20, 0x501502F9, 0x5F000000, 0x5EFFFFFF, 0x4F000000, 0x4EFFFFFF,
             0x42C80000, 0x3A83126F, 0x461C3C00, 0x47C34FF3, 0x49742400, 0x497423F0]
BOUND_F64 = [0, 1 << 63, 0x3FF0000000000000, 0x3FF8000000000000, 0x3FB999999999999A, 1, 0x000FFFFFFFFFFFFF, 0x0010000000000000, 0x7FEFFFFFFFFFFFFF, 0x7FF0000000000000,
             0xFFF0000000000000, 0x7FF8000000000000, 0x416312D000000000, 0x416312CFFFFFFFFF, 0x416312D000000001, 0x3EE4F8B588E368F1, 0x3EE4F8B588E368F0, 0x3EE4F8B588E368F2,
             0x4170000000000000, 0x41F0000000000000, 0x4340000000000000, 0x43E0000000000000, 0x43F0000000000000, 0x400921FB54442D18, 0x3FD5555555555555, 0x40C3880000000000,
             0x3FEFFFFFFFFFFFFF, 0x4023FFFFFFFFFFFF, 0x412E847FFFFFFFFF, 0x54B249AD2594C37D, 0x2B2BFF2EE48E0530, 0x7E37E43C8800759C, 0x01A56E1FC2F8F359, 0x47EFFFFFE0000000]
RAW_JSON = [b"[1,2]", b'"x"', b"true", b'{"a":null}', b"1.5", b"null", b"[]", b"-0", b'"\\u00e9"']


def gen_doc_term(rng, depth=0, maxdepth=4, budget=None, raw="json", top=True):
    """tree with 'L' (linked string) and 'R' nodes, object members (key, value, linked?)"""
    budget = budget if budget is not None else [rng.choice([1, 4, 10, 25])]
    budget[0] -= 1
    r = rng.random()
    if depth >= maxdepth or budget[0] <= 0:
        r *= 0.72
    if r < 0.05:
        return ("N",)
    if r < 0.1:
        return ("B", rng.random() < 0.5)
    if r < 0.2:
        return ("U", rng.choice(BOUND_U) if rng.random() < 0.7 else rng.getrandbits(rng.choice([8, 16, 32, 64])))
    if r < 0.3:
        return ("I", rng.choice(BOUND_I) if rng.random() < 0.7 else rng.randrange(-2 ** 63, 2 ** 63) >> rng.choice([0, 16, 32, 48]))
    if r < 0.4:
        return ("f", rng.choice(BOUND_F32) if rng.random() < 0.5 else rng.getrandbits(32))
    if r < 0.5:
        c = rng.random()
        if c < 0.45:
            return ("d", rng.choice(BOUND_F64))
        if c < 0.6:
            x = struct.unpack("<f", struct.pack("<I", rng.getrandbits(32)))[0]
            if x == x:
                return ("d", double_bits(x))
        if c < 0.8:
            return ("d", double_bits(rng.choice([1, -1]) * rng.random() * 10.0 ** rng.randrange(-20, 25)))
        return ("d", rng.getrandbits(64))
    if r < 0.64:
        n = rng.choice([0, 1, 2, 3, 5, 8, 31, 32])
        s = bytes(rng.choice([0x61, 0x7A, 0x30, 0x20, 0x22, 0x5C, 0x2F, 0x08, 0x0C, 0x0A, 0x0D, 0x09, 0x00, 0x01, 0x1F, 0x7F, 0x80, 0xC3, 0xA9, 0xFF, 0x27]) if rng.random() < 0.8 else rng.getrandbits(8) for _ in range(n))
        if rng.random() < 0.25:
            return ("L", s.replace(b"\x00", b"0"))
        return ("S", s)
    if r < 0.72 and raw:
        if raw == "json":
            return ("R", rng.choice(RAW_JSON))
        import mpack
        c = rng.random()
        if c < 0.3:
            return ("Bn", bytes(rng.getrandbits(8) for _ in range(rng.choice([0, 1, 2, 3, 255, 256, 17]))))
        if c < 0.6:
            return ("X", rng.getrandbits(8), bytes(rng.getrandbits(8) for _ in range(rng.choice([0, 1, 2, 3, 4, 5, 8, 15, 16, 17, 255, 256]))))
        v = mpack.gen_value(rng, depth=3, maxdepth=3)
        return ("R", mpack.encode(v, rng))
    if r < 0.86:
        n = rng.choice([0, 1, 2, 3, 3, 15, 16, 17] if rng.random() < 0.15 else [0, 1, 2, 3])
        return ("A", [gen_doc_term(rng, depth + 1, maxdepth, budget, raw, False) for _ in range(n)])
    n = rng.choice([0, 1, 2, 3, 15, 16, 17] if rng.random() < 0.1 else [0, 1, 2, 3])
    ms = []
    seen = set()
    for i in range(n):
        k = bytes(rng.choice([0x61, 0x62, 0x22, 0x5C, 0x0A, 0x00, 0xC3, 0xFF, 0x30]) for _ in range(rng.choice([0, 1, 1, 2, 3]))) if n < 10 else b"k%d" % i
        linked = rng.random() < 0.2
        if linked:
            k = k.replace(b"\x00", b"n")
        while k in seen:
            k += b"%d" % i
        seen.add(k)
        ms.append((k, gen_doc_term(rng, depth + 1, maxdepth, budget, raw, False), linked))
    return ("O", ms)


def stored_tree(t):
    """the tree the library stores for a term: L -> S, double narrowed to float when lossless, members without flags"""
    k = t[0]
    if k == "L":
        return ("S", t[1])
    if k == "Bn":
        import mpack
        return ("R", mpack.encode(("bin", t[1])))
    if k == "X":
        import mpack
        return ("R", mpack.encode(("ext", t[1] % 256, t[2])))
    if k == "d":
        v = f64_value(t[1])
        if v == "nan":
            return t
        x = struct.unpack("<d", struct.pack("<Q", t[1]))[0]
        try:
            f = struct.unpack("<f", struct.pack("<f", x))[0]
        except OverflowError:
            return t
        if f == x:
            return ("f", float_bits(f) if not (x == 0 and t[1] >> 63) else 0x80000000)
        return t
    if k == "A":
        return ("A", [stored_tree(x) for x in t[1]])
    if k == "O":
        return ("O", [(m[0], stored_tree(m[1])) for m in t[1]])
    return t


def strip_json_ws(text):
    out = bytearray()
    ins = False
    esc = False
    for c in text:
        if ins:
            out.append(c)
            if esc:
                esc = False
            elif c == 0x5C:
                esc = True
            elif c == 0x22:
                ins = False
        else:
            if c in b" \t\r\n":
                continue
            out.append(c)
            if c == 0x22:
                ins = True
    return bytes(out)


def py_json_parse(text):
    """strict RFC 8259 parse with Python's json; strings come back as bytes (latin-1 transport), numbers as int or ('Q', Fraction, sig)"""
    import json as _json

    def bad_const(x):
        raise ValueError("constant " + x)

    def conv(o):
        if o is None:
            return ("N",)
        if o is True or o is False:
            return ("B", o)
        if isinstance(o, int):
            return ("Z", o)
        if isinstance(o, tuple):
            return o
        if isinstance(o, str):
            return ("S", o.encode("latin-1", errors="surrogatepass") if all(ord(ch) < 256 for ch in o) else o.encode("utf-16", errors="surrogatepass"))
        if isinstance(o, list):
            if o and isinstance(o[0], tuple) and o[0][0] == "__pairs__":
                return ("O", [(k.encode("latin-1") if all(ord(ch) < 256 for ch in k) else k.encode("utf-16", errors="surrogatepass"), conv(v)) for k, v in o[0][1]])
            return ("A", [conv(x) for x in o])
        raise ValueError(o)
    obj = _json.loads(text.decode("latin-1"), parse_constant=bad_const, parse_float=lambda s: ("Q", lit_value(s), sig_digits(s)),
                      object_pairs_hook=lambda ps: [("__pairs__", ps)])
    return conv(obj)


def parse_term(s):
    """term syntax (with L nodes and l-prefixed keys) -> tree"""
    pos = 0

    def hexrun():
        nonlocal pos
        st = pos
        while pos < len(s) and s[pos] in "0123456789abcdef":
            pos += 1
        return bytes.fromhex(s[st:pos])

    def val():
        nonlocal pos
        c = s[pos]
        pos += 1
        if c == "N":
            return ("N",)
        if c in "TF":
            return ("B", c == "T")
        if c in "UI":
            st = pos
            if s[pos:pos + 1] == "-":
                pos += 1
            while pos < len(s) and s[pos].isdigit():
                pos += 1
            return (c, int(s[st:pos]))
        if c == "f":
            pos += 8
            return ("f", int(s[pos - 8:pos], 16))
        if c == "d":
            pos += 16
            return ("d", int(s[pos - 16:pos], 16))
        if c in "SLR":
            return (c, hexrun())
        if c == "[":
            xs = []
            if s[pos] == "]":
                pos += 1
                return ("A", xs)
            while True:
                xs.append(val())
                if s[pos] == ",":
                    pos += 1
                    continue
                pos += 1
                return ("A", xs)
        if c == "{":
            ms = []
            if s[pos] == "}":
                pos += 1
                return ("O", ms)
            while True:
                linked = s[pos] == "l"
                if linked:
                    pos += 1
                k = hexrun()
                pos += 1
                ms.append((k, val(), linked))
                if s[pos] == ",":
                    pos += 1
                    continue
                pos += 1
                return ("O", ms)
        raise ValueError(s)
    return val()
