"""API histories: generator + plain ordered-tree machine (the independent spec of C04, DESIGN.md appendix B).
Every history starts with `reset` and `geo`; after each operation an `obs` line observes all documents and live references.
The tree machine predicts every observation in the absence of allocation failure and aliasing."""
import struct

LIT = [b"lit0", b"lit1", b"", b"a", b"key", b"123", b"-4.5e2"]
KEYS = [b"a", b"b", b"key", b"", b"a\x00b", b"lit0", b"ab"]
STR_COPY_KINDS = ["sc", "sv", "sp", "sj"]


def _s(b):
    return ("S", b, [])


# deserialization into a value inside a document: (format, input bytes, snapshot of the value it denotes)
DESER = [
    ("j", b'[1,"abc",{"k":2,"abc":-3}]', ("A", None, [("U", 1, []), _s(b"abc"), ("O", None, [(b"k", ("U", 2, [])), (b"abc", ("I", -3, []))])])),
    ("j", b'{"a":"lit0","b":[true,null],"a":1.5}', ("O", None, [(b"a", ("f", 0x3FC00000, [])), (b"b", ("A", None, [("T", None, []), ("N", None, [])]))])),
    ("j", b' "hi" ', _s(b"hi")),
    ("j", b"42", ("U", 42, [])),
    ("j", b'{"key":{"key":"key"}}', ("O", None, [(b"key", ("O", None, [(b"key", _s(b"key"))]))])),
    ("j", b"[]", ("A", None, [])),
    # strings and keys with an embedded NUL whose prefix is already stored: look-ups must use the full length
    ("j", b'["a","a\\u0000b","a\\u0000","a"]', ("A", None, [_s(b"a"), _s(b"a\x00b"), _s(b"a\x00"), _s(b"a")])),
    ("j", b'{"x":1,"x\\u0000y":2,"x\\u0000":[3],"x":4}', ("O", None, [(b"x", ("U", 4, [])), (b"x\x00y", ("U", 2, [])), (b"x\x00", ("A", None, [("U", 3, [])]))])),
    ("j", b"[[],{},[[18446744073709551615]]]", ("A", None, [("A", None, []), ("O", None, []), ("A", None, [("A", None, [("U", 18446744073709551615, [])])])])),
    ("m", bytes.fromhex("9301a361626382a16b02a3616263fd"), ("A", None, [("I", 1, []), _s(b"abc"), ("O", None, [(b"k", ("I", 2, [])), (b"abc", ("I", -3, []))])])),
    ("m", bytes.fromhex("a26869"), _s(b"hi")),
    ("m", bytes.fromhex("cd0100"), ("U", 256, [])),
    ("m", bytes.fromhex("81a36b657981a36b6579a36b6579"), ("O", None, [(b"key", ("O", None, [(b"key", _s(b"key"))]))])),
    ("m", bytes.fromhex("90"), ("A", None, [])),
    ("m", bytes.fromhex("92c40201029180"), ("A", None, [("R", bytes.fromhex("c4020102"), []), ("A", None, [("O", None, [])])])),
]
# inputs that are not accepted (no prediction: compared with the model only)
DESER_BAD = [("j", b'[1,"ab'), ("j", b'{"a":1 "b"}'), ("j", b"[[[[[[[[[[[[1]]]]]]]]]]]]"), ("j", b""), ("m", bytes.fromhex("93a2")), ("m", bytes.fromhex("c1")), ("m", bytes.fromhex("81c001")), ("m", b"")]


class Node:
    __slots__ = ("kind", "val", "items", "alive", "doc")

    def __init__(s, doc):
        s.kind = "N"; s.val = None; s.items = []; s.alive = True; s.doc = doc


class Doc:
    def __init__(s):
        s.root = Node(s)


def children(n):
    if n.kind == "A":
        return list(n.items)
    if n.kind == "O":
        return [v for _, v in n.items]
    return []


def kill(n):
    for c in children(n):
        c.alive = False
        kill(c)


def clear(n):
    kill(n); n.kind = "N"; n.val = None; n.items = []


def f32ok(bits64):
    d = struct.unpack(">d", struct.pack(">Q", bits64))[0]
    if d != d:
        return None
    try:
        f = struct.unpack(">f", struct.pack(">f", d))[0]
    except OverflowError:
        return None
    if f == d:
        return struct.unpack(">I", struct.pack(">f", d))[0]
    return None


def snapshot(n):
    if n.kind == "A":
        return ("A", None, [snapshot(c) for c in n.items])
    if n.kind == "O":
        return ("O", None, [(k, snapshot(v)) for k, v in n.items])
    return (n.kind, n.val, [])


def build(n, snap):
    k, v, items = snap
    if k == "A":
        n.kind = "A"; n.items = []
        for s in items:
            c = Node(n.doc); build(c, s); n.items.append(c)
    elif k == "O":
        n.kind = "O"; n.items = []
        for key, s in items:          # copying goes through operator[]: repeated keys merge
            tgt = None
            for kk, vv in n.items:
                if kk == key:
                    tgt = vv
                    break
            if tgt is None:
                tgt = Node(n.doc); n.items.append((key, tgt))
            else:
                clear(tgt)
            build(tgt, s)
    elif k == "d":
        f = f32ok(v)
        if f is not None:
            n.kind = "f"; n.val = f
        else:
            n.kind = "d"; n.val = v
    else:
        n.kind = k; n.val = v


def setval(n, kind, arg, refs, docs):
    if kind in ("ref", "doc"):
        src = refs[int(arg)][0] if kind == "ref" else docs[int(arg)].root
        snap = snapshot(src) if src is not None else ("N", None, [])
        clear(n); build(n, snap); return True
    clear(n)
    if kind == "null":
        return True
    if kind == "bool":
        n.kind = "T" if arg == "1" else "F"; return True
    if kind in ("i", "i8"):
        n.kind = "I"; n.val = int(arg); return True
    if kind in ("u", "u16"):
        n.kind = "U"; n.val = int(arg); return True
    if kind == "f":
        n.kind = "f"; n.val = int(arg, 16); return True
    if kind == "d":
        b = int(arg, 16); f = f32ok(b)
        if f is not None:
            n.kind = "f"; n.val = f
        else:
            n.kind = "d"; n.val = b
        return True
    if kind == "sl":
        n.kind = "S"; n.val = LIT[int(arg)]; return True
    if kind in ("sc", "sv", "sj", "sva"):
        n.kind = "S"; n.val = bytes.fromhex(arg) if arg != "-" else b""; return True
    if kind in ("sp", "sjl"):
        v = bytes.fromhex(arg) if arg != "-" else b""
        n.kind = "S"; n.val = v.split(b"\x00")[0]; return True
    if kind == "raw":
        n.kind = "R"; n.val = bytes.fromhex(arg) if arg != "-" else b""; return True
    raise Exception(kind)


def show(n):
    if n is None:
        return "?"
    k = n.kind
    if k in "NTF":
        return k
    if k == "U":
        return "U%d" % n.val
    if k == "I":
        return "I%d" % n.val
    if k == "f":
        return "f%08x" % n.val
    if k == "d":
        return "d%016x" % n.val
    if k == "S":
        return "S" + n.val.hex()
    if k == "R":
        return "R" + n.val.hex()
    if k == "A":
        return "[" + ",".join(show(c) for c in n.items) + "]"
    if k == "O":
        return "{" + ",".join(key.hex() + ":" + show(v) for key, v in n.items) + "}"


def size(n):
    return len(n.items) if n is not None and n.kind in "AO" else 0


def nesting(n):
    if n is None or n.kind not in "AO":
        return 0
    return 1 + max([nesting(c) for c in children(n)] + [0])


def getmember(n, key):
    if n is None or n.kind != "O":
        return None
    for k, v in n.items:
        if k == key:
            return v
    return None


def getoradd_member(n, key):
    if n is None:
        return None
    if n.kind == "N":
        n.kind = "O"; n.items = []
    if n.kind != "O":
        return None
    m = getmember(n, key)
    if m is None:
        m = Node(n.doc); n.items.append((key, m))
    return m


def getoradd_elem(n, i):
    if n is None:
        return None
    if n.kind == "N":
        n.kind = "A"; n.items = []
    if n.kind != "A":
        return None
    while len(n.items) <= i:
        n.items.append(Node(n.doc))
    return n.items[i]


DEAD = Node(None)
DEAD.alive = False


def gen_history(rnd, nops, geo, strkind=None, ops_weights=None, obs_every=1, nul_ok=True, small_ints=False):
    """returns (ops, exp): operation lines and the expected 'out' part of each (None = not predicted)"""
    ops, exp = [], []
    docs = [Doc() for _ in range(3)]
    refs = [(None, None)] * 10

    def emit(op, e):
        ops.append(op); exp.append(e)
    emit("reset", "")
    emit("geo %d %d %d %d %d" % geo[:5], "")

    def alive(i):
        n, d = refs[i]
        return n is None or n.alive

    def usable():
        return [i for i in range(10) if alive(i)]

    def subtree(n):
        out = [n]
        for c in children(n):
            out += subtree(c)
        return out

    def overlaps(a, b):
        if a is None or b is None:
            return False
        if a.doc is not b.doc:
            return False
        return (b in subtree(a)) or (a in subtree(b))

    def strk(b=b""):
        if strkind:
            # kind-comparison histories (C14): zero-terminated source kinds cannot carry a NUL, those strings go through std::string
            return "sc" if (strkind in ("sp", "sjl") and b"\x00" in b) else strkind
        return rnd.choice(STR_COPY_KINDS)

    def pick(U, kind=None):
        """a usable reference, preferably one that designates a container of the wanted kind"""
        if kind and rnd.random() < 0.75:
            c = [i for i in U if refs[i][0] is not None and refs[i][0].alive and refs[i][0].kind in kind and (refs[i][0].items or rnd.random() < 0.3)]
            if c:
                return rnd.choice(c)
        return rnd.choice(U)

    def pick_key(n):
        if n is not None and n.kind == "O" and n.items and rnd.random() < 0.75:
            ks = [k for k, _ in n.items]
            return ks[-1] if rnd.random() < 0.4 else rnd.choice(ks)
        return rnd.choice(KEYS)

    def pick_index(n):
        if n is not None and n.kind == "A" and n.items and rnd.random() < 0.8:
            return rnd.choice([len(n.items) - 1, 0, rnd.randrange(len(n.items))])
        return rnd.choice([0, 1, 2, 5])

    def randval(dst_node):
        k = rnd.choice(["null", "bool", "i", "u", "i8", "u16", "f", "d", "d", "sl", "sc", "sc", "sc", "raw", "ref", "ref", "doc", "sjl"])
        if k == "null":
            return k, "-"
        if k == "bool":
            return k, rnd.choice("01")
        if k == "i":
            # small_ints: builds without 64-bit integer storage (ARDUINOJSON_USE_LONG_LONG=0) agree with the default model on 32-bit values only
            return k, str(rnd.choice([0, -1, 5, 2147483647, -2147483648] if small_ints else [0, -1, 5, 2147483647, 2147483648, -2147483648, -2147483649, 9223372036854775807, -9223372036854775808]))
        if k == "u":
            return k, str(rnd.choice([0, 1, 4294967295] if small_ints else [0, 1, 4294967295, 4294967296, 18446744073709551615]))
        if k == "i8":
            return k, str(rnd.choice([-128, -1, 0, 127]))
        if k == "u16":
            return k, str(rnd.choice([0, 65535]))
        if k == "f":
            return k, "%08x" % rnd.choice([0, 0x3F800000, 0x40490FDB, 0x7F7FFFFF, 1, 0x80000000, 0x4B800000])
        if k == "d":
            return k, "%016x" % rnd.choice([0, 0x3FF0000000000000, 0x3FB999999999999A, 0x400921FB54442D18, 0x7FEFFFFFFFFFFFFF, 0x4170000000000000, 0x4170000010000000, 1 << 63])
        if k == "sl":
            return k, str(rnd.randrange(len(LIT)))
        if k == "sc":
            b = rnd.choice([b"hi", b"", b"a\x00b" if nul_ok else b"a0b", b"lit0", b"\xc3\xa9", b"123", b"x" * 40, b"-4.5e2", b"key", b"\xff\x80", b"a", b"a\x00" if nul_ok else b"a0", b"12"])
            return strk(b), (b.hex() or "-")
        if k == "sjl":
            return k, rnd.choice([b"hi", b"lit0", b"123", b"zz\xc3\xa9"]).hex()
        if k == "raw":
            return k, rnd.choice([b"[1,2]", b"{}", b"1"]).hex()
        if k == "ref":
            cands = [i for i in usable() if not overlaps(refs[i][0], dst_node)]
            if not cands:
                return "null", "-"
            return k, str(rnd.choice(cands))
        if k == "doc":
            cands = [i for i in range(3) if not overlaps(docs[i].root, dst_node)]
            if not cands:
                return "null", "-"
            return k, str(rnd.choice(cands))
    void_kinds = ("null", "sl", "sc", "sv", "sva", "sp", "sj", "sjl", "raw", "ref", "doc")
    choices = ops_weights or ["root", "root", "mem", "memw", "elem", "elemw", "set", "set", "setm", "setm", "sete", "add", "add", "addv", "toarr", "toobj", "remi", "remk",
                              "remi", "remk", "setm", "add", "memw", "elemw", "clear", "cleardoc", "copydoc", "swapdoc", "shrink", "deser", "deser", "rd2", "rd2"]
    count = 0
    for _ in range(nops):
        op = rnd.choice(choices)
        r = rnd.randrange(10)
        U = usable()
        if op == "root":
            d = rnd.randrange(3); refs[r] = (docs[d].root, docs[d]); emit("root %d %d" % (r, d), "")
        elif op in ("mem", "memw") and U:
            r2 = pick(U, "ON"); n2, d2 = refs[r2]; key = pick_key(n2) if rnd.random() < 0.6 else rnd.choice(KEYS)
            if op == "mem":
                refs[r] = (getmember(n2, key), d2)
            else:
                m = getoradd_member(n2, key)
                if m is not None:
                    clear(m)
                refs[r] = (m, d2)
            emit("%s %d %d %s" % (op, r, r2, key.hex() or "-"), "")
        elif op in ("elem", "elemw") and U:
            r2 = pick(U, "AN"); n2, d2 = refs[r2]; i = pick_index(n2) if rnd.random() < 0.6 else rnd.choice([0, 0, 1, 2, 4])
            if op == "elem":
                refs[r] = ((n2.items[i] if (n2 is not None and n2.kind == "A" and i < len(n2.items)) else None), d2)
            else:
                m = getoradd_elem(n2, i)
                if m is not None:
                    clear(m)
                refs[r] = (m, d2)
            emit("%s %d %d %d" % (op, r, r2, i), "")
        elif op == "set" and U:
            r = rnd.choice(U); n, d = refs[r]; k, a = randval(n)
            if n is None:
                res = (d is not None) if k in void_kinds else False
            else:
                res = setval(n, k, a, refs, docs)
            emit("set %d %s %s" % (r, k, a), "1" if res else "0")
        elif op == "setm" and U:
            r = pick(U, "ON"); n, d = refs[r]; key = rnd.choice(KEYS)
            k, a = rnd.choice([("null", "-"), ("i", "42"), ("sc", "7a7a"), ("sl", "1"), ("d", "3fb999999999999a")])
            m = getoradd_member(n, key)
            if m is None:
                res = (d is not None) if k in ("null", "sc", "sl") else False
            else:
                res = setval(m, k, a, refs, docs)
            emit("setm %d %s %s %s" % (r, key.hex() or "-", k, a), "1" if res else "0")
        elif op == "sete" and U:
            r = pick(U, "AN"); n, d = refs[r]; i = rnd.choice([0, 1, 3])
            k, a = rnd.choice([("null", "-"), ("i", "-7"), ("sc", "7171")])
            m = getoradd_elem(n, i)
            if m is None:
                res = (d is not None) if k in ("null", "sc") else False
            else:
                res = setval(m, k, a, refs, docs)
            emit("sete %d %d %s %s" % (r, i, k, a), "1" if res else "0")
        elif op == "add" and U:
            r = pick(U, "AN"); n, d = refs[r]; k, a = randval(n)
            if n is None:
                res = False
            else:
                if n.kind == "N":
                    n.kind = "A"; n.items = []
                if n.kind != "A":
                    res = False
                else:
                    c = Node(n.doc); setval(c, k, a, refs, docs); n.items.append(c); res = True
            emit("add %d %s %s" % (r, k, a), "1" if res else "0")
        elif op == "addv" and U:
            r2 = pick(U, "AN"); n2, d2 = refs[r2]
            if n2 is None:
                refs[r] = (None, d2)
            else:
                if n2.kind == "N":
                    n2.kind = "A"; n2.items = []
                if n2.kind != "A":
                    refs[r] = (None, d2)
                else:
                    c = Node(n2.doc); n2.items.append(c); refs[r] = (c, d2)
            emit("addv %d %d" % (r, r2), "")
        elif op in ("toarr", "toobj") and U:
            r2 = rnd.choice(U); n2, d2 = refs[r2]
            if n2 is not None:
                clear(n2); n2.kind = "A" if op == "toarr" else "O"; n2.items = []
            refs[r] = (n2, d2); emit("%s %d %d" % (op, r, r2), "")
        elif op == "remi" and U:
            r = pick(U, "A"); n, d = refs[r]; i = pick_index(n)
            if n is not None and n.kind == "A" and i < len(n.items):
                c = n.items.pop(i); c.alive = False; kill(c)
            emit("remi %d %d" % (r, i), "")
        elif op == "remk" and U:
            r = pick(U, "O"); n, d = refs[r]; key = pick_key(n)
            if n is not None and n.kind == "O":
                for j, (k, v) in enumerate(n.items):
                    if k == key:
                        n.items.pop(j); v.alive = False; kill(v)
                        break
            emit("remk %d %s" % (r, key.hex() or "-"), "")
        elif op == "clear" and U:
            r = rnd.choice(U); n, d = refs[r]
            if n is not None:
                clear(n)
            emit("clear %d" % r, "")
        elif op == "cleardoc":
            d = rnd.randrange(3); clear(docs[d].root); emit("cleardoc %d" % d, "")
        elif op == "copydoc":
            d = rnd.randrange(3); e = rnd.randrange(3); snap = snapshot(docs[e].root); clear(docs[d].root); build(docs[d].root, snap); emit("copydoc %d %d" % (d, e), "")
        elif op == "swapdoc":
            d = rnd.randrange(3); e = rnd.randrange(3)
            if d != e:
                sd = snapshot(docs[d].root); se = snapshot(docs[e].root); clear(docs[d].root); clear(docs[e].root); build(docs[d].root, se); build(docs[e].root, sd)
            emit("swapdoc %d %d" % (d, e), "")
        elif op == "rd2" and U:
            r = pick(U, "OA")
            def sub_():
                return ("m %s" % (rnd.choice(KEYS).hex() or "-")) if rnd.random() < 0.6 else ("e %d" % rnd.choice([0, 1, 3]))
            emit("rd2 %d %s %s" % (r, sub_(), sub_()), None)
        elif op == "deser" and U:
            r = rnd.choice(U); n, d = refs[r]
            fmt, data, snap = rnd.choice([x for x in DESER if not (small_ints and b"18446744073709551615" in x[1])])
            if n is None:
                emit("deser%s %d 10 %s" % (fmt, r, data.hex()), "NoMemory")
            else:
                clear(n); build(n, snap)
                emit("deser%s %d 10 %s" % (fmt, r, data.hex()), "Ok")
        elif op == "shrink":
            d = rnd.randrange(3)
            for i in range(10):        # a reallocating shrink moves the last pool: references other than the root are dropped
                n, _ = refs[i]
                if n is not None and n.doc is docs[d] and n is not docs[d].root:
                    refs[i] = (DEAD, None)
            emit("shrink %d" % d, "")
        else:
            continue
        count += 1
        if count % obs_every == 0:
            live = [i for i in range(10) if alive(i)]
            s = ""
            for dd in docs:
                s += "%s n=%d z=%d o=0 ; " % (show(dd.root), nesting(dd.root), size(dd.root))
            for i in live:
                n = refs[i][0]
                s += "r%d=%s z=%d n=%d " % (i, show(n), size(n), nesting(n))
            emit("obs " + " ".join(map(str, live)), s)
            if live and rnd.random() < 0.3:
                emit("obsx %d" % rnd.choice(live), None)
    emit("cleardoc 0", ""); emit("cleardoc 1", ""); emit("cleardoc 2", "")
    emit("ledger", "L0=0 L1=0 L2=0 ")
    return ops, exp


# ------------------------------------------------------------------------------------------------ histories under allocation failure
import subprocess, re
import gens


class ModelSession:
    """talks to the compiled model driver line by line (used to learn which references are still usable after a failure)"""

    def __init__(self, driver):
        self.p = subprocess.Popen([driver], stdin=subprocess.PIPE, stdout=subprocess.PIPE, text=True, bufsize=1)

    def send(self, line):
        self.p.stdin.write(line + "\n")
        self.p.stdin.flush()
        return self.p.stdout.readline().rstrip("\n")

    def close(self):
        try:
            self.p.stdin.close()
            self.p.wait(timeout=5)
        except Exception:
            self.p.kill()


def gen_fault_history(rnd, nops, geo, sess):
    """operations chosen online; only references the model reports as usable are used; copies stay between different documents"""
    ops = []

    def do(op):
        ops.append(op)
        return sess.send(op)
    do("reset")
    do("geo %d %d %d %d %d" % geo[:5])
    armed = False
    fault_doc = rnd.randrange(3)
    arm_at = rnd.randrange(2, max(3, nops // 2))
    disarm_at = arm_at + rnd.choice([2, 5, 10, 25])
    mode = rnd.choice(["single", "single", "from", "multi"])
    trees = {}          # last observed tree of each reference (from the model's obs output)

    def kkey(r):
        t = trees.get(r)
        if t and t[0] == "O" and t[1] and rnd.random() < 0.75:
            ks = [k for k, _ in t[1]]
            return ks[-1] if rnd.random() < 0.4 else rnd.choice(ks)
        return rnd.choice(KEYS)

    def kidx(r):
        t = trees.get(r)
        if t and t[0] == "A" and t[1] and rnd.random() < 0.8:
            return rnd.choice([len(t[1]) - 1, 0, rnd.randrange(len(t[1]))])
        return rnd.choice([0, 1, 2, 5])

    def prefer(cands, kinds):
        c = [i for i in cands if trees.get(i) and trees[i][0] in kinds]
        return rnd.choice(c) if c and rnd.random() < 0.7 else rnd.choice(cands)
    for step in range(nops):
        if step == arm_at:
            if mode == "single":
                do("failat %d %d" % (fault_doc, rnd.choice([1, 1, 2, 2, 3, 4, 6])))
            elif mode == "from":
                do("failfrom %d %d" % (fault_doc, rnd.choice([1, 2, 3, 5])))
            else:
                for k in rnd.sample(range(1, 14), 3):
                    do("failat %d %d" % (fault_doc, k))
        if step == disarm_at:
            do("nofail %d" % fault_doc)
            do("obs")
            do("cleardoc %d" % fault_doc)       # after clear() the document works normally again
        live = sess.send("liveq").split(" ", 1)[1].rsplit("|", 1)[0].split()
        usable = [i for i, s in enumerate(live) if s != "x"]
        bound = [i for i, s in enumerate(live) if s[0] in "RS"]
        docof = {i: int(s[1:]) for i, s in enumerate(live) if s[0] in "RSu" and len(s) > 1}
        op = rnd.choice(["root", "root", "mem", "memw", "memw", "elem", "elemw", "set", "set", "set", "setm", "setm", "setm", "sete", "add", "add", "add", "add", "addv", "toarr", "toobj",
                         "remi", "remi", "remk", "remk", "clear", "cleardoc", "shrink", "deser", "deser", "deser"])
        r = rnd.randrange(10)
        if op == "deser" and usable:
            fmt, data = rnd.choice([(x[0], x[1]) for x in DESER] * 3 + DESER_BAD)
            do("deser%s %d %d %s" % (fmt, rnd.choice(usable), rnd.choice([10, 10, 2]), data.hex() or "-"))
        elif op == "root":
            do("root %d %d" % (r, rnd.choice([fault_doc, fault_doc, rnd.randrange(3)])))
        elif op in ("mem", "memw") and usable:
            r2 = prefer(usable, "ON")
            do("%s %d %d %s" % (op, r, r2, (kkey(r2) if rnd.random() < 0.5 else rnd.choice(KEYS)).hex() or "-"))
        elif op in ("elem", "elemw") and usable:
            r2 = prefer(usable, "AN")
            do("%s %d %d %d" % (op, r, r2, kidx(r2) if rnd.random() < 0.5 else rnd.choice([0, 0, 1, 2, 4])))
        elif op in ("set", "add") and usable:
            r = prefer(usable, "AN") if op == "add" else rnd.choice(usable)
            # copies of whole values (preferably containers) are frequent: a copy makes many allocations, so failures land inside it
            k = rnd.choice(["null", "bool", "i", "i", "u", "f", "d", "d", "sl", "sc", "sc", "sc", "sv", "raw", "ref", "ref", "ref", "ref", "doc", "doc"])
            a = "-"
            if k == "bool":
                a = rnd.choice("01")
            elif k == "i":
                a = str(rnd.choice([0, -1, 5, 2147483648, -2147483649, 9223372036854775807]))
            elif k == "u":
                a = str(rnd.choice([1, 4294967296, 18446744073709551615]))
            elif k == "f":
                a = "%08x" % rnd.choice([0x3F800000, 0x40490FDB])
            elif k == "d":
                a = "%016x" % rnd.choice([0x3FF0000000000000, 0x3FB999999999999A, 0x400921FB54442D18])
            elif k == "sl":
                a = str(rnd.randrange(len(LIT)))
            elif k in ("sc", "sv"):
                a = rnd.choice([b"hi", b"", b"a\x00b", b"lit0", b"123", b"x" * 40, b"key", b"another string"]).hex() or "-"
                if geo[4] <= 255 and rnd.random() < 0.25:
                    # the string length limit is a failure of its own kind: no allocator call, the document is flagged
                    a = (b"L" * rnd.choice([geo[4] - 1, geo[4], geo[4] + 1, geo[4] + 1, geo[4] + 40])).hex()
            elif k == "raw":
                a = rnd.choice([b"[1,2]", b"{}"]).hex()
            elif k == "ref":
                # copies only between different documents (aliasing is excluded here)
                c = [i for i in bound if docof.get(i) is not None and docof.get(i) != docof.get(r)]
                if not c or docof.get(r) is None:
                    k, a = "null", "-"
                else:
                    a = str(prefer(c, "AO"))
            elif k == "doc":
                c = [d for d in range(3) if d != docof.get(r)]
                if docof.get(r) is None:
                    k, a = "null", "-"
                else:
                    a = str(rnd.choice(c))
            do("%s %d %s %s" % (op, r, k, a))
        elif op == "setm" and usable:
            k, a = rnd.choice([("null", "-"), ("i", "42"), ("sc", "7a7a"), ("sl", "1"), ("d", "3fb999999999999a"), ("sc", (b"y" * 33).hex())])
            key = rnd.choice(KEYS)
            if geo[4] <= 255 and rnd.random() < 0.15:
                key = b"K" * rnd.choice([geo[4], geo[4] + 1])        # a key at / beyond the longest storable length
            do("setm %d %s %s %s" % (prefer(usable, "ON"), key.hex() or "-", k, a))
        elif op == "sete" and usable:
            k, a = rnd.choice([("null", "-"), ("i", "-7"), ("sc", "7171")])
            do("sete %d %d %s %s" % (prefer(usable, "AN"), rnd.choice([0, 1, 3, 6]), k, a))
        elif op == "addv" and usable:
            do("addv %d %d" % (r, prefer(usable, "AN")))
        elif op in ("toarr", "toobj") and usable:
            do("%s %d %d" % (op, r, rnd.choice(usable)))
        elif op == "remi" and usable:
            r2 = prefer(usable, "A")
            do("remi %d %d" % (r2, kidx(r2)))
        elif op == "remk" and usable:
            r2 = prefer(usable, "O")
            do("remk %d %s" % (r2, kkey(r2).hex() or "-"))
        elif op == "clear" and usable:
            do("clear %d" % rnd.choice(usable))
        elif op == "cleardoc":
            do("cleardoc %d" % rnd.randrange(3))
        elif op == "shrink":
            d = rnd.randrange(3)
            do("shrink %d" % d)
            for i, s in enumerate(live):          # the last pool may move: rebind every slot reference of that document
                if s == "S%d" % d:
                    do("root %d %d" % (i, d))
        else:
            continue
        live = sess.send("liveq").split(" ", 1)[1].rsplit("|", 1)[0].split()
        res = do("obs " + " ".join(str(i) for i, s in enumerate(live) if s != "x"))
        trees = {}
        for m in re.finditer(r"r(\d+)=(\S+) z=", res):
            if m.group(2) != "?":
                try:
                    trees[int(m.group(1))] = gens.parse_tree(m.group(2))
                except Exception:
                    pass
        if rnd.random() < 0.25:
            c = [i for i, s in enumerate(live) if s != "x"]
            if c:
                do("obsx %d" % rnd.choice(c))
        if rnd.random() < 0.1:
            do("hser %d" % rnd.randrange(3))
    for d in range(3):
        do("nofail %d" % d)
        do("cleardoc %d" % d)
    do("ledger")
    return ops
