"""Independent MessagePack encoder (arbitrary legal width choices) and decoder, written from the format specification.
Used as generator and as the Python-side oracle for C08/C09/C07 (the Lean-side oracle is AJ/Spec/MSpec.lean)."""
import struct
from fractions import Fraction


class Incomplete(Exception):
    pass


class Invalid(Exception):
    pass


def decode(b, pos=0, depth=0):
    """returns (value, newpos). value: ('nil',) ('bool',b) ('int',n) ('f32',bits) ('f64',bits) ('str',bytes) ('bin',bytes)
    ('ext',type,bytes) ('arr',[..]) ('map',[(k,v)..])"""
    def take(n):
        nonlocal pos
        if pos + n > len(b):
            raise Incomplete()
        r = b[pos:pos + n]
        pos += n
        return r
    c = take(1)[0]
    if c <= 0x7F:
        return ("int", c), pos
    if c <= 0x8F:
        return _map(b, pos, c & 15, depth)
    if c <= 0x9F:
        return _arr(b, pos, c & 15, depth)
    if c <= 0xBF:
        return ("str", take(c & 31)), pos
    if c == 0xC0:
        return ("nil",), pos
    if c == 0xC1:
        raise Invalid()
    if c in (0xC2, 0xC3):
        return ("bool", c == 0xC3), pos
    if c in (0xC4, 0xC5, 0xC6):
        n = int.from_bytes(take(1 << (c - 0xC4)), "big")
        return ("bin", take(n)), pos
    if c in (0xC7, 0xC8, 0xC9):
        n = int.from_bytes(take(1 << (c - 0xC7)), "big")
        t = take(1)[0]
        return ("ext", t, take(n)), pos
    if c == 0xCA:
        return ("f32", int.from_bytes(take(4), "big")), pos
    if c == 0xCB:
        return ("f64", int.from_bytes(take(8), "big")), pos
    if 0xCC <= c <= 0xCF:
        return ("int", int.from_bytes(take(1 << (c - 0xCC)), "big")), pos
    if 0xD0 <= c <= 0xD3:
        return ("int", int.from_bytes(take(1 << (c - 0xD0)), "big", signed=True)), pos
    if 0xD4 <= c <= 0xD8:
        t = take(1)[0]
        return ("ext", t, take(1 << (c - 0xD4))), pos
    if c in (0xD9, 0xDA, 0xDB):
        n = int.from_bytes(take(1 << (c - 0xD9)), "big")
        return ("str", take(n)), pos
    if c in (0xDC, 0xDD):
        n = int.from_bytes(take(2 << (c - 0xDC)), "big")
        return _arr(b, pos, n, depth)
    if c in (0xDE, 0xDF):
        n = int.from_bytes(take(2 << (c - 0xDE)), "big")
        return _map(b, pos, n, depth)
    return ("int", c - 256), pos


def _arr(b, pos, n, depth):
    xs = []
    for _ in range(n):
        v, pos = decode(b, pos, depth + 1)
        xs.append(v)
    return ("arr", xs), pos


def _map(b, pos, n, depth):
    ms = []
    for _ in range(n):
        k, pos = decode(b, pos, depth + 1)
        v, pos = decode(b, pos, depth + 1)
        ms.append((k, v))
    return ("map", ms), pos


def be(n, w):
    return (n % (1 << (8 * w))).to_bytes(w, "big")


def enc_uint(n, rng=None):
    """all legal encodings of a non-negative integer; minimal if rng is None"""
    opts = []
    if n <= 0x7F:
        opts.append(bytes([n]))
    if n <= 0xFF:
        opts.append(b"\xcc" + be(n, 1))
    if n <= 0xFFFF:
        opts.append(b"\xcd" + be(n, 2))
    if n <= 0xFFFFFFFF:
        opts.append(b"\xce" + be(n, 4))
    opts.append(b"\xcf" + be(n, 8))
    if n <= 0x7F:
        opts.append(b"\xd0" + be(n, 1))
    if n <= 0x7FFF:
        opts.append(b"\xd1" + be(n, 2))
    if n <= 0x7FFFFFFF:
        opts.append(b"\xd2" + be(n, 4))
    if n <= 0x7FFFFFFFFFFFFFFF:
        opts.append(b"\xd3" + be(n, 8))
    return opts[0] if rng is None else rng.choice(opts)


def enc_negint(v, rng=None):
    opts = []
    if v >= -32:
        opts.append(be(v, 1))
    if v >= -0x80:
        opts.append(b"\xd0" + be(v, 1))
    if v >= -0x8000:
        opts.append(b"\xd1" + be(v, 2))
    if v >= -0x80000000:
        opts.append(b"\xd2" + be(v, 4))
    opts.append(b"\xd3" + be(v, 8))
    return opts[0] if rng is None else rng.choice(opts)


def len_hdr(kind, n, rng=None):
    """kind in 'str','arr','map','bin'"""
    opts = []
    if kind == "str":
        if n < 32:
            opts.append(bytes([0xA0 + n]))
        if n < 0x100:
            opts.append(b"\xd9" + be(n, 1))
        if n < 0x10000:
            opts.append(b"\xda" + be(n, 2))
        opts.append(b"\xdb" + be(n, 4))
    elif kind == "bin":
        if n < 0x100:
            opts.append(b"\xc4" + be(n, 1))
        if n < 0x10000:
            opts.append(b"\xc5" + be(n, 2))
        opts.append(b"\xc6" + be(n, 4))
    else:
        base, c16, c32 = (0x90, b"\xdc", b"\xdd") if kind == "arr" else (0x80, b"\xde", b"\xdf")
        if n < 16:
            opts.append(bytes([base + n]))
        if n < 0x10000:
            opts.append(c16 + be(n, 2))
        opts.append(c32 + be(n, 4))
    return opts[0] if rng is None else rng.choice(opts)


def encode(v, rng=None):
    k = v[0]
    if k == "nil":
        return b"\xc0"
    if k == "bool":
        return b"\xc3" if v[1] else b"\xc2"
    if k == "int":
        return enc_uint(v[1], rng) if v[1] >= 0 else enc_negint(v[1], rng)
    if k == "f32":
        return b"\xca" + be(v[1], 4)
    if k == "f64":
        return b"\xcb" + be(v[1], 8)
    if k == "str":
        return len_hdr("str", len(v[1]), rng) + v[1]
    if k == "bin":
        return len_hdr("bin", len(v[1]), rng) + v[1]
    if k == "ext":
        n = len(v[2])
        opts = []
        if n in (1, 2, 4, 8, 16):
            opts.append(bytes([0xD4 + n.bit_length() - 1, v[1]]) + v[2])
        if n < 0x100:
            opts.append(b"\xc7" + be(n, 1) + bytes([v[1]]) + v[2])
        if n < 0x10000:
            opts.append(b"\xc8" + be(n, 2) + bytes([v[1]]) + v[2])
        opts.append(b"\xc9" + be(n, 4) + bytes([v[1]]) + v[2])
        return opts[0] if rng is None else rng.choice(opts)
    if k == "arr":
        return len_hdr("arr", len(v[1]), rng) + b"".join(encode(x, rng) for x in v[1])
    if k == "map":
        return len_hdr("map", len(v[1]), rng) + b"".join(encode(a, rng) + encode(b, rng) for a, b in v[1])
    raise ValueError(v)


BOUNDARY_INTS = [0, 1, 0x7F, 0x80, 0xFF, 0x100, 0x7FFF, 0x8000, 0xFFFF, 0x10000, 0x7FFFFFFF, 0x80000000, 0xFFFFFFFF, 0x100000000,
                 2 ** 53, 2 ** 63 - 1, 2 ** 63, 2 ** 64 - 1, -1, -31, -32, -33, -127, -128, -129, -32768, -32769, -2 ** 31, -2 ** 31 - 1, -2 ** 63]
BOUNDARY_F32 = [0, 0x80000000, 0x3F800000, 0xBF800000, 0x3FC00000, 0x00000001, 0x007FFFFF, 0x00800000, 0x7F7FFFFF, 0x7F800000, 0xFF800000, 0x7FC00000,
                0x4B800000, 0x4B7FFFFF, 0x5F000000, 0x5EFFFFFF, 0xDF000000, 0x5F7FFFFF, 0x5F800000, 0x41200000, 0x3DCCCCCD, 0x4CBEBC20, 0x501502F9]
BOUNDARY_F64 = [0, 1 << 63, 0x3FF0000000000000, 0x3FF8000000000000, 0x3FB999999999999A, 1, 0x000FFFFFFFFFFFFF, 0x0010000000000000, 0x7FEFFFFFFFFFFFFF,
                0x7FF0000000000000, 0xFFF0000000000000, 0x7FF8000000000000, 0x4170000000000000, 0x4170000010000000, 0x43E0000000000000, 0x43DFFFFFFFFFFFFF,
                0xC3E0000000000000, 0x43F0000000000000, 0x43EFFFFFFFFFFFFF, 0x47EFFFFFE0000000, 0x47EFFFFFF0000000, 0x36A0000000000000, 0x3690000000000000,
                0x416312D000000000, 0x3EE4F8B588E368F1, 0x4340000000000000, 0x4340000000000001]


def gen_value(rng, depth=0, maxdepth=4, budget=None, dup_keys=False, binext=True):
    budget = budget if budget is not None else [14]
    budget[0] -= 1
    r = rng.random()
    if depth >= maxdepth or budget[0] <= 0:
        r *= 0.7
    if r < 0.07:
        return ("nil",)
    if r < 0.14:
        return ("bool", rng.random() < 0.5)
    if r < 0.34:
        c = rng.random()
        if c < 0.5:
            n = rng.choice(BOUNDARY_INTS)
            n += rng.choice([0, 0, 1, -1])
            n = max(-2 ** 63, min(2 ** 64 - 1, n))
            return ("int", n)
        return ("int", rng.randrange(-2 ** 63, 2 ** 64) >> rng.choice([0, 8, 16, 32, 40, 56]))
    if r < 0.42:
        return ("f32", rng.choice(BOUNDARY_F32) if rng.random() < 0.6 else rng.getrandbits(32))
    if r < 0.5:
        if rng.random() < 0.5:
            return ("f64", rng.choice(BOUNDARY_F64))
        if rng.random() < 0.5:
            # a double that is exactly a float
            f = rng.getrandbits(32)
            x = struct.unpack("<f", struct.pack("<I", f))[0]
            if x == x:
                return ("f64", struct.unpack("<Q", struct.pack("<d", x))[0])
        return ("f64", rng.getrandbits(64))
    if r < 0.62:
        n = rng.choice([0, 1, 2, 5, 31, 32, 33, 255, 256, 257] if rng.random() < 0.3 else [0, 1, 2, 3, 4, 8])
        return ("str", bytes(rng.choice([0x61, 0x62, 0x30, 0x00, 0x22, 0x5C, 0x0A, 0xC3, 0xA9, 0xFF, 0x7F, 0x20]) for _ in range(n)))
    if r < 0.7 and binext:
        if rng.random() < 0.5:
            n = rng.choice([0, 1, 2, 3, 255, 256, 17])
            return ("bin", bytes(rng.getrandbits(8) for _ in range(n)))
        n = rng.choice([0, 1, 2, 3, 4, 5, 8, 16, 17, 255, 256])
        return ("ext", rng.getrandbits(8), bytes(rng.getrandbits(8) for _ in range(n)))
    if r < 0.85:
        n = rng.choice([0, 1, 2, 3, 15, 16, 17] if rng.random() < 0.25 else [0, 1, 2, 3])
        return ("arr", [gen_value(rng, depth + 1, maxdepth, budget, dup_keys, binext) for _ in range(n)])
    n = rng.choice([0, 1, 2, 3, 15, 16, 17] if rng.random() < 0.2 else [0, 1, 2, 3])
    ms = []
    keys = set()
    for i in range(n):
        k = bytes(rng.choice(b"abk\x00*") for _ in range(rng.choice([0, 1, 1, 2, 3]))) if n < 10 else b"k%d" % i
        if k in keys and not dup_keys:
            k = k + b"%d" % i
        keys.add(k)
        ms.append((("str", k), gen_value(rng, depth + 1, maxdepth, budget, dup_keys, binext)))
    return ("map", ms)
