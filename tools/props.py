"""Per-property definition: which Lean module holds the property theorems (all `theorem`s of the listed namespaces are
obligations and are audited), which correspondence suites tie the model to /repo, and the claim texts for MANIFEST.json."""
import os, re
import suites as S

ROOT = os.path.dirname(os.path.dirname(os.path.abspath(__file__)))

TRUSTED_BASE = [
    "Lean 4.33.0 kernel (lake build; leanchecker re-check in the thorough tier)",
    "statements of the theorems in lean/AJ/Props and of the specs in lean/AJ/Spec",
    "hand translation C++ -> lean/AJ/Model, validated by the correspondence suites of tools/suites.py (sampling unless marked exhaustive)",
    "translator tools/gen_tables.py + harness/dump_tables.cpp (tables and configuration constants regenerated from /repo on every run)",
    "harness/aj_harness.cpp, g++ 12 with ASan/UBSan, the Python oracles of tools/gens.py, tools/mpack.py, tools/dialect.py, tools/hist.py",
    "not modelled: C++ overload selection, byte layout of slots, libc/malloc, real stack and threads (observed through sanitizers only)",
]

DEF = {}
CFG_ALL = {"ENABLE_COMMENTS": 1, "ENABLE_NAN": 1, "ENABLE_INFINITY": 1}
CFG_NOUNI = {"DECODE_UNICODE": 0}
G = S.GEOMETRIES

HOOK_COMMITS = []
NOT_APPLICABLE = {}


def strip_comments(text):
    out = []
    i = 0
    depth = 0
    n = len(text)
    while i < n:
        if text.startswith("/-", i):
            depth += 1
            i += 2
        elif depth and text.startswith("-/", i):
            depth -= 1
            i += 2
        elif depth:
            i += 1
        elif text.startswith("--", i):
            while i < n and text[i] != "\n":
                i += 1
        else:
            out.append(text[i])
            i += 1
    return "".join(out)


def theorems_of(module, namespaces=None):
    """all theorem names declared in lean/<module>.lean, qualified by the enclosing namespaces; optionally filtered by top namespace"""
    path = os.path.join(ROOT, "lean", *module.split(".")) + ".lean"
    if not os.path.exists(path):
        return []
    txt = strip_comments(open(path).read())
    stack = []
    out = []
    for line in txt.splitlines():
        m = re.match(r"\s*namespace\s+([\w.]+)", line)
        if m:
            stack.append(m.group(1))
            continue
        m = re.match(r"\s*end\s+([\w.]+)\s*$", line)
        if m and stack and stack[-1] == m.group(1):
            stack.pop()
            continue
        m = re.match(r"\s*(?:@\[[^\]]*\]\s*)?(?:protected\s+)?theorem\s+([\w.']+)", line)
        if m:
            name = m.group(1)[7:] if m.group(1).startswith("_root_.") else ".".join(stack + [m.group(1)])
            if namespaces is None or name.split(".")[0] in namespaces:
                out.append(name)
    return out


TECH = ("Lean 4 theorems about an executable model of the code; the model is tied to /repo by tables regenerated from the source and by a "
        "differential correspondence check (sanitizer harness vs. compiled model driver) plus independent oracles on the implementation")

PROPS = {}


def P(pid, module=None, namespaces=None, extra=(), **kw):
    module = module or "AJ.Props." + pid
    d = dict(kw)
    d["module"] = module
    d["theorems"] = theorems_of(module, namespaces)
    for m2, ns2 in extra:            # theorems of this property that live in another (imported) file
        d["theorems"] += theorems_of(m2, ns2)
    d.setdefault("technique", TECH)
    PROPS[pid] = d


P("C01", module="AJ.Props.C01All", extra=[("AJ.Props.C01", ["C01"]), ("AJ.Props.C01Doc", ["C01"])], level_text="C01.slot_level_refines / valid_json_slot_level: the SLOT-LEVEL model of deserializeJson (lean/AJ/Model/JDD.lean: the real document structure, string builder, allocator) refines the value-level one - whenever no allocation fails it returns the same code, consumes the same bytes and leaves a document whose abstract value is the value-level result (for every code, partial documents included); hence every RFC text within the limits, deserialized into ANY document with a non-failing allocator, leaves a well-formed document denoting exactly the value the text denotes. Theorem C01.valid_json: for every RFC 8259 text within the limits (relational grammar lean/AJ/Spec/Json.lean: any whitespace layout, escape spelling, number spelling, key set "
  "incl. empty/NUL/prefix/repeated keys; nesting <= L, strings <= maxStrLen, literals <= 63 bytes) the deserializer model returns Ok and exactly the denoted document (last occurrence "
  "wins, integers exact, other numbers = parseNumber), for every flag configuration with DECODE_UNICODE=1; proved by mutual induction on derivations with an explicit fuel bound. The model is "
  "compared with deserializeJson on grammar-generated valid texts (repeated keys, NUL keys, prefix keys, all escape spellings, prefilled destinations, nine "
  "reader kinds) and the implementation's document is checked against the value the generator knows the text denotes.",
  level_note="Lean kernel; the limits are part of the grammar because a repeated key hides the value it overwrites (kernel-checked counterexample to the naive statement); "
  "floating-point accuracy is C12's concern; 'destination entirely replaced' is checked by the correspondence (prefilled documents)",
  suites=lambda tier: [S.JsonValidSuite(cfg=DEF), S.JsonValidSuite(cfg=CFG_ALL, n=1500 if tier == "quick" else 100000), S.ReuseSuite(cfg=DEF, n=80 if tier == "quick" else 4000),
                       S.JsonDocSuite(cfg=DEF, n=800 if tier == "quick" else 60000), S.JsonDocSuite(cfg=G["len1"], n=300 if tier == "quick" else 30000),
                       # "for every destination state": destinations that went through remove, swap, move, copy and earlier deserializations (histories with deserj into members and elements)
                       S.HistSuite(cfg=G["default"], nh=40 if tier == "quick" else 1500), S.HistSuite(cfg=G["tiny2"], nh=30 if tier == "quick" else 1000)],
  partial=[])

P("C02", module="AJ.Props.C02All", extra=[("AJ.Props.DocGen", ["C02"]), ("AJ.Props.SlotCor", ["C02"]), ("AJ.Props.C02", ["C02"]), ("AJ.Props.C02Parse", ["C02"])],
  level_text="C02.serialized_documents_are_source: for 44 documents (every escape, numbers, nested, repeated keys, floats) the compact and pretty serializer models write byte for byte what the compiled library writes on every run (translator tie, kernel evaluation). Theorems for every text and every capacity: the bounded writer returns min(cap,length), stores exactly that prefix, writes a NUL iff "
  "length < cap (text formats), defines exactly cap bytes and leaves the rest untouched. Theorems for every document within the limits whose strings hold no raw control character other "
  "than the five escaped ones (C02.compact_in_grammar, pretty_in_grammar, both_denote_same): the compact and the pretty text are RFC 8259 texts (relational grammar lean/AJ/Spec/Json.lean) and "
  "both denote the same document `denote v` (same structure and order, strings and keys identical, integers exact, a finite float denotes the value of its own shortest text, non-finite "
  "floats are written null); C02.Parse.compact_parses_back / pretty_parses_back / pretty_compact_read_same: the deserializer model reads both texts back as that document; "
  "string_in_grammar_iff: the escaping is exactly right iff the string is Printable - the known finding (raw control characters) is the precise complement. The model's text is compared "
  "byte for byte with serializeJson/serializeJsonPretty on generated documents; the implementation's text is parsed by an independent RFC 8259 parser and compared with the document; all "
  "destination kinds, measureJson and guard bytes are checked inside the harness.",
  level_note="known finding: raw control characters 0x01-0x1F other than \\b \\t \\n \\f \\r are copied unescaped (known_findings.json); theorem control_characters_not_json states it on the model",
  suites=lambda tier: [S.JsonSerSuite(cfg=DEF), S.SerBufSweep(cfg=DEF, fmt="json")] +
  ([S.JsonSerSuite(cfg=CFG_ALL, n=20000), S.JsonSerSuite(cfg={"arduino": 1}, n=20000)] if tier == "thorough" else [S.JsonSerSuite(cfg=CFG_ALL, n=600), S.JsonSerSuite(cfg={"arduino": 1}, n=400),
                                                                                                                       S.JsonSerSuite(cfg={"ENABLE_INFINITY": 1}, n=300), S.JsonSerSuite(cfg={"ENABLE_NAN": 1}, n=300)]),
  partial=["NaN/Infinity texts under the non-standard options are outside the grammar by design"])

P("C03", module="AJ.Props.C03All", extra=[("AJ.Props.SlotCor2", ["C03"]), ("AJ.Props.C03", ["C03"]), ("AJ.Props.C03Doc", ["C03"]), ("AJ.Props.C03MpDoc", ["C03"]), ("AJ.Props.C03FDoc", ["C03"]), ("AJ.Props.C03FMpDoc", ["C03"])], level_text="C03.filtered_(mp_)deserialized_document_wf / _traversable / _clearable / _reusable: the same four statements for the FILTERED deserializers (models JDDF/MDDF), every filter. C03.deserialized_document_wf(_any_oracle) / _traversable / _clearable / _reusable: for EVERY byte string, limit, configuration, starting document and allocator-failure schedule, the slot-level models of deserializeJson AND deserializeMsgPack (mp_* twins) leave a well-formed document (chains acyclic, slots used once and live, reference counts sufficient) that can be traversed, cleared and deserialized into again by either format, whatever code is returned. Theorems for every configuration, limit, filter and byte string, JSON (filtered and unfiltered) and MessagePack: the deserializer never takes more bytes "
  "than the input has; it terminates (the model's fuel 2*len+4 is never exhausted) and never reaches a fault state (powers-of-ten table index in range for every literal); the code is "
  "one of the six documented ones. The model is compared with the real library on bounded-exhaustive token sequences, mutated and random inputs through nine reader kinds, inputs in "
  "exactly-sized heap blocks under ASan+UBSan; source independence is checked on the implementation directly.",
  level_note="memory safety of the binary is observed by sanitizers, not proved; the 'never past the terminator' clause of zero-terminated readers rests on ASan",
  suites=lambda tier: [S.JsonAnySuite(cfg=DEF), S.MpDeSuite(cfg=DEF, n=1200 if tier == "quick" else 100000), S.FilterSuite(cfg=DEF, n=2500 if tier == "quick" else 100000),
                       S.JsonDocSuite(cfg=DEF, n=1200 if tier == "quick" else 100000), S.MpDocSuite(cfg=DEF, n=1200 if tier == "quick" else 100000),
                       S.ReuseSuite(cfg=DEF), S.ReuseSuite(cfg=G["tiny2"], n=100 if tier == "quick" else 4000),
                       S.JsonAnySuite(cfg={"arduino": 1}, n=4000 if tier == "quick" else 100000, maxlen=2)] +
  ([S.JsonAnySuite(cfg=CFG_ALL, n=200000), S.JsonAnySuite(cfg=CFG_NOUNI, n=100000)] if tier == "thorough" else [S.JsonAnySuite(cfg=CFG_ALL, n=8000)]))

P("C07", module="AJ.Props.C07All", extra=[("AJ.Props.SlotCor", ["C07"]), ("AJ.Props.C07", ["C07"]), ("AJ.Props.C07Float", ["C07"]), ("AJ.Props.C07Cross", ["C07"])],
  level_text="Theorems: MessagePack round trip for every raw-free document within limits (accepted, exact consumption, result = norm d with numerically equal numbers, second "
  "serialization byte-identical); JSON: json_roundtrip_all (the deserializer model reads serializeJson's text back as readBack d: same structure, order, keys, strings, integers exact), and "
  "C07.json_roundtrip_floats_close: every floating-point leaf comes back within the composed C12 bounds - float_through_json: a double x in [1e-300,1e300] comes back as y with "
  "|y-x| <= 1e-9*max(1,|x|) + 1e-6*|x|, and within 1e-9*max(1,|x|) whenever the text has more than seven significant digits (the parser reads short texts in binary32: kernel-checked witness, "
  "the double 0.1 prints as 0.1 and is read back as the float 0.1f); float32_through_json; integral_double_back / zero_back: floats with integral value below 1e7 and zeros come back as "
  "integers of the same value. Documents from three generators are pushed through the real library both ways and across formats; the equalities are evaluated on the implementation's outputs "
  "and compared with the model. Cross-format (lean/AJ/Props/C07Cross.lean): C07.cross_format - for EVERY text the JSON deserializer accepts (dialect extensions included), the MessagePack bytes of "
  "the document are read back by deserializeMsgPack (any string limit >= the JSON one, any nesting limit >= the JSON one, any trailing bytes) as norm(document), which compares equal to the document "
  "in both directions unless it contains a NaN (nan_not_equal: the exception is real); json_values_are_rawfree / json_keys_within_limit / json_no_nan: what every JSON-parsed document satisfies, for any result code; "
  "C07.json_of_document and msgpack_to_json: the other direction (a document read from MessagePack, serialized as JSON and read back).",
  level_note="known finding: raw control characters in serializeJson's text (C02); msgpack_to_json assumes no repeated keys (a document with a repeated key does not compare equal to itself, C18 finding)",
  suites=lambda tier: [S.RoundTripSuite(cfg=DEF),
                       # the bytes read back from every kind of source (piecewise std::istream included), and 32-bit string headers in a build with 2-byte slot ids
                       S.MpDeSuite(cfg=DEF, n=500 if tier == "quick" else 40000), S.RoundTripSuite(cfg=G["len4id2"], n=120 if tier == "quick" else 5000)])

P("C08", module="AJ.Props.C08All", extra=[("AJ.Props.DocGen", ["C08"]), ("AJ.Props.C08", ["C08"]), ("AJ.Props.SlotCor2", ["C08"])], level_text="C08.msgpack_documents_are_source: for 44 documents at every width boundary (fixint/8/16/32/64 bits, fixstr/str8, fixarray/array16, fixmap/map16, floats) the serializer model writes byte for byte what the compiled serializeMsgPack writes on every run (translator tie, kernel evaluation). C08.mp_buffer_count / _prefix / _no_nul / _untouched / _content / _exact_fit / _truncated: serializeMsgPack into a bounded buffer returns min(capacity, length), stores exactly that prefix, writes no terminator and leaves every other byte untouched, for every document and capacity. Theorem: for every raw-free document within the 64-bit/32-bit limits, an independent decoder written from the MessagePack specification decodes "
  "serializeMsgPack's output to exactly one object denoting the document (integers by value and sign, strings byte-exact, floats bit-exact or the integer of the same value, narrowing of "
  "doubles only when lossless), with the shortest headers on both sides of every boundary. bin/ext values built through the API are modelled and compared; destinations, counts and "
  "bounded buffers are checked in the harness; an independent Python decoder judges the implementation's bytes.",
  level_note="raw values are excluded from the theorem (they are copied verbatim); lengths >= 2^32 are outside the format",
  suites=lambda tier: [S.MpSerSuite(cfg=DEF), S.SerBufSweep(cfg=DEF, fmt="mp", n=40 if tier == "quick" else 1500), S.MpSerSuite(cfg=G["len1"], n=300 if tier == "quick" else 20000)] +
  ([S.MpSerSuite(cfg=G["len4"], n=2000)] if tier == "thorough" else []))

P("C09", module="AJ.Props.C09All", extra=[("AJ.Props.C09Value", ["C09"]), ("AJ.Props.DocGen", ["C09"]), ("AJ.Props.C09Gen", ["C09"]), ("AJ.Props.SlotCor2", ["C09"]), ("AJ.Props.C09", ["C09"]), ("AJ.Props.C09Prefix", ["C09"]), ("AJ.Props.C09Doc", ["C09"])],
  level_text="C09.enc_value / enc_value_filtered / enc_run_value: for EVERY legal encoding (the relation MD.EncVal mirrors the syntactic predicate MD.Enc and carries the value: any width at every place, bin/ext/fixext, nested) the deserializer model returns Ok, exactly that value (its projection under a filter) and exact consumption, whatever follows; enc_decodeTop: the independent decoder written from the specification decodes the same bytes to an object that the value denotes; width_irrelevant: two encodings that the specification decodes to the same object give documents that compare equal (raw-free, NaN-free, no repeated keys; raw_width_matters: for bin/ext the stored bytes are the original ones, so the width IS observable there - kernel-checked witness). C09.msgpack_read_back_is_source: on the MessagePack bytes of 44 documents the deserializer model leaves the document the compiled library leaves (translator tie). C09.first_byte_dispatch_is_source_zero / _count: on each of the 256 first bytes followed by two fixed tails the model's code, consumption and document are those obtained on every run by calling the compiled deserializeMsgPack (translator tie, kernel evaluation of 512 runs). Theorems: every serialized document is accepted and decoded to the value it encodes with exact consumption (any trailing bytes); "
  "C09.enc_accepts: every encoding of the syntactic predicate MD.Enc (any legal width at every place: fix/8/16/32 lengths and counts, bin, ext, fixext, nested containers, within the limits) is "
  "accepted, for every filter; prefix_classification / enc_prefix_classification / run_prefix_by_consumed: every proper prefix gives IncompleteInput (EmptyInput for the empty input) with the "
  "whole prefix consumed, for every filter, and a prefix that contains the first object of a sequence returns that object; reserved_code_at / non_string_key_at (and the any-width forms): 0xC1 "
  "where a value is expected and a non-string byte where a key is expected give InvalidInput at that byte, at any depth; run_prefix_dichotomy: the result of a run depends only on the bytes "
  "it consumed. SLOT LEVEL (C09Doc): slot_level_refines / roundtrip_slot_level / prefix_classification_slot_level - the slot-level model of deserializeMsgPack (real document, string buffer, allocator) "
  "returns the same code, bytes consumed and abstract value as the value-level one whenever no allocation fails, and NoMemory exactly when the overflowed flag is set. The model agrees with deserializeMsgPack on values encoded by an independent encoder with arbitrary legal widths, on all their proper prefixes and on corruptions; the "
  "implementation's document is checked against the encoded value.",
  level_note="the value denoted by a non-minimal encoding (as opposed to its acceptance and prefix behaviour) is tied by the correspondence and the independent codec; USE_DOUBLE=0 is modelled as rounding every stored double to binary32",
  suites=lambda tier: [S.MpDeSuite(cfg=DEF), S.MpDeSuite(cfg={"USE_DOUBLE": 0}, n=1200 if tier == "quick" else 60000),
                       S.MpDeSuite(cfg={"USE_LONG_LONG": 0}, n=800 if tier == "quick" else 40000),
                       # slot-level model with the string limit of the build: keys and strings at the longest storable length, 1- and 2-byte lengths
                       S.MpDocSuite(cfg=DEF, n=600 if tier == "quick" else 60000), S.MpDocSuite(cfg=G["len1"], n=400 if tier == "quick" else 40000)],
  partial=["theorems are about the models (value-level and slot-level), tied by the correspondence suites and the first-byte / read-back tables"])

P("C10", module="AJ.Props.C10All", extra=[("AJ.Props.C10Gen2", ["C10"]), ("AJ.Props.C10", ["C10"]), ("AJ.Props.C10Class", ["C10"]), ("AJ.Props.C01Doc", ["C10"]), ("AJ.Props.C10Gen", ["C10"])], level_text="C10.json_first_byte_is_source_*: on each of the 256 first bytes followed by three fixed tails, in the default build and with comments/NaN/Infinity enabled, the model's code, consumption and serialized document are those obtained on every run by calling the compiled deserializeJson/serializeJson (translator tie, kernel evaluation of 1536 runs). C10.unquoted_class_is_source / number_class_is_source_* / space_class_is_source / quote_class_is_source: the character classes of the model are exactly the tables obtained on every run by calling the private predicates of the compiled JsonDeserializer for all 256 bytes in three configurations (translator tie). Theorems C10.accepts_iff / ok_iff_dialect: for every configuration (comments, NaN, Infinity, unicode decoding on or off), nesting limit and byte string, the deserializer model "
  "returns Ok with value v exactly when the text is `white space/comments, one value of the documented dialect denoting v, then anything` (declarative grammar lean/AJ/Spec/Dialect.lean: single and double "
  "quotes, unquoted keys, lenient numbers, NaN/Infinity when enabled, comments when enabled, raw control bytes in strings); C10.sound and C10.complete are the two directions; "
  "C10.unclosed_refused / unclosed_never_ok: an unclosed string, array or object is never Ok; C10.empty_iff: EmptyInput exactly for inputs that are only white space/comments; C10.disabled_*: the "
  "corresponding syntax is InvalidInput when its option is off. Classification (C10.classification and its parts): IncompleteInput and EmptyInput are answered only after the whole text up to "
  "its terminator was read (incomplete_reads_to_the_end) and an incomplete text within the string-length limit has an accepted continuation (incomplete_is_extendable); InvalidInput is caused by "
  "a byte inside the text (invalid_stops_inside) and is then final for every continuation (invalid_is_final) - except texts that end in a dangling sign or, with comments on, a dangling slash, "
  "which the code reports as InvalidInput although they can be completed (decidable predicate Dangling; kernel-checked witnesses `-`, `[1,-`, `/`); TooDeep and NoMemory are final; the result "
  "is determined by the bytes taken (run_local, nul_is_end, never_reads_past_nul); prefix_of_accepted: a proper prefix of an accepted text is Incomplete, Empty (only white space), a shorter "
  "number, or a Dangling InvalidInput - never anything else. The model is tied by a bounded-exhaustive run (all token sequences up to "
  "length 3/4 over a 33-token alphabet, mutated and random texts, 3 flag configurations) against the model and an independent recognizer of the documented dialect (tools/dialect.py).",
  level_note="number tokens are specified through the model's own parseNumber (its value semantics are C12's subject)",
  suites=lambda tier: [S.JsonAnySuite(cfg=DEF), S.JsonAnySuite(cfg=CFG_ALL, n=6000 if tier == "quick" else 300000), S.JsonAnySuite(cfg=CFG_NOUNI, n=3000 if tier == "quick" else 100000)],
  partial=["finality of InvalidInput for Dangling texts other than a lone sign"])

P("C11", module="AJ.Props.C11All", extra=[("AJ.Props.DocGen", ["C11"]), ("AJ.Props.C11", ["C11"]), ("AJ.Props.C11Full", ["C11"]), ("AJ.Props.C11Mp", ["C11"]), ("AJ.Props.C11Mem", ["C11"]), ("AJ.Props.C11Doc", ["C11"]), ("AJ.Props.C11Slot", ["C11"]), ("AJ.Props.C11MpSlot", ["C11"]), ("AJ.Props.C11MpDoc", ["C11"]), ("AJ.Props.C11MemRun", ["C11"]), ("AJ.Props.C11MpMemRun", ["C11"])],
  level_text="C11.filtered_documents_are_source: on 14 filters x 9 inputs the filtered deserializer model leaves the document the compiled library leaves on every run (translator tie, kernel evaluation). Theorem C11.json_projection_all_inputs: for every configuration, nesting limit, filter and input on which the unfiltered run returns Ok, the filtered run returns Ok, the "
  "projection (lean/AJ/Spec/Filter.lean: recursive, `*` wildcard, first array element, false removes, null falls back to `*`) of the unfiltered document, and the same number of bytes consumed - "
  "repeated keys, dialect extensions and trailing bytes included; C11.skip_and_filter_simulate_parse: skipping a value leaves the reader in literally the same state as parsing it; "
  "C11.msgpack_projection_all_inputs: the same statement for deserializeMsgPack (members projected one by one, repeated keys kept, bin/ext as scalars), with msgpack_filter_simulates_parse for "
  "any reader state and the commutation with the doubles-disabled narrowing; the filter `true` (and AllowAll) is the identity on every input, malformed included, for JSON and MessagePack; a value "
  "is never produced into an absent destination. SLOT LEVEL (models lean/AJ/Model/JDDF.lean, MDDF.lean with the builder/buffer allocation pattern, tied by the allocator log): "
  "C11.filtered_slot_level_refines (the filtered slot-level deserializer refines the value-level one for every filter, allocator schedule and prior document), C11.filtered_document_is_projection "
  "(the document left reads back as the projection of the document the unfiltered run leaves), skipped_values_do_not_touch_document (a filter allowing nothing makes no allocator call); memory: "
  "C11.projected_strings_subset / projected_string_bytes_le / projected_tree_slots_le / projected_live_slots_le - a document reading back as the projection of another stores a subset of its strings, no more "
  "string bytes, tree slots or live slots; C11.filtered_run_holds_no_more: for EVERY input, filter, configuration and pair of starting documents, if the unfiltered slot-level run answers Ok and the filtered run "
  "met no allocation failure, the document the filtered run leaves stores a subset of the strings of the unfiltered one, no more string bytes, no more string nodes, no more allocator bytes for strings, "
  "no more live slots (run_slots_eq_value: live slots = slotsOf(value) exactly); C11.filtered_mp_run_holds_no_more: the same for deserializeMsgPack (models MDDF/MDD). Pairs (input, filter) are "
  "run through the real library, compared with the model and with the projection of the unfiltered result computed independently; memory requested by both runs is compared.",
  level_note="the memory clause as stated (total requested) is false on the implementation (two known findings); what is proved is the comparison of what the two documents HOLD (strings, slots), "
  "and the requests themselves are tied to the slot-level model by the allocator log",
  suites=lambda tier: [S.FilterSuite(cfg=DEF), S.FilterSuite(cfg=CFG_ALL, n=2500 if tier == "quick" else 100000), S.FilterSuite(cfg={"USE_DOUBLE": 0}, n=2000 if tier == "quick" else 80000),
                       S.JsonDocFSuite(cfg=DEF, n=1500 if tier == "quick" else 120000), S.JsonDocFSuite(cfg=CFG_ALL, n=600 if tier == "quick" else 50000),
                       S.JsonDocFSuite(cfg=G["tiny1"], n=400 if tier == "quick" else 40000), S.JsonDocFSuite(cfg=G["len1"], n=400 if tier == "quick" else 40000),
                       S.MpDocFSuite(cfg=DEF, n=1500 if tier == "quick" else 120000), S.MpDocFSuite(cfg=G["tiny1"], n=400 if tier == "quick" else 40000),
                       S.MpDocFSuite(cfg=G["len1"], n=400 if tier == "quick" else 40000), S.MpDocFSuite(cfg=G["tiny2"], n=400 if tier == "quick" else 40000)],
  partial=["memory clause: proved for the memory HELD at the end of the two runs (strings, nodes, slots); as a statement about the total of the allocator requests it is false on the code (two known findings), and the peak during the run is compared on the implementation only"])

P("C12", module="AJ.Props.C12All", extra=[("AJ.Props.C12Gen", ["C12"]), ("AJ.Props.SlotCor", ["C12"]), ("AJ.Props.C12", ["C12"]), ("AJ.Props.C12Print", ["C12"])],
  level_text="C12.printed_numbers_are_source / parsed_literals_are_source: on 63 stored numbers and 56 number-like literals (range boundaries, long digit strings, lenient and malformed spellings) the printing model writes byte for byte what serializeJson writes, and the deserializer + conversion models give the code, the kind of number and the four readings that the compiled library gives on every run (translator tie, kernel evaluation). Theorems: every integer literal in [-2^63, 2^64) with any number of leading zeros parses to exactly that integer and nothing else does; integers print digit-exact; "
  "print/parse round trip over the whole 64-bit range; no literal of any length reaches an out-of-range table index. Floating point, over exact rationals - PARSE (C12.float_clauses, "
  "parse_double_error, parse_float_error, huge_value_is_inf, tiny_value_is_zero, many_digits_double, saturated_exponent, parse_subnormal_band): for every RFC number literal of at most 99000 "
  "digits, a double result is within 1e-13 relative (or the correctly signed infinity above 1e300), a float result is within 1e-6 and never infinite, |v| >= 1e309 gives infinity, |v| < 1e-325 "
  "gives a signed zero, and in the band 1e-325 <= |v| < 1e-300 the result is zero (only below 1e-310) or a double within 2^-1075 + 1e-13*|v|, never above (2+1e-12)*|v|; PRINT "
  "(print_double_error/_close, print_float_error/_close, print_zero, print_nonfinite): for EVERY finite non-zero binary64 / binary32 value the exact decimal value of the printed literal is "
  "within 0.51e-9 / 0.51e-6 of max(1,|x|) - half the bound the property states; C12.tables_correct: the powers-of-ten tables regenerated from the source are the correctly rounded powers "
  "(positive) / within half an ulp (negative). The softfloat model is compared bit for bit with the library, and the library with exact rational arithmetic (literals up to thousands of "
  "digits through as<T>() on strings, random and boundary floats/doubles).",
  level_note="the theorems are about the softfloat model; its bit-exact agreement with the compiled code (x86-64 SSE2 double arithmetic) is what the correspondence checks on sampled and boundary values",
  suites=lambda tier: [S.NumSuite(cfg=DEF)])

P("C13", module="AJ.Props.C13All", extra=[("AJ.Props.C13Gen", ["C13"]), ("AJ.Props.C13", ["C13"]), ("AJ.Props.C13Copy", ["C13"])],
  level_text="C13.conversions_are_source: on 92 stored values at and around every type boundary (unsigned, signed, double, float) the model's as<int8_t>() ... as<uint64_t>(), as<float>(), as<double>() are those obtained on every run by calling the compiled library (translator tie, kernel evaluation). Theorems for every stored number and each of the eight integral widths: as<T>() is the exact value when it lies in T's range and 0 otherwise, never undefined "
  "(the model's UB state is unreachable), the six highest_for constants (regenerated from the source) are the largest float/double not above T::max, is<T>() iff stored as an integer "
  "that fits and then as<U>() agrees for every wider U; float<->double and integer->float conversions are exact / nearest. copyArray (model lean/AJ/Model/CA.lean): copy1_within / "
  "copy1_count / copy1_content, copy2_within, copyStr_within / copyStr_terminated - the destination keeps its size, exactly min(lengths) cells are written with the converted elements, every "
  "other cell is untouched, a string copy writes at most N-1 bytes and one terminator. The model is compared with the library on every storage kind x target over boundary and random values "
  "and numeric strings, and on copyArray with every destination type, destination lengths around the array length, fixed-size, two-dimensional and string forms, in exactly-sized heap "
  "blocks with guard patterns, under ASan+UBSan.",
  level_note="writes outside the destination on the binary are observed by ASan and the guard pattern; the model has destinations of fixed length by construction",
  suites=lambda tier: [S.ConvSuite(cfg=DEF), S.CopyArrSuite(cfg=DEF), S.MpDeSuite(cfg={"USE_LONG_LONG": 0}, n=500 if tier == "quick" else 30000)])

P("C15", module="AJ.Props.C15All", extra=[("AJ.Props.C15Gen", ["C15"]), ("AJ.Props.SlotCor2", ["C15"]), ("AJ.Props.C15", ["C15"]), ("AJ.Props.C01Doc", ["C15"]), ("AJ.Props.C09Doc", ["C15"])], level_text="C15.nesting_limit_table_is_source: for every (depth, limit) pair up to 12, JSON and MessagePack, the model's code and document left (partial documents included) are those the compiled library gives on every run (translator tie, 338 runs evaluated in the kernel). Theorems for JSON (filtered and unfiltered) and MessagePack, any bytes, any limit: Ok implies nesting <= L; L+1 opening brackets/headers give TooDeep after exactly "
  "L+1 bytes, also inside discarded parts; raising the limit changes nothing unless the result was TooDeep (never otherwise). Stack use is compared between inputs of depth L+1 and 2000.",
  level_note="stack bytes are observed on the binary; 'as soon as' for nested objects is covered by the correspondence",
  suites=lambda tier: [S.DepthSuite(cfg=DEF), S.DepthSuite(cfg=CFG_ALL)])

P("C16", module="AJ.Props.C16All", extra=[("AJ.Props.C15Gen", ["C16"]), ("AJ.Props.SlotCor2", ["C16"]), ("AJ.Props.SlotCor", ["C16"]), ("AJ.Props.C01", ["C16"]), ("AJ.Props.C16", ["C16"]), ("AJ.Props.C16Seq", ["C16"]), ("AJ.Props.C09Doc", ["C16"])],
  level_text="C16.stream_table_is_source: on 12 streams of documents the model's stream loop returns, call by call, the codes and documents that successive deserializeJson calls on one reader return in the compiled library (translator tie). Theorems: deserializeJson consumes the leading white space and exactly the bytes of the top-level value, plus one byte when it is a number and something follows "
  "(number_consumes_at_most_one_more, run_doc, exact_consumption); deserializeMsgPack consumes exactly the bytes of one object; C16.json_sequence / json_sequence_gen: for any list of documents "
  "of the dialect (any configuration and limit) written back to back, where only a number must be followed by a white-space byte, k successive calls return exactly the documents one after "
  "the other, then EmptyInput if white space is left (json_sequence_leftover says which bytes are left); number_needs_separator: a number followed directly by another value is InvalidInput; "
  "msgpack_sequence_n: n back-to-back objects in any legal encoding are returned one after the other, for every filter; result_independent_of_rest / msgpack_result_independent_of_rest: the "
  "result of a call (any code) does not depend on bytes beyond those it consumed. Documents written back to back with arbitrary separators are read through a counting reader, std::istream, "
  "a block-buffered std::istream and chunked delivery, and compared with the model and with the expected sequence.",
  level_note="reader chunking is a property of the real readers (byte-wise, block-wise, std::istream with a refilling buffer), checked by the correspondence; the model reads through a one-byte latch",
  suites=lambda tier: [S.StreamSuite(cfg=DEF), S.StreamSuite(cfg=CFG_ALL, n=800 if tier == "quick" else 60000), S.FilterSuite(cfg={"USE_DOUBLE": 0}, n=1500 if tier == "quick" else 60000, memory_clause=False)],
  partial=["reader chunking is a property of the real readers (correspondence)"])

P("C17", module="AJ.Props.C17All", extra=[("AJ.Props.C17Gen", ["C17"]), ("AJ.Props.SlotCor", ["C17"]), ("AJ.Props.C17", ["C17"]), ("AJ.Props.C10Gen", ["C17"])], level_text="C17.escaping_is_source / unicode_decoding_is_source: for all 256 one-byte strings the serializer model writes what the compiled serializeJson writes, and for 342 texts with \\u escapes (UTF-8 length and surrogate boundaries, lone surrogates, pairs, malformed) the deserializer model gives the code and the bytes the compiled library gives on every run (translator tie, kernel evaluation). C17.hex_digit_is_source: the model's decodeHex agrees for all 256 bytes with the table regenerated on every run by calling the compiled JsonDeserializer::decodeHex. Theorems (for every code point / byte / byte string): Utf8::encodeCodepoint is UTF-8, decodeHex is right on every hex digit in both cases, surrogate recombination, "
  "\\uXXXX and surrogate pairs decode to UTF-8 at any position of a string (and key), whatever serializeJson writes for a byte string deserializeJson reads back identically, "
  "and bytes other than the eight special ones are emitted verbatim. Tables are regenerated from /repo. Exhaustive differential run over all code units, pairs, bytes and byte pairs.",
  level_note="Lean kernel; model validated exhaustively on this domain",
  suites=lambda tier: [S.UniSuite(cfg=DEF),
                       # escaping is the inverse also in the parts a filter discards: strings ending in escapes (backslash runs, escaped quotes) are skipped exactly
                       S.FilterSuite(cfg=DEF, n=2500 if tier == "quick" else 100000, memory_clause=False)], exhaustive=True,
  rule="exhaustive enumeration: all 65536 \\uXXXX units x 3 hex-case spellings, surrogate pairs (all 2^20 in the thorough tier), all 256 bytes and all 65536 byte pairs through "
       "serialize+deserialize; non-trivial = non-ASCII unit / pair / content containing an escaped or >=0x80 byte; distinct by code unit(s) or content")

P("C18", module="AJ.Props.C18All", extra=[("AJ.Props.C18", ["C18"]), ("AJ.Props.C18Gen", ["C18"])], level_text="C18.comparison_table_is_source: on every ordered pair of 18 values (null, booleans, integers at the 64-bit limits, float, double, NaN, strings, arrays, objects) the model's answers to == != < <= > >= are those obtained on every run from the compiled library (translator tie, 324 pairs evaluated in the kernel). Theorems for all values: != is the negation of ==, <= is < or ==, at most one of < == > ; compare(b,a) is the reverse of compare(a,b) for all values without "
  "repeated keys (hence == symmetric, < iff >), with the kernel-checked counterexample for repeated keys; integers compare exactly over the whole int64/uint64 range in all sign "
  "combinations, otherwise as doubles, NaN never equal; strings/raw equal iff bytes identical; arrays element-wise; objects member-wise regardless of order; null only null. "
  "All pairs over a pool of ~150 values x both orders and variant-vs-scalar forms are executed on the library; laws and values are judged on its answers.",
  level_note="known finding: == is asymmetric for objects with repeated keys (reachable through MessagePack)",
  suites=lambda tier: [S.CmpSuite(cfg=DEF), S.CmpSuite(cfg={"USE_DOUBLE": 0})])

P("C04", module="AJ.Props.C04All", extra=[("AJ.Props.C04", ["C04"]), ("AJ.Props.C04Hist", ["C04"]), ("AJ.Props.C04Rem", ["C04"]), ("AJ.Props.C04Copy", ["C04"]), ("AJ.Props.C14Hist", ["C04"]), ("AJ.Props.C04Deser", ["C04"]), ("AJ.Props.C04HistDeser", ["C04"]), ("AJ.Props.C04DocCopy", ["C04"])],
  level_text="Theorems about the slot-level document model (total definitions over pools, free list, next-linked chains with head/tail, extension slots, "
  "reference-counted strings) under the invariant WF = ghost layout WFG (chains acyclic, tail = last slot, slots used once, live in the pool) + string table StrOK (reference counts = number of "
  "referring slots): the abstraction to an ordered tree never runs out of fuel; array append refines list append and keeps WF; set of every scalar/string kind (incl. 64-bit extension slots, "
  "copied/linked strings, double narrowing) writes exactly that value and keeps WF; clear of ANY location (scalar, string, nested array/object) nulls exactly that location, releases exactly "
  "the slots of its subtree, drops exactly its string references, with the frame property for every location outside it; member append (appendPair) refines association-list append; "
  "removeOne_refines / removeMember_refines (+ frames): removal of an array element / object member refines eraseIdx / eraseP of the first match, releases exactly the slots of the removed subtree "
  "(and the key slot) and leaves every other location unchanged; addMember_refines, getOrAddMember_found / _absent: member lookup-or-insert refines association-list lookup / append, also when the "
  "allocation fails; size/findKey agree with the tree; slot ids handed out are fresh, releases are local. C04.history_refines2 / history_trace2: every history over add-element / clear / store / "
  "remove-element / remove-member / member-lookup-or-insert (from any WF document, any geometry, any failure oracle) keeps WF and each step produces the value of the list-level machine. "
  "copyInto_refines / copyInto_same_doc / copyInto_frame / historyC_refines: a deep copy from another or the same document (overlap allowed: the source is read from a snapshot) yields, when it is "
  "not flagged overflowed, exactly the source value (doubles re-normalised to float when exact; keys without repetition) in fresh or recycled slots, with WF and the frame property. "
  "history_simulates_tree(_of_flag): REFINEMENT TO THE PLAIN ORDERED TREE for whole histories - the abstract value after any history whose result is not flagged equals the run of an abstract "
  "machine over paths into a tree (add, clear, store, remove element/member, get-or-add member) that knows nothing of slots, pools or string storage; mutation_changes_only_target: every "
  "location whose path diverges from all targets keeps its path and value; readonly_changes_nothing: lookups of present members and removals of absent ones leave the store itself unchanged. "
  "DESERIALIZATION INTO A VALUE is a step of the same refinement (deser_into_value_refines, mp_deser_into_value_refines, historyD_simulates_tree, historyD_refines, mutationD_changes_only_target): "
  "deserializeJson / deserializeMsgPack into any location of a well-formed document puts there exactly the value-level result (for every code, partial documents included) when nothing overflows, keeps the "
  "document well formed for every input and failure schedule, and leaves every location on a diverging path untouched; histories mix API operations, deep copies and deserializations. The same model is compared after every operation with the real library on "
  "generated non-aliasing histories: every observation AND the allocator log, on several pool geometries; the library's observations are also checked against an independent plain "
  "ordered-tree machine.",
  level_note="document-level copy-assignment/swap/move (which also exchange allocators) rest on the correspondence; a source object with a repeated key (only reachable through MessagePack input) is copied with the "
  "repetition collapsed - the copy theorems carry the hypothesis NoDupKeys, see DESIGN 0.3",
  suites=lambda tier: [S.HistSuite(cfg=G["default"]), S.HistSuite(cfg=G["tiny1"], nh=40 if tier == "quick" else 2000), S.HistSuite(cfg=G["id1"], nh=30 if tier == "quick" else 2000),
                       S.LimitSuite(cfg=G["id1c10"]), S.HistSuite(cfg=G["nolonglong"], nh=25 if tier == "quick" else 1500), S.CopyEqSuite(cfg=DEF),
                       # documents filled by deserializeJson: keys and strings with an embedded NUL whose prefix is already stored, repeated keys, member reuse
                       S.JsonDocSuite(cfg=DEF, n=400 if tier == "quick" else 40000), S.PairKeySuite(cfg=DEF)] +
  ([S.HistSuite(cfg=G[g], nh=1500) for g in ("tiny2", "id1c10", "id1i3", "len1", "len4")] if tier == "thorough" else []))

P("C05", module="AJ.Props.C05All", extra=[("AJ.Props.C05", ["C05"]), ("AJ.Props.C05Doc", ["C05"]), ("AJ.Props.C05Copy", ["C05"]), ("AJ.Props.C05Deser", ["C05"]), ("AJ.Props.C05MpDeser", ["C05"]), ("AJ.Props.C05FDeser", ["C05"]), ("AJ.Props.C05FMpDeser", ["C05"])],
  level_text="Theorems at the slot-pool level for every state reachable under every failure oracle (one-shot positions and fail-from-k): a failed allocation changes no "
  "live slot and keeps the pool invariant, clear() returns every block, and the allocator works again afterwards. At document level (C05.add_element_fail_clean, set_fail_clean, "
  "add_member_fail_clean): when adding an element, storing a value or adding a member fails for lack of memory, the document is flagged overflowed, stays well-formed (WF), denotes exactly "
  "the same tree as before (so no member exists without key or value and nothing outside the path changed) and, for member insertion, at most two slots stay allocated but unreachable; "
  "copy_fail_safe / copy_flag_iff_incomplete / copy_into_flagged_document: under ANY failure schedule a deep copy leaves a well-formed document whose value at the target is a PREFIX copy "
  "(arrays: a prefix of completely copied elements, the failed element's slot released; objects: a prefix of complete members and at most one last member with a partial value, every member "
  "with its key), everything outside the target unchanged, flagged overflowed exactly when the copy is incomplete; into a document that is already flagged the copy stops after the first "
  "element/member (the sticky flag makes every set report failure). "
  "API histories generated online against the model (so that only usable references are touched) are run under single, fail-from-k and multi-failure schedules on an instrumented allocator: "
  "every observation and allocator log is compared with the slot-level model, and the implementation is checked for crashes (ASan/UBSan), leaks at clear(), misuse of the allocator, "
  "unreported failures and collateral changes; deserialization is run under every single-failure position.",
  level_note="C05.deser_failure_reported / deser_failure_leaves_wf_and_clear_returns_all: for deserializeJson (slot-level model) under ANY failure schedule: Ok implies not overflowed, NoMemory implies overflowed, "
  "overflowed implies not Ok; the document stays well formed and clear() returns every block; the same for deserializeMsgPack (mp_deser_*), where moreover NoMemory <-> overflowed; deserialization into a value inside a "
  "document (C04.deser_into_value) keeps the rest of the document intact under any failure; "
  "the same statements for the FILTERED deserializers, every filter (C05.filtered_deser_* / filtered_mp_deser_*: a skipped member can still make the run answer NoMemory - its key goes through the string builder - "
  "and that is reported and flagged like any other); "
  "documents keep their own allocator in the fault histories (no copy-assignment/swap)",
  suites=lambda tier: [S.FaultSuite(cfg=G["default"]), S.FaultSuite(cfg=G["tiny1"], nh=120 if tier == "quick" else 3000), S.FaultSuite(cfg=G["tiny2"], nh=80 if tier == "quick" else 3000),
                       S.DeserFaultSuite(cfg=G["default"]), S.DeserFaultSuite(cfg=G["tiny2"], n=300 if tier == "quick" else 20000),
                       S.JsonDocSuite(cfg=DEF, n=1500 if tier == "quick" else 150000), S.MpDocSuite(cfg=DEF, n=1500 if tier == "quick" else 150000), S.DeserShareSuite(cfg=G["tiny2"]), S.FlagTravelSuite(cfg=G["tiny2"]), S.FlagTravelSuite(cfg=DEF),
                       S.JsonDocFSuite(cfg=DEF, n=600 if tier == "quick" else 60000), S.MpDocFSuite(cfg=DEF, n=600 if tier == "quick" else 60000),
                       # small pools: a member's key slot and value slot on either side of a pool boundary, the pool allocation failing
                       S.JsonDocSuite(cfg=G["tiny2"], n=400 if tier == "quick" else 40000), S.MpDocSuite(cfg=G["tiny2"], n=400 if tier == "quick" else 40000),
                       S.JsonDocFSuite(cfg=G["tiny2"], n=300 if tier == "quick" else 30000), S.MpDocFSuite(cfg=G["tiny1"], n=300 if tier == "quick" else 30000),
                       # a string beyond the longest storable length is a failure without an allocator call (1-byte lengths: 255)
                       S.FaultSuite(cfg=G["len1"], nh=80 if tier == "quick" else 3000)] +
  ([S.FaultSuite(cfg=G[g], nh=2000) for g in ("id1", "tiny2", "id1c10")] if tier == "thorough" else []),
  partial=["allocation failures inside the compiled binary are exercised by schedules, not enumerated exhaustively; the theorems are about the slot-level models tied by the allocator log"])

P("C06", module="AJ.Props.C06All", extra=[("AJ.Props.C19", ["C06"]), ("AJ.Props.C06Doc", ["C06"]), ("AJ.Props.C05Deser", ["C06"]), ("AJ.Props.C05MpDeser", ["C06"]), ("AJ.Props.C06Mem", ["C06"]), ("AJ.Props.C06FExact", ["C06"]), ("AJ.Props.C05FMpDeser", ["C06"]), ("AJ.Props.C06FMpExact", ["C06"])],
  level_text="Theorems at the slot-pool level: a released slot is reused before any allocator call, the allocator is called only "
  "when the free list is empty and the last pool is full or absent, clear() releases exactly one block per pool plus the heap table and nothing else. At document level (C06Doc): "
  "free_after_clear / clear_then_add(s)_no_allocator_call - the slots released by clearing a subtree are exactly those handed out by the next insertions, with no allocator call; "
  "equal_strings_stored_once / new_string_one_block / string_released_with_last_user / clear_last_user_releases_block / clear_one_of_several_keeps_block - equal copied strings share one block "
  "that is released with its last user; readonly_no_allocator and lookups of existing members/elements change nothing; clearAll_returns_everything - for every history (any failure oracle) the "
  "blocks outstanding in the allocator log equal pools + string nodes, and clearAll returns all of them (history_good keeps the exact-count invariant). On the instrumented allocator "
  "(ledger of live blocks, call log per document) histories and deserializations are compared call by call with the model; read-only operations must not call the allocator; "
  "the ledger must be empty after clear(); double release or release through another allocator aborts the harness; the deserialization memory bound is checked on both deserializers.",
  level_note="C06Mem: deser_memory_linear / mp_deser_memory_linear - for EVERY input, code and failure schedule the memory held by the slot-level deserializers is at most A + B*n (n = bytes consumed; A = one pool + "
  "one maximum-size string while parsing, B = slotSize + 2*poolSize + 1 + string overhead): slots handed out <= n, string bytes <= n, builder/buffer capacity <= maxStrLen, counts announced by MessagePack headers "
  "allocate nothing in advance; C06FExact: deser_tight / filtered_deser_tight / deser_strings_stored_once - after a run without allocation failure (filtered or not, any prior document) every stored string is referenced "
  "exactly as often as its counter says and at least once, no two stored strings are equal, and every live slot is part of the tree (nothing leaked) - the same for deserializeMsgPack (mp_deser_tight, filtered_mp_deser_tight: any answer other than NoMemory); key_leaked_on_failure / mp_key_leaked_on_failure: the kernel-checked witness that the "
  "no-failure hypothesis is needed (a key saved before its member's slot allocation fails stays in the table until clear()); the same bound is checked on the instrumented allocator (total requested and peak) for sampled and hostile inputs; moved-from/swapped documents are covered by the correspondence",
  suites=lambda tier: [S.HistSuite(cfg=G["default"]), S.HistSuite(cfg=G["tiny1"], nh=40 if tier == "quick" else 2000), S.FaultSuite(cfg=G["default"], nh=60 if tier == "quick" else 2000),
                       S.MpDeSuite(cfg=DEF, n=600 if tier == "quick" else 50000), S.DeserMemSuite(cfg=DEF), S.JsonDocSuite(cfg=DEF, n=800 if tier == "quick" else 60000), S.MpDocSuite(cfg=DEF, n=800 if tier == "quick" else 60000), S.LimitSuite(cfg=G["len1"]), S.LimitSuite(cfg=G["id1"]),
                       S.HistSuite(cfg=G["nolonglong"], nh=40 if tier == "quick" else 2000),
                       # filtered runs: allocator log against the model; under ASan a released block that is read again aborts the harness
                       S.JsonDocFSuite(cfg=DEF, n=800 if tier == "quick" else 60000), S.MpDocFSuite(cfg=DEF, n=800 if tier == "quick" else 60000), S.JsonDocFSuite(cfg=G["tiny2"], n=300 if tier == "quick" else 30000)],
  partial=["the bound is on the memory HELD (pool blocks, pool table, string nodes, transient buffer), related to the textual allocator log by the ledger theorems; move/swap by correspondence"])

P("C19", module="AJ.Props.C19All", extra=[("AJ.Props.C19", ["C19"]), ("AJ.Props.C19Str", ["C19"]), ("AJ.Props.C19Geo", ["C19"])], level_text="Theorems for every geometry with poolCap >= 1 and initPools >= 1, every operation sequence and failure oracle: slot identifiers never wrap, "
  "never equal NULL_SLOT, never collide with a live slot; at most 2^(8*idBytes)-1 slots; at the limit allocation fails without touching the state; after a release or clear() allocation "
  "works again. (The proof attempt exposed two defects of the pinned tree, both repaired: table growth past maxPools and a last pool that is too large.) C19.geometry_independent(_below_limit): "
  "two documents with ANY two geometries and the same abstract value, running the same abstract history while staying below the slot limit with a non-failing allocator, end with the same "
  "abstract value (below_limit_succeeds: below the limit every allocation succeeds; needs poolCap >= 2 - with capacity 1 the model's maxPools is 0). The same histories are replayed "
  "under a matrix of geometries and compared with the model, including histories that cross the slot limit with 1-byte ids.",
  level_note="C19Str: the STRING LENGTH limit is part of the slot-level model (Doc.maxStrLen, validated on histories with strings and keys of maxlen-1 / maxlen / maxlen+1 bytes in the 1-byte-length build): "
  "string_length_limit_is_clean_edge - a new string longer than the limit is refused without any allocator call, the document is only flagged, pools, strings, cells and root are unchanged, every invariant is kept "
  "(string_length_limit_keeps_invariants); string_at_limit_succeeds; copied_string_too_long_fails_cleanly / raw_string_too_long_fails_cleanly / key_too_long_fails_cleanly at document level (target null or object unchanged, "
  "same abstract value elsewhere); usable_after_length_failure; string_copy_fails_iff (the two causes of failure, exactly); a failing string copy is clean (string_copy_failure_is_clean), reference counts are bounded by the number of "
  "live slots < 2^(8*idBytes) (refcount_never_wraps(_history)), slot ids never wrap along histories; the deserializers' own limit tests are in the slot-level deserializer models; on the implementation: strings, raw values and keys "
  "of exactly the longest storable length and one byte more (1-byte and 2-byte lengths) must succeed / fail cleanly (false, overflowed, "
  "nothing stored, usable again after clear)",
  suites=lambda tier: [S.HistSuite(cfg=G["id1c10"], nh=30 if tier == "quick" else 1500), S.HistSuite(cfg=G["id1i3"], nh=30 if tier == "quick" else 1500), S.HistSuite(cfg=G["len1"], nh=25 if tier == "quick" else 1500),
                       S.LimitSuite(cfg=G["id1c10"]), S.LimitSuite(cfg=G["tiny1"]), S.LimitSuite(cfg=G["id1i3"]), S.LimitSuite(cfg=G["len1"]), S.LimitSuite(cfg=G["id1c128"]),
                       S.JsonDocSuite(cfg=G["id1c10"], n=300 if tier == "quick" else 30000), S.MpDocSuite(cfg=G["tiny2"], n=300 if tier == "quick" else 30000), S.JsonDocSuite(cfg=G["len1"], n=200 if tier == "quick" else 20000),
                       # the string length limit inside the history model: copied strings and keys of maxlen-1 / maxlen / maxlen+1 / maxlen+40 bytes among the operations, allocator failures on top
                       S.FaultSuite(cfg=G["len1"], nh=120 if tier == "quick" else 4000)] +
  ([S.HistSuite(cfg=G[g], nh=1500) for g in ("tiny2", "len4", "id1")] if tier == "thorough" else []))

P("C20", module="AJ.Props.C20All", extra=[("AJ.Props.C20", ["C20"]), ("AJ.Props.C20Hist", ["C20"])], level_text="On the API model itself (the history interpreter over three documents and ten references that the correspondence ties to the library, lean/AJ/Props/C20Hist.lean): "
  "C20.step_frame / step_reads_only_footprint - every one of 36 typed commands leaves all documents outside its target and all references it does not rebind literally unchanged, and its output and effect depend only on the documents it reads and the references it uses; "
  "ops_on_distinct_documents_commute - two commands with disjoint footprints commute (same world, same outputs); interleaving_of_document_histories - for two histories confined to disjoint sets of documents and references, with a third region only read, "
  "EVERY schedule ends in the world of the sequential run and gives each history its solo outputs; shared_const_source - readers of a shared document commute; copydoc_not_local - the one command that is global in the model (it flushes all allocator logs) is identified and proved not local. "
  "Theorems: (1) the inventory of every object with static storage duration defined by ArduinoJson code — regenerated on every run from the object code of a "
  "translation unit that instantiates the public API — contains only read-only objects and two justified allow-listed ones (the stateless default allocator, the table of error strings); "
  "(2) for any step function without hidden state, every interleaving of per-thread operation lists over distinct documents gives each thread exactly the result of its sequential run. "
  "A function-level static buffer or cache introduced by a change appears in the regenerated inventory and breaks (1). The thread harness runs 8 threads on distinct documents with a "
  "shared const document (copy source, JsonVariantConst filter) and the shared default allocator, sequentially and concurrently, and compares every step (under TSan in the thorough tier).",
  level_note="data races on memory the model does not describe and the thread safety of malloc are observed (TSan), not proved; the inventory covers the API instantiated by the harness translation unit",
  suites=lambda tier: [S.ThreadSuite(cfg=DEF)],
  partial=["races on the binary are observed, not proved"])

P("C14", module="AJ.Props.C14All", extra=[("AJ.Props.C04", ["C14"]), ("AJ.Props.C14Hist", ["C14"])],
  level_text="Theorems: C14.kind_irrelevant - on the slot-level model, storing a string by address (linked) or by copy (owned, de-duplicated, reference-counted) yields the same abstract "
  "document, for every well-formed state and location; C14.history_kind_irrelevant(_at): two whole histories that differ only in how their string values and keys are stored (same abstract "
  "operation list; put_kind/member_kind: linked and copied map to the same abstract operation), from documents with the same abstract value and without allocation failure, end with the same "
  "abstract value - de-duplication and reference counting are invisible (kernel-checked example: one string node with two references vs none, both {hi: hi}). The same history is executed "
  "with five string source kinds for values AND keys (std::string, string_view and JsonString slices of longer buffers, char* in exactly-sized blocks, linked JsonString) and must give "
  "identical observations incl. conversions and termination of every string handed out.",
  level_note="numeric conversion of strings (as<T>() on a string) is compared across kinds on the implementation; the theorems are about documents, not about the adapters' overload resolution",
  suites=lambda tier: [S.StringKindSuite(cfg=DEF), S.HistSuite(cfg=G["default"], nh=30 if tier == "quick" else 1500), S.DeserShareSuite(cfg=G["tiny2"]), S.PairKeySuite(cfg=DEF)])

for pid in list(PROPS):
    if not PROPS[pid]["theorems"]:
        # nothing proved yet for this property: it is not claimed
        NOT_APPLICABLE[pid] = "not claimed yet: the correspondence suites exist, the property theorems are still being proved"
        del PROPS[pid]
