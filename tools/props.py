"""Per-property definition: theorems that must check (lean/AJ/Props/<id>.lean), correspondence suites, notes."""
import suites as S

TRUSTED_BASE = [
    "Lean 4.33.0 kernel (lake build; leanchecker re-check in the thorough tier)",
    "statements of the theorems in lean/AJ/Props and of the specs in lean/AJ/Spec",
    "hand translation C++ -> lean/AJ/Model, validated by the correspondence suites of tools/suites.py (sampling unless marked exhaustive)",
    "translator tools/gen_tables.py + harness/dump_tables.cpp (tables and configuration constants regenerated from /repo on every run)",
    "harness/aj_harness.cpp, g++ 12 with ASan/UBSan, the Python oracles of tools/gens.py and tools/mpack.py",
    "not modelled: C++ overload selection, byte layout of slots, libc/malloc, real stack and threads (observed through sanitizers only)",
]

DEF = {}                                                  # default configuration
CFG_ALL = {"ENABLE_COMMENTS": 1, "ENABLE_NAN": 1, "ENABLE_INFINITY": 1}
CFG_NOUNI = {"DECODE_UNICODE": 0}

PROPS = {}
HOOK_COMMITS = []
NOT_APPLICABLE = {}

PROPS["C17"] = {
    "level_text": "Theorems (for every code point / byte): Utf8::encodeCodepoint is UTF-8, decodeHex is right on every hex digit in both cases, "
                  "surrogate recombination yields the code point, the serializer's escape table is inverted by the deserializer's, and bytes other than "
                  "the eight special ones are emitted verbatim. The tables are regenerated from /repo on every run. The composition through the string "
                  "parser is tied by an exhaustive differential run (all code units, pairs, bytes and byte pairs) of the real library against the model.",
    "level_note": "Lean kernel; axioms propext/Quot.sound/Classical.choice only; model = hand translation validated exhaustively on this domain; "
                  "position independence inside parseQuotedString is covered by the correspondence, not by a theorem yet",
    "theorems": ["C17.encodeCodepoint_eq_utf8", "C17.decodeHex_hex", "C17.surrogate_pair", "C17.unescape_escape", "C17.escape_minimal"],
    "suites": lambda tier: [S.UniSuite(cfg=DEF)],
    "exhaustive": True,
    "rule": "exhaustive enumeration: all 65536 \\uXXXX units x 3 hex-case spellings, surrogate pairs (all 2^20 in the thorough tier, "
            "26 per high unit + 3 per low unit in the quick tier), all 256 bytes and all 65536 byte pairs through serialize+deserialize; "
            "non-trivial = non-ASCII unit / pair / content containing an escaped or >=0x80 byte; distinct by code unit(s) or content",
    "partial": ["the theorems cover encodeCodepoint, decodeHex, surrogate arithmetic and the escape tables; the composition through "
                "parseQuotedString (position independence) rests on the exhaustive correspondence run"],
}

PROPS["C02"] = {
    "level_text": "Theorems for every text and every capacity: the bounded writer returns min(cap,length), stores exactly that prefix, writes a NUL iff "
                  "length < cap (text formats), defines exactly cap bytes and leaves the rest untouched. The text itself (escaping, separators, numbers, "
                  "pretty layout) is produced by the model JSer/JS, which is compared byte for byte with serializeJson/serializeJsonPretty on generated "
                  "documents, and the implementation's text is parsed by an independent RFC 8259 parser and compared with the document; all destination "
                  "kinds, measureJson and guard bytes are checked inside the harness.",
    "level_note": "Lean kernel for the buffer contract; RFC 8259 conformance of the produced text is established by the independent parser on sampled "
                  "documents (not yet by a theorem); Arduino String/Print destinations only in the AJ_ARDUINO build of the thorough tier",
    "theorems": ["C02.buffer_count", "C02.buffer_prefix", "C02.buffer_nul", "C02.buffer_no_nul_binary", "C02.buffer_within", "C02.buffer_untouched", "C02.buffer_content"],
    "suites": lambda tier: [S.JsonSerSuite(cfg=DEF), S.SerBufSweep(cfg=DEF, fmt="json")] + ([S.JsonSerSuite(cfg=CFG_ALL, n=20000), S.JsonSerSuite(cfg={"arduino": 1}, n=20000)] if tier == "thorough" else [S.JsonSerSuite(cfg=CFG_ALL, n=600)]),
    "partial": ["C02_denotes (the text is in the RFC 8259 grammar and denotes the document) is not proved yet; it rests on the correspondence and the independent parser"],
}

PROPS["C03"] = {
    "level_text": "Theorem for every configuration, limit and byte string: the JSON deserializer never takes more bytes from its reader than the input has "
                  "(invariant consumed + unread = length carried through all routines, incl. the mutually recursive parser). The model is compared with the real "
                  "library on bounded-exhaustive token sequences, mutated and random inputs through nine reader kinds, inputs in exactly-sized heap blocks under "
                  "ASan+UBSan; the six codes and source independence are checked on the implementation directly.",
    "level_note": "memory safety of the binary is observed by sanitizers, not proved; the MessagePack bound and fuel sufficiency (termination) theorems are in progress",
    "theorems": ["C03.json_reads_within_input"],
    "suites": lambda tier: [S.JsonAnySuite(cfg=DEF), S.MpDeSuite(cfg=DEF, n=1200 if tier == "quick" else 100000), S.FilterSuite(cfg=DEF, n=2500 if tier == "quick" else 100000)] +
                           ([S.JsonAnySuite(cfg=CFG_ALL, n=200000), S.JsonAnySuite(cfg=CFG_NOUNI, n=100000)] if tier == "thorough" else [S.JsonAnySuite(cfg=CFG_ALL, n=8000)]),
    "partial": ["termination/no-fault (fuel sufficiency) and the MessagePack read bound are not proved yet"],
}
