"""Per-property definition: theorems that must check (lean/AJ/Props/<id>.lean), correspondence suites, notes."""
import suites as S

TRUSTED_BASE = [
    "Lean 4.33.0 kernel (lake build; leanchecker re-check in the thorough tier)",
    "statements of the theorems in lean/AJ/Props and of the specs in lean/AJ/Spec",
    "hand translation C++ -> lean/AJ/Model, validated by the correspondence suites of tools/suites.py (sampling unless marked exhaustive)",
    "translator tools/gen_tables.py + harness/dump_tables.cpp (tables and configuration constants regenerated from /repo on every run)",
    "harness/aj_harness.cpp, g++ 12 with ASan/UBSan, the Python oracles of tools/gens.py and tools/mpack.py",
    "not modelled: C++ overload selection, byte layout of slots, libc/malloc, real stack and threads (observed through sanitizers only)",
]

DEF = {}                                                  # default configuration
CFG_ALL = {"ENABLE_COMMENTS": 1, "ENABLE_NAN": 1, "ENABLE_INFINITY": 1}
CFG_NOUNI = {"DECODE_UNICODE": 0}

PROPS = {}
HOOK_COMMITS = []
NOT_APPLICABLE = {}

PROPS["C17"] = {
    "level_text": "Theorems (for every code point / byte): Utf8::encodeCodepoint is UTF-8, decodeHex is right on every hex digit in both cases, "
                  "surrogate recombination yields the code point, the serializer's escape table is inverted by the deserializer's, and bytes other than "
                  "the eight special ones are emitted verbatim. The tables are regenerated from /repo on every run. The composition through the string "
                  "parser is tied by an exhaustive differential run (all code units, pairs, bytes and byte pairs) of the real library against the model.",
    "level_note": "Lean kernel; axioms propext/Quot.sound/Classical.choice only; model = hand translation validated exhaustively on this domain; "
                  "position independence inside parseQuotedString is covered by the correspondence, not by a theorem yet",
    "theorems": ["C17.encodeCodepoint_eq_utf8", "C17.decodeHex_hex", "C17.surrogate_pair", "C17.unescape_escape", "C17.escape_minimal"],
    "suites": lambda tier: [S.UniSuite(cfg=DEF)],
    "exhaustive": True,
    "rule": "exhaustive enumeration: all 65536 \\uXXXX units x 3 hex-case spellings, surrogate pairs (all 2^20 in the thorough tier, "
            "26 per high unit + 3 per low unit in the quick tier), all 256 bytes and all 65536 byte pairs through serialize+deserialize; "
            "non-trivial = non-ASCII unit / pair / content containing an escaped or >=0x80 byte; distinct by code unit(s) or content",
    "partial": ["the theorems cover encodeCodepoint, decodeHex, surrogate arithmetic and the escape tables; the composition through "
                "parseQuotedString (position independence) rests on the exhaustive correspondence run"],
}
