#!/usr/bin/env python3
"""replay.py <replay.json>: re-run one recorded case on the implementation (harness rebuilt from /repo) and on the model."""
import json, os, sys
sys.path.insert(0, os.path.dirname(os.path.abspath(__file__)))
import ajlib
r = json.load(open(sys.argv[1]))
print("what:", r.get("what") or r.get("broken"))
if "line" not in r:
    print(json.dumps(r, indent=1)[:3000])
    sys.exit(0)
ok, out = ajlib.ensure_driver()
exe, err = ajlib.build_harness(r.get("cfg") or {}, r.get("source", "aj_harness.cpp"))
if exe is None:
    print("harness does not build:\n" + err[-2000:]); sys.exit(2)
lines = r["line"] if isinstance(r["line"], list) else [r["line"]]
ho = ajlib.run_harness_chunk(exe, lines)
print("lines:"); [print("  " + l[:400]) for l in lines]
print("implementation now:"); [print("  " + str(h)[:600]) for h in ho]
print("implementation when recorded:", str(r.get("implementation"))[:600])
if ok and r.get("model") is not None:
    try:
        mo = ajlib.run_driver_chunk(lines)
        print("model now:"); [print("  " + m[:600]) for m in mo]
    except Exception as e:
        print("model driver:", e)
