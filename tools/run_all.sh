#!/bin/bash
# run every claimed check once (tier from $1, default quick); prints one summary line per property
cd "$(dirname "$0")/.."
tier=${1:-quick}
python3 tools/setup.py > /dev/null 2>&1
for p in $(python3 -c "import json; print(' '.join(c['property_id'] for c in json.load(open('MANIFEST.json'))['checks']))"); do
  out=$(python3 tools/check.py $p --tier $tier 2>&1)
  echo "$out" | grep -E "^(VIOLATION|KNOWN-FINDING|C[0-9]+ (quick|thorough):)" | cut -c1-220
done
