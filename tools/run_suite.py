#!/usr/bin/env python3
"""developer tool: run one suite and print disagreements / oracle failures grouped by signature"""
import json, os, random, sys, time, collections
sys.path.insert(0, os.path.dirname(os.path.abspath(__file__)))
import ajlib, suites
name = sys.argv[1]
tier = sys.argv[2] if len(sys.argv) > 2 else "quick"
cfg = json.loads(sys.argv[3]) if len(sys.argv) > 3 else {}
kw = json.loads(sys.argv[4]) if len(sys.argv) > 4 else {}
s = getattr(suites, name)(cfg=cfg, **kw)
ok, out = ajlib.ensure_driver()
assert ok, out[-2000:]
exe, err = ajlib.build_harness(cfg)
assert exe, err[-3000:]
rng = random.Random(int(os.environ.get("VERIF_SEED", "1")))
t = time.time()
cases = s.generate(rng, tier)
print("generated", len(cases), "in %.1fs" % (time.time() - t)); t = time.time()
gs = s.group_starts(cases) if hasattr(s, "group_starts") else None
ho, mo = ajlib.run_both(exe, [c.meta.get("mline", c.line) for c in cases], hlines=[c.line for c in cases], group_starts=gs, driver=getattr(s, "uses_driver", True))
print("ran in %.1fs" % (time.time() - t)); t = time.time()
dis = collections.defaultdict(list); orc = collections.defaultdict(list); feats = set()
for i, c in enumerate(cases):
    if ho[i] == "SKIPPED": continue
    if mo and not c.meta.get("nocompare"):
        d = s.compare(c, ho[i], mo[i])
        if d: dis[d[:40]].append((c.line, d))
    o = s.oracle(c, ho[i])
    if o: orc[o[0]].append((c.line, o[1]))
    f = s.feature(c, ho[i])
    if f is not None: feats.add(f)
if hasattr(s, "post"):
    for sig, desc, c in s.post(cases, ho):
        orc[sig].append((c.line, desc))
print("judged in %.1fs; %d distinct non-trivial" % (time.time() - t, len(feats)))
print("DISAGREEMENTS:", sum(len(v) for v in dis.values()))
for k, v in list(dis.items())[:8]:
    print("  x%d  %s\n      %s" % (len(v), v[0][0][:200], v[0][1][:400]))
print("ORACLE FAILURES:", sum(len(v) for v in orc.values()))
for k, v in orc.items():
    print("  [%s] x%d  %s\n      %s" % (k, len(v), v[0][0][:200], v[0][1][:300]))
    for l, dsc in v[1:3]:
        print("      also: %s | %s" % (l[:120], dsc[:160]))
