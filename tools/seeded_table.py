#!/usr/bin/env python3
"""prints the markdown table of seeded changes (seeded/*/meta.json) for DESIGN.md section 12"""
import json, os, glob, re
ROOT = os.path.dirname(os.path.dirname(os.path.abspath(__file__)))
print("| seeded change | what it breaks / needs to manifest | confirmed (suite green with patch; demo fails with, passes without) | caught by (quick check) | how |")
print("|---|---|---|---|---|")
for d in sorted(glob.glob(os.path.join(ROOT, "seeded", "*"))):
    mp = os.path.join(d, "meta.json")
    if not os.path.exists(mp):
        continue
    m = json.load(open(mp))
    name = os.path.basename(d)
    notes = m.get("needs_to_manifest", "")
    first = re.sub(r"\s+", " ", notes.replace("#", "")).strip()[:230]
    c = m.get("confirmed", {})
    conf = "yes" if c.get("suite_passes_with_patch") and c.get("demo_with_patch_rc") not in (0, None) and c.get("demo_without_patch_rc") == 0 else "NO: %s" % c
    caught = []
    how = []
    for p, v in m.get("checks", {}).items():
        if isinstance(v, dict) and v.get("exit") == 1 and v.get("violation_lines"):
            caught.append(p)
            det = (v.get("detail") or [""])[0]
            how.append(det.split(":")[0] + ":" + det.split(":")[1] if det.count(":") >= 1 else det[:40])
    print("| %s | %s | %s | %s | %s |" % (name, first.replace("|", "/"), conf, ", ".join(caught) or "**missed**", "; ".join(h[:60] for h in how)))
