#!/usr/bin/env python3
"""setup: build the Lean library (models, proofs, driver) and the default harness from the files on disk, offline."""
import os, sys
sys.path.insert(0, os.path.dirname(os.path.abspath(__file__)))
import ajlib, props
ok, out = ajlib.ensure_driver()
print(out[-2000:] if not ok else "driver ok")
mods = sorted({v["module"] for v in props.PROPS.values()})
ok2, out2 = ajlib.lake_build(mods)
print(out2[-2000:] if not ok2 else "proofs ok")
cfgs = []
for p in props.PROPS.values():
    for s in p["suites"]("quick"):
        if s.cfg not in cfgs and not hasattr(s, "run_custom"):
            cfgs.append(s.cfg)
res = ajlib.build_harnesses(cfgs)
bad = [e for x, e in res if x is None]
print("harness builds: %d ok, %d failed" % (len(res) - len(bad), len(bad)))
for e in bad:
    print(e[-1500:])
sys.exit(0 if ok and ok2 and not bad else 1)
